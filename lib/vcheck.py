#!/usr/bin/env python3
"""Driver of every /verif check.

  bin/check Cxx [--tier quick|thorough] [--replay FILE]

Steps (DESIGN.md section 4): regenerate Gen/Consts.v from the repository's
current tree, full .vo build of the Coq development, compile Props/Cxx.v and
collect Print Assumptions for each theorem, build the Go harness against the
repository with -tags verif, run it (implementation observations + direct
oracle), evaluate the model on the same cases inside coqc (vm_compute), decide,
write evidence/Cxx.json.
"""
import fcntl
import hashlib
import json
import os
import re
import shutil
import subprocess
import sys
import tempfile
import time
from concurrent.futures import ThreadPoolExecutor

ROOT = os.path.dirname(os.path.dirname(os.path.abspath(__file__)))
REPO = os.environ.get("VERIF_REPO", "/repo")
BUILD = os.path.join(ROOT, ".build")
COQ = os.path.join(ROOT, "coq")
HARNESS = os.path.join(ROOT, "harness")
KEY = hashlib.sha1(REPO.encode()).hexdigest()[:8]

ALLOWED_AXIOMS = {
    # axioms declared by Coq's standard library; named in the trusted base when used
    "functional_extensionality_dep", "FunctionalExtensionality.functional_extensionality_dep",
    "classic", "Classical_Prop.classic",
    "proof_irrelevance", "ProofIrrelevance.proof_irrelevance",
    "JMeq_eq", "JMeq.JMeq_eq",
    "Eqdep.Eq_rect_eq.eq_rect_eq", "eq_rect_eq",
    "propositional_extensionality", "PropExtensionality.propositional_extensionality",
}

FORBIDDEN = re.compile(
    r"\b(Admitted|admit|Axiom|Axioms|Parameter|Parameters|Conjecture|Conjectures|Admit Obligations)\b"
    r"|Unset\s+Guard|Unset\s+Positivity|Unset\s+Universe|bypass_check|type-in-type|impredicative-set|native_compute")


def goenv():
    env = dict(os.environ)
    env["GOFLAGS"] = "-mod=mod"
    env["GOPROXY"] = "off"
    env.pop("GOSUMDB", None)
    env["GOTOOLCHAIN"] = "auto"
    env.pop("GONOSUMDB", None)
    return env


COQ_MEM_GB = int(os.environ.get("VERIF_COQ_MEM_GB", "16"))


def _limit_mem():
    import resource
    lim = COQ_MEM_GB << 30
    resource.setrlimit(resource.RLIMIT_AS, (lim, lim))


def sh(cmd, cwd=None, env=None, timeout=None):
    # every Coq process runs under an address-space limit so a runaway proof
    # search or evaluation cannot take the machine down
    pre = _limit_mem if any(str(c) in ("coqc", "make", "coqchk") for c in cmd[:3]) else None
    p = subprocess.run(cmd, cwd=cwd, env=env, stdout=subprocess.PIPE, stderr=subprocess.STDOUT,
                       timeout=timeout, text=True, errors="replace", preexec_fn=pre)
    return p.returncode, p.stdout


class Lock:
    def __init__(self, name, shared=False):
        os.makedirs(BUILD, exist_ok=True)
        self.path = os.path.join(BUILD, name)
        self.shared = shared

    def __enter__(self):
        self.f = open(self.path, "a")
        fcntl.flock(self.f, fcntl.LOCK_SH if self.shared else fcntl.LOCK_EX)

    def __exit__(self, *a):
        fcntl.flock(self.f, fcntl.LOCK_UN)
        self.f.close()


# --------------------------------------------------------------------------- go

def modfile():
    """go.mod for the harness with the replace pointing at REPO (regenerated
    from the repository's own go.mod so the dependency versions follow it)."""
    os.makedirs(BUILD, exist_ok=True)
    mf = os.path.join(BUILD, "go-%s.mod" % KEY)
    src = open(os.path.join(REPO, "go.mod")).read()
    gover = re.search(r"^go\s+(\S+)", src, re.M).group(1)
    reqs = re.findall(r"^require\s*\((.*?)^\)", src, re.M | re.S)
    single = re.findall(r"^require\s+([^\s(]+\s+\S+)", src, re.M)
    repl = re.findall(r"^replace\s+(.*)$", src, re.M)
    out = ["module verifharness", "", "go " + gover, "",
           "require github.com/MixinNetwork/mixin v0.0.0", "", "require ("]
    for blk in reqs:
        for ln in blk.strip().splitlines():
            ln = ln.strip()
            if ln:
                out.append("\t" + ln)
    for ln in single:
        out.append("\t" + ln)
    out += [")", "", "replace github.com/MixinNetwork/mixin => " + REPO]
    for r in repl:
        out.append("replace " + r)
    txt = "\n".join(out) + "\n"
    if not os.path.exists(mf) or open(mf).read() != txt:
        open(mf, "w").write(txt)
    shutil.copyfile(os.path.join(REPO, "go.sum"), os.path.join(BUILD, "go-%s.sum" % KEY))
    return mf


def go_build(cmd):
    bindir = os.path.join(BUILD, "bin-" + KEY)
    os.makedirs(bindir, exist_ok=True)
    out = os.path.join(bindir, cmd)
    rc, log = sh(["go", "build", "-tags", "verif", "-modfile", modfile(), "-o", out, "./cmd/" + cmd],
                 cwd=HARNESS, env=goenv(), timeout=1500)
    return rc, log, out


# -------------------------------------------------------------------------- coq

def coq_files():
    fs = []
    for d in ("Base", "Gen", "Model", "Proofs", "Run"):
        dd = os.path.join(COQ, d)
        if os.path.isdir(dd):
            for f in sorted(os.listdir(dd)):
                if f.endswith(".v"):
                    fs.append("%s/%s" % (d, f))
    return fs


def regen_consts():
    """Translator: constants of the current tree -> coq/Gen/Consts.v."""
    rc, log, exe = go_build("constgen")
    if rc != 0:
        return False, "constgen build failed:\n" + log
    rc, out = sh([exe], timeout=120)
    if rc != 0:
        return False, "constgen failed:\n" + out
    dst = os.path.join(COQ, "Gen", "Consts.v")
    os.makedirs(os.path.dirname(dst), exist_ok=True)
    if not os.path.exists(dst) or open(dst).read() != out:
        open(dst, "w").write(out)
    return True, ""


def coq_build(pid=None):
    """Full .vo build (never -vos/-vok), make -k so a broken file only takes
    down what depends on it.  pid=None builds everything but Props/; with a
    pid only what Props/<pid>.v and Run/<pid>.v need (make follows coqdep).
    Returns (rc, log, failed)."""
    proj = "-R . Mixin\n" + "\n".join(coq_files()) + "\n"
    pj = os.path.join(COQ, "_CoqProject")
    if not os.path.exists(pj) or open(pj).read() != proj:
        open(pj, "w").write(proj)
        sh(["coq_makefile", "-f", "_CoqProject", "-o", "Makefile.coq"], cwd=COQ)
    if not os.path.exists(os.path.join(COQ, "Makefile.coq")):
        sh(["coq_makefile", "-f", "_CoqProject", "-o", "Makefile.coq"], cwd=COQ)
    targets = []
    if pid is not None:
        want = set(closure(pid)) | set(closure_of(os.path.join("Run", pid + ".v")))
        targets = sorted(f + "o" for f in want if not f.startswith("Props/") and os.path.exists(os.path.join(COQ, f)))
    rc, log = sh(["timeout", "3000", "make", "-k", "-j16", "-f", "Makefile.coq"] + targets, cwd=COQ)
    failed = []
    for m in re.finditer(r'File "\./([^"]+)", line (\d+), characters[^\n]*\n((?:.*\n){0,12}?)(?=File |make|COQC|$)', log):
        f, line, body = m.group(1), int(m.group(2)), m.group(3)
        if "Error" in body or "error" in body:
            failed.append({"file": f, "line": line, "lemma": enclosing(os.path.join(COQ, f), line),
                           "error": body.strip()[:400]})
    return rc, log, failed


def enclosing(path, line):
    try:
        lines = open(path).read().splitlines()
    except OSError:
        return None
    for i in range(min(line, len(lines)) - 1, -1, -1):
        m = re.match(r"\s*(?:Local\s+|Global\s+|#\[[^\]]*\]\s*)*(Theorem|Lemma|Corollary|Fact|Remark|Proposition|Example|Definition|Fixpoint|Instance)\s+([A-Za-z0-9_']+)", lines[i])
        if m:
            return m.group(2)
    return None


def closure(pid):
    """Source files Props/<pid>.v depends on (transitively), by its Require lines."""
    return closure_of(os.path.join("Props", pid + ".v"))


def closure_of(start):
    seen, todo = set(), [start]
    while todo:
        f = todo.pop()
        if f in seen:
            continue
        p = os.path.join(COQ, f)
        if not os.path.exists(p):
            continue
        seen.add(f)
        txt = re.sub(r"\(\*.*?\*\)", "", open(p, errors="replace").read(), flags=re.S)
        for m in re.finditer(r"\bMixin\.([A-Za-z0-9_]+)\.([A-Za-z0-9_]+)", txt):
            todo.append(os.path.join(m.group(1), m.group(2) + ".v"))
    return sorted(seen)


def gate(pid=None):
    """No Admitted/Axiom/... in the files the property's theorems depend on
    (pid=None: anywhere in the development)."""
    bad = []
    if pid is None:
        files = []
        for dp, _, fs in os.walk(COQ):
            files += [os.path.relpath(os.path.join(dp, f), COQ) for f in fs if f.endswith(".v")]
    else:
        files = closure(pid) + [os.path.join("Run", pid + ".v")]
    for f in files:
        p = os.path.join(COQ, f)
        if not os.path.exists(p):
            continue
        txt = open(p, errors="replace").read()
        txt = re.sub(r"\(\*.*?\*\)", "", txt, flags=re.S)  # comments may mention the words
        for m in FORBIDDEN.finditer(txt):
            bad.append("%s: %s" % (os.path.relpath(p, ROOT), m.group(0)))
    return bad


def props(pid):
    """Compile Props/Cxx.v, then Print Assumptions of each of its theorems."""
    src = os.path.join(COQ, "Props", pid + ".v")
    res = {"theorems": [], "compiled": False, "log": ""}
    if not os.path.exists(src):
        res["log"] = "no Props/%s.v" % pid
        return res
    txt = open(src).read()
    stripped = re.sub(r"\(\*.*?\*\)", "", txt, flags=re.S)
    names = re.findall(r"^\s*Theorem\s+([A-Za-z0-9_']+)", stripped, re.M)
    rc, log = sh(["timeout", "900", "coqc", "-R", COQ, "Mixin", src])
    res["log"] = log
    if rc != 0:
        m = re.search(r'line (\d+), characters', log)
        broken = enclosing(src, int(m.group(1))) if m else None
        res["theorems"] = [{"name": n, "discharged": False, "axioms": [],
                            "note": "Props/%s.v does not compile (first error in %s)" % (pid, broken)} for n in names]
        res["broken"] = broken
        return res
    res["compiled"] = True
    pa = os.path.join(BUILD, "pa_%s_%d.v" % (pid, os.getpid()))
    with open(pa, "w") as f:
        f.write("Require Import Mixin.Props.%s.\n" % pid)
        for n in names:
            f.write('Goal True. idtac "@@THM %s". exact I. Qed.\nPrint Assumptions %s.\n' % (n, n))
    rc, out = sh(["timeout", "900", "coqc", "-R", COQ, "Mixin", pa])
    for ext in ("", "o", "ok", "os"):
        for p in (pa + ext, pa[:-2] + ".glob", os.path.join(BUILD, "." + os.path.basename(pa)[:-2] + ".aux")):
            if os.path.exists(p) and p != pa[:-2]:
                try:
                    os.remove(p)
                except OSError:
                    pass
    blocks = out.split("@@THM ")[1:]
    seen = {}
    for b in blocks:
        name, _, body = b.partition("\n")
        name = name.strip()
        body = body.strip()
        if "Closed under the global context" in body:
            seen[name] = {"name": name, "discharged": True, "axioms": [], "print_assumptions": "Closed under the global context"}
        else:
            axs = re.findall(r"^([A-Za-z0-9_.']+)\s*:", body, re.M)
            ok = bool(axs) and all(a in ALLOWED_AXIOMS or a.split(".")[-1] in ALLOWED_AXIOMS for a in axs)
            seen[name] = {"name": name, "discharged": ok, "axioms": axs, "print_assumptions": body[:600]}
    for n in names:
        res["theorems"].append(seen.get(n, {"name": n, "discharged": False, "axioms": [], "note": "no Print Assumptions output"}))
    return res


def coqchk(pid):
    """Independent re-check of the compiled theorems (thorough tier)."""
    rc, out = sh(["timeout", "2400", "coqchk", "-silent", "-o", "-R", COQ, "Mixin", "Mixin.Props." + pid])
    summary = out[out.find("CONTEXT SUMMARY"):] if "CONTEXT SUMMARY" in out else out[-1500:]
    axioms = re.search(r"\* Axioms:(.*?)\n\s*\n\* Constants", summary, re.S)
    return {"ok": rc == 0, "axioms": (axioms.group(1).strip() if axioms else "?"), "summary": summary.strip()[:3000]}


def eval_cases(pid, outdir, shard=300):
    """Model side of the correspondence: cases.txt -> shards -> coqc vm_compute."""
    path = os.path.join(outdir, "cases.txt")
    cases = [l.rstrip("\n") for l in open(path)] if os.path.exists(path) else []
    if not cases:
        return 0, [], ""
    shards = [cases[i:i + shard] for i in range(0, len(cases), shard)]
    tmp = tempfile.mkdtemp(prefix="vcases_")

    def one(k):
        f = os.path.join(tmp, "s%d.v" % k)
        with open(f, "w") as w:
            w.write("From Coq Require Import List ZArith NArith Bool String.\nImport ListNotations.\n")
            w.write("Require Import Mixin.Base.Res Mixin.Run.%s.\n" % pid)
            w.write("Definition cases : list case := [\n")
            w.write(";\n".join(shards[k]))
            w.write("\n].\nDefinition bad : list N := Eval vm_compute in mismatches check cases.\nPrint bad.\n")
        rc, out = sh(["timeout", "1800", "coqc", "-R", COQ, "Mixin", f], cwd=tmp)
        if rc != 0:
            return k, None, out
        m = re.search(r"bad\s*=\s*(.*?):\s*list N", out, re.S)
        if not m:
            return k, None, out
        # the list prints as [1%N; 6%N] or, if Run/Cxx.v leaves N_scope open, as [1; 6]
        return k, [int(x) for x in re.findall(r"\d+", m.group(1))], out

    bad, errlog = [], ""
    with ThreadPoolExecutor(max_workers=int(os.environ.get('VERIF_JOBS', '8'))) as ex:
        for k, idx, out in ex.map(one, range(len(shards))):
            if idx is None:
                errlog += "shard %d failed:\n%s\n" % (k, out[-1500:])
            else:
                bad += [k * shard + i for i in idx]
    shutil.rmtree(tmp, ignore_errors=True)
    return len(cases), sorted(bad), errlog


# ------------------------------------------------------------------- findings

def known_findings(pid):
    out = []
    p = os.path.join(ROOT, "known_findings.txt")
    if os.path.exists(p):
        for ln in open(p):
            m = re.match(r"finding:\s*property=(\S+)\s+sig=(\S+)\s*::\s*(.*)", ln.strip())
            if m and m.group(1) == pid:
                out.append({"sig": m.group(2), "text": m.group(3)})
    return out


def run_harness(exe, pid, tier, seed, outdir, replay=None, timeout=7200):
    cmd = [exe, "--tier", tier, "--seed", str(seed), "--out", outdir]
    if replay:
        cmd += ["--replay", replay]
    env = dict(os.environ)
    env["VERIF_ROOT"] = ROOT
    env["VERIF_REPO"] = REPO
    rc, log = sh(["timeout", str(timeout)] + cmd, env=env)
    rep = None
    rp = os.path.join(outdir, "report.json")
    if os.path.exists(rp):
        try:
            rep = json.load(open(rp))
        except ValueError:
            rep = None
    return rc, log, rep


def write_replay(pid, seed, tier, n, obj):
    d = os.path.join(ROOT, "replays")
    os.makedirs(d, exist_ok=True)
    p = os.path.join(d, "%s-%s-%d.json" % (pid, seed, n))
    obj = dict(obj)
    obj.update({"property": pid, "seed": seed, "tier": tier})
    json.dump(obj, open(p, "w"), indent=1)
    return p


def load_meta(pid):
    p = os.path.join(ROOT, "checks", pid + ".json")
    return json.load(open(p)) if os.path.exists(p) else {}


# ------------------------------------------------------------------------ main

def main(argv):
    t0 = time.time()
    if len(argv) < 2:
        print("usage: check Cxx [--tier quick|thorough] [--replay FILE]")
        return 2
    pid = argv[1]
    tier = os.environ.get("VERIF_TIER", "quick")
    replay = None
    i = 2
    while i < len(argv):
        if argv[i] == "--tier":
            tier = argv[i + 1]; i += 2
        elif argv[i] == "--replay":
            replay = argv[i + 1]; i += 2
        else:
            i += 1
    if tier not in ("quick", "thorough"):
        tier = "quick"
    try:
        seed = int(os.environ.get("VERIF_SEED", "1"))
    except ValueError:
        seed = 1
    meta = load_meta(pid)
    cmdname = pid.lower()
    lines = []      # VIOLATION / KNOWN-FINDING lines
    violations = 0
    notes = []

    # 1-2. translator + Coq build (shared, locked)
    # the shared libraries are (re)built under the exclusive lock; the property's own
    # theorems compile under the shared lock so that checks of different properties overlap
    with Lock("coq.lock"):
        okc, clog = regen_consts()
        if not okc:
            notes.append(clog[-2000:])
        rc_make, mlog, failed = coq_build(pid)
    with Lock("coq.lock", shared=True):
        with Lock("props-%s.lock" % pid):
            pr = props(pid)
            if not pr["compiled"] and ("inconsistent assumptions" in pr["log"] or "Cannot find" in pr["log"]):
                pass_retry = True
            else:
                pass_retry = False
        if pass_retry:
            pr = None
    if pr is None:
        with Lock("coq.lock"):
            coq_build(pid)
        with Lock("coq.lock", shared=True):
            with Lock("props-%s.lock" % pid):
                pr = props(pid)
    with Lock("coq.lock", shared=True):
        chk = coqchk(pid) if (tier == "thorough" and pr["compiled"] and not replay) else None
    gate_bad = gate(pid)
    theorems = pr["theorems"]
    obligations = len(theorems)
    discharged = sum(1 for t in theorems if t["discharged"])
    proofs_ok = okc and obligations > 0 and discharged == obligations and not gate_bad
    if chk is not None and not chk["ok"]:
        proofs_ok = False
        notes.append("coqchk failed:\n" + chk["summary"][-1500:])
    broken_names = [t["name"] for t in theorems if not t["discharged"]]

    # 3. harness
    outdir = tempfile.mkdtemp(prefix="vh_%s_" % pid)
    rcb, blog, exe = go_build(cmdname)
    rep, hlog = None, ""
    if rcb != 0:
        notes.append("harness build failed:\n" + blog[-3000:])
    else:
        if replay:
            rch, hlog, rep = run_harness(exe, pid, tier, seed, outdir, replay=replay)
        else:
            rch, hlog, rep = run_harness(exe, pid, tier, seed, outdir)
        if rep is None:
            notes.append("harness produced no report (exit %s):\n%s" % (rch, hlog[-3000:]))

    # 4. model on the same cases
    ncases, bad, evlog = (0, [], "")
    if rep is not None:
        with Lock("coq.lock", shared=True):
            ncases, bad, evlog = eval_cases(pid, outdir)
        if evlog and ("inconsistent assumptions" in evlog or "Cannot find" in evlog or "not found in loadpath" in evlog):
            # a concurrent check rebuilt a shared library under us: rebuild ours and evaluate again
            with Lock("coq.lock"):
                coq_build(pid)
            with Lock("coq.lock", shared=True):
                ncases, bad, evlog = eval_cases(pid, outdir)
        if evlog:
            notes.append(evlog[-3000:])
    corr_ok = rep is not None and not bad and not evlog

    # 5. decision
    kf = known_findings(pid)
    kf_sigs = {k["sig"]: k for k in kf}
    failures = (rep or {}).get("failures") or []
    known_hit, unknown = {}, []
    for f in failures:
        if f["sig"] in kf_sigs:
            known_hit.setdefault(f["sig"], f)
        else:
            unknown.append(f)

    searched = None
    if not unknown and (not proofs_ok or not corr_ok) and rep is not None and not replay:
        # search the implementation for a failing input (oracle over 10x more cases, two seeds)
        searched = 0
        for s2 in (seed, seed + 7919):
            sdir = tempfile.mkdtemp(prefix="vhs_%s_" % pid)
            _, _, srep = run_harness(exe, pid, "search", s2, sdir)
            shutil.rmtree(sdir, ignore_errors=True)
            if srep:
                searched += srep.get("evaluations", 0)
                for f in srep.get("failures") or []:
                    if f["sig"] in kf_sigs:
                        known_hit.setdefault(f["sig"], f)
                    else:
                        unknown.append(f)
            if unknown:
                break

    n = 0
    seen_sig = set()
    for f in unknown:
        if f["sig"] in seen_sig:
            continue
        seen_sig.add(f["sig"])
        p = write_replay(pid, seed, tier, n, {"kind": "impl-violation", "oracle": f["what"], "sig": f["sig"], "case": f["case"]})
        lines.append("VIOLATION property=%s replay=%s" % (pid, p))
        violations += 1
        n += 1
    for sig, f in known_hit.items():
        lines.append("KNOWN-FINDING: property=%s %s (sig=%s; %s)" % (pid, kf_sigs[sig]["text"], sig, f["what"][:200]))

    if not unknown and not replay:
        if not proofs_ok:
            what = {"kind": "proof-obligation", "theorems": broken_names, "coq_errors": failed[:5],
                    "gate": gate_bad[:10], "props_log": pr["log"][-1500:], "notes": notes,
                    "searched_cases": searched,
                    "case": None}
            p = write_replay(pid, seed, tier, n, what)
            lines.append("VIOLATION property=%s replay=%s no-failing-input-found" % (pid, p))
            violations += 1
            n += 1
        elif not corr_ok:
            cj = []
            try:
                allc = json.load(open(os.path.join(outdir, "cases.json")))
                cj = [allc[i] for i in bad[:5]]
            except Exception:
                pass
            what = {"kind": "correspondence", "relation": "Run/%s.v check (model = implementation observation)" % pid,
                    "mismatching_case_indices": bad[:50], "cases": cj, "notes": notes, "searched_cases": searched,
                    "case": cj[0] if cj else None}
            p = write_replay(pid, seed, tier, n, what)
            lines.append("VIOLATION property=%s replay=%s no-failing-input-found" % (pid, p))
            violations += 1
            n += 1

    # 6. evidence
    tb = [
        "Coq 8.16.1 kernel and coqc; vm_compute for cases.v and finite sweeps; no native_compute",
        "Print Assumptions per theorem: " + "; ".join(
            "%s: %s" % (t["name"], "closed" if t.get("discharged") and not t.get("axioms") else
                        (",".join(t.get("axioms") or []) or t.get("note", "not discharged"))) for t in theorems),
        "constants translator harness/cmd/constgen (compiled against the current tree, emits coq/Gen/Consts.v)",
        "correspondence harness harness/cmd/%s + Run/%s.v (Go generators, canonicalisation, vm_compute comparison)" % (cmdname, pid),
    ] + meta.get("trusted_base", [])
    cov = {
        "obligations": obligations,
        "discharged": discharged,
        "checker_cmd": "make -C coq -f Makefile.coq (coqc 8.16.1, full .vo) && coqc -R coq Mixin coq/Props/%s.v && Print Assumptions" % pid,
        "trusted_base": tb,
        "theorems": theorems,
        "evaluations": (rep or {}).get("evaluations", 0),
        "distinct_nontrivial": (rep or {}).get("distinct_nontrivial", 0),
        "rule": (rep or {}).get("rule", ""),
        "samples": (rep or {}).get("samples", []),
        "distribution": (rep or {}).get("distribution", {}),
        "traces_validated_against_impl": ncases,
        "correspondence_mismatches": len(bad),
        "oracle_failures": len(failures),
        "known_findings_hit": sorted(known_hit.keys()),
        "search_cases_after_break": searched,
        "harness_notes": (rep or {}).get("notes", []),
        "repo": REPO,
    }
    if chk is not None:
        cov["coqchk"] = chk
        tb.append("coqchk -silent -o (independent checker) on Mixin.Props.%s: %s; axioms: %s" % (pid, "ok" if chk["ok"] else "FAILED", chk["axioms"]))
    ev = {
        "property_id": pid, "tier": tier, "seed": seed, "level": "proof",
        "coverage": cov,
        "assumptions": meta.get("assumptions", []),
        "wall_s": round(time.time() - t0, 2),
        "violations": violations,
    }
    if not replay:
        # evidence is only ever written from a run against /repo itself
        evdir = os.path.join(ROOT, "evidence") if REPO == "/repo" else os.path.join(BUILD, "evidence-" + KEY)
        os.makedirs(evdir, exist_ok=True)
        json.dump(ev, open(os.path.join(evdir, pid + ".json"), "w"), indent=1)
    shutil.rmtree(outdir, ignore_errors=True)

    print("check %s tier=%s seed=%d: theorems %d/%d, model-vs-impl cases %d (mismatches %d), oracle evaluations %d (failures %d), %.1fs"
          % (pid, tier, seed, discharged, obligations, ncases, len(bad), cov["evaluations"], len(failures), time.time() - t0))
    for nline in notes:
        print("note: " + nline[:1500])
    if rep is None and not lines:
        # machinery failure (build error in the tree under check): the property is no longer shown to hold
        p = write_replay(pid, seed, tier, n, {"kind": "harness-failure", "notes": notes, "case": None})
        lines.append("VIOLATION property=%s replay=%s no-failing-input-found" % (pid, p))
        violations += 1
    for ln in lines:
        print(ln)
    return 1 if violations else 0


if __name__ == "__main__":
    sys.exit(main(sys.argv))
