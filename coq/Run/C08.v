(* Correspondence cases for C08: inputs of the real parser / builders of
   p2p/handle.go together with what they returned; [check] recomputes with the
   model.  The opaque decoders are instantiated by tables of the results the
   real decoders gave on the slices concerned: a decoded snapshot is observed
   as (payload hash, has a signature), a decoded transaction as its canonical
   bytes.  A slice missing from a table is tried with both answers, and both
   must reproduce the observation. *)
From Coq Require Import List ZArith NArith Bool.
Require Import Mixin.Base.Res.
Require Export Mixin.Model.P2PMsg.
Import ListNotations.
Open Scope Z_scope.

Definition osnap := (N * bool)%type.
Definition omsg := msg osnap bytes.

Fixpoint lookup {V} (tab : list (bytes * V)) (k : bytes) : option V :=
  match tab with
  | [] => None
  | (k', v) :: r => if bytes_eqb k k' then Some v else lookup r k
  end.

Fixpoint list_eqb {A} (eqb : A -> A -> bool) (a b : list A) : bool :=
  match a, b with
  | [], [] => true
  | x :: a', y :: b' => eqb x y && list_eqb eqb a' b'
  | _, _ => false
  end.

Definition osnap_eqb (a b : osnap) : bool := (fst a =? fst b)%N && Bool.eqb (snd a) (snd b).
Definition point_eqb (a b : sync_point) : bool :=
  bytes_eqb (sp_node a) (sp_node b) && (sp_number a =? sp_number b) && bytes_eqb (sp_hash a) (sp_hash b).

Definition msg_eqb (a b : omsg) : bool :=
  match a, b with
  | MPreCommitments s1 k1 u1, MPreCommitments s2 k2 u2 =>
      bytes_eqb s1 s2 && list_eqb bytes_eqb k1 k2 && bytes_eqb u1 u2
  | MGraph s1 p1 u1, MGraph s2 p2 u2 => bytes_eqb s1 s2 && list_eqb point_eqb p1 p2 && bytes_eqb u1 u2
  | MPing, MPing => true
  | MAuthentication d1, MAuthentication d2 => bytes_eqb d1 d2
  | MSnapshotConfirm d1, MSnapshotConfirm d2 => bytes_eqb d1 d2
  | MTransaction t1, MTransaction t2 => bytes_eqb t1 t2
  | MBundle y1 t1, MBundle y2 t2 => (y1 =? y2) && list_eqb bytes_eqb t1 t2
  | MTransactionRequest d1, MTransactionRequest d2 => bytes_eqb d1 d2
  | MAnnouncement s1 c1 n1, MAnnouncement s2 c2 n2 => bytes_eqb s1 s2 && bytes_eqb c1 c2 && osnap_eqb n1 n2
  | MCommitment s1 h1 c1 w1 u1, MCommitment s2 h2 c2 w2 u2 =>
      bytes_eqb s1 s2 && bytes_eqb h1 h2 && bytes_eqb c1 c2 && list_eqb bytes_eqb w1 w2 && bytes_eqb u1 u2
  | MFullChallenge n1 c1 h1 t1, MFullChallenge n2 c2 h2 t2 =>
      osnap_eqb n1 n2 && bytes_eqb c1 c2 && bytes_eqb h1 h2 && list_eqb bytes_eqb t1 t2
  | MTransactionChallenge h1 s1 m1 t1, MTransactionChallenge h2 s2 m2 t2 =>
      bytes_eqb h1 h2 && bytes_eqb s1 s2 && (m1 =? m2) && list_eqb bytes_eqb t1 t2
  | MResponse h1 r1, MResponse h2 r2 => bytes_eqb h1 h2 && bytes_eqb r1 r2
  | MFinalization n1, MFinalization n2 => osnap_eqb n1 n2
  | MRelay d1, MRelay d2 => bytes_eqb d1 d2
  | MConsumers d1, MConsumers d2 => bytes_eqb d1 d2
  | MOther y1, MOther y2 => y1 =? y2
  | _, _ => false
  end.

Definition vmsg_eqb (a b : N * omsg) : bool := (fst a =? fst b)%N && msg_eqb (snd a) (snd b).

Inductive build :=
| BAuthentication (data : bytes)
| BAnnouncement (sig R snap : bytes)
| BCommitment (sig snap R : bytes) (wants : list bytes)
| BTransactionChallenge (snap cosi_sig : bytes) (mask : Z) (txs : list bytes)
| BFullChallenge (snap commitment challenge : bytes) (txs : list bytes)
| BResponse (snap si : bytes)
| BFinalization (snap : bytes)
| BSnapshotConfirm (snap : bytes)
| BTransaction (tx : bytes)
| BTransactions (txs : list bytes) (typ : N)
| BTransactionRequest (tx : bytes)
| BGraph (sig : bytes) (ps : list sync_point)
| BCommitments (sig : bytes) (keys : list bytes)
| BConsumers (entries : list (bytes * bytes))
| BRelay (me peer m : bytes)
| BTxsPayload (txs : list bytes)
| BSyncPoints (ps : list sync_point).

Definition run_build (b : build) : res bytes :=
  match b with
  | BAuthentication d => Ok (build_authentication d)
  | BAnnouncement s r n => Ok (build_announcement s r n)
  | BCommitment s h r w => Ok (build_commitment s h r w)
  | BTransactionChallenge h s m t => build_transaction_challenge h s m t
  | BFullChallenge n c h t => build_full_challenge n c h t
  | BResponse h s => Ok (build_response h s)
  | BFinalization n => Ok (build_finalization n)
  | BSnapshotConfirm h => Ok (build_snapshot_confirm h)
  | BTransaction t => Ok (build_transaction t)
  | BTransactions t y => build_transactions t y
  | BTransactionRequest h => Ok (build_transaction_request h)
  | BGraph s p => build_graph s p
  | BCommitments s k => build_commitments s k
  | BConsumers e => Ok (build_consumers e)
  | BRelay a b m => build_relay a b m
  | BTxsPayload t => build_txs_payload t
  | BSyncPoints p => marshal_sync_points p
  end.

(* table entries refer to the message by offset: (offset, value) for the 32-byte
   key window copied from data[offset:], (offset, length, value) for slices *)
Definition sub (data : bytes) (o l : Z) : bytes := firstn (Z.to_nat l) (skipn (Z.to_nat o) data).
Definition key_tab (data : bytes) (t : list (Z * bool)) : list (bytes * bool) :=
  map (fun e => (copy_arr 32 (skipn (Z.to_nat (fst e)) data), snd e)) t.
Definition slice_tab {V} (data : bytes) (t : list (Z * Z * V)) : list (bytes * V) :=
  map (fun e => (sub data (fst (fst e)) (snd (fst e)), snd e)) t.

Inductive case :=
| CParse (version : N) (data : bytes)
    (keys : list (Z * bool)) (snaps : list (Z * Z * option osnap)) (txs : list (Z * Z * bool))
    (obs : res (N * omsg))
(* run the builder, compare its output; then parse that output (cut to [cut-1]
   bytes when cut > 0, extended by [extra]) *)
| CBuildParse (b : build) (obs_build : res bytes) (cut : Z) (extra : bytes) (version : N)
    (keys : list (Z * bool)) (snaps : list (Z * Z * option osnap)) (txs : list (Z * Z * bool))
    (obs : res (N * omsg))
| CBuild (b : build) (obs : res bytes)
| CUnmarshalPoints (data : bytes) (obs : res (list sync_point))
| CParseTxsPayload (data : bytes) (txs : list (Z * Z * bool)) (obs : res (list bytes)).

Definition key_fun (tab : list (bytes * bool)) (d : bool) (k : bytes) : bool :=
  match lookup tab k with Some v => v | None => d end.
Definition snap_fun (tab : list (bytes * option osnap)) (d : bool) (b : bytes) : option osnap :=
  match lookup tab b with Some v => v | None => if d then Some (0%N, true) else None end.
Definition tx_fun (tab : list (bytes * bool)) (d : bool) (b : bytes) : option bytes :=
  match lookup tab b with
  | Some true => Some b
  | Some false => None
  | None => if d then Some b else None
  end.

Definition check_parse v data keys snaps txs (obs : res (N * omsg)) : bool :=
  let kt := key_tab data keys in
  let st := slice_tab data snaps in
  let tt := slice_tab data txs in
  let run d := parse_msg osnap bytes (snap_fun st d) snd (tx_fun tt d) (key_fun kt d) v data in
  res_eqb vmsg_eqb (run true) obs && res_eqb vmsg_eqb (run false) obs.

Definition check (c : case) : bool :=
  match c with
  | CParse v data keys snaps txs obs => check_parse v data keys snaps txs obs
  | CBuildParse b obs_build cut extra v keys snaps txs obs =>
      res_eqb bytes_eqb (run_build b) obs_build &&
      match obs_build with
      | Ok out =>
          let data := (if 0 <? cut then firstn (Z.to_nat (cut - 1)) out else out) ++ extra in
          check_parse v data keys snaps txs obs
      | _ => false
      end
  | CBuild b obs => res_eqb bytes_eqb (run_build b) obs
  | CUnmarshalPoints data obs => res_eqb (list_eqb point_eqb) (unmarshal_sync_points data) obs
  | CParseTxsPayload data txs obs =>
      let tt := slice_tab data txs in
      let run d := parse_txs_payload bytes (tx_fun tt d) data in
      res_eqb (list_eqb bytes_eqb) (run true) obs && res_eqb (list_eqb bytes_eqb) (run false) obs
  end.
