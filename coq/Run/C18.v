(* Correspondence cases for C18: one snapshot set, handed in one order to
   common.ComputeRoundHash and in another order to storage.computeRoundHash;
   the Blake3 evaluations along the chain are supplied as a table. *)
From Coq Require Import List ZArith NArith Bool.
Require Import Mixin.Base.Res.
From Coq Require Export Uint63.
Require Export Mixin.Model.RoundNum Mixin.Model.RoundHash.
Import ListNotations.
Open Scope N_scope.

Inductive case :=
| CHash (node number : N) (lc : list snap) (lt : list tsnap) (tbl : list (hin * N))
        (obs_common obs_storage : res (N * N * N)).

Definition triple_eqb (a b : N * N * N) : bool :=
  (fst (fst a) =? fst (fst b)) && (snd (fst a) =? snd (fst b)) && (snd a =? snd b).

Definition check (c : case) : bool :=
  match c with
  | CHash node number lc lt tbl oc os =>
      res_eqb triple_eqb (round_hash_common (table_hash tbl) isort_snap node number lc) oc
      && res_eqb triple_eqb (round_hash_storage (table_hash tbl) isort_tsnap node number lt) os
  end.
