(* Correspondence cases for C29: elections, removal candidates, hour
   predicates and accept/cancel timing observed on the real kernel.
   Every number in a case term is a Z literal (Z_scope is open for the case
   files), converted here. *)
From Coq Require Import List ZArith NArith Bool.
Require Import Mixin.Base.Res Mixin.Model.Election.
Import ListNotations.
Open Scope Z_scope.

(* R id ts state tx; state 0 pledging, 1 accepted, 2 removed, 3 cancelled *)
Definition st_of (z : Z) : nstate :=
  if z =? 0 then Pledging else if z =? 1 then Accepted else if z =? 2 then Removed else Cancelled.
Definition R (id ts st tx : Z) : nrec := mkrec (Z.to_N id) ts (st_of st) (Z.to_N tx).

(* an observed result: -1 = panic, -2 = error, otherwise the id (0 = zero hash) *)
Definition obs_of (r : res N) : Z :=
  match r with Ok i => Z.of_N i | Err => -2 | Panic => -1 end.

Inductive case :=
(* electSnapshotNode(op, now0 + i*step) for i < count; the elected ids (ranks
   1..127) are the base-128 digits of [code], i = 0 least significant *)
| CElectSweep (epoch : Z) (recs : list nrec) (op now0 step count : Z) (code : Z)
(* single elections: (op, now, observation) *)
| CElect (epoch : Z) (recs : list nrec) (qs : list (Z * Z * Z))
(* checkRemovePossibility(nodeId, now, old): (node id, now, tx of old or 0, observation) *)
| CRemove (epoch : Z) (recs : list nrec) (qs : list (Z * Z * Z * Z))
(* (ts, accept hour, pledge hour, mint batch) *)
| CHours (epoch : Z) (qs : list (Z * bool * bool * Z))
(* prepareNodeRemovalTime(now, epoch): -1 = not ready *)
| CPrepare (epoch : Z) (qs : list (Z * Z))
(* accept (chain id) / cancel (0) timing at ts: accepted? *)
| CTiming (epoch : Z) (recs : list nrec) (qs : list (Z * Z * bool)).

Fixpoint sweep_code (all : list nrec) (epoch op now step : Z) (count : nat) : Z :=
  match count with
  | O => 0
  | S k => obs_of (elect all epoch op now) + 128 * sweep_code all epoch op (now + step) step k
  end.

Definition check (c : case) : bool :=
  match c with
  | CElectSweep epoch recs op now0 step count code =>
      sweep_code (load recs) epoch op now0 step (Z.to_nat count) =? code
  | CElect epoch recs qs =>
      let all := load recs in
      forallb (fun q => match q with (op, now, o) => obs_of (elect all epoch op now) =? o end) qs
  | CRemove epoch recs qs =>
      let all := load recs in
      forallb (fun q => match q with (nid, now, old, o) =>
         obs_of (rmap r_id (check_remove all epoch (Z.to_N nid) now
                              (if old =? 0 then None else Some (Z.to_N old)))) =? o end) qs
  | CHours epoch qs =>
      forallb (fun q => match q with (ts, a, p, m) =>
         Bool.eqb (accept_hour epoch ts) a && Bool.eqb (pledge_hour epoch ts) p
         && (mint_window_batch epoch ts =? m) end) qs
  | CPrepare epoch qs =>
      forallb (fun q => match q with (now, o) =>
         (match prepare_removal_time now epoch with Some t => t | None => -1 end) =? o end) qs
  | CTiming epoch recs qs =>
      let all := load recs in
      forallb (fun q => match q with (ts, chain, o) =>
         Bool.eqb (is_ok (accept_timing all epoch ts (if chain =? 0 then None else Some (Z.to_N chain)))) o end) qs
  end.
