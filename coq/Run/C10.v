(* Correspondence cases for C10: a membership history (in the order the harness
   handed it to the store), the network parameters, and for a list of query
   timestamps what the real kernel returned. *)
From Coq Require Import List ZArith NArith Bool.
Require Import Mixin.Base.Res Mixin.Model.Election Mixin.Model.Quorum.
Import ListNotations.
Open Scope Z_scope.

(* Every number in a case term is a Z literal (Z_scope is open for the case
   files), converted here.  R id ts state tx; state 0 pledging, 1 accepted,
   2 removed, 3 cancelled. *)
Definition st_of (z : Z) : nstate :=
  if z =? 0 then Pledging else if z =? 1 then Accepted else if z =? 2 then Removed else Cancelled.
Definition R (id ts st tx : Z) : nrec := mkrec (Z.to_N id) ts (st_of st) (Z.to_N tx).
Definition ids (l : list Z) : list N := map Z.to_N l.

Inductive query :=
| Q (ts : Z) (pledging : option nrec) (round : Z)
    (thr_final thr_nonfinal : Z)        (* ConsensusThreshold(ts, true / false) *)
    (keys : Z)                          (* ids returned by ConsensusKeys(round, ts), as [code] *)
    (removing : option Z)               (* removingOrSlashingNodeAt(ts) *)
    (predictive : bool).                (* usePredictiveNodeRemovalSignerSet(ts) *)

(* a certificate built by the harness over key vector [signed] with mask
   positions [pos]; obs = verifyFinalization accepted it *)
Inductive cert :=
| Cert (ts : Z) (pledging : option nrec) (round : Z) (signed : list Z) (pos : list Z) (obs : bool).

Inductive case :=
| CQuorum (epoch : Z) (mainnet : bool) (genesis : list Z) (recs : list nrec) (qs : list query)
| CCerts (epoch : Z) (mainnet : bool) (genesis : list Z) (recs : list nrec) (cs : list cert)
| CMask (mask : Z) (threshold : Z) (obs : bool).

Fixpoint ids_eqb (a b : list N) : bool :=
  match a, b with
  | [], [] => true
  | x :: a', y :: b' => (x =? y)%N && ids_eqb a' b'
  | _, _ => false
  end.

Definition optn_eqb (a b : option N) : bool :=
  match a, b with
  | Some x, Some y => (x =? y)%N
  | None, None => true
  | _, _ => false
  end.

(* the observed id vector is sent as one number: ids (ranks 1..127 of the
   harness' identity pool) are the base-128 digits, first id least significant;
   injective on lists of ids in 1..127, the length included *)
Definition code (l : list N) : Z := fold_right (fun i acc => Z.of_N i + 128 * acc) 0 l.

(* Model.Quorum defines consensus_threshold / consensus_keys as the
   compositions evaluated here; the node list and the excluded node of one
   query are computed once (see check_query_is_model). *)
Definition check_query (cfg : netcfg) (all : list nrec) (q : query) : bool :=
  match q with
  | Q ts pl round tf tn keys rem pred =>
      let nodes := nodes_list all ts false in
      let removing := removing_for cfg all ts in
      (threshold_of_base (base_on cfg removing nodes ts true) =? tf)
      && (threshold_of_base (base_on cfg removing nodes ts false) =? tn)
      && (code (map r_id (with_pledging (ready_on cfg removing nodes ts) pl round)) =? keys)
      && optn_eqb (option_map r_id (removing_at cfg all ts)) (option_map Z.to_N rem)
      && Bool.eqb (use_predictive cfg ts) pred
  end.

Lemma check_query_is_model : forall cfg all ts pl round tf tn keys rem pred,
  check_query cfg all (Q ts pl round tf tn keys rem pred) =
  ((consensus_threshold cfg all ts true =? tf)
   && (consensus_threshold cfg all ts false =? tn)
   && (code (consensus_keys cfg all pl round ts) =? keys)
   && optn_eqb (option_map r_id (removing_at cfg all ts)) (option_map Z.to_N rem)
   && Bool.eqb (use_predictive cfg ts) pred).
Proof. reflexivity. Qed.

(* a certificate over [signed] at positions [pos] verifies against (keys, T)
   iff every position exists in keys and selects the same key, there is at
   least one position, and there are at least T of them *)
Definition cert_verifies (signed : list N) (pos : list nat) (p : list N * Z) : bool :=
  negb (Nat.eqb (length pos) 0)
  && (snd p <=? Z.of_nat (length pos))
  && forallb (fun i => match nth_error (fst p) i, nth_error signed i with
                       | Some a, Some b => (a =? b)%N
                       | _, _ => false
                       end) pos.

Definition check_cert (cfg : netcfg) (all : list nrec) (c : cert) : bool :=
  match c with
  | Cert ts pl round signed pos obs =>
      Bool.eqb (existsb (cert_verifies (ids signed) (map Z.to_nat pos)) (verify_params cfg all pl round ts)) obs
  end.

Definition check (c : case) : bool :=
  match c with
  | CQuorum epoch mainnet genesis recs qs =>
      let cfg := mkcfg epoch mainnet (ids genesis) in
      let all := load recs in
      forallb (check_query cfg all) qs
  | CCerts epoch mainnet genesis recs cs =>
      let cfg := mkcfg epoch mainnet (ids genesis) in
      let all := load recs in
      forallb (check_cert cfg all) cs
  | CMask mask threshold obs => Bool.eqb (mask_meets (Z.to_N mask) threshold) obs
  end.
