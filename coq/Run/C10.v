(* Correspondence cases for C10: a membership history (in the order the harness
   handed it to the store), the network parameters, and for a list of query
   timestamps what the real kernel returned. *)
From Coq Require Import List ZArith NArith Bool.
Require Import Mixin.Base.Res Mixin.Model.Election Mixin.Model.Quorum.
Import ListNotations.
Open Scope Z_scope.

(* R id ts state tx *)
Definition R (id : N) (ts : Z) (st : nstate) (tx : N) : nrec := mkrec id ts st tx.

Inductive query :=
| Q (ts : Z) (pledging : option nrec) (round : Z)
    (thr_final thr_nonfinal : Z)        (* ConsensusThreshold(ts, true / false) *)
    (keys : list N)                     (* ids returned by ConsensusKeys(round, ts) *)
    (removing : option N)               (* removingOrSlashingNodeAt(ts) *)
    (predictive : bool).                (* usePredictiveNodeRemovalSignerSet(ts) *)

(* a certificate built by the harness over key vector [signed] with mask
   positions [pos]; obs = verifyFinalization accepted it *)
Inductive cert :=
| Cert (ts : Z) (pledging : option nrec) (round : Z) (signed : list N) (pos : list nat) (obs : bool).

Inductive case :=
| CQuorum (epoch : Z) (mainnet : bool) (genesis : list N) (recs : list nrec) (qs : list query)
| CCerts (epoch : Z) (mainnet : bool) (genesis : list N) (recs : list nrec) (cs : list cert)
| CMask (mask : N) (threshold : Z) (obs : bool).

Fixpoint ids_eqb (a b : list N) : bool :=
  match a, b with
  | [], [] => true
  | x :: a', y :: b' => (x =? y)%N && ids_eqb a' b'
  | _, _ => false
  end.

Definition optn_eqb (a b : option N) : bool :=
  match a, b with
  | Some x, Some y => (x =? y)%N
  | None, None => true
  | _, _ => false
  end.

Definition check_query (cfg : netcfg) (all : list nrec) (q : query) : bool :=
  match q with
  | Q ts pl round tf tn keys rem pred =>
      (consensus_threshold cfg all ts true =? tf)
      && (consensus_threshold cfg all ts false =? tn)
      && ids_eqb (consensus_keys cfg all pl round ts) keys
      && optn_eqb (option_map r_id (removing_at cfg all ts)) rem
      && Bool.eqb (use_predictive cfg ts) pred
  end.

(* a certificate over [signed] at positions [pos] verifies against (keys, T)
   iff every position exists in keys and selects the same key, there is at
   least one position, and there are at least T of them *)
Definition cert_verifies (signed : list N) (pos : list nat) (p : list N * Z) : bool :=
  negb (Nat.eqb (length pos) 0)
  && (snd p <=? Z.of_nat (length pos))
  && forallb (fun i => match nth_error (fst p) i, nth_error signed i with
                       | Some a, Some b => (a =? b)%N
                       | _, _ => false
                       end) pos.

Definition check_cert (cfg : netcfg) (all : list nrec) (c : cert) : bool :=
  match c with
  | Cert ts pl round signed pos obs =>
      Bool.eqb (existsb (cert_verifies signed pos) (verify_params cfg all pl round ts)) obs
  end.

Definition check (c : case) : bool :=
  match c with
  | CQuorum epoch mainnet genesis recs qs =>
      let cfg := mkcfg epoch mainnet genesis in
      let all := load recs in
      forallb (check_query cfg all) qs
  | CCerts epoch mainnet genesis recs cs =>
      let cfg := mkcfg epoch mainnet genesis in
      let all := load recs in
      forallb (check_cert cfg all) cs
  | CMask mask threshold obs => Bool.eqb (mask_meets mask threshold) obs
  end.
