(* Correspondence cases for C28: transaction classes, the kernel batch rules,
   the consensus reference check, and CONSENSUSSNAPSHOT write sequences run on
   a real node and store; [check] recomputes each with Model/KernelSnap.v. *)
From Coq Require Import List ZArith NArith Bool.
Require Export Mixin.Base.Res Mixin.Model.KernelSnap.
Import ListNotations.
Open Scope Z_scope.

Inductive case :=
(* TransactionType / IsSnapshotBatchable of a transaction shape *)
| CType (ins : list ikind) (outs : list Z) (obs_type : Z) (obs_batchable : bool)
(* validateKernelSnapshot on a real node *)
| CKernel (mainnet : bool) (s : ksnap) (found : list (N * ktx)) (finalized : bool)
          (last : csnap) (obs : res unit)
(* validateConsensusTransactionReferences *)
| CRefs (s : ksnap) (tx : ktx) (last : csnap) (obs : res unit)
(* validateSnapshotTransaction on a real node: members in processing order,
   each stored in persistent storage or only cached (with its Validate outcome) *)
| CSnapTx (mainnet : bool) (s : ksnap) (ms : list member) (finalized : bool) (last : csnap) (obs : res unit)
(* the records read back (key order) after operations were finalized and
   recorded by the kernel's reloadConsensusState; the finalized consensus
   transactions *)
| CRecorded (records : list crec) (finalized : list N)
(* a sequence of WriteConsensusSnapshot calls from the records [init];
   per call the observed outcome; [final] the records read back *)
| CChain (init : list crec) (ops : list (cop * res unit)) (final : list crec).

Definition unit_eqb (a b : unit) := true.

Definition oN_eqb (a b : option N) : bool :=
  match a, b with
  | Some x, Some y => (x =? y)%N
  | None, None => true
  | _, _ => false
  end.
Fixpoint lN_eqb (a b : list N) : bool :=
  match a, b with
  | [], [] => true
  | x :: a', y :: b' => (x =? y)%N && lN_eqb a' b'
  | _, _ => false
  end.
Definition crec_eqb (a b : crec) : bool :=
  (cr_ts a =? cr_ts b) && (cr_snap a =? cr_snap b)%N && lN_eqb (cr_txs a) (cr_txs b)
  && oN_eqb (cr_ref a) (cr_ref b) && oN_eqb (cr_next a) (cr_next b).

Fixpoint run_chain (h : list crec) (ops : list (cop * res unit)) : option (list crec) :=
  match ops with
  | [] => Some h
  | (o, obs) :: r =>
      let m := write_consensus_snapshot h o in
      if res_class_eqb m obs then run_chain (apply_cop h o) r else None
  end.

Definition check (c : case) : bool :=
  match c with
  | CType ins outs ot ob =>
      (tx_type ins outs =? ot) && Bool.eqb (is_batchable (tx_type ins outs)) ob
  | CKernel mainnet s found fin last obs =>
      (* the operation specific validators are abstract in the model: where
         the model's outcome depends on them the implementation may accept or
         refuse; everywhere else the outcome must be the model's *)
      let mt := validate_kernel_snapshot mainnet s found fin last true in
      let mf := validate_kernel_snapshot mainnet s found fin last false in
      if res_class_eqb mt mf then res_class_eqb mt obs
      else match obs with Panic => false | _ => true end
  | CSnapTx mainnet s ms fin last obs =>
      let mt := snapshot_tx_rules mainnet s fin last true [] ms in
      let mf := snapshot_tx_rules mainnet s fin last false [] ms in
      if res_class_eqb mt mf then res_class_eqb mt obs
      else match obs with Panic => false | _ => true end
  | CRecorded records finalized =>
      chainb records
      && forallb (fun t => existsb (fun r => match cr_txs r with [x] => (x =? t)%N | _ => false end) records) finalized
  | CRefs s tx last obs => res_class_eqb (validate_consensus_refs s tx last) obs
  | CChain init ops final =>
      match run_chain init ops with
      | None => false
      | Some h =>
          (length h =? length final)%nat
          && forallb (fun r => existsb (crec_eqb r) final) h
          && forallb (fun r => existsb (crec_eqb r) h) final
      end
  end.
