(* Correspondence cases for C03.  A history case carries the whole op list
   issued against a fresh real Badger store, for every call the result class it
   returned and what it changed (difference of the dumps of the lock / body /
   finalization / key-binding families taken before and after it, plus the
   family sizes), and the full dump at the end; [check] replays the list on the
   model from the empty state.  A concurrent case carries a sequential prefix,
   then the calls issued from 8 goroutines in a sequential order that explains
   the observed result classes and final dump.  32-byte values are renamed to
   small numbers (see Model/LocksCheck.v).  A render case carries a deposit
   (real chain id) and the text whose hash the real UniqueKey equals. *)
From Coq Require Import List ZArith NArith Bool.
Require Export Mixin.Base.Res Mixin.Model.GhostKeys Mixin.Model.Locks Mixin.Model.LocksCheck.
Import ListNotations.
Open Scope N_scope.

Inductive case :=
| CHist (ops : list op) (obs : list (res unit * delta)) (final : dump)
| CConc (pre : list op) (obs : list (res unit * delta))
        (batch : list op) (rs : list (res unit)) (final : dump)
| CRender (chain : N) (tx : list N) (idx : N) (text : list N).

Definition check (c : case) : bool :=
  match c with
  | CHist ops obs final => check_hist ops obs final
  | CConc pre obs batch rs final => check_conc pre obs batch rs final
  | CRender chain tx idx text =>
      bytes_eqb (render {| d_chain := chain; d_tx := tx; d_index := idx |}) text
  end.
