(* Correspondence cases for C03.  A history case carries the whole op list
   issued against a fresh real Badger store (hashes listed once in [tbl] and
   referred to by position), and for every call the result class it returned
   with the dump of the lock / body / finalization / key-binding families taken
   right after it; [check] replays the list on the model from the empty state.
   A render case carries a deposit and the text whose hash the real UniqueKey
   equals. *)
From Coq Require Import List ZArith NArith Bool.
Require Import Mixin.Base.Res Mixin.Model.GhostKeys Mixin.Model.Locks Mixin.Model.LocksCheck.
Import ListNotations.
Open Scope N_scope.

Inductive case :=
| CHist (tbl : list N) (ops : (nat -> N) -> list op) (obs : (nat -> N) -> list (res unit * dump))
| CConc (tbl : list N) (pre : (nat -> N) -> list op) (obs : (nat -> N) -> list (res unit * dump))
        (batch : (nat -> N) -> list op) (rs : list (res unit)) (final : (nat -> N) -> dump)
| CRender (chain : N) (tx : list N) (idx : N) (text : list N).

Definition check (c : case) : bool :=
  match c with
  | CHist tbl ops obs => check_hist tbl ops obs
  | CConc tbl pre obs batch rs final => check_conc tbl pre obs batch rs final
  | CRender chain tx idx text =>
      bytes_eqb (render {| d_chain := chain; d_tx := tx; d_index := idx |}) text
  end.
