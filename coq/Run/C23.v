(* Correspondence cases for C23: one case is a whole sequential history run
   on a real Badger cache store: raw records written first (states the API
   alone cannot reach, as storage/cache_coverage_test.go builds them), then
   the operations with what each returned, then the dump of the three record
   families at the end.  [check] replays the history on the model. *)
From Coq Require Import List ZArith NArith Bool.
Require Import Mixin.Base.Res.
Require Export Mixin.Model.Cache.
Import ListNotations.
Open Scope N_scope.

Inductive raw :=
| RawQueue (ts h : N)
| RawOrder (h : N)
| RawPayload (h b : N).

Inductive case :=
| CHist (pre : list raw) (ops : list (op * obs))
        (fq : list (N * N)) (fo : list N) (fp : list (N * N)).

Definition raw_step (c : cache) (r : raw) : cache :=
  match r with
  | RawQueue ts h => mkCache (qins (ts, h) (queue c)) (order c) (payload c)
  | RawOrder h => mkCache (queue c) (oins h (order c)) (payload c)
  | RawPayload h b => mkCache (queue c) (order c) (aset h b (payload c))
  end.

Definition pair_eqb (a b : N * N) : bool := (fst a =? fst b) && (snd a =? snd b).
Fixpoint list_eqb {A} (e : A -> A -> bool) (a b : list A) : bool :=
  match a, b with
  | [], [] => true
  | x :: a', y :: b' => e x y && list_eqb e a' b'
  | _, _ => false
  end.
Definition opt_eqb (a b : option N) : bool :=
  match a, b with
  | Some x, Some y => x =? y
  | None, None => true
  | _, _ => false
  end.

Definition obs_eqb (a b : obs) : bool :=
  match a, b with
  | RUnit, RUnit => true
  | RTxs x, RTxs y => res_eqb (list_eqb pair_eqb) x y
  | RGet x, RGet y => res_eqb opt_eqb x y
  | _, _ => false
  end.

Fixpoint replay (c : cache) (ops : list (op * obs)) : option cache :=
  match ops with
  | [] => Some c
  | (o, seen) :: ops' =>
    let (c', r) := step c o in
    if obs_eqb r seen then replay c' ops' else None
  end.

Definition check (cs : case) : bool :=
  match cs with
  | CHist pre ops fq fo fp =>
    match replay (fold_left raw_step pre empty_cache) ops with
    | None => false
    | Some c => list_eqb pair_eqb (queue c) fq && list_eqb N.eqb (order c) fo
                && list_eqb pair_eqb (payload c) fp
    end
  end.
