(* Correspondence cases for C15: a history of real store calls with what the Go
   implementation returned and (projected) what the full key/value dump of the
   Badger store contained; [check] replays the history on the model. *)
From Coq Require Import List ZArith NArith Bool.
Require Import Mixin.Base.Res Mixin.Model.Fixed.
Require Export Mixin.Model.Finalize.
Import ListNotations.
Open Scope Z_scope.

(* one decoded key/value pair of the dump *)
Inductive entry :=
| ETx (h : N)
| EFin (h sn : N)
| EUtxo (h i asset : N) (typ amount : Z) (keys : list N) (lock : N)
| EGhost (k h : N)
| EInfo (a chain akey : N)
| ETotal (a : N) (v : Z)
| EUniq (h node : N)
| ESnap (node round h : N)
| ETopo (order node round h : N)
| ESnapTopo (h order : N)
| EWork (node round ts h : N) (signers : list N)
| ENode (ts signer payee h : N) (st : Z)
| ECust (ts h : N)
| EWdr (submit claim : N)
| ERound (node num : N).

Fixpoint listN_eqb (a b : list N) : bool :=
  match a, b with
  | [], [] => true
  | x :: a', y :: b' => (x =? y)%N && listN_eqb a' b'
  | _, _ => false
  end.

Definition opt_is {A} (o : option A) (p : A -> bool) : bool :=
  match o with Some a => p a | None => false end.

Definition entry_holds (s : state) (e : entry) : bool :=
  match e with
  | ETx h => mem eq1 (s_txs s) h
  | EFin h sn => opt_is (lookup eq1 (s_fin s) h) (fun v => (v =? sn)%N)
  | EUtxo h i a ty am ks lk =>
      opt_is (lookup eq2 (s_utxo s) (h, i))
             (fun u => (u_asset u =? a)%N && (u_type u =? ty) && (u_amount u =? am)
                       && listN_eqb (u_keys u) ks && (u_lock u =? lk)%N)
  | EGhost k h => opt_is (lookup eq1 (s_ghost s) k) (fun v => (v =? h)%N)
  | EInfo a c k => opt_is (lookup eq1 (s_ainfo s) a) (fun v => eq2 v (c, k))
  | ETotal a v => opt_is (lookup eq1 (s_total s) a) (fun w => w =? v)
  | EUniq h n => mem eq2 (s_uniq s) (h, n)
  | ESnap n r h => opt_is (lookup eq3 (s_snap s) (n, r, h)) (fun v => (v =? h)%N)
  | ETopo o n r h => opt_is (lookup eq1 (s_topo s) o) (fun v => eq3 v (n, r, h))
  | ESnapTopo h o => opt_is (lookup eq1 (s_snaptopo s) h) (fun v => (v =? o)%N)
  | EWork n r ts h sg =>
      opt_is (lookup eq3 (s_work s) (n, r, ts)) (fun v => (fst v =? h)%N && listN_eqb (snd v) sg)
  | ENode ts sg p h st =>
      opt_is (lookup eq2 (s_nodes s) (ts, sg))
             (fun v => (fst (fst v) =? p)%N && (snd (fst v) =? h)%N && (snd v =? st))
  | ECust ts h => opt_is (lookup eq1 (s_cust s) ts) (fun v => (v =? h)%N)
  | EWdr a b => opt_is (lookup eq1 (s_wdr s) a) (fun v => (v =? b)%N)
  | ERound n num => opt_is (lookup eq1 (s_round s) n) (fun v => (fst v =? num)%N)
  end.

Definition count_entries (s : state) : nat :=
  (length (s_txs s) + length (s_fin s) + length (s_utxo s) + length (s_ghost s)
   + length (s_ainfo s) + length (s_total s) + length (s_uniq s) + length (s_snap s)
   + length (s_topo s) + length (s_snaptopo s) + length (s_work s) + length (s_nodes s)
   + length (s_cust s) + length (s_wdr s) + length (s_round s))%nat.

(* one call of the history: the operation, the observed outcome class, and for a
   snapshot write a sample of the key/value pairs that changed *)
Inductive hop :=
| HOp (o : op) (obs : res unit)
| HSnap (sn : snapshot) (signers : list N) (obs : res unit) (nchanged : nat) (diff : list entry).

Inductive case :=
| CHist (ops : list hop) (final : list entry)
| CCap (a : N) (obs : Z).

Fixpoint replay (s : state) (ops : list hop) : state * bool :=
  match ops with
  | [] => (s, true)
  | HOp o obs :: r =>
      let '(s1, out) := step s o in
      if res_class_eqb out obs then replay s1 r else (s1, false)
  | HSnap sn sg obs nch diff :: r =>
      let '(s1, out) := write_snapshot s sn sg in
      if res_class_eqb out obs
         && forallb (entry_holds s1) diff
         && (is_ok out || Nat.eqb nch 0)
         && Nat.eqb (count_entries s1) (count_entries s + (if is_ok out then nch else 0))%nat
      then replay s1 r else (s1, false)
  end.

Definition check (c : case) : bool :=
  match c with
  | CHist ops final =>
      let '(s, ok) := replay empty_state ops in
      ok && forallb (entry_holds s) final && Nat.eqb (count_entries s) (length final)
  | CCap a obs => capacity a =? obs
  end.
