(* Correspondence cases for C09: a sequence of steps on one kernel node process
   (membership (re)loaded from a store, verifyFinalization calls, direct
   cacheVerifyCosi calls), the outcome of the raw signature equation for every
   (selected keys, hash, signature) the run can ask for, and what the real code
   returned at each step.  [check] threads the model's memo table through the
   steps and also recomputes every verifyFinalization without memory. *)
From Coq Require Import List ZArith NArith Bool.
Require Import Mixin.Base.Res.
Require Export Mixin.Model.Membership Mixin.Model.Finality.
Import ListNotations.
Open Scope N_scope.

Inductive step :=
| SLoad (store : list nrec)
| SVerify (ch : mchain) (s : msnap) (obs : res (list N * bool))
| SCosi (hash sig mask : N) (cids publics : list N) (thr : Z) (obs : res (list N * bool)).

Inductive case :=
| CFin (genesis : list N) (epoch : N) (mainnet : bool)
       (agg : list (list N * N * N * bool)) (steps : list step).

Fixpoint nlist_eqb (a b : list N) : bool :=
  match a, b with
  | [], [] => true
  | x :: a', y :: b' => (x =? y) && nlist_eqb a' b'
  | _, _ => false
  end.

(* the equation's outcome from the table; [dflt] for triples not listed *)
Definition agg_of (agg : list (list N * N * N * bool)) (dflt : bool) (sel : list N) (hash sig : N) : bool :=
  match find (fun e => match e with (l, h, s, _) => nlist_eqb l sel && (h =? hash) && (s =? sig) end) agg with
  | Some (_, _, _, b) => b
  | None => dflt
  end.

Definition obs_eqb (a b : list N * bool) : bool := nlist_eqb (fst a) (fst b) && Bool.eqb (snd a) (snd b).

Fixpoint run_steps (av : list N -> N -> N -> bool) (genesis : list N) (epoch : N) (mainnet : bool)
         (steps : list step) (nd : mnode) (t : memo) : bool :=
  match steps with
  | [] => true
  | SLoad store :: rest => run_steps av genesis epoch mainnet rest (load_node store genesis epoch mainnet) t
  | SVerify ch s obs :: rest =>
      res_eqb obs_eqb (verify_fresh av nd ch s) obs &&
      match verify_finalization av nd ch s t with
      | Ok (r, t') => res_eqb obs_eqb (Ok r) obs && run_steps av genesis epoch mainnet rest nd t'
      | Err => res_eqb obs_eqb Err obs && run_steps av genesis epoch mainnet rest nd t
      | Panic => res_eqb obs_eqb Panic obs && run_steps av genesis epoch mainnet rest nd t
      end
  | SCosi hash sig mask cids publics thr obs :: rest =>
      match cache_verify_cosi av hash sig mask cids publics thr t with
      | Ok (r, t') => res_eqb obs_eqb (Ok r) obs && run_steps av genesis epoch mainnet rest nd t'
      | Err => res_eqb obs_eqb Err obs && run_steps av genesis epoch mainnet rest nd t
      | Panic => res_eqb obs_eqb Panic obs && run_steps av genesis epoch mainnet rest nd t
      end
  end.

(* a triple missing from the table would make the two defaults disagree somewhere *)
Definition check (c : case) : bool :=
  match c with
  | CFin genesis epoch mainnet agg steps =>
      let nd0 := load_node [] genesis epoch mainnet in
      run_steps (agg_of agg false) genesis epoch mainnet steps nd0 [] &&
      run_steps (agg_of agg true) genesis epoch mainnet steps nd0 []
  end.
