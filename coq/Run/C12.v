(* Correspondence cases for C12: crypto/nonce.go (respond) and the nonce
   retention maps of kernel/cosi.go. *)
From Coq Require Import List ZArith NArith Bool.
Require Import Mixin.Base.Res Mixin.Gen.Consts Mixin.Model.Group.
Require Export Mixin.Model.Nonce Mixin.Model.Limbs.
Import ListNotations.
Open Scope Z_scope.

Definition L : Z := Consts.EdL.

Inductive case :=
(* calls on copies of one handle in a linearisation order (the call that
   consumed the nonce first, then the others): challenge its arguments
   determine (None = Challenge() failed), private key; observed results *)
| CNonce (random : Z) (reqs : list (option Z * Z)) (obs : list nres)
(* retention maps: operations and, per operation, what was handed out; then
   (len UsedRandoms, len usedRandomsOrder) *)
| CRet (ops : list rop) (obs : list (option (N * N))) (sizes : Z * Z).

Definition nres_eqb (a b : nres) : bool :=
  match a, b with
  | NOk x, NOk y => x =? y
  | NReuse, NReuse => true
  | NErr, NErr => true
  | NPanic, NPanic => true
  | _, _ => false
  end.

Fixpoint list_eqb {A} (e : A -> A -> bool) (a b : list A) : bool :=
  match a, b with
  | [], [] => true
  | x :: a', y :: b' => e x y && list_eqb e a' b'
  | _, _ => false
  end.

Definition optpair_eqb (a b : option (N * N)) : bool :=
  match a, b with
  | None, None => true
  | Some (x1, y1), Some (x2, y2) => ((x1 =? x2) && (y1 =? y2))%N
  | _, _ => false
  end.

Fixpoint ret_run (r : retention) (os : list rop) : retention * list (option (N * N)) :=
  match os with
  | [] => (r, [])
  | o :: os' =>
      let '(r1, h) := rstep retained_max r o in
      let '(r2, hs) := ret_run r1 os' in
      (r2, h :: hs)
  end.

Definition check (c : case) : bool :=
  match c with
  | CNonce random reqs obs =>
      list_eqb nres_eqb
        (snd (run L (new_nonce random) (map (fun q => mkReq (fst q) (snd q)) reqs))) obs
  | CRet ops obs sizes =>
      let '(r, hs) := ret_run empty_retention ops in
      list_eqb optpair_eqb hs obs
      && (Z.of_nat (length (used r)) =? fst sizes) && (Z.of_nat (length (order r)) =? snd sizes)
  end.
