(* Correspondence cases for C21: a workload as the abstract list of durable calls the
   real node issued (observed at the storage.Store interface), the number of calls that
   completed before the process was stopped, and what the restarted node reported:
   the snapshot id read by ReadLastConsensusSnapshot after the real SetupNode
   (Panic = SetupNode panicked, Err = it returned an error). *)
From Coq Require Import List ZArith NArith Bool.
Require Import Mixin.Base.Res.
Require Export Mixin.Model.Crash.
Import ListNotations.
Open Scope N_scope.

Inductive case :=
| CRecover (n : N) (calls : list call) (k : nat) (obs : res N).

Definition check (c : case) : bool :=
  match c with
  | CRecover n calls k obs =>
      wf_calls (genesis n) calls &&
      res_eqb N.eqb (recover (exec (genesis n) (firstn k calls))) obs
  end.
