(* Correspondence cases for C01: the shared validation case (Run/ValCase.v). *)
From Coq Require Import List ZArith NArith Bool.
Require Export Mixin.Base.Res Mixin.Model.Validate Mixin.Run.ValCase.
