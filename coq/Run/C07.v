(* Correspondence cases for C07: each case carries the inputs and what the Go
   implementation returned; [check] recomputes with the model. *)
From Coq Require Import List ZArith NArith Bool.
Require Import Mixin.Base.Res.
(* exported: the case terms name the model's constructors (MkSnap) *)
Require Export Mixin.Model.SnapCodec.
Import ListNotations.
Local Open Scope N_scope. (* Local: the driver reads mismatch indices printed as n%N *)

Inductive case :=
(* common.UnmarshalVersionedSnapshot(b): decoded fields and topological order *)
| CDec (b : list N) (obs : res (snapshot * N))
(* SnapshotWithTopologicalOrder.VersionedMarshal *)
| CEnc (s : snapshot) (topo : N) (obs : res (list N))
(* Encoder.EncodeSnapshotPayload(s) *)
| CPay (s : snapshot) (obs : res (list N))
(* Snapshot.PayloadHash(): Ok p when it returned blake3(p) (checked on the Go
   side against the bytes of EncodeSnapshotPayload on the stripped copy) *)
| CHash (s : snapshot) (obs : res (list N)).

Definition opt_pair_eqb (a b : option (N * N)) : bool :=
  match a, b with
  | None, None => true
  | Some (x, y), Some (x', y') => (x =? x') && (y =? y')
  | _, _ => false
  end.

Definition snapshot_eqb (a b : snapshot) : bool :=
  (s_version a =? s_version b) && (s_node a =? s_node b) && (s_round a =? s_round b)
  && opt_pair_eqb (s_refs a) (s_refs b) && list_eqb (s_txs a) (s_txs b)
  && (s_ts a =? s_ts b) && opt_pair_eqb (s_sig a) (s_sig b).

Definition dec_eqb (a b : snapshot * N) : bool :=
  snapshot_eqb (fst a) (fst b) && (snd a =? snd b).

Definition check (c : case) : bool :=
  match c with
  | CDec b obs => res_eqb dec_eqb (unmarshal_snapshot b) obs
  | CEnc s topo obs => res_eqb list_eqb (versioned_marshal s topo) obs
  | CPay s obs => res_eqb list_eqb (enc_snapshot_payload s false) obs
  | CHash s obs => res_eqb list_eqb (versioned_payload s) obs
  end.
