(* Correspondence cases for C11: a membership history (the records written to
   the real store), queries at chosen timestamps with every view the real
   kernel reported, and custodian histories queried with and without the
   in-memory cache.  [check] recomputes everything with Model/Membership.v. *)
From Coq Require Import List ZArith NArith Bool.
Require Import Mixin.Base.Res.
Require Export Mixin.Model.Membership.
Open Scope N_scope.
Import ListNotations.
Open Scope N_scope.

Definition nrec_eqb (a b : nrec) : bool :=
  (r_ts a =? r_ts b) && (r_id a =? r_id b) && (r_key a =? r_key b) &&
  (r_payee a =? r_payee b) && (r_tx a =? r_tx b) && nstate_eqb (r_state a) (r_state b).

Definition cnode_eqb (a b : cnode) : bool :=
  nrec_eqb (c_rec a) (c_rec b) && (c_index a =? c_index b).

Fixpoint list_eqb {A} (eqb : A -> A -> bool) (a b : list A) : bool :=
  match a, b with
  | [], [] => true
  | x :: a', y :: b' => eqb x y && list_eqb eqb a' b'
  | _, _ => false
  end.

Definition option_eqb {A} (eqb : A -> A -> bool) (a b : option A) : bool :=
  match a, b with
  | None, None => true
  | Some x, Some y => eqb x y
  | _, _ => false
  end.

(* an observed CNode: position of its record in the case's store list (every
   field of the record was compared by the harness; a node matching no stored
   record is sent with an out-of-range position) and its ConsensusIndex *)
Inductive ix := I (pos idx : N).
Definition ix_eqb (a b : ix) : bool :=
  match a, b with I p i, I q j => (p =? q) && (i =? j) end.

Fixpoint pos_of (r : nrec) (store : list nrec) (k : N) : N :=
  match store with
  | [] => 1000000
  | x :: rest => if nrec_eqb x r then k else pos_of r rest (k + 1)
  end.
Definition ix_of (store : list nrec) (c : cnode) : ix := I (pos_of (c_rec c) store 0) (c_index c).

(* what the real kernel reported for one query *)
Record vobs := mkv {
  o_list : list ix;           (* NodesListWithoutState(ts, false) *)
  o_alist : list ix;          (* NodesListWithoutState(ts, true) *)
  o_dlist : list ix;          (* nodeSequenceWithoutState(ts, false) *)
  o_dalist : list ix;         (* nodeSequenceWithoutState(ts, true) *)
  o_thr_final : res N;        (* ConsensusThreshold(ts, true) *)
  o_thr_open : res N;         (* ConsensusThreshold(ts, false) *)
  o_ids : list N;             (* ConsensusKeys(round, ts) ids *)
  o_keys : list N;            (* ConsensusKeys(round, ts) publics *)
  o_pledging : option ix;     (* PledgingNode(ts) *)
  o_removing : option ix;     (* removingOrSlashingNodeAt(ts) *)
  o_elect : res N;            (* electSnapshotNode(op, ts) *)
  o_get : option ix }.        (* getAcceptedOrPledgingNode(id, ts) *)

Record vquery := mkq {
  q_ch : mchain; q_round : N; q_ts : N; q_op : N; q_id : N; q_obs : vobs }.

Inductive cstep :=
| CPut (ts tx : N)
| CQuery (ts : N) (cached direct : res (option (N * N * (N * N)))).

Inductive case :=
(* store records in key order, genesis ids, epoch, mainnet?, observed
   allNodesSortedWithState, queries *)
| CViews (store : list nrec) (genesis : list N) (epoch : N) (mainnet : bool)
         (obs_all : list N) (qs : list vquery)
(* storage.ReadAllNodes(th, true) and (th, false) (the latter sorted by (ts,id)) *)
| CReadAll (store : list nrec) (th : N) (obs_ws obs_latest : list nrec)
(* custodian: table of readTransaction+parse outcomes per (tx, genesis), steps *)
| CCust (ptab : list ((N * bool) * res (N * N))) (steps : list cstep).

Definition check_query (store : list nrec) (nd : mnode) (q : vquery) : bool :=
  let o := q_obs q in
  let ts := q_ts q in
  let ixs := map (ix_of store) in
  let ixo := option_map (ix_of store) in
  let cnode_eqb := ix_eqb in
  list_eqb ix_eqb (ixs (nodes_list nd ts false)) (o_list o) &&
  list_eqb ix_eqb (ixs (nodes_list nd ts true)) (o_alist o) &&
  list_eqb ix_eqb (ixs (node_sequence_without_state ts false (n_all nd))) (o_dlist o) &&
  list_eqb ix_eqb (ixs (node_sequence_without_state ts true (n_all nd))) (o_dalist o) &&
  res_eqb N.eqb (consensus_threshold nd ts true) (o_thr_final o) &&
  res_eqb N.eqb (consensus_threshold nd ts false) (o_thr_open o) &&
  list_eqb N.eqb (consensus_ids nd (q_ch q) (q_round q) ts) (o_ids o) &&
  list_eqb N.eqb (consensus_keys nd (q_ch q) (q_round q) ts) (o_keys o) &&
  option_eqb cnode_eqb (ixo (pledging_node nd ts)) (o_pledging o) &&
  option_eqb cnode_eqb (ixo (removing_at nd ts)) (o_removing o) &&
  res_eqb N.eqb (elect nd (q_op q) ts) (o_elect o) &&
  option_eqb cnode_eqb (ixo (get_accepted_or_pledging nd (q_id q) ts)) (o_get o).

Definition ptab_parse (ptab : list ((N * bool) * res (N * N))) (tx : N) (g : bool) : res (N * N) :=
  match find (fun e => (fst (fst e) =? tx) && Bool.eqb (snd (fst e)) g) ptab with
  | Some e => snd e
  | None => Panic (* no stored body: nil dereference *)
  end.

Definition pair_eqb (a b : N * N) : bool := (fst a =? fst b) && (snd a =? snd b).
Definition cfound_eqb (a b : N * N * (N * N)) : bool :=
  pair_eqb (fst a) (fst b) && pair_eqb (snd a) (snd b).

Fixpoint check_cust (parse : N -> bool -> res (N * N)) (steps : list cstep)
         (recs : list (N * N)) (c : ccache (N * N)) : bool :=
  match steps with
  | [] => true
  | CPut ts tx :: rest => check_cust parse rest (cust_put ts tx recs) c
  | CQuery ts cached direct :: rest =>
      let '(r, c') := read_custodian (N * N) parse recs ts c in
      res_eqb (option_eqb cfound_eqb) r cached &&
      res_eqb (option_eqb cfound_eqb) (read_custodian_direct (N * N) parse recs ts) direct &&
      check_cust parse rest recs c'
  end.

Definition check (c : case) : bool :=
  match c with
  | CViews store genesis epoch mainnet obs_all qs =>
      let nd := load_node store genesis epoch mainnet in
      list_eqb N.eqb (map (fun r => pos_of r store 0) (n_all nd)) obs_all &&
      forallb (check_query store nd) qs
  | CReadAll store th obs_ws obs_latest =>
      list_eqb nrec_eqb (read_all_with_state th store) obs_ws &&
      list_eqb nrec_eqb (read_all_latest th store) obs_latest
  | CCust ptab steps => check_cust (ptab_parse ptab) steps [] []
  end.
