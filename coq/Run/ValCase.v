(* Correspondence cases shared by C01 and C05: the projected transaction, the
   entries of the store view it can touch, the signature / curve facts, and the
   decision class the real VersionedTransaction.Validate produced.  [check]
   recomputes the decision with Model/Validate.v. *)
From Coq Require Import List ZArith NArith Bool.
Require Import Mixin.Base.Res Mixin.Model.Validate.
Import ListNotations.
Open Scope Z_scope.

Inductive case :=
| VC (utxos : list (N * Z * utxo))
     (txs : list (N * stx))
     (deposit_lock : N)
     (last_mint : option (Z * Z * N))
     (nodes : list node)
     (cust : option custodian)
     (assets : list (N * (N * bytes * Z)))
     (ghost_ok : bool)
     (badkeys : list N)                     (* keys / masks refused by CheckKey *)
     (sigfacts : list bool)                 (* agg, deposit, claim, accept, cancel, cust_prev *)
     (cancel_ghost : res bool)
     (cust_node_sigs : list (bool * bool))
     (h : N) (ts : Z) (fork : bool) (t : tx)
     (obs : res unit).

Fixpoint find_utxo (l : list (N * Z * utxo)) (h : N) (i : Z) : option utxo :=
  match l with
  | [] => None
  | (h', i', u) :: r => if (h =? h')%N && (i =? i') then Some u else find_utxo r h i
  end.

Fixpoint find_N {A} (l : list (N * A)) (h : N) : option A :=
  match l with
  | [] => None
  | (h', a) :: r => if (h =? h')%N then Some a else find_N r h
  end.

Definition nthb (l : list bool) (n : nat) : bool := nth n l false.

Definition case_view (c : case) : view :=
  match c with
  | VC utxos txs dl lm nodes cust assets ghost _ _ _ _ _ _ _ _ _ =>
      {| v_utxo := find_utxo utxos; v_tx := find_N txs; v_deposit_lock := fun _ => dl;
         v_last_mint := lm; v_nodes := fun _ => nodes; v_custodian := fun _ => cust;
         v_asset := find_N assets; v_ghost_ok := fun _ _ _ => ghost |}
  end.

Definition case_facts (c : case) : facts :=
  match c with
  | VC _ _ _ _ _ _ _ _ bad sf cg cns _ _ _ _ _ =>
      {| f_check_key := fun k => negb (mem_N k bad);
         f_agg_ok := nthb sf 0; f_deposit_sig := nthb sf 1; f_claim_sig := nthb sf 2;
         f_accept_sig := nthb sf 3; f_cancel_ghost := cg; f_cancel_sig := nthb sf 4;
         f_cust_prev_sig := nthb sf 5; f_cust_node_sigs := cns |}
  end.

Definition run_case (c : case) : res unit :=
  match c with
  | VC _ _ _ _ _ _ _ _ _ _ _ _ h ts fork t _ => validate (case_view c) (case_facts c) h ts fork t
  end.

Definition check (c : case) : bool :=
  match c with
  | VC _ _ _ _ _ _ _ _ _ _ _ _ _ _ _ _ obs => res_class_eqb (run_case c) obs
  end.
