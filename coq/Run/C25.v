(* Correspondence cases for C25: each case carries the inputs and what the Go
   implementation (kernel/mint.go through the hooks of kernel/verif_c25.go)
   returned; [check] recomputes with the model. *)
From Coq Require Import List ZArith NArith Bool.
Require Import Mixin.Base.Res Mixin.Model.Fixed Mixin.Model.Mint.
Import ListNotations.
Open Scope Z_scope.

Inductive case :=
(* mintBatchSize on the consecutive batches from, from+1, ...; run-length encoded *)
| CBatches (from : Z) (obs : list (res Z * Z))
| CMulti (old batch : Z) (obs : res Z)
| CPool (batch : Z) (obs : res Z)
| CThreshold (n : Z) (obs : Z)
(* distributeKernelMintByWorks: day0, today's works + checkpoint batches and
   the batch (readiness), yesterday's works, threshold, base *)
| CDist (day0 : bool) (now : list (Z * Z)) (spaces : list (option Z)) (batch : Z)
        (works : list (Z * Z)) (thr base : Z) (obs : res (list Z))
(* buildUniversalMintTransaction: output amounts (Err = nil transaction) *)
| CBuild (old old_amount batch : Z) (validate_only day0 : bool)
         (now : list (Z * Z)) (spaces : list (option Z)) (rbatch : Z)
         (works : list (Z * Z)) (thr : Z) (obs : res (list Z)).

Fixpoint zlist_eqb (a b : list Z) : bool :=
  match a, b with
  | [], [] => true
  | x :: a', y :: b' => (x =? y) && zlist_eqb a' b'
  | _, _ => false
  end.

(* [mint_batch_size] on consecutive batches, observations run-length encoded:
   (o, k) = the next k batches all returned o.  The value of the previous batch
   is reused while batch / year_days does not change (mint_batch_size b is by
   definition batch_size_of_year (b / year_days)). *)
Fixpoint batches_run (k : nat) (from : Z) (cache : Z * res Z) (o : res Z) : option (Z * res Z) :=
  match k with
  | O => Some cache
  | S k' =>
      let y := from / year_days in
      let v := if y =? fst cache then snd cache else batch_size_of_year y in
      if res_eqb Z.eqb v o then batches_run k' (from + 1) (y, v) o else None
  end.

Fixpoint batches_ok (from : Z) (cache : Z * res Z) (obs : list (res Z * Z)) : bool :=
  match obs with
  | [] => true
  | (o, k) :: r =>
      match batches_run (Z.to_nat k) from cache o with
      | Some c => batches_ok (from + k) c r
      | None => false
      end
  end.

Definition check (c : case) : bool :=
  match c with
  | CBatches from obs => batches_ok from (-1, Panic) obs
  | CMulti old batch obs => res_eqb Z.eqb (mint_multi old batch) obs
  | CPool batch obs => res_eqb Z.eqb (pool_size batch) obs
  | CThreshold n obs => consensus_threshold n =? obs
  | CDist day0 now spaces batch works thr base obs =>
      res_eqb zlist_eqb
        (if negb day0 && negb (ready now spaces thr batch) then Err
         else distribute day0 works thr base) obs
  | CBuild old oa batch vo day0 now spaces rbatch works thr obs =>
      res_eqb zlist_eqb
        (build_mint old oa batch vo day0 (ready now spaces thr rbatch) works thr) obs
  end.
