(* Correspondence cases for C25: each case carries the inputs and what the Go
   implementation (kernel/mint.go through the hooks of kernel/verif_c25.go)
   returned; [check] recomputes with the model. *)
From Coq Require Import List ZArith NArith Bool.
Require Import Mixin.Base.Res Mixin.Model.Fixed Mixin.Model.Mint.
Import ListNotations.
Open Scope Z_scope.

Inductive case :=
(* mintBatchSize on the consecutive batches from, from+1, ... *)
| CBatches (from : Z) (obs : list (res Z))
| CMulti (old batch : Z) (obs : res Z)
| CPool (batch : Z) (obs : res Z)
| CThreshold (n : Z) (obs : Z)
(* distributeKernelMintByWorks: day0, today's works + checkpoint batches and
   the batch (readiness), yesterday's works, threshold, base *)
| CDist (day0 : bool) (now : list (Z * Z)) (spaces : list (option Z)) (batch : Z)
        (works : list (Z * Z)) (thr base : Z) (obs : res (list Z))
(* buildUniversalMintTransaction: output amounts (Err = nil transaction) *)
| CBuild (old old_amount batch : Z) (validate_only day0 : bool)
         (now : list (Z * Z)) (spaces : list (option Z))
         (works : list (Z * Z)) (thr : Z) (obs : res (list Z)).

Fixpoint zlist_eqb (a b : list Z) : bool :=
  match a, b with
  | [], [] => true
  | x :: a', y :: b' => (x =? y) && zlist_eqb a' b'
  | _, _ => false
  end.

Fixpoint batches_ok (from : Z) (obs : list (res Z)) : bool :=
  match obs with
  | [] => true
  | o :: r => res_eqb Z.eqb (mint_batch_size from) o && batches_ok (from + 1) r
  end.

Definition check (c : case) : bool :=
  match c with
  | CBatches from obs => batches_ok from obs
  | CMulti old batch obs => res_eqb Z.eqb (mint_multi old batch) obs
  | CPool batch obs => res_eqb Z.eqb (pool_size batch) obs
  | CThreshold n obs => consensus_threshold n =? obs
  | CDist day0 now spaces batch works thr base obs =>
      res_eqb zlist_eqb
        (if negb day0 && negb (ready now spaces thr batch) then Err
         else distribute day0 works thr base) obs
  | CBuild old oa batch vo day0 now spaces works thr obs =>
      res_eqb zlist_eqb
        (build_mint old oa batch vo day0 (ready now spaces thr batch) works thr) obs
  end.
