(* Correspondence cases for C24: a chain state (aggregator and verifier maps), a
   persistent-store view and a cache content are installed on a real node
   through the verif hooks, one retire path of kernel/cosi.go (or
   requeueTransactions itself) is run, and the maps and the cache are read back.
   [check] runs the same path on the model.  Hashes are sent as their rank
   among the hashes of the case (equality and order preserved).  Queue entries
   are compared as the sorted multiset of their hashes: their timestamps come
   from the wall clock and the Go map iteration order is random.
   [RRequeue] is also what a local self announcement amounts to when the real
   cosiHook rejects or defers it before an aggregator exists (a member finalized
   by another snapshot, chain not broadcast, node catching up, pledging chain
   without state): the harness drives those through cosiHook and sends the
   batch as [RRequeue] with empty aggregator / verifier maps. *)
From Coq Require Import List ZArith NArith Bool.
Require Import Mixin.Base.Res.
Require Export Mixin.Model.Cache Mixin.Model.Retire.
Import ListNotations.
Open Scope N_scope.

Inductive rop :=
| RRetry (s : snap)
| RAbandon (s : snap)
| RExpire (now : N)
| RReset (owned : list N)
| RRequeue (hs : list N)
| RNodeQueue (txs : list (N * N))
| RNodeStore (txs : list (N * N)).

Inductive case :=
| CRet (ptxs : list (N * N)) (pfins : list N)
       (cq : list (N * N)) (co : list N) (cp : list (N * N))
       (ags : list agg) (vs : list (N * N)) (o : rop)
       (oa : list N) (ov : list (N * N)) (oq : list N) (oo : list N) (op : list (N * N)).

Fixpoint ins_sorted (x : N) (l : list N) : list N :=
  match l with
  | [] => [x]
  | y :: l' => if x <=? y then x :: y :: l' else y :: ins_sorted x l'
  end.
Definition sortN (l : list N) : list N := fold_right ins_sorted [] l.

Definition pair_eqb (a b : N * N) : bool := (fst a =? fst b) && (snd a =? snd b).
Fixpoint list_eqb {A} (e : A -> A -> bool) (a b : list A) : bool :=
  match a, b with
  | [], [] => true
  | x :: a', y :: b' => e x y && list_eqb e a' b'
  | _, _ => false
  end.

Definition run_op (ps : pstore) (o : rop) (st : rstate) : rstate :=
  match o with
  | RRetry s => retry ps s st
  | RAbandon s => abandon s st
  | RExpire now => expire ps now st
  | RReset owned => reset ps owned st
  | RRequeue hs => let (c, t) := requeue ps hs (cch st, clk st) in mkR (aggs st) (vers st) c t
  | RNodeQueue txs => let (c, t) := node_queue ps txs (cch st, clk st) in mkR (aggs st) (vers st) c t
  | RNodeStore txs => mkR (aggs st) (vers st) (node_store ps txs (cch st)) (clk st)
  end.

Definition check (cs : case) : bool :=
  match cs with
  | CRet ptxs pfins cq co cp ags vs o oa ov oq oo op =>
    let st := run_op (mkPstore ptxs pfins) o (mkR ags vs (mkCache cq co cp) (2 ^ 64)) in
    list_eqb N.eqb (sortN (map agg_hash (aggs st))) oa
    && list_eqb pair_eqb (vers st) ov
    && list_eqb N.eqb (sortN (map snd (queue (cch st)))) oq
    && list_eqb N.eqb (order (cch st)) oo
    && list_eqb pair_eqb (payload (cch st)) op
  end.
