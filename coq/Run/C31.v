(* Correspondence cases for C31: sizes and flags observed on the real batcher
   loop (kernel/queue.go), the real builders and the real QUIC framing, against
   the model of Model/P2PMsg.v. *)
From Coq Require Import List ZArith NArith Bool.
Require Import Mixin.Base.Res.
Require Export Mixin.Model.P2PMsg.
Import ListNotations.
Open Scope Z_scope.

Fixpoint bools_eqb (a b : list bool) : bool :=
  match a, b with
  | [], [] => true
  | x :: a', y :: b' => Bool.eqb x y && bools_eqb a' b'
  | _, _ => false
  end.

Definition frame_eqb (a b : N * bytes) : bool := (fst a =? fst b)%N && bytes_eqb (snd a) (snd b).

Inductive case :=
(* transactions in the order the loop processed them: (signed size, batchable);
   which of them went into the batch; length of the bundle message built from
   the batch (0 when the batch is empty).  [self_propose]: the node was in
   proposing state, the batch became its own snapshot (sendTransactionsToNode
   to itself) instead of a bundle for a peer.  The accounting rule of the model
   does not look at the flag: a loop whose budget depends on it is a mismatch. *)
| CBatch (self_propose : bool) (entries : list (Z * bool)) (obs_admitted : list bool) (obs_len : Z)
(* real bundle builder on transactions of these marshalled sizes *)
| CBundleSize (sizes : list Z) (obs_len : Z)
(* real buildRelayMessage around an n-byte message: length, or panic *)
| CRelaySize (n : Z) (obs : res Z)
(* Send of n bytes: accepted? *)
| CSendSize (n : Z) (obs : bool)
(* Send(data) on a real stream, then Receive on the other end *)
| CFrame (data : bytes) (obs : res (N * bytes))
(* raw bytes written to the stream, then receiveWithLimit(limit) *)
| CRecvRaw (limit : Z) (stream : bytes) (obs : res (N * bytes))
(* real Send of an n-byte message (accepted?), then the real QuicClient.Receive
   with the limit it applies itself: size returned, Ok only when the bytes are identical *)
| CFrameBig (n : Z) (obs_send : bool) (obs_recv : res Z)
(* a raw 6-byte header (version, announced size) and nothing behind it, then the real Receive *)
| CRecvHeader (version : N) (announced : Z) (obs : res Z).

Definition check (c : case) : bool :=
  match c with
  | CBatch _ entries adm l =>
      let flags := batch_loop 0 entries in
      bools_eqb flags adm &&
      (let batch := select flags (map fst entries) in
       match batch with [] => l =? 0 | _ => l =? txs_msg_len batch end)
  | CBundleSize sizes l => txs_msg_len sizes =? l
  | CRelaySize n obs => res_eqb Z.eqb (relay_len n) obs
  | CSendSize n obs => Bool.eqb (send_accepts n) obs
  | CFrame data obs =>
      match encode_frame data with
      | Ok f => res_eqb frame_eqb (decode_frame f) obs
      | _ => res_class_eqb (@Err unit) obs
      end
  | CRecvRaw limit stream obs => res_eqb frame_eqb (rv_result (receive limit stream)) obs
  | CFrameBig n snd_ok obs =>
      Bool.eqb (send_accepts n) snd_ok &&
      (if snd_ok then res_eqb Z.eqb (send_receive_size n) obs else true)
  | CRecvHeader v a obs => res_eqb Z.eqb (receive_decision receive_limit v a 0) obs
  end.
