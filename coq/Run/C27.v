(* Correspondence cases for C27: one case = one operation sequence run on a
   real Badger store, with what the implementation did after every operation.
   Keys, transaction hashes and timestamps are referred to by index into the
   three tables of the case.  Keys carry their real 32-byte values (their order
   is the key order of the store); transaction hashes are renamed injectively
   to 1,2,.. by the harness (the model only compares them for equality). *)
From Coq Require Import List ZArith NArith Bool.
Require Import Mixin.Base.Res Mixin.Model.NodeState.
Import ListNotations.
Local Open Scope N_scope.

(* Numbers inside the constructors below are indices into the three tables of
   the case (keys, transaction hashes, timestamps), so that case terms stay small. *)
Inductive opx := O (kind signer payee tx ts : N) (genesis : bool).   (* kind 0..3 *)
Inductive recx := R (signer payee state tx ts : N).                  (* state 0..3 *)
Inductive briefx := B (signer state ts : N).
(* decision 0 = recorded, 1 = error, 2 = panic; then ReadAllNodes(max,false) in
   (timestamp, signer) order (None: not observed - the genesis nodes are loaded
   in one store transaction, and a refused operation leaves the store as it was) *)
Inductive stepobs := S (decision : N) (latest : option (res (list briefx))).
Inductive readx := Q (threshold : N) (with_state : bool) (obs : res (list recx)).

Inductive case :=
| CHist (keys txs tss : list N) (ops : list opx) (obs : list stepobs)
        (final : res (list recx))        (* ReadAllNodes(max,true) at the end *)
        (reads : list readx).            (* further reads at the end *)

Definition tab (t : list N) (i : N) : N := nth (N.to_nat i) t 0.

Definition kind_of (k : N) : okind :=
  match k with 0 => OPledge | 1 => OAccept | 2 => OCancel | _ => ORemove end.
Definition state_code (s : nstate) : N :=
  match s with Pledging => 0 | Accepted => 1 | Removed => 2 | Cancelled => 3 end.

Definition op_of (keys txs tss : list N) (o : opx) : op :=
  let '(O k s p t ts g) := o in
  mk_op (kind_of k) (tab keys s) (tab keys p) (tab txs t) (tab tss ts) g.

Definition rec_matches (keys txs tss : list N) (r : nrec) (x : recx) : bool :=
  let '(R s p st t ts) := x in
  (n_signer r =? tab keys s) && (n_payee r =? tab keys p) && (state_code (n_state r) =? st)
  && (n_tx r =? tab txs t) && (n_ts r =? tab tss ts).

Definition brief_matches (keys tss : list N) (r : nrec) (x : briefx) : bool :=
  let '(B s st ts) := x in
  (n_signer r =? tab keys s) && (state_code (n_state r) =? st) && (n_ts r =? tab tss ts).

Fixpoint all2 {A B} (f : A -> B -> bool) (a : list A) (b : list B) : bool :=
  match a, b with
  | [], [] => true
  | x :: a', y :: b' => f x y && all2 f a' b'
  | _, _ => false
  end.

Definition res_list_matches {A B} (f : A -> B -> bool) (m : res (list A)) (o : res (list B)) : bool :=
  match m, o with
  | Ok a, Ok b => all2 f a b
  | Err, Err => true
  | Panic, Panic => true
  | _, _ => false
  end.

Definition decision_code {A} (r : res A) : N :=
  match r with Ok _ => 0 | Err => 1 | Panic => 2 end.

Definition max64 : N := 2 ^ 64 - 1.

Fixpoint replay (keys txs tss : list N) (h : list nrec) (ops : list opx) (obs : list stepobs) : option (list nrec) :=
  match ops, obs with
  | [], [] => Some h
  | o :: ops', S d lat :: obs' =>
      let r := apply h (op_of keys txs tss o) in
      let h' := match r with Ok x => x | _ => h end in
      if (decision_code r =? d)
         && match lat with
            | None => true
            | Some l => res_list_matches (brief_matches keys tss) (read_all_nodes h' max64 false) l
            end
      then replay keys txs tss h' ops' obs'
      else None
  | _, _ => None
  end.

Definition check (c : case) : bool :=
  match c with
  | CHist keys txs tss ops obs final reads =>
      match replay keys txs tss [] ops obs with
      | None => false
      | Some h =>
          res_list_matches (rec_matches keys txs tss) (read_all_nodes h max64 true) final
          && forallb (fun q => let '(Q th ws o) := q in
                               res_list_matches (rec_matches keys txs tss) (read_all_nodes h th ws) o) reads
      end
  end.
