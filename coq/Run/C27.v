(* Correspondence cases for C27: one case = one operation sequence run on a
   real Badger store, with what the implementation did after every operation.
   Keys and transaction hashes are referred to by index into the two tables of
   the case (their real 32-byte values, so that the key order of the store is
   the model's order). *)
From Coq Require Import List ZArith NArith Bool.
Require Import Mixin.Base.Res Mixin.Model.NodeState.
Import ListNotations.
Open Scope N_scope.

(* (kind 0..3, signer index, payee index, tx index, timestamp, genesis) *)
Definition opx := (N * N * N * N * N * bool)%type.
(* (signer index, payee index, state 0..3, tx index, timestamp) *)
Definition recx := (N * N * N * N * N)%type.
(* decision 0 = recorded, 1 = error, 2 = panic; then ReadAllNodes(max,false) as
   (signer index, state, timestamp) in (timestamp, signer) order (None: not
   observable, the genesis nodes are loaded in one store transaction) *)
Definition stepobs := (N * option (res (list (N * N * N))))%type.

Inductive case :=
| CHist (keys txs : list N) (ops : list opx) (obs : list stepobs)
        (final : res (list recx))                      (* ReadAllNodes(max,true) at the end *)
        (reads : list (N * bool * res (list recx))).   (* further reads (threshold, withState) at the end *)

Definition tab (t : list N) (i : N) : N := nth (N.to_nat i) t 0.

Definition kind_of (k : N) : okind :=
  match k with 0 => OPledge | 1 => OAccept | 2 => OCancel | _ => ORemove end.
Definition state_code (s : nstate) : N :=
  match s with Pledging => 0 | Accepted => 1 | Removed => 2 | Cancelled => 3 end.

Definition op_of (keys txs : list N) (o : opx) : op :=
  let '(k, s, p, t, ts, g) := o in
  mk_op (kind_of k) (tab keys s) (tab keys p) (tab txs t) ts g.

Definition rec_matches (keys txs : list N) (r : nrec) (x : recx) : bool :=
  let '(s, p, st, t, ts) := x in
  (n_signer r =? tab keys s) && (n_payee r =? tab keys p) && (state_code (n_state r) =? st)
  && (n_tx r =? tab txs t) && (n_ts r =? ts).

Definition brief_matches (keys : list N) (r : nrec) (x : N * N * N) : bool :=
  let '(s, st, ts) := x in
  (n_signer r =? tab keys s) && (state_code (n_state r) =? st) && (n_ts r =? ts).

Fixpoint all2 {A B} (f : A -> B -> bool) (a : list A) (b : list B) : bool :=
  match a, b with
  | [], [] => true
  | x :: a', y :: b' => f x y && all2 f a' b'
  | _, _ => false
  end.

Definition res_list_matches {A B} (f : A -> B -> bool) (m : res (list A)) (o : res (list B)) : bool :=
  match m, o with
  | Ok a, Ok b => all2 f a b
  | Err, Err => true
  | Panic, Panic => true
  | _, _ => false
  end.

Definition decision_code {A} (r : res A) : N :=
  match r with Ok _ => 0 | Err => 1 | Panic => 2 end.

Definition max64 : N := 2 ^ 64 - 1.

Fixpoint replay (keys txs : list N) (h : list nrec) (ops : list opx) (obs : list stepobs) : option (list nrec) :=
  match ops, obs with
  | [], [] => Some h
  | o :: ops', (d, lat) :: obs' =>
      let r := apply h (op_of keys txs o) in
      let h' := match r with Ok x => x | _ => h end in
      if (decision_code r =? d)
         && match lat with
            | None => true
            | Some l => res_list_matches (brief_matches keys) (read_all_nodes h' max64 false) l
            end
      then replay keys txs h' ops' obs'
      else None
  | _, _ => None
  end.

Definition check (c : case) : bool :=
  match c with
  | CHist keys txs ops obs final reads =>
      match replay keys txs [] ops obs with
      | None => false
      | Some h =>
          res_list_matches (rec_matches keys txs) (read_all_nodes h max64 true) final
          && forallb (fun q => let '(th, ws, o) := q in
                               res_list_matches (rec_matches keys txs) (read_all_nodes h th ws) o) reads
      end
  end.
