(* Correspondence cases for C35: one case = one history of snapshot writes,
   cursor listings and lookups by hash on a real store.  A snapshot hash is
   represented by the index the harness gave it (an injective renaming of the
   real payload hashes; the model only compares hashes for equality). *)
From Coq Require Import List ZArith NArith Bool.
Require Import Mixin.Base.Res Mixin.Model.Topology.
Import ListNotations.
Local Open Scope N_scope.

(* a listed entry: position and snapshot (index of its payload hash) *)
Inductive ent := E (pos hash : N).

Inductive topx :=
| XWriteAt (pos hash : N) (obs : N)             (* WriteSnapshot at a chosen position: 0 ok, 1 error, 2 panic *)
| XInit (obs : res N)                           (* new node: counter read from LastSnapshot *)
| XSetSeq (v : N)                               (* overwrite the in-memory counter *)
| XTopoWrite (hash : N) (obs : res N)           (* TopoWrite: the position it assigned *)
| XList (offset count : N) (obs : res (list ent))   (* storage ReadSnapshots[WithTransactions]SinceTopology, and the
                                                        kernel's Node.ReadSnapshotsSinceTopology, which forwards to it *)
| XLookup (hash : N) (obs : res (option (N * N)))
| XLast (obs : res (N * N)).

Inductive case :=
| CTopo (genesis : list N)    (* LoadGenesis: these snapshots at positions 0,1,.. *)
        (ops : list topx).

Definition pair_eqb (a b : N * N) : bool := (fst a =? fst b) && (snd a =? snd b).
Definition ent_eqb (a : N * N) (b : ent) : bool := let '(E p h) := b in (fst a =? p) && (snd a =? h).
Fixpoint list_eqb2 {A B} (f : A -> B -> bool) (a : list A) (b : list B) : bool :=
  match a, b with
  | [], [] => true
  | x :: a', y :: b' => f x y && list_eqb2 f a' b'
  | _, _ => false
  end.
Definition res_eqb2 {A B} (f : A -> B -> bool) (a : res A) (b : res B) : bool :=
  match a, b with
  | Ok x, Ok y => f x y
  | Err, Err => true
  | Panic, Panic => true
  | _, _ => false
  end.
Fixpoint list_eqb {A} (f : A -> A -> bool) (a b : list A) : bool :=
  match a, b with
  | [], [] => true
  | x :: a', y :: b' => f x y && list_eqb f a' b'
  | _, _ => false
  end.
Definition opt_eqb {A} (f : A -> A -> bool) (a b : option A) : bool :=
  match a, b with
  | None, None => true
  | Some x, Some y => f x y
  | _, _ => false
  end.
Definition code {A} (r : res A) : N := match r with Ok _ => 0 | Err => 1 | Panic => 2 end.

Fixpoint load (s : tstore) (i : N) (g : list N) : option tstore :=
  match g with
  | [] => Some s
  | h :: g' => match write_topology s i h with Ok s' => load s' (i + 1) g' | _ => None end
  end.

(* state: the store and the counter of the current node object *)
Fixpoint replay (s : tstore) (seq : N) (ops : list topx) : bool :=
  match ops with
  | [] => true
  | o :: ops' =>
      match o with
      | XWriteAt p h obs =>
          let r := write_snapshot s p h in
          (code r =? obs) && replay (match r with Ok s' => s' | _ => s end) seq ops'
      | XInit obs =>
          let r := topo_init s in
          res_eqb N.eqb (rmap tn_seq r) obs
          && replay s (match r with Ok n => tn_seq n | _ => seq end) ops'
      | XSetSeq v => replay s v ops'
      | XTopoWrite h obs =>
          let '(n, r) := topo_write (mk_tnode seq s) h in
          res_eqb N.eqb r obs && replay (tn_store n) (tn_seq n) ops'
      | XList off cnt obs => res_eqb2 (list_eqb2 ent_eqb) (list_since s off cnt) obs && replay s seq ops'
      | XLookup h obs => res_eqb (opt_eqb pair_eqb) (lookup s h) obs && replay s seq ops'
      | XLast obs => res_eqb pair_eqb (last_snapshot s) obs && replay s seq ops'
      end
  end.

Definition check (c : case) : bool :=
  match c with
  | CTopo g ops =>
      match load t_empty 0 g with
      | Some s => replay s 0 ops
      | None => false
      end
  end.
