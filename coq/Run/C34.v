(* Correspondence cases for C34: each case carries the bytes handed to the Go
   code, the results of the REAL signature verifications the harness performed
   on slices of those bytes (table [vq]), the previous custodian state and what
   the implementation decided / returned; [check] recomputes with the model.

   The verification table is independent of the model's layout: an entry
   [VQ key moff mlen soff ok] records that
     key.Verify(Blake3Hash(extra[moff:moff+mlen]), extra[soff:soff+64]) = ok
   on real code.  A query the table does not contain answers false, so a model
   that asked for the wrong key, message or signature slice disagrees with the
   implementation on a valid update. *)
From Coq Require Import List ZArith NArith Bool Arith.
From Coq Require Export Uint63.
Require Import Mixin.Base.Res Mixin.Model.Custodian.
Import ListNotations.
Local Open Scope nat_scope.

(* Byte strings travel packed, seven bytes per 63-bit machine integer (least
   significant byte first), because a literal list of thousands of [N]s is slow
   to elaborate; [U len words] is the byte string of length [len]. *)
Definition bitN (b m : int) (v : N) : N := if ((b land m) =? 0)%uint63 then 0%N else v.
Definition byte_at (w k : int) : N :=
  let b := (w >> k)%uint63 in
  (bitN b 1 1 + bitN b 2 2 + bitN b 4 4 + bitN b 8 8
   + bitN b 16 16 + bitN b 32 32 + bitN b 64 64 + bitN b 128 128)%N.
Definition word_bytes (w : int) : list N :=
  [byte_at w 0; byte_at w 8; byte_at w 16; byte_at w 24; byte_at w 32; byte_at w 40; byte_at w 48]%uint63.
Definition U (len : N) (ws : list int) : list N := firstn (N.to_nat len) (flat_map word_bytes ws).

Inductive vq := VQ (key : list N) (moff mlen soff : N) (ok : bool).

Definition verify_of (extra : list N) (tbl : list vq) (k m s : list N) : bool :=
  existsb (fun q => match q with
     | VQ key moff mlen soff ok =>
         (* nested [if]s: evaluation stops at the first difference *)
         if ok then
           if bytes_eqb k key then
             if bytes_eqb s (slice (N.to_nat soff) (N.to_nat soff + 64) extra)
             then bytes_eqb m (slice (N.to_nat moff) (N.to_nat moff + N.to_nat mlen) extra)
             else false
           else false
         else false
     end) tbl.

(* previous custodian state as the store returned it *)
Inductive sobs :=
| SErr
| SNone
| SSome (cs cv : list N) (nodes : list (list N * list N * list N * list N)).
   (* custodian spend, custodian view, payee spend, payee view *)

Definition store_of (s : sobs) : store_res :=
  match s with
  | SErr => StoreErr
  | SNone => StoreNone
  | SSome cs cv nodes =>
      StoreSome {| p_cust := (cs, cv);
                   p_nodes := map (fun q => match q with (a, b, c, d) => ((a, b), (c, d)) end) nodes |}
  end.

Inductive case :=
(* parseCustodianNode(e, genesis): observed = the node's five fields concatenated *)
| CNode (e : list N) (genesis : bool) (tbl : list vq) (obs : res (list N))
(* ParseCustodianUpdateNodesExtra(extra, genesis): observed = custodian, nodes, signature *)
| CParse (extra : list N) (genesis : bool) (tbl : list vq) (obs : res (list N))
(* tx.validateCustodianUpdateNodes(store, now) *)
| CValidate (version : Z) (asset : N) (outs : list (Z * nat * list N * Z))
            (extra : list N) (tbl : list vq) (store : sobs) (obs : res unit).

Definition node_proj (n : cnode) : list N :=
  cn_cust_spend n ++ cn_cust_view n ++ cn_payee_spend n ++ cn_payee_view n ++ cn_extra n.
Definition update_proj (u : update) : list N :=
  fst (u_cust u) ++ snd (u_cust u) ++ concat (map node_proj (u_nodes u)) ++ u_sig u.

Definition unit_eqb (a b : unit) := true.

Definition check (c : case) : bool :=
  match c with
  | CNode e g tbl obs =>
      res_eqb bytes_eqb (rmap node_proj (parse_node (verify_of e tbl) g e)) obs
  | CParse extra g tbl obs =>
      res_eqb bytes_eqb (rmap update_proj (parse_update (verify_of extra tbl) g extra)) obs
  | CValidate version asset outs extra tbl store obs =>
      let tx := {| t_version := version; t_asset := asset;
                   t_outputs := map (fun o => match o with (t, k, s, a) =>
                       {| o_type := t; o_nkeys := k; o_script := s; o_amount := a |} end) outs |} in
      res_eqb unit_eqb (validate_update (verify_of extra tbl) tx extra (store_of store)) obs
  end.
