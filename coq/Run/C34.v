(* Correspondence cases for C34: each case carries the bytes handed to the Go
   code, the results of the REAL signature verifications the harness performed
   on slices of those bytes (table [vq]), the previous custodian state and what
   the implementation decided / returned; [check] recomputes with the model.

   The verification table is independent of the model's layout: an entry
   [VQ key moff mlen soff ok] records that
     key.Verify(Blake3Hash(extra[moff:moff+mlen]), extra[soff:soff+64]) = ok
   on real code.  A query the table does not contain answers false, so a model
   that asked for the wrong key, message or signature slice disagrees with the
   implementation on a valid update. *)
From Coq Require Import List ZArith NArith Bool Arith.
Require Import Mixin.Base.Res Mixin.Model.Custodian.
Import ListNotations.
Local Open Scope nat_scope.

Inductive vq := VQ (key : list N) (moff mlen soff : nat) (ok : bool).

Definition verify_of (extra : list N) (tbl : list vq) (k m s : list N) : bool :=
  existsb (fun q => match q with
     | VQ key moff mlen soff ok =>
         ok && bytes_eqb k key && bytes_eqb s (slice soff (soff + 64) extra)
            && bytes_eqb m (slice moff (moff + mlen) extra)
     end) tbl.

(* previous custodian state as the store returned it *)
Inductive sobs :=
| SErr
| SNone
| SSome (cs cv : list N) (nodes : list (list N * list N * list N * list N)).
   (* custodian spend, custodian view, payee spend, payee view *)

Definition store_of (s : sobs) : store_res :=
  match s with
  | SErr => StoreErr
  | SNone => StoreNone
  | SSome cs cv nodes =>
      StoreSome {| p_cust := (cs, cv);
                   p_nodes := map (fun q => match q with (a, b, c, d) => ((a, b), (c, d)) end) nodes |}
  end.

Inductive case :=
(* parseCustodianNode(e, genesis): observed = the node's five fields concatenated *)
| CNode (e : list N) (genesis : bool) (tbl : list vq) (obs : res (list N))
(* ParseCustodianUpdateNodesExtra(extra, genesis): observed = custodian, nodes, signature *)
| CParse (extra : list N) (genesis : bool) (tbl : list vq) (obs : res (list N))
(* tx.validateCustodianUpdateNodes(store, now) *)
| CValidate (version : Z) (asset : N) (outs : list (Z * nat * list N * Z))
            (extra : list N) (tbl : list vq) (store : sobs) (obs : res unit).

Definition node_proj (n : cnode) : list N :=
  cn_cust_spend n ++ cn_cust_view n ++ cn_payee_spend n ++ cn_payee_view n ++ cn_extra n.
Definition update_proj (u : update) : list N :=
  fst (u_cust u) ++ snd (u_cust u) ++ concat (map node_proj (u_nodes u)) ++ u_sig u.

Definition unit_eqb (a b : unit) := true.

Definition check (c : case) : bool :=
  match c with
  | CNode e g tbl obs =>
      res_eqb bytes_eqb (rmap node_proj (parse_node (verify_of e tbl) g e)) obs
  | CParse extra g tbl obs =>
      res_eqb bytes_eqb (rmap update_proj (parse_update (verify_of extra tbl) g extra)) obs
  | CValidate version asset outs extra tbl store obs =>
      let tx := {| t_version := version; t_asset := asset;
                   t_outputs := map (fun o => match o with (t, k, s, a) =>
                       {| o_type := t; o_nkeys := k; o_script := s; o_amount := a |} end) outs |} in
      res_eqb unit_eqb (validate_update (verify_of extra tbl) tx extra (store_of store)) obs
  end.
