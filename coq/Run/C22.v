(* Correspondence cases for C22: the abstract call list of a real workload, the number
   of completed calls at the stop, and what the restart showed: the class of the real
   SetupNode outcome together with the count of invalid entries reported by
   ValidateGraphEntries over the whole graph, the last recorded consensus operation
   and whether the store scan found every finalized transaction complete. *)
From Coq Require Import List ZArith NArith Bool.
Require Import Mixin.Base.Res.
Require Export Mixin.Model.Crash.
Import ListNotations.
Open Scope N_scope.

Inductive case :=
| CRestart (n : N) (calls : list call) (k : nat) (obs : res (N * N * bool)).

Definition check (c : case) : bool :=
  match c with
  | CRestart n calls k obs =>
      let st := exec (genesis n) (firstn k calls) in
      wf_calls (genesis n) calls &&
      match recover st, obs with
      | Ok m, Ok (m', inv, complete) =>
          (m =? m') && res_eqb N.eqb (validate st) (Ok inv) && Bool.eqb (finalized_complete st) complete
      | Err, Err => true
      | Panic, Panic => true
      | _, _ => false
      end
  end.
