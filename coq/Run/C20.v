(* Correspondence cases for C20: a whole history of round transitions over
   several chains on one real Badger store; the model is run on the same
   history from the same initial records. *)
From Coq Require Import List ZArith NArith Bool.
Require Import Mixin.Base.Res.
From Coq Require Export Uint63.
Require Export Mixin.Model.RoundNum Mixin.Model.RoundHash Mixin.Model.LiveRound Mixin.Model.RoundLinks.
Import ListNotations.
Open Scope N_scope.

(* observed in-memory state of one chain: id, final round, cache round with the
   hashes of its snapshots in slice order, RoundLinks entries *)
Record chain_obs := mk_obs {
  o_id : N; o_final : final_round; o_cache : cache_round; o_snaps : list N; o_links : list (N * N) }.

Inductive case :=
(* initial world, Blake3 table, history, observed outcome class per executed
   step (the history ends at the first panic), observed ROUND and LINK records
   and in-memory chain states at the end *)
| CHist (init : world) (tbl : list (hin * N)) (ops : list op) (classes : list N)
        (rounds : list (N * round_rec)) (links : list ((N * N) * N)) (mem : list chain_obs).

Definition rr_eqb (a b : round_rec) : bool :=
  (r_hash a =? r_hash b) && (r_node a =? r_node b) && (r_number a =? r_number b)
  && (r_ts a =? r_ts b) && (r_self a =? r_self b) && (r_ext a =? r_ext b).
Definition fr_eqb (a b : final_round) : bool :=
  (f_node a =? f_node b) && (f_number a =? f_number b) && (f_start a =? f_start b)
  && (f_end a =? f_end b) && (f_hash a =? f_hash b).
Fixpoint list_eqb (a b : list N) : bool :=
  match a, b with
  | [], [] => true
  | x :: a', y :: b' => (x =? y) && list_eqb a' b'
  | _, _ => false
  end.
Definition cr_eqb (a : cache_round) (b : cache_round) (snaps : list N) : bool :=
  (c_node a =? c_node b) && (c_number a =? c_number b) && (c_ts a =? c_ts b)
  && (c_self a =? c_self b) && (c_ext a =? c_ext b) && list_eqb (map s_hash (c_snaps a)) snaps.

Definition rounds_agree (model : list (N * round_rec)) (obs : list (N * round_rec)) : bool :=
  forallb (fun kv => match find_round (fst kv) model with Some r => rr_eqb r (snd kv) | None => false end) obs
  && forallb (fun kv => match find_round (fst kv) obs with Some _ => true | None => false end) model.
Definition links_agree (model obs : list ((N * N) * N)) : bool :=
  forallb (fun kv => find_link (fst (fst kv)) (snd (fst kv)) model =? snd kv) obs
  && forallb (fun kv => existsb (fun ov => (fst (fst kv) =? fst (fst ov)) && (snd (fst kv) =? snd (fst ov))) obs) model.
Definition chain_agrees (chains : list chain) (o : chain_obs) : bool :=
  match find_chain (o_id o) chains with
  | None => false
  | Some c =>
      fr_eqb (ch_final c) (o_final o) && cr_eqb (ch_cache c) (o_cache o) (o_snaps o)
      && forallb (fun kv => get_link (fst kv) (ch_links c) =? snd kv) (o_links o)
  end.

Definition died (classes : list N) : bool := existsb (N.eqb 2) classes.

Definition check (c : case) : bool :=
  match c with
  | CHist init tbl ops classes rounds links mem =>
      let '(w, ks) := steps (table_hash tbl) isort_snap isort_ts init ops in
      list_eqb ks classes
      && rounds_agree (d_rounds (w_dur w)) rounds && links_agree (d_links (w_dur w)) links
      && (died classes || forallb (chain_agrees (w_chains w)) mem)
  end.
