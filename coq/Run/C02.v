(* Correspondence cases for C02: each case carries the inputs and what the Go
   implementation returned; [check] recomputes with the models.
   The abstract verification predicates of Model/Threshold.v are instantiated
   from the case: signatures and key values are small identifiers, [vtab] lists
   the (key value, signature) pairs on which crypto Key.Verify over the payload
   hash returned true, the batch verifier is the conjunction, [aggok] is the
   result of crypto.AggregateVerify on the claimed signer list. *)
From Coq Require Import List ZArith NArith Bool.
Require Import Mixin.Base.Res Mixin.Model.Threshold Mixin.Model.SchnorrAlg.
Import ListNotations.
Open Scope Z_scope.

(* order of the prime-order subgroup of edwards25519 (library constant) *)
Definition ed_l : Z := 2 ^ 252 + 27742317777372353535851937790883648493.

Inductive case :=
| CInputs (us : list (Z * list (N * N) * list N * N))   (* output type, keys (pointer id, value id), script bytes,
                                                          lock: 0 none, 1 this payload hash, 2 another hash *)
          (sigs : list (list (N * option N)))        (* SignaturesMap: index -> signature id *)
          (ag : option (list Z))                     (* AggregatedSignature.Signers *)
          (txType : Z) (fork : bool)
          (vtab : list (N * N)) (aggok : bool)
          (obs : res unit)                           (* validateInputs: nil / error / panic *)
| CScript (s : list N) (sum : Z) (obs : bool)        (* Script.Validate(sum) == nil *)
| CVerify (a r s k : Z) (obs : bool)                 (* Key.Verify; k the challenge of the verified transcript *)
| CBatch (es : list (Z * Z * Z * Z)) (obs : bool)    (* crypto.BatchVerify on entries (a, r, s, k) *)
| CCancel (es : list (Z * Z * Z * Z)) (zs : list Z) (obs : bool)
  (* linear-cancellation family: every entry individually invalid, the errors chosen so
     that the batch sum cancels for the coefficient pattern zs (all equal, period 2,
     small guessed weights); crypto.BatchVerify must still refuse *)
| CAggV (ref : bool) (obs : bool)
  (* CAggV: crypto.AggregateVerify called directly; [ref] is the verdict of the harness' independent
     transcription of the aggregate scheme (the instance of the abstract predicate [aggv] together
     with the structural checks), [obs] what the implementation answered *).

Definition mk_utxo (u : Z * list (N * N) * list N * N) : utxo :=
  let '(t, ks, sc, lk) := u in
  mkUtxo t (map (fun p => mkKey (fst p) (snd p)) ks) sc lk.

Definition tab_ver (tab : list (N * N)) (k s : N) : bool :=
  existsb (fun p => (fst p =? k)%N && (snd p =? s)%N) tab.

Fixpoint ones (n : nat) (z : Z) : list Z :=
  match n with O => [] | S n' => z :: ones n' (z + 2) end.

Definition check (c : case) : bool :=
  match c with
  | CInputs us sigs ag txType fork vtab aggok obs =>
      let ver := tab_ver vtab in
      let bat := forallb (fun e : N * N => ver (fst e) (snd e)) in
      let r := validate_inputs ver bat (fun _ _ => aggok) (map mk_utxo us) sigs
                 (option_map (fun sg => (0%N, sg)) ag) txType 1%N fork in
      res_class_eqb r obs
  | CScript s sum obs => Bool.eqb (script_validate s sum) obs
  | CVerify a r s k obs => Bool.eqb (verify ed_l (fun _ _ _ => k) a 0 r s) obs
  | CBatch es obs =>
      let ok := forallb (entry_ok ed_l) es in
      Bool.eqb obs (negb (Nat.eqb (length es) 0) && ok)
      && implb obs (batch_verify ed_l (ones (length es) 1) es)
      && implb obs (batch_verify ed_l (ones (length es) 340282366920938463463374607431768211297) es)
  | CCancel es zs obs =>
      negb obs
      && forallb (fun e => negb (entry_ok ed_l e)) es
      && Nat.eqb (length zs) (length es)
      && batch_check ed_l zs es                       (* the family does cancel for its pattern *)
      && negb (batch_check ed_l (ones (length es) 1) es)  (* and not for pairwise different coefficients *)
  | CAggV ref obs => Bool.eqb ref obs
  end.
