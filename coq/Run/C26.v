(* Correspondence cases for C26: one case is a whole history of WriteRoundWork
   calls on a fresh set of node ids of a real Badger store, with the observed
   outcome class of every call (returned / panicked), the ListNodeWorks table
   read after the last call for every (id, day) involved, and ReadWorkOffset
   per id.  [check] replays the history in the model.

   The term is kept small (coqc elaborates ~10^4 list elements per second):
   ids are listed once in [nodes] and referred to by position, every distinct
   snapshot is listed once in [pool] and referred to by position.  A position
   outside its list makes [check] answer false. *)
From Coq Require Import List ZArith NArith Bool.
Require Import Mixin.Base.Res.
Require Export Mixin.Model.Work.
Import ListNotations.
Open Scope Z_scope.

(* a distinct snapshot of the case: hash, timestamp, signers as positions in [nodes] *)
Inductive psnap :=
| PS (hash : N) (ts : Z) (signers : list nat)
(* signers = the node positions from, from+1, ..., from+count-1 (big signer lists) *)
| PSR (hash : N) (ts : Z) (from count : N).

(* one call: position of the node id, round, credit flag, whether the real call
   panicked, the submitted list as positions in [pool] *)
Inductive rsub :=
| RSub (node : nat) (round : Z) (credit : bool) (panicked : bool) (snaps : list nat)
(* the submitted list is the pool positions from, from+1, ..., from+count-1
   (rounds with hundreds of snapshots) *)
| RRange (node : nat) (round : Z) (credit : bool) (panicked : bool) (from count : N).

Definition range (from count : N) : list nat := seq (N.to_nat from) (N.to_nat count).

(* table: for every day of [days] one list [lead_0; sign_0; lead_1; sign_1; ...]
   over [nodes]; offs: ReadWorkOffset per node of [nodes] *)
Inductive case :=
| CWork (nodes : list N) (pool : list psnap) (subs : list rsub)
        (days : list Z) (table : list (list Z)) (offs : list Z).

Definition in_range {A} (l : list A) (i : nat) : bool := Nat.ltb i (length l).

Definition dec_signers (nodes : list N) (h : N) (ts : Z) (sg : list nat) : option snap :=
  if forallb (in_range nodes) sg
  then Some (mk_snap h ts (map (fun i => nth i nodes 0%N) sg))
  else None.

Definition dec_snap (nodes : list N) (p : psnap) : option snap :=
  match p with
  | PS h ts sg => dec_signers nodes h ts sg
  | PSR h ts from count => dec_signers nodes h ts (range from count)
  end.

Fixpoint dec_pool (nodes : list N) (pool : list psnap) : option (list snap) :=
  match pool with
  | [] => Some []
  | p :: pool' =>
    match dec_snap nodes p, dec_pool nodes pool' with
    | Some w, Some ws => Some (w :: ws)
    | _, _ => None
    end
  end.

Definition dummy_snap : snap := mk_snap 0%N 0 [].

Definition sub_parts (s : rsub) : nat * Z * bool * bool * list nat :=
  match s with
  | RSub n r c p ix => (n, r, c, p, ix)
  | RRange n r c p from count => (n, r, c, p, range from count)
  end.

Fixpoint replay (nodes : list N) (pool : list snap) (st : state) (subs : list rsub) : option state :=
  match subs with
  | [] => Some st
  | s :: subs' =>
    let '(n, r, c, p, ix) := sub_parts s in
    if in_range nodes n && forallb (in_range pool) ix then
      match write_round_work st (nth n nodes 0%N) r (map (fun i => nth i pool dummy_snap) ix) c, p with
      | Ok st', false => replay nodes pool st' subs'
      | Panic, true => replay nodes pool st subs'
      | _, _ => None
      end
    else None
  end.

Fixpoint day_ok (st : state) (d : Z) (nodes : list N) (vals : list Z) : bool :=
  match nodes, vals with
  | [], [] => true
  | n :: nodes', l :: s :: vals' =>
    (lead st n d =? l) && (sign st n d =? s) && day_ok st d nodes' vals'
  | _, _ => false
  end.

Fixpoint table_ok (st : state) (nodes : list N) (days : list Z) (table : list (list Z)) : bool :=
  match days, table with
  | [], [] => true
  | d :: days', vals :: table' => day_ok st d nodes vals && table_ok st nodes days' table'
  | _, _ => false
  end.

Fixpoint offs_ok (st : state) (nodes : list N) (offs : list Z) : bool :=
  match nodes, offs with
  | [], [] => true
  | n :: nodes', o :: offs' => (read_work_offset st n =? o) && offs_ok st nodes' offs'
  | _, _ => false
  end.

Definition check (c : case) : bool :=
  match c with
  | CWork nodes pool subs days table offs =>
    match dec_pool nodes pool with
    | None => false
    | Some ws =>
      match replay nodes ws empty_state subs with
      | None => false
      | Some st => table_ok st nodes days table && offs_ok st nodes offs
      end
    end
  end.
