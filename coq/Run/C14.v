(* Correspondence cases for C14 (crypto/aggregation.go).  A case carries the
   scenario in discrete-log form, the finite tables instantiating the abstract
   point encoding and hash, and what AggregateSign / AggregateVerify returned.
   The R half of a signature produced by AggregateSign has a discrete log only
   the model knows (the nonces are hash-derived inside the implementation): the
   verification variants of a case therefore refer to "the R the model computed"
   unless they replace it. *)
From Coq Require Import List ZArith NArith Bool.
Require Import Mixin.Base.Res Mixin.Gen.Consts Mixin.Model.Group Mixin.Model.Aggregate.
Require Export Mixin.Model.Limbs.
Import ListNotations.
Open Scope Z_scope.

Definition L : Z := Consts.EdL.

Inductive vop :=
| VOp (keys' : option (list Z)) (rmod : option Z) (s : Z) (signers : list Z) (m : N) (obs : res unit).

Inductive case :=
| CSign (et : list (Z * N)) (ht : list (list N * Z)) (keys privs signers : list Z)
        (seed : list N) (m : N) (obs : res (N * Z)) (vs : list vop).

Definition unit_eqb (a b : unit) := true.
Definition sig_eqb (a b : N * Z) := (fst a =? fst b)%N && (snd a =? snd b).
Definition dflt {A} (d : A) (o : option A) : A := match o with Some x => x | None => d end.

Definition check (c : case) : bool :=
  match c with
  | CSign et ht keys privs signers seed m obs vs =>
      let enc := enc_of_table et in
      let H := hash_of_table ht in
      let sg := aggregate_sign L enc H privs keys signers seed m in
      let r0 := match sg with Ok rs => fst rs | _ => -1 end in
      res_eqb sig_eqb (rmap (fun rs => (enc (fst rs), snd rs)) sg) obs
      && forallb (fun v => match v with
                  | VOp keys' rmod s signers' m' vobs =>
                      res_eqb unit_eqb
                        (aggregate_verify L enc H (dflt r0 rmod) s (dflt keys keys') signers' m') vobs
                  end) vs
  end.

(* ---- table requests (see Run/C13.v): (0,[z]) encoding of z.B, (1,packed bytes)
   hash-to-scalar, (2,[]) nothing more will be asked ------------------------- *)

Definition need := (Z * list Z)%type.

Definition miss_enc (et : list (Z * N)) (zs : list Z) : list need :=
  flat_map (fun z => match lookup_z et z with Some _ => [] | None => [(0, [z])] end) zs.

Definition miss_hash (ht : list (list N * Z)) (bs : list (list N)) : list need :=
  flat_map (fun b => match lookup_b ht b with Some _ => [] | None => [(1, pack b)] end) bs.

(* first non-empty stage; the flag says whether it is the last one *)
Definition stage (e : list need) (k : list need * bool) : list need * bool :=
  match e with [] => k | _ => (e, false) end.

Definition verify_needs et ht (keys signers : list Z) (m : N) (r : Z) : list need * bool :=
  let enc := enc_of_table et in
  let H := hash_of_table ht in
  match collect_signers L keys signers with
  | Ok sel =>
      stage (miss_enc et (map snd sel))
      (let tr := transcript enc sel in
       stage (miss_hash ht (map (coef_input enc tr) sel))
       (let a := weighted_key_of L enc H sel in
        stage (miss_enc et [r; a])
              (miss_hash ht [challenge_input enc r a m], true)))
  | _ => ([], true)
  end.

Definition sign_needs et ht (keys privs signers : list Z) (seed : list N) (m : N) : list need * bool :=
  let enc := enc_of_table et in
  let H := hash_of_table ht in
  if negb (Nat.eqb (length privs) (length signers)) || Nat.ltb (length seed) 32 then ([], true)
  else
  match collect_signers L keys signers with
  | Ok sel =>
      stage (miss_enc et (map snd sel))
      (let tr := transcript enc sel in
       stage (miss_hash ht (map (coef_input enc tr) sel))
       (let a := weighted_key_of L enc H sel in
        stage (miss_enc et [a])
        (match sign_loop L enc H seed tr a m sel privs with
         | Ok yz =>
             stage (miss_hash ht (map (fun '(ik, (y, _)) => nonce_input enc y seed tr a (fst ik) m) (combine sel yz)))
             (let r := fsum L (map snd yz) in
              stage (miss_enc et [r]) (miss_hash ht [challenge_input enc r a m], true))
         | _ => ([], true)
         end)))
  | _ => ([], true)
  end.

Definition needs (c : case) : list need :=
  match c with
  | CSign et ht keys privs signers seed m obs vs =>
      let enc := enc_of_table et in
      let H := hash_of_table ht in
      let '(ns, fin) := sign_needs et ht keys privs signers seed m in
      match ns with
      | _ :: _ => match vs with [] => if fin then ns ++ [(2, [])] else ns | _ => ns end  (* variants are asked afterwards *)
      | [] =>
          let r0 := match aggregate_sign L enc H privs keys signers seed m with Ok rs => fst rs | _ => -1 end in
          let parts := map (fun v => match v with
                            | VOp keys' rmod s signers' m' _ =>
                                verify_needs et ht (dflt keys keys') signers' m' (dflt r0 rmod)
                            end) vs in
          let all := flat_map fst parts in
          match all with
          | [] => []
          | _ => if forallb snd parts then all ++ [(2, [])] else all
          end
      end
  end.
