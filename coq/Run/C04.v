(* Correspondence cases for C04.  History and concurrent cases as in
   Run/C03.v (the same machine; the generator concentrates on output keys).
   A filter case carries the output key lists of a transaction given to the
   real validateOutputs with a recording locker: Ok = the key list the locker
   received, Err = rejected before the locker was called. *)
From Coq Require Import List ZArith NArith Bool.
Require Export Mixin.Base.Res Mixin.Model.GhostKeys Mixin.Model.Locks Mixin.Model.LocksCheck.
Import ListNotations.
Open Scope N_scope.

Inductive case :=
| CHist (ops : list op) (obs : list (res unit * delta)) (final : dump)
| CConc (pre : list op) (obs : list (res unit * delta))
        (batch : list op) (rs : list (res unit)) (final : dump)
| CVo (outs : list (list N)) (obs : res (list N)).

Definition check (c : case) : bool :=
  match c with
  | CHist ops obs final => check_hist ops obs final
  | CConc pre obs batch rs final => check_conc pre obs batch rs final
  | CVo outs obs => res_eqb bytes_eqb (vo_keys outs) obs
  end.
