(* Correspondence cases for C04.  History cases as in Run/C03.v (the same
   machine; the generator concentrates on output keys).  A filter case carries
   the output key lists of a transaction given to the real validateOutputs with
   a recording locker: Ok = the key list the locker received, Err = rejected
   before the locker was called. *)
From Coq Require Import List ZArith NArith Bool.
Require Import Mixin.Base.Res Mixin.Model.GhostKeys Mixin.Model.Locks Mixin.Model.LocksCheck.
Import ListNotations.
Open Scope N_scope.

Inductive case :=
| CHist (tbl : list N) (ops : (nat -> N) -> list op) (obs : (nat -> N) -> list (res unit * dump))
| CConc (tbl : list N) (pre : (nat -> N) -> list op) (obs : (nat -> N) -> list (res unit * dump))
        (batch : (nat -> N) -> list op) (rs : list (res unit)) (final : (nat -> N) -> dump)
| CVo (tbl : list N) (outs : (nat -> N) -> list (list N)) (obs : (nat -> N) -> res (list N)).

Definition check (c : case) : bool :=
  match c with
  | CHist tbl ops obs => check_hist tbl ops obs
  | CConc tbl pre obs batch rs final => check_conc tbl pre obs batch rs final
  | CVo tbl outs obs => res_eqb bytes_eqb (vo_keys (outs (lookup tbl))) (obs (lookup tbl))
  end.
