(* Correspondence cases for C19: a whole sequence of candidates offered to one
   live round through the real validateSnapshot; the model is run on the same
   sequence. *)
From Coq Require Import List ZArith NArith Bool.
Require Import Mixin.Base.Res.
From Coq Require Export Uint63.
Require Export Mixin.Model.RoundNum Mixin.Model.RoundHash Mixin.Model.LiveRound.
Import ListNotations.
Open Scope N_scope.

Inductive case :=
(* node, round number, candidates with their add flag, observed outcome class
   per candidate (0 ok, 1 error, 2 panic; the sequence ends at the first panic),
   observed hashes of c.Snapshots in slice order after the sequence, observed
   asFinal (start, end) *)
| CSeq (node number : N) (cands : list (snap * bool)) (classes : list N)
       (order : list N) (final : res (option (N * N))).

Definition class_of {A} (r : res A) : N :=
  match r with Ok _ => 0 | Err => 1 | Panic => 2 end.

Fixpoint run_obs (number : N) (l : list snap) (cands : list (snap * bool)) : list N * list snap :=
  match cands with
  | [] => ([], l)
  | (s, add) :: t =>
      let '(l', r) := validate_snapshot isort_ts number l s add in
      match r with
      | Panic => ([2], l')
      | _ => let '(cs, lf) := run_obs number l' t in (class_of r :: cs, lf)
      end
  end.

Fixpoint list_eqb (a b : list N) : bool :=
  match a, b with
  | [], [] => true
  | x :: a', y :: b' => (x =? y) && list_eqb a' b'
  | _, _ => false
  end.

Definition opt_pair_eqb (a b : option (N * N)) : bool :=
  match a, b with
  | None, None => true
  | Some (x, y), Some (x', y') => (x =? x') && (y =? y')
  | _, _ => false
  end.

Definition check (c : case) : bool :=
  match c with
  | CSeq node number cands classes order final =>
      let '(cs, lf) := run_obs number [] cands in
      list_eqb cs classes && list_eqb (map s_hash lf) order &&
      res_eqb opt_pair_eqb
        (rmap (option_map (fun t => (fst (fst t), snd (fst t))))
              (as_final (fun _ => 0) isort_snap node number lf))
        final
  end.
