(* Correspondence cases for C19: a whole sequence of candidates offered to one
   live round through the real validateSnapshot; the model is run on the same
   sequence.  CSt: stateful interleavings on one live round object and its
   Copy()s through the exported ValidateSnapshot, validateSnapshot and the
   validate-then-add path of the cosi handlers; the model keeps no memory of
   earlier verdicts, so every call is answered from the slot's content alone. *)
From Coq Require Import List ZArith NArith Bool.
Require Import Mixin.Base.Res.
From Coq Require Export Uint63.
Require Export Mixin.Model.RoundNum Mixin.Model.RoundHash Mixin.Model.LiveRound.
Import ListNotations.
Open Scope N_scope.

(* operations of a stateful case; i indexes the case's snapshot table *)
Inductive op :=
| OVal (slot i : N)                 (* exported ValidateSnapshot(s) *)
| OValU (slot i : N) (add : bool)   (* validateSnapshot(s, add) *)
| OAdd (slot i : N)                 (* ValidateSnapshot(s); when nil: validateSnapshot(s, true), index.Store *)
| OCopy (src dst : N)               (* slots[dst] = slots[src].Copy() *)
| ODrop (slot i : N).               (* the harness removes the member carrying snaps[i]'s hash *)

Inductive case :=
(* node, round number, candidates with their add flag, observed outcome class
   per candidate (0 ok, 1 error, 2 panic; the sequence ends at the first panic),
   observed hashes of c.Snapshots in slice order after the sequence, observed
   asFinal (start, end) *)
| CSeq (node number : N) (cands : list (snap * bool)) (classes : list N)
       (order : list N) (final : res (option (N * N)))
(* node, round number, table of snapshots, operations over round objects
   ("slots", all empty at the start; slot 0 is the live round), observed class
   per operation (0 ok, 1 error, 2 panic = end of the sequence, 3 = the exported
   ValidateSnapshot passed but validateSnapshot(s,true) refused), observed hashes
   of every slot's slice afterwards *)
| CSt (node number : N) (snaps : list snap) (nslots : N) (ops : list op)
      (classes : list N) (orders : list (list N)).

Definition class_of {A} (r : res A) : N :=
  match r with Ok _ => 0 | Err => 1 | Panic => 2 end.

Fixpoint run_obs (number : N) (l : list snap) (cands : list (snap * bool)) : list N * list snap :=
  match cands with
  | [] => ([], l)
  | (s, add) :: t =>
      let '(l', r) := validate_snapshot isort_ts number l s add in
      match r with
      | Panic => ([2], l')
      | _ => let '(cs, lf) := run_obs number l' t in (class_of r :: cs, lf)
      end
  end.

Fixpoint list_eqb (a b : list N) : bool :=
  match a, b with
  | [], [] => true
  | x :: a', y :: b' => (x =? y) && list_eqb a' b'
  | _, _ => false
  end.

Definition opt_pair_eqb (a b : option (N * N)) : bool :=
  match a, b with
  | None, None => true
  | Some (x, y), Some (x', y') => (x =? x') && (y =? y')
  | _, _ => false
  end.

Definition no_snap : snap := mk_snap 0 0 0 0 [].
Definition slot_get (st : list (list snap)) (i : N) : list snap := nth (N.to_nat i) st [].
Fixpoint set_nth (st : list (list snap)) (n : nat) (v : list snap) : list (list snap) :=
  match st, n with
  | [], _ => []
  | _ :: t, O => v :: t
  | x :: t, S n' => x :: set_nth t n' v
  end.
Definition slot_set (st : list (list snap)) (i : N) (v : list snap) := set_nth st (N.to_nat i) v.

Definition step_op (number : N) (snaps : list snap) (st : list (list snap)) (o : op)
  : list (list snap) * N :=
  let sn i := nth (N.to_nat i) snaps no_snap in
  match o with
  | OVal slot i =>
      let '(l', r) := validate_snapshot isort_ts number (slot_get st slot) (sn i) false in
      (slot_set st slot l', class_of r)
  | OValU slot i add =>
      let '(l', r) := validate_snapshot isort_ts number (slot_get st slot) (sn i) add in
      (slot_set st slot l', class_of r)
  | OAdd slot i =>
      let '(l1, r1) := validate_snapshot isort_ts number (slot_get st slot) (sn i) false in
      match r1 with
      | Ok _ =>
          let '(l2, r2) := validate_snapshot isort_ts number l1 (sn i) true in
          (slot_set st slot l2, match r2 with Ok _ => 0 | Err => 3 | Panic => 2 end)
      | _ => (slot_set st slot l1, class_of r1)
      end
  | OCopy src dst => (slot_set st dst (slot_get st src), 0)
  | ODrop slot i =>
      (slot_set st slot (filter (fun x => negb (s_hash x =? s_hash (sn i))) (slot_get st slot)), 0)
  end.

Fixpoint run_ops (number : N) (snaps : list snap) (st : list (list snap)) (ops : list op)
  : list N * list (list snap) :=
  match ops with
  | [] => ([], st)
  | o :: t =>
      let '(st', cl) := step_op number snaps st o in
      if cl =? 2 then ([2], st')
      else let '(cs, sf) := run_ops number snaps st' t in (cl :: cs, sf)
  end.

Fixpoint lists_eqb (a b : list (list N)) : bool :=
  match a, b with
  | [], [] => true
  | x :: a', y :: b' => list_eqb x y && lists_eqb a' b'
  | _, _ => false
  end.

Definition check (c : case) : bool :=
  match c with
  | CSeq node number cands classes order final =>
      let '(cs, lf) := run_obs number [] cands in
      list_eqb cs classes && list_eqb (map s_hash lf) order &&
      res_eqb opt_pair_eqb
        (rmap (option_map (fun t => (fst (fst t), snd (fst t))))
              (as_final (fun _ => 0) isort_snap node number lf))
        final
  | CSt node number snaps nslots ops classes orders =>
      let '(cs, sf) := run_ops number snaps (repeat [] (N.to_nat nslots)) ops in
      list_eqb cs classes && lists_eqb (map (map s_hash) sf) orders
  end.
