(* Correspondence cases for C32.  Primitive answers (SHA3 checksum input/output,
   CheckKey, HashScalar, point encoding) are supplied by the harness as one-entry
   tables computed with the library on the inputs it states; a model query on a
   different input misses the table and shows as a mismatch. *)
From Coq Require Import List ZArith NArith Bool.
Require Import Mixin.Base.Res Mixin.Gen.Consts Mixin.Model.GhostKey Mixin.Model.Base58
  Mixin.Model.Address Mixin.Model.HexText.
Require Export Mixin.Model.HexLit.
Import ListNotations.
Open Scope Z_scope.

Inductive case :=
| CB58Enc (bs : list N) (obs : list N)
| CB58Dec (s : list N) (obs : list N)
| CAddrParse (s : list N) (hk hv : list N) (ck : list (list N * bool)) (obs : res (list N * list N))
| CAddrPrint (sp vw : list N) (hk hv : list N) (obs : list N)
| CFixedParse (size : nat) (s : list N) (obs : res (list N))
| CFixedPrint (bs : list N) (obs : list N)
| CFixedJson (size : nat) (s : list N) (obs : res (list N))
| CFixedToJson (bs : list N) (obs : list N)
| CCosiJson (s : list N) (obs : res (list N * N))
| CCosiPrint (sg : list N) (mask : N) (obs : list N)
| CCosiToJson (sg : list N) (mask : N) (obs : list N)
(* ghost keys: scalars r a b (private), output index i; hs table entry
   (shared point as discrete log, index) -> scalar; enc table entry
   discrete log -> compressed point *)
| CGhostPub (r a b i : Z) (hp hi hv : Z) (ek : Z) (ev : N) (obs : N)
| CGhostPriv (r a b i : Z) (hp hi hv : Z) (obs : Z)
| CGhostView (p a r i : Z) (hp hi hv : Z) (ek : Z) (ev : N) (obs : N).

Definition beqb := Address.bytes_eqb.
Definition pair_eqb (x y : list N * list N) := beqb (fst x) (fst y) && beqb (snd x) (snd y).
Definition cosi_eqb (x y : list N * N) := beqb (fst x) (fst y) && (snd x =? snd y)%N.

Fixpoint lookup_ck (k : list N) (t : list (list N * bool)) : bool :=
  match t with
  | [] => false
  | (k', v) :: t' => if beqb k k' then v else lookup_ck k t'
  end.

Definition l : Z := Consts.GhostGroupOrder.

Definition check (c : case) : bool :=
  match c with
  | CB58Enc bs obs => beqb (encode bs) obs
  | CB58Dec s obs => beqb (decode s) obs
  | CAddrParse s hk hv ck obs =>
      let H := fun x => if beqb x hk then hv else [] in
      res_eqb pair_eqb (of_string H (fun k => lookup_ck k ck) s) obs
  | CAddrPrint sp vw hk hv obs =>
      let H := fun x => if beqb x hk then hv else [] in
      beqb (to_string H (sp, vw)) obs
  | CFixedParse size s obs => res_eqb beqb (fixed_of_string size s) obs
  | CFixedPrint bs obs => beqb (fixed_to_string bs) obs
  | CFixedJson size s obs => res_eqb beqb (fixed_of_json size s) obs
  | CFixedToJson bs obs => beqb (fixed_to_json bs) obs
  | CCosiJson s obs => res_eqb cosi_eqb (cosi_of_json s) obs
  | CCosiPrint sg mask obs => beqb (cosi_to_string (sg, mask)) obs
  | CCosiToJson sg mask obs => beqb (cosi_to_json (sg, mask)) obs
  | CGhostPub r a b i hp hi hv ek ev obs =>
      let hs := fun p j => if (p =? hp) && (j =? hi) then hv else 0 in
      let P := derive_public l hs r (pub l a) (pub l b) i in
      (P =? ek) && (ev =? obs)%N
  | CGhostPriv r a b i hp hi hv obs =>
      let hs := fun p j => if (p =? hp) && (j =? hi) then hv else 0 in
      derive_private l hs (pub l r) a b i =? obs
  | CGhostView p a r i hp hi hv ek ev obs =>
      let hs := fun q j => if (q =? hp) && (j =? hi) then hv else 0 in
      let B := view l hs (pub l p) a (pub l r) i in
      (B =? ek) && (ev =? obs)%N
  end.
