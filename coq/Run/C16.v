(* Correspondence cases for C16: one case is a whole ledger history run on a
   real node and store; [check] replays it on the model (Model/KernelSnap.v)
   and compares every validation decision, every write outcome and the final
   recorded asset totals. *)
From Coq Require Import List ZArith NArith Bool.
Require Export Mixin.Base.Res Mixin.Model.KernelSnap.
Import ListNotations.
Open Scope Z_scope.

Inductive stepc :=
| SBatch (sn : lsnap) (fresh : list (N * ltx)) (obs_valid : bool) (obs_write : option (res unit))
| SDirect (sn : lsnap) (t : ltx) (obs_valid : bool) (obs_write : option (res unit)).

Inductive case :=
| CHist (xin_info : N) (supply : Z) (steps : list stepc) (final_totals : list (N * Z)).

Definition write_eqb (m : option (res lstate)) (o : option (res unit)) : bool :=
  match m, o with
  | None, None => true
  | Some a, Some b => res_class_eqb a b
  | _, _ => false
  end.

(* the consensus reference rules are not exercised by C16 histories (no
   consensus-class member goes through the batch path) *)
Definition no_last : csnap := {| cs_txs := [0%N]; cs_ts := 0 |}.

Fixpoint run_steps (s : lstate) (pool : list (N * ltx)) (steps : list stepc) : option lstate :=
  match steps with
  | [] => Some s
  | SBatch sn fresh ov ow :: r =>
      let pool' := fresh ++ pool in
      match step s sn pool' no_last with
      | (s1, ok, w) =>
          if Bool.eqb ok ov && write_eqb w ow then
            match w with
            | Some (Ok s2) => run_steps s2 pool' r
            | _ => run_steps s1 pool' r
            end
          else None
      end
  | SDirect sn t ov ow :: r =>
      match direct_step s sn t with
      | (s1, ok, w) =>
          if Bool.eqb ok ov && write_eqb w ow then
            match w with
            | Some (Ok s2) => run_steps s2 pool r
            | _ => run_steps s1 pool r
            end
          else None
      end
  end.

Definition check (c : case) : bool :=
  match c with
  | CHist info supply steps totals =>
      match run_steps (genesis_state info supply) [] steps with
      | None => false
      | Some s => forallb (fun e => total_of s (fst e) =? snd e) totals
      end
  end.
