(* Correspondence cases for C06: inputs plus what the Go implementation
   returned; [check] recomputes with the model of Model/TxCodec.v. *)
From Coq Require Import List ZArith NArith Bool.
From Coq Require Export Uint63.
Require Import Mixin.Base.Res.
Require Export Mixin.Model.TxCodec.
Import ListNotations.
Open Scope N_scope.

(* Case terms carry their data as primitive 63-bit integers (elaborating a
   [list N] literal costs about a millisecond per byte): a byte string is its
   length and its bytes packed seven per word, big-endian; numbers, hashes,
   keys, signatures and amounts are [n w] or [V len words]. *)
Definition n (i : int) : N := Z.to_N (Uint63.to_Z i).
Fixpoint word_bytes (k : nat) (v : N) (acc : bytes) : bytes :=
  match k with
  | O => acc
  | S k' => word_bytes k' (N.shiftr v 8) (N.land v 255 :: acc)
  end.
Fixpoint unpack (len : nat) (ws : list int) : bytes :=
  match ws with
  | [] => []
  | w :: ws' => if Nat.leb len 7 then word_bytes len (n w) []
                else word_bytes 7 (n w) (unpack (len - 7) ws')
  end.
Definition B (len : int) (ws : list int) : bytes := unpack (N.to_nat (n len)) ws.
Definition V (len : int) (ws : list int) : N := be_dec (B len ws).

Inductive case :=
(* common.UnmarshalVersionedTransaction(b): Ok decoded fields / Err / Panic *)
| CUnmarshal (b : bytes) (obs : res tx)
(* a transaction value: Encoder.EncodeTransaction, VersionedTransaction.Marshal,
   VersionedTransaction.PayloadMarshal, each under recover; [None] = the same
   bytes as EncodeTransaction returned *)
| CEncode (t : tx) (raw : res bytes) (mar : res (option bytes)) (pay : res (option bytes)).

Definition opt_eqb {A} (e : A -> A -> bool) (a b : option A) : bool :=
  match a, b with
  | None, None => true
  | Some x, Some y => e x y
  | _, _ => false
  end.
Fixpoint list_eqb {A} (e : A -> A -> bool) (a b : list A) : bool :=
  match a, b with
  | [], [] => true
  | x :: a', y :: b' => e x y && list_eqb e a' b'
  | _, _ => false
  end.

Definition deposit_eqb (a b : deposit) : bool :=
  (d_chain a =? d_chain b) && bytes_eqb (d_asset_key a) (d_asset_key b)
  && bytes_eqb (d_tx a) (d_tx b) && (d_index a =? d_index b) && (d_amount a =? d_amount b).
Definition mint_eqb (a b : mint) : bool :=
  bytes_eqb (m_group a) (m_group b) && (m_batch a =? m_batch b) && (m_amount a =? m_amount b).
Definition input_eqb (a b : input) : bool :=
  (i_hash a =? i_hash b) && (i_index a =? i_index b) && bytes_eqb (i_genesis a) (i_genesis b)
  && opt_eqb deposit_eqb (i_deposit a) (i_deposit b) && opt_eqb mint_eqb (i_mint a) (i_mint b).
Definition withdrawal_eqb (a b : withdrawal) : bool :=
  bytes_eqb (w_address a) (w_address b) && bytes_eqb (w_tag a) (w_tag b).
Definition output_eqb (a b : output) : bool :=
  (o_type a =? o_type b) && (o_amount a =? o_amount b) && list_eqb N.eqb (o_keys a) (o_keys b)
  && (o_mask a =? o_mask b) && bytes_eqb (o_script a) (o_script b)
  && opt_eqb withdrawal_eqb (o_withdrawal a) (o_withdrawal b).
Definition entry_eqb (a b : N * N) : bool := (fst a =? fst b) && (snd a =? snd b).
Definition auth_eqb (a b : auth) : bool :=
  match a, b with
  | SigMaps x, SigMaps y => list_eqb (list_eqb entry_eqb) x y
  | Aggregate s x, Aggregate s' y => (s =? s') && list_eqb N.eqb x y
  | _, _ => false
  end.
Definition tx_eqb (a b : tx) : bool :=
  (t_version a =? t_version b) && (t_asset a =? t_asset b)
  && list_eqb input_eqb (t_inputs a) (t_inputs b)
  && list_eqb output_eqb (t_outputs a) (t_outputs b)
  && list_eqb N.eqb (t_refs a) (t_refs b)
  && bytes_eqb (t_extra a) (t_extra b)
  && auth_eqb (t_auth a) (t_auth b).

(* the harness reports a decoded signature map sorted by index; an accepted
   encoding has its entries in that order, so the comparison is exact *)
Definition check (c : case) : bool :=
  match c with
  | CUnmarshal b obs => res_eqb tx_eqb (unmarshal b) obs
  | CEncode t raw mar pay =>
      let same (o : option bytes) : res bytes :=
        match o with Some x => Ok x | None => raw end in
      res_eqb bytes_eqb (encode_transaction t) raw
      && res_eqb bytes_eqb (marshal t) (match mar with Ok o => same o | Err => Err | Panic => Panic end)
      && res_eqb bytes_eqb (payload_marshal t) (match pay with Ok o => same o | Err => Err | Panic => Panic end)
  end.
