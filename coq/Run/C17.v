(* Correspondence cases for C17: a history of real store calls (admission of
   validated transactions, snapshot finalization) with the observed outcomes,
   and per asset what the implementation reported at the end: the recorded
   total (ReadAssetWithBalance), the sum of the output records not consumed by
   a finalized transaction (UTXO scan) and genesis + deposits + mints -
   withdrawal submissions over the finalized transactions.  [check] replays the
   history on the model and compares all three, and the bounds. *)
From Coq Require Import List ZArith NArith Bool.
Require Import Mixin.Base.Res Mixin.Model.Fixed.
Require Export Mixin.Model.Finalize.
Import ListNotations.
Open Scope Z_scope.

Inductive hop := HOp (o : op) (obs : res unit).

Inductive obs_asset := OAsset (a : N) (total unconsumed flow : Z).

Inductive case := CSupply (ops : list hop) (obs : list obs_asset).

Fixpoint replay (s : state) (ops : list hop) : state * bool :=
  match ops with
  | [] => (s, true)
  | HOp o obs :: r =>
      let '(s1, out) := step s o in
      if res_class_eqb out obs then replay s1 r else (s1, false)
  end.

Definition asset_ok (s : state) (o : obs_asset) : bool :=
  match o with
  | OAsset a total unc flow =>
      (total_of s a =? total) && (unconsumed_sum s a =? unc) && (supply_flow s a =? flow)
      && (0 <=? total_of s a) && (total_of s a <=? capacity a)
  end.

Definition check (c : case) : bool :=
  match c with
  | CSupply ops obs =>
      let '(s, ok) := replay empty_state ops in
      ok && forallb (asset_ok s) obs
  end.
