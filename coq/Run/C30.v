(* Correspondence cases for C30.  Each case carries the inputs of
   node.AuthenticateAs, what the implementation returned, and the answers of
   the primitives the model is parameterised by, computed by the harness with
   the library on the inputs it states: a primitive queried by the model on any
   other input misses the table (value 0 / false), which shows as a mismatch. *)
From Coq Require Import List ZArith NArith Bool.
Require Import Mixin.Base.Res Mixin.Model.Auth.
Require Export Mixin.Model.HexLit.
Import ListNotations.
Open Scope Z_scope.

Inductive case :=
| CAuth (net rcp : N) (msg : list N) (timeout now : Z)
        (hlen : nat) (mh : N)          (* BLAKE3(msg[:hlen]) = mh *)
        (idk pid : N)                  (* peer id of spend key idk on network net = pid *)
        (vk vh vs : N) (ver : bool)    (* Key(vk).Verify(vh, vs) = ver *)
        (obs : res (N * Z * bool))     (* token: PeerId, Timestamp, IsRelayer *)
| CRound (x : Z) (obs : Z)             (* float64(x), an integer *)
| CSkew (now ts timeout : Z) (obs : bool).  (* math.Abs(float64(now)-float64(ts)) > float64(timeout) *)

Fixpoint bytes_eqb (a b : list N) : bool :=
  match a, b with
  | [], [] => true
  | x :: a', y :: b' => (x =? y)%N && bytes_eqb a' b'
  | _, _ => false
  end.

Definition obs_eqb (a b : N * Z * bool) : bool :=
  let '(p, t, f) := a in let '(p', t', f') := b in
  (p =? p')%N && (t =? t') && Bool.eqb f f'.

Definition check (c : case) : bool :=
  match c with
  | CAuth net rcp msg timeout now hlen mh idk pid vk vh vs ver obs =>
      let Hmsg := fun x => if bytes_eqb x (firstn hlen msg) then mh else 0%N in
      let peer := fun n k => if (n =? net)%N && (k =? idk)%N then pid else 0%N in
      let verify := fun k h s => if (k =? vk)%N && (h =? vh)%N && (s =? vs)%N then ver else false in
      res_eqb obs_eqb
        (rmap (fun t => (t_peer t, t_ts t, t_relayer t))
              (authenticate Hmsg peer verify net rcp msg timeout now))
        obs
  | CRound x obs => round53 x =? obs
  | CSkew now ts timeout obs => Bool.eqb (skew_exceeds now ts timeout) obs
  end.
