(* Correspondence cases for C05: the shared validation case (Run/ValCase.v). *)
From Coq Require Import List ZArith NArith Bool.
Require Export Mixin.Base.Res Mixin.Model.Validate Mixin.Run.ValCase.
