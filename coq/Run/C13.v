(* Correspondence cases for C13 (crypto/cosi.go).  A case carries the scenario
   in discrete-log form (the harness owns every private key), the finite tables
   instantiating the model's abstract point encoding and hash, and what the Go
   implementation returned.  [needs] lists the table entries the model looks up
   that are still missing: the harness answers them with library primitives
   only, so the transcript layout exists only in the repository and here. *)
From Coq Require Import List ZArith NArith Bool.
Require Import Mixin.Base.Res Mixin.Gen.Consts Mixin.Model.Group Mixin.Model.Aggregate Mixin.Model.Cosi.
Require Export Mixin.Model.Limbs.
Import ListNotations.
Open Scope Z_scope.

Definition L : Z := Consts.EdL.

Inductive op :=
| OChallenge (obs : res Z)
| OResponse (priv random : Z) (obs : res Z)
| OVerifyResp (signer : Z) (s : option Z) (obs : res unit)
| OAggResp (rs : list (Z * option Z)) (strict : bool) (obs : res Z)
| OFullVerify (keys' : option (list Z)) (r s : Z) (mask : N) (m : N) (threshold : Z) (obs : res unit).

Inductive case :=
(* CosiAggregateCommitment: observed (encoding of the aggregated commitment, mask) *)
| CCommit (et : list (Z * N)) (rs : list (Z * Z)) (obs : res (N * N))
(* operations on one CosiSignature value *)
| CFlow (et : list (Z * N)) (ht : list (list N * Z)) (keys : list Z) (m : N)
        (cr cs : Z) (mask : N) (commits : list (Z * Z)) (ops : list op).

Definition unit_eqb (a b : unit) := true.
Definition pairN_eqb (a b : N * N) := (fst a =? fst b)%N && (snd a =? snd b)%N.

Definition check_op et ht keys m (c : cosi) (o : op) : bool :=
  let enc := enc_of_table et in
  let H := hash_of_table ht in
  match o with
  | OChallenge obs => res_eqb Z.eqb (challenge L enc H keys m c) obs
  | OResponse priv random obs => res_eqb Z.eqb (response L enc H priv random keys m c) obs
  | OVerifyResp signer s obs => res_eqb unit_eqb (verify_response L enc H keys signer s m c) obs
  | OAggResp rs strict obs =>
      res_eqb Z.eqb (rmap c_s (aggregate_response L enc H keys rs m strict c)) obs
  | OFullVerify keys' r s mask m' threshold obs =>
      let ks := match keys' with Some k => k | None => keys end in
      res_eqb unit_eqb (full_verify L enc H ks threshold m' (mkCosi r s mask (c_commits c))) obs
  end.

Definition check (c : case) : bool :=
  match c with
  | CCommit et rs obs =>
      res_eqb pairN_eqb
        (rmap (fun c => (enc_of_table et (c_r c), c_mask c)) (aggregate_commitment L rs)) obs
  | CFlow et ht keys m cr cs mask commits ops =>
      forallb (check_op et ht keys m (mkCosi cr cs mask commits)) ops
  end.

(* ---- table requests -------------------------------------------------------- *)

Definition need := (Z * list Z)%type.

Definition miss_enc (et : list (Z * N)) (zs : list Z) : list need :=
  flat_map (fun z => match lookup_z et z with Some _ => [] | None => [(0, [z])] end) zs.

Definition miss_hash (ht : list (list N * Z)) (bs : list (list N)) : list need :=
  flat_map (fun b => match lookup_b ht b with Some _ => [] | None => [(1, pack b)] end) bs.

(* lookups of one Schnorr/CoSi challenge over (r, mask) *)
Definition cosi_needs et ht (keys : list Z) (m : N) (r : Z) (mask : N) : list need :=
  match aggregate_public_key L keys (mask_keys mask) with
  | Ok a =>
      match miss_enc et [r; a] with
      | [] => miss_hash ht [challenge_input (enc_of_table et) r a m]
      | e => e
      end
  | _ => []
  end.

Definition op_needs et ht keys m (c : cosi) (o : op) : list need :=
  match o with
  | OFullVerify keys' r s mask m' _ _ =>
      cosi_needs et ht (match keys' with Some k => k | None => keys end) m' r mask
  | _ => cosi_needs et ht keys m (c_r c) (c_mask c)
  end.

Fixpoint dedup_needs (ns : list need) (seen : list need) : list need :=
  match ns with
  | [] => []
  | n :: ns' =>
      if existsb (fun n' => (fst n =? fst n') && (Nat.eqb (length (snd n)) (length (snd n')))
                            && forallb (fun p => fst p =? snd p) (combine (snd n) (snd n'))) seen
      then dedup_needs ns' seen
      else n :: dedup_needs ns' (n :: seen)
  end.

Definition needs (c : case) : list need :=
  match c with
  | CCommit et rs _ =>
      match aggregate_commitment L rs with
      | Ok c => miss_enc et [c_r c]
      | _ => []
      end
  | CFlow et ht keys m cr cs mask commits ops =>
      let ns := dedup_needs (flat_map (op_needs et ht keys m (mkCosi cr cs mask commits)) ops) [] in
      (* hash requests are the last stage: (2,[]) tells the harness not to ask again *)
      match ns with
      | [] => []
      | _ => if existsb (fun n => fst n =? 0) ns then ns else ns ++ [(2, [])]
      end
  end.
