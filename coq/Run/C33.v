(* Correspondence cases for C33: each case carries the inputs and what the Go
   implementation returned; [check] recomputes with the model. *)
From Coq Require Import List ZArith NArith Bool.
Require Import Mixin.Base.Res Mixin.Model.Fixed.
Import ListNotations.
Open Scope Z_scope.

Inductive case :=
| CParse (s : list N) (obs : res Z)
| CPrint (x : Z) (obs : list N)
| CAdd (x y : Z) (obs : res Z)
| CSub (x y : Z) (obs : res Z)
| CMul (x y : Z) (obs : res Z)
| CDiv (x y : Z) (obs : res Z)
| CCount (x y : Z) (obs : res Z)
| CCmp (x y : Z) (obs : Z)
| CNew (x : Z) (obs : Z)
| CRation (x y : Z) (obs : res (Z * Z))
| CProduct (rx ry x : Z) (obs : res Z)
| CRCmp (ax ay bx b_y : Z) (obs : Z).

Definition pair_eqb (a b : Z * Z) := (fst a =? fst b) && (snd a =? snd b).
Fixpoint bytes_eqb (a b : list N) : bool :=
  match a, b with
  | [], [] => true
  | x :: a', y :: b' => (x =? y)%N && bytes_eqb a' b'
  | _, _ => false
  end.

Definition check (c : case) : bool :=
  match c with
  | CParse s obs => res_eqb Z.eqb (parse s) obs
  | CPrint x obs => bytes_eqb (print x) obs
  | CAdd x y obs => res_eqb Z.eqb (i_add x y) obs
  | CSub x y obs => res_eqb Z.eqb (i_sub x y) obs
  | CMul x y obs => res_eqb Z.eqb (i_mul x y) obs
  | CDiv x y obs => res_eqb Z.eqb (i_div x y) obs
  | CCount x y obs => res_eqb Z.eqb (i_count x y) obs
  | CCmp x y obs => i_cmp x y =? obs
  | CNew x obs => new_integer x =? obs
  | CRation x y obs => res_eqb pair_eqb (ration x y) obs
  | CProduct rx ry x obs => res_eqb Z.eqb (product (rx, ry) x) obs
  | CRCmp ax ay bx b_y obs => r_cmp (ax, ay) (bx, b_y) =? obs
  end.
