(* C01 - accepted transactions conserve value within one asset.
   Property theorems only; each is closed by [exact] of a lemma of
   Proofs/Validate.v about the executable model Model/Validate.v, which the
   correspondence harness (harness/cmd/c01) runs against the real
   VersionedTransaction.Validate.  The statements hold for EVERY view of the
   store (hence every reachable ledger), every timestamp, both fork values and
   every value of the signature / curve facts. *)
From Coq Require Import List ZArith NArith Bool.
Require Import Mixin.Base.Res Mixin.Gen.Consts Mixin.Model.Fixed Mixin.Model.Validate Mixin.Proofs.Validate.
Import ListNotations.
Open Scope Z_scope.

(* An accepted transaction: (i) the total of its inputs - the spent output
   records' amounts, or the amount of the mint / deposit input, which then is the
   only input - equals the total of its outputs; (ii) that total is positive;
   (iii) every output amount is positive; (iv) every ordinary input is an output
   record of the view whose asset is the transaction's asset; (v) no output
   record is spent twice. *)
Theorem C01_conservation : forall v f h ts fork t,
  validate v f h ts fork t = Ok tt ->
  sum_inputs v t = Some (sum_outputs t) /\
  0 < sum_outputs t /\
  Forall (fun o => 0 < o_amount o) (t_outputs t) /\
  Forall (fun i => special i = false -> input_backed v t i) (t_inputs t) /\
  (existsb special (t_inputs t) = false -> NoDup (map in_slot (t_inputs t))).
Proof. exact conservation. Qed.
Print Assumptions C01_conservation.

(* The early return of validateInputs at the first mint / deposit input skips the
   remaining inputs; validateMint / validateDeposit close the hole: *)
Theorem C01_special_single : forall v f h ts fork t,
  validate v f h ts fork t = Ok tt ->
  existsb special (t_inputs t) = true -> length (t_inputs t) = 1%nat.
Proof. exact special_single. Qed.
Print Assumptions C01_special_single.

(* the two ingredients, usable on their own *)
Theorem C01_inputs_sum : forall v f h t ty fork flt a,
  validate_inputs v f h t ty fork = Ok (flt, a) ->
  (existsb special (t_inputs t) = true /\ (forall i, t_inputs t = [i] -> a = special_amount i)) \/
  (existsb special (t_inputs t) = false /\ sum_utxos v (t_inputs t) = Some a /\
   Forall (input_backed v t) (t_inputs t) /\ NoDup (map in_slot (t_inputs t)) /\
   map fst flt = map in_slot (t_inputs t)).
Proof. exact validate_inputs_spec. Qed.
Print Assumptions C01_inputs_sum.

Theorem C01_outputs_sum : forall v f h t a fork,
  validate_outputs v f h t a fork = Ok tt ->
  a = sum_outputs t /\ Forall (fun o => 0 < o_amount o) (t_outputs t).
Proof. exact validate_outputs_spec. Qed.
Print Assumptions C01_outputs_sum.

(* ---- non-vacuity: concrete accepted transactions of several types ------------------ *)

Definition ex_script : bytes := [255; 254; 1]%N.
Definition ex_utxo (a : Z) : utxo :=
  {| u_type := ot_script; u_asset := xin; u_amount := a; u_nkeys := 1; u_script := ex_script; u_lock := 0%N |}.
Definition ex_view : view :=
  {| v_utxo := fun h i => if (h =? 1)%N && (i =? 0) then Some (ex_utxo 100)
                          else if (h =? 2)%N && (i =? 3) then Some (ex_utxo 23) else None;
     v_tx := fun _ => None; v_deposit_lock := fun _ => 0%N; v_last_mint := Some (7, 50, 99%N);
     v_nodes := fun _ => []; v_custodian := fun _ => Some {| c_addr := (5%N, 6%N); c_nodes := [] |};
     v_asset := fun _ => None; v_ghost_ok := fun _ _ _ => true |}.
Definition ex_facts : facts :=
  {| f_check_key := fun _ => true; f_agg_ok := true; f_deposit_sig := true; f_claim_sig := true;
     f_accept_sig := true; f_cancel_ghost := Ok true; f_cancel_sig := true; f_cust_prev_sig := true;
     f_cust_node_sigs := [] |}.
Definition ex_out (a : Z) (k : N) : output :=
  {| o_type := ot_script; o_amount := a; o_keys := [k]; o_mask := 9%N; o_script := ex_script; o_withdrawal := None |}.
Definition ex_in (h : N) (i : Z) : input :=
  {| i_hash := h; i_index := i; i_genesis := None; i_deposit := None; i_mint := None |}.

Definition ex_transfer : tx :=
  {| t_version := 5; t_asset := xin; t_inputs := [ex_in 1 0; ex_in 2 3]; t_outputs := [ex_out 120 11; ex_out 3 12];
     t_refs := []; t_extra := []; t_agg := None; t_sigs := Some [[(0, true)]; [(0, true)]] |}.
Example C01_ex_transfer : validate ex_view ex_facts 77%N 1 false ex_transfer = Ok tt
  /\ sum_inputs ex_view ex_transfer = Some 123 /\ sum_outputs ex_transfer = 123.
Proof. vm_compute. repeat split. Qed.

Definition ex_mint : tx :=
  {| t_version := 5; t_asset := xin;
     t_inputs := [{| i_hash := 0%N; i_index := 0; i_genesis := None; i_deposit := None;
                     i_mint := Some {| m_group := Consts.ValMintGroupUniversal; m_batch := 8; m_amount := 50 |} |}];
     t_outputs := [ex_out 20 11; ex_out 30 12]; t_refs := []; t_extra := []; t_agg := None; t_sigs := Some [[(0, false)]] |}.
Example C01_ex_mint : validate ex_view ex_facts 77%N 1 false ex_mint = Ok tt
  /\ sum_inputs ex_view ex_mint = Some 50 /\ sum_outputs ex_mint = 50.
Proof. vm_compute. repeat split. Qed.

Definition ex_deposit : tx :=
  {| t_version := 5; t_asset := 4242%N;
     t_inputs := [{| i_hash := 0%N; i_index := 0; i_genesis := None; i_mint := None;
                     i_deposit := Some {| d_chain := 3%N; d_key := [48]%N; d_key_trim := true; d_txlen := 4;
                                          d_tx_trim := true; d_index := 0; d_amount := 10 |} |}];
     t_outputs := [ex_out 10 11]; t_refs := []; t_extra := []; t_agg := None; t_sigs := Some [[(0, false)]] |}.
Example C01_ex_deposit : validate ex_view ex_facts 77%N 1 false ex_deposit = Ok tt
  /\ sum_inputs ex_view ex_deposit = Some 10.
Proof. vm_compute. repeat split. Qed.

Definition ex_submit : tx :=
  {| t_version := 5; t_asset := xin; t_inputs := [ex_in 1 0];
     t_outputs := [{| o_type := ot_wsubmit; o_amount := 60; o_keys := []; o_mask := 0%N; o_script := [];
                      o_withdrawal := Some (34, 0) |}; ex_out 40 12];
     t_refs := []; t_extra := []; t_agg := Some [0]; t_sigs := None |}.
Example C01_ex_withdrawal_aggregated : validate ex_view ex_facts 77%N 1 false ex_submit = Ok tt.
Proof. vm_compute. reflexivity. Qed.

(* the same transfer with an unbalanced output, a wrong-asset input or a surplus mint input is refused *)
Example C01_ex_refused :
  validate ex_view ex_facts 77%N 1 false
    {| t_version := 5; t_asset := xin; t_inputs := [ex_in 1 0]; t_outputs := [ex_out 101 11];
       t_refs := []; t_extra := []; t_agg := None; t_sigs := Some [[(0, true)]] |} = Err
  /\ validate ex_view ex_facts 77%N 1 false
    {| t_version := 5; t_asset := 4242%N; t_inputs := [ex_in 1 0]; t_outputs := [ex_out 100 11];
       t_refs := []; t_extra := []; t_agg := None; t_sigs := Some [[(0, true)]] |} = Err
  /\ validate ex_view ex_facts 77%N 1 false
    {| t_version := 5; t_asset := xin; t_inputs := t_inputs ex_mint ++ [ex_in 1 0]; t_outputs := [ex_out 50 11];
       t_refs := []; t_extra := []; t_agg := None; t_sigs := Some [[(0, false)]; [(0, true)]] |} = Err.
Proof. vm_compute. repeat split. Qed.
