(* C10 - any two threshold certificates share more than a third of the signer
   set; below the minimum membership no certificate can meet the threshold.
   Property theorems only, closed by lemmas of Proofs/Quorum.v about the
   executable model Model/Quorum.v (+ Model/Election.v for the membership view),
   which harness/cmd/c10 runs against the real ConsensusThreshold /
   ConsensusKeys / verifyFinalization.

   Vocabulary: [all] is the membership history as the node holds it (any list of
   records; [load recs] is what LoadConsensusNodes builds), [cfg] the epoch,
   network and genesis set, [ts] the snapshot timestamp, [pledging] the identity
   of the chain when it is a pledging chain (no state yet), [round] the snapshot
   round.  A certificate's signers are a duplicate-free list of ids taken from
   the key vector; [inter S1 S2] are the common signers.
   [ts_in_range all]: every record timestamp t satisfies 0 <= t and
   t + accept-period < 2^64 (true of every nanosecond timestamp before year 2554;
   outside it the uint64 additions of ConsensusReady wrap). *)
From Coq Require Import List ZArith NArith Bool Permutation.
Require Import Mixin.Base.Res Mixin.Gen.Consts Mixin.Model.Election Mixin.Model.Quorum Mixin.Proofs.Election Mixin.Proofs.Quorum.
Import ListNotations.
Open Scope Z_scope.

(* Effective base below the minimum: the threshold is the sentinel 1000, which
   no mask of at most 64 bits meets and no duplicate-free signer list drawn
   from the key vector reaches (whatever the chain and round). *)
Theorem C10_below_minimum : forall cfg all ts final,
  consensus_base cfg all ts final < Consts.QMinNodes ->
  consensus_threshold cfg all ts final = invalid_threshold /\
  (forall mask, (mask < 2 ^ 64)%N -> mask_meets mask (consensus_threshold cfg all ts final) = false) /\
  (final = true -> ts_in_range all -> forall pledging round s, NoDup s ->
     incl s (consensus_keys cfg all pledging round ts) ->
     Z.of_nat (length s) < consensus_threshold cfg all ts final).
Proof. exact below_minimum. Qed.
Print Assumptions C10_below_minimum.

(* The threshold is the code's formula over the effective base. *)
Theorem C10_threshold_formula : forall cfg all ts final,
  (consensus_base cfg all ts final < Consts.QMinNodes /\
   consensus_threshold cfg all ts final = invalid_threshold) \/
  (Consts.QMinNodes <= consensus_base cfg all ts final /\
   consensus_threshold cfg all ts final = consensus_base cfg all ts final * 2 / 3 + 1).
Proof. exact threshold_cases. Qed.
Print Assumptions C10_threshold_formula.

(* Outside round 0 of a pledging chain the key vector is never longer than the
   base the threshold is computed from ... *)
Theorem C10_keys_within_base : forall cfg all pledging round ts,
  ts_in_range all -> ~ round0_pledging pledging round ->
  Z.of_nat (length (consensus_keys cfg all pledging round ts)) <= consensus_base cfg all ts true.
Proof. exact keys_le_base. Qed.
Print Assumptions C10_keys_within_base.

(* ... hence for every history, timestamp, chain and round other than a
   pledging chain's round 0, two signer sets meeting the threshold share more
   than a third of the key vector (the statement over lists, not only sizes). *)
Theorem C10_intersection : forall cfg all pledging round ts,
  ts_in_range all -> ~ round0_pledging pledging round ->
  forall S1 S2, NoDup S1 -> NoDup S2 ->
    incl S1 (consensus_keys cfg all pledging round ts) ->
    incl S2 (consensus_keys cfg all pledging round ts) ->
    consensus_threshold cfg all ts true <= Z.of_nat (length S1) ->
    consensus_threshold cfg all ts true <= Z.of_nat (length S2) ->
    (length (consensus_keys cfg all pledging round ts) < 3 * length (inter S1 S2))%nat.
Proof. exact intersection_at. Qed.
Print Assumptions C10_intersection.

(* The same for every (key vector, threshold) pair verifyFinalization may check
   a certificate against, including the pre-fork legacy retry. *)
Theorem C10_intersection_verify : forall cfg all pledging round ts p,
  ts_in_range all -> ~ round0_pledging pledging round ->
  In p (verify_params cfg all pledging round ts) ->
  forall S1 S2, NoDup S1 -> NoDup S2 -> incl S1 (fst p) -> incl S2 (fst p) ->
    snd p <= Z.of_nat (length S1) -> snd p <= Z.of_nat (length S2) ->
    (length (fst p) < 3 * length (inter S1 S2))%nat.
Proof. exact intersection_verify_params. Qed.
Print Assumptions C10_intersection_verify.

(* [inter] is the set intersection. *)
Theorem C10_inter_is_intersection : forall x S1 S2, In x (inter S1 S2) <-> In x S1 /\ In x S2.
Proof. exact inter_spec. Qed.
Print Assumptions C10_inter_is_intersection.

(* Recorded finding F4: at round 0 of a pledging chain the key vector is the
   ready nodes plus the pledging node while the threshold is computed from the
   base without it.  Witness: 7 genesis nodes, one pledging node, its accept
   time: 8 keys, threshold 5, two certificates sharing 2 signers, 3*2 <= 8. *)
Theorem C10_round0_refuted :
  exists cfg recs ci ts S1 S2,
    let all := load recs in
    let ks := consensus_keys cfg all (Some ci) 0 ts in
    let t := consensus_threshold cfg all ts true in
    ts_in_range all /\ pledging_node all ts = Some ci /\
    consensus_base cfg all ts true = 7 /\ length ks = 8%nat /\ t = 5 /\
    NoDup S1 /\ NoDup S2 /\ incl S1 ks /\ incl S2 ks /\
    t <= Z.of_nat (length S1) /\ t <= Z.of_nat (length S2) /\
    (3 * length (inter S1 S2) <= length ks)%nat.
Proof.
  exists f4_cfg, f4_recs, f4_pledger, f4_ts, f4_s1, f4_s2. exact round0_refuted.
Qed.
Print Assumptions C10_round0_refuted.

(* Outside the finding: at round 0 of a pledging chain the bound still holds
   whenever 2*base is a multiple of 3, or the key vector is not longer than
   the base (some counted node is not yet ready). *)
Theorem C10_round0_outside : forall cfg all ci ts,
  ts_in_range all ->
  Consts.QMinNodes <= consensus_base cfg all ts true ->
  (2 * consensus_base cfg all ts true) mod 3 = 0 \/
  Z.of_nat (length (consensus_keys cfg all (Some ci) 0 ts)) <= consensus_base cfg all ts true ->
  forall S1 S2, NoDup S1 -> NoDup S2 ->
    incl S1 (consensus_keys cfg all (Some ci) 0 ts) ->
    incl S2 (consensus_keys cfg all (Some ci) 0 ts) ->
    consensus_threshold cfg all ts true <= Z.of_nat (length S1) ->
    consensus_threshold cfg all ts true <= Z.of_nat (length S2) ->
    (length (consensus_keys cfg all (Some ci) 0 ts) < 3 * length (inter S1 S2))%nat.
Proof. exact round0_outside. Qed.
Print Assumptions C10_round0_outside.

(* At round 0 the key vector exceeds the base by at most the pledging node. *)
Theorem C10_round0_one_extra_key : forall cfg all pledging round ts,
  ts_in_range all ->
  Z.of_nat (length (consensus_keys cfg all pledging round ts)) <= consensus_base cfg all ts true + 1.
Proof. exact keys_le_base_plus_one. Qed.
Print Assumptions C10_round0_one_extra_key.

(* The constants the argument uses (and under which the "should never be here"
   panics of ConsensusThreshold are unreachable), from the regenerated Consts. *)
Theorem C10_constants :
  0 <= reference_window /\ reference_window <= Consts.QAcceptPeriodMinimum /\
  reference_window <= 3 * Consts.QMinute /\ Consts.QHour <= Consts.QAcceptPeriodMinimum /\
  0 <= Consts.QMinNodes <= 64 /\ 64 < invalid_threshold.
Proof. exact consts_sane. Qed.
Print Assumptions C10_constants.

(* The threshold and the key vector do not depend on the order in which the
   node received the records.  storage.ReadAllNodes returns equal-timestamp
   records in the iteration order of a Go map; LoadConsensusNodes re-sorts by
   (timestamp, id).  The store keys a record by (timestamp, signer) and the id is
   derived from the signer, so the (timestamp, id) pairs are pairwise distinct
   ([distinct_keys]); that is the only hypothesis. *)
Theorem C10_views_order_independent : forall cfg recs recs' pledging round ts final,
  Permutation recs recs' -> distinct_keys recs ->
  consensus_threshold cfg (load recs) ts final = consensus_threshold cfg (load recs') ts final /\
  consensus_keys cfg (load recs) pledging round ts = consensus_keys cfg (load recs') pledging round ts /\
  removing_at cfg (load recs) ts = removing_at cfg (load recs') ts /\
  verify_params cfg (load recs) pledging round ts = verify_params cfg (load recs') pledging round ts.
Proof.
  intros cfg recs recs' pledging round ts final Hp Hd. rewrite (load_perm recs recs' Hp Hd). repeat split.
Qed.
Print Assumptions C10_views_order_independent.

(* ---- non-vacuity ---------------------------------------------------------- *)

(* 9 genesis nodes, an established chain: hypotheses of C10_intersection hold,
   9 keys, threshold 7, two concrete certificates share 5 > 9/3 signers. *)
Definition ex_recs : list nrec := map (fun i => mkrec i f4_epoch Accepted i) [1; 2; 3; 4; 5; 6; 7; 8; 9]%N.
Definition ex_cfg : netcfg := mkcfg f4_epoch true [1; 2; 3; 4; 5; 6; 7; 8; 9]%N.
Example C10_ex_intersection :
  let all := load ex_recs in
  let ts := f4_epoch + 5 * Consts.QOneDay in
  forallb (fun r => (0 <=? r_ts r) && (r_ts r + Consts.QAcceptPeriodMinimum <? two64)) all = true /\
  consensus_keys ex_cfg all None 1 ts = [1; 2; 3; 4; 5; 6; 7; 8; 9]%N /\
  consensus_threshold ex_cfg all ts true = 7 /\
  inter [1; 2; 3; 4; 5; 6; 7]%N [3; 4; 5; 6; 7; 8; 9]%N = [3; 4; 5; 6; 7]%N.
Proof. vm_compute. repeat split. Qed.

(* inside the operation window of day 5 the oldest node is excluded on both
   sides: 8 keys, base 8, threshold 6 *)
Example C10_ex_window :
  let all := load ex_recs in
  let ts := f4_epoch + 5 * Consts.QOneDay + 14 * Consts.QHour in
  option_map r_id (removing_at ex_cfg all ts) = Some 1%N /\
  consensus_keys (mkcfg f4_epoch false (c_genesis ex_cfg)) all None 1 ts = [2; 3; 4; 5; 6; 7; 8; 9]%N /\
  consensus_base (mkcfg f4_epoch false (c_genesis ex_cfg)) all ts true = 8 /\
  consensus_threshold (mkcfg f4_epoch false (c_genesis ex_cfg)) all ts true = 6.
Proof. vm_compute. repeat split. Qed.

(* below the minimum: 6 nodes, threshold 1000, the full mask does not meet it *)
Example C10_ex_below :
  let all := load (firstn 6 ex_recs) in
  consensus_base ex_cfg all (f4_epoch + Consts.QOneDay) true = 6 /\
  consensus_threshold ex_cfg all (f4_epoch + Consts.QOneDay) true = 1000 /\
  mask_meets (2 ^ 64 - 1)%N 1000 = false /\ mask_meets (2 ^ 64 - 1)%N 64 = true.
Proof. vm_compute. repeat split. Qed.

(* round 0 outside the finding: base 9 (2*9 mod 3 = 0), 10 keys, threshold 7 *)
Example C10_ex_round0_outside :
  let all := load (ex_recs ++ [mkrec 10 (f4_epoch + 100 * Consts.QOneDay) Pledging 10]) in
  let ts := f4_epoch + 100 * Consts.QOneDay + 13 * Consts.QHour in
  consensus_base ex_cfg all ts true = 9 /\ (2 * 9) mod 3 = 0 /\
  length (consensus_keys ex_cfg all (Some (mkrec 10 (f4_epoch + 100 * Consts.QOneDay) Pledging 10)) 0 ts) = 10%nat /\
  consensus_threshold ex_cfg all ts true = 7.
Proof. vm_compute. repeat split. Qed.

(* order independence on a concrete history: distinct keys, reversed order *)
Example C10_ex_order :
  distinct_keys f4_recs /\ Permutation f4_recs (rev f4_recs) /\
  consensus_keys f4_cfg (load (rev f4_recs)) (Some f4_pledger) 0 f4_ts = [1; 2; 3; 4; 5; 6; 7; 8]%N /\
  consensus_threshold f4_cfg (load (rev f4_recs)) f4_ts true = 5.
Proof.
  split; [apply distinct_keys_dec; vm_compute; reflexivity|].
  split; [apply Permutation_rev|]. vm_compute. split; reflexivity.
Qed.
