(* C02 - spending requires threshold signatures over the payload hash.
   Property theorems only.  Model/Threshold.v is the executable model of the
   authorization step of common/validation.go (validateInputs after the store
   lookups, validateUTXO, Script.Validate, validateAggregatedSigners, the control
   flow of BatchVerify / AggregateVerify); Model/SchnorrAlg.v is the Schnorr
   equation and the batch equation in Z_l.  Both are run against the real code
   by harness/cmd/c02 on every check.

   Reading guide.  A key is (pointer identity, value): keySigs in the Go code is
   a map keyed by key POINTER.  [ver k s] is Key.Verify(payload hash, s) for the
   key value k; [bat] is the random-linear-combination batch verifier; [aggv] the
   weighted-key aggregate check.  The hypothesis on key pointers
   ([NoDup (map kptr (all_keys us))]) is what the store provides: every UTXO read
   decodes fresh key objects.  Key VALUES may repeat across inputs.  The
   hypothesis on [sigs] is the Go map invariant (one entry per index). *)
From Coq Require Import List ZArith NArith Bool Lia Znumtheory.
Require Import Mixin.Base.Res Mixin.Gen.Consts.
Require Import Mixin.Model.Threshold Mixin.Model.SchnorrAlg.
Require Import Mixin.Proofs.Threshold Mixin.Proofs.SchnorrAlg.
Import ListNotations.
Open Scope Z_scope.

(* ---- per-input signature maps ------------------------------------------------ *)

(* Accepted with signature maps: every script-type input i has a map whose
   indexes address its OWN key list, are pairwise distinct and at least
   threshold many; and when the threshold is positive each (keys_i[j], sig_j)
   verifies over the payload hash.  [bat_ok] is the soundness of the batch
   equation, whose exact algebraic content is C02_batch_agrees_sound. *)
Theorem C02_threshold_map :
  forall (S : Type) (ver : N -> S -> bool) (bat : list (N * S) -> bool) (aggv : S -> list (Z * N) -> bool)
         (us : list utxo) (sigs : list (sigmap S)) (txType : Z) (hash : N) (fork : bool),
    (forall E, bat E = true -> forall k s, In (k, s) E -> ver k s = true) ->
    NoDup (map kptr (all_keys us)) ->
    Forall (fun m => NoDup (map fst m)) sigs ->
    validate_inputs ver bat aggv us sigs None txType hash fork = Ok tt ->
    forall i u, nth_error us i = Some u -> is_script_type (utype u) = true ->
    exists m t,
      nth_error sigs i = Some m /\ script_threshold (uscript u) = Some t /\
      0 <= t <= Consts.ThrOperator64 /\
      (forall j os, In (j, os) m -> Z.of_N j < len (ukeys u)) /\
      NoDup (map fst m) /\
      t <= len m /\
      (0 < t -> forall j os, In (j, os) m ->
         exists k s, nth_error (ukeys u) (N.to_nat j) = Some k /\ os = Some s /\ ver (kval k) s = true).
Proof.
  intros S ver bat aggv us sigs txType hash fork Hb Hnd Hwf H i u Hu Hs.
  destruct (threshold_map S ver bat aggv us sigs txType hash fork Hnd Hwf H i u Hu Hs)
    as [m [t [H1 [H2 [H3 [H4 [H5 [H6 H7]]]]]]]].
  exists m, t. repeat split; try assumption; try lia.
  intros Hpos. exact (H7 Hpos Hb).
Qed.
Print Assumptions C02_threshold_map.

(* Without any assumption on the batch verifier: what BatchVerify is called on
   contains every map entry of every script input, paired with the input's own
   key at that index, and that call returned true. *)
Theorem C02_threshold_map_batch_call :
  forall (S : Type) (ver : N -> S -> bool) (bat : list (N * S) -> bool) (aggv : S -> list (Z * N) -> bool)
         (us : list utxo) (sigs : list (sigmap S)) (txType : Z) (hash : N) (fork : bool),
    NoDup (map kptr (all_keys us)) ->
    Forall (fun m => NoDup (map fst m)) sigs ->
    validate_inputs ver bat aggv us sigs None txType hash fork = Ok tt ->
    exists ents : keysigs S,
      (forall i u m j os, nth_error us i = Some u -> is_script_type (utype u) = true ->
         nth_error sigs i = Some m -> In (j, os) m ->
         exists k, nth_error (ukeys u) (N.to_nat j) = Some k /\ In (kval k, os) (ks_entries ents)) /\
      (ents <> [] -> (length us <= length ents)%nat /\ Threshold.batch_verify ver bat (ks_entries ents) = true).
Proof. exact threshold_map_batch_call. Qed.
Print Assumptions C02_threshold_map_batch_call.

(* What the pointer-keyed map implies: if two UTXOs handed to validateInputs
   share a key POINTER, the later input's signature overwrites the earlier one
   and the earlier input is accepted although its own (key, signature) pair does
   not verify.  The statement of C02_threshold_map without the pointer
   hypothesis is therefore false of the faithful model.  (No store of the
   repository produces shared pointers: storage/badger_utxo.go decodes every
   UTXO afresh; the harness replays this witness on the real validateInputs with
   an in-memory store that shares the pointer deliberately.) *)
Theorem C02_threshold_map_shared_pointer_refuted :
  exists (ver : N -> N -> bool) (us : list utxo) (sigs : list (sigmap N)),
    Forall (fun m => NoDup (map fst m)) sigs /\
    validate_inputs ver (forallb (fun e => ver (fst e) (snd e))) (fun _ _ => false) us sigs None 0 7 false = Ok tt /\
    exists u k s,
      nth_error us 0 = Some u /\ is_script_type (utype u) = true /\
      script_threshold (uscript u) = Some 1 /\
      nth_error sigs 0 = Some [(0%N, Some s)] /\
      nth_error (ukeys u) 0 = Some k /\ ver (kval k) s = false.
Proof.
  exists (fun k s => ((k =? 1) && (s =? 2)) || ((k =? 2) && (s =? 3)))%N.
  exists [mkUtxo 0 [mkKey 100 1] [255; 254; 1]%N 0;
          mkUtxo 0 [mkKey 100 1; mkKey 101 2] [255; 254; 2]%N 0].
  exists [[(0, Some 1)]; [(0, Some 2); (1, Some 3)]]%N.
  split.
  - repeat constructor; cbn; intuition discriminate.
  - split; [vm_compute; reflexivity|].
    exists (mkUtxo 0 [mkKey 100 1] [255; 254; 1]%N 0), (mkKey 100 1), 1%N.
    vm_compute. repeat split.
Qed.
Print Assumptions C02_threshold_map_shared_pointer_refuted.

(* ---- aggregate signatures ------------------------------------------------------ *)

(* Accepted with an aggregate signature: the signer list is non-negative and
   strictly increasing; for every script-type input i the number of signers
   falling in its own window [off_i, off_i + len_i) of the concatenated key list
   reaches its threshold; when that threshold is positive every signer is below
   the total number of keys and the aggregate predicate holds for exactly the
   signer list, each signer paired with the key value at that position of the
   concatenated key list.  No pointer hypothesis is needed here. *)
Theorem C02_threshold_aggregate :
  forall (S : Type) (ver : N -> S -> bool) (bat : list (N * S) -> bool) (aggv : S -> list (Z * N) -> bool)
         (us : list utxo) (sigs : list (sigmap S)) (sg : S) (signers : list Z) (txType : Z) (hash : N) (fork : bool),
    validate_inputs ver bat aggv us sigs (Some (sg, signers)) txType hash fork = Ok tt ->
    forall i u, nth_error us i = Some u -> is_script_type (utype u) = true ->
    exists t,
      script_threshold (uscript u) = Some t /\ 0 <= t <= Consts.ThrOperator64 /\
      increasing_from (-1) signers /\
      t <= count_in_window signers (offset_of us i) (offset_of us i + len (ukeys u)) /\
      (0 < t ->
         Forall (fun s => 0 <= s < len (all_keys us)) signers /\
         exists sel, aggv sg sel = true /\ map fst sel = signers /\
                     Forall (fun e => nth_error (map kval (all_keys us)) (Z.to_nat (fst e)) = Some (snd e)) sel).
Proof. exact threshold_aggregate. Qed.
Print Assumptions C02_threshold_aggregate.

(* The windows of consecutive inputs do not overlap: a signer is counted for
   exactly one input. *)
Theorem C02_windows_partition : forall signers lo mid hi, lo <= mid <= hi ->
  count_in_window signers lo hi = count_in_window signers lo mid + count_in_window signers mid hi.
Proof. exact count_split. Qed.
Print Assumptions C02_windows_partition.

(* ---- tampering, at the level of the decision ------------------------------------- *)

(* If (after a change of the payload, hence of the payload hash, or of signature
   bytes) no supplied signature of some script input with a positive threshold
   verifies for the input's own key, the transaction is not accepted. *)
Theorem C02_tampered_map_rejected :
  forall (S : Type) (ver : N -> S -> bool) (bat : list (N * S) -> bool) (aggv : S -> list (Z * N) -> bool)
         (us : list utxo) (sigs : list (sigmap S)) (txType : Z) (hash : N) (fork : bool) i u m t,
    (forall E, bat E = true -> forall k s, In (k, s) E -> ver k s = true) ->
    NoDup (map kptr (all_keys us)) ->
    Forall (fun m => NoDup (map fst m)) sigs ->
    nth_error us i = Some u -> is_script_type (utype u) = true ->
    script_threshold (uscript u) = Some t -> 0 < t ->
    nth_error sigs i = Some m ->
    (exists j os, In (j, os) m /\
       forall k s, nth_error (ukeys u) (N.to_nat j) = Some k -> os = Some s -> ver (kval k) s = false) ->
    validate_inputs ver bat aggv us sigs None txType hash fork <> Ok tt.
Proof.
  intros S ver bat aggv us sigs txType hash fork i u m t Hb Hnd Hwf Hu Hs Ht Hpos Hm [j [os [Hj Hbad]]] H.
  destruct (threshold_map S ver bat aggv us sigs txType hash fork Hnd Hwf H i u Hu Hs)
    as [m' [t' [H1 [H2 [_ [_ [_ [_ H7]]]]]]]].
  rewrite Hm in H1. inversion H1; subst m'. rewrite Ht in H2. inversion H2; subst t'.
  destruct (H7 Hpos Hb j os Hj) as [k [s [Hk [Hos Hv]]]].
  rewrite (Hbad k s Hk Hos) in Hv. discriminate.
Qed.
Print Assumptions C02_tampered_map_rejected.

Theorem C02_tampered_aggregate_rejected :
  forall (S : Type) (ver : N -> S -> bool) (bat : list (N * S) -> bool) (aggv : S -> list (Z * N) -> bool)
         (us : list utxo) (sigs : list (sigmap S)) (sg : S) (signers : list Z) (txType : Z) (hash : N) (fork : bool) i u t,
    nth_error us i = Some u -> is_script_type (utype u) = true ->
    script_threshold (uscript u) = Some t -> 0 < t ->
    (forall sel, map fst sel = signers -> aggv sg sel = false) ->
    validate_inputs ver bat aggv us sigs (Some (sg, signers)) txType hash fork <> Ok tt.
Proof.
  intros S ver bat aggv us sigs sg signers txType hash fork i u t Hu Hs Ht Hpos Hbad H.
  destruct (threshold_aggregate S ver bat aggv us sigs sg signers txType hash fork H i u Hu Hs)
    as [t' [H1 [_ [_ [_ H5]]]]].
  rewrite Ht in H1. inversion H1; subst t'.
  destruct (H5 Hpos) as [_ [sel [Hv [Hm _]]]]. rewrite (Hbad sel Hm) in Hv. discriminate.
Qed.
Print Assumptions C02_tampered_aggregate_rejected.

(* ---- batch verification agrees with individual verification ------------------------ *)

(* all individual equations hold => the batch equation holds for EVERY
   coefficient vector *)
Theorem C02_batch_agrees_complete : forall l es zs, 0 < l -> es <> [] ->
  Forall (fun e => entry_ok l e = true) es -> SchnorrAlg.batch_verify l zs es = true.
Proof. exact batch_verify_complete. Qed.
Print Assumptions C02_batch_agrees_complete.

(* some equation fails => for every choice of the other coefficients at most
   one value (mod l) of that entry's coefficient passes: the exact algebraic
   content of "agrees except with probability 2^-128" *)
Theorem C02_batch_agrees_sound : forall l pre e post zpre zpost z z',
  prime l -> l <> 2 ->
  length zpre = length pre ->
  entry_ok l e = false ->
  SchnorrAlg.batch_verify l (zpre ++ z :: zpost) (pre ++ e :: post) = true ->
  SchnorrAlg.batch_verify l (zpre ++ z' :: zpost) (pre ++ e :: post) = true ->
  z mod l = z' mod l.
Proof. exact batch_verify_sound. Qed.
Print Assumptions C02_batch_agrees_sound.

(* one bad entry among valid ones: the batch of two or more fails for every
   coefficient that is not 0 mod l *)
Theorem C02_batch_one_bad : forall l pre e post zpre zpost z,
  prime l -> l <> 2 -> length zpre = length pre ->
  Forall (fun x => entry_ok l x = true) pre -> Forall (fun x => entry_ok l x = true) post ->
  entry_ok l e = false -> z mod l <> 0 ->
  batch_check l (zpre ++ z :: zpost) (pre ++ e :: post) = false.
Proof. exact batch_check_one_bad. Qed.
Print Assumptions C02_batch_one_bad.

(* ---- a signature is bound to (R, A, m) and to its bytes ------------------------------ *)

(* With R, A, m fixed exactly one s in [0, l) verifies (any change of the 32
   response bytes is refused, a non-canonical s included). *)
Theorem C02_sig_byte_binding_response : forall l (H : Z -> Z -> Z -> Z) a m r, 0 < l ->
  verify l H a m r ((r + H r a m * a) mod l) = true /\
  forall s, verify l H a m r s = true -> s = (r + H r a m * a) mod l.
Proof. intros l H a m r Hl. exact (verify_ch_unique_s l (H r a m) a r Hl). Qed.
Print Assumptions C02_sig_byte_binding_response.

(* Changing R, A or m changes the input (r, a, m) of the challenge hash.  For
   any transcript (r', a', m') and response s' there is at most one challenge
   value k (mod l) satisfying the equation, so acceptance of the changed
   transcript requires the hash to hit that one scalar. *)
Theorem C02_sig_byte_binding_challenge : forall l (H : Z -> Z -> Z -> Z) a' m' r' s' k,
  prime l -> a' mod l <> 0 ->
  verify_ch l k a' r' s' = true ->
  (verify l H a' m' r' s' = true <-> H r' a' m' mod l = k mod l).
Proof.
  intros l H a' m' r' s' k Hp Ha Hk. unfold verify.
  pose proof (accepting_challenge_determined l a' r' s' k Hp Ha Hk (H r' a' m')) as E.
  assert (Hl : 0 < l) by (pose proof (prime_ge_2 _ Hp); lia).
  apply verify_ch_spec in Hk; [|assumption]. tauto.
Qed.
Print Assumptions C02_sig_byte_binding_challenge.

Theorem C02_unique_accepting_challenge : forall l a r s k k',
  prime l -> a mod l <> 0 ->
  verify_ch l k a r s = true -> verify_ch l k' a r s = true -> k mod l = k' mod l.
Proof. exact unique_accepting_challenge. Qed.
Print Assumptions C02_unique_accepting_challenge.

(* ---- the lock state of the spent outputs ----------------------------------------------------------- *)

(* validateInputs uses the lock state in one way only: an input locked for ANOTHER
   payload hash refuses the transaction unless fork.  Being locked already - for this
   very payload hash, by an earlier validation of the same payload - buys nothing: the
   decision is the one for the same outputs with every lock cleared, so all theorems
   above (stated for arbitrary lock states) apply to a re-validated payload whose
   signatures differ. *)
Theorem C02_lock_gate :
  forall (S : Type) (ver : N -> S -> bool) (bat : list (N * S) -> bool) (aggv : S -> list (Z * N) -> bool)
         (us : list utxo) (sigs : list (sigmap S)) ag (txType : Z) (hash : N) (fork : bool),
    validate_inputs ver bat aggv us sigs ag txType hash fork = Ok tt ->
    Forall (fun u => ulock u = 0%N \/ ulock u = hash \/ fork = true) us.
Proof.
  intros S ver bat aggv us sigs ag txType hash fork H.
  eapply Forall_impl; [|exact (accepted_not_blocked S ver bat aggv us sigs ag txType hash fork H)].
  intros u Hb. unfold lock_blocks in Hb.
  destruct (N.eqb_spec (ulock u) 0) as [E0|E0]; [left; exact E0|].
  destruct (N.eqb_spec (ulock u) hash) as [E1|E1]; [right; left; exact E1|].
  destruct fork; [right; right; reflexivity | discriminate].
Qed.
Print Assumptions C02_lock_gate.

Theorem C02_lock_state_irrelevant :
  forall (S : Type) (ver : N -> S -> bool) (bat : list (N * S) -> bool) (aggv : S -> list (Z * N) -> bool)
         (us : list utxo) (sigs : list (sigmap S)) ag (txType : Z) (hash : N) (fork : bool),
    Forall (fun u => lock_blocks u hash fork = false) us ->
    validate_inputs ver bat aggv us sigs ag txType hash fork =
    validate_inputs ver bat aggv (map unlocked us) sigs ag txType hash fork.
Proof. exact lock_state_irrelevant. Qed.
Print Assumptions C02_lock_state_irrelevant.

(* ---- Script.Validate is the threshold comparison --------------------------------------- *)

Theorem C02_script_validate : forall s sum,
  (script_validate s sum = true ->
     exists t, script_threshold s = Some t /\ 0 <= t <= Consts.ThrOperator64 /\ t <= sum /\
               s = [Z.to_N Consts.ThrOperatorCmp; Z.to_N Consts.ThrOperatorSum; Z.to_N t]) /\
  (forall t, script_threshold s = Some t -> t <= sum -> script_validate s sum = true).
Proof. intros s sum. split; [apply script_validate_spec | intros t; apply script_validate_complete]. Qed.
Print Assumptions C02_script_validate.

(* ---- non-vacuity --------------------------------------------------------------------------- *)

Definition ex_ver (k s : N) : bool := (s =? k + 10)%N.            (* signature k+10 is the valid one for key k *)
Definition ex_bat := forallb (fun e : N * N => ex_ver (fst e) (snd e)).
Definition ex_aggv (sg : N) (sel : list (Z * N)) : bool := (sg =? 77)%N.

(* two script inputs (thresholds 2 and 1), the key VALUE 1 appears in both at
   distinct pointers; accepted; the hypotheses of C02_threshold_map hold *)
Definition ex_us : list utxo :=
  [mkUtxo 0 [mkKey 1 1; mkKey 2 2; mkKey 3 3] [255; 254; 2]%N 0;
   mkUtxo 0 [mkKey 4 1; mkKey 5 4] [255; 254; 1]%N 0].
Definition ex_sigs : list (sigmap N) := [[(2, Some 13); (0, Some 11)]; [(0, Some 11)]]%N.

Example C02_ex_map_accepts :
  validate_inputs ex_ver ex_bat ex_aggv ex_us ex_sigs None 0 7 false = Ok tt /\
  NoDup (map kptr (all_keys ex_us)) /\ Forall (fun m => NoDup (map fst m)) ex_sigs /\
  (forall E, ex_bat E = true -> forall k s, In (k, s) E -> ex_ver k s = true).
Proof.
  split; [vm_compute; reflexivity|]. split; [|split].
  - vm_compute. repeat constructor; cbn; intuition discriminate.
  - repeat constructor; cbn; intuition discriminate.
  - intros E HE k s Hin. unfold ex_bat in HE. rewrite forallb_forall in HE. exact (HE (k, s) Hin).
Qed.

(* one signature short, a forged signature, an index equal to the key count, the
   shared key signed for one input only: refused *)
Example C02_ex_map_rejects :
  validate_inputs ex_ver ex_bat ex_aggv ex_us [[(0, Some 11)]; [(0, Some 11)]]%N None 0 7 false = Err /\
  validate_inputs ex_ver ex_bat ex_aggv ex_us [[(2, Some 13); (0, Some 12)]; [(0, Some 11)]]%N None 0 7 false = Err /\
  validate_inputs ex_ver ex_bat ex_aggv ex_us [[(3, Some 13); (0, Some 11)]; [(0, Some 11)]]%N None 0 7 false = Err /\
  validate_inputs ex_ver ex_bat ex_aggv ex_us [[(2, Some 13); (0, Some 11)]; []]%N None 0 7 false = Err.
Proof. vm_compute. repeat split. Qed.

(* aggregate: signers 0,2 for input 0 (window [0,3)) and 4 for input 1 (window [3,5)) *)
Example C02_ex_aggregate :
  validate_inputs ex_ver ex_bat ex_aggv ex_us [] (Some (77%N, [0; 2; 4])) 0 7 false = Ok tt /\
  validate_inputs ex_ver ex_bat ex_aggv ex_us [] (Some (77%N, [0; 3; 4])) 0 7 false = Err /\   (* 3 belongs to input 1 *)
  validate_inputs ex_ver ex_bat ex_aggv ex_us [] (Some (77%N, [0; 2; 5])) 0 7 false = Err /\   (* 5 is out of range *)
  validate_inputs ex_ver ex_bat ex_aggv ex_us [] (Some (77%N, [2; 0; 4])) 0 7 false = Err /\   (* unsorted *)
  validate_inputs ex_ver ex_bat ex_aggv ex_us [] (Some (78%N, [0; 2; 4])) 0 7 false = Err /\   (* invalid aggregate *)
  count_in_window [0; 2; 4] (offset_of ex_us 1) (offset_of ex_us 1 + 2) = 1.
Proof. vm_compute. repeat split. Qed.

(* every input already locked for this payload hash (7): a forged signature is still refused, the
   genuine ones still accepted; an input locked for another hash refuses unless fork *)
Definition ex_locked (h : N) : list utxo := map (fun u => mkUtxo (utype u) (ukeys u) (uscript u) h) ex_us.
Example C02_ex_locked :
  validate_inputs ex_ver ex_bat ex_aggv (ex_locked 7) ex_sigs None 0 7 false = Ok tt /\
  validate_inputs ex_ver ex_bat ex_aggv (ex_locked 7) [[(2, Some 13); (0, Some 12)]; [(0, Some 11)]]%N None 0 7 false = Err /\
  validate_inputs ex_ver ex_bat ex_aggv (ex_locked 7) [[(0, Some 11)]]%N None 0 7 false = Err /\
  validate_inputs ex_ver ex_bat ex_aggv (ex_locked 7) [] (Some (78%N, [0; 2; 4])) 0 7 false = Err /\
  validate_inputs ex_ver ex_bat ex_aggv (ex_locked 9) ex_sigs None 0 7 false = Err /\
  validate_inputs ex_ver ex_bat ex_aggv (ex_locked 9) ex_sigs None 0 7 true = Ok tt /\
  validate_inputs ex_ver ex_bat ex_aggv (ex_locked 9) [[(2, Some 13); (0, Some 12)]; [(0, Some 11)]]%N None 0 7 true = Err.
Proof. vm_compute. repeat split. Qed.

(* the Schnorr algebra in Z_13 with a concrete challenge function *)
Definition ex_H (r a m : Z) : Z := (r + 2 * a + 3 * m) mod 13.

Lemma prime_13 : prime 13.
Proof.
  apply prime_intro; [lia|]. intros n Hn. apply Zgcd_1_rel_prime.
  assert (n = 1 \/ n = 2 \/ n = 3 \/ n = 4 \/ n = 5 \/ n = 6 \/ n = 7 \/ n = 8 \/ n = 9 \/ n = 10 \/ n = 11 \/ n = 12) as Hc by lia.
  repeat (destruct Hc as [Hc|Hc]; [subst; reflexivity|]). subst; reflexivity.
Qed.

Example C02_ex_schnorr :
  prime 13 /\ 13 <> 2 /\
  (* key a=5, nonce r=7, message 4: k = (7+10+12) mod 13 = 3, s = 7 + 3*5 = 22 mod 13 = 9 *)
  verify 13 ex_H 5 4 7 9 = true /\ verify 13 ex_H 5 4 7 10 = false /\ verify 13 ex_H 5 4 7 22 = false /\
  verify 13 ex_H 5 6 7 9 = false /\
  (* a batch of two valid entries passes for all coefficients; with the second entry
     broken it passes only for the coefficient 0 (mod 13) of that entry *)
  SchnorrAlg.batch_verify 13 [3; 8] [(5, 7, 9, 3); (2, 1, 9, 4)] = true /\
  entry_ok 13 (2, 1, 10, 4) = false /\
  SchnorrAlg.batch_verify 13 [3; 8] [(5, 7, 9, 3); (2, 1, 10, 4)] = false /\
  SchnorrAlg.batch_verify 13 [3; 13] [(5, 7, 9, 3); (2, 1, 10, 4)] = true.
Proof. split; [exact prime_13|]. vm_compute. repeat split; discriminate. Qed.
