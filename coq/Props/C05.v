(* C05 - validating any decodable transaction never crashes the node.
   Property theorems only; each is closed by [exact] of a lemma of
   Proofs/Validate.v about the executable model Model/Validate.v, in which every
   panic site of VersionedTransaction.Validate's call graph inside package common
   is the explicit outcome [Panic] (Integer.Add/Sub/Mul/Div/Count,
   NewIntegerFromString, index and slice expressions, nil results of store reads
   that are dereferenced, NodeTransactionExtraAsSigner, the encoder's panics and
   the Debug re-decode inside PayloadMarshal, panic(prev.Custodian) in the
   custodian validator, ViewGhostOutputKey on an attacker-chosen scalar).
   The correspondence harness (harness/cmd/c05) runs the model against the real
   Validate, including on views that violate the invariants below, where both
   panic at the same sites. *)
From Coq Require Import List ZArith NArith Bool Lia.
Require Import Mixin.Base.Res Mixin.Gen.Consts Mixin.Model.Fixed Mixin.Model.Validate Mixin.Proofs.Validate.
Import ListNotations.
Open Scope Z_scope.

(* [decodable t]: what DecodeTransaction + the canonical re-encoding test guarantee
   about the value they return (Proofs/Validate.v).
   [ledger_inv v ts]: the invariants of a reachable store, each established by the
   storage code:
   - inv_utxo_tx, inv_utxo_pos: output records are written only by
     storage.finalizeTransaction -> writeUTXO from ver.UnspentOutputs() of a
     transaction already stored by WriteTransaction (kernel finalizes only validated
     transactions, whose outputs are > 0; genesis outputs are > 0);
   - inv_stored: ReadTransaction returns UnmarshalVersionedTransaction of the stored
     bytes; validated and genesis transactions have >= 1 output;
   - inv_node_state, inv_node_pledge: node entries are written only by
     writeNodePledge / writeNodeAccept / writeNodeCancel / writeNodeRemove
     (storage/badger_node.go) with one of the four state strings; a PLEDGING entry is
     written by writeUTXO for a NodePledge typed output of the transaction whose hash
     it records, and validated transactions carry such an output only when they are
     node-pledge typed;
   - inv_custodian: the genesis loader writes the first custodian record at the
     epoch and every call site passes a snapshot / current time after it (F2b: before
     that time ReadCustodian returns nil and validateDeposit / validateWithdrawalClaim
     dereference it); ParseCustodianUpdateNodesExtra refuses duplicate custodian keys
     when the record is read;
   - inv_balance: writeTotalInAsset only stores non-negative totals. *)
Theorem C05_no_panic : forall v f h ts fork t,
  decodable t = true -> ledger_inv v ts -> validate v f h ts fork t <> Panic.
Proof. exact no_panic. Qed.
Print Assumptions C05_no_panic.

(* the three stages, each panic-free on its own hypotheses *)
Theorem C05_precheck_no_panic : forall t ty, decodable t = true -> precheck t ty <> Panic.
Proof. exact precheck_no_panic. Qed.
Print Assumptions C05_precheck_no_panic.

Theorem C05_inputs_no_panic : forall v f h t ty fork,
  (forall hh i u, v_utxo v hh i = Some u -> 0 < u_amount u) ->
  validate_inputs v f h t ty fork <> Panic.
Proof. exact validate_inputs_no_panic. Qed.
Print Assumptions C05_inputs_no_panic.

Theorem C05_outputs_no_panic : forall v f h t a fork, validate_outputs v f h t a fork <> Panic.
Proof. exact validate_outputs_no_panic. Qed.
Print Assumptions C05_outputs_no_panic.

(* validateNodeCancel (which calls KeyMultPubPriv on an attacker-chosen scalar) is entered only
   with a script-typed input record, and over a consistent ledger it then stops at the type test
   of the pledge output: a node-cancel typed transaction is never accepted and never panics. *)
Theorem C05_node_cancel_never_accepted : forall v f h ts fork t,
  ledger_inv v ts -> tx_type t = ty_cancel -> validate v f h ts fork t <> Ok tt.
Proof. exact node_cancel_never_accepted. Qed.
Print Assumptions C05_node_cancel_never_accepted.

(* The design note "a NodeCancel transaction can never pass validateInputs" is false of the
   code: one signed ordinary script input passes validateInputs; it is the later validator
   that refuses (theorem above). *)
Theorem C05_cancel_passes_validate_inputs_refuted :
  exists v f h t fork r, tx_type t = ty_cancel /\ validate_inputs v f h t (tx_type t) fork = Ok r.
Proof. exact cancel_inputs_not_refused. Qed.
Print Assumptions C05_cancel_passes_validate_inputs_refuted.

(* Without the ledger invariants the statement is false of the model (and of the code: the
   harness shows the same panics on the real Validate): a zero-amount output record makes
   Integer.Add panic in validateInputs. *)
Theorem C05_needs_positive_records_refuted :
  exists v f h ts fork t, decodable t = true /\ validate v f h ts fork t = Panic.
Proof.
  exists {| v_utxo := fun h i => Some {| u_type := ot_script; u_asset := xin; u_amount := 0; u_nkeys := 1;
                                          u_script := [255; 254; 1]%N; u_lock := 0%N |};
            v_tx := fun _ => None; v_deposit_lock := fun _ => 0%N; v_last_mint := None;
            v_nodes := fun _ => []; v_custodian := fun _ => None; v_asset := fun _ => None;
            v_ghost_ok := fun _ _ _ => true |},
    {| f_check_key := fun _ => true; f_agg_ok := false; f_deposit_sig := false; f_claim_sig := false;
       f_accept_sig := false; f_cancel_ghost := Panic; f_cancel_sig := false; f_cust_prev_sig := false;
       f_cust_node_sigs := [] |}, 5%N, 1, false,
    {| t_version := 5; t_asset := xin;
       t_inputs := [{| i_hash := 1%N; i_index := 0; i_genesis := None; i_deposit := None; i_mint := None |}];
       t_outputs := [{| o_type := ot_script; o_amount := 99; o_keys := [7%N]; o_mask := 9%N;
                        o_script := [255; 254; 1]%N; o_withdrawal := None |}];
       t_refs := []; t_extra := []; t_agg := None; t_sigs := Some [[(0, true)]] |}.
  split; vm_compute; reflexivity.
Qed.
Print Assumptions C05_needs_positive_records_refuted.

(* ---- non-vacuity: a consistent view and decodable transactions that reach every stage ---- *)

Definition ex_script : bytes := [255; 254; 1]%N.
Definition ex_out (a : Z) (k : N) : output :=
  {| o_type := ot_script; o_amount := a; o_keys := [k]; o_mask := 9%N; o_script := ex_script; o_withdrawal := None |}.
Definition ex_in (h : N) (i : Z) : input :=
  {| i_hash := h; i_index := i; i_genesis := None; i_deposit := None; i_mint := None |}.
Definition ex_src : tx :=
  {| t_version := 5; t_asset := xin; t_inputs := [ex_in 8 0]; t_outputs := [ex_out 100 21];
     t_refs := []; t_extra := []; t_agg := None; t_sigs := None |}.
Definition ex_view : view :=
  {| v_utxo := fun h i => if (h =? 1)%N && (i =? 0)
                          then Some {| u_type := ot_script; u_asset := xin; u_amount := 100; u_nkeys := 1;
                                       u_script := ex_script; u_lock := 0%N |}
                          else None;
     v_tx := fun h => if (h =? 1)%N then Some {| s_tx := ex_src; s_hash := 1%N; s_final := true |} else None;
     v_deposit_lock := fun _ => 0%N; v_last_mint := None;
     v_nodes := fun _ => [{| n_signer := 31%N; n_payee := 32%N; n_state := st_accepted; n_tx := 77%N |}];
     v_custodian := fun _ => Some {| c_addr := (5%N, 6%N); c_nodes := [((1%N, 2%N), (3%N, 4%N))] |};
     v_asset := fun a => if (a =? xin)%N then Some (3%N, [48]%N, 500) else None;
     v_ghost_ok := fun _ _ _ => true |}.
Definition ex_facts : facts :=
  {| f_check_key := fun _ => true; f_agg_ok := true; f_deposit_sig := true; f_claim_sig := true;
     f_accept_sig := true; f_cancel_ghost := Ok true; f_cancel_sig := true; f_cust_prev_sig := true;
     f_cust_node_sigs := [] |}.

Example C05_ex_view_consistent : ledger_inv ex_view 1.
Proof.
  constructor.
  - intros h i u H. cbn in H. destruct ((h =? 1)%N && (i =? 0)) eqn:E; [|discriminate H].
    apply andb_prop in E. destruct E as [E1 E2]. apply N.eqb_eq in E1. apply Z.eqb_eq in E2. subst.
    inversion H; subst. eexists. exists (ex_out 100 21). repeat split.
  - intros h i u H. cbn in H. destruct ((h =? 1)%N && (i =? 0)); [|discriminate H]. inversion H. cbn. lia.
  - intros h s H. cbn in H. destruct (h =? 1)%N; [|discriminate H]. inversion H. split; [vm_compute; reflexivity|discriminate].
  - intros n [<-|[]]. right. left. reflexivity.
  - intros n [<-|[]] H. vm_compute in H. discriminate H.
  - eexists. split; [reflexivity|]. cbn. constructor; [intros []|constructor].
  - intros a chain key bal H. cbn in H. destruct (a =? xin)%N; [|discriminate H]. inversion H. lia.
Qed.

Definition ex_transfer : tx :=
  {| t_version := 5; t_asset := xin; t_inputs := [ex_in 1 0]; t_outputs := [ex_out 60 11; ex_out 40 12];
     t_refs := []; t_extra := []; t_agg := None; t_sigs := Some [[(0, true)]] |}.
Example C05_ex_accepts : decodable ex_transfer = true /\ validate ex_view ex_facts 77%N 1 false ex_transfer = Ok tt.
Proof. split; vm_compute; reflexivity. Qed.

(* the F1 and F2 shapes are decodable and now refused without a panic *)
Definition ex_f1 : tx :=
  {| t_version := 5; t_asset := xin; t_inputs := [ex_in 1 0];
     t_outputs := [{| o_type := ot_remove; o_amount := 100; o_keys := [11%N]; o_mask := 9%N; o_script := ex_script; o_withdrawal := None |}];
     t_refs := []; t_extra := []; t_agg := None; t_sigs := None |}.
Definition ex_f2 : tx :=
  {| t_version := 5; t_asset := xin; t_inputs := [ex_in 1 0];
     t_outputs := [{| o_type := ot_script; o_amount := 2 ^ 100; o_keys := [11%N]; o_mask := 9%N;
                      o_script := Consts.ValStorageScript; o_withdrawal := None |}];
     t_refs := []; t_extra := []; t_agg := None; t_sigs := Some [[(0, true)]] |}.
Example C05_ex_f1_f2 :
  decodable ex_f1 = true /\ validate ex_view ex_facts 77%N 1 false ex_f1 = Err /\
  decodable ex_f2 = true /\ validate ex_view ex_facts 77%N 1 false ex_f2 = Err /\
  get_extra_limit ex_f2 = Ok Consts.ValExtraSizeStorageCapacity.
Proof. repeat split; vm_compute; reflexivity. Qed.
