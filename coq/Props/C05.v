(* C05 - validating any decodable transaction never crashes the node.
   Property theorems only; each is closed by [exact] of a lemma of
   Proofs/Validate.v about the executable model Model/Validate.v, in which every
   panic site of VersionedTransaction.Validate's call graph inside package common
   is the explicit outcome [Panic] (Integer.Add/Sub/Mul/Div/Count,
   NewIntegerFromString, index and slice expressions, nil results of store reads
   that are dereferenced, NodeTransactionExtraAsSigner, the encoder's panics and
   the Debug re-decode inside PayloadMarshal, panic(prev.Custodian) in the
   custodian validator, ViewGhostOutputKey on an attacker-chosen scalar).
   The correspondence harness (harness/cmd/c05) runs the model against the real
   Validate, including on views that violate the invariants below, where both
   panic at the same sites. *)
From Coq Require Import List ZArith NArith Bool Lia.
Require Import Mixin.Base.Res Mixin.Gen.Consts Mixin.Model.Fixed Mixin.Model.Validate Mixin.Proofs.Validate.
Require Mixin.Model.TxCodec.
Require Import Mixin.Model.CodecValidateLink Mixin.Proofs.CodecValidateLink.
Import ListNotations.
Open Scope Z_scope.

(* [decodable t]: what DecodeTransaction + the canonical re-encoding test guarantee
   about the value they return (Proofs/Validate.v).
   [ledger_inv v ts]: the invariants of a reachable store, each established by the
   storage code:
   - inv_utxo_tx, inv_utxo_pos: output records are written only by
     storage.finalizeTransaction -> writeUTXO from ver.UnspentOutputs() of a
     transaction already stored by WriteTransaction (kernel finalizes only validated
     transactions, whose outputs are > 0; genesis outputs are > 0);
   - inv_stored: ReadTransaction returns UnmarshalVersionedTransaction of the stored
     bytes; validated and genesis transactions have >= 1 output;
   - inv_node_state, inv_node_pledge: node entries are written only by
     writeNodePledge / writeNodeAccept / writeNodeCancel / writeNodeRemove
     (storage/badger_node.go) with one of the four state strings; a PLEDGING entry is
     written by writeUTXO for a NodePledge typed output of the transaction whose hash
     it records, and validated transactions carry such an output only when they are
     node-pledge typed;
   - inv_custodian: the genesis loader writes the first custodian record at the
     epoch and every call site passes a snapshot / current time after it (F2b: before
     that time ReadCustodian returns nil and validateDeposit / validateWithdrawalClaim
     dereference it); ParseCustodianUpdateNodesExtra refuses duplicate custodian keys
     when the record is read;
   - inv_balance: writeTotalInAsset only stores non-negative totals. *)
Theorem C05_no_panic : forall v f h ts fork t,
  decodable t = true -> ledger_inv v ts -> validate v f h ts fork t <> Panic.
Proof. exact no_panic. Qed.
Print Assumptions C05_no_panic.

(* the three stages, each panic-free on its own hypotheses *)
Theorem C05_precheck_no_panic : forall t ty, decodable t = true -> precheck t ty <> Panic.
Proof. exact precheck_no_panic. Qed.
Print Assumptions C05_precheck_no_panic.

Theorem C05_inputs_no_panic : forall v f h t ty fork,
  (forall hh i u, v_utxo v hh i = Some u -> 0 < u_amount u) ->
  validate_inputs v f h t ty fork <> Panic.
Proof. exact validate_inputs_no_panic. Qed.
Print Assumptions C05_inputs_no_panic.

Theorem C05_outputs_no_panic : forall v f h t a fork, validate_outputs v f h t a fork <> Panic.
Proof. exact validate_outputs_no_panic. Qed.
Print Assumptions C05_outputs_no_panic.

(* validateNodeCancel (which calls KeyMultPubPriv on an attacker-chosen scalar) is entered only
   with a script-typed input record, and over a consistent ledger it then stops at the type test
   of the pledge output: a node-cancel typed transaction is never accepted and never panics. *)
Theorem C05_node_cancel_never_accepted : forall v f h ts fork t,
  ledger_inv v ts -> tx_type t = ty_cancel -> validate v f h ts fork t <> Ok tt.
Proof. exact node_cancel_never_accepted. Qed.
Print Assumptions C05_node_cancel_never_accepted.

(* The design note "a NodeCancel transaction can never pass validateInputs" is false of the
   code: one signed ordinary script input passes validateInputs; it is the later validator
   that refuses (theorem above). *)
Theorem C05_cancel_passes_validate_inputs_refuted :
  exists v f h t fork r, tx_type t = ty_cancel /\ validate_inputs v f h t (tx_type t) fork = Ok r.
Proof. exact cancel_inputs_not_refused. Qed.
Print Assumptions C05_cancel_passes_validate_inputs_refuted.

(* Without the ledger invariants the statement is false of the model (and of the code: the
   harness shows the same panics on the real Validate): a zero-amount output record makes
   Integer.Add panic in validateInputs. *)
Theorem C05_needs_positive_records_refuted :
  exists v f h ts fork t, decodable t = true /\ validate v f h ts fork t = Panic.
Proof.
  exists {| v_utxo := fun h i => Some {| u_type := ot_script; u_asset := xin; u_amount := 0; u_nkeys := 1;
                                          u_script := [255; 254; 1]%N; u_lock := 0%N |};
            v_tx := fun _ => None; v_deposit_lock := fun _ => 0%N; v_last_mint := None;
            v_nodes := fun _ => []; v_custodian := fun _ => None; v_asset := fun _ => None;
            v_ghost_ok := fun _ _ _ => true |},
    {| f_check_key := fun _ => true; f_agg_ok := false; f_deposit_sig := false; f_claim_sig := false;
       f_accept_sig := false; f_cancel_ghost := Panic; f_cancel_sig := false; f_cust_prev_sig := false;
       f_cust_node_sigs := [] |}, 5%N, 1, false,
    {| t_version := 5; t_asset := xin;
       t_inputs := [{| i_hash := 1%N; i_index := 0; i_genesis := None; i_deposit := None; i_mint := None |}];
       t_outputs := [{| o_type := ot_script; o_amount := 99; o_keys := [7%N]; o_mask := 9%N;
                        o_script := [255; 254; 1]%N; o_withdrawal := None |}];
       t_refs := []; t_extra := []; t_agg := None; t_sigs := Some [[(0, true)]] |}.
  split; vm_compute; reflexivity.
Qed.
Print Assumptions C05_needs_positive_records_refuted.

(* ---- non-vacuity: a consistent view and decodable transactions that reach every stage ---- *)

Definition ex_script : bytes := [255; 254; 1]%N.
Definition ex_out (a : Z) (k : N) : output :=
  {| o_type := ot_script; o_amount := a; o_keys := [k]; o_mask := 9%N; o_script := ex_script; o_withdrawal := None |}.
Definition ex_in (h : N) (i : Z) : input :=
  {| i_hash := h; i_index := i; i_genesis := None; i_deposit := None; i_mint := None |}.
Definition ex_src : tx :=
  {| t_version := 5; t_asset := xin; t_inputs := [ex_in 8 0]; t_outputs := [ex_out 100 21];
     t_refs := []; t_extra := []; t_agg := None; t_sigs := None |}.
Definition ex_view : view :=
  {| v_utxo := fun h i => if (h =? 1)%N && (i =? 0)
                          then Some {| u_type := ot_script; u_asset := xin; u_amount := 100; u_nkeys := 1;
                                       u_script := ex_script; u_lock := 0%N |}
                          else None;
     v_tx := fun h => if (h =? 1)%N then Some {| s_tx := ex_src; s_hash := 1%N; s_final := true |} else None;
     v_deposit_lock := fun _ => 0%N; v_last_mint := None;
     v_nodes := fun _ => [{| n_signer := 31%N; n_payee := 32%N; n_state := st_accepted; n_tx := 77%N |}];
     v_custodian := fun _ => Some {| c_addr := (5%N, 6%N); c_nodes := [((1%N, 2%N), (3%N, 4%N))] |};
     v_asset := fun a => if (a =? xin)%N then Some (3%N, [48]%N, 500) else None;
     v_ghost_ok := fun _ _ _ => true |}.
Definition ex_facts : facts :=
  {| f_check_key := fun _ => true; f_agg_ok := true; f_deposit_sig := true; f_claim_sig := true;
     f_accept_sig := true; f_cancel_ghost := Ok true; f_cancel_sig := true; f_cust_prev_sig := true;
     f_cust_node_sigs := [] |}.

Example C05_ex_view_consistent : ledger_inv ex_view 1.
Proof.
  constructor.
  - intros h i u H. cbn in H. destruct ((h =? 1)%N && (i =? 0)) eqn:E; [|discriminate H].
    apply andb_prop in E. destruct E as [E1 E2]. apply N.eqb_eq in E1. apply Z.eqb_eq in E2. subst.
    inversion H; subst. eexists. exists (ex_out 100 21). repeat split.
  - intros h i u H. cbn in H. destruct ((h =? 1)%N && (i =? 0)); [|discriminate H]. inversion H. cbn. lia.
  - intros h s H. cbn in H. destruct (h =? 1)%N; [|discriminate H]. inversion H. split; [vm_compute; reflexivity|discriminate].
  - intros n [<-|[]]. right. left. reflexivity.
  - intros n [<-|[]] H. vm_compute in H. discriminate H.
  - eexists. split; [reflexivity|]. cbn. constructor; [intros []|constructor].
  - intros a chain key bal H. cbn in H. destruct (a =? xin)%N; [|discriminate H]. inversion H. lia.
Qed.

Definition ex_transfer : tx :=
  {| t_version := 5; t_asset := xin; t_inputs := [ex_in 1 0]; t_outputs := [ex_out 60 11; ex_out 40 12];
     t_refs := []; t_extra := []; t_agg := None; t_sigs := Some [[(0, true)]] |}.
Example C05_ex_accepts : decodable ex_transfer = true /\ validate ex_view ex_facts 77%N 1 false ex_transfer = Ok tt.
Proof. split; vm_compute; reflexivity. Qed.

(* the F1 and F2 shapes are decodable and now refused without a panic *)
Definition ex_f1 : tx :=
  {| t_version := 5; t_asset := xin; t_inputs := [ex_in 1 0];
     t_outputs := [{| o_type := ot_remove; o_amount := 100; o_keys := [11%N]; o_mask := 9%N; o_script := ex_script; o_withdrawal := None |}];
     t_refs := []; t_extra := []; t_agg := None; t_sigs := None |}.
Definition ex_f2 : tx :=
  {| t_version := 5; t_asset := xin; t_inputs := [ex_in 1 0];
     t_outputs := [{| o_type := ot_script; o_amount := 2 ^ 100; o_keys := [11%N]; o_mask := 9%N;
                      o_script := Consts.ValStorageScript; o_withdrawal := None |}];
     t_refs := []; t_extra := []; t_agg := None; t_sigs := Some [[(0, true)]] |}.
Example C05_ex_f1_f2 :
  decodable ex_f1 = true /\ validate ex_view ex_facts 77%N 1 false ex_f1 = Err /\
  decodable ex_f2 = true /\ validate ex_view ex_facts 77%N 1 false ex_f2 = Err /\
  get_extra_limit ex_f2 = Ok Consts.ValExtraSizeStorageCapacity.
Proof. repeat split; vm_compute; reflexivity. Qed.

(* ---- C05 over byte strings ------------------------------------------------------------------
   The byte-level decoder is modelled and proved canonical in Model/TxCodec.v (property C06).
   [proj] (Model/CodecValidateLink.v) maps a decoded transaction to the record validated here;
   [trim] stands for the strings.TrimSpace tests and [sigv] for the signature verification
   results, both arbitrary.  Every field of [decodable] follows from [unmarshal b = Ok t], so
   the panic-freedom theorem quantifies over exactly "every byte string that decodes". *)
Theorem C05_decoder_yields_decodable : forall trim sigv b t,
  TxCodec.unmarshal b = Ok t -> decodable (proj trim sigv t) = true.
Proof. exact unmarshal_decodable. Qed.
Print Assumptions C05_decoder_yields_decodable.

Theorem C05_no_panic_bytes : forall trim sigv b t v f h ts fork,
  TxCodec.unmarshal b = Ok t -> ledger_inv v ts ->
  validate v f h ts fork (proj trim sigv t) <> Panic.
Proof. exact no_panic_bytes. Qed.
Print Assumptions C05_no_panic_bytes.

(* non-vacuity: the 375 bytes the real encoder produced for a signed mint transaction (harness
   corpus case "mint") decode in the codec model, project to a mint-typed decodable transaction,
   and validate over the consistent example view *)
Definition ex_bytes : list N := [119;119;0;5;169;156;46;14;43;29;164;214;72;117;94;241;155;217;81;57;172;187;230;86;76;251;6;222;199;205;52;147;28;167;44;220;0;1;0;0;0;0;0;0;0;0;0;0;0;0;0;0;0;0;0;0;0;0;0;0;0;0;0;0;0;0;0;0;0;0;0;0;0;0;0;0;119;119;0;9;85;78;73;86;69;82;83;65;76;0;0;0;0;0;0;5;243;0;4;226;127;102;0;0;2;0;0;0;4;126;137;208;173;0;1;32;20;1;10;158;165;229;72;220;217;27;207;222;121;60;161;65;28;69;233;63;192;235;175;19;55;92;14;136;3;167;60;86;39;188;18;255;103;49;115;23;176;37;150;24;190;232;100;213;149;98;30;165;5;155;96;10;217;33;235;211;75;201;146;0;3;255;254;1;0;0;0;0;0;4;99;245;149;83;0;2;136;227;217;106;56;22;25;103;55;36;139;35;31;151;168;160;207;5;166;100;178;200;174;242;174;25;86;75;58;243;45;82;144;30;22;73;90;199;166;14;180;2;209;247;119;159;17;50;236;181;10;164;135;100;117;82;8;157;175;14;61;130;53;255;10;189;35;131;71;237;60;13;173;168;171;154;15;51;171;118;124;194;69;181;172;22;11;32;98;91;107;136;198;104;176;151;0;3;255;254;2;0;0;0;0;0;0;0;0;0;1;0;1;0;0;135;85;214;186;51;230;99;164;132;16;123;170;1;194;157;195;80;226;155;123;33;41;49;88;43;70;193;5;228;80;146;237;214;86;186;109;102;67;204;35;133;92;182;178;185;168;58;112;205;162;160;133;240;204;130;76;23;73;170;138;85;111;212;6]%N.
Example C05_ex_bytes :
  exists t, TxCodec.unmarshal ex_bytes = Ok t /\
            tx_type (proj (fun _ => true) (fun _ _ _ => true) t) = ty_mint /\
            decodable (proj (fun _ => true) (fun _ _ _ => true) t) = true /\
            validate ex_view ex_facts 77%N 1 false (proj (fun _ => true) (fun _ _ _ => true) t) = Ok tt.
Proof. eexists. split; [vm_compute; reflexivity|]. repeat split; vm_compute; reflexivity. Qed.
