(* C13 - collective signatures verify exactly when built from valid shares.
   Property theorems only, over the executable model Model/Cosi.v of
   crypto/cosi.go (discrete-log representation of the group, arbitrary order l,
   abstract point encoding enc and hash-to-scalar H).  The correspondence
   harness (harness/cmd/c13) runs the model against the real code. *)
From Coq Require Import List ZArith NArith Bool Znumtheory Permutation.
Require Import Mixin.Base.Res Mixin.Gen.Consts Mixin.Model.Group Mixin.Model.Aggregate Mixin.Model.Cosi.
Require Import Mixin.Proofs.Group Mixin.Proofs.Aggregate Mixin.Proofs.Cosi.
Import ListNotations.
Open Scope Z_scope.

(* Valid shares (s_i.B = R_i + c.K_i) from exactly the masked signers, given as
   a Go map in any iteration order: strict and non-strict aggregation succeed
   and the result passes FullVerify for every threshold 1..popcount.  The two
   point_ok hypotheses exclude an aggregated key / commitment equal to the
   identity, which the repository's decodePoint refuses. *)
Theorem C13_complete : forall l enc H keys rs m strict t c A, 0 < l ->
  cosi_public_key l keys c = Ok A ->
  NoDup (map fst rs) -> (forall i, In i (mask_keys (c_mask c)) <-> In i (map fst rs)) ->
  (forall i so, In (i, so) rs ->
     exists s, so = Some s /\ share_valid l keys c (H (challenge_input enc (c_r c) A m)) i s) ->
  cg l (c_r c) (zsum (map (commit_of c) (mask_keys (c_mask c)))) ->
  point_ok l A = true -> point_ok l (c_r c) = true ->
  0 < t <= Z.of_nat (length (mask_keys (c_mask c))) ->
  exists c', aggregate_response l enc H keys rs m strict c = Ok c' /\
             full_verify l enc H keys t m c' = Ok tt.
Proof. exact complete. Qed.
Print Assumptions C13_complete.

(* CosiAggregateCommitment yields the hypothesis on R: it is the sum of the
   commitments, all decodable, all indices inside the mask width. *)
Theorem C13_commitment_sum : forall l rs c, aggregate_commitment l rs = Ok c ->
  c_commits c = rs /\ c_s c = 0 /\ cg l (c_r c) (zsum (map snd rs)) /\
  Forall (fun ir => point_ok l (snd ir) = true /\ 0 <= fst ir < Consts.CosiMaskBits) rs.
Proof. exact commitment_sum. Qed.
Print Assumptions C13_commitment_sum.

(* A single response passes VerifyResponse iff its signer is masked and
   s.B = R_i + c.K_i with all three operands canonical; never a panic. *)
Theorem C13_verify_response_iff : forall l enc H keys signer s m c x,
  challenge l enc H keys m c = Ok x ->
  (verify_response l enc H keys signer (Some s) m c = Ok tt <->
   In signer (mask_keys (c_mask c)) /\ share_valid l keys c x signer s) /\
  verify_response l enc H keys signer (Some s) m c <> Panic.
Proof. exact verify_response_iff. Qed.
Print Assumptions C13_verify_response_iff.

(* Strict aggregation succeeds only if every response of the map is a valid
   share of its signer: one that does not match is rejected. *)
Theorem C13_strict_rejects : forall l enc H keys rs m c c' x,
  challenge l enc H keys m c = Ok x ->
  aggregate_response l enc H keys rs m true c = Ok c' ->
  forall i so, In (i, so) rs -> exists s, so = Some s /\ share_valid l keys c x i s.
Proof. exact strict_rejects. Qed.
Print Assumptions C13_strict_rejects.

(* A mask index outside the key vector fails every operation. *)
Theorem C13_mask_index : forall l enc H keys c i,
  In i (mask_keys (c_mask c)) -> Z.of_nat (length keys) <= i ->
  (forall m, challenge l enc H keys m c = Err) /\
  (forall t m, full_verify l enc H keys t m c = Err) /\
  (forall signer s m, verify_response l enc H keys signer s m c = Err) /\
  (forall rs m strict, aggregate_response l enc H keys rs m strict c = Err) /\
  (forall priv random m, response l enc H priv random keys m c = Err).
Proof. exact mask_index_rejects. Qed.
Print Assumptions C13_mask_index.

(* The mask cannot name a signer twice, and only indices 0..63. *)
Theorem C13_mask_no_repeat : forall m,
  NoDup (mask_keys m) /\ forall i, In i (mask_keys m) -> 0 <= i < Z.of_nat mask_bits.
Proof. intros m. split; [apply mask_keys_nodup | apply mask_keys_range]. Qed.
Print Assumptions C13_mask_no_repeat.

(* A missing (or nil) response of a masked signer, or a response count that
   differs from the mask size (an extra response), fails aggregation. *)
Theorem C13_missing_or_extra : forall l enc H keys rs m strict c,
  (exists i, In i (mask_keys (c_mask c)) /\ resp_get rs i = None) \/
  length rs <> length (mask_keys (c_mask c)) ->
  aggregate_response l enc H keys rs m strict c = Err.
Proof. exact missing_or_extra_rejects. Qed.
Print Assumptions C13_missing_or_extra.

(* A threshold that is not positive or exceeds the number of masked signers fails. *)
Theorem C13_threshold : forall l enc H keys t m c,
  t <= 0 \/ Z.of_nat (length (mask_keys (c_mask c))) < t -> full_verify l enc H keys t m c = Err.
Proof. exact threshold_rejects. Qed.
Print Assumptions C13_threshold.


(* The mask is the index set of the commitments map: for a Go map (association
   list with distinct keys) accepted by CosiAggregateCommitment, bit n of the
   mask is set iff n is a key of the map, Keys() lists exactly those indexes,
   popcount = number of commitments, and every iteration order of the map
   yields the same mask (and the same aggregated commitment). *)
Theorem C13_mask_is_index_set : forall l rs c,
  aggregate_commitment l rs = Ok c -> NoDup (map fst rs) ->
  (forall n, N.testbit (c_mask c) n = has_index n (map fst rs)) /\
  (forall i, In i (mask_keys (c_mask c)) <-> In i (map fst rs)) /\
  length (mask_keys (c_mask c)) = length rs /\
  (forall rs', Permutation rs rs' ->
     exists c', aggregate_commitment l rs' = Ok c' /\ c_mask c' = c_mask c /\ cg l (c_r c') (c_r c)).
Proof.
  intros l rs c Hc Hnd. destruct (commitment_mask l rs c Hc Hnd) as (H1 & H2 & H3).
  repeat split; try assumption; try apply H2.
  intros rs' HP. exact (commitment_perm l rs rs' c Hc Hnd HP).
Qed.
Print Assumptions C13_mask_is_index_set.

(* End to end: commitments aggregated by CosiAggregateCommitment, valid shares
   from exactly those signers: aggregation and FullVerify succeed.  The
   hypotheses of C13_complete on the mask and on R are discharged. *)
Theorem C13_complete_from_commitments : forall l enc H keys cm rs m strict t c A, 0 < l ->
  aggregate_commitment l cm = Ok c -> NoDup (map fst cm) ->
  cosi_public_key l keys c = Ok A ->
  NoDup (map fst rs) -> (forall i, In i (map fst cm) <-> In i (map fst rs)) ->
  (forall i so, In (i, so) rs ->
     exists s, so = Some s /\ share_valid l keys c (H (challenge_input enc (c_r c) A m)) i s) ->
  point_ok l A = true -> point_ok l (c_r c) = true -> 0 < t <= Z.of_nat (length cm) ->
  exists c', aggregate_response l enc H keys rs m strict c = Ok c' /\
             full_verify l enc H keys t m c' = Ok tt.
Proof.
  intros l enc H keys cm rs m strict t c A Hl Hc Hnd HA Hnd' Hset Hv HpA HpR Ht.
  destruct (commitment_mask l cm c Hc Hnd) as (_ & Hmk & Hlen).
  apply (complete l enc H keys rs m strict t c A Hl HA Hnd'); try assumption.
  - intros i. rewrite Hmk. apply Hset.
  - exact (commitment_wf l cm c Hc Hnd).
  - rewrite Hlen. exact Ht.
Qed.
Print Assumptions C13_complete_from_commitments.

(* The two side conditions of completeness, explained: the aggregated key
   (commitment) is the identity exactly when the discrete logs of the masked
   keys (commitments) sum to 0 mod l ... *)
Theorem C13_identity_iff : forall l xs, 0 < l ->
  (point_ok l (fsum l xs) = false <-> cg l (zsum xs) 0).
Proof. exact sum_identity_iff. Qed.
Print Assumptions C13_identity_iff.

(* ... and then FullVerify refuses the signature for every threshold, valid
   shares or not (decodePoint refuses the identity as a key and as R). *)
Theorem C13_identity_rejected : forall l enc H keys t m c A,
  cosi_public_key l keys c = Ok A ->
  point_ok l A = false \/ point_ok l (c_r c) = false ->
  full_verify l enc H keys t m c = Err.
Proof. exact identity_rejected. Qed.
Print Assumptions C13_identity_rejected.

(* Non-vacuity over l = 13 with a toy encoding and hash: three keys, signers 0 and 2. *)
Definition ex_enc (p : Z) : N := Z.to_N (p + 100).
Definition ex_H (b : list N) : Z := Z.of_N (fold_left (fun acc x => (acc * 7 + x + 3) mod 13)%N b 5%N).

Example C13_ex_flow :
  let keys := [3; 5; 11] in
  match aggregate_commitment 13 [(2, 4); (0, 7)] with
  | Ok c =>
      match response 13 ex_enc ex_H 3 7 keys 9%N c, response 13 ex_enc ex_H 11 4 keys 9%N c with
      | Ok s0, Ok s2 =>
          match aggregate_response 13 ex_enc ex_H keys [(2, Some s2); (0, Some s0)] 9%N true c with
          | Ok c' =>
              [full_verify 13 ex_enc ex_H keys 2 9%N c'; full_verify 13 ex_enc ex_H keys 3 9%N c';
               full_verify 13 ex_enc ex_H keys 0 9%N c'; full_verify 13 ex_enc ex_H [3; 5] 2 9%N c';
               verify_response 13 ex_enc ex_H keys 0 (Some s0) 9%N c;
               verify_response 13 ex_enc ex_H keys 0 (Some ((s0 + 1) mod 13)) 9%N c;
               rmap (fun _ => tt) (aggregate_response 13 ex_enc ex_H keys [(2, Some s2); (0, Some ((s0 + 1) mod 13))] 9%N true c);
               rmap (fun _ => tt) (aggregate_response 13 ex_enc ex_H keys [(2, Some s2)] 9%N false c);
               rmap (fun _ => tt) (aggregate_response 13 ex_enc ex_H keys [(2, Some s2); (0, Some s0); (1, Some 1)] 9%N false c)]
              = [Ok tt; Err; Err; Err; Ok tt; Err; Err; Err; Err] /\ c_mask c = 5%N
          | _ => False
          end
      | _, _ => False
      end
  | _ => False
  end.
Proof. vm_compute. split; reflexivity. Qed.

(* keys 3 and 10 = -3 mod 13: the aggregated key is the identity, every share is
   valid, strict aggregation succeeds, FullVerify refuses; mask bits = map keys
   in either iteration order *)
Example C13_ex_identity_key :
  let keys := [3; 10] in
  match aggregate_commitment 13 [(1, 4); (0, 7)], aggregate_commitment 13 [(0, 7); (1, 4)] with
  | Ok c, Ok c2 =>
      match response 13 ex_enc ex_H 3 7 keys 9%N c, response 13 ex_enc ex_H 10 4 keys 9%N c with
      | Ok s0, Ok s1 =>
          match aggregate_response 13 ex_enc ex_H keys [(0, Some s0); (1, Some s1)] 9%N true c with
          | Ok c' => full_verify 13 ex_enc ex_H keys 1 9%N c' = Err /\ cosi_public_key 13 keys c = Ok 0
                     /\ c_mask c = 3%N /\ c_mask c2 = 3%N /\ c_r c = c_r c2
          | _ => False
          end
      | _, _ => False
      end
  | _, _ => False
  end.
Proof. vm_compute. repeat split; reflexivity. Qed.
