(* C26 - node work is credited exactly once per snapshot.

   Property theorems only; each is closed by [exact] of a lemma of
   Proofs/Work.v about the executable model Model/Work.v of
   storage/badger_work.go (WriteRoundWork, ListNodeWorks, ReadWorkOffset),
   which the correspondence harness (harness/cmd/c26) runs against a real
   Badger store on whole histories of calls.

   Vocabulary (Model/Work.v):
     sub                  one call WriteRoundWork(node, round, snaps, credit)
     run_all st h         the store after the calls of h; Ok iff no call panicked
     run st h             the same with panicking calls discarded (transaction rolled back)
     all_pairs h          every (proposer, snapshot) occurrence of h, with repeats
     enumerates C h       C lists every (proposer, snapshot) of h exactly once
     leads C n d          number of pairs of C proposed by n on day d
     signs C m d          signer entries equal to m in pairs of C of day d proposed by others
     signs_mem C m d      number of pairs of C of day d proposed by others whose signers contain m
     valid h              h is built by appending, per node, either
                            - a wf_sub submission that [follows]: same round as the node's
                              current one with a superset of the current list (monotone), or
                              the next round (consecutive; a node's first round is 0 or 1),
                              and is [hash_consistent] with everything before, or
                            - a [stale] replay of an older round containing nothing new.

   Where the hypotheses come from (kernel/mint.go AggregateMintWork):
     - consecutive rounds: the loop starts at ReadWorkOffset and increments by one.
     - monotone: the submitted list is ReadSnapshotWorksForNodeRound(round) at the time of
       the call; SnapshotWork records of a round are only added (storage/badger_graph.go
       writeSnapshot) until WriteRoundWork itself deletes the round it leaves.
     - NoDup hashes / hash_consistent: records are keyed by (node, round, timestamp) and the
       snapshot hash covers node, round and timestamp, so one hash names one record
       (collision freedom of the hash is the assumption); kernel/round.go validateSnapshot
       refuses a repeated hash or timestamp in a round.
     - one day per round: kernel/round.go:213, kernel/cosi.go:419, kernel/queue.go:299.
     - proposer occurs exactly once among the signers, signers non-empty: the signer list is
       cids[k] for the set bits k of the CoSi mask (kernel/graph.go cacheVerifyCosi), so it is
       duplicate free; an honest proposer always contributes its own commitment
       (kernel/cosi.go:477), so it is in the mask.  verifyFinalization itself does not check the
       proposer's bit: for a finalized snapshot without it WriteRoundWork panics
       (C26_panic_leader_count) - that is an availability question outside this property.
       Genesis snapshots have no signers: credit_fresh then credits nothing, which is outside
       this theorem (wf_sub excludes them).
     - credit = true constant per round: the flag is (day of round = day of next round) or the
       mainnet legacy term, both functions of the round.  With credit = false the call records
       the snapshots as seen WITHOUT crediting; a later call with credit = true does not
       credit them either (C26_credit_flip_refuted below).
     - round < 2^64 - 1: the Go code computes off+1 in uint64. *)
From Coq Require Import List ZArith NArith Bool.
Require Import Mixin.Base.Res Mixin.Gen.Consts Mixin.Model.Work Mixin.Proofs.Work.
Import ListNotations.
Open Scope Z_scope.

(* Every valid history, however often and in which monotone pattern rounds are
   re-submitted and however nodes are interleaved: no call panics, and every
   counter equals (mod 2^64, the width of the stored counter) the count over the
   DISTINCT snapshots submitted - for every duplicate-free enumeration C. *)
Theorem C26_exactly_once : forall h, valid h ->
  exists st, run_all empty_state h = Ok st /\
    forall C, enumerates C h ->
      (forall n d, lead st n d = leads C n d mod two64) /\
      (forall m d, sign st m d = signs C m d mod two64).
Proof. exact exactly_once. Qed.
Print Assumptions C26_exactly_once.

(* Without the wrap when the counts fit a uint64; with duplicate-free signer
   lists the signing credit is the number of distinct snapshots m signed. *)
Theorem C26_exactly_once_nowrap : forall h, valid h ->
  exists st, run_all empty_state h = Ok st /\ run empty_state h = st /\
    forall C, enumerates C h ->
      (forall n d, leads C n d < two64 -> lead st n d = leads C n d) /\
      (forall m d, signs C m d < two64 -> sign st m d = signs C m d) /\
      (forall m d, (forall x, In x C -> NoDup (s_signers (snd x))) ->
                   signs C m d < two64 -> sign st m d = signs_mem C m d).
Proof. exact exactly_once_nowrap. Qed.
Print Assumptions C26_exactly_once_nowrap.

(* the quantification over C is not empty *)
Theorem C26_enumeration_exists : forall h, valid h -> exists C, enumerates C h.
Proof. exact enumeration_exists. Qed.
Print Assumptions C26_enumeration_exists.

(* ReadWorkOffset after a valid history is the node's current round *)
Theorem C26_offset_tracks : forall h, valid h ->
  exists st, run_all empty_state h = Ok st /\ forall n, read_work_offset st n = cur_round n h.
Proof. exact offset_tracks. Qed.
Print Assumptions C26_offset_tracks.

(* Re-submitting, for the checkpointed round, a list whose hashes are all in the
   seen set and cover it: counters untouched (as functions), other checkpoints
   untouched, the node's seen set replaced by an equal set.  Any state, any
   credit flag, no well-formedness needed. *)
Theorem C26_replay_identity : forall st n r seen snaps credit,
  cp st n = (r, seen) -> 0 <= r -> r + 1 < two64 ->
  (forall w, In w snaps -> In (s_hash w) seen) ->
  (forall x, In x seen -> In x (hashes snaps)) ->
  exists st', write_round_work st n r snaps credit = Ok st' /\
    lead st' = lead st /\ sign st' = sign st /\
    (forall m, m <> n -> cp st' m = cp st m) /\
    cp st' n = (r, hashes snaps).
Proof. exact replay_identity. Qed.
Print Assumptions C26_replay_identity.

(* A call for an older round than the checkpoint is the identity. *)
Theorem C26_stale_noop : forall st n r ws c,
  fst (cp st n) > r -> write_round_work st n r ws c = Ok st.
Proof. exact stale_noop. Qed.
Print Assumptions C26_stale_noop.

(* ---- the refused shapes (model and real code panic, store unchanged) ---- *)

Theorem C26_panic_round_gap : forall st n r snaps credit off seen,
  cp st n = (off, seen) -> 0 <= off -> off + 1 < two64 -> r > off + 1 ->
  write_round_work st n r snaps credit = Panic.
Proof. exact panic_gap. Qed.
Print Assumptions C26_panic_round_gap.

Theorem C26_panic_missing_seen : forall st n r snaps credit seen x,
  cp st n = (r, seen) -> In x seen -> ~ In x (hashes snaps) ->
  write_round_work st n r snaps credit = Panic.
Proof. exact panic_missing. Qed.
Print Assumptions C26_panic_missing_seen.

(* new round, first snapshot signed, credit requested: zero timestamp, a second
   day, or a zero hash anywhere in the list *)
Theorem C26_panic_invalid_snapshot : forall st n off seen w0 rest w,
  cp st n = (off, seen) -> 0 <= off -> off + 1 < two64 ->
  s_signers w0 <> [] -> In w (w0 :: rest) ->
  (s_ts w = 0 \/ day_of (s_ts w) <> day_of (s_ts w0) \/ s_hash w = 0%N) ->
  write_round_work st n (off + 1) (w0 :: rest) true = Panic.
Proof. exact panic_invalid_snapshot. Qed.
Print Assumptions C26_panic_invalid_snapshot.

(* ... or the proposer's signer entries do not add up to the batch size *)
Theorem C26_panic_leader_count : forall st n off seen w0 rest,
  cp st n = (off, seen) -> 0 <= off -> off + 1 < two64 ->
  s_signers w0 <> [] ->
  wm n (w0 :: rest) <> Z.of_nat (length (w0 :: rest)) ->
  write_round_work st n (off + 1) (w0 :: rest) true = Panic.
Proof. exact panic_leader_count. Qed.
Print Assumptions C26_panic_leader_count.

(* ---- what the hypotheses exclude (witnesses are corpus cases of the harness) ---- *)

Definition D : Z := 19000.
Definition T (d off : Z) : Z := d * Consts.WorkDayNanos + off.
Definition a1 := mk_snap 1 (T D 5) [1; 2]%N.
Definition a2 := mk_snap 2 (T D 6) [2; 1; 3]%N.
Definition b1 := mk_snap 3 (T (D + 1) 0) [1]%N.

(* "each submitted snapshot is credited once" is false without NoDup inside one
   list: a hash occurring twice in one call is credited twice.  The caller reads
   the list from keys (node, round, timestamp), so it cannot repeat a record. *)
Theorem C26_duplicate_in_list_refuted :
  exists s, hashes (u_snaps s) = [1; 1]%N /\
            lead (run empty_state [s]) 1%N D = 2.
Proof. exists (mk_sub 1 1 [a1; a1] true). vm_compute. split; reflexivity. Qed.
Print Assumptions C26_duplicate_in_list_refuted.

(* "... credited once" is false when the credit flag of a round changes from
   false to true: the first call marks the snapshot seen, the second finds
   nothing fresh. *)
Theorem C26_credit_flip_refuted :
  lead (run empty_state [mk_sub 1 1 [a1] false; mk_sub 1 1 [a1] true]) 1%N D = 0.
Proof. vm_compute. reflexivity. Qed.
Print Assumptions C26_credit_flip_refuted.

(* ---- non-vacuity: a history with repeats, growth, a day change and a stale replay ---- *)

Definition s1 := mk_sub 1 1 [a1] true.
Definition s2 := mk_sub 1 1 [a1] true.          (* the same again *)
Definition s3 := mk_sub 1 1 [a2; a1] true.      (* grown, other order *)
Definition s4 := mk_sub 1 2 [b1] true.          (* next round, next day *)
Definition s5 := mk_sub 1 1 [a1; a2] true.      (* replay of the finished round *)
Definition s6 := mk_sub 1 2 [b1] true.          (* and the current one again *)
Definition h_ex := [s1; s2; s3; s4; s5; s6].

Ltac in_cases :=
  repeat match goal with
  | H : _ \/ _ |- _ => destruct H as [H|H]
  | H : False |- _ => destruct H
  end; subst.
Ltac pick := repeat (try (left; reflexivity); right).
Ltac wf :=
  split; [vm_compute; split; [discriminate | reflexivity] |
  split; [reflexivity |
  split; [vm_compute; repeat constructor; cbn; intuition discriminate |
  split; [intros w Hw; vm_compute in Hw; in_cases; vm_compute; repeat split; discriminate |
          intros w w' Hw Hw'; vm_compute in Hw, Hw'; in_cases; reflexivity]]]].
Ltac hc :=
  intros p w w' Hp Hw Hw' Hh; vm_compute in Hp; in_cases; vm_compute in Hw, Hw'; in_cases;
  try (vm_compute in Hh; discriminate); repeat split; reflexivity.

Example h_ex_valid : valid h_ex.
Proof.
  change (valid (((((([] ++ [s1]) ++ [s2]) ++ [s3]) ++ [s4]) ++ [s5]) ++ [s6])).
  apply valid_next; [apply valid_stale; [apply valid_next; [apply valid_next;
    [apply valid_next; [apply valid_next; [apply valid_nil | | | ] | | | ] | | | ] | | | ] | ] | | | ].
  - wf.
  - right. reflexivity.
  - hc.
  - wf.
  - left. split; [reflexivity|]. intros x Hx. vm_compute in Hx. in_cases. vm_compute. pick.
  - hc.
  - wf.
  - left. split; [reflexivity|]. intros x Hx. vm_compute in Hx. in_cases. vm_compute. pick.
  - hc.
  - wf.
  - right. reflexivity.
  - hc.
  - split; [vm_compute; reflexivity|].
    intros w Hw. vm_compute in Hw. in_cases; vm_compute; pick.
  - wf.
  - left. split; [reflexivity|]. intros x Hx. vm_compute in Hx. in_cases. vm_compute. pick.
  - hc.
Qed.

(* three distinct snapshots were submitted in eight occurrences *)
Example h_ex_counts :
  let st := run empty_state h_ex in
  (length (all_pairs h_ex), lead st 1%N D, lead st 1%N (D + 1), sign st 2%N D, sign st 3%N D,
   sign st 1%N D, read_work_offset st 1%N)
  = (8%nat, 2, 1, 2, 1, 0, 2).
Proof. vm_compute. reflexivity. Qed.

Example h_ex_spec :
  let C := [(1%N, a1); (1%N, a2); (1%N, b1)] in
  (leads C 1%N D, leads C 1%N (D + 1), signs C 2%N D, signs C 3%N D, signs_mem C 2%N D)
  = (2, 1, 2, 1, 2).
Proof. vm_compute. reflexivity. Qed.

(* the refused shapes on concrete inputs *)
Example ex_gap : write_round_work empty_state 1%N 2 [a1] false = Panic.
Proof. vm_compute. reflexivity. Qed.
Example ex_missing :
  write_round_work (run empty_state [mk_sub 1 1 [a1; a2] false]) 1%N 1 [a1] false = Panic.
Proof. vm_compute. reflexivity. Qed.
Example ex_mixed_days : write_round_work empty_state 1%N 1 [a1; b1] true = Panic.
Proof. vm_compute. reflexivity. Qed.
Example ex_midnight :
  day_of (T D 0 - 1) = D - 1 /\ day_of (T D 0) = D /\
  write_round_work empty_state 1%N 1 [mk_snap 1 (T D 0 - 1) [1]%N; mk_snap 2 (T D 0) [1]%N] true = Panic.
Proof. vm_compute. repeat split; reflexivity. Qed.
Example ex_zero_ts : write_round_work empty_state 1%N 1 [mk_snap 1 0 [1]%N] true = Panic.
Proof. vm_compute. reflexivity. Qed.
Example ex_zero_hash : write_round_work empty_state 1%N 1 [mk_snap 0 (T D 1) [1]%N] true = Panic.
Proof. vm_compute. reflexivity. Qed.
Example ex_no_leader : write_round_work empty_state 1%N 1 [mk_snap 1 (T D 1) [2]%N] true = Panic.
Proof. vm_compute. reflexivity. Qed.
(* not validated at all when credit = false or the first fresh snapshot has no signers *)
Example ex_unvalidated :
  is_ok (write_round_work empty_state 1%N 1 [mk_snap 0 0 []; b1] true) = true /\
  is_ok (write_round_work empty_state 1%N 1 [mk_snap 0 0 [2]%N; b1] false) = true.
Proof. vm_compute. split; reflexivity. Qed.
