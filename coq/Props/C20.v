(* C20 - round links only move forward and never point at their own chain;
   rejected transitions leave the state unchanged.  Property theorems only, each
   closed by a lemma of Proofs/RoundLinks.v about the executable model
   Model/RoundLinks.v of kernel/graph.go (startNewRoundAndPersist,
   updateEmptyHeadRoundAndPersist, updateExternal, assignNewGraphRound) over
   storage/badger_round.go (StartNewRound, UpdateEmptyHeadRound, ROUND and LINK
   records), which harness/cmd/c20 runs against the real code on a Badger store.
   [H] is Blake3 as an abstract function; [sort]/[sort_ts] are any conforming
   sorting procedures; the clock/other-chain checks of the strict path are the
   boolean [sanity] (they can only reject).

   FINDING (recorded in known_findings.txt, reproduced by the harness corpus):
   ROUND/<node id> (a chain's HEAD record) and ROUND/<final hash> share one key
   space, and a reference whose external hash is a node id is accepted.  The
   statements that need "the external is a final round" therefore carry the
   hypothesis [honest] (the external reference is not a node id) - theorems
   named _outside - and are refuted without it (theorems named _refuted). *)
From Coq Require Import List ZArith NArith Bool Permutation Sorted.
Require Import Mixin.Base.Res Mixin.Model.RoundHash Mixin.Model.LiveRound Mixin.Model.RoundLinks
               Mixin.Proofs.RoundHash Mixin.Proofs.LiveRound Mixin.Proofs.RoundLinks.
Import ListNotations.
Open Scope N_scope.

(* An accepted round start (Ok dummy): the new head round has number = previous
   + 1 and the closed round is the previous head; the self reference is the hash
   asFinal computes for the closed round, which becomes the final round; the
   durable head record says the same and the closed round is stored under its
   hash (which was free).  The external reference e is a stored ROUND record,
   the LINK record towards its node becomes its number and did not decrease,
   no other LINK record changes; on the ordinary path (dummy = false) e is
   stored under the referenced hash, belongs to a DIFFERENT node, the LINK record
   equalled RoundLinks before and equals it after; on the finalized path with an
   unknown external (dummy = true) the previous external reference is kept and
   RoundLinks is untouched. *)
Theorem C20_step : forall (H : hin -> N) sort d c self ext ts finalized sanity d' c' dummy,
  start_new_round H sort d c self ext ts finalized sanity = (d', c', Ok dummy) ->
  let k := ch_cache c in
  let id := ch_id c in
  ch_id c' = id /\
  c_number (ch_cache c') = c_number k + 1 /\ f_number (ch_final c') = c_number k /\
  (exists start end_,
     as_final H sort (c_node k) (c_number k) (c_snaps k) = Ok (Some (start, end_, self)) /\
     ch_final c' = mk_fr id (c_number k) start end_ self) /\
  c_self (ch_cache c') = self /\ c_snaps (ch_cache c') = [] /\
  find_round id (d_rounds d') = Some (mk_rr id id (c_number k + 1) 0 self (c_ext (ch_cache c'))) /\
  (exists s, find_round id (d_rounds d) = Some s /\ r_number s = c_number k /\
             find_round self (d_rounds d) = None /\
             find_round self (d_rounds d') = Some (closed_rec self (f_start (ch_final c')) s)) /\
  exists e,
    find_round (c_ext (ch_cache c')) (d_rounds d) = Some e /\ r_hash e <> 0 /\
    dur_link d id (r_node e) <= r_number e /\ dur_link d' id (r_node e) = r_number e /\
    (forall n, n <> r_node e -> dur_link d' id n = dur_link d id n) /\
    (forall from n, from <> id -> dur_link d' from n = dur_link d from n) /\
    (dummy = false ->
       c_ext (ch_cache c') = ext /\ r_hash e = ext /\ r_node e <> id /\
       dur_link d id (r_node e) = get_link (r_node e) (ch_links c) /\
       get_link (r_node e) (ch_links c') = r_number e /\
       (forall n, n <> r_node e -> get_link n (ch_links c') = get_link n (ch_links c))) /\
    (dummy = true ->
       finalized = true /\ find_round ext (d_rounds d) = None /\
       c_ext (ch_cache c') = c_ext k /\ ch_links c' = ch_links c).
Proof. exact start_step. Qed.
Print Assumptions C20_step.

(* An accepted empty-head update: round number, self reference and final round
   are unchanged, the head was empty; the new external is a stored record under
   the referenced hash of a DIFFERENT node, LINK = RoundLinks before and after,
   not decreased; nothing else changes. *)
Theorem C20_update_step : forall d c self ext ts strict sanity d' c',
  update_empty_head d c self ext ts strict sanity = (d', c', Ok tt) ->
  let k := ch_cache c in
  let id := ch_id c in
  ch_id c' = id /\ ch_final c' = ch_final c /\
  c_number (ch_cache c') = c_number k /\ c_self (ch_cache c') = c_self k /\ self = c_self k /\
  c_snaps k = [] /\ c_ext (ch_cache c') = ext /\
  find_round id (d_rounds d') = Some (mk_rr id id (c_number k) 0 self ext) /\
  exists e,
    find_round ext (d_rounds d) = Some e /\ r_hash e = ext /\ r_node e <> id /\
    dur_link d id (r_node e) = get_link (r_node e) (ch_links c) /\
    get_link (r_node e) (ch_links c) <= r_number e /\
    dur_link d' id (r_node e) = r_number e /\ get_link (r_node e) (ch_links c') = r_number e /\
    (forall n, n <> r_node e -> dur_link d' id n = dur_link d id n /\
                                get_link n (ch_links c') = get_link n (ch_links c)) /\
    (forall from n, from <> id -> dur_link d' from n = dur_link d from n) /\
    (forall key, key <> id -> find_round key (d_rounds d') = find_round key (d_rounds d)).
Proof. exact update_step. Qed.
Print Assumptions C20_update_step.

(* A rejected transition (outcome class 1 = an error was returned), whatever the
   references, flags and oracle: the durable records are unchanged and every
   chain's in-memory state is unchanged except for the ORDER of the live round's
   snapshot slice (validateSnapshot and ComputeRoundHash sort it in place). *)
Theorem C20_reject_unchanged : forall (H : hin -> N) sort sort_ts w o w',
  sort_spec snap_lt sort -> sort_spec ts_lt sort_ts -> NoDup (ids w) ->
  step H sort sort_ts w o = (w', 1) ->
  w_dur w' = w_dur w /\ Forall2 same_but_order (w_chains w) (w_chains w').
Proof. exact step_reject_unchanged. Qed.
Print Assumptions C20_reject_unchanged.

Theorem C20_reject_unchanged_start : forall (H : hin -> N) sort d c self ext ts finalized sanity d' c',
  start_new_round H sort d c self ext ts finalized sanity = (d', c', Err) ->
  d' = d /\ (c' = c \/ c' = set_snaps c (sort (c_snaps (ch_cache c)))).
Proof. exact start_err_inv. Qed.
Print Assumptions C20_reject_unchanged_start.

Theorem C20_reject_unchanged_update : forall d c self ext ts strict sanity d' c',
  update_empty_head d c self ext ts strict sanity = (d', c', Err) -> d' = d /\ c' = c.
Proof. exact update_err_inv. Qed.
Print Assumptions C20_reject_unchanged_update.

(* Memory = durable in every reachable state: from a world satisfying the
   invariant (distinct node ids; per chain: RoundLinks = LINK records, the cache
   round's external is a stored non-head record whose number is the link), after
   ANY history of live-round accepts, starts and empty-head updates - any
   references, flags, oracles - whose external references are not node ids and
   which did not panic, the invariant holds again; in particular RoundLinks
   equals the LINK records for every chain and every node. *)
Theorem C20_mirror_outside : forall (H : hin -> N) sort sort_ts os w w' ks,
  world_inv w -> Forall (honest (ids w)) os ->
  steps H sort sort_ts w os = (w', ks) -> ~ In 2 ks ->
  world_inv w' /\
  forall c, In c (w_chains w') -> forall n, get_link n (ch_links c) = dur_link (w_dur w') (ch_id c) n.
Proof.
  intros H sort sort_ts os w w' ks Hw Hh Hs Hk.
  assert (Hw' : world_inv w') by (eapply steps_preserve; eassumption).
  split; [exact Hw' | apply world_inv_mirror; exact Hw'].
Qed.
Print Assumptions C20_mirror_outside.

(* ---- witnesses ------------------------------------------------------------------------------- *)
Definition ex_H (x : hin) : N :=
  match x with HSeed n k => 1000 * n + k + 100 | HLink p h => 7 * p + h + 1 end.
Definition ex_t : N := 1700000000000000000.
Definition ex_final0 (id : N) : final_round :=
  mk_fr id 0 (ex_t + id) (ex_t + id) (ex_H (HLink (ex_H (HSeed id 0)) (900 + id))).
Definition ex_h0 (id : N) : N := f_hash (ex_final0 id).
Definition ex_chain (id next : N) : chain :=
  mk_chain id (ex_final0 id) (mk_cr id 1 (ex_t + id + round_gap + 1) (ex_h0 id) (ex_h0 next) []) [].
Definition ex_world : world :=
  mk_world
    (mk_dur [ (ex_h0 1, mk_rr (ex_h0 1) 1 0 (ex_t + 1) 0 0); (1, mk_rr 1 1 1 0 (ex_h0 1) (ex_h0 2));
              (ex_h0 2, mk_rr (ex_h0 2) 2 0 (ex_t + 2) 0 0); (2, mk_rr 2 2 1 0 (ex_h0 2) (ex_h0 3));
              (ex_h0 3, mk_rr (ex_h0 3) 3 0 (ex_t + 3) 0 0); (3, mk_rr 3 3 1 0 (ex_h0 3) (ex_h0 1)) ] [])
    [ex_chain 1 2; ex_chain 2 3; ex_chain 3 1].

Lemma ex_world_inv : world_inv ex_world.
Proof.
  split; [vm_compute; repeat constructor; cbn; intuition discriminate|].
  repeat constructor; try (intro n; reflexivity);
    try (vm_compute; intuition discriminate);
    (eexists; split; vm_compute; reflexivity).
Qed.

Definition ex_snap (h ts : N) : snap := mk_snap h ts 2 1 [5000 + h].
(* the hash a chain's live round closes to, in a given world *)
Definition ex_good (w : world) (id : N) : N :=
  match find_chain id (w_chains w) with
  | Some c => match as_final ex_H isort_snap (c_node (ch_cache c)) (c_number (ch_cache c)) (c_snaps (ch_cache c)) with
              | Ok (Some (_, _, h)) => h | _ => 0 end
  | None => 0
  end.
Definition ex_run (w : world) (os : list op) := steps ex_H isort_snap isort_ts w os.

(* honest history: chain 1 closes its round referencing chain 2's final round,
   a stale and an own-chain reference are rejected, an unknown one takes the
   dummy path; all links mirror the durable records afterwards *)
Definition ex_w1 : world := fst (ex_run ex_world [OAdd 1 (ex_snap 11 (ex_t + round_gap + 10))]).
Definition ex_ops_honest : list op :=
  [ OAdd 1 (ex_snap 11 (ex_t + round_gap + 10));
    OStart 1 (ex_good ex_w1 1) (ex_h0 2) (ex_t + 2 * round_gap) false true;
    OUpdate 1 (ex_good ex_w1 1) (ex_h0 1) (ex_t + 2 * round_gap) false true;       (* own chain: error *)
    OUpdate 3 (ex_h0 3) (ex_good ex_w1 1) (ex_t + 2 * round_gap) true true;        (* forward: ok *)
    OUpdate 3 (ex_h0 3) (ex_h0 1) (ex_t + 2 * round_gap) false true;               (* back link: error *)
    OAdd 3 (ex_snap 12 (ex_t + round_gap + 20)) ].
Example C20_ex_honest :
  Forall (honest (ids ex_world)) ex_ops_honest /\
  snd (ex_run ex_world ex_ops_honest) = [0; 0; 1; 0; 1; 0].
Proof.
  split; [|vm_compute; reflexivity].
  repeat constructor; vm_compute; intuition discriminate.
Qed.

(* Without [honest]: chain 1 takes chain 2's node id as external reference (the
   HEAD record of chain 2, round 1, not a final round) and the transition is
   accepted ... *)
Theorem C20_external_final_refuted : exists w o w' e,
  world_inv w /\ ~ honest (ids w) o /\
  step ex_H isort_snap isort_ts w o = (w', 0) /\
  o = OUpdate 1 (ex_h0 1) 2 (ex_t + 2 * round_gap) false true /\
  find_round 2 (d_rounds (w_dur w)) = Some e /\ r_hash e = 2 /\ r_number e = 1 /\
  (* chain 2's final round is round 0, yet chain 1 now links to round 1 of chain 2 *)
  (exists c2, find_chain 2 (w_chains w) = Some c2 /\ f_number (ch_final c2) = 0) /\
  dur_link (w_dur w') 1 2 = 1.
Proof.
  exists ex_world, (OUpdate 1 (ex_h0 1) 2 (ex_t + 2 * round_gap) false true).
  eexists. eexists. split; [exact ex_world_inv|].
  split; [cbn; intro Hn; apply Hn; vm_compute; auto|].
  split; [vm_compute; reflexivity|]. split; [reflexivity|].
  split; [vm_compute; reflexivity|]. split; [reflexivity|]. split; [reflexivity|].
  split; [eexists; split; vm_compute; reflexivity | vm_compute; reflexivity].
Qed.
Print Assumptions C20_external_final_refuted.

(* ... and once chain 2 has advanced, a dummy-external start of chain 1 re-reads
   that head record and writes LINK 1=>2 = 2 while RoundLinks keeps 1: memory and
   durable state differ in a reachable state (no step panicked); the next
   reference of chain 1 to chain 2 then panics. *)
Definition ex_w2 : world := fst (ex_run ex_world
  [ OUpdate 1 (ex_h0 1) 2 (ex_t + 2 * round_gap) false true; OAdd 2 (ex_snap 21 (ex_t + round_gap + 10)) ]).
Definition ex_w3 : world := fst (ex_run ex_w2
  [ OStart 2 (ex_good ex_w2 2) (ex_h0 3) (ex_t + 2 * round_gap) true true; OAdd 1 (ex_snap 11 (ex_t + round_gap + 10)) ]).
Definition ex_ops_head : list op :=
  [ OUpdate 1 (ex_h0 1) 2 (ex_t + 2 * round_gap) false true;
    OAdd 2 (ex_snap 21 (ex_t + round_gap + 10));
    OStart 2 (ex_good ex_w2 2) (ex_h0 3) (ex_t + 2 * round_gap) true true;
    OAdd 1 (ex_snap 11 (ex_t + round_gap + 10));
    OStart 1 (ex_good ex_w3 1) 77777 (ex_t + 2 * round_gap) true true ].
Theorem C20_mirror_refuted : exists w os w' ks c,
  world_inv w /\ steps ex_H isort_snap isort_ts w os = (w', ks) /\ ~ In 2 ks /\
  In c (w_chains w') /\ ch_id c = 1 /\
  get_link 2 (ch_links c) = 1 /\ dur_link (w_dur w') 1 2 = 2 /\
  snd (step ex_H isort_snap isort_ts w'
         (OUpdate 1 (c_self (ch_cache c)) (ex_good ex_w2 2) (ex_t + 3 * round_gap) false true)) = 2.
Proof.
  exists ex_world, ex_ops_head. eexists. eexists. eexists.
  split; [exact ex_world_inv|].
  split; [vm_compute; reflexivity|].
  split; [cbn; intuition discriminate|].
  split; [left; reflexivity|].
  split; [reflexivity|]. split; [reflexivity|]. split; [vm_compute; reflexivity | vm_compute; reflexivity].
Qed.
Print Assumptions C20_mirror_refuted.
