(* C25 - mint schedule and distribution are bounded, exact and work-monotone.
   Property theorems only; each is closed by [exact] of a lemma of
   Proofs/Mint.v about the executable model Model/Mint.v, which the
   correspondence harness (harness/cmd/c25) runs against kernel/mint.go on
   every batch up to and beyond the horizon and on random work vectors.

   Amounts are in units of 10^-8 XIN.  Parameters of the property:
     first_batch = 1707, horizon = 53654 (last batch of year 146; its amount
     is 2858 units >= guard_a0 = 2800, batch 53655 has 2572), the schedule
     is total up to last_total_batch = 104024, zero from first_zero_batch =
     81030, and mintBatchSize itself panics from batch 104025 on. *)
From Coq Require Import List ZArith NArith Bool.
Require Import Mixin.Base.Res Mixin.Model.Fixed Mixin.Model.Mint Mixin.Proofs.Mint.
Import ListNotations.
Open Scope Z_scope.

(* ---- schedule ------------------------------------------------------------------ *)

(* Per-batch amounts never increase - for ALL batches on which mintBatchSize
   returns, not only inside the horizon. *)
Theorem C25_nonincreasing : forall b1 b2 a1 a2, 0 <= b1 <= b2 ->
  mint_batch_size b1 = Ok a1 -> mint_batch_size b2 = Ok a2 -> 0 <= a2 <= a1.
Proof. exact mint_batch_size_nonincreasing. Qed.
Print Assumptions C25_nonincreasing.

(* mintBatchSize returns on every batch up to 104024 ... *)
Theorem C25_schedule_total : forall b, 0 <= b <= last_total_batch ->
  exists a, mint_batch_size b = Ok a /\ 0 <= a.
Proof. exact mint_batch_size_total. Qed.
Print Assumptions C25_schedule_total.

(* ... and panics (pool.Sub(0)) on every later batch: what happens beyond the horizon. *)
Theorem C25_schedule_panics_after : forall b, last_total_batch < b -> mint_batch_size b = Panic.
Proof. exact mint_batch_size_panics. Qed.
Print Assumptions C25_schedule_panics_after.

Theorem C25_schedule_zero_tail : forall b, first_zero_batch <= b <= last_total_batch ->
  mint_batch_size b = Ok 0.
Proof. exact zero_from. Qed.
Print Assumptions C25_schedule_zero_tail.

(* Every batch of the horizon is at least the positivity guard (a forallb sweep
   over the 147 years of the horizon evaluated by vm_compute, lifted with
   forallb_forall; the amount only depends on batch / 365), and the horizon is sharp. *)
Theorem C25_horizon_guard : forall b, 0 <= b <= horizon ->
  exists a, mint_batch_size b = Ok a /\ guard_a0 <= a.
Proof. exact horizon_guard. Qed.
Print Assumptions C25_horizon_guard.

Theorem C25_horizon_sharp : exists a, mint_batch_size (horizon + 1) = Ok a /\ a < guard_a0.
Proof. exact horizon_sharp. Qed.
Print Assumptions C25_horizon_sharp.

(* The cumulative total never exceeds the pool: the sum of ANY run of n
   consecutive batch amounts starting at any batch i (in particular batches
   1..B for every B; a panicking batch counts 0) is within MintPool.
   Telescoping over the years, no computation. *)
Theorem C25_cumulative : forall n i, 0 <= i -> 0 <= sum_sizes n i <= mint_pool.
Proof. exact sum_sizes_le_pool. Qed.
Print Assumptions C25_cumulative.

Theorem C25_cumulative_multi : forall old batch s, 0 <= old ->
  mint_multi old batch = Ok s -> 0 < s <= mint_pool.
Proof. exact mint_multi_le_pool. Qed.
Print Assumptions C25_cumulative_multi.

(* A multi-batch mint is the sum of its batches; it returns exactly when every
   batch in (old, batch] returns a positive amount (amount.Add(0) panics). *)
Theorem C25_multi_sum : forall old batch s,
  mint_multi old batch = Ok s <->
  old < batch /\ s = sum_sizes (Z.to_nat (batch - old)) (old + 1) /\
  (forall i, old < i <= batch -> exists a, mint_batch_size i = Ok a /\ 0 < a).
Proof. exact mint_multi_sum. Qed.
Print Assumptions C25_multi_sum.

(* poolSizeUniversal stays within [0, MintPool] whenever it returns. *)
Theorem C25_pool_size_range : forall b r, 0 <= b -> pool_size b = Ok r -> 0 <= r <= mint_pool.
Proof. exact pool_size_range. Qed.
Print Assumptions C25_pool_size_range.

(* ---- distribution --------------------------------------------------------------- *)

(* Whenever a mint transaction is built its outputs sum exactly to the batch
   amount (the light output absorbs the remainder); no guard needed. *)
Theorem C25_outputs_sum_exact : forall batch amount day0 rdy works thr outs,
  build_outputs batch amount day0 rdy works thr = Ok outs -> zsum outs = amount.
Proof. exact outputs_sum_exact. Qed.
Print Assumptions C25_outputs_sum_exact.

(* The two `total > amount` panics are unreachable: the construction with both
   checks removed is the same function, on all inputs. *)
Theorem C25_total_guards_unreachable : forall batch amount day0 rdy works thr,
  build_outputs batch amount day0 rdy works thr =
  build_outputs_noguard batch amount day0 rdy works thr.
Proof. exact build_outputs_guards. Qed.
Print Assumptions C25_total_guards_unreachable.

(* The kernel-node outputs (the first |works| outputs) get at most half. *)
Theorem C25_kernel_half : forall batch amount day0 rdy works thr outs,
  build_outputs batch amount day0 rdy works thr = Ok outs ->
  2 * zsum (firstn (length works) outs) <= amount /\
  zsum (firstn (length works) outs) <= amount / 10 * 5.
Proof. exact kernel_half. Qed.
Print Assumptions C25_kernel_half.

(* One output per node, then the custodian output = 4 * floor(amount / 10), then the light output. *)
Theorem C25_custodian_share : forall batch amount day0 rdy works thr outs,
  build_outputs batch amount day0 rdy works thr = Ok outs ->
  length outs = (length works + 2)%nat /\
  nth_error outs (length works) = Some (amount / 10 * 4).
Proof. exact custodian_share. Qed.
Print Assumptions C25_custodian_share.

(* The piecewise map with its floors is monotone ... *)
Theorem C25_remap_monotone : forall avg w1 w2 y1 y2,
  remap avg w1 = Ok y1 -> remap avg w2 = Ok y2 -> w1 <= w2 -> y1 <= y2.
Proof.
  intros avg w1 w2 y1 y2 H1 H2 Hw. apply remap_inv in H1, H2.
  destruct H1 as [Ha ->]. destruct H2 as [_ ->]. apply rm_mono; assumption.
Qed.
Print Assumptions C25_remap_monotone.

(* ... hence a node with more work never receives less (work = 1.2 per
   proposal + 1 per signature, as node_work computes it). *)
Theorem C25_work_monotone : forall batch amount day0 rdy works thr outs i j wi wj a b oi oj,
  build_outputs batch amount day0 rdy works thr = Ok outs ->
  nth_error works i = Some wi -> nth_error works j = Some wj ->
  node_work wi = Ok a -> node_work wj = Ok b -> a <= b ->
  nth_error outs i = Some oi -> nth_error outs j = Some oj -> oi <= oj.
Proof. exact outputs_work_monotone. Qed.
Print Assumptions C25_work_monotone.

Theorem C25_work_value : forall ls, 0 <= fst ls -> 0 <= snd ls ->
  node_work ls = Ok (20000000 * (6 * fst ls + 5 * snd ls)).
Proof. exact node_work_ok. Qed.
Print Assumptions C25_work_value.

(* Every output is positive and nothing panics under the guard: amount >= A0,
   1..50 nodes, non-negative counts, threshold >= 3 (the consensus threshold
   is always >= 5).  Err = no transaction (too few working nodes / not ready). *)
Theorem C25_positive : forall batch amount day0 rdy works thr,
  works_ok works -> 3 <= thr -> guard_a0 <= amount ->
  1 <= Z.of_nat (length works) <= max_nodes ->
  build_outputs batch amount day0 rdy works thr = Err \/
  exists outs, build_outputs batch amount day0 rdy works thr = Ok outs /\
               Forall (fun o => 0 < o) outs.
Proof. exact build_outputs_guarded. Qed.
Print Assumptions C25_positive.

Theorem C25_threshold_at_least_5 : forall n, 5 <= consensus_threshold n.
Proof. exact consensus_threshold_min. Qed.
Print Assumptions C25_threshold_at_least_5.

(* The whole mint of any batch of the horizon, after any earlier batch: the
   amount is the sum of the due batches, at least A0, and the transaction is
   either not built or has positive outputs summing exactly to it. *)
Theorem C25_positive_in_horizon : forall old oa batch vo day0 rdy works thr,
  0 <= old -> old < batch <= horizon ->
  works_ok works -> 3 <= thr -> 1 <= Z.of_nat (length works) <= max_nodes ->
  exists s, mint_multi old batch = Ok s /\ guard_a0 <= s /\
    (build_mint old oa batch vo day0 rdy works thr = Err \/
     exists outs, build_mint old oa batch vo day0 rdy works thr = Ok outs /\
                  Forall (fun o => 0 < o) outs /\ zsum outs = s).
Proof. exact build_mint_guarded. Qed.
Print Assumptions C25_positive_in_horizon.

(* Beyond the horizon positivity fails by construction of the schedule and the
   construction panics in total.Add(0): not claimed, witnessed here. *)
Theorem C25_beyond_horizon_panics :
  build_outputs 60000 100 false true (repeat (10, 10) 40 ++ repeat (0, 1) 10) 34 = Panic.
Proof. exact beyond_horizon_panics. Qed.
Print Assumptions C25_beyond_horizon_panics.

(* ---- non-vacuity ------------------------------------------------------------------- *)

Example C25_ex_schedule :
  mint_batch_size 1707 = Ok 8987671232 /\ mint_batch_size 36500 = Ok 363854 /\
  mint_batch_size horizon = Ok 2858 /\ mint_batch_size 81029 = Ok 1 /\
  mint_batch_size 104025 = Panic /\ mint_multi 1706 1709 = Ok (3 * 8987671232) /\
  mint_multi 81029 81030 = Panic /\ pool_size 1707 = Ok 30585045205696.
Proof. vm_compute. repeat split. Qed.

(* a mint of batch 1707 for 9 nodes with works around the breakpoints a/7, a, 7a *)
Definition ex_works : list (Z * Z) :=
  [(0,100);(0,99);(0,101);(0,4900);(0,4899);(0,699);(0,701);(0,700);(0,700)].
Example C25_ex_works_ok : works_ok ex_works.
Proof. repeat constructor; discriminate. Qed.
Example C25_ex_build :
  build_mint 1706 8987671232 1707 false false true ex_works (consensus_threshold 9) =
  Ok [106581122; 106581122; 106581122; 1161599318; 1161489139; 462089875;
      463412020; 462750947; 462750947; 3595068492; 898767128] /\
  zsum [106581122; 106581122; 106581122; 1161599318; 1161489139; 462089875;
        463412020; 462750947; 462750947; 3595068492; 898767128] = 8987671232.
Proof. vm_compute. split; reflexivity. Qed.
