(* C18 - round hashes are a deterministic function of the round's snapshot set.
   Property theorems only, each closed by a lemma of Proofs/RoundHash.v about the
   executable model Model/RoundHash.v (two separate transcriptions: the live
   node's common.ComputeRoundHash and the startup validator's
   storage.computeRoundHash), which harness/cmd/c18 runs against both Go functions.
   [H] is Blake3 as an abstract function of the fields fed to it; [sort] is ANY
   procedure returning a sorted permutation w.r.t. the (timestamp, hash)
   comparator - which is all sort.Slice promises. *)
From Coq Require Import List ZArith NArith Bool Permutation Sorted.
Require Import Mixin.Base.Res Mixin.Model.RoundHash Mixin.Proofs.RoundHash.
Import ListNotations.
Open Scope N_scope.

(* The order the snapshots are supplied in does not matter (start, end, hash and
   even the panic outcome are equal). *)
Theorem C18_perm_invariant : forall (H : hin -> N) sort, sort_spec snap_lt sort ->
  forall node number l l', Permutation l l' ->
  round_hash_common H sort node number l = round_hash_common H sort node number l'.
Proof. exact common_perm_invariant. Qed.
Print Assumptions C18_perm_invariant.

Theorem C18_perm_invariant_storage : forall (H : hin -> N) sort_t, sort_spec tsnap_lt sort_t ->
  forall node number l l', Permutation l l' ->
  round_hash_storage H sort_t node number l = round_hash_storage H sort_t node number l'.
Proof.
  intros H sort_t HT node number l l' HP.
  rewrite !(two_impls_agree H isort_snap sort_t isort_snap_spec HT).
  apply common_perm_invariant; [exact isort_snap_spec | apply Permutation_map; exact HP].
Qed.
Print Assumptions C18_perm_invariant_storage.

(* The startup validator and the live node compute identical start, end and
   hash (and panic on exactly the same sets), whatever conforming sorting
   procedures the two use. *)
Theorem C18_two_impls_agree : forall (H : hin -> N) sort sort_t,
  sort_spec snap_lt sort -> sort_spec tsnap_lt sort_t ->
  forall node number lt,
  round_hash_storage H sort_t node number lt = round_hash_common H sort node number (map t_snap lt).
Proof. exact two_impls_agree. Qed.
Print Assumptions C18_two_impls_agree.

(* The result depends only on the node, the round number and the (multi)set of
   (timestamp, hash) pairs: not on versions, transactions or any other field, and
   not on the sorting procedure. *)
Theorem C18_depends_only_on : forall (H : hin -> N) sort sort',
  sort_spec snap_lt sort -> sort_spec snap_lt sort' ->
  forall node number l l', Permutation (map skey l) (map skey l') ->
  round_hash_common H sort node number l = round_hash_common H sort' node number l'.
Proof. exact common_depends_only_on_keys. Qed.
Print Assumptions C18_depends_only_on.

(* ... and for rounds without a repeated (timestamp, hash) - every live round, by
   C19 - on the SET of pairs. *)
Theorem C18_depends_only_on_set : forall (H : hin -> N) sort sort',
  sort_spec snap_lt sort -> sort_spec snap_lt sort' ->
  forall node number l l',
  NoDup (map skey l) -> NoDup (map skey l') ->
  (forall k, In k (map skey l) <-> In k (map skey l')) ->
  round_hash_common H sort node number l = round_hash_common H sort' node number l'.
Proof. exact common_depends_only_on_set. Qed.
Print Assumptions C18_depends_only_on_set.

(* What the function is: the chained hash over the uniquely sorted key list,
   seeded by (node, number); start = first, end = last timestamp. *)
Theorem C18_is_chained_hash_of_sorted_set : forall (H : hin -> N) sort, sort_spec snap_lt sort ->
  forall node number l,
  round_hash_common H sort node number l = round_hash_spec H node number (map skey (sort l)).
Proof. exact common_spec. Qed.
Print Assumptions C18_is_chained_hash_of_sorted_set.

(* Non-vacuity: a conforming sort exists (the one the model is run with), and the
   statements are exercised on concrete data with a hash that separates inputs. *)
Example C18_ex_sort_exists : sort_spec snap_lt isort_snap /\ sort_spec tsnap_lt isort_tsnap.
Proof. split; [exact isort_snap_spec | exact isort_tsnap_spec]. Qed.

Definition ex_H (x : hin) : N :=
  match x with HSeed n k => 1000 * n + k | HLink p h => 7 * p + h + 1 end.
Definition ex_a := mk_snap 5 100 2 3 [].
Definition ex_b := mk_snap 4 100 1 3 [11].
Definition ex_c := mk_snap 9 99 2 3 [].
Example C18_ex_values :
  round_hash_common ex_H isort_snap 1 3 [ex_a; ex_b; ex_c] = round_hash_common ex_H isort_snap 1 3 [ex_c; ex_b; ex_a]
  /\ round_hash_common ex_H isort_snap 1 3 [ex_a; ex_b; ex_c] = Ok (99, 100, 344560)
  /\ round_hash_storage ex_H isort_tsnap 1 3 [mk_tsnap ex_b 8; mk_tsnap ex_c 2; mk_tsnap ex_a 1] = Ok (99, 100, 344560)
  /\ round_hash_common ex_H isort_snap 1 3 [ex_a; ex_c] <> round_hash_common ex_H isort_snap 1 3 [ex_a; ex_b; ex_c]
  /\ round_hash_common ex_H isort_snap 1 3 [] = Panic
  /\ round_hash_common ex_H isort_snap 1 3 [ex_a; mk_snap 1 (100 + round_gap) 2 3 []] = Panic.
Proof. vm_compute. repeat split; discriminate. Qed.
