(* C22 - restart after a crash at any write boundary yields a consistent ledger.

   Model/Crash.v: workloads are lists of atomic durable calls ([wf_calls]) or lists of kernel
   procedures ([run_procs]: admission [LockGhostKeys; Lock*; WriteTransaction], round
   transition, finalization of an ordinary or consensus-class snapshot, node acceptance
   [StartNewRound 0; WriteSnapshot; StartNewRound 1; marker]); a crash keeps the first k calls.
   [in_accept_window]: some chain's head round is 0, i.e. the cut lies between the two
   StartNewRound calls of a node acceptance. *)
From Coq Require Import List ZArith NArith Bool.
Require Import Mixin.Base.Res Mixin.Model.Crash Mixin.Proofs.Crash.
Import ListNotations.
Open Scope N_scope.

(* Every workload, every cut not inside a node-accept sequence: the validator counts no invalid
   entry over the whole graph, restart succeeds, every finalized transaction has its body, its
   outputs and a finalization record naming a snapshot of the topology that contains it, and no
   snapshot occupies two topology positions. *)
Theorem C22_prefix_safe : forall n l k, wf_calls (genesis n) l = true ->
  let st := crash_state n l k in
  in_accept_window st = false ->
  validate st = Ok 0 /\ (exists m, recover st = Ok m) /\ finalized_complete st = true /\
  NoDup (map s_id (topo st)).
Proof. exact c22_prefix_safe. Qed.
Print Assumptions C22_prefix_safe.

(* The same for workloads given as lists of kernel procedures (a procedure whose guard fails
   issues no call). *)
Theorem C22_procedures_safe : forall n ps k,
  let st := crash_state n (run_procs (genesis n) ps) k in
  in_accept_window st = false ->
  validate st = Ok 0 /\ (exists m, recover st = Ok m) /\ finalized_complete st = true /\
  NoDup (map s_id (topo st)).
Proof. exact c22_procs_safe. Qed.
Print Assumptions C22_procedures_safe.

(* First finalization wins: whatever is written later (also a snapshot of another chain that contains
   the same transaction), a transaction's finalization record keeps naming the snapshot that first
   finalized it, and a snapshot all of whose members are already finalized changes neither the
   finalization records nor the stored outputs. *)
Theorem C22_first_finalization_kept : forall l st t f,
  lookup t (fins st) = Some f -> lookup t (fins (exec st l)) = Some f.
Proof. exact fins_kept. Qed.
Print Assumptions C22_first_finalization_kept.

Theorem C22_second_inclusion_changes_nothing : forall st s ch r txs,
  (forall t, In t txs -> lookup t (fins st) <> None) ->
  fins (exec_call st (CWriteSnap s ch r txs false 0)) = fins st /\
  outs (exec_call st (CWriteSnap s ch r txs false 0)) = outs st.
Proof. exact second_inclusion_no_change. Qed.
Print Assumptions C22_second_inclusion_changes_nothing.

(* The window is opened by StartNewRound(_, 0) only - the first call of node acceptance. *)
Theorem C22_window_opened_only_by_accept : forall st c,
  in_accept_window st = false -> (forall ch, c <> CStartRound ch 0) ->
  in_accept_window (exec_call st c) = false.
Proof. exact window_opened_only_by_round_zero. Qed.
Print Assumptions C22_window_opened_only_by_accept.

(* F7: the accept sequence observed on the real node (corpus workload "corpus-F7") cut after
   its first StartNewRound: restart panics (loadState computes round 0 - 1). *)
Definition f7_workload : list call :=
  [CCache 8; CLockGhost 8; CLockIn 8; CWriteTx 8; CWriteSnap 8 3 1 [8] false 0;
   CCache 9; CLockGhost 9; CNodeOp 9; CLockIn 9; CWriteTx 9; CWriteSnap 9 3 1 [9] true 7; CMarker 9;
   CCache 10; CLockGhost 10; CLockIn 10; CWriteTx 10;
   CStartRound 7 0; CWriteSnap 10 7 0 [10] true 9; CStartRound 7 1; CMarker 10].

Theorem C22_accept_window_refuted :
  exists l k, wf_calls (genesis 7) l = true /\
    in_accept_window (crash_state 7 l k) = true /\ recover (crash_state 7 l k) = Panic.
Proof. exists f7_workload, 17%nat. vm_compute. repeat split; reflexivity. Qed.
Print Assumptions C22_accept_window_refuted.

(* and so does every cut of every workload that lies inside the window *)
Theorem C22_accept_window_always_panics : forall n l k, wf_calls (genesis n) l = true ->
  let st := crash_state n l k in in_accept_window st = true -> recover st = Panic.
Proof. exact c22_window_panics. Qed.
Print Assumptions C22_accept_window_always_panics.

(* Non-vacuity: a procedure workload with admission, finalization, a round transition, a
   consensus snapshot and a node acceptance issues 21 calls; cuts outside the window satisfy the
   hypothesis (also the one after the second StartNewRound), cuts 18 and 19 are inside. *)
Example C22_hypotheses_satisfiable :
  let ps := [PAdmit 8; PFinal 8 1 [8]; PRound 1; PAdmit 9; PFinal 9 1 [9]; PAdmit 10; PCons 10 3 10;
             PAdmit 11; PAccept 11 7 11] in
  let l := run_procs (genesis 7) ps in
  length l = 21%nat /\
  forallb (fun k => negb (in_accept_window (crash_state 7 l k))) (seq 0 18 ++ [20; 21]%nat) = true /\
  in_accept_window (crash_state 7 l 18) = true /\ in_accept_window (crash_state 7 l 19) = true /\
  recover (crash_state 7 l 21) = Ok 11 /\ recover (crash_state 7 l 20) = Ok 11 /\
  wf_calls (genesis 7) f7_workload = true.
Proof. vm_compute. repeat split; reflexivity. Qed.
