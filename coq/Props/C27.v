(* C27 - membership follows the pledge/accept/cancel/remove lifecycle.
   Property theorems only; each is closed by [exact] of a lemma of
   Proofs/NodeState.v about the executable model Model/NodeState.v, which the
   correspondence harness (harness/cmd/c27) runs against storage/badger_node.go
   on a real Badger store.

   Vocabulary (Proofs/NodeState.v): [run ops] is the durable history after the
   operation sequence [ops] (a refused or panicking operation leaves it as it
   was); [genesis_ok t0 gs]: the genesis nodes (accepts with the genesis flag,
   distinct signer keys, timestamps in 1..t0); [increasing_from t0 ops]: every
   later operation carries a timestamp above all earlier ones, the precondition
   that C28 establishes for consensus operations; [current h s]: the last
   record of signer key s; [guard h o]: the lifecycle allows o on h;
   [node_ok h s]: the records of s are one node (one of the state sequences
   P, PA, PC, PAR, A, AR with one payee). *)
From Coq Require Import List ZArith NArith Bool.
Require Import Mixin.Base.Res Mixin.Model.NodeState Mixin.Proofs.NodeState.
Import ListNotations.
Open Scope N_scope.

(* In every reachable history, whatever operation comes next: it is recorded
   (appended as the newest record) exactly when the lifecycle allows it -
   a pledge only while no node is pledging and for a signer key that has no
   record; accept / cancel only for the node that is currently pledging, with
   its signer and payee; remove only for a currently accepted node with its
   signer and payee - and the only panic is accept/cancel/remove on the empty
   history.  At most one node is pledging, every signer key is one node. *)
Theorem C27_lifecycle : forall t0 gs pre o post,
  genesis_ok t0 gs -> increasing_from t0 (pre ++ o :: post) ->
  let h := run (gs ++ pre) in
  (forall s, node_ok h s) /\
  (forall s1 s2, is_pledging h s1 -> is_pledging h s2 -> s1 = s2) /\
  match apply h o with
  | Ok h' => h' = h ++ [rec_of o] /\ guard h o
  | Err => ~ guard h o
  | Panic => h = [] /\ o_kind o <> OPledge
  end.
Proof. exact lifecycle_thm. Qed.
Print Assumptions C27_lifecycle.

(* Signer keys never repeat across nodes: the records of one signer key form a
   single node, and two pledge records never carry the same signer key. *)
Theorem C27_signer_keys_unique : forall t0 gs ops,
  genesis_ok t0 gs -> increasing_from t0 ops ->
  let h := run (gs ++ ops) in
  (forall s, node_ok h s) /\
  (forall r1 r2, In r1 h -> In r2 h -> n_state r1 = Pledging -> n_state r2 = Pledging ->
                 n_signer r1 = n_signer r2 -> r1 = r2).
Proof. exact signers_unique_thm. Qed.
Print Assumptions C27_signer_keys_unique.

(* ReadAllNodes (any threshold not below the last timestamp): with states it is
   the whole history; without, exactly one entry per signer key, its latest record. *)
Theorem C27_latest_state_reported : forall t0 gs ops th,
  genesis_ok t0 gs -> increasing_from t0 ops ->
  let h := run (gs ++ ops) in
  last_ts t0 ops <= th -> th < two64 ->
  read_all_nodes h th true = Ok h /\
  exists l, read_all_nodes h th false = Ok l /\
            (forall r, In r l <-> current h (n_signer r) = Some r) /\
            NoDup (map n_signer l).
Proof. exact reported_thm. Qed.
Print Assumptions C27_latest_state_reported.

(* The timestamp precondition is needed (it is not a finding: a node operation
   is only finalized as a consensus snapshot, and those are refused unless their
   timestamp is above the previous one's - C28; the harness checks the storage
   side of that guard on real code).  Without it: a pledge stamped 100, then
   its accept stamped 50 and once more stamped 60 are all recorded, the history
   of signer 3 reads Accepted, Accepted, Pledging and the node is reported as
   pledging. *)
Definition c27_g : list op := [mk_op OAccept 1 2 7 10 true].
Definition c27_bad : list op :=
  [mk_op OPledge 3 4 8 100 false; mk_op OAccept 3 4 9 50 false; mk_op OAccept 3 4 11 60 false].

Theorem C27_needs_order :
  genesis_ok 10 c27_g /\ Forall (fun o => o_genesis o = false /\ 10 < o_ts o) c27_bad /\
  ~ increasing_from 10 c27_bad /\
  map n_state (recs_of 3 (run (c27_g ++ c27_bad))) = [Accepted; Accepted; Pledging] /\
  ~ node_ok (run (c27_g ++ c27_bad)) 3 /\
  option_map n_state (current (run (c27_g ++ c27_bad)) 3) = Some Pledging.
Proof.
  split.
  { split; [repeat constructor; vm_compute; congruence|]. cbn. constructor; [intros []|constructor]. }
  split; [repeat constructor|].
  split; [cbn; intros [_ [_ [_ [_ [H _]]]]]; vm_compute in H; discriminate|].
  assert (E : recs_of 3 (run (c27_g ++ c27_bad)) =
              [mk_nrec 3 4 Accepted 9 50; mk_nrec 3 4 Accepted 11 60; mk_nrec 3 4 Pledging 8 100])
    by (vm_compute; reflexivity).
  split; [rewrite E; reflexivity|].
  split; [|vm_compute; reflexivity].
  unfold node_ok. rewrite E. intros [H|[H _]]; [discriminate|]. cbn in H. inversion H.
Qed.
Print Assumptions C27_needs_order.

(* Non-vacuity: a schedule that satisfies the hypotheses and walks both
   lifecycles; the invalid operations in it are refused. *)
Definition c27_gs : list op := [mk_op OAccept 1 2 70 5 true; mk_op OAccept 9 8 71 5 true].
Definition c27_ops : list op :=
  [ mk_op OPledge 3 4 72 6 false;    (* recorded *)
    mk_op OPledge 5 6 73 7 false;    (* refused: 3 is pledging *)
    mk_op ORemove 1 2 74 8 false;    (* refused: 3 is pledging *)
    mk_op OAccept 3 9 75 9 false;    (* refused: wrong payee *)
    mk_op OAccept 3 4 76 10 false;   (* recorded *)
    mk_op ORemove 1 2 77 11 false;   (* recorded *)
    mk_op OPledge 1 2 78 12 false;   (* refused: signer key 1 was a node *)
    mk_op OPledge 5 6 79 13 false;   (* recorded *)
    mk_op OCancel 5 6 80 14 false;   (* recorded *)
    mk_op ORemove 3 4 81 15 false ]. (* recorded *)

Example C27_ex_schedule : genesis_ok 5 c27_gs /\ increasing_from 5 c27_ops.
Proof.
  split.
  - split; [repeat constructor; vm_compute; congruence|].
    cbn. constructor; [intros [H|[]]; discriminate|constructor; [intros []|constructor]].
  - cbn. repeat split; vm_compute; reflexivity.
Qed.

Example C27_ex_run :
  map (fun r => (n_signer r, n_state r, n_ts r)) (run (c27_gs ++ c27_ops)) =
  [(1, Accepted, 5); (9, Accepted, 5); (3, Pledging, 6); (3, Accepted, 10); (1, Removed, 11);
   (5, Pledging, 13); (5, Cancelled, 14); (3, Removed, 15)] /\
  rmap (map (fun r => (n_signer r, n_state r))) (read_all_nodes (run (c27_gs ++ c27_ops)) 15 false) =
  Ok [(9, Accepted); (1, Removed); (5, Cancelled); (3, Removed)] /\
  apply [] (mk_op OAccept 3 4 76 10 false) = Panic.
Proof. vm_compute. repeat split. Qed.

(* ------------------------------------------------------------------------------
   C27 over the consensus chain of C28: the timestamp precondition discharged.

   [chain l] (Model/KernelSnap.v) is what C28 proves of the recorded consensus
   history: one transaction per record, each record linked to the next,
   timestamps strictly increasing (C28_single_chain: every store reached by
   writeConsensusSnapshot calls is a chain).  [project body l] (Proofs/
   LifecycleChainLink.v) is the list of node operations finalization applies to
   the membership history: the records of l whose transaction is a node
   pledge/accept/cancel/remove ([body t = Some (kind, signer, payee)], the
   TRANSACTION body of the recorded hash), in chain order, with the record's
   transaction hash and snapshot timestamp.  g is the record of the genesis
   consensus snapshot, gs the genesis nodes (timestamps up to g's).  What is
   left of the timestamp hypothesis is only the range: a uint64 timestamp 12 h
   below 2^64 ([in_range]). *)
Require Import Mixin.Model.KernelSnap Mixin.Proofs.LifecycleChainLink.
Open Scope N_scope.

Theorem C27_chain_projection_increasing : forall body g rest,
  chain (g :: rest) -> (0 <= cr_ts g)%Z -> Forall in_range rest ->
  increasing_from (Z.to_N (cr_ts g)) (project body rest).
Proof. exact chain_projection_increasing. Qed.
Print Assumptions C27_chain_projection_increasing.

Theorem C27_lifecycle_over_consensus_chain : forall body gs g rest pre o post,
  chain (g :: rest) -> (0 <= cr_ts g)%Z -> Forall in_range rest ->
  genesis_ok (Z.to_N (cr_ts g)) gs ->
  project body rest = pre ++ o :: post ->
  let h := run (gs ++ pre) in
  (forall s, node_ok h s) /\
  (forall s1 s2, is_pledging h s1 -> is_pledging h s2 -> s1 = s2) /\
  match NodeState.apply h o with
  | Ok h' => h' = h ++ [rec_of o] /\ guard h o
  | Err => ~ guard h o
  | Panic => h = [] /\ o_kind o <> OPledge
  end.
Proof. exact lifecycle_over_chain. Qed.
Print Assumptions C27_lifecycle_over_consensus_chain.

(* The same stated on C28's write histories: whatever sequence of
   writeConsensusSnapshot calls follows the genesis record g, the store is a
   chain that still starts at g's timestamp (C28_single_chain), and the
   membership history built from its node operations obeys the lifecycle. *)
Theorem C27_lifecycle_over_consensus_writes : forall body gs g cops,
  chain [g] -> Forall (fun c => co_genesis c = false) cops ->
  exists g' rest,
    fold_left apply_cop cops [g] = g' :: rest /\ cr_ts g' = cr_ts g /\ chain (g' :: rest) /\
    ((0 <= cr_ts g)%Z -> Forall in_range rest -> genesis_ok (Z.to_N (cr_ts g)) gs ->
     forall pre o post, project body rest = pre ++ o :: post ->
       let h := run (gs ++ pre) in
       (forall s, node_ok h s) /\
       (forall s1 s2, is_pledging h s1 -> is_pledging h s2 -> s1 = s2) /\
       match NodeState.apply h o with
       | Ok h' => h' = h ++ [rec_of o] /\ guard h o
       | Err => ~ guard h o
       | Panic => h = [] /\ o_kind o <> OPledge
       end).
Proof. exact lifecycle_over_consensus_writes. Qed.
Print Assumptions C27_lifecycle_over_consensus_writes.

Theorem C27_reported_over_consensus_chain : forall body gs g rest th,
  chain (g :: rest) -> (0 <= cr_ts g)%Z -> Forall in_range rest ->
  genesis_ok (Z.to_N (cr_ts g)) gs ->
  let ops := project body rest in
  let h := run (gs ++ ops) in
  last_ts (Z.to_N (cr_ts g)) ops <= th -> th < NodeState.two64 ->
  read_all_nodes h th true = Ok h /\
  exists l, read_all_nodes h th false = Ok l /\
            (forall r, In r l <-> current h (n_signer r) = Some r) /\
            NoDup (map n_signer l).
Proof. exact reported_over_chain. Qed.
Print Assumptions C27_reported_over_consensus_chain.

(* Non-vacuity: a consensus chain (genesis record, a pledge, a mint, the accept)
   built by the model's own writeConsensusSnapshot; its projection and the
   membership history it yields. *)
Definition c27_body : body_t := fun t =>
  match t with 72 => Some (OPledge, 3, 4) | 76 => Some (OAccept, 3, 4) | _ => None end.
Definition c27_grec : crec :=
  {| cr_ts := 5; cr_snap := 500; cr_txs := [71]; cr_ref := None; cr_next := None |}.
Definition c27_cop (ts : Z) (snap tx ref : N) (mint : bool) (out0 : Z) : cop :=
  {| co_ts := ts; co_snap := snap; co_txs := [tx]; co_tx := tx; co_refs := [ref];
     co_mint := mint; co_out0 := Some out0; co_genesis := false |}.
Definition c27_cops : list cop :=
  [ c27_cop 6 501 72 71 false ONodePledge;
    c27_cop 6 502 99 72 false ONodeAccept;    (* refused: not later than the last record *)
    c27_cop 8 503 90 72 true OScript;         (* a mint *)
    c27_cop 10 504 76 90 false ONodeAccept ].

Example C27_ex_chain :
  chain [c27_grec] /\ Forall (fun c => co_genesis c = false) c27_cops /\
  exists g' rest,
    fold_left apply_cop c27_cops [c27_grec] = g' :: rest /\ chain (g' :: rest) /\
    Forall in_range rest /\ genesis_ok (Z.to_N (cr_ts g')) c27_gs /\
    map cr_ts (g' :: rest) = [5; 6; 8; 10]%Z /\
    project c27_body rest = [mk_op OPledge 3 4 72 6 false; mk_op OAccept 3 4 76 10 false] /\
    map (fun r => (n_signer r, n_state r, n_ts r)) (run (c27_gs ++ project c27_body rest)) =
      [(1, Accepted, 5); (9, Accepted, 5); (3, Pledging, 6); (3, Accepted, 10)].
Proof.
  split; [apply (chain_one _ 71); reflexivity|]. split; [repeat constructor|].
  eexists. eexists. split; [vm_compute; reflexivity|].
  split; [apply Mixin.Proofs.KernelSnap.chainb_sound; vm_compute; reflexivity|].
  split; [repeat constructor; vm_compute; reflexivity|].
  split; [exact (proj1 C27_ex_schedule)|].
  vm_compute. repeat split.
Qed.
