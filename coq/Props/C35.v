(* C35 - the local topology order is a strictly increasing unique cursor.
   Property theorems only; each is closed by [exact] of a lemma of
   Proofs/Topology.v about the executable model Model/Topology.v, which the
   correspondence harness (harness/cmd/c35) runs against
   storage/badger_topology.go, WriteSnapshot and kernel TopoWrite on a real
   Badger store.

   Vocabulary: [wrun ws] is the store after the write history [ws] (pairs
   (position, snapshot hash) handed to WriteSnapshot; a panicking write leaves
   the store as it was), so the theorems hold after every history of writes and
   for every listing / lookup made at that point (reads do not change the
   store).  [positions s] / [hashes s]: the stored index in key order.
   [debug = true]: config.Debug, under which WriteSnapshot refuses a snapshot
   that is already stored (regenerated from the repository on every run). *)
From Coq Require Import List ZArith NArith Bool Permutation Sorted.
Require Import Mixin.Base.Res Mixin.Model.Topology Mixin.Proofs.Topology.
Import ListNotations.
Open Scope N_scope.

(* Each stored snapshot has one position and each position one snapshot; a
   write to a taken position is a panic (in every store, reachable or not). *)
Theorem C35_unique : forall ws,
  let s := wrun ws in
  StronglySorted N.lt (positions s) /\ NoDup (positions s) /\ (debug = true -> NoDup (hashes s)).
Proof. exact unique_thm. Qed.
Print Assumptions C35_unique.

Theorem C35_reuse_panics : forall s pos hash,
  In pos (positions s) -> write_snapshot s pos hash = Panic.
Proof. exact write_reuse_panics. Qed.
Print Assumptions C35_reuse_panics.

(* Positions assigned by the node (a counter started from the last stored
   snapshot, any sequence of TopoWrite calls, as long as the uint64 counter
   does not wrap): strictly increasing, each above every position that was
   stored before, each stored; nothing stored before is lost. *)
Theorem C35_unique_increasing : forall ws hs n,
  topo_init (wrun ws) = Ok n -> tn_seq n + N.of_nat (length hs) < two64 ->
  let '(n', rs) := topo_run n hs in
  StronglySorted N.lt (assigned rs) /\
  Forall (fun p => (forall q, In q (positions (wrun ws)) -> q < p) /\ In p (positions (tn_store n'))) (assigned rs) /\
  (forall q, In q (positions (wrun ws)) -> In q (positions (tn_store n'))).
Proof. exact counter_from_store_thm. Qed.
Print Assumptions C35_unique_increasing.

(* One TopoWrite: the position is counter+1, it was free, the index gains
   exactly that entry; the only refusal is a snapshot that is already stored. *)
Theorem C35_topo_write : forall n hash,
  CInv n -> tn_seq n + 1 < two64 ->
  let '(n', r) := topo_write n hash in
  CInv n' /\ tn_seq n' = tn_seq n + 1 /\
  match r with
  | Ok p => p = tn_seq n + 1 /\ ~ In p (positions (tn_store n)) /\
            Permutation ((p, hash) :: t_index (tn_store n)) (t_index (tn_store n'))
  | Err => False
  | Panic => debug = true /\ In hash (hashes (tn_store n)) /\ tn_store n' = tn_store n
  end.
Proof. exact topo_write_thm. Qed.
Print Assumptions C35_topo_write.

(* Listing from a cursor: refused above 500; otherwise the result l is a
   contiguous run of the stored index (index = pre ++ l ++ post) that starts at
   the first position >= cursor (everything before is below the cursor,
   everything from l on is not), in strictly increasing position order, each
   entry being the stored (position, payload hash) pair, of at most count
   entries and of exactly count entries unless the index ends. *)
Theorem C35_listing : forall ws off cnt,
  let s := wrun ws in
  (list_limit < cnt -> list_since s off cnt = Err) /\
  (cnt <= list_limit ->
   exists l pre post,
     list_since s off cnt = Ok l /\
     t_index s = pre ++ l ++ post /\
     Forall (fun e => fst e < off) pre /\
     Forall (fun e => off <= fst e) (l ++ post) /\
     StronglySorted N.lt (map fst l) /\
     N.of_nat (length l) <= cnt /\
     (post <> [] -> N.of_nat (length l) = cnt)).
Proof. intros ws off cnt. exact (listing_thm (wrun ws) off cnt (wrun_inv ws)). Qed.
Print Assumptions C35_listing.

(* Lookup by hash agrees with the listing: it never fails, finds exactly the
   stored snapshots, returns the position the index holds for that hash, and
   the listing from that cursor starts with this very snapshot. *)
Theorem C35_lookup_agrees : forall ws,
  debug = true ->
  let s := wrun ws in
  (forall h, lookup s h <> Err) /\
  (forall h p g, lookup s h = Ok (Some (p, g)) ->
     g = h /\ In (p, h) (t_index s) /\ list_since s p 1 = Ok [(p, h)]) /\
  (forall h p, In (p, h) (t_index s) -> lookup s h = Ok (Some (p, h))) /\
  (forall h, ~ In h (hashes s) -> lookup s h = Ok None).
Proof. intros ws Hd. exact (lookup_thm (wrun ws) (wrun_inv ws) Hd). Qed.
Print Assumptions C35_lookup_agrees.

(* Non-vacuity. *)
Example C35_ex_debug : debug = true.
Proof. reflexivity. Qed.

Definition c35_ws : list (N * N) := [(0, 100); (1, 101); (5, 102); (1, 103); (3, 104); (7, 101); (6, 105)].

Example C35_ex_store :
  t_index (wrun c35_ws) = [(0, 100); (1, 101); (3, 104); (5, 102); (6, 105)] /\
  list_since (wrun c35_ws) 2 2 = Ok [(3, 104); (5, 102)] /\
  list_since (wrun c35_ws) 0 501 = Err /\
  list_since (wrun c35_ws) 7 500 = Ok [] /\
  lookup (wrun c35_ws) 102 = Ok (Some (5, 102)) /\
  lookup (wrun c35_ws) 103 = Ok None /\
  write_snapshot (wrun c35_ws) 5 999 = Panic /\
  write_snapshot (wrun c35_ws) 9 101 = Panic.
Proof. vm_compute. repeat split. Qed.

Example C35_ex_counter :
  exists n, topo_init (wrun c35_ws) = Ok n /\ tn_seq n = 6 /\
            snd (topo_run n [200; 201; 101; 202]) = [Ok 7; Ok 8; Panic; Ok 10] /\
            topo_init t_empty = Panic.
Proof. eexists. vm_compute. repeat split. Qed.
