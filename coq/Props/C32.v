(* C32 - one-time keys and addresses round-trip correctly.
   Property theorems only, over the executable models GhostKey (crypto/key.go,
   prime-order group in discrete-log representation, any modulus l > 0, any
   HashScalar), Base58 (util/base58), Address (common/address.go, any SHA3 / any
   CheckKey) and HexText (text and JSON forms of key, hash, signature,
   collective signature), which harness/cmd/c32 runs against the real code. *)
From Coq Require Import List ZArith NArith Bool.
Require Import Mixin.Base.Res Mixin.Gen.Consts Mixin.Model.GhostKey Mixin.Model.Base58
  Mixin.Model.Address Mixin.Model.HexText
  Mixin.Proofs.GhostKey Mixin.Proofs.Base58 Mixin.Proofs.Address Mixin.Proofs.HexText.
Import ListNotations.

(* ---- one-time keys ---------------------------------------------------------------- *)

(* The public key of the private key the recipient derives (from the mask
   R = r·G and its private keys a, b) is the one-time public key the sender
   derives (from r and the address A = a·G, B = b·G), for every output index. *)
Theorem C32_ghost : forall (l : Z) (hs : Z -> Z -> Z), (0 < l)%Z -> forall r a b i,
  pub l (derive_private l hs (pub l r) a b i) = derive_public l hs r (pub l a) (pub l b) i.
Proof. exact ghost_match. Qed.
Print Assumptions C32_ghost.

(* Viewing the one-time key with the private view key recovers the public spend key. *)
Theorem C32_view : forall (l : Z) (hs : Z -> Z -> Z), (0 < l)%Z -> forall r a b i,
  view l hs (derive_public l hs r (pub l a) (pub l b) i) a (pub l r) i = pub l b.
Proof. exact ghost_view. Qed.
Print Assumptions C32_view.

(* ---- base58 -------------------------------------------------------------------------- *)

Theorem C32_base58_decode_encode : forall bs,
  Forall (fun b => (b < 256)%N) bs -> decode (encode bs) = bs.
Proof. exact decode_encode. Qed.
Print Assumptions C32_base58_decode_encode.

Theorem C32_base58_encode_decode : forall s, over_alphabet s -> encode (decode s) = s.
Proof. exact encode_decode. Qed.
Print Assumptions C32_base58_encode_decode.

(* a text with a character outside the alphabet decodes to the empty string *)
Theorem C32_base58_invalid : forall s, ~ over_alphabet s -> decode s = [].
Proof. exact decode_invalid. Qed.
Print Assumptions C32_base58_invalid.

(* Go's Decode ranges over runes and refuses every rune >= 128 and invalid UTF-8;
   on the UTF-8 bytes of the text that is: a byte >= 128 anywhere => empty result. *)
Theorem C32_base58_non_ascii : forall s, Exists (fun c => (128 <= c)%N) s -> decode s = [].
Proof. exact decode_non_ascii. Qed.
Print Assumptions C32_base58_non_ascii.

(* ---- addresses ------------------------------------------------------------------------ *)

(* Any accepted address text prints back identically. *)
Theorem C32_address_canonical : forall (H : list N -> list N) (check_key : list N -> bool) s a,
  of_string H check_key s = Ok a -> to_string H a = s.
Proof. exact address_canonical. Qed.
Print Assumptions C32_address_canonical.

(* An accepted address text is the prefix followed by alphabet characters: pure ASCII. *)
Theorem C32_address_accepted_ascii : forall (H : list N -> list N) (check_key : list N -> bool) s a,
  of_string H check_key s = Ok a ->
  exists body, s = prefix ++ body /\ over_alphabet body /\ Forall (fun c => (c < 128)%N) s.
Proof. exact address_accepted_ascii. Qed.
Print Assumptions C32_address_accepted_ascii.

(* A printed address of two valid keys parses back to the same keys. *)
Theorem C32_address_roundtrip : forall (H : list N -> list N) (check_key : list N -> bool),
  (forall x, length (H x) = 32%nat) -> (forall x, Forall (fun b => (b < 256)%N) (H x)) ->
  forall sp vw,
  length sp = 32%nat -> length vw = 32%nat ->
  Forall (fun b => (b < 256)%N) sp -> Forall (fun b => (b < 256)%N) vw ->
  check_key sp = true -> check_key vw = true ->
  of_string H check_key (to_string H (sp, vw)) = Ok (sp, vw).
Proof. exact address_roundtrip. Qed.
Print Assumptions C32_address_roundtrip.

(* Two different accepted texts never denote the same address: a mutated
   printed address is refused or is another address. *)
Theorem C32_address_text_injective : forall (H : list N -> list N) (check_key : list N -> bool) s t a,
  of_string H check_key s = Ok a -> of_string H check_key t = Ok a -> s = t.
Proof. exact address_text_injective. Qed.
Print Assumptions C32_address_text_injective.

(* ---- key, hash, signature (32, 32, 64 bytes) -------------------------------------------- *)

Theorem C32_print_parse_fixed : forall size bs, bytes bs -> length bs = size ->
  fixed_of_string size (fixed_to_string bs) = Ok bs.
Proof. exact fixed_print_parse. Qed.
Print Assumptions C32_print_parse_fixed.

(* whatever text is accepted: its value has the right size, prints as the
   lower-cased text, and that print parses back to the value *)
Theorem C32_parse_print_fixed : forall size s v, fixed_of_string size s = Ok v ->
  bytes v /\ length v = size /\ fixed_to_string v = map lower s /\
  fixed_of_string size (fixed_to_string v) = Ok v.
Proof. exact fixed_parse_sound. Qed.
Print Assumptions C32_parse_print_fixed.

Theorem C32_json_fixed : forall size bs, bytes bs -> length bs = size ->
  fixed_of_json size (fixed_to_json bs) = Ok bs.
Proof. exact fixed_json_roundtrip. Qed.
Print Assumptions C32_json_fixed.

Theorem C32_json_fixed_sound : forall size s v, fixed_of_json size s = Ok v ->
  fixed_of_json size (fixed_to_json v) = Ok v /\ fixed_of_string size (fixed_to_string v) = Ok v.
Proof. exact fixed_json_sound. Qed.
Print Assumptions C32_json_fixed_sound.

(* ---- collective signature: 64 signature bytes and a 64-bit mask --------------------------- *)

Theorem C32_cosi_print_parse : forall sg m, bytes sg -> length sg = sig_size -> (m < 2 ^ 64)%N ->
  cosi_of_json (cosi_to_json (sg, m)) = Ok (sg, m).
Proof. exact cosi_json_roundtrip. Qed.
Print Assumptions C32_cosi_print_parse.

Theorem C32_cosi_parse_print : forall s sg m, cosi_of_json s = Ok (sg, m) ->
  bytes sg /\ length sg = sig_size /\ (m < 2 ^ 64)%N /\ cosi_of_json (cosi_to_json (sg, m)) = Ok (sg, m).
Proof. exact cosi_json_sound. Qed.
Print Assumptions C32_cosi_parse_print.

(* "prints back identically" is claimed for addresses only: an upper-case
   hexadecimal key text is accepted and prints back in lower case. *)
Theorem C32_hex_text_canonical_refuted : exists s v,
  fixed_of_string 1 s = Ok v /\ fixed_to_string v <> s.
Proof. exists [65; 66]%N, [171]%N. split; [reflexivity|discriminate]. Qed.
Print Assumptions C32_hex_text_canonical_refuted.

(* ---- non-vacuity ---------------------------------------------------------------------------- *)
Example C32_ex_ghost :
  let hs := fun p i => (p * 7 + i + 3)%Z in
  pub 13 (derive_private 13 hs (pub 13 5) 6 9 4) = 5%Z /\ derive_public 13 hs 5 (pub 13 6) (pub 13 9) 4 = 5%Z
  /\ view 13 hs 5 6 (pub 13 5) 4 = 9%Z /\ derive_public 13 hs 5 (pub 13 6) (pub 13 9) 5 = 6%Z.
Proof. vm_compute. repeat split. Qed.
Example C32_ex_base58 :
  encode [0; 0; 1; 2]%N = [49; 49; 53; 84]%N /\ decode [49; 49; 53; 84]%N = [0; 0; 1; 2]%N
  /\ encode [] = [] /\ decode [49]%N = [0]%N /\ decode [48]%N = [] /\ over_alphabet [49; 49; 53; 84]%N.
Proof.
  repeat split; try (vm_compute; reflexivity).
  unfold over_alphabet. repeat (constructor; [vm_compute; tauto|]). constructor.
Qed.
Example C32_ex_address :
  let H := fun _ : list N => repeat 7%N 32 in
  let ck := fun _ : list N => true in
  let sp := repeat 1%N 32 in let vw := 0%N :: repeat 2%N 31 in
  of_string H ck (to_string H (sp, vw)) = Ok (sp, vw)
  /\ length (to_string H (sp, vw)) = 95%nat
  /\ of_string H ck (to_string H (sp, vw) ++ [49%N]) = Err.
Proof. vm_compute. repeat split. Qed.
Example C32_ex_text :
  fixed_of_string 2 [97; 66; 48; 49]%N = Ok [171; 1]%N /\ fixed_to_string [171; 1]%N = [97; 98; 48; 49]%N
  /\ fixed_of_json 1 [34; 102; 102; 34]%N = Ok [255]%N /\ fixed_of_json 1 [96; 102; 102; 96]%N = Ok [255]%N
  /\ fixed_of_json 1 [39; 102; 102; 39]%N = Err
  /\ cosi_of_json (cosi_to_json (repeat 90%N 64, 10%N)) = Ok (repeat 90%N 64, 10%N).
Proof. vm_compute. repeat split. Qed.
