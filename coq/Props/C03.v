(* C03 - an output, deposit or mint slot is locked by at most one transaction.
   Property theorems only, over the executable state machine Model/Locks.v
   (every storage call is one atomic step; every interleaving of atomic calls is
   a sequence, so induction over op lists covers all schedules).  The harness
   harness/cmd/c03 runs the same op lists on a real Badger store.
   Partial: that a call IS atomic (store mutex + one Badger update) is runtime
   behaviour, checked by the concurrent part of the harness only. *)
From Coq Require Import List ZArith NArith Bool.
Require Import Mixin.Base.Res Mixin.Gen.Consts Mixin.Model.GhostKeys Mixin.Model.Locks
               Mixin.Proofs.GhostKeys Mixin.Proofs.Locks.
Import ListNotations.
Open Scope N_scope.

(* After ANY sequence of calls from any number of callers: every output slot,
   deposit key and mint batch has at most one record, hence at most one holder;
   and every output slot belongs to a finalized transaction. *)
Theorem C03_slot_invariant : forall os, let s := run init os in
  (forall sl h1 h2, In (sl, h1) (s_utxo s) -> In (sl, h2) (s_utxo s) -> h1 = h2) /\
  (forall k h1 h2, In (k, h1) (s_dep s) -> In (k, h2) (s_dep s) -> h1 = h2) /\
  (forall b r1 r2, In (b, r1) (s_mint s) -> In (b, r2) (s_mint s) -> r1 = r2) /\
  (forall sl, utxo_lock s sl <> None -> is_final s (fst sl) = true).
Proof. exact reachable_one_holder. Qed.
Print Assumptions C03_slot_invariant.

(* A call that does not succeed leaves the WHOLE state unchanged (multi-input
   calls are all-or-nothing). *)
Theorem C03_failed_call_changes_nothing : forall s o,
  snd (step s o) <> Ok tt -> fst (step s o) = s.
Proof. exact step_all_or_nothing. Qed.
Print Assumptions C03_failed_call_changes_nothing.

(* Ordinary admission (fork = false) against a slot held by a different
   transaction fails and changes nothing - whichever input of the call it is. *)
Theorem C03_conflict_rejected :
  (forall s ins tx sl l, In sl ins -> utxo_lock s sl = Some l -> l <> 0 -> l <> tx ->
     fst (step s (LockUTXOs ins tx false)) = s /\ snd (step s (LockUTXOs ins tx false)) <> Ok tt) /\
  (forall s d tx l, dep_lock s d = Some l -> l <> tx -> step s (LockDeposit d tx false) = (s, Err)) /\
  (forall s b a tx l a0, mint_lock s b = Some (l, a0) -> (l <> tx \/ a0 <> a) ->
     step s (LockMint b a tx false) = (s, Err)).
Proof. split; [exact step_conflict_utxo|split; [exact step_conflict_deposit|exact step_conflict_mint]]. Qed.
Print Assumptions C03_conflict_rejected.

(* Re-locking by the holder itself is the identity on the state, fork or not. *)
Theorem C03_relock_idempotent :
  (forall s ins tx f,
     (forall sl, In sl ins -> utxo_lock s sl = Some tx /\ snd sl <= max_utxo_index) ->
     step s (LockUTXOs ins tx f) = (s, Ok tt)) /\
  (forall s d tx f, dep_lock s d = Some tx -> step s (LockDeposit d tx f) = (s, Ok tt)) /\
  (forall s b a tx f, mint_lock s b = Some (tx, a) -> step s (LockMint b a tx f) = (s, Ok tt)).
Proof. split; [exact step_relock_utxo|split; [exact step_relock_deposit|exact step_relock_mint]]. Qed.
Print Assumptions C03_relock_idempotent.

(* One successful call from a reachable state, seen from any transaction h:
   either h still holds every slot it held, or the call was a fork call, h has
   no finalization record, and the body of h is gone in the resulting state
   (the same atomic step). *)
Theorem C03_takeover_removes_body : forall os o s' h, h <> 0 ->
  step (run init os) o = (s', Ok tt) ->
  holds (run init os) h s' \/
  (op_fork o = true /\ is_final (run init os) h = false /\ has_body s' h = false).
Proof.
  intros os o s' h Hh H. exact (step_takeover (run init os) o s' h (wf_run os init wf_init) Hh H).
Qed.
Print Assumptions C03_takeover_removes_body.

(* Once a transaction has a finalization record, no later sequence of calls
   (fork or not, from anybody) takes any of its slots or its record away. *)
Theorem C03_finalized_holder_never_displaced : forall os1 os2 h, h <> 0 ->
  is_final (run init os1) h = true ->
  is_final (run init (os1 ++ os2)) h = true /\ holds (run init os1) h (run init (os1 ++ os2)).
Proof.
  intros os1 os2 h Hh Hf. rewrite run_app.
  exact (run_final_keeps os2 (run init os1) h (wf_run os1 init wf_init) Hh Hf).
Qed.
Print Assumptions C03_finalized_holder_never_displaced.

(* The text "%s:%s:%d" UniqueKey hashes determines the deposit: the chain
   prints with fixed width, the index text has no ':' - whatever bytes (also
   ':') the transaction id contains. *)
Theorem C03_unique_key_injective : forall d1 d2,
  d_chain d1 < 2 ^ 256 -> d_chain d2 < 2 ^ 256 -> render d1 = render d2 -> d1 = d2.
Proof. exact render_injective. Qed.
Print Assumptions C03_unique_key_injective.

(* Non-vacuity. *)
Definition ex_g : txd := {| t_hash := 11; t_ins := InGenesis; t_outs := [[1]; [2]] |}.
Definition ex_a : txd := {| t_hash := 21; t_ins := InUtxo [(11, 0); (11, 1)]; t_outs := [[3]] |}.
Definition ex_b : txd := {| t_hash := 22; t_ins := InUtxo [(11, 1)]; t_outs := [[4]] |}.
Definition ex_seed := [WriteTx ex_g; Finalize 11; LockInputs ex_a false; WriteTx ex_a].

Example C03_ex_conflict :
  let s := run init ex_seed in
  utxo_lock s (11, 1) = Some 21 /\ has_body s 21 = true /\
  step s (LockInputs ex_b false) = (s, Err) /\
  step s (LockInputs ex_a false) = (s, Ok tt).
Proof. vm_compute. repeat split. Qed.

Example C03_ex_takeover :
  let s := run init ex_seed in
  let s' := fst (step s (LockInputs ex_b true)) in
  snd (step s (LockInputs ex_b true)) = Ok tt /\
  utxo_lock s' (11, 1) = Some 22 /\ has_body s' 21 = false /\ utxo_lock s' (11, 0) = Some 21.
Proof. vm_compute. repeat split. Qed.

Example C03_ex_finalized :
  let s := run init (ex_seed ++ [Finalize 21]) in
  is_final s 21 = true /\ step s (LockInputs ex_b true) = (s, Err).
Proof. vm_compute. repeat split. Qed.

(* the index bound written in the model is the repository's input index limit *)
Example C03_ex_index_limit : Z.of_N max_utxo_index = Consts.LockInputIndexLimit.
Proof. reflexivity. Qed.

Example C03_ex_render :
  render {| d_chain := 255; d_tx := [97; 58; 49]; d_index := 20 |} =
  repeat 48 62 ++ [102; 102; 58; 97; 58; 49; 58; 50; 48].
Proof. vm_compute. reflexivity. Qed.
