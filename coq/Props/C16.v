(* C16 - transactions that validate together can always be finalized.
   Property theorems only; lemmas are in Proofs/KernelSnap.v, the executable
   model in Model/KernelSnap.v is run against the real node and store by
   harness/cmd/c16. *)
From Coq Require Import List ZArith NArith Bool.
Require Import Mixin.Base.Res Mixin.Gen.Consts Mixin.Model.Fixed Mixin.Model.KernelSnap Mixin.Proofs.KernelSnap.
Import ListNotations.
Open Scope Z_scope.

(* The property as stated is FALSE of the faithful model (finding F5): two
   deposits of one asset, each within capacity against the recorded total,
   jointly above it: both validate, the batch passes the batch rules,
   finalization panics (writeTotalInAsset). *)
Theorem C16_refuted :
  exists s sn pool last s',
    (forall t, In t (map snd pool) ->
       exists amt, l_in t = LDeposit (match l_in t with LDeposit k _ _ => k | _ => 0%N end) 7%N amt /\
                   total_of s (l_asset t) + amt < capacity (l_asset t)) /\
    validate_batch s sn pool last = (s', true) /\
    write_snapshot s' sn = Panic.
Proof. exact c16_refuted. Qed.
Print Assumptions C16_refuted.

(* Second finding, found by this check: two custodian-signed deposits of one
   unrecorded asset id carrying different asset info both validate;
   finalization returns an error (writeAssetInfo), which TopoWrite turns into
   a panic. *)
Theorem C16_refuted_asset_info :
  exists s sn pool last s',
    validate_batch s sn pool last = (s', true) /\ write_snapshot s' sn = Err.
Proof. exact c16_refuted_asset_info. Qed.
Print Assumptions C16_refuted_asset_info.

(* Outside the two finding regions finalization of a validated batch succeeds.

   [s] is the state the snapshot is written on (after the members were
   validated, locked and stored), [ts] the members.  Hypotheses:
   - the facts validation establishes, per member ([ready], see
     Proofs/KernelSnap.v): body stored (WriteTransaction), every output key
     bound to this transaction (LockGhostKeys in validateOutputs), output
     amounts positive and output types of the batchable classes and mint
     (validateOutputs, validateDeposit/Mint/WithdrawalSubmit/WithdrawalClaim,
     batch rule), at most SliceCountLimit outputs (Validate), a claim's
     reference stored and finalized (validateReferences), deposit/mint amount
     positive, asset info of a deposit unrecorded or equal to the recorded one
     (verifyDepositData, verifyAssetInfo), asset of any other member recorded
     (ledger invariant: its inputs exist);
   - not yet recorded for this node (validateSnapshotTransaction refuses a
     transaction finalized in another snapshot);
   - outside finding 2: deposits of one asset id in the batch agree on the info;
   - outside finding 1 (F5): for every asset, recorded total + the batch's
     deposits and mints <= capacity;
   - ledger invariants: totals are non-negative and the batch withdraws at most
     the recorded total (C17: supply = value of unspent outputs).

   Failure modes of WriteSnapshot's member finalization and what excludes each:
   1 storage/badger_graph.go:234 "snapshot transaction not exist" / writeSnapshot
     nil transaction ............................ body stored (lockAndPersistTransaction)
   2 badger_graph.go:239 "snapshot duplication" (UNIQUE key) .... not recorded for this node
   3 badger_transaction.go finalizeTransaction -> writeAssetInfo "invalid asset
     info" (badger_asset.go:131) ................. FINDING 2 region, else rd_info
   4 common/utxo.go:41 UnspentOutputs panic(out.Type) ........... output types validated
   5 badger_utxo.go:158 lockGhostKey "locked for transaction" ... keys bound at validation
   6 badger_transaction.go:243 graphUtxoKey panic(index > 1024) . <= 256 outputs
   7 badger_transaction.go writeUTXO ver.References[0] / badger_withdrawal.go:41
     writeWithdrawalClaim panic ................... claim reference stored and finalized
   8 writeNodePledge/Cancel/Accept/Remove, writeCustodianNodes ... not batchable; alone they
     are membership/custodian operations outside this property's quantifier
     (the model refuses them: the theorem does not cover them)
   9 badger_asset.go:49 writeTotalInAsset asset == nil panic ..... asset recorded (rd_info)
   10 badger_asset.go:61 total.Sub panics (total < amount) ....... withdrawn <= recorded total
   11 badger_asset.go:66/68 total.Add panics (amount <= 0) ....... amounts positive
   12 badger_asset.go:78 total.Cmp(max) > 0 panic ................ FINDING 1 region (F5)
   Not about the members (the snapshot's round number, references, duplicate
   SNAPSHOT key, topology and work records): outside this model. *)
Theorem C16_outside : forall ts s sn,
  ls_txs sn = map l_hash ts ->
  (forall t, In t ts -> alookup (l_hash t) (st_bodies s) = Some t) ->
  (forall t, In t ts -> nmem (l_hash t) (st_uniq s) = false) ->
  (forall t, In t ts -> ready s t) ->
  infos_agree ts ->
  (forall a, 0 <= total_of s a) ->
  (forall a, total_of s a + sum_adds ts a <= capacity a) ->
  (forall a, sum_subs ts a <= total_of s a) ->
  exists s', write_snapshot s sn = Ok s'.
Proof. exact c16_outside. Qed.
Print Assumptions C16_outside.

(* ---- non-vacuity ------------------------------------------------------------ *)

(* two deposits that fill the capacity exactly: validated, every hypothesis of
   C16_outside holds of the validated state, and the write succeeds *)
Definition nv_d1 := w_deposit 121 221 xin 7 (units 327613) 321.
Definition nv_d2 := w_deposit 122 222 xin 7 (units 327614) 322.
Definition nv_snap := {| ls_hash := 902%N; ls_txs := [121%N; 122%N] |}.
Definition nv_state := fst (validate_batch w_state nv_snap [(121%N, nv_d1); (122%N, nv_d2)] w_last).

Example nv_validated :
  validate_batch w_state nv_snap [(121%N, nv_d1); (122%N, nv_d2)] w_last = (nv_state, true).
Proof. vm_compute. reflexivity. Qed.

Example nv_ready : forall t, In t [nv_d1; nv_d2] -> ready nv_state t.
Proof.
  intros t [<-|[<-|[]]]; constructor.
  all: try (intros k [<-|[]]; vm_compute; reflexivity).
  all: try (intros o [<-|[]]; split; [vm_compute; reflexivity|left; reflexivity]).
  all: try (vm_compute; intro; discriminate).
  all: try (intros (o & [<-|[]] & E); vm_compute in E; discriminate E).
  all: try (cbn; split; [vm_compute; reflexivity|right; vm_compute; reflexivity]).
Qed.

Example nv_capacity : forall a, total_of nv_state a + sum_adds [nv_d1; nv_d2] a <= capacity a.
Proof.
  intros a. unfold sum_adds, adds. cbn [fold_right l_asset l_in nv_d1 nv_d2 w_deposit].
  destruct (xin =? a)%N eqn:E.
  - apply N.eqb_eq in E. subst a. vm_compute. discriminate.
  - assert (total_of nv_state a = 0) as ->.
    { unfold total_of. change (st_totals nv_state) with [(xin, units 94773)]. cbn [alookup].
      rewrite N.eqb_sym, E. reflexivity. }
    unfold capacity. repeat match goal with |- context [if ?c then _ else _] => destruct c end;
      vm_compute; discriminate.
Qed.

Example nv_write_ok : is_ok (write_snapshot nv_state nv_snap) = true.
Proof. vm_compute. reflexivity. Qed.
