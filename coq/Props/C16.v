(* C16 - transactions that validate together can always be finalized.
   Property theorems only; lemmas are in Proofs/KernelSnap.v, the executable
   model in Model/KernelSnap.v is run against the real node and store by
   harness/cmd/c16. *)
From Coq Require Import List ZArith NArith Bool Lia.
Require Import Mixin.Base.Res Mixin.Gen.Consts Mixin.Model.Fixed Mixin.Model.KernelSnap Mixin.Proofs.KernelSnap.
Import ListNotations.
Open Scope Z_scope.

(* The property as stated is FALSE of the faithful model (finding F5): two
   deposits of one asset, each within capacity against the recorded total,
   jointly above it: both validate, the batch passes the batch rules,
   finalization panics (writeTotalInAsset). *)
Theorem C16_refuted :
  exists s sn pool last s',
    (forall t, In t (map snd pool) ->
       exists amt, l_in t = LDeposit (match l_in t with LDeposit k _ _ => k | _ => 0%N end) 7%N amt /\
                   total_of s (l_asset t) + amt < capacity (l_asset t)) /\
    validate_batch s sn pool last = (s', true) /\
    write_snapshot s' sn = Panic.
Proof. exact c16_refuted. Qed.
Print Assumptions C16_refuted.

(* Second finding, found by this check: two custodian-signed deposits of one
   unrecorded asset id carrying different asset info both validate;
   finalization returns an error (writeAssetInfo), which TopoWrite turns into
   a panic. *)
Theorem C16_refuted_asset_info :
  exists s sn pool last s',
    validate_batch s sn pool last = (s', true) /\ write_snapshot s' sn = Err.
Proof. exact c16_refuted_asset_info. Qed.
Print Assumptions C16_refuted_asset_info.

(* Outside the two finding regions finalization of a validated batch succeeds.

   [s] is the state the snapshot is written on (after the members were
   validated, locked and stored), [ts] the members.  Hypotheses:
   - the facts validation establishes, per member ([ready], see
     Proofs/KernelSnap.v): body stored (WriteTransaction), every output key
     bound to this transaction (LockGhostKeys in validateOutputs), output
     amounts positive and output types of the batchable classes and mint
     (validateOutputs, validateDeposit/Mint/WithdrawalSubmit/WithdrawalClaim,
     batch rule), at most SliceCountLimit outputs (Validate), a claim's
     reference stored and finalized (validateReferences), deposit/mint amount
     positive, asset info of a deposit unrecorded or equal to the recorded one
     (verifyDepositData, verifyAssetInfo), asset of any other member recorded
     (ledger invariant: its inputs exist);
   - not yet recorded for this node (validateSnapshotTransaction refuses a
     transaction finalized in another snapshot);
   - outside finding 2: deposits of one asset id in the batch agree on the info;
   - outside finding 1 (F5): for every asset, recorded total + the batch's
     deposits and mints <= capacity;
   - ledger invariants: totals are non-negative and the batch withdraws at most
     the recorded total (C17: supply = value of unspent outputs).

   Failure modes of WriteSnapshot's member finalization and what excludes each:
   1 storage/badger_graph.go:234 "snapshot transaction not exist" / writeSnapshot
     nil transaction ............................ body stored (lockAndPersistTransaction)
   2 badger_graph.go:239 "snapshot duplication" (UNIQUE key) .... not recorded for this node
   3 badger_transaction.go finalizeTransaction -> writeAssetInfo "invalid asset
     info" (badger_asset.go:131) ................. FINDING 2 region, else rd_info
   4 common/utxo.go:41 UnspentOutputs panic(out.Type) ........... output types validated
   5 badger_utxo.go:158 lockGhostKey "locked for transaction" ... keys bound at validation
   6 badger_transaction.go:243 graphUtxoKey panic(index > 1024) . <= 256 outputs
   7 badger_transaction.go writeUTXO ver.References[0] / badger_withdrawal.go:41
     writeWithdrawalClaim panic ................... claim reference stored and finalized
   8 writeNodePledge/Cancel/Accept/Remove, writeCustodianNodes ... not batchable; alone they
     are membership/custodian operations outside this property's quantifier
     (the model refuses them: the theorem does not cover them)
   9 badger_asset.go:49 writeTotalInAsset asset == nil panic ..... asset recorded (rd_info)
   10 badger_asset.go:61 total.Sub panics (total < amount) ....... withdrawn <= recorded total
   11 badger_asset.go:66/68 total.Add panics (amount <= 0) ....... amounts positive
   12 badger_asset.go:78 total.Cmp(max) > 0 panic ................ FINDING 1 region (F5)
   Not about the members (the snapshot's round number, references, duplicate
   SNAPSHOT key, topology and work records): outside this model. *)
Theorem C16_outside : forall ts s sn,
  ls_txs sn = map l_hash ts ->
  (forall t, In t ts -> alookup (l_hash t) (st_bodies s) = Some t) ->
  (forall t, In t ts -> nmem (l_hash t) (st_uniq s) = false) ->
  (forall t, In t ts -> ready s t) ->
  infos_agree ts ->
  (forall a, 0 <= total_of s a) ->
  (forall a, total_of s a + sum_adds ts a <= capacity a) ->
  (forall a, sum_subs ts a <= total_of s a) ->
  exists s', write_snapshot s sn = Ok s'.
Proof. exact c16_outside. Qed.
Print Assumptions C16_outside.

(* ---- non-vacuity ------------------------------------------------------------ *)

(* two deposits that fill the capacity exactly: validated, every hypothesis of
   C16_outside holds of the validated state, and the write succeeds *)
Definition nv_d1 := w_deposit 121 221 xin 7 (units 327613) 321.
Definition nv_d2 := w_deposit 122 222 xin 7 (units 327614) 322.
Definition nv_snap := {| ls_hash := 902%N; ls_txs := [121%N; 122%N] |}.
Definition nv_state := fst (validate_batch w_state nv_snap [(121%N, nv_d1); (122%N, nv_d2)] w_last).

Example nv_validated :
  validate_batch w_state nv_snap [(121%N, nv_d1); (122%N, nv_d2)] w_last = (nv_state, true).
Proof. vm_compute. reflexivity. Qed.

Example nv_ready : forall t, In t [nv_d1; nv_d2] -> ready nv_state t.
Proof.
  intros t [<-|[<-|[]]]; constructor.
  all: try (intros k [<-|[]]; vm_compute; reflexivity).
  all: try (intros o [<-|[]]; split; [vm_compute; reflexivity|left; reflexivity]).
  all: try (vm_compute; intro; discriminate).
  all: try (intros (o & [<-|[]] & E); vm_compute in E; discriminate E).
  all: try (cbn; split; [vm_compute; reflexivity|right; vm_compute; reflexivity]).
Qed.

Example nv_capacity : forall a, total_of nv_state a + sum_adds [nv_d1; nv_d2] a <= capacity a.
Proof.
  intros a. unfold sum_adds, adds. cbn [fold_right l_asset l_in nv_d1 nv_d2 w_deposit].
  destruct (xin =? a)%N eqn:E.
  - apply N.eqb_eq in E. subst a. vm_compute. discriminate.
  - assert (total_of nv_state a = 0) as ->.
    { unfold total_of. change (st_totals nv_state) with [(xin, units 94773)]. cbn [alookup].
      rewrite N.eqb_sym, E. reflexivity. }
    unfold capacity. repeat match goal with |- context [if ?c then _ else _] => destruct c end;
      vm_compute; discriminate.
Qed.

Example nv_write_ok : is_ok (write_snapshot nv_state nv_snap) = true.
Proof. vm_compute. reflexivity. Qed.

(* ---- the validation facts derived from validate_batch ------------------------- *)

(* Each fact C16_outside consumes is now derived from an accepting
   validate_batch (Proofs/KernelSnap.v): body stored under its hash
   (persist_tx_spec), every output key bound to the member (bind_ghosts_spec),
   output amounts positive and output types script / submit / claim
   (type_specific_outs, outputs_shape_facts), at most SliceCountLimit outputs
   (validate_tx_true), a claim's reference stored and finalized (refs_ok_in),
   deposit/mint amount positive and asset info unrecorded-or-equal / asset
   recorded (validate_tx_ready), not yet recorded for this node.  They are
   stable under the later members' validation (ready_vmono).  Left as
   hypotheses are exactly:
   - the capacity sum: validation cannot establish it (it reads only the
     recorded total, one member at a time): recorded finding 1 (F5);
   - deposits of one asset id agree on the asset info: validation compares only
     with the recorded info: recorded finding 2;
   - withdrawals within the recorded total: not checked by validation; follows
     from the supply invariant (C17) since members spend distinct unspent outputs;
   and well-formedness: ledger invariants of the state ([ledger_inv]: XIN
   recorded, every unspent output's asset recorded, totals non-negative,
   UNIQUE records only for stored bodies), the cache keyed by payload hash, no
   duplicate member (the snapshot encoder refuses one).
   PARTIAL in one respect: the members are not stored yet when the snapshot is
   validated.  A member already stored by an earlier refused snapshot is taken
   as is by validateSnapshotTransaction (not validated again): its facts come
   from that earlier validation and are not derived here (its capacity and
   asset info checks are stale, which the two recorded findings already cover;
   the harness corpus has both cases). *)
Theorem C16_validated_then_finalizes_partial : forall s sn pool last s',
  ledger_inv s -> pool_keyed pool -> NoDup (ls_txs sn) ->
  (forall h, In h (ls_txs sn) -> alookup h (st_bodies s) = None) ->
  validate_batch s sn pool last = (s', true) ->
  let ts := batch_txs pool (ls_txs sn) in
  (forall a, total_of s a + sum_adds ts a <= capacity a) ->
  infos_agree ts ->
  (forall a, sum_subs ts a <= total_of s a) ->
  exists s'', write_snapshot s' sn = Ok s''.
Proof. exact c16_validated_then_finalizes. Qed.
Print Assumptions C16_validated_then_finalizes_partial.

(* the facts themselves, for every member of an accepted batch *)
Theorem C16_validation_establishes_facts : forall s sn pool last s',
  ledger_inv s -> pool_keyed pool -> NoDup (ls_txs sn) ->
  (forall h, In h (ls_txs sn) -> alookup h (st_bodies s) = None) ->
  validate_batch s sn pool last = (s', true) ->
  map l_hash (batch_txs pool (ls_txs sn)) = ls_txs sn /\
  forall t, In t (batch_txs pool (ls_txs sn)) ->
    alookup (l_hash t) (st_bodies s') = Some t /\ ready s' t.
Proof.
  intros s sn pool last s' LI PK ND Fr Hv. unfold validate_batch in Hv.
  destruct (validate_loop_ready _ _ _ _ _ _ _ Hv (li_v _ LI) PK ND Fr) as (_ & E & H).
  split; assumption.
Qed.
Print Assumptions C16_validation_establishes_facts.

(* non-vacuity: the genesis state and the two deposits that fill the capacity
   exactly satisfy every hypothesis *)
Definition nv_pool := [(121%N, nv_d1); (122%N, nv_d2)].

Example nv_ledger_inv : ledger_inv w_state.
Proof.
  constructor.
  - constructor; [vm_compute; discriminate|]. intros h i u H. vm_compute in H. discriminate H.
  - intros a. unfold total_of. change (st_totals w_state) with [(xin, units 94773)]. cbn [alookup].
    destruct (a =? xin)%N; [vm_compute; discriminate|lia].
  - intros h H. vm_compute in H. discriminate H.
Qed.

Example nv_hypotheses_hold :
  exists s'', write_snapshot nv_state nv_snap = Ok s''.
Proof.
  apply (C16_validated_then_finalizes_partial w_state nv_snap nv_pool w_last nv_state).
  - exact nv_ledger_inv.
  - intros h t H. unfold nv_pool in H. cbn [alookup] in H.
    destruct (h =? 121)%N eqn:E1; [injection H as <-; apply N.eqb_eq in E1; subst h; reflexivity|].
    destruct (h =? 122)%N eqn:E2; [injection H as <-; apply N.eqb_eq in E2; subst h; reflexivity|discriminate].
  - repeat constructor; cbn; intuition discriminate.
  - intros h _. reflexivity.
  - exact nv_validated.
  - intros a. change (batch_txs nv_pool (ls_txs nv_snap)) with [nv_d1; nv_d2].
    unfold sum_adds, adds. cbn [fold_right l_asset l_in nv_d1 nv_d2 w_deposit].
    destruct (xin =? a)%N eqn:E.
    + apply N.eqb_eq in E. subst a. vm_compute. discriminate.
    + assert (total_of w_state a = 0) as ->.
      { unfold total_of. change (st_totals w_state) with [(xin, units 94773)]. cbn [alookup].
        rewrite N.eqb_sym, E. reflexivity. }
      unfold capacity. repeat match goal with |- context [if ?c then _ else _] => destruct c end;
        vm_compute; discriminate.
  - change (batch_txs nv_pool (ls_txs nv_snap)) with [nv_d1; nv_d2].
    intros t1 t2 i1 i2 [<-|[<-|[]]] [<-|[<-|[]]] _ E1 E2; cbn in E1, E2; congruence.
  - intros a. change (batch_txs nv_pool (ls_txs nv_snap)) with [nv_d1; nv_d2].
    unfold sum_subs, subs. cbn [fold_right l_asset l_in nv_d1 nv_d2 w_deposit].
    pose proof (li_totals _ nv_ledger_inv a). destruct (xin =? a)%N; lia.
Qed.
