(* C17 — asset supply equals the value held in unconsumed outputs.
   Model: Mixin.Model.Finalize.  A history is a list of store calls (genesis
   load, StartNewRound, LockGhostKeys, LockUTXOs, WriteTransaction,
   WriteSnapshot) run from the empty store.  It is VALIDATED when every
   transaction, at the moment a snapshot finalizes it for the first time,
   satisfies the facts validation establishes (valid_tx):
     - C01: its ordinary inputs are distinct existing output records of its own
       asset and their amounts sum to its outputs (a deposit / mint has one
       input and outputs summing to the deposited / minted amount; a genesis
       transaction only allocates); only a withdrawal-submit transaction
       carries withdrawal-submit outputs; no slash outputs (not implemented);
     - C03: every ordinary input is locked by this transaction, and locks for a
       transaction hash are only taken on the inputs of the transaction with
       that hash (vop of OpLock);
   and transaction hashes identify transactions (C06, collision freedom: Kinj). *)
From Coq Require Import List ZArith NArith Bool Lia.
Require Import Mixin.Base.Res Mixin.Gen.Consts Mixin.Model.Fixed Mixin.Model.Finalize Mixin.Proofs.Finalize.
Require Import Mixin.Proofs.FinalizeValidateLink.
Import ListNotations.
Open Scope Z_scope.

(* In every state reachable by a validated history, for every asset:
   recorded total = genesis + finalized deposits + finalized mints - finalized
   withdrawal submissions (supply_flow, over the finalization records)
   = sum of the output records not consumed by a finalized transaction,
   and 0 <= total <= capacity.  By induction over the history. *)
Theorem C17_supply : forall (K : list tx),
  (forall t1 t2, In t1 K -> In t2 K -> t_hash t1 = t_hash t2 -> t1 = t2) ->
  forall ops, validated_history K empty_state ops ->
  forall a, let s := run empty_state ops in
    total_of s a = supply_flow s a /\
    total_of s a = unconsumed_sum s a /\
    0 <= total_of s a <= capacity a.
Proof. exact supply_theorem. Qed.
Print Assumptions C17_supply.

(* Two of the three clauses need no validity hypothesis at all: in every state
   reachable by ANY history of store calls, the recorded total is genesis +
   finalized deposits + finalized mints - finalized withdrawal submissions (each
   finalized transaction counted exactly once, whatever snapshots presented it
   again), and it lies within 0 .. capacity. *)
Theorem C17_flow_and_bounds_every_history : forall ops a,
  let s := run empty_state ops in
  total_of s a = supply_flow s a /\ 0 <= total_of s a <= capacity a.
Proof. exact flow_theorem. Qed.
Print Assumptions C17_flow_and_bounds_every_history.

(* One finalization step: a validated, not yet finalized transaction moves the
   total and the unconsumed sum of its asset by the same amount (its
   supply_delta), so the ledger invariant is kept. *)
Theorem C17_step : forall (K : list tx),
  (forall t1 t2, In t1 K -> In t2 K -> t_hash t1 = t_hash t2 -> t1 = t2) ->
  forall s t sn s', inv K s -> lookup eq1 (s_txs s) (t_hash t) = Some t ->
  finalized s (t_hash t) = false -> valid_tx s t -> finalize_tx s t sn = Ok s' -> inv K s'.
Proof. exact finalize_fresh_inv. Qed.
Print Assumptions C17_step.

(* The capacity is never negative, so an asset without any record (total 0) is within bounds. *)
Theorem C17_capacity_nonneg : forall a, 0 <= capacity a.
Proof. exact capacity_nonneg. Qed.
Print Assumptions C17_capacity_nonneg.

(* ---- non-vacuity: a concrete validated multi-step history ------------------------ *)

Definition XIN := Consts.Fin_Asset_XIN.
Definition BTC := Consts.Fin_Asset_BTC.
Definition o_ (ty amt : Z) (k : N) : output := {| o_type := ty; o_amount := amt; o_keys := [k] |}.
Definition mk (h a : N) (ins : list input) (outs : list output) : tx :=
  {| t_hash := h; t_asset := a; t_inputs := ins; t_outputs := outs; t_extra := []; t_refs := []; t_cust := None |}.

Definition g1 := mk 11 XIN [IGenesis] [o_ ot_script 1000 101].
Definition d1 := mk 12 BTC [IDeposit 7 8 50] [o_ ot_script 50 102].
Definition x1 := mk 13 XIN [IOrd 11 0] [o_ ot_script 400 103; o_ ot_script 600 104].
Definition w1 := mk 14 BTC [IOrd 12 0] [{| o_type := ot_submit; o_amount := 20; o_keys := [] |}; o_ ot_script 30 105].
Definition exK := [g1; d1; x1; w1].

Definition sn_ (h node round : N) (txs : list N) (topo : N) : snapshot :=
  {| sn_hash := h; sn_whash := h; sn_node := node; sn_round := round; sn_ts := 1000 + topo;
     sn_refs := (5, 6)%N; sn_txs := txs; sn_topo := topo |}.

Definition ex_ops : list op :=
  [ OpGenesis (1, 2)%N [(sn_ 900 40 0 [11%N] 0, g1)];
    OpRound 50 1 (5, 6)%N; OpRound 51 1 (5, 6)%N;
    OpWriteTx d1; OpSnapshot (sn_ 901 50 1 [12%N] 1) [];
    OpGhost [103; 104]%N 13; OpLock [(11, 0)%N] 13; OpWriteTx x1;
    OpLock [(12, 0)%N] 14; OpWriteTx w1;
    OpSnapshot (sn_ 902 51 1 [13; 14; 12]%N 2) [50%N] ].

Lemma exK_inj : forall t1 t2, In t1 exK -> In t2 exK -> t_hash t1 = t_hash t2 -> t1 = t2.
Proof.
  intros t1 t2 H1 H2. cbn in H1, H2.
  destruct H1 as [<-|[<-|[<-|[<-|[]]]]]; destruct H2 as [<-|[<-|[<-|[<-|[]]]]]; cbn; intros E;
    try reflexivity; discriminate E.
Qed.

Ltac norm_state :=
  match goal with
  | |- validated_history _ ?s _ => let s' := eval vm_compute in s in change s with s'
  | |- vmembers ?s _ _ => let s' := eval vm_compute in s in change s with s'
  | |- vgen _ ?s _ => let s' := eval vm_compute in s in change s with s'
  end.

Ltac solve_valid pick :=
  constructor;
  [ cbn; discriminate
  | cbn; repeat constructor; cbn; intuition discriminate
  | cbn; intros k Hk; repeat (destruct Hk as [<-|Hk]; [eexists; split; [vm_compute; reflexivity|split; reflexivity]|]); destruct Hk
  | vm_compute; reflexivity
  | pick; vm_compute; repeat eexists; repeat split; try reflexivity; try (intros; reflexivity); try (intros X; exfalso; apply X; reflexivity) ].

Example C17_ex_validated : validated_history exK empty_state ex_ops.
Proof.
  unfold ex_ops.
  (* genesis *)
  constructor.
  { cbn [vop]. intros s1 H1. vm_compute in H1. injection H1 as <-. cbn [vgen]. split; [cbn; auto|].
    split.
    - norm_state. cbn [vmembers sn_txs sn_]. split; [|auto].
      intros t Hb _. vm_compute in Hb. injection Hb as <-. solve_valid ltac:(right; right; right).
    - intros s2 _. exact I. }
  norm_state. constructor; [exact I|]. norm_state. constructor; [exact I|]. norm_state.
  constructor; [cbn; auto|]. norm_state.
  (* snapshot of the deposit *)
  constructor.
  { cbn [vop vmembers sn_txs sn_]. split; [|auto].
    intros t Hb _. vm_compute in Hb. injection Hb as <-. solve_valid ltac:(right; left). }
  norm_state. constructor; [exact I|]. norm_state.
  constructor; [exists x1; cbn; repeat split; auto; discriminate|]. norm_state.
  constructor; [cbn; auto|]. norm_state.
  constructor; [exists w1; cbn; repeat split; auto; discriminate|]. norm_state.
  constructor; [cbn; auto 6|]. norm_state.
  (* the batch: transfer, withdrawal submission, and the deposit presented again *)
  constructor.
  { cbn [vop vmembers sn_txs sn_]. split.
    - intros t Hb _. vm_compute in Hb. injection Hb as <-. solve_valid ltac:(left).
    - intros s1 H1. vm_compute in H1. injection H1 as <-. split.
      + intros t Hb _. vm_compute in Hb. injection Hb as <-. solve_valid ltac:(left).
      + intros s2 H2. vm_compute in H2. injection H2 as <-. split; [|auto].
        intros t Hb Hf. vm_compute in Hf. discriminate Hf. }
  constructor.
Qed.

(* the history really finalizes four transactions over two assets, and the three
   quantities agree with the expected values *)
Example C17_ex_values :
  let s := run empty_state ex_ops in
  length (s_fin s) = 4%nat /\
  total_of s XIN = 1000 /\ unconsumed_sum s XIN = 1000 /\ supply_flow s XIN = 1000 /\
  total_of s BTC = 30 /\ unconsumed_sum s BTC = 30 /\ supply_flow s BTC = 30.
Proof. vm_compute. repeat split; reflexivity. Qed.

Example C17_ex_instance : forall a, let s := run empty_state ex_ops in
  total_of s a = supply_flow s a /\ total_of s a = unconsumed_sum s a /\ 0 <= total_of s a <= capacity a.
Proof. exact (C17_supply exK exK_inj ex_ops C17_ex_validated). Qed.

(* ---- the output-shape facts of valid_tx are necessary ------------------------------ *)
(* finalize_tx treats every output type as UnspentOutputs / writeTotalInAsset do: a
   custodian-slash output is neither recorded as an output nor subtracted from the
   total.  A withdrawal submission [submit 20; change 20; slash 10] over a 50 input -
   which only validation (Outputs[1:] must all be script) keeps out - makes value
   vanish: the model reproduces the leak, so C17_supply cannot drop v_noslash /
   v_shape.  The harness presents this shape (and every other type code at every
   output index of every transaction kind) to the real Validate. *)
Definition w_bad := mk 14 BTC [IOrd 12 0]
  [{| o_type := ot_submit; o_amount := 20; o_keys := [] |}; o_ ot_script 20 105; o_ ot_slash 10 106].

Definition leak_ops : list op :=
  [ OpGenesis (1, 2)%N [(sn_ 900 40 0 [11%N] 0, g1)];
    OpRound 50 1 (5, 6)%N; OpRound 51 1 (5, 6)%N;
    OpWriteTx d1; OpSnapshot (sn_ 901 50 1 [12%N] 1) [];
    OpLock [(12, 0)%N] 14; OpWriteTx w_bad;
    OpSnapshot (sn_ 902 51 1 [14%N] 2) [] ].

Theorem C17_unvalidated_shape_refuted :
  exists ops a, let s := run empty_state ops in
    finalized s 14%N = true /\ total_of s a = supply_flow s a /\ unconsumed_sum s a < total_of s a.
Proof. exists leak_ops, BTC. vm_compute. repeat split; reflexivity. Qed.
Print Assumptions C17_unvalidated_shape_refuted.

(* ---- tie to the validation model of C01 (Model/Validate.v) -------------------------------- *)

(* A transaction ACCEPTED by the validation model against a view of the state
   (view_of: the view's output reads return the state's records) satisfies
   valid_tx: conservation, existence, same asset and distinct slots come from
   C01_conservation, the output shapes (no slash output; submit outputs only in
   a withdrawal-submit transaction; deposits / mints with script outputs only)
   from the per-type validators (accepted_output_shapes).  Remaining hypotheses,
   which validation cannot know:
     H_hash_nonzero   : the payload hash is not the zero hash;
     H_locked_by_this : every spent output is locked by this transaction (C03;
                        LockUTXOs runs after Validate, which only sees "unlocked
                        or locked by this hash"). *)
Theorem C17_valid_tx_of_validated : forall s v f h ts fork t t',
  V.validate v f h ts fork t = Ok tt ->
  view_of s v -> related t h t' ->
  h <> 0%N -> locked_by s t' ->
  valid_tx s t'.
Proof. exact validate_valid_tx. Qed.
Print Assumptions C17_valid_tx_of_validated.

(* The supply statement for every history in which each transaction, when a
   snapshot first finalizes it, was accepted by the validation model against a
   view of the state it is finalized on (accepted_member = that acceptance +
   H_hash_nonzero + H_locked_by_this).  Further named hypotheses:
     H_hash_injective      : hashes identify the transactions of the history (C06);
     H_lock_discipline     : OpLock locks exactly the inputs of a known transaction under its hash (vop, C03);
     H_genesis_allocations : the transactions of LoadGenesis, which are never
                             validated, satisfy valid_tx directly (inside vgen). *)
Theorem C17_supply_of_validated : forall (K : list tx),
  (forall t1 t2, In t1 K -> In t2 K -> t_hash t1 = t_hash t2 -> t1 = t2) ->
  forall ops, validated_history_v K empty_state ops ->
  forall a, let s := run empty_state ops in
    total_of s a = supply_flow s a /\
    total_of s a = unconsumed_sum s a /\
    0 <= total_of s a <= capacity a.
Proof. exact supply_of_validated. Qed.
Print Assumptions C17_supply_of_validated.

(* ---- non-vacuity: the example history, its transactions accepted by the validation model -- *)

Definition vscript : V.bytes := [255; 254; 1]%N.
Definition vbase : V.view :=
  {| V.v_utxo := fun _ _ => None; V.v_tx := fun _ => None; V.v_deposit_lock := fun _ => 0%N;
     V.v_last_mint := None; V.v_nodes := fun _ => [];
     V.v_custodian := fun _ => Some {| V.c_addr := (5%N, 6%N); V.c_nodes := [] |};
     V.v_asset := fun _ => None; V.v_ghost_ok := fun _ _ _ => true |}.
Definition vfacts : V.facts :=
  {| V.f_check_key := fun _ => true; V.f_agg_ok := true; V.f_deposit_sig := true; V.f_claim_sig := true;
     V.f_accept_sig := true; V.f_cancel_ghost := Ok true; V.f_cancel_sig := true; V.f_cust_prev_sig := true;
     V.f_cust_node_sigs := [] |}.
Definition vout (ty a : Z) (k : N) : V.output :=
  {| V.o_type := ty; V.o_amount := a; V.o_keys := [k]; V.o_mask := 9%N; V.o_script := vscript; V.o_withdrawal := None |}.
Definition vin (h : N) (i : Z) : V.input :=
  {| V.i_hash := h; V.i_index := i; V.i_genesis := None; V.i_deposit := None; V.i_mint := None |}.
Definition vtx (a : N) (ins : list V.input) (outs : list V.output) (sigs : option (list V.sigmap)) : V.tx :=
  {| V.t_version := Consts.ValTxVersionHashSignature; V.t_asset := a; V.t_inputs := ins; V.t_outputs := outs;
     V.t_refs := []; V.t_extra := []; V.t_agg := None; V.t_sigs := sigs |}.

Definition vd1 : V.tx :=
  vtx BTC [{| V.i_hash := 0%N; V.i_index := 0; V.i_genesis := None; V.i_mint := None;
              V.i_deposit := Some {| V.d_chain := 7%N; V.d_key := [8]%N; V.d_key_trim := true; V.d_txlen := 4;
                                     V.d_tx_trim := true; V.d_index := 0; V.d_amount := 50 |} |}]
      [vout V.ot_script 50 102] (Some [[(0, false)]]).
Definition vx1 : V.tx := vtx XIN [vin 11 0] [vout V.ot_script 400 103; vout V.ot_script 600 104] (Some [[(0, true)]]).
Definition vw1 : V.tx :=
  vtx BTC [vin 12 0]
      [{| V.o_type := V.ot_wsubmit; V.o_amount := 20; V.o_keys := []; V.o_mask := 0%N; V.o_script := [];
          V.o_withdrawal := Some (34, 0) |}; vout V.ot_script 30 105] (Some [[(0, true)]]).

Ltac norm_state_v :=
  match goal with
  | |- validated_history_v _ ?s _ => let s' := eval vm_compute in s in change s with s'
  | |- vmembers_v ?s _ _ => let s' := eval vm_compute in s in change s with s'
  end.

(* t' (already computed) was accepted: witness transaction vt, validated against the canonical view of the state *)
Ltac solve_accepted vt :=
  split; [|split];
  [ match goal with |- context [view_of ?s _] => idtac | _ => idtac end;
    match goal with
    | |- exists v f ts fork t, view_of ?s v /\ _ =>
        exists (view_from s vscript vbase), vfacts, 1, false, vt;
        split; [apply view_from_ok|split; [repeat split; reflexivity|vm_compute; reflexivity]]
    end
  | cbn; discriminate
  | intros k u' Hk Hl; cbn in Hk;
    repeat (destruct Hk as [<-|Hk]; [vm_compute in Hl; injection Hl as <-; reflexivity|]); destruct Hk ].

Example C17_ex_validated_v : validated_history_v exK empty_state ex_ops.
Proof.
  unfold ex_ops.
  (* genesis: never validated, valid_tx directly *)
  constructor.
  { cbn [vop_v vop]. intros s1 H1. vm_compute in H1. injection H1 as <-. cbn [vgen]. split; [cbn; auto|].
    split.
    - norm_state. cbn [vmembers sn_txs sn_]. split; [|auto].
      intros t Hb _. vm_compute in Hb. injection Hb as <-. solve_valid ltac:(right; right; right).
    - intros s2 _. exact I. }
  norm_state_v. constructor; [exact I|]. norm_state_v. constructor; [exact I|]. norm_state_v.
  constructor; [cbn; auto|]. norm_state_v.
  (* snapshot of the deposit: accepted by the validation model *)
  constructor.
  { cbn [vop_v vmembers_v sn_txs sn_]. split; [|auto].
    intros t Hb _. vm_compute in Hb. injection Hb as <-. solve_accepted vd1. }
  norm_state_v. constructor; [exact I|]. norm_state_v.
  constructor; [exists x1; cbn; repeat split; auto; discriminate|]. norm_state_v.
  constructor; [cbn; auto|]. norm_state_v.
  constructor; [exists w1; cbn; repeat split; auto; discriminate|]. norm_state_v.
  constructor; [cbn; auto 6|]. norm_state_v.
  (* the batch: transfer and withdrawal submission accepted by the validation model; the deposit presented again *)
  constructor.
  { cbn [vop_v vmembers_v sn_txs sn_]. split.
    - intros t Hb _. vm_compute in Hb. injection Hb as <-. solve_accepted vx1.
    - intros s1 H1. vm_compute in H1. injection H1 as <-. split.
      + intros t Hb _. vm_compute in Hb. injection Hb as <-. solve_accepted vw1.
      + intros s2 H2. vm_compute in H2. injection H2 as <-. split; [|auto].
        intros t Hb Hf. vm_compute in Hf. discriminate Hf. }
  constructor.
Qed.

Example C17_ex_instance_v : forall a, let s := run empty_state ex_ops in
  total_of s a = supply_flow s a /\ total_of s a = unconsumed_sum s a /\ 0 <= total_of s a <= capacity a.
Proof. exact (C17_supply_of_validated exK exK_inj ex_ops C17_ex_validated_v). Qed.
