(* C07 - snapshot encoding is canonical and the snapshot hash commits the payload.
   Property theorems only; each is closed by [exact] of a lemma of
   Proofs/SnapCodec.v about the executable model Model/SnapCodec.v, which the
   correspondence harness (harness/cmd/c07) runs against
   common.UnmarshalVersionedSnapshot / VersionedMarshal / PayloadHash.

   Vocabulary (Proofs/SnapCodec.v):
     Bytes b        every element of b is a byte (< 256)
     shape s        1..255 strictly increasing hashes; round 0 -> one tx, no refs;
                    round > 0 -> refs
     fields_ok s    every field fits its Go type (32-byte hashes, uint64, 64-byte sig,
                    a present signature has a non-zero mask)
     wf s           version 2, 1..255 distinct hashes, the round rules, fields_ok
     canon s        s with its transactions in increasing order
     payload_fields (version, node, round, references, sorted transactions, timestamp) *)
From Coq Require Import List ZArith NArith Bool Lia ZifyN ZifyNat.
Require Import Mixin.Base.Res Mixin.Model.SnapCodec Mixin.Proofs.SnapCodec.
Import ListNotations.
Open Scope N_scope.

(* Any byte string the decoder accepts is exactly the encoding of the decoded
   snapshot: with the full 8-byte topology suffix, or with no suffix at all (and
   then the order is 0).  The encoder does not panic on an accepted snapshot. *)
Theorem C07_canonical : forall b s topo,
  unmarshal_snapshot b = Ok (s, topo) -> Bytes b ->
  exists e, enc_snapshot_payload s true = Ok e /\
            versioned_marshal s topo = Ok (e ++ u64 topo) /\
            ((b = e /\ topo = 0) \/ b = e ++ u64 topo).
Proof. exact canonical. Qed.
Print Assumptions C07_canonical.

(* In particular nothing strictly between the two lengths, and nothing longer, is accepted. *)
Theorem C07_no_partial_suffix : forall s topo e k b,
  enc_snapshot_payload s true = Ok e -> Bytes b ->
  unmarshal_snapshot b = Ok (s, topo) -> length b = (length e + k)%nat -> k = 0%nat \/ k = 8%nat.
Proof. exact enc_length_unique. Qed.
Print Assumptions C07_no_partial_suffix.

(* A well-formed snapshot encodes, and both forms decode to it (transactions sorted). *)
Theorem C07_roundtrip : forall s topo, wf s -> topo < u64_bound ->
  exists e, enc_snapshot_payload s true = Ok e /\
            versioned_marshal s topo = Ok (e ++ u64 topo) /\
            unmarshal_snapshot (e ++ u64 topo) = Ok (canon s, topo) /\
            unmarshal_snapshot e = Ok (canon s, 0).
Proof. exact roundtrip. Qed.
Print Assumptions C07_roundtrip.

Theorem C07_roundtrip_sorted_is_identity : forall s, strictly_inc (s_txs s) = true -> canon s = s.
Proof. exact canon_sorted. Qed.
Print Assumptions C07_roundtrip_sorted_is_identity.

(* Accepted snapshots: 1..255 strictly increasing hashes; round 0 has exactly one
   transaction and no references; later rounds carry references; version 2. *)
Theorem C07_shape : forall b s topo,
  unmarshal_snapshot b = Ok (s, topo) -> Bytes b ->
  ((1 <= length (s_txs s) <= 255)%nat /\ strictly_inc (s_txs s) = true /\
   (s_round s = 0 -> length (s_txs s) = 1%nat /\ s_refs s = None) /\
   (s_round s <> 0 -> s_refs s <> None)) /\
  s_version s = snap_version /\ fields_ok s.
Proof. exact accepted_shape. Qed.
Print Assumptions C07_shape.

Theorem C07_decoder_never_panics : forall b, unmarshal_snapshot b <> Panic.
Proof. exact unmarshal_no_panic. Qed.
Print Assumptions C07_decoder_never_panics.

(* The payload encoding is injective in version, node, round, references, sorted
   transactions and timestamp ... *)
Theorem C07_payload_injective : forall s1 s2 p, pfields_ok s1 -> pfields_ok s2 ->
  enc_snapshot_payload (strip_sig s1) false = Ok p ->
  enc_snapshot_payload (strip_sig s2) false = Ok p ->
  payload_fields s1 = payload_fields s2.
Proof. exact payload_injective. Qed.
Print Assumptions C07_payload_injective.

(* ... and a function of these fields alone. *)
Theorem C07_payload_function_of_fields : forall s1 s2,
  payload_fields s1 = payload_fields s2 -> versioned_payload s1 = versioned_payload s2.
Proof. exact versioned_payload_fields. Qed.
Print Assumptions C07_payload_function_of_fields.

(* The snapshot hash is H of the payload encoding, for an arbitrary hash function
   H.  It is the same for equal payload fields; and if H does not collide on the
   two payload encodings, equal hashes force equal payload fields: the hash
   changes with version, node, round, references, transactions and timestamp. *)
Theorem C07_hash_fields : forall (H : list N -> N) s1 s2 h1 h2, pfields_ok s1 -> pfields_ok s2 ->
  payload_hash H s1 = Ok h1 -> payload_hash H s2 = Ok h2 ->
  (payload_fields s1 = payload_fields s2 -> h1 = h2) /\
  ((forall p1 p2, versioned_payload s1 = Ok p1 -> versioned_payload s2 = Ok p2 -> H p1 = H p2 -> p1 = p2) ->
   h1 = h2 -> payload_fields s1 = payload_fields s2).
Proof. exact payload_hash_fields. Qed.
Print Assumptions C07_hash_fields.

Theorem C07_hash_is_H_of_payload : forall (H : list N -> N) s h, payload_hash H s = Ok h ->
  exists p, enc_snapshot_payload (strip_sig s) false = Ok p /\ h = H p /\ s_version s = snap_version.
Proof. exact payload_hash_is_H_of_payload. Qed.
Print Assumptions C07_hash_is_H_of_payload.

(* It never changes with the signature or the local topological order ... *)
Theorem C07_hash_ignores_signature_topology : forall (H : list N -> N) s c c' t t',
  payload_hash_topo H (with_sig s c, t) = payload_hash_topo H (with_sig s c', t').
Proof. exact payload_hash_ignores_sig_topo. Qed.
Print Assumptions C07_hash_ignores_signature_topology.

(* ... nor with the order in which the same transactions are listed. *)
Theorem C07_payload_ignores_listing_order : forall s txs', NoDup (s_txs s) -> NoDup txs' ->
  (forall y, In y (s_txs s) <-> In y txs') ->
  versioned_payload (with_txs s txs') = versioned_payload s.
Proof. exact payload_listing_order. Qed.
Print Assumptions C07_payload_ignores_listing_order.

(* ---- non-vacuity --------------------------------------------------------------- *)

Definition ex_genesis : snapshot := MkSnap 2 17 0 None [5] 1 None.
Definition ex_later : snapshot :=
  MkSnap 2 (2 ^ 255 + 3) 7 (Some (11, 2 ^ 200)) [9; 2 ^ 256 - 1; 4] (2 ^ 64 - 1) (Some (1, 2 ^ 511 + 1)).

Ltac dec_lt := apply N.ltb_lt; vm_compute; reflexivity.

Example C07_ex_wf_genesis : wf ex_genesis.
Proof.
  unfold wf, fields_ok, ex_genesis; cbn [s_version s_node s_round s_refs s_txs s_ts s_sig length refs_ok sig_ok].
  repeat split; try dec_lt; try (cbn; lia); try discriminate; try (intros Hc; exfalso; apply Hc; reflexivity).
  - constructor; [intros []|constructor].
  - constructor; [dec_lt|constructor].
Qed.

Example C07_ex_wf_later : wf ex_later.
Proof.
  unfold wf, fields_ok, ex_later; cbn [s_version s_node s_round s_refs s_txs s_ts s_sig length refs_ok sig_ok].
  repeat split; try dec_lt; try (cbn; lia); try discriminate.
  - repeat constructor; cbn [In]; intros Hin;
      repeat (destruct Hin as [Hin|Hin]; [vm_compute in Hin; discriminate Hin|]); exact Hin.
  - repeat constructor; dec_lt.
Qed.

(* the round trip computed; the transactions come back sorted; the F3 witness
   (topology suffix cut to 1..7 bytes) and every extension are rejected *)
Example C07_ex_roundtrip :
  (exists e, versioned_marshal ex_later 258 = Ok e /\ length e = 296%nat /\
     unmarshal_snapshot e = Ok (canon ex_later, 258) /\
     unmarshal_snapshot (firstn 288 e) = Ok (canon ex_later, 0) /\
     s_txs (canon ex_later) = [4; 9; 2 ^ 256 - 1] /\
     forallb (fun k => negb (is_ok (unmarshal_snapshot (firstn k e))))
             [289; 290; 291; 292; 293; 294; 295]%nat = true /\
     unmarshal_snapshot (e ++ [0]) = Err /\
     forallb (fun k => negb (is_ok (unmarshal_snapshot (firstn k e)))) (seq 0 288) = true)
  /\ (exists e, versioned_marshal ex_genesis 0 = Ok e /\ unmarshal_snapshot e = Ok (ex_genesis, 0)
        /\ unmarshal_snapshot (firstn (length e - 8) e) = Ok (ex_genesis, 0)).
Proof.
  split; eexists; (split; [vm_compute; reflexivity|]); vm_compute; repeat split.
Qed.

Example C07_ex_encoder_panics :
  versioned_marshal (MkSnap 2 1 3 (Some (1, 1)) [5; 5] 1 None) 0 = Panic /\
  versioned_marshal (MkSnap 2 1 0 None [5; 6] 1 None) 0 = Panic /\
  versioned_marshal (MkSnap 2 1 3 (Some (1, 1)) [] 1 None) 0 = Panic /\
  versioned_marshal (MkSnap 2 1 3 (Some (1, 1)) [5] 1 (Some (0, 9))) 0 = Panic /\
  versioned_marshal (MkSnap 3 1 3 (Some (1, 1)) [5] 1 None) 0 = Panic /\
  versioned_payload (with_sig ex_later None) = versioned_payload ex_later /\
  is_ok (versioned_payload ex_later) = true /\
  pfields_ok ex_later.
Proof.
  split; [vm_compute; reflexivity|]. split; [vm_compute; reflexivity|].
  split; [vm_compute; reflexivity|]. split; [vm_compute; reflexivity|].
  split; [vm_compute; reflexivity|]. split; [reflexivity|]. split; [vm_compute; reflexivity|].
  unfold pfields_ok, ex_later; cbn [s_node s_round s_refs s_txs s_ts refs_ok].
  split; [dec_lt|]. split; [dec_lt|]. split; [split; dec_lt|]. split; [|dec_lt].
  repeat constructor; dec_lt.
Qed.
