(* C21 - consensus bookkeeping survives a crash after any finalization.

   Model/Crash.v: a workload is the list of atomic durable calls a kernel issues at the
   storage.Store interface ([wf_calls]: the guards enforced by the kernel and by the store's
   assertions; other chains' ordinary WriteSnapshot calls may be interleaved anywhere, also
   between a consensus-class WriteSnapshot and its marker write).  A crash keeps the first k
   calls ([crash_state]); [recover] is kernel.SetupNode, [repair] its LastSnapshot-based
   marker repair, [last_cons] the last consensus-class snapshot of the topology. *)
From Coq Require Import List ZArith NArith Bool.
Require Import Mixin.Base.Res Mixin.Model.Crash Mixin.Proofs.Crash.
Import ListNotations.
Open Scope N_scope.

(* the call sequence observed on the real node for the corpus workload "corpus-F6":
   deposit; node pledge (snapshot 9) whose marker write is overtaken by another chain's
   deposit snapshot 10 *)
Definition f6_workload : list call :=
  [CCache 8; CLockGhost 8; CLockIn 8; CWriteTx 8; CWriteSnap 8 1 1 [8] false 0;
   CCache 9; CLockGhost 9; CNodeOp 9; CLockIn 9; CWriteTx 9; CWriteSnap 9 3 1 [9] true 7;
   CCache 10; CLockGhost 10; CLockIn 10; CWriteTx 10; CWriteSnap 10 2 1 [10] false 0;
   CMarker 9].

(* F6: consensus snapshot 9 is durably finalized, an ordinary snapshot of another chain
   follows, the process stops before the marker write: the restarted node still records the
   genesis operation 7. *)
Theorem C21_refuted :
  exists l k c m, wf_calls (genesis 7) l = true /\
    last_cons (topo (crash_state 7 l k)) = Some c /\
    marker_lost_region (crash_state 7 l k) = true /\
    recover (crash_state 7 l k) = Ok m /\ m <> s_id c.
Proof.
  exists f6_workload, 16%nat,
    {| s_id := 9; s_chain := 3; s_round := 1; s_txs := [9]; s_cons := true; s_ref := 7 |}, 7.
  vm_compute. repeat split; try reflexivity. discriminate.
Qed.
Print Assumptions C21_refuted.

(* Outside that region - the last durably finalized consensus snapshot c is recorded already
   or no snapshot follows it in topology order - for every workload, every interleaving and
   every crash point: c is at or after every consensus snapshot of the topology, the startup
   repair yields c, whatever restart returns is c, and restart does return c unless the cut
   lies inside a node-accept sequence (C22's finding). *)
Theorem C21_outside : forall n l k, wf_calls (genesis n) l = true ->
  let st := crash_state n l k in
  exists c, last_cons (topo st) = Some c /\
    (forall c', In c' (topo st) -> s_cons c' = true ->
       exists newer older, topo st = newer ++ c :: older /\
         (forall x, In x newer -> s_cons x = false) /\ (c' = c \/ In c' older)) /\
    (marker_lost_region st = false ->
       repair st = Ok (s_id c) /\
       (forall m, recover st = Ok m -> m = s_id c) /\
       (in_accept_window st = false -> recover st = Ok (s_id c))).
Proof. exact c21_outside. Qed.
Print Assumptions C21_outside.

(* Non-vacuity: the control workload (same pledge, nothing interleaved) is a workload; cut
   right after the consensus WriteSnapshot it is outside the region and restart records 9;
   the complete F6 workload is outside the region as well. *)
Example C21_outside_applies :
  let l := [CCache 8; CLockGhost 8; CLockIn 8; CWriteTx 8; CWriteSnap 8 1 1 [8] false 0;
            CCache 9; CLockGhost 9; CNodeOp 9; CLockIn 9; CWriteTx 9; CWriteSnap 9 3 1 [9] true 7;
            CMarker 9; CCache 10; CLockGhost 10; CLockIn 10; CWriteTx 10; CWriteSnap 10 2 1 [10] false 0] in
  wf_calls (genesis 7) l = true /\
  marker_lost_region (crash_state 7 l 11) = false /\ recover (crash_state 7 l 11) = Ok 9 /\
  marker (crash_state 7 l 11) = 7 /\
  marker_lost_region (crash_state 7 f6_workload 17) = false /\ recover (crash_state 7 f6_workload 17) = Ok 9.
Proof. vm_compute. repeat split; reflexivity. Qed.
