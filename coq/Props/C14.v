(* C14 - aggregate transaction signatures are sound and bound to their signer
   set.  Property theorems only, over the executable model Model/Aggregate.v of
   crypto/aggregation.go (discrete-log representation of the prime-order group,
   arbitrary prime order l, abstract point encoding enc and hash-to-scalar H).
   The correspondence harness (harness/cmd/c14) runs the model against
   AggregateSign / AggregateVerify, signature bytes included. *)
From Coq Require Import List ZArith NArith Bool Znumtheory Lia.
Require Import Mixin.Base.Res Mixin.Gen.Consts Mixin.Model.Group Mixin.Model.Aggregate.
Require Import Mixin.Proofs.Group Mixin.Proofs.Aggregate.
Import ListNotations.
Open Scope Z_scope.

(* A sorted in-range signer list over decodable keys, the matching private
   keys, a seed of at least 32 bytes: AggregateSign returns a signature, and it
   verifies for exactly these keys, signers and message (unless the weighted
   key or the aggregated nonce is the identity, which decodePoint refuses). *)
Theorem C14_complete : forall l enc H keys signers seed m, 0 < l ->
  signers_ok l keys signers -> Forall (fun i => i <= 65535) signers -> (32 <= length seed)%nat ->
  exists r s,
    aggregate_sign l enc H (map (key_at keys) signers) keys signers seed m = Ok (r, s) /\
    (point_ok l (weighted_key_of l enc H (sel_of keys signers)) = true -> point_ok l r = true ->
     aggregate_verify l enc H r s keys signers m = Ok tt).
Proof. exact sign_complete. Qed.
Print Assumptions C14_complete.

(* Whatever AggregateSign returns satisfies S.B = R + c.A for the weighted key A
   of its own signer set (private keys that do not match are refused). *)
Theorem C14_sign_sound : forall l enc H privs keys signers seed m r s, 0 < l ->
  aggregate_sign l enc H privs keys signers seed m = Ok (r, s) ->
  signers_ok l keys signers /\ 0 <= r < l /\ 0 <= s < l /\
  let a := weighted_key_of l enc H (sel_of keys signers) in
  cg l s (r + chal enc H r a m * a).
Proof. exact sign_sound. Qed.
Print Assumptions C14_sign_sound.

(* Empty, unsorted, duplicated or out-of-range signer lists (and undecodable
   selected keys) are refused by signing and verification alike, whatever the
   encoding and the hash are: no arithmetic is involved. *)
Theorem C14_order_range : forall l enc H keys signers,
  ~ signers_ok l keys signers ->
  collect_signers l keys signers = Err /\
  (forall privs seed m, aggregate_sign l enc H privs keys signers seed m = Err) /\
  (forall r s m, aggregate_verify l enc H r s keys signers m = Err).
Proof. exact order_range. Qed.
Print Assumptions C14_order_range.

Theorem C14_signers_ok_iff : forall l keys s,
  collect_signers l keys s = Ok (sel_of keys s) <-> signers_ok l keys s.
Proof.
  intros l keys s. rewrite collect_signers_eq, <- signers_okb_iff.
  destruct (signers_okb l keys s); split; intros; try reflexivity; discriminate.
Qed.
Print Assumptions C14_signers_ok_iff.

(* Binding: if one signature verifies for (keys, signers, m) and for
   (keys', signers', m'), the two challenges c, c' and the two weighted keys
   A, A' satisfy c'.A' = c.A; for a prime order, c' - the hash of the second
   transcript - must be the one value c.A/A'. *)
Theorem C14_binding : forall l enc H r s keys signers m keys' signers' m', prime l ->
  aggregate_verify l enc H r s keys signers m = Ok tt ->
  aggregate_verify l enc H r s keys' signers' m' = Ok tt ->
  let a := weighted_key_of l enc H (sel_of keys signers) in
  let a' := weighted_key_of l enc H (sel_of keys' signers') in
  exists w, (a' * w) mod l = 1 mod l /\
            chal enc H r a' m' mod l = (chal enc H r a m * a * w) mod l.
Proof. exact binding_challenge. Qed.
Print Assumptions C14_binding.

(* ... so either the two challenge transcripts coincide (same encoded weighted
   key and same message: a collision of the weighted keys of two different
   signer transcripts), or the hash of a different transcript hits that value. *)
Theorem C14_binding_dichotomy : forall l enc H r s keys signers m keys' signers' m', prime l ->
  aggregate_verify l enc H r s keys signers m = Ok tt ->
  aggregate_verify l enc H r s keys' signers' m' = Ok tt ->
  let a := weighted_key_of l enc H (sel_of keys signers) in
  let a' := weighted_key_of l enc H (sel_of keys' signers') in
  challenge_input enc r a m = challenge_input enc r a' m' \/
  (challenge_input enc r a m <> challenge_input enc r a' m' /\
   exists w, (a' * w) mod l = 1 mod l /\
             H (challenge_input enc r a' m') mod l = (H (challenge_input enc r a m) * a * w) mod l).
Proof.
  intros l enc H r s keys signers m keys' signers' m' Hp H1 H2. cbv zeta.
  destruct (list_eq_dec N.eq_dec
              (challenge_input enc r (weighted_key_of l enc H (sel_of keys signers)) m)
              (challenge_input enc r (weighted_key_of l enc H (sel_of keys' signers')) m')) as [E|E];
    [left; exact E | right; split; [exact E|]].
  exact (binding_challenge l enc H _ _ _ _ _ _ _ _ Hp H1 H2).
Qed.
Print Assumptions C14_binding_dichotomy.

(* Subset: a signature AggregateSign built with the private keys of S verifies
   for another signer set S' (for instance S' > S) exactly when the one linear
   relation c.A_S = c'.A_S' over the hash-derived coefficients holds. *)
Theorem C14_subset : forall l enc H privs keys signers seed m r s keys' signers' m', 0 < l ->
  aggregate_sign l enc H privs keys signers seed m = Ok (r, s) ->
  signers_ok l keys' signers' ->
  let a := weighted_key_of l enc H (sel_of keys signers) in
  let a' := weighted_key_of l enc H (sel_of keys' signers') in
  (aggregate_verify l enc H r s keys' signers' m' = Ok tt <->
   0 < a' < l /\ 0 < r < l /\ cg l (chal enc H r a m * a) (chal enc H r a' m' * a')).
Proof. exact subset_relation. Qed.
Print Assumptions C14_subset.

(* Rogue key x.B - K_v beside K_v: the weighted key still contains the victim's
   key with factor (a_v - a_rogue); it cancels only if two transcript hashes
   coincide. *)
Theorem C14_rogue_key : forall l enc H i j kv kr x, cg l kr (x - kv) ->
  let sel := [(i, kv); (j, kr)] in
  let tr := transcript enc sel in
  cg l (weighted_key_of l enc H sel)
       (coef enc H tr (j, kr) * x + (coef enc H tr (i, kv) - coef enc H tr (j, kr)) * kv).
Proof. exact rogue_key. Qed.
Print Assumptions C14_rogue_key.


(* The byte-level transcripts are injective (fixed-width fields): given an
   encoding that is injective on [0,l) and 32 bytes wide, signer indexes below
   2^32 and keys in [0,l), the signer transcript (count, then index as uint32
   and key bytes per signer) determines the signer list and the keys at those
   positions; a coefficient transcript (domain, signer transcript, index, key)
   determines all three; the challenge transcript determines R, the weighted
   key and the message. *)
Theorem C14_transcript_injective : forall l enc,
  (forall a b, 0 <= a < l -> 0 <= b < l -> enc a = enc b -> a = b) ->
  (forall a, (enc a < n256)%N) ->
  (forall sel sel', Forall (entry_ok l) sel -> Forall (entry_ok l) sel' ->
     transcript enc sel = transcript enc sel' -> sel = sel') /\
  (forall tr tr' ik ik', entry_ok l ik -> entry_ok l ik' ->
     coef_input enc tr ik = coef_input enc tr' ik' -> tr = tr' /\ ik = ik') /\
  (forall r a m r' a' m', (m < n256)%N -> (m' < n256)%N ->
     challenge_input enc r a m = challenge_input enc r' a' m' -> enc r = enc r' /\ enc a = enc a' /\ m = m').
Proof.
  intros l enc Hinj Hr. split; [|split].
  - exact (transcript_inj l enc Hinj Hr).
  - exact (coef_input_inj l enc Hinj Hr).
  - exact (challenge_input_inj enc Hr).
Qed.
Print Assumptions C14_transcript_injective.

(* Binding restated over signer sets, keys and message (C14_binding_dichotomy
   with "transcripts coincide" resolved by injectivity): a signature accepted
   for (keys, signers, m) and for (keys', signers', m') means
   (i) the same signer list, the same keys at those positions and the same message; or
   (ii) different signer transcripts whose weighted keys collide although every
        coefficient on one side is the hash of an input different from every
        coefficient input on the other side; or
   (iii) the hash of a different challenge transcript equals the one value c.A/A'. *)
Theorem C14_binding_sets : forall l enc H r s keys signers m keys' signers' m',
  (forall a b, 0 <= a < l -> 0 <= b < l -> enc a = enc b -> a = b) ->
  (forall a, (enc a < n256)%N) ->
  prime l -> (m < n256)%N -> (m' < n256)%N ->
  Z.of_nat (length keys) <= 2 ^ 32 -> Z.of_nat (length keys') <= 2 ^ 32 ->
  aggregate_verify l enc H r s keys signers m = Ok tt ->
  aggregate_verify l enc H r s keys' signers' m' = Ok tt ->
  let sel := sel_of keys signers in let sel' := sel_of keys' signers' in
  let a := weighted_key_of l enc H sel in let a' := weighted_key_of l enc H sel' in
  (sel = sel' /\ m = m') \/
  (sel <> sel' /\ m = m' /\ a = a' /\
   forall ik ik', In ik sel -> In ik' sel' ->
     coef_input enc (transcript enc sel) ik <> coef_input enc (transcript enc sel') ik') \/
  (challenge_input enc r a m <> challenge_input enc r a' m' /\
   exists w, (a' * w) mod l = 1 mod l /\
             H (challenge_input enc r a' m') mod l = (H (challenge_input enc r a m) * a * w) mod l).
Proof. intros l enc H r s keys signers m keys' signers' m' Hinj Hr. exact (binding_sets l enc Hinj Hr H r s keys signers m keys' signers' m'). Qed.
Print Assumptions C14_binding_sets.

(* sel_of equality is equality of the signer lists and of the keys they select *)
Theorem C14_sel_eq : forall keys s keys' s', sel_of keys s = sel_of keys' s' ->
  s = s' /\ map (key_at keys) s = map (key_at keys') s'.
Proof.
  intros keys s keys' s' E. split.
  - apply (f_equal (map fst)) in E. unfold sel_of in E. rewrite !map_map in E. cbn [fst] in E.
    rewrite !map_id in E. exact E.
  - apply (f_equal (map snd)) in E. unfold sel_of in E. rewrite !map_map in E. exact E.
Qed.
Print Assumptions C14_sel_eq.

(* Non-vacuity over l = 13 with a toy encoding and hash. *)
Definition ex_enc (p : Z) : N := Z.to_N (p + 100).
Definition ex_H (b : list N) : Z := Z.of_N (fold_left (fun acc x => (acc * 7 + x + 3) mod 13)%N b 5%N).

Example C14_ex_sign_verify :
  let keys := [3; 5; 11; 6] in let signers := [0; 2; 3] in
  let seed := repeat 9%N 32 in
  signers_okb 13 keys signers = true /\
  match aggregate_sign 13 ex_enc ex_H [3; 11; 6] keys signers seed 77%N with
  | Ok (r, s) =>
      [aggregate_verify 13 ex_enc ex_H r s keys signers 77%N;
       aggregate_verify 13 ex_enc ex_H r s keys [0; 2] 77%N;
       aggregate_verify 13 ex_enc ex_H r s keys [2; 0; 3] 77%N;
       aggregate_verify 13 ex_enc ex_H r s keys [0; 2; 2; 3] 77%N;
       aggregate_verify 13 ex_enc ex_H r s keys [0; 2; 4] 77%N;
       aggregate_verify 13 ex_enc ex_H r s keys signers 78%N]
      = [Ok tt; Err; Err; Err; Err; Err]
  | _ => False
  end.
Proof. vm_compute. split; reflexivity. Qed.

(* the toy encoding meets the injectivity hypotheses, and transcripts of
   different signer lists / keys differ *)
Example C14_ex_transcripts :
  (forall a b, 0 <= a < 13 -> 0 <= b < 13 -> ex_enc a = ex_enc b -> a = b) /\
  transcript ex_enc [(0, 3); (2, 11)] <> transcript ex_enc [(0, 3); (1, 11)] /\
  transcript ex_enc [(0, 3); (2, 11)] <> transcript ex_enc [(0, 3); (2, 6)] /\
  transcript ex_enc [(0, 3); (2, 11)] <> transcript ex_enc [(0, 3)] /\
  length (transcript ex_enc [(0, 3); (2, 11)]) = 76%nat.
Proof.
  split; [|vm_compute; repeat split; discriminate].
  intros a b Ha Hb E. unfold ex_enc in E. apply Z2N.inj in E; lia.
Qed.
