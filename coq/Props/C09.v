(* C09 - a snapshot is final only with a threshold certificate from historical
   keys; a remembered verification equals a fresh one.
   Property theorems only; lemmas are in Proofs/Finality.v, the executable model
   (Model/Finality.v over Model/Membership.v) is run against
   kernel/graph.go verifyFinalization / cacheVerifyCosi by harness/cmd/c09.
   The signature equation (aggregate the selected keys, Schnorr-verify over the
   hash) is the abstract predicate [agg_verify]: that a verifying triple cannot
   be re-used for other keys or another hash is the crypto layer's concern
   (C13/C14) and appears below only as an explicit hypothesis. *)
From Coq Require Import List ZArith NArith Bool.
Require Import Mixin.Base.Res Mixin.Model.Membership Mixin.Model.Finality
               Mixin.Proofs.Membership Mixin.Proofs.Finality Mixin.Proofs.MembershipPerm.
Import ListNotations.
Open Scope N_scope.

(* Accepted => version and signature present, mask non-zero, timestamp not
   before the epoch, and a certificate for the key set of the effective
   timestamp: every mask bit below the number of keys at that time, at least
   threshold(ts) bits, the aggregate predicate true for exactly the masked keys
   of that historical key set and the snapshot hash, signers = the masked ids.
   The only alternative is the pre-fork mainnet retry with the key set of the
   start of the node-operation window (strictly larger key set), never taken
   once the signer-set fork is active or off mainnet. *)
Theorem C09_sound : forall agg_verify nd ch s signers,
  verify_fresh agg_verify nd ch s = Ok (signers, true) ->
  s_version s = snapshot_version /\ s_has_sig s = true /\ s_mask s <> 0 /\
  n_epoch nd <= effective_ts s /\
  (certificate_ok agg_verify nd ch s (effective_ts s) signers \/
   (use_predictive nd (effective_ts s) = false /\ accept_hour nd (effective_ts s) = true /\
    (length (consensus_keys nd ch (s_round s) (effective_ts s))
     < length (consensus_keys nd ch (s_round s) (legacy_ts nd (effective_ts s))))%nat /\
    certificate_ok agg_verify nd ch s (legacy_ts nd (effective_ts s)) signers)).
Proof. exact (fun a => verify_fresh_sound a (fun x => x)). Qed.
Print Assumptions C09_sound.

(* what a certificate is, spelled out *)
Theorem C09_certificate_meaning : forall agg_verify nd ch s ts signers,
  certificate_ok agg_verify nd ch s ts signers ->
  exists thr sel,
    consensus_threshold nd ts true = Ok thr /\ 0 < thr /\
    thr <= N.of_nat (length (mask_keys (s_mask s))) /\
    Forall (fun i => (i < length (consensus_keys nd ch (s_round s) ts))%nat) (mask_keys (s_mask s)) /\
    select (consensus_keys nd ch (s_round s) ts) (mask_keys (s_mask s)) = Some sel /\
    agg_verify sel (s_hash s) (s_sig s) = true /\
    select (consensus_ids nd ch (s_round s) ts) (mask_keys (s_mask s)) = Some signers.
Proof. intros agg_verify nd ch s ts signers H. exact H. Qed.
Print Assumptions C09_certificate_meaning.

(* With the signer-set fork active (or off mainnet) and an ordinary hash the
   certificate is over the key set at the snapshot's own timestamp. *)
Theorem C09_sound_at_timestamp : forall agg_verify nd ch s signers,
  use_predictive nd (s_ts s) = true -> s_hash s <> hack_hash ->
  verify_fresh agg_verify nd ch s = Ok (signers, true) ->
  certificate_ok agg_verify nd ch s (s_ts s) signers.
Proof.
  intros agg_verify nd ch s signers Hp Hh H.
  apply (verify_fresh_sound agg_verify (fun x => x)) in H. destruct H as (_ & _ & _ & _ & H).
  assert (He : effective_ts s = s_ts s).
  { unfold effective_ts. destruct (s_hash s =? hack_hash) eqn:E; [apply N.eqb_eq in E; contradiction|reflexivity]. }
  rewrite He in H. destruct H as [H|(Hn & _)]; [exact H|congruence].
Qed.
Print Assumptions C09_sound_at_timestamp.

(* The memo key (hash || signature || publics || uint64(threshold) || mask) is
   injective in every argument it contains, for thresholds that are Go ints. *)
Theorem C09_memo_key_injective : forall h1 s1 p1 t1 m1 h2 s2 p2 t2 m2,
  int_range t1 -> int_range t2 ->
  memo_key h1 s1 p1 t1 m1 = memo_key h2 s2 p2 t2 m2 ->
  h1 = h2 /\ s1 = s2 /\ p1 = p2 /\ t1 = t2 /\ m1 = m2.
Proof. exact memo_key_inj. Qed.
Print Assumptions C09_memo_key_injective.

(* For EVERY sequence of finalization queries - each against its own membership
   state, chain and snapshot - answered through the one memo table started
   empty, every answer equals the memoryless verification.  The result depends
   on (hash, signature, mask, publics, threshold) - all in the key - and on the
   id vector, which is not in the key: the hypothesis is that ids are a function
   [id_of] of the signer keys (they are: the id is the hash of the address
   derived from the spend key).  The membership lists are shorter than 2^62. *)
Theorem C09_memo : forall agg_verify (id_of : N -> N) qs,
  Forall (query_ok id_of) qs ->
  run_memo agg_verify qs []
  = map (fun q => verify_fresh agg_verify (fst (fst q)) (snd (fst q)) (snd q)) qs.
Proof. intros. apply (run_memo_fresh agg_verify id_of); [apply tbl_ok_nil|assumption]. Qed.
Print Assumptions C09_memo.

(* the hypothesis of C09_memo follows from the stored records *)
Theorem C09_memo_hypothesis_from_records : forall (id_of : N -> N) recs genesis epoch mainnet ch s,
  N.of_nat (length recs) < 2 ^ 62 ->
  Forall (fun r => r_id r = id_of (r_key r)) recs ->
  (forall info, ch_info ch = Some info -> r_id info = id_of (r_key info)) ->
  query_ok id_of (load_node recs genesis epoch mainnet, ch, s).
Proof.
  intros. split; cbn [fst snd].
  - apply small_node_of_records; assumption.
  - apply ids_from_keys_of_records; assumption.
Qed.
Print Assumptions C09_memo_hypothesis_from_records.

(* Tampering: an accepted certificate feeds the predicate exactly the masked
   keys of the key set, the snapshot hash and the signature (C09_sound); over a
   duplicate-free key set two masks selecting the same keys are the same mask, so
   any change of mask, hash, signature or key set changes the predicate's
   arguments. *)
Theorem C09_tamper_mask : forall (keys : list N) m1 m2 sel,
  NoDup keys -> m1 < two64 -> m2 < two64 ->
  select keys (mask_keys m1) = Some sel -> select keys (mask_keys m2) = Some sel -> m1 = m2.
Proof.
  intros keys m1 m2 sel Hnd H1 H2 S1 S2. apply mask_keys_inj; [assumption|assumption|].
  apply (select_inj_idx keys _ _ sel Hnd S1 S2).
Qed.
Print Assumptions C09_tamper_mask.

(* If the predicate binds a signature to one key selection and one hash (the
   crypto layer's property), then after one certificate is accepted no snapshot
   carrying the same signature with another mask or another hash has a
   certificate for the same key set. *)
Theorem C09_tamper_rejected : forall agg_verify nd ch s s' ts signers signers',
  (forall sel sel' h h' sg, agg_verify sel h sg = true -> agg_verify sel' h' sg = true -> sel = sel' /\ h = h') ->
  NoDup (consensus_keys nd ch (s_round s) ts) ->
  s_round s' = s_round s -> s_sig s' = s_sig s -> s_mask s < two64 -> s_mask s' < two64 ->
  certificate_ok agg_verify nd ch s ts signers ->
  certificate_ok agg_verify nd ch s' ts signers' ->
  s_mask s' = s_mask s /\ s_hash s' = s_hash s.
Proof.
  intros agg_verify nd ch s s' ts signers signers' Hbind Hnd Hr Hs Hm Hm' C C'.
  destruct C as (thr & sel & _ & _ & _ & _ & S1 & A1 & _).
  destruct C' as (thr' & sel' & _ & _ & _ & _ & S2 & A2 & _).
  rewrite Hr, Hs in *. destruct (Hbind _ _ _ _ _ A1 A2) as [-> Hh].
  split; [|symmetry; exact Hh].
  symmetry. apply (C09_tamper_mask _ _ _ sel' Hnd Hm Hm' S1 S2).
Qed.
Print Assumptions C09_tamper_rejected.

(* The decision does not depend on the order in which the Go runtime iterates
   the node map while the membership views are built: with or without the memo. *)
Theorem C09_map_order_irrelevant : forall agg_verify iter recs genesis epoch mainnet ch s t,
  is_iteration iter ->
  verify_fresh agg_verify (load_node_with iter recs genesis epoch mainnet) ch s
  = verify_fresh agg_verify (load_node recs genesis epoch mainnet) ch s /\
  verify_finalization agg_verify (load_node_with iter recs genesis epoch mainnet) ch s t
  = verify_finalization agg_verify (load_node recs genesis epoch mainnet) ch s t.
Proof. intros. rewrite load_node_with_eq by assumption. split; reflexivity. Qed.
Print Assumptions C09_map_order_irrelevant.

(* ---- non-vacuity ------------------------------------------------------------------ *)
Definition ex_epoch : N := 1700000000000000000.
Definition ex_gen (i : N) : nrec := mkrec ex_epoch (10 + i) (100 + i) (200 + i) (300 + i) Accepted.
Definition ex_recs : list nrec := map ex_gen [7; 3; 5; 1; 8; 2; 6; 4].
Definition ex_node : mnode := load_node ex_recs (map r_id ex_recs) ex_epoch false.
Definition ex_chain : mchain := mkchain None true.
Fixpoint nl_eqb (a b : list N) : bool :=
  match a, b with [], [] => true | x :: a', y :: b' => (x =? y) && nl_eqb a' b' | _, _ => false end.
(* the equation holds only for keys 101..106 over hash 5 with signature 9 *)
Definition ex_agg (sel : list N) (h sg : N) : bool :=
  nl_eqb sel [101; 102; 103; 104; 105; 106] && (h =? 5) && (sg =? 9).
Definition ex_snap (mask sg h : N) : msnap :=
  mksnap snapshot_version true mask sg h (ex_epoch + one_day) 1.

Example C09_accepts_honest_certificate :
  verify_fresh ex_agg ex_node ex_chain (ex_snap 63 9 5) = Ok ([11; 12; 13; 14; 15; 16], true) /\
  consensus_threshold ex_node (ex_epoch + one_day) true = Ok 6 /\
  use_predictive ex_node (ex_epoch + one_day) = true.
Proof. vm_compute. repeat split; reflexivity. Qed.

(* below threshold, other mask, other hash, other signature: all refused *)
Example C09_rejects_forgeries :
  map (verify_fresh ex_agg ex_node ex_chain)
      [ex_snap 31 9 5; ex_snap 95 9 5; ex_snap 63 9 6; ex_snap 63 8 5; ex_snap 0 9 5; ex_snap 319 9 5]
  = repeat (Ok ([], false)) 6.
Proof. vm_compute. reflexivity. Qed.

(* the hypotheses of C09_memo hold for the example and the memo is really hit *)
Example C09_memo_applies :
  let qs := [(ex_node, ex_chain, ex_snap 63 9 5); (ex_node, ex_chain, ex_snap 31 9 5);
             (ex_node, ex_chain, ex_snap 63 9 5); (ex_node, ex_chain, ex_snap 31 9 5)] in
  Forall (query_ok (fun k => k - 90)) qs /\
  run_memo ex_agg qs [] = [Ok ([11; 12; 13; 14; 15; 16], true); Ok ([], false);
                           Ok ([11; 12; 13; 14; 15; 16], true); Ok ([], false)] /\
  (exists v, memo_get (memo_key 5 9 (consensus_keys ex_node ex_chain 1 (ex_epoch + one_day)) 6 63)
                      (match verify_finalization ex_agg ex_node ex_chain (ex_snap 63 9 5) [] with
                       | Ok (_, t) => t | _ => [] end) = Some v).
Proof.
  split; [|split].
  - assert (Q : forall s, query_ok (fun k => k - 90) (ex_node, ex_chain, s)).
    { intros s. apply C09_memo_hypothesis_from_records.
      - vm_compute. reflexivity.
      - repeat constructor.
      - intros info H. discriminate. }
    repeat constructor; apply Q.
  - vm_compute. reflexivity.
  - vm_compute. eexists. reflexivity.
Qed.
