(* C28 - consensus operations form a serialized single-transaction chain.
   Property theorems only; lemmas are in Proofs/KernelSnap.v about the
   executable model Model/KernelSnap.v (common.TransactionType /
   IsSnapshotBatchable, kernel validateKernelSnapshot /
   validateConsensusTransactionReferences, storage writeConsensusSnapshot),
   which harness/cmd/c28 runs against the real node and store. *)
From Coq Require Import List ZArith NArith Bool.
Require Import Mixin.Base.Res Mixin.Gen.Consts Mixin.Model.KernelSnap Mixin.Proofs.KernelSnap.
Import ListNotations.
Open Scope Z_scope.

(* A mint, membership or custodian operation is never a batchable class. *)
Theorem C28_consensus_class_not_batchable :
  forall ty, is_consensus_class ty = true -> is_batchable ty = false.
Proof. exact consensus_not_batchable. Qed.
Print Assumptions C28_consensus_class_not_batchable.

(* An accepted snapshot with more than one transaction contains only batchable
   classes (for every network, finality flag and operation-validator outcome). *)
Theorem C28_batch : forall mainnet s found fin last tok,
  validate_kernel_snapshot mainnet s found fin last tok = Ok tt ->
  (1 < length (ks_txs s))%nat ->
  forall h t, In (h, t) found -> is_batchable (k_type t) = true.
Proof. exact c28_batch. Qed.
Print Assumptions C28_batch.

(* Every consensus-class transaction of an accepted snapshot is alone in it;
   it references the last recorded consensus operation and its snapshot is
   strictly later - or it is that last recorded operation itself (a second
   validation of an operation already recorded; recording it again is a no-op,
   see C28_single_chain).  Outside the one historical exemption the code
   carries: finalized mainnet snapshots before the reference fork time. *)
Theorem C28_alone_and_linked : forall mainnet s found fin last tok h tx,
  validate_kernel_snapshot mainnet s found fin last tok = Ok tt ->
  (fin && mainnet && (ks_ts s <? Consts.KsConsensusReferenceForkAt)) = false ->
  In (h, tx) found -> is_consensus_class (k_type tx) = true ->
  (length (ks_txs s) <= 1)%nat /\
  (forall h0, ks_txs s = [h0] -> klookup h0 found = Some tx ->
     exists ltx, cs_txs last = [ltx] /\
       (ltx = k_hash tx \/ (hd_error (k_refs tx) = Some ltx /\ cs_ts last < ks_ts s))).
Proof. exact c28_alone_linked. Qed.
Print Assumptions C28_alone_and_linked.

(* The same link, for the reference check taken alone. *)
Theorem C28_reference_check : forall s tx last,
  validate_consensus_refs s tx last = Ok tt ->
  is_consensus_class (k_type tx) = true ->
  exists ltx, cs_txs last = [ltx] /\
    (ltx = k_hash tx \/ (hd_error (k_refs tx) = Some ltx /\ cs_ts last < ks_ts s)).
Proof. exact refs_linked. Qed.
Print Assumptions C28_reference_check.

(* The same through validateSnapshotTransaction, whatever mix of members is
   already in persistent storage (validated and stored by an earlier round that
   was never finalized) or only cached: an accepted member list of a snapshot
   with more than one transaction is all batchable, and an accepted single
   consensus-class member is linked and strictly later. *)
Theorem C28_stored_members_batch : forall mainnet s fin last tok ms,
  snapshot_tx_rules mainnet s fin last tok [] ms = Ok tt ->
  (1 < length (ks_txs s))%nat ->
  forall m, In m ms -> is_batchable (k_type (m_tx m)) = true.
Proof. exact c28_members_batchable. Qed.
Print Assumptions C28_stored_members_batch.

Theorem C28_stored_member_alone_and_linked : forall mainnet s fin last tok m,
  snapshot_tx_rules mainnet s fin last tok [] [m] = Ok tt ->
  (fin && mainnet && (ks_ts s <? Consts.KsConsensusReferenceForkAt)) = false ->
  ks_txs s = [m_hash m] -> is_consensus_class (k_type (m_tx m)) = true ->
  exists ltx, cs_txs last = [ltx] /\
    (ltx = k_hash (m_tx m) \/ (hd_error (k_refs (m_tx m)) = Some ltx /\ cs_ts last < ks_ts s)).
Proof. exact c28_member_alone_linked. Qed.
Print Assumptions C28_stored_member_alone_and_linked.

(* Over every sequence of attempted consensus writes (accepted or refused, in
   any order, with any references and timestamps), the recorded history stays
   a single chain: each record holds one transaction and points at the next
   record's transaction, which references it, with strictly increasing
   timestamps. *)
Theorem C28_single_chain : forall ops h,
  chain h -> Forall (fun o => co_genesis o = false) ops -> chain (fold_left apply_cop ops h).
Proof. exact c28_single_chain. Qed.
Print Assumptions C28_single_chain.

(* The executable chain check the correspondence runs on the records read back
   from a real store (after the kernel's own recording step) is sound. *)
Theorem C28_chain_check_sound : forall l, chainb l = true -> chain l.
Proof. exact chainb_sound. Qed.
Print Assumptions C28_chain_check_sound.

(* A write that changes the store links to the newest record and is later. *)
Theorem C28_write_extends : forall h o h' pre lst,
  chain h -> h = pre ++ [lst] -> co_genesis o = false ->
  write_consensus_snapshot h o = Ok h' -> h' <> h ->
  exists tl, cr_txs lst = [tl] /\ hd_error (co_refs o) = Some tl /\ cr_ts lst < co_ts o /\ co_txs o = [co_tx o].
Proof. exact c28_write_linked. Qed.
Print Assumptions C28_write_extends.

(* ---- non-vacuity ------------------------------------------------------------ *)

Definition ex_mint (h : N) (refs : list N) : ktx :=
  {| k_hash := h; k_ins := [IKMint]; k_outs := [OScript]; k_refs := refs; k_mint_batch := 2000 |}.
Definition ex_script (h : N) : ktx :=
  {| k_hash := h; k_ins := [IKUtxo]; k_outs := [OScript]; k_refs := []; k_mint_batch := 0 |}.
Definition ex_last := {| cs_txs := [7%N]; cs_ts := 100 |}.

(* an accepted batch of two batchable transactions *)
Example ex_batch_accepted :
  validate_kernel_snapshot false {| ks_self := true; ks_round := 1; ks_ts := 5; ks_txs := [1%N; 2%N] |}
    [(1%N, ex_script 1); (2%N, ex_script 2)] false ex_last false = Ok tt.
Proof. vm_compute. reflexivity. Qed.

(* a mint next to a script transaction is refused *)
Example ex_batch_with_mint_refused :
  validate_kernel_snapshot false {| ks_self := true; ks_round := 1; ks_ts := 200; ks_txs := [1%N; 2%N] |}
    [(1%N, ex_script 1); (2%N, ex_mint 2 [7%N])] false ex_last true = Err.
Proof. vm_compute. reflexivity. Qed.

(* an accepted mint, alone, linked, later; refused when stale or unlinked *)
Example ex_mint_accepted :
  validate_kernel_snapshot false {| ks_self := true; ks_round := 1; ks_ts := 101; ks_txs := [2%N] |}
    [(2%N, ex_mint 2 [7%N])] false ex_last true = Ok tt
  /\ is_consensus_class (k_type (ex_mint 2 [7%N])) = true.
Proof. vm_compute. split; reflexivity. Qed.
Example ex_mint_same_timestamp_refused :
  validate_kernel_snapshot false {| ks_self := true; ks_round := 1; ks_ts := 100; ks_txs := [2%N] |}
    [(2%N, ex_mint 2 [7%N])] false ex_last true = Err.
Proof. vm_compute. reflexivity. Qed.
Example ex_mint_older_reference_refused :
  validate_kernel_snapshot false {| ks_self := true; ks_round := 1; ks_ts := 101; ks_txs := [2%N] |}
    [(2%N, ex_mint 2 [6%N])] false ex_last true = Err.
Proof. vm_compute. reflexivity. Qed.

(* a stored mint re-proposed next to a cached script transaction is refused, in both orders *)
Example ex_stored_mint_in_batch_refused :
  let mint := {| m_hash := 2%N; m_tx := ex_mint 2 [7%N]; m_stored := true; m_valid := false |} in
  let scr := {| m_hash := 1%N; m_tx := ex_script 1; m_stored := false; m_valid := true |} in
  let s := {| ks_self := true; ks_round := 1; ks_ts := 200; ks_txs := [1%N; 2%N] |} in
  snapshot_tx_rules false s false ex_last true [] [mint; scr] = Err
  /\ snapshot_tx_rules false s false ex_last true [] [scr; mint] = Err.
Proof. vm_compute. split; reflexivity. Qed.

(* a chain that grows: genesis record, then two linked operations; a stale
   write in between is refused and leaves the chain as it was *)
Definition ex_genesis_rec :=
  {| cr_ts := 1; cr_snap := 50%N; cr_txs := [7%N]; cr_ref := None; cr_next := None |}.
Definition ex_op (ts : Z) (snap tx ref : N) : cop :=
  {| co_ts := ts; co_snap := snap; co_txs := [tx]; co_tx := tx; co_refs := [ref];
     co_mint := true; co_out0 := Some OScript; co_genesis := false |}.
Example ex_chain_start : chain [ex_genesis_rec].
Proof. eapply chain_one; reflexivity. Qed.
Example ex_chain_grows :
  fold_left apply_cop [ex_op 5 51 8 7; ex_op 5 52 9 8; ex_op 9 53 9 8] [ex_genesis_rec]
  = [ {| cr_ts := 1; cr_snap := 50%N; cr_txs := [7%N]; cr_ref := None; cr_next := Some 8%N |};
      {| cr_ts := 5; cr_snap := 51%N; cr_txs := [8%N]; cr_ref := Some 7%N; cr_next := Some 9%N |};
      {| cr_ts := 9; cr_snap := 53%N; cr_txs := [9%N]; cr_ref := Some 8%N; cr_next := None |} ].
Proof. vm_compute. reflexivity. Qed.
