(* C33 - fixed-point amounts behave like exact decimal arithmetic.
   Property theorems only; each is closed by [exact] of a lemma of
   Proofs/Fixed.v about the executable model Model/Fixed.v, which the
   correspondence harness (harness/cmd/c33) runs against common.Integer. *)
From Coq Require Import List ZArith NArith Bool QArith.
Require Import Mixin.Base.Res Mixin.Model.Fixed Mixin.Proofs.Fixed.
Import ListNotations.
Open Scope Z_scope.

(* Printing an amount and parsing the text back returns the amount. *)
Theorem C33_parse_print : forall x, 0 <= x -> parse (print x) = Ok x.
Proof. exact parse_print. Qed.
Print Assumptions C33_parse_print.

(* Parsing decimal text "l1.l2" yields floor(value * 10^8): truncation to eight places. *)
Theorem C33_parse_truncates : forall l1 l2,
  all_digits l1 -> all_digits l2 -> l1 ++ l2 <> [] -> Z.of_nat (length l2) <= 2 ^ 31 ->
  exists q, parse (l1 ++ ch_dot :: l2) = Ok q /\
            is_floor_div (val (l1 ++ l2) * 10 ^ precision) (10 ^ Z.of_nat (length l2)) q.
Proof. exact parse_dotted_floor. Qed.
Print Assumptions C33_parse_truncates.

Theorem C33_parse_integer_text : forall l,
  all_digits l -> l <> [] -> parse l = Ok (val l * 10 ^ precision).
Proof. exact parse_plain. Qed.
Print Assumptions C33_parse_integer_text.

(* Whatever text parses, its value prints to a text that parses to the same
   value (the printed form is the normalised text), and is never negative. *)
Theorem C33_print_is_normal_form : forall s v, parse s = Ok v -> parse (print v) = Ok v.
Proof. exact print_parse_fixpoint. Qed.
Print Assumptions C33_print_is_normal_form.

Theorem C33_parse_nonneg : forall s v, parse s = Ok v -> 0 <= v.
Proof. exact parse_nonneg. Qed.
Print Assumptions C33_parse_nonneg.

(* Operations: exact result, rejected exactly on the documented operands. *)
Theorem C33_add : forall x y,
  i_add x y = if (x <? 0) || (y <=? 0) then Panic else Ok (x + y).
Proof. exact i_add_spec. Qed.
Print Assumptions C33_add.

Theorem C33_sub : forall x y,
  i_sub x y = if (x <? 0) || (y <=? 0) || (x <? y) then Panic else Ok (x - y).
Proof. exact i_sub_spec. Qed.
Print Assumptions C33_sub.

Theorem C33_mul : forall x y,
  i_mul x y = if (x <? 0) || (y <=? 0) then Panic else Ok (x * y).
Proof. exact i_mul_spec. Qed.
Print Assumptions C33_mul.

Theorem C33_div : forall x y,
  (x < 0 \/ y <= 0 -> i_div x y = Panic) /\
  (0 <= x -> 0 < y -> exists q, i_div x y = Ok q /\ is_floor_div x y q /\ 0 <= q).
Proof. exact i_div_spec. Qed.
Print Assumptions C33_div.

Theorem C33_count : forall x y,
  (x <= 0 \/ y <= 0 \/ x < y -> i_count x y = Panic) /\
  (0 < y -> y <= x ->
     (x / y < 2 ^ 64 -> i_count x y = Ok (x / y) /\ is_floor_div x y (x / y) /\ 1 <= x / y) /\
     (2 ^ 64 <= x / y -> i_count x y = Panic)).
Proof. exact i_count_spec. Qed.
Print Assumptions C33_count.

Theorem C33_cmp : forall x y,
  (x < y -> i_cmp x y = -1) /\ (x = y -> i_cmp x y = 0) /\ (x > y -> i_cmp x y = 1).
Proof. exact i_cmp_spec. Qed.
Print Assumptions C33_cmp.

Theorem C33_ratio_product : forall rx ry x,
  0 <= rx -> 0 < ry ->
  ration rx ry = Ok (rx, ry) /\
  (x < 0 -> product (rx, ry) x = Panic) /\
  (0 <= x -> exists q, product (rx, ry) x = Ok q /\ is_floor_div (x * rx) ry q /\ 0 <= q).
Proof.
  intros rx ry x Hx Hy. split.
  - rewrite ration_spec. destruct (rx <? 0) eqn:E1; [apply Z.ltb_lt in E1; contradiction (Zlt_not_le _ _ E1 Hx)|].
    destruct (ry <=? 0) eqn:E2; [apply Z.leb_le in E2; contradiction (Zlt_not_le _ _ Hy E2)|]. reflexivity.
  - exact (product_spec rx ry x Hx Hy).
Qed.
Print Assumptions C33_ratio_product.

Theorem C33_ratio_cmp : forall a b c d, 0 < b -> 0 < d ->
  r_cmp (a, b) (c, d) =
  match Qcompare (a # Z.to_pos b) (c # Z.to_pos d) with Lt => -1 | Eq => 0 | Gt => 1 end.
Proof. exact r_cmp_spec. Qed.
Print Assumptions C33_ratio_cmp.

Theorem C33_floor_is_unique : forall a b q q', 0 < b ->
  is_floor_div a b q -> is_floor_div a b q' -> q = q'.
Proof. exact floor_unique. Qed.
Print Assumptions C33_floor_is_unique.

(* Non-vacuity: the hypotheses are met by concrete non-trivial inputs. *)
Example C33_ex_parse : parse [49;50;46;51;52;53;54;55;56;55;56;57;57]%N = Ok 1234567878
  /\ parse (print 1234567878) = Ok 1234567878 /\ print 5 = [48;46;48;48;48;48;48;48;48;53]%N.
Proof. vm_compute. repeat split. Qed.
Example C33_ex_ops : i_add 0 1 = Ok 1 /\ i_add 1 0 = Panic /\ i_sub 5 5 = Ok 0 /\ i_div 7 2 = Ok 3
  /\ i_count (2 ^ 64) 1 = Panic /\ i_count (2 ^ 64 - 1) 1 = Ok (2 ^ 64 - 1) /\ product (1, 3) 10 = Ok 3.
Proof. vm_compute. repeat split. Qed.
