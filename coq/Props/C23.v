(* C23 - only queueing makes a cached transaction eligible for proposal.
   Property theorems only; each is closed by [exact] of a lemma of
   Proofs/Cache.v about the executable model Model/Cache.v, which the
   correspondence harness (harness/cmd/c23) runs against the real Badger cache
   store op by op.  Record TTL expiry is outside the model. *)
From Coq Require Import List ZArith NArith Bool.
Require Import Mixin.Base.Res Mixin.Model.Cache Mixin.Proofs.Cache.
Import ListNotations.
Open Scope N_scope.

(* A retrieval returns a hash only if a queue entry for it exists; an
   operation other than [queue] never creates a queue entry (in particular
   [store] leaves queue and order records untouched); over any history, a hash
   that was returned was the subject of a queue operation. *)
Theorem C23_eligible_only_if_queued :
  (forall limit c out c' h b, retrieve limit c = Ok (out, c') -> In (h, b) out ->
     (exists ts, In (ts, h) (queue c)) /\ aget h (payload c) = Some b) /\
  (forall c o k, In k (queue (fst (step c o))) ->
     In k (queue c) \/ exists b, o = OQueue (fst k) (snd k) b) /\
  (forall h b c, queue (store_tx h b c) = queue c /\ order (store_tx h b c) = order c /\
     forall limit out c', retrieve limit (store_tx h b c) = Ok (out, c') ->
       forall x bx, In (x, bx) out -> exists ts, In (ts, x) (queue c)) /\
  (forall ops h, In h (t_returned (run ops start)) -> (1 <= queue_ops h ops)%nat).
Proof.
  split; [exact retrieve_only_queued|]. split; [exact step_queue_origin|].
  split; [exact store_not_eligible | exact returned_was_queued].
Qed.
Print Assumptions C23_eligible_only_if_queued.

(* Over ANY history (induction over the operation list), for every hash:
   (times returned by retrievals) + (queue entries still pending) is at most the
   number of queue entries ever written, which is at most the number of queue
   operations for it.  So every return consumes an entry of its own: each
   queueing is returned by at most one retrieval. *)
Theorem C23_accounting : forall ops h,
  let t := run ops start in
  (count h (t_returned t) + pending h (t_cache t) <= count h (t_created t))%nat /\
  (count h (t_created t) <= queue_ops h ops)%nat.
Proof. exact accounting. Qed.
Print Assumptions C23_accounting.

(* One retrieval: what it consumes is a prefix of the queue that is deleted,
   everything it returns lies in that prefix and has a decodable body, the order
   records of the consumed hashes are deleted. *)
Theorem C23_retrieve_consumes : forall limit c out c',
  retrieve limit c = Ok (out, c') ->
  exists pre,
    queue c = pre ++ queue c' /\
    payload c' = payload c /\
    (forall x, In x (order c') <-> In x (order c) /\ ~ In x (map snd pre)) /\
    (forall h b, In (h, b) out -> In h (map snd pre) /\ aget h (payload c) = Some b /\ b <> 0) /\
    NoDup (map fst out) /\
    (Z.of_nat (length out) <= Z.max 0 limit)%Z.
Proof. exact retrieve_spec. Qed.
Print Assumptions C23_retrieve_consumes.

(* In every state reached by a history the queue keys form a set, so the
   entries a retrieval consumes (every returned hash has one among them) are
   absent afterwards: an entry is consumed by at most one retrieval. *)
Theorem C23_consumed_once : forall ops limit out c',
  retrieve limit (t_cache (run ops start)) = Ok (out, c') ->
  exists pre, queue (t_cache (run ops start)) = pre ++ queue c' /\
    (forall h, In h (map fst out) -> exists ts, In (ts, h) pre) /\
    (forall k, In k pre -> ~ In k (queue c')).
Proof. exact consumed_once. Qed.
Print Assumptions C23_consumed_once.

(* A retrieval returns each transaction at most once and at most [limit]. *)
Theorem C23_retrieve_shape : forall limit c out c',
  retrieve limit c = Ok (out, c') ->
  NoDup (map fst out) /\ (Z.of_nat (length out) <= Z.max 0 limit)%Z.
Proof. exact retrieve_shape. Qed.
Print Assumptions C23_retrieve_shape.

(* Retrieval keeps every stored body. *)
Theorem C23_body_kept : forall limit c out c',
  retrieve limit c = Ok (out, c') ->
  payload c' = payload c /\ forall h b, In (h, b) out -> get_tx h c' = Ok (Some b).
Proof. exact retrieve_body_kept. Qed.
Print Assumptions C23_body_kept.

(* Re-queueing after a retrieval writes a new entry, refreshes the body, and the
   transaction is returned by the next retrieval whose limit covers the queue. *)
Theorem C23_requeue_eligible : forall l1 c out c1 h ts b,
  retrieve l1 c = Ok (out, c1) -> In h (map fst out) -> b <> 0 ->
  let c2 := queue_tx ts h b c1 in
  In (ts, h) (queue c2) /\ get_tx h c2 = Ok (Some b) /\
  forall l2 out2 c3, retrieve l2 c2 = Ok (out2, c3) ->
    (Z.of_nat (length (queue c2)) <= l2)%Z -> In (h, b) out2.
Proof. exact requeue_eligible. Qed.
Print Assumptions C23_requeue_eligible.

(* In every state reachable through the operations, queueing makes the
   transaction eligible (also when the queueing is deduplicated), and an
   eligible transaction is returned by any successful covering retrieval. *)
Theorem C23_queue_eligible :
  (forall ops, cache_wf (t_cache (run ops start))) /\
  (forall ts h b c, cache_wf c -> eligible (queue_tx ts h b c) h) /\
  (forall limit c out c' h, eligible c h -> retrieve limit c = Ok (out, c') ->
     (Z.of_nat (length (queue c)) <= limit)%Z ->
     exists b, In (h, b) out /\ aget h (payload c) = Some b).
Proof.
  split; [|split; [exact queue_tx_eligible | exact eligible_retrieved]].
  intros ops. assert (H : forall t, cache_wf (t_cache t) -> cache_wf (t_cache (run ops t))).
  { induction ops as [|o ops IH]; intros t Ht; unfold run in *; cbn [fold_left]; [exact Ht|].
    apply IH. unfold tstep. pose proof (wf_step (t_cache t) o Ht) as Hs.
    destruct (step (t_cache t) o) as [c' r]. exact Hs. }
  apply H. exact wf_empty.
Qed.
Print Assumptions C23_queue_eligible.

(* Removal deletes the body (and only body and order record). *)
Theorem C23_remove_deletes_body : forall hs c h,
  In h hs -> get_tx h (remove_txs hs c) = Ok None /\ queue (remove_txs hs c) = queue c.
Proof. exact remove_deletes_body. Qed.
Print Assumptions C23_remove_deletes_body.

(* ---- non-vacuity --------------------------------------------------------------- *)

(* store alone: nothing to retrieve; queue: retrieved once with the refreshed body; re-queue: again *)
Example C23_ex_history :
  let t := run [OStore 7 1; ORetrieve 5; OQueue 10 7 2; OQueue 11 7 3; ORetrieve 5; ORetrieve 5;
                OQueue 12 7 3; ORetrieve 5] start in
  t_returned t = [7; 7] /\ t_created t = [7; 7] /\ queue (t_cache t) = [] /\
  get_tx 7 (t_cache t) = Ok (Some 3).
Proof. vm_compute. repeat split. Qed.

(* removal leaves a stale entry; a second queueing adds another; one retrieval returns the hash once *)
Example C23_ex_two_entries :
  let t := run [OQueue 10 7 2; ORemove [7]; OQueue 11 7 3; ORetrieve 5; ORetrieve 5] start in
  t_returned t = [7] /\ t_created t = [7; 7] /\ pending 7 (t_cache t) = 0%nat.
Proof. vm_compute. repeat split. Qed.

Example C23_ex_requeue_hyps :
  exists c out c1, retrieve 1 c = Ok (out, c1) /\ In 7 (map fst out) /\
    exists out2 c3, retrieve 9 (queue_tx 20 7 4 c1) = Ok (out2, c3) /\ In (7, 4) out2.
Proof.
  exists (queue_tx 10 7 2 empty_cache). eexists. eexists. split; [vm_compute; reflexivity|].
  split; [left; reflexivity|]. eexists. eexists. split; [vm_compute; reflexivity | left; reflexivity].
Qed.

(* an undecodable body aborts the retrieval that reaches it and leaves the state unchanged *)
Example C23_ex_corrupt :
  let c := mkCache [(1, 7)] [7] [(7, 0)] in
  retrieve 5 c = Err /\ fst (step c (ORetrieve 5)) = c /\ retrieve 0 c = Ok ([], c).
Proof. vm_compute. repeat split. Qed.
