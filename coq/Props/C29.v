(* C29 - operator election is deterministic, never selects the oldest or newest
   accepted node nor the node it removes; membership operations are only valid
   inside their epoch-hour windows.
   Property theorems only, closed by lemmas of Proofs/Election.v about the
   executable model Model/Election.v, which harness/cmd/c29 runs against the
   real electSnapshotNode / checkRemovePossibility / hour predicates.

   Vocabulary: [all] is the membership history as the node holds it,
   [nodes_list all now true] the accepted list at [now] (ordered by acceptance
   time, then id), [elect all epoch op now] the elected id (Panic below the
   minimum membership, id 0 for an operation that is not elected),
   [hour_of epoch ts] the hour of the epoch day. *)
From Coq Require Import List ZArith NArith Bool Permutation.
Require Import Mixin.Base.Res Mixin.Gen.Consts Mixin.Model.Election Mixin.Proofs.Election.
Import ListNotations.
Open Scope Z_scope.

(* The elected node is a function of the accepted list at [now], the day of the
   epoch and the operation: two nodes that agree on these elect the same id,
   whatever else their histories contain. *)
Theorem C29_function : forall all all' epoch epoch' op now now',
  nodes_list all now true = nodes_list all' now' true ->
  day_of epoch now = day_of epoch' now' ->
  elect all epoch op now = elect all' epoch' op now'.
Proof. exact elect_function. Qed.
Print Assumptions C29_function.

(* ... and it is exactly this function. *)
Theorem C29_function_def : forall all epoch op now,
  elect all epoch op now = elect_on (nodes_list all now true) (day_of epoch now) op.
Proof. reflexivity. Qed.
Print Assumptions C29_function_def.

(* The order in which a node received the records does not matter: the accepted
   list carries each id once (so "oldest" and "newest" are well defined) and
   only contains records of the history. *)
Theorem C29_accepted_list_wellformed : forall all now,
  NoDup (map r_id (nodes_list all now true)) /\
  nodes_list all now true = filter is_accepted (nodes_list all now false) /\
  (forall x, In x (nodes_list all now true) -> In x all).
Proof.
  intros all now. split; [apply nodes_list_nodup|].
  split; [apply nodes_list_accepted|apply nodes_list_incl].
Qed.
Print Assumptions C29_accepted_list_wellformed.

(* With at least the minimum number of accepted nodes, an elected operation
   yields an accepted node that is neither the first (oldest) nor the last
   (newest) of the accepted list.  Distinctness of ids is a property of the
   list (previous theorem), not a hypothesis. *)
Theorem C29_not_ends : forall all epoch op now,
  valid_op op = true ->
  Consts.QMinNodes <= Z.of_nat (length (nodes_list all now true)) ->
  exists id, elect all epoch op now = Ok id
    /\ In id (map r_id (nodes_list all now true))
    /\ (forall a, hd_error (nodes_list all now true) = Some a -> id <> r_id a)
    /\ (forall z, hd_error (rev (nodes_list all now true)) = Some z -> id <> r_id z).
Proof. exact elect_not_ends. Qed.
Print Assumptions C29_not_ends.

(* A node never handles its own removal: whatever checkRemovePossibility
   answers for the asking node is another node ... *)
Theorem C29_not_self_removal_guard : forall all epoch node_id now old c,
  check_remove all epoch node_id now old = Ok c -> r_id c <> node_id.
Proof. exact check_remove_not_self. Qed.
Print Assumptions C29_not_self_removal_guard.

(* ... and the node elected for the removal operation is never the removal
   candidate (the head of the accepted list), whoever asks. *)
Theorem C29_not_self_removal : forall all epoch node_id now c e,
  check_remove all epoch node_id now None = Ok c ->
  elect all epoch Consts.QOpNodeRemove now = Ok e ->
  hd_error (nodes_list all now true) = Some c /\ e <> r_id c.
Proof.
  intros all epoch node_id now c e Hc He. split.
  - apply (check_remove_head _ _ _ _ _ Hc).
  - eapply elected_not_removed; eassumption.
Qed.
Print Assumptions C29_not_self_removal.

(* Hour windows.  The predicates accept exactly the configured hours ... *)
Theorem C29_windows : forall epoch ts,
  (accept_hour epoch ts = true <->
     Consts.QAcceptTimeBegin <= hour_of epoch ts <= Consts.QAcceptTimeEnd) /\
  (pledge_hour epoch ts = true <->
     ~ (Consts.QMintTimeBegin <= hour_of epoch ts <= Consts.QMintTimeEnd) /\
     ~ (Consts.QAcceptTimeBegin <= hour_of epoch ts <= Consts.QAcceptTimeEnd)) /\
  (mint_window_batch epoch ts <> 0 ->
     epoch < ts /\
     Consts.QMintTimeBegin <= ((ts - epoch) / Consts.QHour) mod 24 <= Consts.QMintTimeEnd /\
     mint_window_batch epoch ts = (ts - epoch) / Consts.QHour / 24 /\ 1 <= mint_window_batch epoch ts) /\
  (epoch < ts -> 1 <= (ts - epoch) / Consts.QHour / 24 ->
     Consts.QMintTimeBegin <= ((ts - epoch) / Consts.QHour) mod 24 <= Consts.QMintTimeEnd ->
     mint_window_batch epoch ts = (ts - epoch) / Consts.QHour / 24) /\
  0 <= hour_of epoch ts < 24.
Proof.
  intros epoch ts.
  split; [apply accept_hour_spec|]. split; [apply pledge_hour_spec|].
  split; [apply mint_window_spec|]. split; [apply mint_window_complete|apply hour_of_range].
Qed.
Print Assumptions C29_windows.

(* ... which are the documented ones: accept / cancel / remove in hours 13..19,
   mint in hours 7..9, pledge in every other hour. *)
Theorem C29_windows_documented :
  Consts.QAcceptTimeBegin = 13 /\ Consts.QAcceptTimeEnd = 19 /\
  Consts.QMintTimeBegin = 7 /\ Consts.QMintTimeEnd = 9 /\ Consts.QHour = 3600 * 10 ^ 9.
Proof. vm_compute. repeat split. Qed.
Print Assumptions C29_windows_documented.

(* The operations are valid only inside the windows: a removal is possible only
   at or after the epoch in an accept hour with no node pledging; an accept or a
   cancel only in an accept hour, for the pledging node, between the minimum and
   maximum period after its pledge. *)
Theorem C29_operations_in_window : forall all epoch now,
  (forall node_id old c, check_remove all epoch node_id now old = Ok c ->
     epoch <= now /\ accept_hour epoch now = true /\ pledging_node all now = None) /\
  (forall chain, accept_timing all epoch now chain = Ok tt ->
     epoch <= now /\ accept_hour epoch now = true /\
     exists p, pledging_node all now = Some p /\ r_ts p <= now /\
       Consts.QAcceptPeriodMinimum <= to_int64 (now - r_ts p) <= Consts.QAcceptPeriodMaximum).
Proof.
  intros all epoch now. split.
  - intros node_id old c H. eapply check_remove_window; exact H.
  - intros chain H. eapply accept_timing_window; exact H.
Qed.
Print Assumptions C29_operations_in_window.

(* The same on every node.  storage.ReadAllNodes returns the records sorted by
   timestamp only, equal-timestamp records in the iteration order of a Go map, so
   two nodes may receive the same history in different orders; LoadConsensusNodes
   re-sorts by (timestamp, id string).  The store keys a record by (timestamp,
   signer) and the id is derived from the signer, so the (timestamp, id) pairs of
   a history are pairwise distinct: [distinct_keys].  Under exactly that
   guarantee every permutation of the record list loads to the same history,
   hence to the same membership views, the same elected node and the same
   removal candidate at every time. *)
Theorem C29_same_on_every_node : forall recs recs' epoch op now,
  Permutation recs recs' -> distinct_keys recs ->
  load recs = load recs' /\
  (forall accepted_only, nodes_list (load recs) now accepted_only = nodes_list (load recs') now accepted_only) /\
  elect (load recs) epoch op now = elect (load recs') epoch op now /\
  (forall node_id old, check_remove (load recs) epoch node_id now old = check_remove (load recs') epoch node_id now old).
Proof.
  intros recs recs' epoch op now Hp Hd. rewrite (load_perm recs recs' Hp Hd). repeat split.
Qed.
Print Assumptions C29_same_on_every_node.

(* the sorted history is the unique sorted permutation (what the proof rests on) *)
Theorem C29_sorted_order_unique : forall l l',
  sorted l -> sorted l' -> Permutation l l' -> distinct_keys l -> l = l'.
Proof. exact sorted_perm_unique. Qed.
Print Assumptions C29_sorted_order_unique.

(* ---- non-vacuity ---------------------------------------------------------- *)

Definition ex_epoch : Z := 1551312000000000000.
Definition ex_recs : list nrec :=
  map (fun i => mkrec i (ex_epoch + Z.of_N i) Accepted i) [5; 3; 9; 1; 7; 2; 8; 4; 6]%N.

(* 9 accepted nodes on day 123: the elected ids differ per operation, none is
   the oldest (1) or the newest (9); the removal candidate at hour 14 is node 1
   and node 1 asking is refused *)
Example C29_ex_elect :
  let all := load ex_recs in
  let now := ex_epoch + 123 * Consts.QOneDay + 14 * Consts.QHour in
  map r_id (nodes_list all now true) = [1; 2; 3; 4; 5; 6; 7; 8; 9]%N /\
  elect all ex_epoch Consts.QOpMint now = Ok 7%N /\
  elect all ex_epoch Consts.QOpNodeRemove now = Ok 8%N /\
  elect all ex_epoch Consts.QOpNodePledge now = Ok 5%N /\
  elect all ex_epoch 0 now = Ok 0%N /\
  elect (load (firstn 6 ex_recs)) ex_epoch Consts.QOpMint now = Panic /\
  rmap r_id (check_remove all ex_epoch 8%N now None) = Ok 1%N /\
  rmap r_id (check_remove all ex_epoch 1%N now None) = Err /\
  rmap r_id (check_remove all ex_epoch 8%N (now + 6 * Consts.QHour) None) = Err.
Proof. vm_compute. repeat split. Qed.

Example C29_ex_hours :
  map (fun h => accept_hour ex_epoch (ex_epoch + 40 * Consts.QOneDay + h * Consts.QHour)) [12; 13; 19; 20]
    = [false; true; true; false] /\
  map (fun h => pledge_hour ex_epoch (ex_epoch + 40 * Consts.QOneDay + h * Consts.QHour)) [6; 7; 9; 10; 12; 13; 19; 20]
    = [true; false; false; true; true; false; false; true] /\
  map (fun h => mint_window_batch ex_epoch (ex_epoch + 40 * Consts.QOneDay + h * Consts.QHour)) [6; 7; 9; 10]
    = [0; 40; 40; 0] /\
  accept_timing (load (ex_recs ++ [mkrec 10 (ex_epoch + 40 * Consts.QOneDay) Pledging 10])) ex_epoch
    (ex_epoch + 40 * Consts.QOneDay + 13 * Consts.QHour) (Some 10%N) = Ok tt.
Proof. vm_compute. repeat split. Qed.

(* order independence: the reversed record list is a permutation with distinct
   keys and loads to the same history; without distinct keys (two records of
   one node at one timestamp) the loaded history does depend on the order, so
   the hypothesis cannot be dropped *)
Example C29_ex_order :
  distinct_keys ex_recs /\ Permutation ex_recs (rev ex_recs) /\
  load ex_recs = load (rev ex_recs) /\
  (let a := mkrec 1 ex_epoch Accepted 1 in let b := mkrec 1 ex_epoch Removed 2 in
   load [a; b] <> load [b; a]).
Proof.
  split; [apply distinct_keys_dec; vm_compute; reflexivity|].
  split; [apply Permutation_rev|]. split; [vm_compute; reflexivity|].
  vm_compute. discriminate.
Qed.
