(* C30 - peer authentication binds identity, recipient, freshness and role.
   Property theorems only, over the executable model Model/Auth.v of
   kernel/node.go:AuthenticateAs, which harness/cmd/c30 runs against the real
   function.  The hash of the signed bytes [Hmsg] (BLAKE3), the derivation of a
   peer id from a spend key [peer_id] and signature verification [verify] are
   universally quantified. *)
From Coq Require Import List ZArith NArith Bool.
Require Import Mixin.Base.Res Mixin.Gen.Consts Mixin.Model.Auth Mixin.Proofs.Auth.
Import ListNotations.
Open Scope Z_scope.

(* the byte layout the statements below refer to: time[0,8) recipient[8,40)
   key[40,72) relayer flag[72] signature[73,137) *)
Theorem C30_layout :
  ts_size = 8%nat /\ off_rcp = 8%nat /\ off_key = 40%nat /\ off_flag = 72%nat /\
  off_sig = 73%nat /\ msg_len = 137%nat.
Proof. exact layout. Qed.
Print Assumptions C30_layout.

(* Accepted exactly when: 137 bytes, addressed to the receiver, inside the
   allowed skew (when a timeout is given), not from the receiver itself, and
   signed - over the first 73 bytes, which include the relayer flag - by the key
   the message names.  [now] ranges over every clock second below 2^52 (year
   142 million), the timestamp over all 64-bit values. *)
Theorem C30_accept_iff : forall (Hmsg : list N -> N) (peer_id : N -> N -> N) (verify : N -> N -> N -> bool)
    net rcp msg timeout now,
  0 <= now < 2 ^ 52 -> timeout < 2 ^ 52 ->
  ((exists tok, authenticate Hmsg peer_id verify net rcp msg timeout now = Ok tok) <->
   (length msg = msg_len /\
    msg_rcp msg = rcp /\
    (0 < timeout -> Z.abs (now - msg_ts msg) <= timeout) /\
    peer_id net (msg_key msg) <> rcp /\
    verify (msg_key msg) (Hmsg (msg_signed msg)) (msg_sig msg) = true)).
Proof. exact accept_iff. Qed.
Print Assumptions C30_accept_iff.

(* The token: identity derived from the key in the message (never the
   receiver's), the message's time and flag, the message itself. *)
Theorem C30_token : forall (Hmsg : list N -> N) (peer_id : N -> N -> N) (verify : N -> N -> N -> bool)
    net rcp msg timeout now tok,
  authenticate Hmsg peer_id verify net rcp msg timeout now = Ok tok ->
  t_peer tok = peer_id net (msg_key msg) /\ t_ts tok = msg_ts msg /\
  t_relayer tok = msg_flag msg /\ t_data tok = msg /\ t_peer tok <> rcp.
Proof. exact token_fields. Qed.
Print Assumptions C30_token.

Theorem C30_no_panic : forall (Hmsg : list N -> N) (peer_id : N -> N -> N) (verify : N -> N -> N -> bool)
    net rcp msg timeout now,
  authenticate Hmsg peer_id verify net rcp msg timeout now <> Panic.
Proof. exact auth_no_panic. Qed.
Print Assumptions C30_no_panic.

(* The float64 comparison of the code is the exact integer comparison. *)
Theorem C30_skew_exact : forall now ts timeout,
  0 <= now < 2 ^ 52 -> 0 <= ts -> 0 <= timeout < 2 ^ 52 ->
  skew_exceeds now ts timeout = (timeout <? Z.abs (now - ts)).
Proof. exact skew_exact. Qed.
Print Assumptions C30_skew_exact.

(* The relayer flag lies inside the signed bytes: two accepted messages that
   differ only in that byte have the same key and signature, and that one
   signature verifies for the hashes of two different byte strings. *)
Theorem C30_flag_bound : forall (Hmsg : list N -> N) (peer_id : N -> N -> N) (verify : N -> N -> N -> bool)
    net rcp timeout now pre suf f1 f2 t1 t2,
  length pre = off_flag -> f1 <> f2 ->
  authenticate Hmsg peer_id verify net rcp (pre ++ f1 :: suf) timeout now = Ok t1 ->
  authenticate Hmsg peer_id verify net rcp (pre ++ f2 :: suf) timeout now = Ok t2 ->
  let k := msg_key (pre ++ f1 :: suf) in
  let s := msg_sig (pre ++ f1 :: suf) in
  msg_key (pre ++ f2 :: suf) = k /\ msg_sig (pre ++ f2 :: suf) = s /\
  t_peer t1 = t_peer t2 /\
  msg_signed (pre ++ f1 :: suf) = pre ++ [f1] /\ msg_signed (pre ++ f2 :: suf) = pre ++ [f2] /\
  pre ++ [f1] <> pre ++ [f2] /\
  verify k (Hmsg (pre ++ [f1])) s = true /\ verify k (Hmsg (pre ++ [f2])) s = true.
Proof. exact flag_bound. Qed.
Print Assumptions C30_flag_bound.

(* Hence, if one signature never verifies for two different signed byte
   strings (unforgeability + collision-freedom, a hypothesis on the
   primitives), nothing under the signature can be changed: same key and
   signature => same time, recipient, key and flag bytes ... *)
Theorem C30_signed_bytes_bound : forall (Hmsg : list N -> N) (peer_id : N -> N -> N) (verify : N -> N -> N -> bool),
  (forall k a b s, verify k (Hmsg a) s = true -> verify k (Hmsg b) s = true -> a = b) ->
  forall net rcp m1 m2 timeout1 now1 timeout2 now2 t1 t2,
  authenticate Hmsg peer_id verify net rcp m1 timeout1 now1 = Ok t1 ->
  authenticate Hmsg peer_id verify net rcp m2 timeout2 now2 = Ok t2 ->
  msg_key m1 = msg_key m2 -> msg_sig m1 = msg_sig m2 ->
  msg_signed m1 = msg_signed m2.
Proof. exact signed_prefix_bound. Qed.
Print Assumptions C30_signed_bytes_bound.

(* ... in particular the relayer flag of an accepted message cannot be flipped. *)
Theorem C30_flag_cannot_flip : forall (Hmsg : list N -> N) (peer_id : N -> N -> N) (verify : N -> N -> N -> bool),
  (forall k a b s, verify k (Hmsg a) s = true -> verify k (Hmsg b) s = true -> a = b) ->
  forall net rcp timeout now timeout' now' pre suf f1 f2 t1,
  length pre = off_flag -> f1 <> f2 ->
  authenticate Hmsg peer_id verify net rcp (pre ++ f1 :: suf) timeout now = Ok t1 ->
  forall t2, authenticate Hmsg peer_id verify net rcp (pre ++ f2 :: suf) timeout' now' <> Ok t2.
Proof. exact flag_cannot_flip. Qed.
Print Assumptions C30_flag_cannot_flip.

(* Non-vacuity: a concrete instance of the primitives satisfying the binding
   hypothesis, an accepted message, and its rejected variants. *)
Example C30_ex_accept :
  authenticate ex_H ex_peer ex_verify 1%N 5%N (ex_msg 1%N) 10 3
    = Ok (mk_token 109%N 0 true (ex_msg 1%N))
  /\ authenticate ex_H ex_peer ex_verify 1%N 5%N (ex_msg 0%N) 10 3 = Err      (* flag flipped *)
  /\ authenticate ex_H ex_peer ex_verify 1%N 5%N (ex_msg 1%N) 10 10 = Ok (mk_token 109%N 0 true (ex_msg 1%N))
  /\ authenticate ex_H ex_peer ex_verify 1%N 5%N (ex_msg 1%N) 10 11 = Err     (* one second late *)
  /\ authenticate ex_H ex_peer ex_verify 1%N 5%N (ex_msg 1%N) 0 1000 = Ok (mk_token 109%N 0 true (ex_msg 1%N))
  /\ authenticate ex_H ex_peer ex_verify 1%N 6%N (ex_msg 1%N) 10 3 = Err      (* other recipient *)
  /\ authenticate ex_H (fun _ _ => 5%N) ex_verify 1%N 5%N (ex_msg 1%N) 10 3 = Err  (* self *)
  /\ authenticate ex_H ex_peer ex_verify 1%N 5%N (ex_msg 1%N ++ [0%N]) 10 3 = Err  (* 138 bytes *)
  /\ length ex_pre = off_flag.
Proof. vm_compute. repeat split. Qed.
Example C30_ex_binding : forall k a b s,
  ex_verify k (ex_H a) s = true -> ex_verify k (ex_H b) s = true -> a = b.
Proof. exact ex_sig_binds. Qed.
Example C30_ex_float : round53 (2 ^ 53 + 1) = 2 ^ 53 /\ round53 (2 ^ 53 + 3) = 2 ^ 53 + 4
  /\ round53 (2 ^ 64 - 1) = 2 ^ 64 /\ skew_exceeds (2 ^ 53 + 1) (2 ^ 53) 0 = false.
Proof. vm_compute. repeat split. Qed.
