(* C04 - a one-time output key is bound to at most one transaction.
   Property theorems only, over Model/GhostKeys.v and the state machine of
   Model/Locks.v (finalization re-locks output keys); harness/cmd/c04 runs the
   same calls on a real Badger store.  Partial in the same sense as C03: the
   atomicity of a call is runtime behaviour. *)
From Coq Require Import List ZArith NArith Bool.
Require Import Mixin.Base.Res Mixin.Gen.Consts Mixin.Model.GhostKeys Mixin.Model.Locks
               Mixin.Proofs.GhostKeys Mixin.Proofs.Locks.
Import ListNotations.
Open Scope N_scope.

(* In every history the map key -> transaction only grows: a binding that
   exists after os1 is the same after any continuation os2 (admissions,
   finalizations, fork calls, calls of the exception transactions included). *)
Theorem C04_binding_monotone : forall os1 os2 k t,
  bound (s_ghost (run init os1)) k t -> bound (s_ghost (run init (os1 ++ os2))) k t.
Proof. exact binding_monotone. Qed.
Print Assumptions C04_binding_monotone.

(* The same for one call from ANY state, successful or not. *)
Theorem C04_step_keeps_bindings : forall s o k t,
  bound (s_ghost s) k t -> bound (s_ghost (fst (step s o))) k t.
Proof. exact step_ghost_mono. Qed.
Print Assumptions C04_step_keeps_bindings.

(* A key has at most one binding record in every reachable state. *)
Theorem C04_key_bound_to_one_transaction : forall os k t1 t2,
  In (k, t1) (s_ghost (run init os)) -> In (k, t2) (s_ghost (run init os)) -> t1 = t2.
Proof. exact reachable_key_one_tx. Qed.
Print Assumptions C04_key_bound_to_one_transaction.

(* A key bound to another transaction is refused and nothing changes - unless
   the caller is one of the hard-coded exceptions AND fork is set. *)
Theorem C04_foreign_key_rejected : forall s ks tx f k t,
  In k ks -> bound (s_ghost s) k t -> t <> tx -> f && is_exception tx = false ->
  step s (LockGhost ks tx f) = (s, Err).
Proof. exact step_ghost_foreign. Qed.
Print Assumptions C04_foreign_key_rejected.

(* The exceptions under fork: the call succeeds, the bindings are untouched. *)
Theorem C04_exception_succeeds_without_rebinding : forall s ks tx,
  is_exception tx = true -> NoDup ks ->
  (forall k, In k ks -> exists t, bound (s_ghost s) k t /\ t <> 0) ->
  step s (LockGhost ks tx true) = (s, Ok tt).
Proof. exact step_ghost_exception. Qed.
Print Assumptions C04_exception_succeeds_without_rebinding.

(* A transaction that repeats a key among its outputs (inside one output or
   across outputs) is rejected by the filter of validateOutputs before the
   locker is reached, and LockGhostKeys refuses the same list on its own. *)
Theorem C04_in_tx_duplicate_rejected : forall outs, ~ NoDup (concat outs) ->
  vo_keys outs = Err /\
  (forall g tx f, validate_outputs g outs tx f = Err) /\
  (forall s tx f, step s (LockGhost (concat outs) tx f) = (s, Err)).
Proof. exact duplicate_rejected. Qed.
Print Assumptions C04_in_tx_duplicate_rejected.

(* Finalizing a transaction one of whose output keys is bound to another
   transaction does not succeed and writes nothing. *)
Theorem C04_finalize_foreign_key_fails : forall s t b ks k x,
  body_of s t = Some b -> is_final s t = false -> In ks (t_outs b) -> In k ks ->
  bound (s_ghost s) k x -> x <> t -> is_exception t = false ->
  fst (step s (Finalize t)) = s /\ snd (step s (Finalize t)) <> Ok tt.
Proof. exact finalize_foreign. Qed.
Print Assumptions C04_finalize_foreign_key_fails.

(* The exceptions are exactly the three documented hashes (values from the
   current tree via Gen/Consts.v). *)
Theorem C04_exceptions_are_the_documented_three :
  ghost_exceptions =
  [0xc63b6373652def5999c1d951fcb8f064db67b7d18565847b921b21639e15dddd;
   0x60deaf2471bb0b6481efe9080d8852b020ab2941e7faae21989d2404f34284ee;
   0xa558b1efbe27eb6a6f902fd97d4b7e2e3099e6edde1fe6e8e41204e0685fe426].
Proof. vm_compute. reflexivity. Qed.
Print Assumptions C04_exceptions_are_the_documented_three.

(* Non-vacuity. *)
Definition ex_g : txd := {| t_hash := 11; t_ins := InGenesis; t_outs := [[1]; [2]] |}.
Definition ex_h : txd := {| t_hash := 12; t_ins := InGenesis; t_outs := [[5]; [2]] |}.

Example C04_ex_foreign :
  let s := run init [LockGhost [1; 2] 11 false] in
  bound (s_ghost s) 2 11 /\
  step s (LockGhost [2] 12 false) = (s, Err) /\ step s (LockGhost [2] 12 true) = (s, Err) /\
  step s (LockGhost [2] 11 false) = (s, Ok tt) /\
  step s (LockGhost [2; 1] Consts.GhostException1 true) = (s, Ok tt) /\
  step s (LockGhost [2] Consts.GhostException1 false) = (s, Err).
Proof. vm_compute. repeat split. Qed.

Example C04_ex_finalize :
  let s := run init [WriteTx ex_g; WriteTx ex_h; Finalize 11] in
  bound (s_ghost s) 2 11 /\ step s (Finalize 12) = (s, Err) /\
  bound (s_ghost (run s [Finalize 12; LockGhost [5] 12 false])) 2 11 /\
  ghost_lock (s_ghost (run s [Finalize 12])) 5 = None.
Proof. vm_compute. repeat split. Qed.

Example C04_ex_filter :
  vo_keys [[1; 2]; [3; 1]] = Err /\ vo_keys [[1; 1]] = Err /\ vo_keys [[1; 2]; [3]] = Ok [1; 2; 3] /\
  ~ NoDup (concat [[1; 2]; [3; 1]]).
Proof.
  repeat split; try (vm_compute; reflexivity).
  intro H. cbn in H. inversion H as [|x l Hn _]; subst. apply Hn. cbn. auto.
Qed.
