(* C31 - every message the node sends fits the transport limit; framing
   round-trips; oversized frames are refused before their body is allocated.
   Property theorems only, about Model/P2PMsg.v (p2p/quic.go framing,
   p2p/handle.go builders, kernel/queue.go batcher accounting), which
   harness/cmd/c31 runs against the real code. *)
From Coq Require Import List ZArith NArith Bool.
Require Import Mixin.Base.Res Mixin.Gen.Consts Mixin.Model.P2PMsg Mixin.Proofs.P2PMsg.
Import ListNotations.
Open Scope Z_scope.

(* Send then receive returns exactly the message, for every message of 1..max
   bytes; the receiver consumes header + body and allocates the body size. *)
Theorem C31_frame_roundtrip : forall m, 1 <= len m <= max_size ->
  exists f, encode_frame m = Ok f /\ len f = header_size + len m /\
    decode_frame f = Ok (frame_version, m) /\
    receive max_size f = mk_recv (Ok (frame_version, m)) (header_size + len m) (len m).
Proof.
  intros m H. destruct (frame_roundtrip m H) as (f & E & L & R).
  exists f. repeat split; try assumption. unfold decode_frame. now rewrite R.
Qed.
Print Assumptions C31_frame_roundtrip.

(* Send refuses everything else, so nothing above the maximum is ever framed. *)
Theorem C31_send_bounds : forall m f, encode_frame m = Ok f -> 1 <= len m <= max_size.
Proof. exact encode_frame_bounds. Qed.
Print Assumptions C31_send_bounds.

(* A header announcing more than the limit is refused after reading the
   header only, with no body buffer allocated, whatever follows on the stream. *)
Theorem C31_oversize_rejected_before_alloc : forall limit hdr rest,
  0 < limit <= max_size -> len hdr = header_size ->
  limit < be_val (skipn 2 hdr) ->
  receive limit (hdr ++ rest) = mk_recv Err header_size 0.
Proof. exact oversize_rejected. Qed.
Print Assumptions C31_oversize_rejected_before_alloc.

(* The decision of receive depends on sizes only: limit, version byte, announced
   size, bytes available behind the header. *)
Theorem C31_receive_by_sizes : forall limit v x n body, 0 <= n < 4294967296 ->
  rmap (fun r => len (snd r)) (rv_result (receive limit ([v; x] ++ be_bytes 4 n ++ body))) =
  receive_decision limit v n (len body).
Proof. exact receive_decision_spec. Qed.
Print Assumptions C31_receive_by_sizes.

(* Receive applies the limit Send applies: every size Send accepts comes back whole. *)
Theorem C31_send_receive_agree : forall n, send_accepts n = true -> send_receive_size n = Ok n.
Proof. exact send_receive_agree. Qed.
Print Assumptions C31_send_receive_agree.

(* bundle message length = 1 + 1 + sum (4 + signed size) *)
Theorem C31_size_formula : forall txs typ m, build_transactions txs typ = Ok m ->
  len m = txs_msg_len (map len txs).
Proof. exact size_formula. Qed.
Print Assumptions C31_size_formula.

Theorem C31_relay_size : forall me peer m, len me = hash_size -> len peer = hash_size ->
  rmap len (build_relay me peer m) = relay_len (len m).
Proof. exact relay_len_spec. Qed.
Print Assumptions C31_relay_size.

(* For every queue content of at most 255 transactions (what the loop
   retrieves), the batch formed by the accounting rule -- running sum of SIGNED
   sizes below 2/3 of the maximum at the moment each transaction is admitted --
   builds, and the message plus the 65-byte relay header fits the transport maximum. *)
Theorem C31_batch_fits : forall (txs : list (bytes * bool)) typ,
  len txs <= txs_max ->
  exists m, build_transactions (batch_of txs) typ = Ok m /\
    len m + relay_header <= max_size /\
    exists r, build_relay (repeat 0%N 32) (repeat 0%N 32) m = Ok r /\ len r <= max_size.
Proof.
  intros txs typ H. destruct (batch_fits txs typ H) as (m & E & F & _).
  exists m. repeat split; try assumption.
  unfold build_relay. change relay_header with 65 in F.
  replace (max_size <? len m) with false by (apply eq_sym, Z.ltb_ge; pose proof (len_nonneg m); change max_size with 33554432 in *; auto with zarith).
  eexists; split; [reflexivity|]. rewrite len_cons, !len_app, !len_repeat. cbn [Z.of_nat Pos.of_succ_nat Pos.succ]. auto with zarith.
Qed.
Print Assumptions C31_batch_fits.

(* the same batch inside a full challenge or a transaction challenge *)
Theorem C31_challenge_fits : forall (txs : list (bytes * bool)) sb c ch h cs mask,
  len txs <= txs_max -> len sb <= 1048576 -> len c = key_size -> len ch = key_size ->
  len h = hash_size -> len cs = sig_size ->
  (exists m, build_full_challenge sb c ch (batch_of txs) = Ok m /\ len m + relay_header <= max_size) /\
  (exists m, build_transaction_challenge h cs mask (batch_of txs) = Ok m /\ len m + relay_header <= max_size).
Proof. exact challenge_fits. Qed.
Print Assumptions C31_challenge_fits.

(* a transaction that is not batched travels alone: within the 4 MiB envelope cap it fits *)
Theorem C31_single_fits : forall b typ, len b <= tx_max_size ->
  exists m, build_transactions [b] typ = Ok m /\ len m + relay_header <= max_size /\
    len (build_transaction b) + relay_header <= max_size.
Proof. exact single_fits. Qed.
Print Assumptions C31_single_fits.

(* Non-vacuity; and the accounting on unsigned sizes (defect F8, repaired) would not have sufficed. *)
Example C31_ex_frame : exists f, encode_frame [7;8;9]%N = Ok f /\ decode_frame f = Ok (frame_version, [7;8;9]%N)
  /\ decode_frame (f ++ [1]%N) = Ok (frame_version, [7;8;9]%N) /\ encode_frame [] = Err.
Proof. eexists; split; [vm_compute; reflexivity|]. repeat split; vm_compute; reflexivity. Qed.

Example C31_ex_oversize :
  receive max_size [2;0;2;0;0;1]%N = mk_recv Err 6 0 /\ receive max_size [2;0;2;0;0;0]%N = mk_recv Err 6 33554432
  /\ receive max_size [3;0;0;0;0;1;5]%N = mk_recv Err 6 0.
Proof. repeat split; vm_compute; reflexivity. Qed.

Example C31_ex_batch :
  batch_loop 0 [(4031370, true); (4031370, true); (4031370, true); (4031370, true); (4031370, true); (4031370, true); (10, true); (5, false)]
  = [true; true; true; true; true; false; false; false]
  /\ txs_msg_len [4031370; 4031370; 4031370; 4031370; 4031370] = 20156872
  /\ batch_loop 0 [(9646, true); (9646, true); (9646, true); (9646, true); (9646, true); (9646, true); (9646, true); (9646, true); (9646, true)]
     = [true; true; true; true; true; true; true; true; true]
  /\ relay_len (txs_msg_len [4031370; 4031370; 4031370; 4031370; 4031370; 4031370; 4031370; 4031370; 4031370]) = Panic.
Proof. repeat split; vm_compute; reflexivity. Qed.
