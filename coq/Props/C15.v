(* C15 — finalizing a snapshot is atomic and idempotent.
   Model: Mixin.Model.Finalize (write_snapshot = the single Badger transaction of
   storage.WriteSnapshot over the record families of the snapshot database). *)
From Coq Require Import List ZArith NArith Bool.
Require Import Mixin.Base.Res Mixin.Gen.Consts Mixin.Model.Fixed Mixin.Model.Finalize Mixin.Proofs.Finalize.
Import ListNotations.
Open Scope Z_scope.

(* All or nothing: whenever write_snapshot does not succeed (a member returns an
   error or panics, at any position of the batch, or a snapshot-level assertion
   fails) the resulting state is the input state.  For every state and batch. *)
Theorem C15_all_or_nothing : forall s sn signers s' r,
  write_snapshot s sn signers = (s', r) -> r <> Ok tt -> s' = s.
Proof. exact write_snapshot_all_or_nothing. Qed.
Print Assumptions C15_all_or_nothing.

(* The same for every store call a history is made of. *)
Theorem C15_every_call_all_or_nothing : forall s o s' r,
  step s o = (s', r) -> r <> Ok tt -> s' = s.
Proof. exact step_all_or_nothing. Qed.
Print Assumptions C15_every_call_all_or_nothing.

(* Effect set.  On success the difference between the states is exactly:
   - a finalization record naming this snapshot for each member that had none
     (existing records are kept);
   - the per-node uniqueness record of each member;
   - the snapshot record, the topology entry with its reverse index, the work record;
   - output records only under newly finalized members (every other output
     record, including its lock holder, is untouched);
   and transaction bodies and rounds do not change.  The output-derived families
   (ghost keys, asset info, asset totals, node, custodian and withdrawal records)
   change only through newly finalized members: without one they are all equal.
   The TRANSACTION family is content addressed (wf_txs, property C06). *)
Theorem C15_effect_set : forall s sn signers s', wf_txs s ->
  write_snapshot s sn signers = (s', Ok tt) ->
  s_txs s' = s_txs s /\ s_round s' = s_round s /\
  (forall h, lookup eq1 (s_fin s') h =
     match lookup eq1 (s_fin s) h with
     | Some v => Some v
     | None => if mem_N h (sn_txs sn) then Some (sn_hash sn) else None
     end) /\
  (forall k, mem eq2 (s_uniq s') k =
     mem eq2 (s_uniq s) k || (mem_N (fst k) (sn_txs sn) && (snd k =? sn_node sn)%N)) /\
  (forall k, lookup eq3 (s_snap s') k =
     if eq3 (snap_key sn) k then Some (sn_hash sn) else lookup eq3 (s_snap s) k) /\
  (forall k, lookup eq1 (s_topo s') k =
     if eq1 (sn_topo sn) k then Some (snap_key sn) else lookup eq1 (s_topo s) k) /\
  (forall k, lookup eq1 (s_snaptopo s') k =
     if eq1 (sn_hash sn) k then Some (sn_topo sn) else lookup eq1 (s_snaptopo s) k) /\
  (forall k, lookup eq3 (s_work s') k =
     if eq3 (sn_node sn, sn_round sn, sn_ts sn) k then Some (sn_whash sn, signers)
     else lookup eq3 (s_work s) k) /\
  (forall h i, mem_N h (sn_txs sn) && negb (finalized s h) = false ->
     lookup eq2 (s_utxo s') (h, i) = lookup eq2 (s_utxo s) (h, i)) /\
  ((forall h, In h (sn_txs sn) -> finalized s h = true) ->
     s_fin s' = s_fin s /\ s_utxo s' = s_utxo s /\ s_ghost s' = s_ghost s /\
     s_ainfo s' = s_ainfo s /\ s_total s' = s_total s /\ s_nodes s' = s_nodes s /\
     s_cust s' = s_cust s /\ s_wdr s' = s_wdr s).
Proof.
  intros s sn signers s' Hwf H. destruct (write_snapshot_effect s sn signers s' Hwf H).
  repeat split; auto; apply se_idem; auto.
Qed.
Print Assumptions C15_effect_set.

(* What a newly finalized member writes, and only that: its finalization record,
   its spendable outputs as unlocked output records, and the new asset total
   (old total + deposit / mint / genesis amount, or - withdrawal submissions),
   which never exceeds the capacity. *)
Theorem C15_member_effect : forall s t sn s', finalized s (t_hash t) = false ->
  finalize_tx s t sn = Ok s' ->
  s_txs s' = s_txs s /\ s_uniq s' = s_uniq s /\ s_snap s' = s_snap s /\ s_topo s' = s_topo s /\
  s_snaptopo s' = s_snaptopo s /\ s_work s' = s_work s /\ s_round s' = s_round s /\
  s_fin s' = set eq1 (s_fin s) (t_hash t) (sn_hash sn) /\
  (exists us, unspent_outputs t = Ok us /\ s_utxo s' = put_utxos t us (s_utxo s)) /\
  (exists nt, new_total t (total_of s (t_asset t)) = Ok nt /\
     match nt with
     | None => s_total s' = s_total s
     | Some v => s_total s' = set eq1 (s_total s) (t_asset t) v /\ v <= capacity (t_asset t)
     end).
Proof.
  intros s t sn s' Hf H. destruct (finalize_tx_fresh s t sn s' Hf H). repeat split; auto.
Qed.
Print Assumptions C15_member_effect.

(* First finalization wins: finalizing an already finalized transaction is the
   identity on the whole state (its record, outputs and totals are not applied
   again) ... *)
Theorem C15_first_finalization_wins_member : forall s t sn,
  finalized s (t_hash t) = true -> finalize_tx s t sn = Ok s.
Proof. exact finalize_tx_done. Qed.
Print Assumptions C15_first_finalization_wins_member.

(* ... and through a whole snapshot: a transaction finalized before keeps its
   first record and every output record under it is unchanged; if all members
   were finalized before, no finalization, output, ghost, asset, node, custodian
   or withdrawal record changes at all (idempotence). *)
Theorem C15_first_finalization_wins : forall s sn signers s', wf_txs s ->
  write_snapshot s sn signers = (s', Ok tt) ->
  (forall h v, lookup eq1 (s_fin s) h = Some v ->
     lookup eq1 (s_fin s') h = Some v /\
     (forall i, lookup eq2 (s_utxo s') (h, i) = lookup eq2 (s_utxo s) (h, i))) /\
  ((forall h, In h (sn_txs sn) -> finalized s h = true) ->
     s_fin s' = s_fin s /\ s_utxo s' = s_utxo s /\ s_ghost s' = s_ghost s /\
     s_ainfo s' = s_ainfo s /\ s_total s' = s_total s /\ s_nodes s' = s_nodes s /\
     s_cust s' = s_cust s /\ s_wdr s' = s_wdr s).
Proof.
  intros s sn signers s' Hwf H. split.
  - apply (write_snapshot_first_wins s sn signers s' Hwf H).
  - apply (write_snapshot_effect s sn signers s' Hwf H).
Qed.
Print Assumptions C15_first_finalization_wins.

(* ---- non-vacuity ---------------------------------------------------------------- *)

Definition ex_out (ty amt : Z) (k : N) : output := {| o_type := ty; o_amount := amt; o_keys := [k] |}.
Definition ex_dep (h : N) (amt : Z) (k : N) : tx :=
  {| t_hash := h; t_asset := Consts.Fin_Asset_BTC; t_inputs := [IDeposit 7 8 amt];
     t_outputs := [ex_out ot_script amt k]; t_extra := []; t_refs := []; t_cust := None |}.
Definition ex_snap (h node : N) (txs : list N) (topo : N) : snapshot :=
  {| sn_hash := h; sn_whash := h; sn_node := node; sn_round := 1; sn_ts := 1000 + topo;
     sn_refs := (5, 6)%N; sn_txs := txs; sn_topo := topo |}.

Definition ex_state : state :=
  run empty_state [OpRound 50 1 (5, 6)%N; OpRound 51 1 (5, 6)%N;
                   OpWriteTx (ex_dep 101 (100 * 10 ^ 8) 201); OpWriteTx (ex_dep 102 (200 * 10 ^ 8) 202);
                   OpWriteTx (ex_dep 103 (2400 * 10 ^ 8) 203)].

(* a two-member batch succeeds and is a real change *)
Example C15_ex_success :
  snd (write_snapshot ex_state (ex_snap 900 50 [101; 102]%N 1) [50%N]) = Ok tt /\
  total_of (fst (write_snapshot ex_state (ex_snap 900 50 [101; 102]%N 1) [50%N])) Consts.Fin_Asset_BTC = 300 * 10 ^ 8 /\
  wf_txs ex_state.
Proof.
  split; [vm_compute; reflexivity|split; [vm_compute; reflexivity|]].
  apply run_wf. apply empty_wf.
Qed.

(* a failing member in the middle (capacity overflow: 100+200+2400 > 2500): panic, nothing written *)
Example C15_ex_failure :
  write_snapshot ex_state (ex_snap 901 50 [101; 103; 102]%N 1) [] = (ex_state, Panic).
Proof. vm_compute. reflexivity. Qed.

(* a missing body at the last position *)
Example C15_ex_missing :
  write_snapshot ex_state (ex_snap 902 50 [101; 102; 999]%N 1) [] = (ex_state, Panic).
Proof. vm_compute. reflexivity. Qed.

(* overlap: node 51 presents 101 again together with 103 (which now overflows alone? no: 100+200 then +2400 > 2500) *)
Example C15_ex_overlap :
  let s1 := fst (write_snapshot ex_state (ex_snap 900 50 [101]%N 1) []) in
  let s2 := fst (write_snapshot s1 (ex_snap 903 51 [101; 102]%N 2) []) in
  lookup eq1 (s_fin s2) 101%N = Some 900%N /\ lookup eq1 (s_fin s2) 102%N = Some 903%N /\
  total_of s2 Consts.Fin_Asset_BTC = 300 * 10 ^ 8 /\
  finalize_tx s2 (ex_dep 101 (100 * 10 ^ 8) 201) (ex_snap 904 51 [101]%N 3) = Ok s2.
Proof. vm_compute. repeat split; reflexivity. Qed.
