(* C12 - a CoSi nonce never answers two different challenges.
   Property theorems only; each is closed by [exact] of a lemma of
   Proofs/Nonce.v about the executable model Model/Nonce.v, which the
   correspondence harness (harness/cmd/c12) runs against crypto/nonce.go (16
   goroutines on copies of one handle) and the kernel's retention maps. *)
From Coq Require Import List ZArith NArith Bool Znumtheory.
Require Import Mixin.Base.Res Mixin.Gen.Consts Mixin.Model.Group Mixin.Model.Nonce Mixin.Proofs.Group Mixin.Proofs.Nonce.
Import ListNotations.
Open Scope Z_scope.

(* Over EVERY sequence of Response calls on handles sharing the state (every
   interleaving of the atomic critical section), from any state of the nonce:
   one pair (c, s) explains all results - every answered call carried challenge
   c and received s; every reuse error went to a call with another challenge;
   every other error went to a call whose challenge could not be computed. *)
Theorem C12_single_challenge : forall l qs st,
  exists c s, Forall2 (consistent c s) qs (snd (run l st qs)).
Proof. exact single_challenge. Qed.
Print Assumptions C12_single_challenge.

(* Once some call was answered with s for challenge c, every later call gets
   the identical s for the same challenge and the nonce-reuse error for any
   different challenge (never a fresh response, never a panic). *)
Theorem C12_identical_or_refused : forall l st qs1 q qs2 c s,
  q_challenge q = Some c ->
  nth_error (snd (run l st (qs1 ++ q :: qs2))) (length qs1) = Some (NOk s) ->
  skipn (S (length qs1)) (snd (run l st (qs1 ++ q :: qs2))) = map (answer c s) qs2.
Proof. exact after_answer. Qed.
Print Assumptions C12_identical_or_refused.

(* Why reuse matters: two accepted responses to different challenges under one
   nonce determine the private key, for every prime group order: the multiplier
   w depends on the two challenges only. *)
Theorem C12_extraction : forall l c1 c2, prime l -> (c1 - c2) mod l <> 0 ->
  exists w, ((c1 - c2) * w) mod l = 1 mod l /\
    forall a r s1 s2,
      s1 mod l = (c1 * a + r) mod l -> s2 mod l = (c2 * a + r) mod l ->
      a mod l = ((s1 - s2) * w) mod l.
Proof. exact extraction. Qed.
Print Assumptions C12_extraction.

(* The same through the model's own response computation: answering a second,
   different challenge from a fresh copy of the nonce would reveal the key. *)
Theorem C12_extraction_respond : forall l z a c1 c2 s1 s2, prime l -> (c1 - c2) mod l <> 0 ->
  snd (respond l (new_nonce z) (mkReq (Some c1) a)) = NOk s1 ->
  snd (respond l (new_nonce z) (mkReq (Some c2) a)) = NOk s2 ->
  exists w, ((c1 - c2) * w) mod l = 1 mod l /\ a mod l = ((s1 - s2) * w) mod l.
Proof. exact extraction_respond. Qed.
Print Assumptions C12_extraction_respond.

(* Kernel retention (cosiRetrieveRandom / retainUsedCosiNonce), every sequence
   of pool refills with fresh nonces and retrievals, any retention bound: a
   commitment is handed out for at most one snapshot hash ... *)
Theorem C12_retention : forall m ops, fresh_ok [] ops ->
  forall s1 s2 c, In (s1, c) (snd (rrun m empty_retention ops)) ->
                  In (s2, c) (snd (rrun m empty_retention ops)) -> s1 = s2.
Proof. exact retention_binding. Qed.
Print Assumptions C12_retention.

(* ... while its binding is retained the same snapshot gets the same nonce back ... *)
Theorem C12_retention_retained : forall m r s c,
  used_get (used r) s = Some c -> retrieve m r s c = (r, Some c).
Proof. exact retained_returns. Qed.
Print Assumptions C12_retention_retained.

(* ... and once the binding is gone (evicted or overwritten) the commitment can
   never be obtained again, for any snapshot. *)
Theorem C12_retention_evicted : forall m ops1 ops2, fresh_ok [] (ops1 ++ ops2) ->
  forall s c, In (s, c) (snd (rrun m empty_retention ops1)) ->
  (forall s', ~ In (s', c) (used (fst (rrun m empty_retention ops1)))) ->
  forall s2, ~ In (s2, c) (snd (rrun m (fst (rrun m empty_retention ops1)) ops2)).
Proof. exact unobtainable_after_eviction. Qed.
Print Assumptions C12_retention_evicted.

(* Non-vacuity. *)
Example C12_ex_run :
  snd (run 13 (new_nonce 5) [mkReq None 3; mkReq (Some 4) 3; mkReq (Some 4) 7; mkReq (Some 6) 3; mkReq None 3])
  = [NErr; NOk 4; NOk 4; NReuse; NErr].
Proof. vm_compute. reflexivity. Qed.

(* over the real group order: the inverse computed by extended Euclid recovers the key *)
Example C12_ex_extract :
  let l := Consts.EdL in
  let a := 1234567891011121314151617181920 in let z := 998877665544332211 in
  let c1 := 2 ^ 200 + 17 in let c2 := 3 ^ 100 in
  let s1 := (c1 * a + z) mod l in let s2 := (c2 * a + z) mod l in
  ((c1 - c2) * modinv l (c1 - c2)) mod l = 1 /\ ((s1 - s2) * modinv l (c1 - c2)) mod l = a.
Proof. vm_compute. split; reflexivity. Qed.

Example C12_ex_retention :
  let ops := [RPrepare [10; 11]%N; RRetrieve 1 10; RRetrieve 2 10; RRetrieve 1 10; RRetrieve 2 11;
              RRetrieve 3 11; RRetrieve 1 10]%N in
  fresh_ok [] ops /\ snd (rrun 1 empty_retention ops) = [(1, 10); (1, 10); (2, 11)]%N.
Proof.
  split.
  - cbn. split; [repeat constructor; intros [] | exact I].
  - vm_compute. reflexivity.
Qed.
