(* C06 - transaction encoding is canonical and its hash is content-addressed.
   Property theorems only, each closed by [exact] of a lemma of Proofs/TxCodec.v or
   Proofs/TxCodecTop.v about the executable model Model/TxCodec.v, which the
   correspondence harness (harness/cmd/c06) runs against common.UnmarshalVersionedTransaction,
   Encoder.EncodeTransaction, VersionedTransaction.Marshal / PayloadMarshal / PayloadHash. *)
From Coq Require Import List ZArith NArith Bool.
Require Import Mixin.Base.Res Mixin.Model.TxCodec Mixin.Proofs.TxCodec Mixin.Proofs.TxCodecTop.
Import ListNotations.
Open Scope N_scope.

(* Any byte string the decoder accepts re-encodes to exactly the same bytes
   (in particular the re-encoding does not panic). *)
Theorem C06_canonical : forall b t, unmarshal b = Ok t -> enc_tx t = Ok b.
Proof. exact unmarshal_canonical. Qed.
Print Assumptions C06_canonical.

(* Re-encoding the decoder's output never panics: on every byte string the
   decoder either accepts or rejects. *)
Theorem C06_reencode_total : forall b, bytes_ok b -> unmarshal b <> Panic.
Proof. exact unmarshal_no_panic. Qed.
Print Assumptions C06_reencode_total.

(* Encoding followed by decoding returns an equal transaction.  [wf_tx]: Go type
   ranges, the encoder's own non-panic guards (counts, index <= 1024, extra <= 4 MiB,
   sizes <= 0xFFFF, signers strictly increasing), signature maps given by their
   index-sorted association list, and the decoder's limits (at most SliceCountLimit
   references, keys per output and signature maps; total size <= 4 MiB). *)
Theorem C06_roundtrip : forall t, wf_tx t ->
  enc_tx t = Ok (ser_tx t) /\ unmarshal (ser_tx t) = Ok t.
Proof. exact unmarshal_roundtrip. Qed.
Print Assumptions C06_roundtrip.

(* The encoder's own guards alone do not give the round trip: 257 references
   encode without panic and are refused by the decoder (corpus case
   corpus-count-limit of the harness); hence the decoder's limits in [wf_tx]. *)
Theorem C06_roundtrip_encoder_guards_only_refuted :
  exists t, wf_tx_lim max_int t /\ enc_tx t = Ok (ser_tx t) /\ unmarshal (ser_tx t) = Err.
Proof.
  exists {| t_version := 5; t_asset := 7; t_inputs := []; t_outputs := []; t_refs := repeat 1 257;
            t_extra := []; t_auth := SigMaps [] |}.
  split; [|split; vm_compute; reflexivity].
  unfold wf_tx_lim. cbn [t_version t_asset t_inputs t_outputs t_refs t_extra t_auth].
  split; [reflexivity|]. split; [vm_compute; reflexivity|]. split; [constructor|]. split; [constructor|].
  split; [apply Forall_forall; intros x Hx; apply repeat_spec in Hx; subst x; vm_compute; reflexivity|].
  split; [vm_compute; discriminate|].
  split; [split; [constructor | vm_compute; discriminate]|]. vm_compute. reflexivity.
Qed.
Print Assumptions C06_roundtrip_encoder_guards_only_refuted.

(* Two transactions with different payloads never get the same payload encoding;
   only the payload fields are constrained, by type ranges and the encoder's guards. *)
Theorem C06_payload_injective : forall t1 t2, wf_payload t1 -> wf_payload t2 ->
  enc_payload t1 = enc_payload t2 -> payload t1 = payload t2.
Proof. exact enc_payload_injective. Qed.
Print Assumptions C06_payload_injective.

(* The hash is H(payload encoding) for an arbitrary H: it does not depend on the
   authorization data ... *)
Theorem C06_hash_ignores_auth : forall (Hsh : Type) (H : bytes -> Hsh) t1 t2,
  payload t1 = payload t2 -> payload_hash H t1 = payload_hash H t2.
Proof. exact @hash_ignores_auth. Qed.
Print Assumptions C06_hash_ignores_auth.

(* ... it exists for every structurally valid transaction ... *)
Theorem C06_hash_defined : forall (Hsh : Type) (H : bytes -> Hsh) t, wf_tx t ->
  payload_hash H t = Ok (H (ser_tx (payload t))).
Proof. exact @payload_hash_wf. Qed.
Print Assumptions C06_hash_defined.

(* ... and, H being injective on the two payload encodings, equal hashes mean equal
   payloads: the hash depends on every payload field. *)
Theorem C06_hash_determines_payload : forall (Hsh : Type) (H : bytes -> Hsh) t1 t2 h,
  wf_payload t1 -> wf_payload t2 ->
  (forall b1 b2, enc_payload t1 = Ok b1 -> enc_payload t2 = Ok b2 -> H b1 = H b2 -> b1 = b2) ->
  payload_hash H t1 = Ok h -> payload_hash H t2 = Ok h -> payload t1 = payload t2.
Proof. exact @hash_determines_payload. Qed.
Print Assumptions C06_hash_determines_payload.

(* Component round trips (the byte-level decoder inverts the encoder field by field). *)
Theorem C06_par_input : forall i r, wf_input i -> r <> [] ->
  par_input (ser_input i ++ r) = Some (i, r).
Proof. exact par_input_ser. Qed.
Print Assumptions C06_par_input.

Theorem C06_par_output : forall lim o r, wf_output lim o ->
  par_output lim (ser_output o ++ r) = Some (o, r).
Proof. intros lim o r W. apply par_output_ser; [exact W | exact I]. Qed.
Print Assumptions C06_par_output.

Theorem C06_par_signatures : forall m r, wf_sigs m -> par_sigs (ser_sigs m ++ r) = Some (m, r).
Proof. intros m r W. apply par_sigs_ser; [exact W | exact I]. Qed.
Print Assumptions C06_par_signatures.

(* both mask forms of the aggregated signature, whichever the encoder chooses *)
Theorem C06_par_aggregated : forall sg s r, sig_ok sg -> validate_signers s = true ->
  par_auth (ser_auth (Aggregate sg s) ++ r) = Some (Aggregate sg s, r).
Proof.
  intros sg s r H1 H2. apply par_auth_ser; [split; assumption|].
  cbn [ok_auth]. destruct s; [reflexivity | exact H2].
Qed.
Print Assumptions C06_par_aggregated.

(* A Go map has no order: any listing of the same entries encodes identically. *)
Theorem C06_signature_map_order : forall m1 m2, Permutation.Permutation m1 m2 ->
  keys_distinct m1 = true -> ser_sigs m1 = ser_sigs m2.
Proof. exact ser_sigs_perm. Qed.
Print Assumptions C06_signature_map_order.

(* ---- non-vacuity --------------------------------------------------------------------- *)
Definition ex_tx : tx :=
  {| t_version := 5; t_asset := 7;
     t_inputs := [ {| i_hash := 11; i_index := 3; i_genesis := [];
                      i_deposit := Some {| d_chain := 1; d_asset_key := [48; 120]; d_tx := [1; 2; 3];
                                           d_index := 9; d_amount := 100000000 |};
                      i_mint := Some {| m_group := [75]; m_batch := 2; m_amount := 0 |} |} ];
     t_outputs := [ {| o_type := 161; o_amount := 65536; o_keys := [5; 6]; o_mask := 8;
                       o_script := [255; 254; 1];
                       o_withdrawal := Some {| w_address := [97]; w_tag := [] |} |} ];
     t_refs := [12]; t_extra := [1; 2];
     t_auth := SigMaps [[(0, 3); (2, 4)]; []] |}.
Definition ex_agg (s : list N) : tx :=
  {| t_version := 5; t_asset := 7; t_inputs := []; t_outputs := []; t_refs := []; t_extra := [];
     t_auth := Aggregate 9 s |}.

Ltac wf_by_compute :=
  repeat match goal with
         | |- _ /\ _ => split
         | |- Forall _ _ => constructor
         | |- True => exact I
         | |- _ = _ => vm_compute; reflexivity
         | |- _ < _ => vm_compute; reflexivity
         | |- _ <= _ => vm_compute; discriminate
         | |- _ => progress cbv [wf_tx wf_tx_lim wf_input wf_output wf_opt wf_deposit wf_mint wf_auth wf_sigs
                                  wf_entry wf_agg keys_inc key_lt_all h_ok sig_ok u64_ok
                                  ex_tx ex_agg t_version t_asset t_inputs t_outputs t_refs t_extra t_auth
                                  i_hash i_deposit i_mint o_type o_keys o_mask d_chain d_index m_batch fst snd]
         end.

Example C06_ex_wf : wf_tx ex_tx.
Proof. wf_by_compute. Qed.
Example C06_ex_roundtrip : unmarshal (ser_tx ex_tx) = Ok ex_tx /\ blen (ser_tx ex_tx) = 443.
Proof. vm_compute. split; reflexivity. Qed.
(* sparse and ordinary mask forms on both sides of max/8+1 > 2*len *)
Example C06_ex_agg_wf : wf_tx (ex_agg [1; 35]) /\ wf_tx (ex_agg [1; 31]) /\ wf_payload ex_tx.
Proof. split; [|split]; [wf_by_compute | wf_by_compute | apply (wf_payload_of_wf slice_limit); [vm_compute; discriminate | exact (proj1 C06_ex_wf)]]. Qed.
Example C06_ex_agg_forms :
  skipn 114 (ser_tx (ex_agg [1; 35])) = [1; 0; 2; 0; 1; 0; 35]
  /\ skipn 114 (ser_tx (ex_agg [1; 31])) = [0; 0; 4; 2; 0; 0; 128]
  /\ unmarshal (ser_tx (ex_agg [1; 35])) = Ok (ex_agg [1; 35])
  /\ unmarshal (ser_tx (ex_agg [1; 31])) = Ok (ex_agg [1; 31]).
Proof. vm_compute. repeat split; reflexivity. Qed.
(* non-canonical inputs are refused: unsorted map entries, ordinary form where sparse is due *)
Example C06_ex_noncanonical :
  unmarshal (firstn 114 (ser_tx (ex_agg [1; 35])) ++ [0; 0; 5; 2; 0; 0; 0; 8]) = Err
  /\ enc_tx (ex_agg [3; 3]) = Panic.
Proof. vm_compute. split; reflexivity. Qed.
