(* C11 - historical consensus views depend only on earlier ledger records.
   Property theorems only; lemmas are in Proofs/Membership.v, the executable
   model (Model/Membership.v) is run against kernel/node.go, kernel/graph.go,
   kernel/slash.go, kernel/election.go and storage/badger_{node,custodian}.go
   by harness/cmd/c11. *)
From Coq Require Import List ZArith NArith Bool.
Require Import Mixin.Base.Res Mixin.Model.Membership Mixin.Proofs.Membership Mixin.Proofs.MembershipPerm.
Import ListNotations.
Open Scope N_scope.

(* The cached lookup NodesListWithoutState(th) over the state sequences built by
   LoadConsensusNodes equals the direct computation, which is a function of the
   records with timestamp < th only: latest record per node id, (accepted
   filter,) order by (timestamp, id), running consensus index. *)
Theorem C11_cached_eq_direct : forall recs genesis epoch mainnet th ao,
  th < two64 ->
  nodes_list (load_node recs genesis epoch mainnet) th ao
  = assign_index 0 (sort_recs (accepted_filter ao (latest_by_id
      (filter (fun r => r_ts r <? th) (sort_recs recs))))).
Proof.
  intros. rewrite nodes_list_load by assumption. unfold node_sequence_without_state.
  rewrite take_before_filter by apply sort_recs_sorted. reflexivity.
Qed.
Print Assumptions C11_cached_eq_direct.

(* the same for any record list already ordered by timestamp *)
Theorem C11_cached_eq_direct_sorted : forall all th ao,
  th < two64 -> ts_sorted all ->
  lookup_seq th (rev (build_sequences ao all)) = node_sequence_without_state th ao all.
Proof. exact (fun all th ao => lookup_seq_direct th ao all). Qed.
Print Assumptions C11_cached_eq_direct_sorted.

(* Appending any records with timestamp >= th (in any order, interleaving with
   the existing ones after sorting) changes none of the views at any t <= th:
   member list, accepted list with consensus indexes, both thresholds, signer
   ids and keys of any chain and round, pledging node, predicted removal,
   elected operator, accepted-or-pledging lookup. *)
Theorem C11_append_later : forall recs later genesis epoch mainnet ch round op id th t,
  th < two64 -> t <= th -> Forall (fun r => th <= r_ts r) later ->
  views_at (load_node (recs ++ later) genesis epoch mainnet) ch round op id t
  = views_at (load_node recs genesis epoch mainnet) ch round op id t.
Proof. exact views_append_later. Qed.
Print Assumptions C11_append_later.

(* storage.ReadAllNodes(th, withState) ignores records after th *)
Theorem C11_read_all_append_later : forall th store later,
  Forall (fun r => th < r_ts r) later ->
  read_all_with_state th (store ++ later) = read_all_with_state th store /\
  read_all_latest th (store ++ later) = read_all_latest th store.
Proof.
  intros th store later H. pose proof (read_all_append_later th store later H) as E.
  split; [exact E|]. unfold read_all_latest. rewrite E. reflexivity.
Qed.
Print Assumptions C11_read_all_append_later.

(* Custodian lookups: for every parser outcome function, every sequence of
   queries - each against its own state of the history - answered through the
   (transaction, genesis) cache started empty equals the uncached answers. *)
Theorem C11_custodian_cache : forall (P : Type) (parse : N -> bool -> res P) qs,
  run_queries P parse qs [] = map (fun q => read_custodian_direct P parse (fst q) (snd q)) qs.
Proof. intros. apply run_queries_eq. apply cache_ok_nil. Qed.
Print Assumptions C11_custodian_cache.

(* A custodian record written at a later time does not change the lookup *)
Theorem C11_custodian_append_later : forall (P : Type) (parse : N -> bool -> res P) recs ts ts' tx,
  ts < ts' ->
  read_custodian_direct P parse (cust_put ts' tx recs) ts = read_custodian_direct P parse recs ts.
Proof. intros. unfold read_custodian_direct. apply cust_scan_put_later. assumption. Qed.
Print Assumptions C11_custodian_append_later.

(* The Go map inside nodeSequenceWithoutState (and readAllNodes) is iterated in
   a random order.  For the map as an association list with distinct ids (it
   has them: latest_by_id_nodup) every permutation gives the same sequence; and
   a node all of whose map iterations - one arbitrary order per call - are
   permuted is the same node, so every view (member lists with indexes,
   thresholds, signer ids and keys, pledging node, predicted removal, elected
   operator, lookup by id) is unchanged. *)
Theorem C11_map_order_irrelevant :
  (forall ao m m', Permutation.Permutation m m' -> NoDup (map r_id m) ->
     sequence_of_map ao m = sequence_of_map ao m') /\
  (forall th ao all, node_sequence_without_state th ao all
     = sequence_of_map ao (latest_by_id (take_before th all)) /\
     NoDup (map r_id (latest_by_id (take_before th all)))) /\
  (forall iter, is_iteration iter ->
     (forall th ao all, nsws_with iter th ao all = node_sequence_without_state th ao all) /\
     (forall th store, read_all_latest_with iter th store = read_all_latest th store) /\
     (forall recs genesis epoch mainnet ch round op id t,
        views_at (load_node_with iter recs genesis epoch mainnet) ch round op id t
        = views_at (load_node recs genesis epoch mainnet) ch round op id t)).
Proof.
  split; [exact sequence_of_map_perm|]. split.
  - intros th ao all. split; [apply nsws_is_sequence_of_map|apply latest_by_id_nodup].
  - intros iter Hi. split; [|split].
    + intros. apply nsws_with_eq. exact Hi.
    + intros. apply read_all_latest_with_eq. exact Hi.
    + intros. rewrite load_node_with_eq by exact Hi. reflexivity.
Qed.
Print Assumptions C11_map_order_irrelevant.

(* ---- non-vacuity ---------------------------------------------------------------- *)
Definition ex_epoch : N := 1700000000000000000.
Definition ex_gen (i : N) : nrec := mkrec ex_epoch (10 + i) (100 + i) (200 + i) (300 + i) Accepted.
Definition ex_recs : list nrec :=
  map ex_gen [7; 3; 5; 1; 8; 2; 6; 4] ++
  [mkrec (ex_epoch + 2 * one_day) 50 150 250 350 Pledging].
Definition ex_later : list nrec :=
  [mkrec (ex_epoch + 2 * one_day + 1) 50 150 250 351 Accepted;
   mkrec (ex_epoch + 2 * one_day + 1) 11 101 201 352 Removed].
Definition ex_ch : mchain := mkchain (Some (mkrec 0 60 160 260 0 Pledging)) false.
Definition ex_t : N := ex_epoch + 2 * one_day + 1.

(* at ex_t: nine members, a pledging node, threshold 6, nine keys on a pledging chain *)
Example C11_views_nontrivial :
  let v := views_at (load_node ex_recs (map r_id (map ex_gen [1;2;3;4;5;6;7;8])) ex_epoch false)
                    ex_ch 0 9 50 ex_t in
  length (v_list v) = 9%nat /\ length (v_accepted v) = 8%nat /\
  v_threshold_final v = Ok 6 /\ length (v_keys v) = 9%nat /\
  option_map c_id (v_pledging v) = Some 50 /\ v_elect v = Ok 17.
Proof. vm_compute. repeat split; reflexivity. Qed.

(* the hypothesis of C11_append_later is met by ex_later at th = ex_t, and the
   later records do change the views one nanosecond later *)
Example C11_append_later_applies :
  Forall (fun r => ex_t <= r_ts r) ex_later /\
  views_at (load_node (ex_recs ++ ex_later) [] ex_epoch false) ex_ch 0 9 50 (ex_t + 1)
  <> views_at (load_node ex_recs [] ex_epoch false) ex_ch 0 9 50 (ex_t + 1).
Proof.
  split; [repeat constructor; vm_compute; discriminate|].
  vm_compute. discriminate.
Qed.

(* a predicted removal exists inside the accept window of day 3 *)
Example C11_removal_predicted :
  option_map c_id (removing_at (load_node (ex_recs ++ ex_later) [] ex_epoch false)
                               (ex_epoch + 3 * one_day + 14 * hour_ns)) = Some 12.
Proof. vm_compute. reflexivity. Qed.

(* custodian: the same body is accepted as the genesis record and refused later *)
Definition ex_parse (tx : N) (g : bool) : res N := if (tx =? 7) && negb g then Err else Ok (tx * 2).
Example C11_custodian_nontrivial :
  run_queries N ex_parse [([(10, 7); (20, 7)], 15); ([(10, 7); (20, 7)], 25); ([(10, 7); (20, 8)], 25)] []
  = [Ok (Some (7, 10, 14)); Err; Ok (Some (8, 20, 16))].
Proof. vm_compute. reflexivity. Qed.

(* map order: reversing every map iteration (a genuine permutation of a map with
   nine entries) leaves the views unchanged, while the unsorted lists do differ *)
Definition ex_rev_iter : iteration := fun _ _ m => rev m.
Example C11_map_order_example :
  is_iteration ex_rev_iter /\
  rev (latest_by_id (take_before ex_t (sort_recs ex_recs))) <> latest_by_id (take_before ex_t (sort_recs ex_recs)) /\
  length (latest_by_id (take_before ex_t (sort_recs ex_recs))) = 9%nat /\
  views_at (load_node_with ex_rev_iter ex_recs [] ex_epoch false) ex_ch 0 9 50 ex_t
  = views_at (load_node ex_recs [] ex_epoch false) ex_ch 0 9 50 ex_t.
Proof.
  split; [intros th ao m; apply Permutation.Permutation_rev|].
  split; [vm_compute; discriminate|]. split; vm_compute; reflexivity.
Qed.
