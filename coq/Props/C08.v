(* C08 - peer message parsing is total and faithful.
   Property theorems only, about the executable model Model/P2PMsg.v of
   p2p/handle.go, which the correspondence harness (harness/cmd/c08) runs
   against the real parser and builders.  The decoders of the snapshot and
   transaction payloads and the curve point check are arbitrary parameters
   (snap_body, snap_signed, tx_body, check_key): every theorem holds for all of them. *)
From Coq Require Import List ZArith NArith Bool.
Require Import Mixin.Base.Res Mixin.Gen.Consts Mixin.Model.P2PMsg Mixin.Proofs.P2PMsg Mixin.Proofs.P2PMsgInst.
Require Mixin.Model.TxCodec Mixin.Model.SnapCodec Mixin.Proofs.TxCodecTop Mixin.Proofs.SnapCodec.
Import ListNotations.
Open Scope Z_scope.

(* Parsing never panics: for every version byte and every byte string shorter
   than 4 GiB (the transport admits at most 32 MiB, C31) no slice or index of
   the parser is out of range.  The bound is needed: 4+size is computed in
   uint32 in parseTransactionsPayload. *)
Theorem C08_total : forall SN TX snap_body snap_signed tx_body check_key version data,
  len data < 4294967296 ->
  parse_msg SN TX snap_body snap_signed tx_body check_key version data <> Panic.
Proof. exact parse_msg_no_panic. Qed.
Print Assumptions C08_total.

(* Every point of an accepted pre-commitments, announcement, commitment or full
   challenge message passed the point check. *)
Theorem C08_points_checked : forall SN TX snap_body snap_signed tx_body check_key v data v' m,
  parse_msg SN TX snap_body snap_signed tx_body check_key v data = Ok (v', m) ->
  Forall (fun k => check_key k = true) (msg_points m).
Proof. exact parse_msg_points. Qed.
Print Assumptions C08_points_checked.

Theorem C08_roundtrip_authentication : forall SN TX snap_body snap_signed tx_body check_key v data,
  1 + len data = Consts.P2P_AuthenticationMessageSize ->
  parse_msg SN TX snap_body snap_signed tx_body check_key v (build_authentication data) = Ok (v, MAuthentication data).
Proof. exact roundtrip_authentication. Qed.
Print Assumptions C08_roundtrip_authentication.

Theorem C08_roundtrip_snapshot_confirm : forall SN TX snap_body snap_signed tx_body check_key v h,
  len h = hash_size ->
  parse_msg SN TX snap_body snap_signed tx_body check_key v (build_snapshot_confirm h) = Ok (v, MSnapshotConfirm h).
Proof. exact roundtrip_snapshot_confirm. Qed.
Print Assumptions C08_roundtrip_snapshot_confirm.

Theorem C08_roundtrip_transaction_request : forall SN TX snap_body snap_signed tx_body check_key v h,
  len h = hash_size ->
  parse_msg SN TX snap_body snap_signed tx_body check_key v (build_transaction_request h) = Ok (v, MTransactionRequest h).
Proof. exact roundtrip_transaction_request. Qed.
Print Assumptions C08_roundtrip_transaction_request.

Theorem C08_roundtrip_response : forall SN TX snap_body snap_signed tx_body check_key v h si,
  len h = hash_size -> len si = 32 ->
  parse_msg SN TX snap_body snap_signed tx_body check_key v (build_response h si) = Ok (v, MResponse h si).
Proof. exact roundtrip_response. Qed.
Print Assumptions C08_roundtrip_response.

Theorem C08_roundtrip_relay : forall SN TX snap_body snap_signed tx_body check_key v me peer m r,
  len me = hash_size -> len peer = hash_size -> build_relay me peer m = Ok r ->
  parse_msg SN TX snap_body snap_signed tx_body check_key v r = Ok (v, MRelay r).
Proof. exact roundtrip_relay. Qed.
Print Assumptions C08_roundtrip_relay.

Theorem C08_roundtrip_consumers : forall SN TX snap_body snap_signed tx_body check_key v entries,
  parse_msg SN TX snap_body snap_signed tx_body check_key v (build_consumers entries) =
  Ok (v, MConsumers (concat (map (fun e => fst e ++ snd e) entries))).
Proof. exact roundtrip_consumers. Qed.
Print Assumptions C08_roundtrip_consumers.

(* a transaction that the transaction decoder accepts (C06: every marshalled transaction) *)
Theorem C08_roundtrip_transaction : forall SN TX snap_body snap_signed tx_body check_key v b t,
  tx_dec TX tx_body b = Some t ->
  parse_msg SN TX snap_body snap_signed tx_body check_key v (build_transaction b) = Ok (v, MTransaction t).
Proof. exact roundtrip_transaction. Qed.
Print Assumptions C08_roundtrip_transaction.

(* a snapshot that the snapshot decoder accepts (C07: every marshalled snapshot) *)
Theorem C08_roundtrip_finalization : forall SN TX snap_body snap_signed tx_body check_key v sb s,
  snap_dec SN snap_body sb = Some s ->
  parse_msg SN TX snap_body snap_signed tx_body check_key v (build_finalization sb) = Ok (v, MFinalization s).
Proof. exact roundtrip_finalization. Qed.
Print Assumptions C08_roundtrip_finalization.

Theorem C08_roundtrip_announcement : forall SN TX snap_body snap_signed tx_body check_key v sig R sb s,
  len sig = sig_size -> len R = key_size -> check_key R = true -> snap_dec SN snap_body sb = Some s ->
  parse_msg SN TX snap_body snap_signed tx_body check_key v (build_announcement sig R sb) = Ok (v, MAnnouncement sig R s).
Proof. exact roundtrip_announcement. Qed.
Print Assumptions C08_roundtrip_announcement.

(* transaction bundles of 0..255 transactions, both bundle types; the builder
   refuses (panics on) longer lists, so [build_transactions = Ok] covers exactly 0..255 *)
Theorem C08_roundtrip_transactions : forall SN TX snap_body snap_signed tx_body check_key v txs ts typ m,
  typ = ty Consts.P2P_TypeTransactionBundle \/ typ = ty Consts.P2P_TypeFinalizedTransactionBundle ->
  Forall2 (fun b t => tx_dec TX tx_body b = Some t) txs ts ->
  build_transactions txs typ = Ok m ->
  parse_msg SN TX snap_body snap_signed tx_body check_key v m = Ok (v, MBundle (Z.of_N typ) ts).
Proof. exact roundtrip_transactions. Qed.
Print Assumptions C08_roundtrip_transactions.

Theorem C08_roundtrip_transaction_challenge : forall SN TX snap_body snap_signed tx_body check_key v h cs mask txs ts m,
  len h = hash_size -> len cs = sig_size -> 0 <= mask < 2 ^ 64 ->
  Forall2 (fun b t => tx_dec TX tx_body b = Some t) txs ts ->
  build_transaction_challenge h cs mask txs = Ok m ->
  parse_msg SN TX snap_body snap_signed tx_body check_key v m = Ok (v, MTransactionChallenge h cs mask ts).
Proof. exact roundtrip_transaction_challenge. Qed.
Print Assumptions C08_roundtrip_transaction_challenge.

(* The parser refuses a full challenge of fewer than 257 bytes; the smallest one
   the builder can produce (round-0 snapshot, no transaction) has 238.  With at
   least one transaction attached, as the leader always does, the bound holds. *)
Theorem C08_roundtrip_full_challenge : forall SN TX snap_body snap_signed tx_body check_key v sb s c ch txs ts m,
  snap_dec SN snap_body sb = Some s -> snap_signed s = true -> len sb < 2 ^ 32 ->
  len c = key_size -> len ch = key_size -> check_key c = true -> check_key ch = true ->
  Forall2 (fun b t => tx_dec TX tx_body b = Some t) txs ts ->
  build_full_challenge sb c ch txs = Ok m ->
  256 <= len m - 1 ->
  parse_msg SN TX snap_body snap_signed tx_body check_key v m = Ok (v, MFullChallenge s c ch ts).
Proof. exact roundtrip_full_challenge. Qed.
Print Assumptions C08_roundtrip_full_challenge.

(* pre-commitment lists of 1..1024 valid points (an empty list is refuted below) *)
Theorem C08_roundtrip_commitments : forall SN TX snap_body snap_signed tx_body check_key v sig keys m,
  len sig = sig_size -> 1 <= len keys ->
  Forall (fun k => len k = 32 /\ check_key k = true) keys ->
  build_commitments sig keys = Ok m ->
  parse_msg SN TX snap_body snap_signed tx_body check_key v m =
  Ok (v, MPreCommitments sig keys (be_bytes 2 (len keys) ++ concat keys)).
Proof. exact roundtrip_commitments. Qed.
Print Assumptions C08_roundtrip_commitments.

Theorem C08_roundtrip_commitment : forall SN TX snap_body snap_signed tx_body check_key v sig h R wants,
  len sig = sig_size -> len h = hash_size -> len R = key_size -> check_key R = true ->
  Forall (fun w => len w = 32) wants ->
  parse_msg SN TX snap_body snap_signed tx_body check_key v (build_commitment sig h R wants) =
  Ok (v, MCommitment sig h R wants (h ++ R ++ concat wants)).
Proof. exact roundtrip_commitment. Qed.
Print Assumptions C08_roundtrip_commitment.

(* graph (sync points): node and hash of 32 bytes, round number below 2^64; up to 65535 points *)
Theorem C08_sync_points_roundtrip : forall ps d, Forall point_wf ps ->
  marshal_sync_points ps = Ok d -> unmarshal_sync_points d = Ok ps.
Proof. exact sync_points_roundtrip. Qed.
Print Assumptions C08_sync_points_roundtrip.

Theorem C08_roundtrip_graph : forall SN TX snap_body snap_signed tx_body check_key v sig ps m d,
  len sig = sig_size -> Forall point_wf ps ->
  marshal_sync_points ps = Ok d -> build_graph sig ps = Ok m ->
  parse_msg SN TX snap_body snap_signed tx_body check_key v m = Ok (v, MGraph sig ps d).
Proof. exact roundtrip_graph. Qed.
Print Assumptions C08_roundtrip_graph.

Theorem C08_payload_roundtrip : forall TX tx_body txs ts pl,
  Forall2 (fun b t => tx_dec TX tx_body b = Some t) txs ts ->
  build_txs_payload txs = Ok pl -> parse_txs_payload TX tx_body pl = Ok ts.
Proof. intros TX tx_body. exact (parse_txs_payload_build unit TX (fun _ => None) tx_body (fun _ => true)). Qed.
Print Assumptions C08_payload_roundtrip.

(* Non-vacuity and the two refuted corners, on an instance where every snapshot
   with the right header and every transaction decodes to itself. *)
Definition ex_parse := parse_msg bytes bytes (fun b => Some b) (fun _ => true) (fun b => Some b) (fun k => negb (bytes_eqb k (repeat 0%N 32))).
Definition ex_key : bytes := repeat 7%N 32.
Definition ex_sig : bytes := repeat 9%N 64.
Definition ex_snap : bytes := Consts.P2P_SnapshotEncodingHeader ++ repeat 1%N 164.

Example C08_ex_bundle :
  exists m, build_transactions [[1;2;3]%N; []; [4]%N] (ty Consts.P2P_TypeTransactionBundle) = Ok m /\
    ex_parse 2%N m = Ok (2%N, MBundle Consts.P2P_TypeTransactionBundle [[1;2;3]%N; []; [4]%N]).
Proof. eexists; split; [vm_compute; reflexivity|]. vm_compute. reflexivity. Qed.

Example C08_ex_announcement :
  ex_parse 2%N (build_announcement ex_sig ex_key ex_snap) = Ok (2%N, MAnnouncement ex_sig ex_key ex_snap)
  /\ ex_parse 2%N (build_announcement ex_sig (repeat 0%N 32) ex_snap) = Err.
Proof. split; vm_compute; reflexivity. Qed.

(* refuted: an empty pre-commitments list (67 bytes) is below the 80-byte minimum *)
Example C08_roundtrip_commitments_empty_refuted :
  exists m, build_commitments ex_sig [] = Ok m /\ ex_parse 2%N m = Err.
Proof. eexists; split; [vm_compute; reflexivity|]. vm_compute. reflexivity. Qed.

Example C08_ex_commitments :
  exists m, build_commitments ex_sig [ex_key; ex_key] = Ok m /\
    exists u, ex_parse 2%N m = Ok (2%N, MPreCommitments ex_sig [ex_key; ex_key] u).
Proof. eexists; split; [vm_compute; reflexivity|]. eexists. vm_compute. reflexivity. Qed.

(* refuted: a full challenge without transactions around a 168-byte snapshot is refused *)
Example C08_roundtrip_full_challenge_small_refuted :
  exists m, build_full_challenge ex_snap ex_key ex_key [] = Ok m /\ len m = 238 /\ ex_parse 2%N m = Err.
Proof. eexists; split; [vm_compute; reflexivity|]. split; vm_compute; reflexivity. Qed.

Example C08_ex_full_challenge :
  exists m, build_full_challenge ex_snap ex_key ex_key [repeat 5%N 40] = Ok m /\
    ex_parse 2%N m = Ok (2%N, MFullChallenge ex_snap ex_key ex_key [repeat 5%N 40]).
Proof. eexists; split; [vm_compute; reflexivity|]. vm_compute. reflexivity. Qed.

Example C08_ex_graph :
  exists m, build_graph ex_sig [mk_point ex_key 77 ex_key] = Ok m /\
    exists u, ex_parse 2%N m = Ok (2%N, MGraph ex_sig [mk_point ex_key 77 ex_key] u).
Proof. eexists; split; [vm_compute; reflexivity|]. eexists. vm_compute. reflexivity. Qed.

Example C08_ex_short_inputs :
  ex_parse 2%N [] = Err /\ ex_parse 2%N [15]%N = Err /\ ex_parse 2%N [24;0;0;0;200]%N = Err
  /\ ex_parse 2%N [1]%N = Ok (2%N, MPing) /\ ex_parse 2%N [77]%N = Ok (2%N, MOther 77).
Proof. repeat split; vm_compute; reflexivity. Qed.

(* ---- the parser over the concrete payload decoders -------------------------------------------
   [parse_msg_concrete] is [parse_msg] with the opaque decoders instantiated by the
   byte-level models of common.UnmarshalVersionedTransaction (Model/TxCodec.v, C06) and
   common.UnmarshalVersionedSnapshot (Model/SnapCodec.v, C07); only the curve check
   remains a (total, boolean) parameter. *)

(* The checks P2PMsg.v writes in front of the opaque decoders are the ones the
   concrete decoders begin with: the composition is the real call. *)
Theorem C08_inner_decoders_composed : forall b,
  snap_dec Mixin.Model.SnapCodec.snapshot snap_body_c b = snap_body_c b /\
  tx_dec Mixin.Model.TxCodec.tx tx_body_c b = tx_body_c b.
Proof. intros b. split; [apply snap_dec_concrete|apply tx_dec_concrete]. Qed.
Print Assumptions C08_inner_decoders_composed.

(* No hypothesis on the payload decoders: for every version and every string of
   bytes shorter than 4 GiB the parser does not panic, and no call of either
   payload decoder on any slice of the message panics (so reading their outcome as
   accepted / refused hides nothing). *)
Theorem C08_total_concrete : forall check_key v b, len b < 4294967296 -> is_bytes b ->
  parse_msg_concrete check_key v b <> Panic /\
  (forall lo hi r, slice b lo hi = Ok r ->
     Mixin.Model.TxCodec.unmarshal r <> Panic /\ Mixin.Model.SnapCodec.unmarshal_snapshot r <> Panic).
Proof. exact total_concrete. Qed.
Print Assumptions C08_total_concrete.

(* every well-formed transaction (C06_roundtrip's wf_tx), alone or in a bundle, comes back field for field *)
Theorem C08_roundtrip_transaction_concrete : forall check_key v t, Mixin.Proofs.TxCodecTop.wf_tx t ->
  parse_msg_concrete check_key v (build_transaction (Mixin.Model.TxCodec.ser_tx t)) = Ok (v, MTransaction t).
Proof. exact roundtrip_transaction_concrete. Qed.
Print Assumptions C08_roundtrip_transaction_concrete.

Theorem C08_roundtrip_transactions_concrete : forall check_key v ts typ m,
  typ = ty Consts.P2P_TypeTransactionBundle \/ typ = ty Consts.P2P_TypeFinalizedTransactionBundle ->
  Forall Mixin.Proofs.TxCodecTop.wf_tx ts ->
  build_transactions (map Mixin.Model.TxCodec.ser_tx ts) typ = Ok m ->
  parse_msg_concrete check_key v m = Ok (v, MBundle (Z.of_N typ) ts).
Proof. exact roundtrip_transactions_concrete. Qed.
Print Assumptions C08_roundtrip_transactions_concrete.

(* every well-formed snapshot (C07_roundtrip's wf) in a finalization message comes back, transactions sorted *)
Theorem C08_roundtrip_finalization_concrete : forall check_key v s topo,
  Mixin.Proofs.SnapCodec.wf s -> (topo < Mixin.Proofs.SnapCodec.u64_bound)%N ->
  exists e, Mixin.Model.SnapCodec.versioned_marshal s topo = Ok e /\
    parse_msg_concrete check_key v (build_finalization e) = Ok (v, MFinalization (Mixin.Proofs.SnapCodec.canon s)).
Proof. exact roundtrip_finalization_concrete. Qed.
Print Assumptions C08_roundtrip_finalization_concrete.

Definition ex_tx : Mixin.Model.TxCodec.tx :=
  {| Mixin.Model.TxCodec.t_version := 5; Mixin.Model.TxCodec.t_asset := 7; Mixin.Model.TxCodec.t_inputs := [];
     Mixin.Model.TxCodec.t_outputs := []; Mixin.Model.TxCodec.t_refs := [9%N; 11%N]; Mixin.Model.TxCodec.t_extra := [1; 2; 3]%N;
     Mixin.Model.TxCodec.t_auth := Mixin.Model.TxCodec.SigMaps [] |}.

Example C08_ex_concrete :
  parse_msg_concrete (fun _ => true) 2%N (build_transaction (Mixin.Model.TxCodec.ser_tx ex_tx)) = Ok (2%N, MTransaction ex_tx)
  /\ parse_msg_concrete (fun _ => true) 2%N (build_finalization [119; 119; 0; 2; 1; 2; 3]%N) = Err.
Proof. split; vm_compute; reflexivity. Qed.
