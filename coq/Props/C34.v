(* C34 - custodian updates are accepted only in canonical, fully signed form;
   encoding an update and parsing it back returns the same entries.
   Property theorems only; each is closed by a lemma of Proofs/Custodian.v
   about the executable model Model/Custodian.v, which the correspondence
   harness (harness/cmd/c34) runs against common/custodian.go.

   [verify key msg sig] stands for key.Verify(Blake3Hash(msg), sig): the
   theorems hold for every such function (no assumption on the scheme). *)
From Coq Require Import List ZArith NArith Bool Arith Sorted Permutation.
Require Import Mixin.Base.Res Mixin.Gen.Consts Mixin.Model.Fixed Mixin.Model.Custodian Mixin.Proofs.Custodian.
Import ListNotations.
Local Open Scope nat_scope.

(* Acceptance by validateCustodianUpdateNodes, for EVERY extra, previous
   custodian state and transaction: the extra is exactly the encoding of its
   entries; there are at least 7; they are strictly sorted by custodian spend
   key in bytes.Compare order; all custodian and payee spend keys are pairwise
   distinct; every entry has the 353-byte layout and carries valid payee and
   custodian signatures over its first 161 bytes; the approval signature
   verifies under the CURRENT custodian's key over everything but itself; and
   the amount is at least 100 per new plus 1 per changed entry, new/changed
   being judged by the custodian address against the previous state. *)
Theorem C34_accept_implies : forall verify tx extra store,
  validate_update verify tx extra store = Ok tt ->
  exists out u prev,
    t_outputs tx = [out] /\ store = StoreSome prev /\ extra = encode_update u /\
    min_count <= length (u_nodes u) /\
    StronglySorted nlt (u_nodes u) /\
    NoDup (spend_keys (u_nodes u)) /\
    Forall (fun n => node_shape n /\ node_signed verify n) (u_nodes u) /\
    verify (fst (p_cust prev))
           (fst (u_cust u) ++ snd (u_cust u) ++ concat (map cn_extra (u_nodes u))) (u_sig u) = true /\
    (new_price * Z.of_nat (length (filter (is_new (p_nodes prev)) (u_nodes u)))
     + update_price * Z.of_nat (length (filter (fun n => negb (is_new (p_nodes prev) n) && is_changed (p_nodes prev) n)
                                                (u_nodes u)))
     <= o_amount out)%Z.
Proof.
  intros verify tx extra store H. apply accepted_facts. apply validate_update_accept. exact H.
Qed.
Print Assumptions C34_accept_implies.

(* The prices are the repository's constants: 100 and 1 whole units. *)
Theorem C34_prices : new_price = (100 * 10 ^ 8)%Z /\ update_price = (1 * 10 ^ 8)%Z /\ min_count = 7 /\ node_size = 353.
Proof. exact (conj new_price_val (conj update_price_val (conj min_count_val node_size_val))). Qed.
Print Assumptions C34_prices.

(* Acceptance is EXACTLY the rule (both directions), including the
   transaction shape, the same-custodian rule and the absence of panics. *)
Theorem C34_accept_iff : forall verify tx extra store,
  validate_update verify tx extra store = Ok tt <-> accepted verify tx extra store.
Proof. exact validate_update_accept. Qed.
Print Assumptions C34_accept_iff.

(* The parser accepts exactly the canonical encodings of well-formed entry
   lists: in particular parse (encode u) = Ok u, and an accepted byte string
   is the encoding of what was parsed (nothing is lost or ignored). *)
Theorem C34_parse_iff : forall verify genesis extra u,
  parse_update verify genesis extra = Ok u <-> extra = encode_update u /\ update_wf verify genesis u.
Proof. exact parse_update_spec. Qed.
Print Assumptions C34_parse_iff.

Theorem C34_roundtrip : forall verify genesis u,
  update_wf verify genesis u -> parse_update verify genesis (encode_update u) = Ok u.
Proof. intros verify g u W. apply parse_update_spec. split; [reflexivity|exact W]. Qed.
Print Assumptions C34_roundtrip.

Theorem C34_roundtrip_canonical : forall verify genesis extra u,
  parse_update verify genesis extra = Ok u -> encode_update u = extra.
Proof. intros verify g extra u H. apply parse_update_spec in H as [E _]. symmetry. exact E. Qed.
Print Assumptions C34_roundtrip_canonical.

(* One entry: parseCustodianNode accepts exactly the 353-byte entries with the
   update action whose fields sit at the documented offsets and (outside
   genesis) whose payee and custodian signatures verify. *)
Theorem C34_entry_iff : forall verify genesis e n,
  parse_node verify genesis e = Ok n <-> cn_extra n = e /\ node_ok verify genesis n.
Proof. exact parse_node_spec. Qed.
Print Assumptions C34_entry_iff.

(* What EncodeCustodianNode lays out parses back to the same entry: for fields
   of the right sizes, distinct payee and custodian keys, and payee / custodian
   signatures over the 161-byte signed part. *)
Theorem C34_roundtrip_entry : forall verify f,
  fields_wf f ->
  fst (f_payee f) <> fst (f_cust f) ->
  verify (fst (f_payee f)) (signed_part f) (f_payee_sig f) = true ->
  verify (fst (f_cust f)) (signed_part f) (f_cust_sig f) = true ->
  parse_node verify false (encode_node f) = Ok (cnode_of_fields f).
Proof. exact encode_node_parses. Qed.
Print Assumptions C34_roundtrip_entry.

(* Entries that are not strictly sorted by custodian key - out of order or
   with a repeated key - are rejected, whatever the signatures, in both modes. *)
Theorem C34_reject_unsorted_or_duplicate : forall verify genesis u,
  update_shaped u ->
  (~ StronglySorted nlt (u_nodes u) \/ ~ NoDup (map cn_cust_spend (u_nodes u))) ->
  parse_update verify genesis (encode_update u) = Err.
Proof.
  intros verify g u Sh [H|H]; apply parse_rejects_unsorted; auto. apply unsorted_of_duplicate. exact H.
Qed.
Print Assumptions C34_reject_unsorted_or_duplicate.

(* The model sorts by insertion; Go uses the unstable sort.Slice.  With the
   distinct keys the uniqueness filter guarantees, EVERY correct sort returns
   the same list, so the choice of algorithm cannot matter. *)
Theorem C34_sort_model_adequate : forall l l',
  Permutation l' l -> StronglySorted nle l' -> NoDup (map cn_cust_spend l) -> l' = sort_nodes l.
Proof. exact any_sort_is_sort_nodes. Qed.
Print Assumptions C34_sort_model_adequate.

(* Parsing and validation never panic on any input, except validation when
   the store hands back a previous state with a repeated custodian address. *)
Theorem C34_parse_total : forall verify genesis extra, parse_update verify genesis extra <> Panic.
Proof. exact parse_update_no_panic. Qed.
Print Assumptions C34_parse_total.

(* ---- non-vacuity: a concrete 7-entry update ----------------------------------------- *)
Definition ex_key (x : N) : bytes := x :: repeat 0%N 31.
Definition ex_fields (i : N) : node_fields :=
  {| f_cust := (ex_key i, ex_key (100 + i)); f_payee := (ex_key (50 + i), ex_key (150 + i));
     f_node_id := repeat 7%N 32; f_signer_sig := repeat 1%N 64;
     f_payee_sig := repeat 2%N 64; f_cust_sig := repeat 3%N 64 |}.
Definition ex_update (order : list N) : update :=
  {| u_cust := (ex_key 200, ex_key 201);
     u_nodes := map (fun i => cnode_of_fields (ex_fields i)) order;
     u_sig := repeat 9%N 64 |}.
Definition ex_good := ex_update [1; 2; 3; 4; 5; 6; 7]%N.
Definition yes (k m s : bytes) := true.
(* only signatures made of 2s (payee) or 3s (custodian) or 9s (approval by key 250) verify *)
Definition ex_verify (k m s : bytes) : bool :=
  match s with
  | 9%N :: _ => bytes_eqb k (ex_key 250)
  | 2%N :: _ => (50 <? hd 0 k)%N
  | 3%N :: _ => (hd 0 k <? 50)%N
  | _ => false
  end.
Definition ex_tx (amount : Z) : txshape :=
  {| t_version := Consts.CusTxVersionHashSignature; t_asset := Consts.CusXINAssetId;
     t_outputs := [ {| o_type := Consts.CusOutputTypeCustodianUpdateNodes; o_nkeys := 1;
                       o_script := storage_script; o_amount := amount |} ] |}.
Definition ex_prev : prev_state :=
  {| p_cust := (ex_key 250, ex_key 251);
     p_nodes := [ ((ex_key 1, ex_key 101), (ex_key 51, ex_key 151));      (* unchanged *)
                  ((ex_key 2, ex_key 102), (ex_key 52, ex_key 99)) ] |}.  (* payee changed *)

Example ex_parse_roundtrip : parse_update ex_verify false (encode_update ex_good) = Ok ex_good.
Proof. vm_compute. reflexivity. Qed.

Example ex_wf : update_wf ex_verify false ex_good.
Proof. apply (proj1 (C34_parse_iff ex_verify false (encode_update ex_good) ex_good)). exact ex_parse_roundtrip. Qed.

(* 5 new entries and 1 changed: price 501 units; accepted at the price, refused one unit below *)
Example ex_accept_at_price :
  validate_update ex_verify (ex_tx (501 * 10 ^ 8)) (encode_update ex_good) (StoreSome ex_prev) = Ok tt.
Proof. vm_compute. reflexivity. Qed.
Example ex_reject_below_price :
  validate_update ex_verify (ex_tx (501 * 10 ^ 8 - 1)) (encode_update ex_good) (StoreSome ex_prev) = Err.
Proof. vm_compute. reflexivity. Qed.
(* approval that verifies only under the NEW custodian's key is refused *)
Example ex_reject_foreign_approval :
  validate_update ex_verify (ex_tx (700 * 10 ^ 8)) (encode_update ex_good)
    (StoreSome {| p_cust := (ex_key 200, ex_key 201); p_nodes := [] |}) = Err.
Proof. vm_compute. reflexivity. Qed.
(* out of order, and a repeated custodian key: refused even if every signature verifies *)
Example ex_reject_unsorted :
  parse_update yes false (encode_update (ex_update [1; 2; 4; 3; 5; 6; 7]%N)) = Err.
Proof. vm_compute. reflexivity. Qed.
Example ex_reject_duplicate :
  parse_update yes false (encode_update (ex_update [1; 2; 3; 3; 4; 5; 6; 7]%N)) = Err.
Proof. vm_compute. reflexivity. Qed.
Example ex_shaped_unsorted : update_shaped (ex_update [1; 2; 4; 3; 5; 6; 7]%N) /\
  ~ StronglySorted nlt (u_nodes (ex_update [1; 2; 4; 3; 5; 6; 7]%N)).
Proof.
  split.
  - unfold update_shaped. repeat split; try reflexivity.
    repeat (constructor; [repeat split; reflexivity|]). constructor.
  - intro S. apply sort_of_sorted in S. vm_compute in S. discriminate.
Qed.
(* six entries are too few; a bad payee signature is refused *)
Example ex_reject_six : parse_update yes false (encode_update (ex_update [1; 2; 3; 4; 5; 6]%N)) = Err.
Proof. vm_compute. reflexivity. Qed.
Example ex_reject_bad_signature :
  parse_update (fun k m s => negb (bytes_eqb k (ex_key 53))) false (encode_update ex_good) = Err.
Proof. vm_compute. reflexivity. Qed.

(* ---- FINDING: "unique keys" read over every key field does not hold --------------------
   The uniqueness filter stores all four keys of each entry but only looks up
   the two SPEND keys of the entry being added.  A spend key equal to a view
   key of an EARLIER entry is refused; the same reuse with the view key in the
   entry itself or in a LATER entry is accepted.  Witness below (entry 3's
   custodian spend key is entry 7's payee view key); on real code: harness
   corpus cases cross/ps=cv/src-later, cross/cs=pv/src-later, cross/ps=own-cv
   (known_findings.txt, sig accept-spend-key-equals-later-view-key).
   C34_accept_implies is unaffected: it claims distinct SPEND keys. *)
Definition with_payee_view (f : node_fields) (pv : bytes) : node_fields :=
  {| f_cust := f_cust f; f_payee := (fst (f_payee f), pv); f_node_id := f_node_id f;
     f_signer_sig := f_signer_sig f; f_payee_sig := f_payee_sig f; f_cust_sig := f_cust_sig f |}.
Definition ex_update_of (fs : list node_fields) : update :=
  {| u_cust := (ex_key 200, ex_key 201); u_nodes := map cnode_of_fields fs; u_sig := repeat 9%N 64 |}.
Definition ex_view_later : update :=
  ex_update_of [ex_fields 1; ex_fields 2; ex_fields 3; ex_fields 4; ex_fields 5; ex_fields 6;
                with_payee_view (ex_fields 7) (ex_key 3)]%N.
Definition ex_view_earlier : update :=
  ex_update_of [with_payee_view (ex_fields 1) (ex_key 3); ex_fields 2; ex_fields 3; ex_fields 4;
                ex_fields 5; ex_fields 6; ex_fields 7]%N.

Theorem C34_all_keys_unique_refuted :
  exists verify tx extra store u n m,
    validate_update verify tx extra store = Ok tt /\ extra = encode_update u /\
    In n (u_nodes u) /\ In m (u_nodes u) /\ n <> m /\
    cn_cust_spend n = cn_payee_view m.
Proof.
  exists ex_verify, (ex_tx (700 * 10 ^ 8)), (encode_update ex_view_later),
         (StoreSome {| p_cust := (ex_key 250, ex_key 251); p_nodes := [] |}), ex_view_later,
         (cnode_of_fields (ex_fields 3)), (cnode_of_fields (with_payee_view (ex_fields 7) (ex_key 3))).
  split; [vm_compute; reflexivity|]. split; [reflexivity|].
  split; [right; right; left; reflexivity|].
  split; [do 6 right; left; reflexivity|].
  split; [|reflexivity].
  intro H. apply (f_equal cn_cust_spend) in H. vm_compute in H. discriminate.
Qed.
Print Assumptions C34_all_keys_unique_refuted.

(* the mirror image - the view key sits in an earlier entry - is refused *)
Example ex_view_earlier_rejected : parse_update yes false (encode_update ex_view_earlier) = Err.
Proof. vm_compute. reflexivity. Qed.
