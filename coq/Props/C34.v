(* C34 - custodian updates are accepted only in canonical, fully signed form. *)
From Coq Require Import List ZArith NArith Bool Arith.
Require Import Mixin.Base.Res Mixin.Model.Custodian Mixin.Proofs.Custodian.
Import ListNotations.
Local Open Scope nat_scope.

Theorem C34_layout : node_size = 1 + 4 * 32 + 32 + 3 * 64.
Proof. exact node_size_layout. Qed.
Print Assumptions C34_layout.
