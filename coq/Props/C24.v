(* C24 - retiring a local proposal never loses a pending transaction.
   Property theorems only; each is closed by lemmas of Proofs/Retire.v about
   the executable model Model/Retire.v (over Model/Cache.v), which the
   correspondence harness (harness/cmd/c24) runs against the real retire paths
   of kernel/cosi.go and kernel/queue.go on a node with a Badger store.

   Vocabulary.  [unfinalized ps h]: storage.ReadTransaction reports no
   finalization for h.  [has_body ps c h]: a persistent body exists or the
   cache returns a decodable body.  [eligible c h]: the cache holds a queue
   entry and a body for h; by Proofs/Cache.v [eligible_retrieved] (restated as
   the last theorem) such a transaction is returned by every successful
   retrieval whose limit covers the queue.  [cache_wf]: an order record is
   backed by a queue entry and a body - an invariant of every state reachable
   through the cache operations (C23_queue_eligible).
   Reading of the second sentence of the property: the [owned] exclusion of the
   reset path, and the preservation of the verifier entries of proposals that
   are not retired; a transaction shared between a retired and a live proposal
   IS re-queued, as the first sentence requires. *)
From Coq Require Import List ZArith NArith Bool.
Require Import Mixin.Base.Res Mixin.Gen.Consts Mixin.Model.Cache Mixin.Model.Retire
               Mixin.Proofs.Cache Mixin.Proofs.Retire.
Import ListNotations.
Open Scope N_scope.

(* No loss: terminal failure (retry), expiry after the round gap, round reset. *)
Theorem C24_no_loss :
  (forall ps s st h,
     cache_wf (cch st) -> In h (s_txs s) -> unfinalized ps h -> has_body ps (cch st) h ->
     eligible (cch (retry ps s st)) h) /\
  (forall ps now st a h,
     cache_wf (cch st) -> In a (aggs st) -> expires now a = true -> In h (s_txs (a_snap a)) ->
     unfinalized ps h -> has_body ps (cch st) h ->
     eligible (cch (expire ps now st)) h) /\
  (forall ps owned st a h,
     cache_wf (cch st) -> In a (aggs st) -> In h (s_txs (a_snap a)) ->
     unfinalized ps h -> has_body ps (cch st) h ->
     eligible (cch (reset ps owned st)) h \/ In h owned).
Proof.
  split; [|split].
  - intros ps s st h Hwf Hin Hu Hb. apply retry_no_loss; try assumption. left. exact Hb.
  - intros ps now st a h Hwf Ha He Hh Hu Hb. rewrite expire_fold.
    apply (efold_no_loss ps now (aggs st) st a h); try assumption. left. exact Hb.
  - exact reset_no_loss.
Qed.
Print Assumptions C24_no_loss.

(* The retired proposals really leave the maps (so late messages cannot revive
   them), and the retire paths keep the cache invariant. *)
Theorem C24_retired_removed :
  (forall ps s st a, In a (aggs (retry ps s st)) -> agg_hash a <> s_hash s) /\
  (forall ps owned st, aggs (reset ps owned st) = [] /\ vers (reset ps owned st) = []) /\
  (forall ps s st, cache_wf (cch st) -> cache_wf (cch (retry ps s st))) /\
  (forall ps now st, cache_wf (cch st) -> cache_wf (cch (expire ps now st))).
Proof.
  split; [|split; [|split]].
  - intros ps s st a Hin. destruct (retry_fields ps s st) as [Ha _]. rewrite Ha in Hin.
    apply filter_In in Hin. destruct Hin as [_ Hin]. apply negb_true_iff in Hin. apply N.eqb_neq in Hin. exact Hin.
  - intros ps owned st. destruct (reset_fields ps owned st) as [H1 [H2 _]]. split; assumption.
  - exact retry_wf.
  - intros ps now st Hwf. rewrite expire_fold. apply efold_wf. exact Hwf.
Qed.
Print Assumptions C24_retired_removed.

(* A transaction owned by the snapshot that triggers the round transition is
   not re-queued by the reset: its queue entries, order record and body are
   exactly what they were. *)
Theorem C24_owned_not_requeued : forall ps owned st h,
  In h owned ->
  let c := cch st in let c' := cch (reset ps owned st) in
  pending h c' = pending h c /\
  (forall ts, In (ts, h) (queue c') <-> In (ts, h) (queue c)) /\
  (In h (order c') <-> In h (order c)) /\
  aget h (payload c') = aget h (payload c).
Proof. exact reset_owned_untouched. Qed.
Print Assumptions C24_owned_not_requeued.

(* Expiry retires exactly the aggregators whose round gap has elapsed (uint64
   arithmetic of the code) and that are not complete; in particular an
   aggregator with threshold commitments and every corresponding response, or
   one whose gap has not elapsed, stays.  (Aggregators are keyed by snapshot
   hash in a Go map: hashes are distinct.) *)
Theorem C24_complete_not_expired : forall ps now st a,
  NoDup (map agg_hash (aggs st)) ->
  (In a (aggs (expire ps now st)) <-> In a (aggs st) /\ expires now a = false) /\
  ((a_base a <= a_commit a)%Z -> a_resp a = a_commit a -> expires now a = false) /\
  (now < (s_ts (a_snap a) + round_gap) mod 2 ^ 64 -> expires now a = false).
Proof.
  intros ps now st a Hn. split; [apply expire_aggs; exact Hn|].
  split; [apply complete_not_expires | apply not_yet_not_expires].
Qed.
Print Assumptions C24_complete_not_expired.

(* Verifier entries that belong to other proposals survive: abandoning or
   retrying s removes only the entry of s itself and the transaction entries
   that point to the verifier object of s; expiry likewise for every proposal
   it retires. *)
Theorem C24_foreign_verifiers_kept :
  (forall s st k v,
     aget k (vers st) = Some v -> k <> s_hash s -> aget (s_hash s) (vers st) <> Some v ->
     aget k (vers (abandon s st)) = Some v) /\
  (forall ps s st k v,
     aget k (vers st) = Some v -> k <> s_hash s -> aget (s_hash s) (vers st) <> Some v ->
     aget k (vers (retry ps s st)) = Some v) /\
  (forall ps now st k v,
     aget k (vers st) = Some v ->
     (forall a, In a (aggs st) -> expires now a = true ->
        k <> agg_hash a /\ aget (agg_hash a) (vers st) <> Some v) ->
     aget k (vers (expire ps now st)) = Some v) /\
  (forall s st, cch (abandon s st) = cch st).
Proof.
  split; [|split; [|split]].
  - intros s st k v. cbn [abandon vers]. apply abandon_vers_kept.
  - intros ps s st k v H1 H2 H3. destruct (retry_fields ps s st) as [_ [Hv _]]. rewrite Hv.
    apply abandon_vers_kept; assumption.
  - intros ps now st k v H1 H2. rewrite expire_fold. apply efold_vers_kept; assumption.
  - reflexivity.
Qed.
Print Assumptions C24_foreign_verifiers_kept.

(* requeueTransactions itself: every listed transaction that is unfinalized and
   has a body becomes eligible; hashes not listed are untouched. *)
Theorem C24_requeue : forall ps hs c t,
  cache_wf c ->
  (forall h, In h hs -> unfinalized ps h -> has_body ps c h -> eligible (fst (requeue ps hs (c, t))) h) /\
  (forall h, ~ In h hs -> pending h (fst (requeue ps hs (c, t))) = pending h c).
Proof.
  intros ps hs c t Hwf. split.
  - intros h Hin Hu Hb. apply requeue_eligible_all; try assumption. left. exact Hb.
  - intros h Hn. destruct (requeue_same_at ps hs c t h Hn) as [H _]. exact H.
Qed.
Print Assumptions C24_requeue.

(* The kernel entry points through which transaction bodies reach the cache
   (kernel/node.go): CacheStoreTransactions never creates a queue entry or an
   order record - a body delivered for finalization does not become eligible
   (C23 at the kernel level) - and CacheQueueTransactions makes every
   unfinalized transaction it is given eligible. *)
Theorem C24_node_cache_wrappers :
  (forall ps txs c, queue (node_store ps txs c) = queue c /\ order (node_store ps txs c) = order c) /\
  (forall ps txs c t tx, cache_wf c -> In tx txs -> unfinalized ps (fst tx) ->
     eligible (fst (node_queue ps txs (c, t))) (fst tx)).
Proof. split; [exact node_store_queue | exact node_queue_eligible]. Qed.
Print Assumptions C24_node_cache_wrappers.

(* eligible = returned by the next covering retrieval (from Proofs/Cache.v) *)
Theorem C24_eligible_is_retrievable : forall limit c out c' h,
  eligible c h -> retrieve limit c = Ok (out, c') ->
  (Z.of_nat (length (queue c)) <= limit)%Z ->
  exists b, In (h, b) out /\ aget h (payload c) = Some b.
Proof. exact eligible_retrieved. Qed.
Print Assumptions C24_eligible_is_retrievable.

(* ---- non-vacuity ------------------------------------------------------------------- *)

Definition ex_ps : pstore := mkPstore [(5, 50)] [].
(* tx 4: body only in the cache, already retrieved; tx 5: persistent body; tx 6: no body *)
Definition ex_cache : cache := mkCache [] [] [(4, 40)].
Definition ex_s1 : snap := mkSnap 100 1000 [4; 5; 6].
Definition ex_s2 : snap := mkSnap 101 1000 [5].
Definition ex_st : rstate :=
  mkR [mkAgg ex_s1 2 1 3; mkAgg ex_s2 3 3 3] [(4, 1); (5, 2); (100, 1); (101, 2)] ex_cache 7.

Example C24_ex_hyps :
  cache_wf ex_cache /\ unfinalized ex_ps 4 /\ has_body ex_ps ex_cache 4 /\
  unfinalized ex_ps 5 /\ has_body ex_ps ex_cache 5 /\ ~ has_body ex_ps ex_cache 6.
Proof.
  split; [intros h []|]. split; [reflexivity|]. split; [right; exists 40; reflexivity|].
  split; [reflexivity|]. split; [left; discriminate|].
  intros [H|[b H]]; [apply H; reflexivity | discriminate].
Qed.

(* expiry at 1000+gap retires the incomplete proposal 100 only; 4 and 5 are queued
   with the cache / persistent body; the verifier entries of proposal 101 stay *)
Example C24_ex_expire :
  let st' := expire ex_ps (1000 + round_gap) ex_st in
  map agg_hash (aggs st') = [101] /\ vers st' = [(5, 2); (101, 2)] /\
  map snd (queue (cch st')) = [4; 5] /\ payload (cch st') = [(4, 40); (5, 50)] /\
  map agg_hash (aggs (expire ex_ps (999 + round_gap) ex_st)) = [100; 101].
Proof. vm_compute. repeat split. Qed.

Example C24_ex_reset :
  let st' := reset ex_ps [5] ex_st in
  aggs st' = [] /\ vers st' = [] /\ map snd (queue (cch st')) = [4] /\ pending 5 (cch st') = 0%nat.
Proof. vm_compute. repeat split. Qed.
