(* C19 - a live round never spans a full round gap and holds no duplicates;
   closing it never fails.  Property theorems only, each closed by a lemma of
   Proofs/LiveRound.v about the executable model Model/LiveRound.v of
   kernel/round.go (validateSnapshot, Gap, asFinal; uint64 arithmetic with
   explicit wrap), which harness/cmd/c19 runs against the real CacheRound.
   [sort_ts] / [sort] are ANY procedures returning a sorted permutation for the
   comparators of Gap / ComputeRoundHash; [H] is Blake3 as an abstract function. *)
From Coq Require Import List ZArith NArith Bool Permutation Sorted.
Require Import Mixin.Base.Res Mixin.Model.RoundHash Mixin.Model.LiveRound
               Mixin.Proofs.RoundHash Mixin.Proofs.LiveRound.
Import ListNotations.
Open Scope N_scope.

(* [round_ok l]: pairwise distinct hashes, distinct timestamps, no transaction
   shared by two snapshots, all in one day, and max - min < gap
   (forall a b in l, ts b < ts a + gap, in unbounded arithmetic).

   For EVERY sequence of candidate snapshots (uint64 timestamps, nothing else
   assumed: any hashes, transactions, versions, round numbers), offered one by
   one to validateSnapshot(add = true) starting from the empty round, the live
   round satisfies the invariant - rejected candidates and calls that panic
   leave it unchanged up to slice order. *)
Theorem C19_invariant : forall sort_ts, sort_spec ts_lt sort_ts ->
  forall number cands, Forall (fun s => s_ts s < two64) cands ->
  round_ok (run sort_ts number cands).
Proof. exact run_invariant. Qed.
Print Assumptions C19_invariant.

(* ... after each step of the sequence *)
Theorem C19_invariant_every_step : forall sort_ts, sort_spec ts_lt sort_ts ->
  forall number cands k, Forall (fun s => s_ts s < two64) cands ->
  round_ok (run sort_ts number (firstn k cands)).
Proof. exact run_invariant_every_step. Qed.
Print Assumptions C19_invariant_every_step.

(* One call, from any round satisfying the invariant (accept, reject, validate
   only, panic): the invariant holds afterwards, and the slice is either the old
   content reordered or the old content plus the accepted candidate. *)
Theorem C19_step : forall sort_ts, sort_spec ts_lt sort_ts ->
  forall number l s add l' r, round_ok l -> s_ts s < two64 ->
  validate_snapshot sort_ts number l s add = (l', r) ->
  round_ok l' /\
  ((r = Ok tt /\ add = true /\ exists sl, Permutation sl l /\ l' = sl ++ [s]) \/
   ((r <> Ok tt \/ add = false) /\ Permutation l' l)).
Proof.
  intros sort_ts HS number l s add l' r Hok Hs Hv. split.
  - eapply validate_preserves; eassumption.
  - eapply validate_perm; eassumption.
Qed.
Print Assumptions C19_step.

(* Closing never fails: asFinal of a round satisfying the invariant does not
   reach ComputeRoundHash's panic, provided the timestamps are below 2^64 - gap
   (guard); it returns start = min, end = max with end < start + gap. *)
Theorem C19_close_total : forall (H : hin -> N) sort, sort_spec snap_lt sort ->
  forall node number l, round_ok l -> guarded l ->
  as_final H sort node number l <> Panic.
Proof. exact close_total. Qed.
Print Assumptions C19_close_total.

Theorem C19_close_value : forall (H : hin -> N) sort, sort_spec snap_lt sort ->
  forall node number l, round_ok l -> guarded l -> l <> [] ->
  exists start end_ h, as_final H sort node number l = Ok (Some (start, end_, h)) /\
    (forall s, In s l -> start <= s_ts s <= end_) /\ end_ < start + round_gap.
Proof. exact close_value. Qed.
Print Assumptions C19_close_value.

(* Sequences of well-formed candidates (right round number, non-zero hash,
   encodable by the common snapshot encoding, timestamp below 2^64 - gap): the
   round stays guarded, so it always closes, and no call ever panics. *)
Theorem C19_sequence_closes : forall (H : hin -> N) sort_ts sort,
  sort_spec ts_lt sort_ts -> sort_spec snap_lt sort ->
  forall node number cands, Forall (wf_cand number) cands ->
  as_final H sort node number (run sort_ts number cands) <> Panic.
Proof.
  intros H sort_ts sort HT HS node number cands HF.
  destruct (run_wf sort_ts HT number cands HF) as [Hok [Hg _]].
  apply close_total; assumption.
Qed.
Print Assumptions C19_sequence_closes.

Theorem C19_no_panic : forall sort_ts, sort_spec ts_lt sort_ts ->
  forall number cands s add, Forall (wf_cand number) cands ->
  s_round s = number -> s_hash s <> 0 ->
  snd (validate_snapshot sort_ts number (run sort_ts number cands) s add) <> Panic.
Proof.
  intros sort_ts HT number cands s add HF Hr Hh.
  destruct (run_wf sort_ts HT number cands HF) as [Hok [Hg He]].
  apply validate_no_panic; assumption.
Qed.
Print Assumptions C19_no_panic.

(* The wrap region (all members at or above 2^64 - gap, where start + gap
   overflows): nothing further is ever accepted (error or panic), and closing
   panics.  The first such snapshot IS accepted into an empty round (no check
   applies to an empty round), so without the guard closing can fail: *)
Theorem C19_wrap_never_accepts : forall sort_ts, sort_spec ts_lt sort_ts ->
  forall number l s add, l <> [] -> in_wrap l ->
  snd (validate_snapshot sort_ts number l s add) <> Ok tt.
Proof. exact validate_wrap_never_accepts. Qed.
Print Assumptions C19_wrap_never_accepts.

Theorem C19_wrap_close_panics : forall (H : hin -> N) sort, sort_spec snap_lt sort ->
  forall node number l, l <> [] -> in_wrap l -> as_final H sort node number l = Panic.
Proof. exact close_wrap_panics. Qed.
Print Assumptions C19_wrap_close_panics.

Theorem C19_close_unguarded_refuted : exists s,
  validate_snapshot isort_ts 3 [] s true = ([s], Ok tt) /\
  round_ok [s] /\
  as_final (fun _ => 0) isort_snap 1 3 [s] = Panic.
Proof.
  exists (mk_snap 1 (two64 - 1) 2 3 [7]). split; [vm_compute; reflexivity|]. split.
  - apply (run_invariant isort_ts isort_ts_spec 3 [mk_snap 1 (two64 - 1) 2 3 [7]]).
    constructor; [vm_compute; reflexivity | constructor].
  - vm_compute. reflexivity.
Qed.
Print Assumptions C19_close_unguarded_refuted.

(* Non-vacuity *)
Example C19_ex_sorts : sort_spec ts_lt isort_ts /\ sort_spec snap_lt isort_snap.
Proof. split; [exact isort_ts_spec | exact isort_snap_spec]. Qed.

Definition ex_b : N := 1700000000000000000.
Definition ex_cands : list snap :=
  [ mk_snap 1 ex_b 2 3 [10]; mk_snap 2 (ex_b + round_gap - 1) 2 3 [11];
    mk_snap 3 (ex_b + round_gap) 2 3 [12];      (* reaches the gap: rejected *)
    mk_snap 1 (ex_b + 5) 2 3 [13];              (* repeated hash: rejected *)
    mk_snap 4 (ex_b + 6) 2 3 [11];              (* repeated transaction: rejected *)
    mk_snap 5 (ex_b - 1) 2 3 [14];              (* would span the gap backwards: rejected *)
    mk_snap 6 (ex_b + 7) 2 3 [15] ].
Example C19_ex_run :
  map s_hash (run isort_ts 3 ex_cands) = [1; 2; 6]
  /\ Forall (wf_cand 3) ex_cands
  /\ as_final (fun _ => 0) isort_snap 9 3 (run isort_ts 3 ex_cands) = Ok (Some (ex_b, ex_b + round_gap - 1, 0)).
Proof.
  split; [vm_compute; reflexivity|]. split; [|vm_compute; reflexivity].
  repeat constructor; vm_compute; try reflexivity; discriminate.
Qed.
