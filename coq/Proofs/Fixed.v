(* Lemmas about Model/Fixed.v (C33). *)
From Coq Require Import List ZArith NArith Bool Lia ZifyN ZifyNat ZifyBool QArith.
Require Import Mixin.Base.Res Mixin.Gen.Consts Mixin.Model.Fixed.
Import ListNotations.
Open Scope Z_scope.

(* ---- arithmetic: each operation is the exact operation, rejected exactly on
        the documented operand signs ---------------------------------------- *)

Lemma i_add_spec x y :
  i_add x y = if (x <? 0) || (y <=? 0) then Panic else Ok (x + y).
Proof.
  unfold i_add.
  destruct (x <? 0) eqn:Hx; cbn [orb]; [reflexivity|].
  destruct (y <=? 0) eqn:Hy; [reflexivity|].
  destruct (x + y <? x) eqn:H1; [lia|].
  destruct (x + y <? y) eqn:H2; [lia|]. reflexivity.
Qed.

Lemma i_sub_spec x y :
  i_sub x y = if (x <? 0) || (y <=? 0) || (x <? y) then Panic else Ok (x - y).
Proof.
  unfold i_sub.
  destruct (x <? 0); cbn [orb]; [reflexivity|].
  destruct (y <=? 0); cbn [orb]; [reflexivity|].
  destruct (x <? y); reflexivity.
Qed.

Lemma i_mul_spec x y :
  i_mul x y = if (x <? 0) || (y <=? 0) then Panic else Ok (x * y).
Proof. reflexivity. Qed.

(* floor of the exact quotient *)
Definition is_floor_div (a b q : Z) : Prop := b * q <= a < b * (q + 1).

Lemma floor_div a b : 0 < b -> is_floor_div a b (a / b).
Proof.
  intros Hb. unfold is_floor_div.
  pose proof (Z.div_mod a b ltac:(lia)) as E.
  pose proof (Z.mod_pos_bound a b Hb) as B. lia.
Qed.

Lemma floor_unique a b q q' : 0 < b -> is_floor_div a b q -> is_floor_div a b q' -> q = q'.
Proof. unfold is_floor_div. intros Hb H1 H2. nia. Qed.

Lemma i_div_spec x y :
  (x < 0 \/ y <= 0 -> i_div x y = Panic) /\
  (0 <= x -> 0 < y -> exists q, i_div x y = Ok q /\ is_floor_div x y q /\ 0 <= q).
Proof.
  unfold i_div. split.
  - intros [H|H].
    + destruct (x <? 0) eqn:E; [reflexivity|lia].
    + destruct (x <? 0); cbn [orb]; [reflexivity|]. destruct (y <=? 0) eqn:E; [reflexivity|lia].
  - intros Hx Hy. destruct (x <? 0) eqn:E; [lia|]. destruct (y <=? 0) eqn:E2; [lia|].
    cbn [orb]. exists (x / y). split; [reflexivity|]. split; [apply floor_div; lia|].
    apply Z.div_pos; lia.
Qed.

Lemma i_count_spec x y :
  (x <= 0 \/ y <= 0 \/ x < y -> i_count x y = Panic) /\
  (0 < y -> y <= x ->
     (x / y < 2 ^ 64 -> i_count x y = Ok (x / y) /\ is_floor_div x y (x / y) /\ 1 <= x / y) /\
     (2 ^ 64 <= x / y -> i_count x y = Panic)).
Proof.
  unfold i_count, two64. split.
  - intros H.
    destruct (x <=? 0) eqn:E1; cbn [orb]; [reflexivity|].
    destruct (y <=? 0) eqn:E2; cbn [orb]; [reflexivity|].
    destruct (x <? y) eqn:E3; [reflexivity|lia].
  - intros Hy Hxy.
    destruct (x <=? 0) eqn:E1; [lia|]. destruct (y <=? 0) eqn:E2; [lia|].
    destruct (x <? y) eqn:E3; [lia|]. cbn [orb]. split; intros Hc.
    + destruct (x / y <? 2 ^ 64) eqn:E4; [|lia]. split; [reflexivity|]. split; [apply floor_div; lia|].
      pose proof (floor_div x y Hy) as F. unfold is_floor_div in F. nia.
    + destruct (x / y <? 2 ^ 64) eqn:E4; [lia|reflexivity].
Qed.

Lemma i_cmp_spec x y :
  (x < y -> i_cmp x y = -1) /\ (x = y -> i_cmp x y = 0) /\ (x > y -> i_cmp x y = 1).
Proof.
  unfold i_cmp. repeat split; intros H; destruct (Z.compare_spec x y); lia.
Qed.

Lemma ration_spec x y :
  ration x y = if (x <? 0) || (y <=? 0) then Panic else Ok (x, y).
Proof. reflexivity. Qed.

Lemma product_spec rx ry x :
  0 <= rx -> 0 < ry ->
  (x < 0 -> product (rx, ry) x = Panic) /\
  (0 <= x -> exists q, product (rx, ry) x = Ok q /\ is_floor_div (x * rx) ry q /\ 0 <= q).
Proof.
  intros Hrx Hry. unfold product. cbn [fst snd]. split; intros Hx.
  - destruct (x <? 0) eqn:E; [reflexivity|lia].
  - destruct (x <? 0) eqn:E; [lia|]. destruct (ry =? 0) eqn:E2; [lia|].
    exists (x * rx / ry). split; [reflexivity|]. split; [apply floor_div; lia|].
    apply Z.div_pos; nia.
Qed.

(* comparison of a/b with c/d as exact rationals *)
Lemma r_cmp_spec a b c d :
  0 < b -> 0 < d ->
  r_cmp (a, b) (c, d) =
  match Qcompare (a # Z.to_pos b) (c # Z.to_pos d) with Lt => -1 | Eq => 0 | Gt => 1 end.
Proof.
  intros Hb Hd. unfold r_cmp, i_cmp, Qcompare. cbn [fst snd Qnum Qden].
  rewrite !Z2Pos.id by lia.
  replace (b * c) with (c * b) by ring. reflexivity.
Qed.

(* ---- decimal digits ---------------------------------------------------- *)

Fixpoint val (l : list N) : Z :=
  match l with
  | [] => 0
  | c :: l' => Z.of_N (c - 48) * 10 ^ Z.of_nat (length l') + val l'
  end.

Definition all_digits (l : list N) : Prop := Forall (fun c => is_digit c = true) l.

Lemma is_digit_range c : is_digit c = true <-> (48 <= c <= 57)%N.
Proof. unfold is_digit. rewrite andb_true_iff, !N.leb_le. tauto. Qed.

Lemma of_digits_acc_val l : all_digits l -> forall a,
  of_digits_acc a l = Some (a * 10 ^ Z.of_nat (length l) + val l).
Proof.
  induction 1 as [|c l Hc Hl IH]; intros a; cbn [of_digits_acc val length].
  - f_equal. cbn. lia.
  - rewrite Hc, IH. f_equal.
    rewrite Nat2Z.inj_succ, Z.pow_succ_r by lia. ring.
Qed.

Lemma val_app l1 l2 : val (l1 ++ l2) = val l1 * 10 ^ Z.of_nat (length l2) + val l2.
Proof.
  induction l1 as [|c l1 IH]; cbn [val app length]; [lia|].
  rewrite IH, app_length, Nat2Z.inj_add, Z.pow_add_r by lia. ring.
Qed.

Lemma val_nonneg l : 0 <= val l.
Proof. induction l as [|c l IH]; cbn [val]; [lia|]. pose proof (Z.pow_nonneg 10 (Z.of_nat (length l))). nia. Qed.

Lemma val_repeat0 k : val (repeat ch0 k) = 0.
Proof. induction k as [|k IH]; cbn [repeat val]; [reflexivity|]. rewrite IH. unfold ch0. cbn. lia. Qed.

Lemma all_digits_app l1 l2 : all_digits l1 -> all_digits l2 -> all_digits (l1 ++ l2).
Proof. intros H1 H2. apply Forall_app; split; assumption. Qed.

Lemma digits_fuel_spec f : forall n acc,
  (n < 2 ^ N.of_nat f)%N -> all_digits acc ->
  all_digits (digits_fuel f n acc) /\
  val (digits_fuel f n acc) = Z.of_N n * 10 ^ Z.of_nat (length acc) + val acc.
Proof.
  induction f as [|f IH]; intros n acc Hn Hacc.
  - cbn [digits_fuel]. split; [assumption|].
    change (2 ^ N.of_nat 0)%N with 1%N in Hn. assert (n = 0%N) by lia. subst n. cbn. lia.
  - cbn [digits_fuel].
    assert (Hd : is_digit (ch0 + n mod 10) = true).
    { apply is_digit_range. unfold ch0. pose proof (N.mod_upper_bound n 10) as U. assert (10 <> 0)%N as T by discriminate. specialize (U T). lia. }
    assert (Hacc' : all_digits ((ch0 + n mod 10)%N :: acc)) by (constructor; assumption).
    assert (Hv : val ((ch0 + n mod 10)%N :: acc) =
                 Z.of_N (n mod 10) * 10 ^ Z.of_nat (length acc) + val acc).
    { cbn [val]. unfold ch0. replace (48 + n mod 10 - 48)%N with (n mod 10)%N by lia. reflexivity. }
    destruct (n / 10 =? 0)%N eqn:E.
    + split; [assumption|]. rewrite Hv. apply N.eqb_eq in E.
      pose proof (N.div_mod n 10 ltac:(lia)) as D. rewrite E in D.
      replace (n mod 10)%N with n by lia. reflexivity.
    + assert (Hlt : (n / 10 < 2 ^ N.of_nat f)%N).
      { rewrite Nat2N.inj_succ, N.pow_succ_r' in Hn.
        apply N.div_lt_upper_bound; [lia|]. lia. }
      destruct (IH (n / 10)%N _ Hlt Hacc') as [A B]. split; [assumption|].
      rewrite B, Hv. cbn [length]. rewrite Nat2Z.inj_succ, Z.pow_succ_r by lia.
      pose proof (N.div_mod n 10 ltac:(lia)) as D.
      assert (Z.of_N n = 10 * Z.of_N (n / 10) + Z.of_N (n mod 10)) by lia. nia.
Qed.

Lemma pos_size_bound p : (N.pos p < 2 ^ N.of_nat (Pos.size_nat p))%N.
Proof.
  induction p as [p IH|p IH|]; cbn [Pos.size_nat]; rewrite ?Nat2N.inj_succ, ?N.pow_succ_r'; lia.
Qed.

Lemma digits_spec n : all_digits (digits n) /\ val (digits n) = Z.of_N n.
Proof.
  unfold digits.
  assert (Hn : (n < 2 ^ N.of_nat (S (N.size_nat n)))%N).
  { rewrite Nat2N.inj_succ, N.pow_succ_r'.
    destruct n as [|p]; [cbn; lia|]. cbn [N.size_nat].
    pose proof (pos_size_bound p). lia. }
  destruct (digits_fuel_spec _ n [] Hn (Forall_nil _)) as [A B].
  split; [assumption|]. rewrite B. cbn. lia.
Qed.

(* ---- parsing ------------------------------------------------------------- *)

Lemma digit_not c : is_digit c = true ->
  (c =? ch_dot)%N = false /\ (c =? ch_e)%N = false /\ (c =? ch_E)%N = false /\
  (c =? ch_plus)%N = false /\ (c =? ch_minus)%N = false.
Proof.
  intros H. apply is_digit_range in H. unfold ch_dot, ch_e, ch_E, ch_plus, ch_minus.
  repeat split; apply N.eqb_neq; lia.
Qed.

Lemma split_exp_digits l : all_digits l -> split_exp l = (l, None).
Proof.
  induction 1 as [|c l Hc Hl IH]; cbn [split_exp]; [reflexivity|].
  destruct (digit_not c Hc) as (_ & E1 & E2 & _). rewrite E1, E2, IH. reflexivity.
Qed.

Lemma split_exp_mid l1 l2 : all_digits l1 -> all_digits l2 ->
  split_exp (l1 ++ ch_dot :: l2) = (l1 ++ ch_dot :: l2, None).
Proof.
  intros H1 H2. induction H1 as [|c l Hc Hl IH]; cbn [split_exp app].
  - change ((ch_dot =? ch_e)%N || (ch_dot =? ch_E)%N) with false.
    rewrite (split_exp_digits _ H2). reflexivity.
  - destruct (digit_not c Hc) as (_ & E1 & E2 & _). rewrite E1, E2, IH. reflexivity.
Qed.

Lemma count_dots_digits l : all_digits l -> count_dots l = O.
Proof.
  induction 1 as [|c l Hc Hl IH]; cbn [count_dots]; [reflexivity|].
  destruct (digit_not c Hc) as (E & _). rewrite E. exact IH.
Qed.

Lemma count_dots_mid l1 l2 : all_digits l1 -> all_digits l2 ->
  count_dots (l1 ++ ch_dot :: l2) = 1%nat.
Proof.
  intros H1 H2. induction H1 as [|c l Hc Hl IH]; cbn [count_dots app].
  - change (ch_dot =? ch_dot)%N with true. rewrite (count_dots_digits _ H2). reflexivity.
  - destruct (digit_not c Hc) as (E & _). rewrite E. exact IH.
Qed.

Lemma remove_dot_mid l1 l2 : all_digits l1 ->
  remove_dot (l1 ++ ch_dot :: l2) = (l1 ++ l2, length l2).
Proof.
  induction 1 as [|c l Hc Hl IH]; cbn [remove_dot app].
  - change (ch_dot =? ch_dot)%N with true. reflexivity.
  - destruct (digit_not c Hc) as (E & _). rewrite E, IH. reflexivity.
Qed.

Lemma parse_signed_digits l : all_digits l -> l <> [] -> parse_signed l = Some (val l).
Proof.
  intros H Hne. destruct l as [|c l]; [congruence|].
  unfold parse_signed. inversion H as [|? ? Hc Hl]; subst.
  destruct (digit_not c Hc) as (_ & _ & _ & E1 & E2). rewrite E1, E2.
  rewrite (of_digits_acc_val _ H). f_equal; lia.
Qed.

Lemma in_int32_small z : - 2 ^ 31 <= z <= 2 ^ 31 - 1 -> in_int32 z = true.
Proof. intros H. unfold in_int32, min_int32, max_int32. apply andb_true_iff. split; apply Z.leb_le; lia. Qed.

Lemma parse_dotted l1 l2 :
  all_digits l1 -> all_digits l2 -> l1 ++ l2 <> [] -> Z.of_nat (length l2) <= 2 ^ 31 ->
  parse (l1 ++ ch_dot :: l2) = Ok (scale10 (val (l1 ++ l2)) (precision - Z.of_nat (length l2))).
Proof.
  intros H1 H2 Hne Hlen. unfold parse.
  rewrite (split_exp_mid _ _ H1 H2), (count_dots_mid _ _ H1 H2).
  cbn [Nat.ltb Nat.leb Nat.eqb]. rewrite (remove_dot_mid _ _ H1).
  rewrite (parse_signed_digits _ (all_digits_app _ _ H1 H2) Hne).
  unfold precision, Consts.Precision.
  rewrite (in_int32_small (0 - Z.of_nat (length l2))) by lia. cbn [negb].
  pose proof (val_nonneg (l1 ++ l2)) as Hv.
  destruct (val (l1 ++ l2) <? 0) eqn:E; [lia|].
  rewrite (in_int32_small (0 - Z.of_nat (length l2) + 8)) by lia. cbn [negb].
  f_equal. f_equal. lia.
Qed.

Lemma parse_plain l :
  all_digits l -> l <> [] -> parse l = Ok (val l * 10 ^ precision).
Proof.
  intros H Hne. unfold parse.
  rewrite (split_exp_digits _ H), (count_dots_digits _ H).
  cbn [Nat.ltb Nat.leb Nat.eqb]. rewrite (parse_signed_digits _ H Hne).
  unfold precision, Consts.Precision.
  change (in_int32 (0 - Z.of_nat 0)) with true. cbn [negb].
  pose proof (val_nonneg l) as Hv. destruct (val l <? 0) eqn:E; [lia|].
  change (in_int32 (0 - Z.of_nat 0 + 8)) with true. cbn [negb].
  reflexivity.
Qed.

(* scale10 is the floor of the exact product with a power of ten *)
Lemma scale10_floor v k : 0 <= v -> 0 <= k ->
  is_floor_div (v * 10 ^ precision) (10 ^ k) (scale10 v (precision - k)).
Proof.
  intros Hv Hk. unfold scale10, precision, Consts.Precision.
  assert (P : 0 < 10 ^ k) by (apply Z.pow_pos_nonneg; lia).
  destruct (0 <=? 8 - k) eqn:E.
  - apply Z.leb_le in E. unfold is_floor_div.
    replace (10 ^ 8) with (10 ^ (8 - k) * 10 ^ k) by (rewrite <- Z.pow_add_r by lia; f_equal; lia).
    nia.
  - apply Z.leb_gt in E.
    replace (- (8 - k)) with (k - 8) by lia.
    replace (10 ^ k) with (10 ^ (k - 8) * 10 ^ 8) by (rewrite <- Z.pow_add_r by lia; f_equal; lia).
    assert (Q : 0 < 10 ^ (k - 8)) by (apply Z.pow_pos_nonneg; lia).
    pose proof (floor_div v (10 ^ (k - 8)) Q) as F. unfold is_floor_div in *.
    assert (0 < 10 ^ 8) by (apply Z.pow_pos_nonneg; lia). nia.
Qed.

(* parse . print = id on non-negative amounts *)
Lemma firstn_skipn_digits (s : list N) p : all_digits s ->
  all_digits (firstn p s) /\ all_digits (skipn p s).
Proof.
  intros H. split.
  - apply Forall_forall. intros x Hx. eapply Forall_forall in H; [exact H|].
    rewrite <- (firstn_skipn p s). apply in_or_app. left. exact Hx.
  - apply Forall_forall. intros x Hx. eapply Forall_forall in H; [exact H|].
    rewrite <- (firstn_skipn p s). apply in_or_app. right. exact Hx.
Qed.

Lemma all_digits_repeat0 k : all_digits (repeat ch0 k).
Proof. induction k; cbn [repeat]; constructor; [reflexivity|assumption]. Qed.

Lemma digits_fuel_nonempty f : forall n acc, acc <> [] -> digits_fuel f n acc <> [].
Proof.
  induction f as [|f IH]; intros n acc Hacc; cbn [digits_fuel]; [assumption|].
  destruct (n / 10 =? 0)%N; [discriminate|]. apply IH. discriminate.
Qed.

Lemma digits_nonempty n : digits n <> [].
Proof.
  unfold digits. cbn [digits_fuel]. destruct (n / 10 =? 0)%N; [discriminate|].
  apply digits_fuel_nonempty. discriminate.
Qed.

Lemma parse_print x : 0 <= x -> parse (print x) = Ok x.
Proof.
  intros Hx. unfold print.
  destruct (digits_spec (Z.to_N x)) as [Hd Hv]. rewrite Z2N.id in Hv by lia.
  set (s := digits (Z.to_N x)) in *.
  assert (Hs : s <> []) by apply digits_nonempty.
  unfold precision at 1 2 3 4, Consts.Precision.
  destruct (0 <? Z.of_nat (length s) - 8) eqn:E.
  - apply Z.ltb_lt in E. set (p := Z.to_nat (Z.of_nat (length s) - 8)).
    destruct (firstn_skipn_digits s p Hd) as [Hf Hk].
    rewrite parse_dotted; try assumption.
    + rewrite firstn_skipn, Hv. rewrite skipn_length.
      unfold precision, Consts.Precision.
      replace (8 - Z.of_nat (length s - p)) with 0 by lia.
      unfold scale10. cbn. f_equal. lia.
    + rewrite firstn_skipn. exact Hs.
    + rewrite skipn_length. lia.
  - apply Z.ltb_ge in E. set (k := Z.to_nat (- (Z.of_nat (length s) - 8))).
    change (ch0 :: ch_dot :: repeat ch0 k ++ s) with ([ch0] ++ ch_dot :: (repeat ch0 k ++ s)).
    assert (H0 : all_digits [ch0]) by (constructor; [reflexivity|constructor]).
    assert (Hr : all_digits (repeat ch0 k ++ s)) by (apply all_digits_app; [apply all_digits_repeat0|assumption]).
    rewrite parse_dotted; try assumption.
    + rewrite !val_app, val_repeat0, Hv. cbn [val length]. rewrite app_length, repeat_length.
      unfold precision, Consts.Precision.
      replace (8 - Z.of_nat (k + length s)) with 0 by lia.
      unfold scale10. cbn [Z.leb Z.compare]. unfold ch0. f_equal.
      change (Z.of_N (48 - 48)) with 0. change (10 ^ 0) with 1. lia.
    + discriminate.
    + rewrite app_length, repeat_length. lia.
Qed.

Lemma parse_nonneg s v : parse s = Ok v -> 0 <= v.
Proof.
  unfold parse. destruct (split_exp s) as [mant eopt].
  destruct (match eopt with
            | Some es => match parse_signed es with
                         | Some e => if in_int32 e then Some e else None
                         | None => None end
            | None => Some 0 end) as [e0|]; [|discriminate].
  destruct (Nat.ltb 1 (count_dots mant)); [discriminate|].
  destruct (if Nat.eqb (count_dots mant) 0 then (mant, 0%nat) else remove_dot mant) as [istr frac].
  destruct (parse_signed istr) as [v0|]; [|discriminate].
  destruct (negb (in_int32 (e0 - Z.of_nat frac))); [discriminate|].
  destruct (v0 <? 0) eqn:E; [discriminate|].
  destruct (negb (in_int32 (e0 - Z.of_nat frac + precision))); [discriminate|].
  intros H. inversion H. unfold scale10.
  apply Z.ltb_ge in E.
  destruct (0 <=? e0 - Z.of_nat frac + precision) eqn:E2.
  - apply Z.leb_le in E2. pose proof (Z.pow_nonneg 10 (e0 - Z.of_nat frac + precision)). nia.
  - apply Z.div_pos; [lia|]. apply Z.pow_pos_nonneg; lia.
Qed.

Lemma parse_dotted_floor l1 l2 :
  all_digits l1 -> all_digits l2 -> l1 ++ l2 <> [] -> Z.of_nat (length l2) <= 2 ^ 31 ->
  exists q, parse (l1 ++ ch_dot :: l2) = Ok q /\
            is_floor_div (val (l1 ++ l2) * 10 ^ precision) (10 ^ Z.of_nat (length l2)) q.
Proof.
  intros H1 H2 Hne Hlen. eexists. split; [apply parse_dotted; assumption|].
  apply scale10_floor; [apply val_nonneg|lia].
Qed.

Lemma print_parse_fixpoint s v : parse s = Ok v -> parse (print v) = Ok v.
Proof. intros H. apply parse_print. eapply parse_nonneg; eassumption. Qed.
