(* Lemmas about Model/LiveRound.v: the live-round invariant is preserved by every
   call of validateSnapshot, and a round satisfying it closes without panic. *)
From Coq Require Import List ZArith NArith Bool Lia ZifyN ZifyBool Permutation Sorted.
Require Import Mixin.Base.Res Mixin.Gen.Consts Mixin.Model.RoundHash Mixin.Model.LiveRound
               Mixin.Proofs.RoundHash.
Import ListNotations.
Open Scope N_scope.

(* ---- the constants: only these two facts about the gap are used ------------------ *)
Lemma gap_pos : 0 < round_gap.
Proof. vm_compute. reflexivity. Qed.
Lemma gap_small : 2 * round_gap <= two64.
Proof. vm_compute. discriminate. Qed.
Lemma two64_val : two64 = 18446744073709551616.
Proof. reflexivity. Qed.

Lemma add64_cases : forall a b, a < two64 -> b <= two64 ->
  (a + b < two64 /\ add64 a b = a + b) \/ (two64 <= a + b /\ add64 a b = a + b - two64).
Proof.
  intros a b Ha Hb. unfold add64. rewrite two64_val in *.
  destruct (N.lt_ge_cases (a + b) 18446744073709551616) as [Hlt|Hge].
  - left. split; [exact Hlt|]. apply N.mod_small. exact Hlt.
  - right. split; [exact Hge|].
    symmetry. apply N.mod_unique with (q := 1); lia.
Qed.

(* ---- the invariant --------------------------------------------------------------------- *)
Definition disjoint_txs (a b : snap) : Prop := forall t, In t (s_txs a) -> ~ In t (s_txs b).

Record round_ok (l : list snap) : Prop := mk_round_ok {
  ok_hash : NoDup (map s_hash l);
  ok_ts : NoDup (map s_ts l);
  ok_txs : forall a b, In a l -> In b l -> s_hash a <> s_hash b -> disjoint_txs a b;
  ok_day : forall a b, In a l -> In b l -> s_ts a / one_day = s_ts b / one_day;
  ok_span : forall a b, In a l -> In b l -> s_ts b < s_ts a + round_gap;
  ok_u64 : forall a, In a l -> s_ts a < two64 }.

Lemma round_ok_nil : round_ok [].
Proof. constructor; cbn; try constructor; intros; contradiction. Qed.

Lemma round_ok_perm : forall l l', Permutation l l' -> round_ok l -> round_ok l'.
Proof.
  intros l l' HP [H1 H2 H3 H4 H5 H6].
  assert (Hin : forall x, In x l' -> In x l) by (intros x Hx; eapply Permutation_in; [apply Permutation_sym; exact HP | exact Hx]).
  constructor.
  - eapply Permutation_NoDup; [apply Permutation_map; exact HP | exact H1].
  - eapply Permutation_NoDup; [apply Permutation_map; exact HP | exact H2].
  - intros a b Ha Hb. apply H3; apply Hin; assumption.
  - intros a b Ha Hb. apply H4; apply Hin; assumption.
  - intros a b Ha Hb. apply H5; apply Hin; assumption.
  - intros a Ha. apply H6, Hin, Ha.
Qed.

(* what a newcomer must satisfy against every member *)
Definition compatible (s cs : snap) : Prop :=
  s_hash cs <> s_hash s /\ s_ts cs <> s_ts s /\ s_ts cs / one_day = s_ts s / one_day /\
  disjoint_txs s cs /\ disjoint_txs cs s /\
  s_ts cs < s_ts s + round_gap /\ s_ts s < s_ts cs + round_gap.

Lemma round_ok_cons : forall l s, round_ok l -> s_ts s < two64 ->
  (forall cs, In cs l -> compatible s cs) -> round_ok (s :: l).
Proof.
  intros l s [H1 H2 H3 H4 H5 H6] Hs Hc. constructor; cbn [map].
  - constructor; [|exact H1]. intro Hin. apply in_map_iff in Hin. destruct Hin as [cs [E Hcs]].
    destruct (Hc cs Hcs) as [C1 _]. contradiction.
  - constructor; [|exact H2]. intro Hin. apply in_map_iff in Hin. destruct Hin as [cs [E Hcs]].
    destruct (Hc cs Hcs) as [_ [C2 _]]. contradiction.
  - intros a b [Ea|Ha] [Eb|Hb] Hne.
    + subst. contradiction.
    + subst a. destruct (Hc b Hb) as [_ [_ [_ [C4 _]]]]. exact C4.
    + subst b. destruct (Hc a Ha) as [_ [_ [_ [_ [C5 _]]]]]. exact C5.
    + apply H3; assumption.
  - intros a b [Ea|Ha] [Eb|Hb].
    + subst. reflexivity.
    + subst a. destruct (Hc b Hb) as [_ [_ [C3 _]]]. symmetry. exact C3.
    + subst b. destruct (Hc a Ha) as [_ [_ [C3 _]]]. exact C3.
    + apply H4; assumption.
  - intros a b [Ea|Ha] [Eb|Hb].
    + subst. pose proof gap_pos. lia.
    + subst a. destruct (Hc b Hb) as [_ [_ [_ [_ [_ [C6 _]]]]]]. exact C6.
    + subst b. destruct (Hc a Ha) as [_ [_ [_ [_ [_ [_ C7]]]]]]. exact C7.
    + apply H5; assumption.
  - intros a [Ea|Ha]; [subst; exact Hs | apply H6; exact Ha].
Qed.

Lemma round_ok_snoc : forall l s, round_ok l -> s_ts s < two64 ->
  (forall cs, In cs l -> compatible s cs) -> round_ok (l ++ [s]).
Proof.
  intros l s Hl Hs Hc. eapply round_ok_perm; [apply Permutation_cons_append|].
  apply round_ok_cons; assumption.
Qed.

(* ---- the loop over the round ------------------------------------------------------------ *)
Lemma existsb_false : forall {A} (f : A -> bool) l, existsb f l = false -> forall x, In x l -> f x = false.
Proof.
  intros A f l. induction l as [|a l IH]; intros He x Hx; [contradiction|].
  cbn [existsb] in He. apply orb_false_iff in He. destruct He as [Ha Hl].
  destruct Hx as [Hx|Hx]; [subst; exact Ha | apply IH; assumption].
Qed.

Lemma shares_tx_false : forall s cs, shares_tx s cs = false -> disjoint_txs s cs /\ disjoint_txs cs s.
Proof.
  intros s cs Hs. unfold shares_tx in Hs.
  assert (K : forall t u, In t (s_txs s) -> In u (s_txs cs) -> t <> u).
  { intros t u Ht Hu E. subst u.
    pose proof (existsb_false _ _ Hs t Ht) as H1. cbv beta in H1.
    pose proof (existsb_false _ _ H1 t Hu) as H2. cbv beta in H2. rewrite N.eqb_refl in H2. discriminate. }
  split; intros t Ht Hu; [apply (K t t Ht Hu) | apply (K t t Hu Ht)]; reflexivity.
Qed.

Lemma scan_ok : forall s l, scan s l = Ok tt -> forall cs, In cs l ->
  s_hash cs <> s_hash s /\ s_ts cs <> s_ts s /\ s_ts cs / one_day = s_ts s / one_day /\
  disjoint_txs s cs /\ disjoint_txs cs s.
Proof.
  intros s l. induction l as [|c l IH]; intros Hs cs Hin; [contradiction|].
  cbn [scan] in Hs.
  destruct ((s_hash c =? s_hash s) || (s_ts c =? s_ts s)) eqn:E1; [discriminate|].
  destruct (negb (s_ts c / one_day =? s_ts s / one_day)) eqn:E2; [discriminate|].
  destruct (shares_tx s c) eqn:E3; [destruct (encodable c); discriminate|].
  destruct Hin as [Hin|Hin]; [subst cs | apply IH; assumption].
  destruct (shares_tx_false _ _ E3) as [D1 D2].
  repeat split; try assumption; lia.
Qed.

Lemma scan_no_panic : forall s l, Forall (fun cs => encodable cs = true) l -> scan s l <> Panic.
Proof.
  intros s l HF. induction HF as [|c l Hc HF IH]; cbn [scan]; [discriminate|].
  destruct ((s_hash c =? s_hash s) || (s_ts c =? s_ts s)); [discriminate|].
  destruct (negb (s_ts c / one_day =? s_ts s / one_day)); [discriminate|].
  destruct (shares_tx s c); [rewrite Hc; discriminate | exact IH].
Qed.

(* ---- Gap -------------------------------------------------------------------------------- *)
Lemma ts_sorted_bounds : forall (a : snap) l,
  StronglySorted (fun a b => ts_lt b a = false) (a :: l) ->
  forall s, In s (a :: l) -> s_ts a <= s_ts s /\ s_ts s <= s_ts (last (a :: l) a).
Proof.
  intros a l. revert a. induction l as [|b l IH]; intros a HS s Hin.
  - destruct Hin as [E|[]]. subst. cbn [last]. lia.
  - apply StronglySorted_inv in HS. destruct HS as [HS F].
    rewrite Forall_forall in F. unfold ts_lt in F.
    rewrite last_cons_nonempty by discriminate.
    rewrite (last_default (b :: l) a b) by discriminate.
    assert (Hab : s_ts a <= s_ts b) by (specialize (F b (or_introl eq_refl)); lia).
    destruct Hin as [E|Hin].
    + subst s. split; [lia|].
      destruct (IH b HS b (or_introl eq_refl)) as [_ H2]. lia.
    + destruct (IH b HS s Hin) as [H1 H2]. split; lia.
Qed.

Section WithSort.
Variable sort_ts : list snap -> list snap.
Hypothesis sort_ts_ok : sort_spec ts_lt sort_ts.

Lemma sort_ts_perm : forall l, Permutation (sort_ts l) l.
Proof. intro l. exact (proj1 (sort_ts_ok l)). Qed.

Lemma gap_of_fst_perm : forall l, Permutation (fst (gap_of sort_ts l)) l.
Proof.
  intro l. unfold gap_of. destruct l as [|x l]; [apply Permutation_refl|].
  destruct (sort_ts (x :: l)) as [|s0 sl] eqn:E; cbn [fst].
  - rewrite <- E. apply sort_ts_perm.
  - destruct (add64 (s_ts s0) round_gap <=? s_ts (last (s0 :: sl) s0)); cbn [fst];
      rewrite <- E; apply sort_ts_perm.
Qed.

(* on a non-empty round of uint64 timestamps: Gap returns min and max, and it
   panics exactly when min >= 2^64 - gap or max - min >= gap *)
Lemma gap_of_nonempty : forall l, l <> [] -> (forall a, In a l -> s_ts a < two64) ->
  exists lo hi, In lo l /\ In hi l /\
    (forall s, In s l -> s_ts lo <= s_ts s /\ s_ts s <= s_ts hi) /\
    gap_of sort_ts l =
      (sort_ts l, if add64 (s_ts lo) round_gap <=? s_ts hi then Panic else Ok (s_ts lo, s_ts hi)).
Proof.
  intros l Hne Hu. destruct (sort_ts_ok l) as [HP HS].
  unfold gap_of. destruct l as [|x l]; [contradiction|].
  destruct (sort_ts (x :: l)) as [|s0 sl] eqn:E.
  - apply Permutation_nil in HP. discriminate.
  - assert (Hin : forall s, In s (x :: l) -> In s (s0 :: sl))
      by (intros s Hs; eapply Permutation_in; [apply Permutation_sym; exact HP | exact Hs]).
    assert (Hin' : forall s, In s (s0 :: sl) -> In s (x :: l))
      by (intros s Hs; eapply Permutation_in; [exact HP | exact Hs]).
    exists s0, (last (s0 :: sl) s0). split; [apply Hin'; left; reflexivity|].
    split; [apply Hin'; apply last_in; discriminate|]. split.
    + intros s Hs. apply (ts_sorted_bounds s0 sl HS s). apply Hin. exact Hs.
    + destruct (add64 (s_ts s0) round_gap <=? s_ts (last (s0 :: sl) s0)); reflexivity.
Qed.

(* ---- one call of validateSnapshot ------------------------------------------------------ *)
Lemma validate_perm : forall number l s add l' r,
  validate_snapshot sort_ts number l s add = (l', r) ->
  (r = Ok tt /\ add = true /\ exists sl, Permutation sl l /\ l' = sl ++ [s]) \/
  ((r <> Ok tt \/ add = false) /\ Permutation l' l).
Proof.
  intros number l s add l' r Hv. unfold validate_snapshot in Hv.
  destruct (negb (s_round s =? number) || (s_hash s =? 0)).
  { inversion Hv; subst. right. split; [left; discriminate | apply Permutation_refl]. }
  destruct (scan s l) as [[]| |].
  2:{ inversion Hv; subst. right. split; [left; discriminate | apply Permutation_refl]. }
  2:{ inversion Hv; subst. right. split; [left; discriminate | apply Permutation_refl]. }
  pose proof (gap_of_fst_perm l) as HP.
  destruct (gap_of sort_ts l) as [sl [[start end_]| |]]; cbn [fst] in HP.
  - destruct (gap_rejects s start end_).
    + inversion Hv; subst. right. split; [left; discriminate | exact HP].
    + destruct add; inversion Hv; subst.
      * left. split; [reflexivity|]. split; [reflexivity|]. exists sl. split; [exact HP | reflexivity].
      * right. split; [right; reflexivity | exact HP].
  - inversion Hv; subst. right. split; [left; discriminate | exact HP].
  - inversion Hv; subst. right. split; [left; discriminate | exact HP].
Qed.

(* an accepted candidate is compatible with every member *)
Lemma validate_accept_compatible : forall number l s add l',
  round_ok l -> s_ts s < two64 ->
  validate_snapshot sort_ts number l s add = (l', Ok tt) ->
  forall cs, In cs l -> compatible s cs.
Proof.
  intros number l s add l' Hok Hs Hv cs Hcs. unfold validate_snapshot in Hv.
  destruct (negb (s_round s =? number) || (s_hash s =? 0)); [inversion Hv|].
  destruct (scan s l) as [[]| |] eqn:Hscan; [|inversion Hv|inversion Hv].
  destruct (scan_ok s l Hscan cs Hcs) as [C1 [C2 [C3 [C4 C5]]]].
  assert (Hne : l <> []) by (intro E; subst; contradiction).
  destruct (gap_of_nonempty l Hne (ok_u64 l Hok)) as [lo [hi [Hlo [Hhi [Hb Hg]]]]].
  rewrite Hg in Hv.
  destruct (add64 (s_ts lo) round_gap <=? s_ts hi) eqn:Epanic; [inversion Hv|].
  destruct (gap_rejects s (s_ts lo) (s_ts hi)) eqn:Erej; [inversion Hv|].
  unfold gap_rejects in Erej.
  destruct (Hb cs Hcs) as [B1 B2].
  destruct (Hb lo Hlo) as [_ B3].
  pose proof (ok_u64 l Hok lo Hlo) as Ulo.
  pose proof (ok_u64 l Hok hi Hhi) as Uhi.
  pose proof gap_small as GS. pose proof gap_pos as GP.
  assert (Gle : round_gap <= two64) by lia.
  unfold compatible. repeat split; try assumption.
  - (* cs <= hi < s + gap *)
    destruct (add64_cases (s_ts lo) round_gap Ulo Gle) as [[L1 L2]|[L1 L2]]; rewrite L2 in *; [|lia].
    destruct (add64_cases (s_ts s) round_gap Hs Gle) as [[S1 S2]|[S1 S2]]; rewrite S2 in *; lia.
  - destruct (add64_cases (s_ts lo) round_gap Ulo Gle) as [[L1 L2]|[L1 L2]]; rewrite L2 in *; [|lia].
    destruct (add64_cases (s_ts s) round_gap Hs Gle) as [[S1 S2]|[S1 S2]]; rewrite S2 in *; lia.
Qed.

Lemma validate_preserves : forall number l s add l' r,
  round_ok l -> s_ts s < two64 ->
  validate_snapshot sort_ts number l s add = (l', r) -> round_ok l'.
Proof.
  intros number l s add l' r Hok Hs Hv.
  destruct (validate_perm _ _ _ _ _ _ Hv) as [[Er [Ea [sl [HP El]]]]|[_ HP]].
  - subst r l'. apply round_ok_snoc; [eapply round_ok_perm; [apply Permutation_sym; exact HP | exact Hok] | exact Hs|].
    intros cs Hcs. eapply validate_accept_compatible; [exact Hok | exact Hs | exact Hv|].
    eapply Permutation_in; [exact HP | exact Hcs].
  - eapply round_ok_perm; [apply Permutation_sym; exact HP | exact Hok].
Qed.

(* ---- every sequence of candidates ---------------------------------------------------------- *)
Lemma fold_accept_ok : forall number cands l,
  round_ok l -> Forall (fun s => s_ts s < two64) cands ->
  round_ok (fold_left (accept sort_ts number) cands l).
Proof.
  intros number cands. induction cands as [|s cands IH]; intros l Hok HF; [exact Hok|].
  inversion HF as [|? ? Hs HF']; subst. cbn [fold_left]. apply IH; [|exact HF'].
  unfold accept. destruct (validate_snapshot sort_ts number l s true) as [l' r] eqn:Hv.
  cbn [fst]. eapply validate_preserves; [exact Hok | exact Hs | exact Hv].
Qed.

Theorem run_invariant : forall number cands,
  Forall (fun s => s_ts s < two64) cands -> round_ok (run sort_ts number cands).
Proof. intros number cands HF. apply fold_accept_ok; [exact round_ok_nil | exact HF]. Qed.

Lemma Forall_firstn : forall {A} (P : A -> Prop) k l, Forall P l -> Forall P (firstn k l).
Proof.
  intros A P k. induction k as [|k IH]; intros l HF; [constructor|].
  destruct l as [|a l]; [constructor|]. inversion HF; subst. cbn [firstn]. constructor; auto.
Qed.

Theorem run_invariant_every_step : forall number cands k,
  Forall (fun s => s_ts s < two64) cands -> round_ok (run sort_ts number (firstn k cands)).
Proof. intros number cands k HF. apply run_invariant. apply Forall_firstn. exact HF. Qed.

(* ---- panics: with well-formed members below the wrap region there are none ----------------- *)
Definition guarded (l : list snap) : Prop := forall a, In a l -> s_ts a < two64 - round_gap.
Definition all_encodable (l : list snap) : Prop := Forall (fun cs => encodable cs = true) l.

Lemma gap_of_no_panic : forall l, round_ok l -> guarded l -> snd (gap_of sort_ts l) <> Panic.
Proof.
  intros l Hok Hg. destruct l as [|x l]; [cbn; discriminate|].
  assert (Hne : x :: l <> []) by discriminate.
  destruct (gap_of_nonempty (x :: l) Hne (ok_u64 _ Hok)) as [lo [hi [Hlo [Hhi [Hb Hgo]]]]].
  rewrite Hgo. cbn [snd].
  pose proof (ok_span _ Hok lo hi Hlo Hhi) as Sp.
  pose proof (Hg lo Hlo) as Glo. pose proof gap_small as GS.
  pose proof (ok_u64 _ Hok lo Hlo) as Ulo.
  assert (Gle : round_gap <= two64) by lia.
  destruct (add64_cases (s_ts lo) round_gap Ulo Gle) as [[L1 L2]|[L1 L2]]; [|lia].
  destruct (add64 (s_ts lo) round_gap <=? s_ts hi) eqn:E; [lia | discriminate].
Qed.

Theorem validate_no_panic : forall number l s add,
  round_ok l -> guarded l -> all_encodable l ->
  s_round s = number -> s_hash s <> 0 ->
  snd (validate_snapshot sort_ts number l s add) <> Panic.
Proof.
  intros number l s add Hok Hg He Hr Hh. unfold validate_snapshot.
  assert (E1 : negb (s_round s =? number) || (s_hash s =? 0) = false) by lia. rewrite E1.
  pose proof (scan_no_panic s l He) as Hsc.
  destruct (scan s l) as [[]| |]; [|cbn; discriminate|contradiction].
  pose proof (gap_of_no_panic l Hok Hg) as Hgp.
  destruct (gap_of sort_ts l) as [sl [[start end_]| |]]; cbn [snd] in *; [|discriminate|contradiction].
  destruct (gap_rejects s start end_); [cbn; discriminate|]. destruct add; cbn; discriminate.
Qed.

(* the stronger invariant for sequences of well-formed candidates *)
Definition wf_cand (number : N) (s : snap) : Prop :=
  s_round s = number /\ s_hash s <> 0 /\ encodable s = true /\ s_ts s < two64 - round_gap.

Lemma guarded_perm : forall l l', Permutation l l' -> guarded l -> guarded l'.
Proof. intros l l' HP Hg a Ha. apply Hg. eapply Permutation_in; [apply Permutation_sym; exact HP | exact Ha]. Qed.

Lemma validate_preserves_wf : forall number l s add l' r,
  guarded l -> all_encodable l -> wf_cand number s ->
  validate_snapshot sort_ts number l s add = (l', r) -> guarded l' /\ all_encodable l'.
Proof.
  intros number l s add l' r Hg He [_ [_ [W3 W4]]] Hv.
  destruct (validate_perm _ _ _ _ _ _ Hv) as [[Er [Ea [sl [HP El]]]]|[_ HP]].
  - subst l'. split.
    + intros a Ha. apply in_app_or in Ha. destruct Ha as [Ha|[Ha|[]]]; [|subst; exact W4].
      apply Hg. eapply Permutation_in; [exact HP | exact Ha].
    + apply Forall_app. split; [|constructor; [exact W3 | constructor]].
      eapply Permutation_Forall; [apply Permutation_sym; exact HP | exact He].
  - split; [eapply guarded_perm; [apply Permutation_sym; exact HP | exact Hg]|].
    eapply Permutation_Forall; [apply Permutation_sym; exact HP | exact He].
Qed.

Lemma wf_u64 : forall number s, wf_cand number s -> s_ts s < two64.
Proof. intros number s [_ [_ [_ W]]]. lia. Qed.

Lemma fold_accept_wf : forall number cands l,
  round_ok l -> guarded l -> all_encodable l -> Forall (wf_cand number) cands ->
  let l' := fold_left (accept sort_ts number) cands l in
  round_ok l' /\ guarded l' /\ all_encodable l'.
Proof.
  intros number cands. induction cands as [|s cands IH]; intros l Hok Hg He HF; [cbn; auto|].
  inversion HF as [|? ? Hs HF']; subst. cbn [fold_left].
  destruct (validate_snapshot sort_ts number l s true) as [l1 r] eqn:Hv.
  assert (El : accept sort_ts number l s = l1) by (unfold accept; rewrite Hv; reflexivity).
  rewrite El.
  destruct (validate_preserves_wf _ _ _ _ _ _ Hg He Hs Hv) as [Hg1 He1].
  apply IH; try assumption.
  eapply validate_preserves; [exact Hok | eapply wf_u64; exact Hs | exact Hv].
Qed.

Theorem run_wf : forall number cands, Forall (wf_cand number) cands ->
  let l := run sort_ts number cands in round_ok l /\ guarded l /\ all_encodable l.
Proof.
  intros number cands HF. apply fold_accept_wf; try assumption.
  - exact round_ok_nil.
  - intros a [].
  - constructor.
Qed.

(* ---- closing the round ---------------------------------------------------------------------- *)
Section Close.
Variable H : hin -> N.
Variable sort : list snap -> list snap.
Hypothesis sort_ok : sort_spec snap_lt sort.

Lemma as_final_bounds : forall node number l, l <> [] -> (forall a, In a l -> s_ts a < two64) ->
  exists lo hi, In lo l /\ In hi l /\
    (forall s, In s l -> s_ts lo <= s_ts s /\ s_ts s <= s_ts hi) /\
    as_final H sort node number l =
      if add64 (s_ts lo) round_gap <=? s_ts hi then Panic
      else Ok (Some (s_ts lo, s_ts hi, fold_keys H (H (HSeed node number)) (map skey (sort l)))).
Proof.
  intros node number l Hne Hu. destruct (sort_ok l) as [HP HS].
  unfold as_final. destruct l as [|x l]; [contradiction|].
  rewrite (common_spec H sort sort_ok). unfold round_hash_spec.
  destruct (sort (x :: l)) as [|s0 sl] eqn:E.
  - apply Permutation_nil in HP. discriminate.
  - assert (Hin : forall s, In s (x :: l) -> In s (s0 :: sl))
      by (intros s Hs; eapply Permutation_in; [apply Permutation_sym; exact HP | exact Hs]).
    assert (Hin' : forall s, In s (s0 :: sl) -> In s (x :: l))
      by (intros s Hs; eapply Permutation_in; [exact HP | exact Hs]).
    exists s0, (last (s0 :: sl) s0). split; [apply Hin'; left; reflexivity|].
    split; [apply Hin'; apply last_in; discriminate|]. split.
    + intros s Hs. specialize (Hin s Hs). split.
      * pose proof (sorted_ge_head s0 sl HS) as F. rewrite Forall_forall in F. apply F. exact Hin.
      * pose proof (sorted_le_last (s0 :: sl) s0 HS) as F. rewrite Forall_forall in F. apply F. exact Hin.
    + cbn [map]. change (skey s0 :: map skey sl) with (map skey (s0 :: sl)).
      rewrite (last_map skey (s0 :: sl) s0). cbn [skey fst].
      destruct (add64 (s_ts s0) round_gap <=? s_ts (last (s0 :: sl) s0)); reflexivity.
Qed.

Theorem close_total : forall node number l, round_ok l -> guarded l ->
  as_final H sort node number l <> Panic.
Proof.
  intros node number l Hok Hg. destruct l as [|x l]; [cbn; discriminate|].
  assert (Hne : x :: l <> []) by discriminate.
  destruct (as_final_bounds node number (x :: l) Hne (ok_u64 _ Hok)) as [lo [hi [Hlo [Hhi [Hb Hf]]]]].
  rewrite Hf.
  pose proof (ok_span _ Hok lo hi Hlo Hhi) as Sp.
  pose proof (Hg lo Hlo) as Glo. pose proof gap_small as GS.
  pose proof (ok_u64 _ Hok lo Hlo) as Ulo.
  assert (Gle : round_gap <= two64) by lia.
  destruct (add64_cases (s_ts lo) round_gap Ulo Gle) as [[L1 L2]|[L1 L2]]; [|lia].
  destruct (add64 (s_ts lo) round_gap <=? s_ts hi) eqn:E; [lia | discriminate].
Qed.

(* closing returns min, max and a span below the gap *)
Theorem close_value : forall node number l, round_ok l -> guarded l -> l <> [] ->
  exists start end_ h, as_final H sort node number l = Ok (Some (start, end_, h)) /\
    (forall s, In s l -> start <= s_ts s <= end_) /\ end_ < start + round_gap.
Proof.
  intros node number l Hok Hg Hne.
  destruct (as_final_bounds node number l Hne (ok_u64 _ Hok)) as [lo [hi [Hlo [Hhi [Hb Hf]]]]].
  pose proof (close_total node number l Hok Hg) as Hnp. rewrite Hf in *.
  destruct (add64 (s_ts lo) round_gap <=? s_ts hi); [contradiction|].
  eexists _, _, _. split; [reflexivity|]. split; [exact Hb|]. apply (ok_span _ Hok); assumption.
Qed.

(* the wrap region: every member at or above 2^64 - gap *)
Definition in_wrap (l : list snap) : Prop := forall a, In a l -> two64 - round_gap <= s_ts a < two64.

Theorem close_wrap_panics : forall node number l, l <> [] -> in_wrap l ->
  as_final H sort node number l = Panic.
Proof.
  intros node number l Hne Hw.
  assert (Hu : forall a, In a l -> s_ts a < two64) by (intros a Ha; apply Hw; exact Ha).
  destruct (as_final_bounds node number l Hne Hu) as [lo [hi [Hlo [Hhi [Hb Hf]]]]].
  rewrite Hf. pose proof (Hw lo Hlo) as Wlo. pose proof (Hw hi Hhi) as Whi.
  pose proof gap_small as GS. pose proof gap_pos as GP.
  assert (Gle : round_gap <= two64) by lia.
  destruct (add64_cases (s_ts lo) round_gap (Hu lo Hlo) Gle) as [[L1 L2]|[L1 L2]]; [lia|].
  destruct (add64 (s_ts lo) round_gap <=? s_ts hi) eqn:E; [reflexivity | lia].
Qed.
End Close.

Theorem validate_wrap_never_accepts : forall number l s add, l <> [] -> in_wrap l ->
  snd (validate_snapshot sort_ts number l s add) <> Ok tt.
Proof.
  intros number l s add Hne Hw. unfold validate_snapshot.
  destruct (negb (s_round s =? number) || (s_hash s =? 0)); [cbn; discriminate|].
  destruct (scan s l) as [[]| |]; [|cbn; discriminate|cbn; discriminate].
  assert (Hu : forall a, In a l -> s_ts a < two64) by (intros a Ha; apply Hw; exact Ha).
  destruct (gap_of_nonempty l Hne Hu) as [lo [hi [Hlo [Hhi [Hb Hg]]]]]. rewrite Hg.
  pose proof (Hw lo Hlo) as Wlo. pose proof (Hw hi Hhi) as Whi.
  pose proof gap_small as GS. pose proof gap_pos as GP.
  assert (Gle : round_gap <= two64) by lia.
  destruct (add64_cases (s_ts lo) round_gap (Hu lo Hlo) Gle) as [[L1 L2]|[L1 L2]]; [lia|].
  destruct (add64 (s_ts lo) round_gap <=? s_ts hi) eqn:E; [cbn; discriminate | lia].
Qed.
End WithSort.

Lemma ts_lt_asym : forall a b, ts_lt a b = true -> ts_lt b a = false.
Proof. intros a b; unfold ts_lt; lia. Qed.
Lemma ts_lt_negtrans : forall a b c, ts_lt b a = false -> ts_lt c b = false -> ts_lt c a = false.
Proof. intros a b c; unfold ts_lt; lia. Qed.
Lemma isort_ts_spec : sort_spec ts_lt isort_ts.
Proof. apply isort_spec; [exact ts_lt_asym | exact ts_lt_negtrans]. Qed.
