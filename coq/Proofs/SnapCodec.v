(* Lemmas about the snapshot codec model (Model/SnapCodec.v). *)
From Coq Require Import List ZArith NArith Bool Lia ZifyN ZifyNat ZifyBool.
Require Import Mixin.Base.Res Mixin.Gen.Consts Mixin.Model.SnapCodec.
Import ListNotations.
Open Scope N_scope.

(* ---- constants as computed from Gen/Consts.v ------------------------------- *)

Lemma magic_val : magic = [119; 119]. Proof. reflexivity. Qed.
Lemma snap_version_val : snap_version = 2. Proof. reflexivity. Qed.
Lemma tx_max_val : tx_max = 255. Proof. reflexivity. Qed.
Lemma max_int_val : max_int = 65535. Proof. reflexivity. Qed.
Lemma hash_len_val : hash_len = 32%nat. Proof. reflexivity. Qed.
Lemma sig_len_val : sig_len = 64%nat. Proof. reflexivity. Qed.

(* ---- byte strings ------------------------------------------------------------- *)

Definition Bytes (l : list N) : Prop := Forall (fun x => x < 256) l.

Lemma bytes_ok_iff : forall l, bytes_ok l = true <-> Bytes l.
Proof.
  intros l. unfold bytes_ok, Bytes. rewrite forallb_forall, Forall_forall.
  split; intros H x Hx; specialize (H x Hx); unfold byte_ok in *; lia.
Qed.

Lemma Bytes_app : forall a b, Bytes (a ++ b) <-> Bytes a /\ Bytes b.
Proof. intros a b. unfold Bytes. apply Forall_app. Qed.

(* ---- big-endian values ----------------------------------------------------------- *)

Lemma be_val_acc_snoc : forall l acc x, be_val_acc acc (l ++ [x]) = be_val_acc acc l * 256 + x.
Proof. induction l as [|y l IH]; intros acc x; cbn [be_val_acc app]; [reflexivity|apply IH]. Qed.

Lemma be_val_snoc : forall l x, be_val (l ++ [x]) = be_val l * 256 + x.
Proof. intros l x. apply be_val_acc_snoc. Qed.

Lemma be_bytes_acc_app : forall n v acc, be_bytes_acc n v acc = be_bytes_acc n v [] ++ acc.
Proof.
  induction n as [|n IH]; intros v acc; cbn [be_bytes_acc]; [reflexivity|].
  rewrite IH. rewrite (IH (v / 256) [v mod 256]). rewrite <- app_assoc. reflexivity.
Qed.

Lemma be_bytes_S : forall n v, be_bytes (S n) v = be_bytes n (v / 256) ++ [v mod 256].
Proof. intros n v. unfold be_bytes. cbn [be_bytes_acc]. apply be_bytes_acc_app. Qed.

Lemma be_bytes_length : forall n v, length (be_bytes n v) = n.
Proof.
  induction n as [|n IH]; intros v; [reflexivity|].
  rewrite be_bytes_S, app_length, IH. cbn [length]. lia.
Qed.

Lemma be_bytes_Bytes : forall n v, Bytes (be_bytes n v).
Proof.
  induction n as [|n IH]; intros v; [constructor|].
  rewrite be_bytes_S. apply Bytes_app. split; [apply IH|].
  constructor; [|constructor]. apply N.mod_lt. lia.
Qed.

Definition pow256 (n : nat) : N := 256 ^ N.of_nat n.

Lemma pow256_S : forall n, pow256 (S n) = 256 * pow256 n.
Proof. intros n. unfold pow256. rewrite Nnat.Nat2N.inj_succ, N.pow_succ_r'. reflexivity. Qed.

Lemma pow256_pos : forall n, 0 < pow256 n.
Proof. intros n. unfold pow256. apply N.neq_0_lt_0. apply N.pow_nonzero. lia. Qed.

Lemma be_val_bytes : forall n v, v < pow256 n -> be_val (be_bytes n v) = v.
Proof.
  induction n as [|n IH]; intros v Hv.
  - unfold pow256 in Hv. cbn in Hv. cbn. lia.
  - rewrite be_bytes_S, be_val_snoc. rewrite pow256_S in Hv.
    rewrite IH.
    + pose proof (N.div_mod v 256). lia.
    + apply N.div_lt_upper_bound; lia.
Qed.

Lemma be_val_bound : forall l, Bytes l -> be_val l < pow256 (length l).
Proof.
  induction l as [|x l IH] using rev_ind; intros Hb.
  - cbn. unfold pow256. cbn. lia.
  - apply Bytes_app in Hb. destruct Hb as [Hl Hx]. inversion Hx as [|? ? Hx256 _]; subst.
    rewrite be_val_snoc, app_length. cbn [length]. rewrite Nat.add_1_r, pow256_S.
    specialize (IH Hl). lia.
Qed.

Lemma be_bytes_val : forall l, Bytes l -> be_bytes (length l) (be_val l) = l.
Proof.
  induction l as [|x l IH] using rev_ind; intros Hb; [reflexivity|].
  apply Bytes_app in Hb. destruct Hb as [Hl Hx]. inversion Hx as [|? ? Hx256 _]; subst.
  rewrite app_length. cbn [length]. rewrite Nat.add_1_r, be_bytes_S, be_val_snoc.
  replace ((be_val l * 256 + x) / 256) with (be_val l).
  2:{ apply (N.div_unique _ 256 _ x); lia. }
  replace ((be_val l * 256 + x) mod 256) with x.
  2:{ apply (N.mod_unique _ 256 (be_val l) x); lia. }
  rewrite IH by assumption. reflexivity.
Qed.

(* ---- the reader ---------------------------------------------------------------------- *)

Lemma take_inv : forall n l a r, take n l = Some (a, r) -> l = a ++ r /\ length a = n.
Proof.
  induction n as [|n IH]; intros l a r H; cbn [take] in H.
  - inversion H; subst. split; reflexivity.
  - destruct l as [|x l]; [discriminate|].
    destruct (take n l) as [[a' r']|] eqn:E; [|discriminate].
    inversion H; subst. apply IH in E. destruct E as [-> <-]. split; reflexivity.
Qed.

Lemma take_app : forall a r, take (length a) (a ++ r) = Some (a, r).
Proof.
  induction a as [|x a IH]; intros r; cbn [take length app]; [reflexivity|].
  rewrite IH. reflexivity.
Qed.

Lemma rd_read_inv : forall n l a r, rd_read n l = ROk a r -> l = a ++ r /\ length a = n.
Proof.
  intros n l a r H. unfold rd_read in H. destruct l as [|x l]; [discriminate|].
  destruct (take n (x :: l)) as [[a' r']|] eqn:E; [|discriminate].
  inversion H; subst. apply take_inv in E. exact E.
Qed.

Lemma rd_read_app : forall a r, a <> [] -> rd_read (length a) (a ++ r) = ROk a r.
Proof.
  intros a r Ha. unfold rd_read. destruct a as [|x a]; [contradiction|].
  cbn [app]. change (x :: a ++ r) with ((x :: a) ++ r). rewrite take_app. reflexivity.
Qed.

(* the two failing outcomes of a read, used for the topology suffix *)
Lemma rd_read_eof : forall n l, rd_read n l = REof <-> l = [].
Proof.
  intros n l. unfold rd_read. destruct l as [|x l]; [split; reflexivity|].
  destruct (take n (x :: l)) as [[a r]|]; split; intros H; discriminate.
Qed.

Lemma rd_uint_inv : forall n l v r, rd_uint n l = ROk v r -> Bytes l ->
  l = be_bytes n v ++ r /\ v < pow256 n /\ Bytes r.
Proof.
  intros n l v r H Hb. unfold rd_uint, rd_bind in H.
  destruct (rd_read n l) as [a r'| |] eqn:E; try discriminate.
  inversion H; subst. apply rd_read_inv in E. destruct E as [-> <-].
  apply Bytes_app in Hb. destruct Hb as [Ha Hr].
  rewrite be_bytes_val by assumption. split; [reflexivity|]. split; [apply be_val_bound; assumption|assumption].
Qed.

Lemma rd_uint_app : forall n v r, n <> O -> v < pow256 n -> rd_uint n (be_bytes n v ++ r) = ROk v r.
Proof.
  intros n v r Hn Hv. unfold rd_uint.
  rewrite <- (be_bytes_length n v) at 1. rewrite rd_read_app.
  - cbn [rd_bind]. rewrite be_val_bytes by assumption. reflexivity.
  - intros E. apply (f_equal (@length N)) in E. rewrite be_bytes_length in E. cbn in E. contradiction.
Qed.

Lemma rd_uint_eof : forall n l, rd_uint n l = REof <-> l = [].
Proof.
  intros n l. unfold rd_uint, rd_bind. rewrite <- (rd_read_eof n l).
  destruct (rd_read n l); split; intros H; try discriminate; reflexivity.
Qed.

Definition hash_bound : N := pow256 hash_len.
Definition sig_bound : N := pow256 sig_len.
Definition u64_bound : N := pow256 8.

Lemma u16_inv : forall l v r, rd_u16 l = ROk v r -> Bytes l -> l = u16 v ++ r /\ v < pow256 2 /\ Bytes r.
Proof.
  intros l v r H Hb. unfold rd_u16, rd_bind in H.
  destruct (rd_read 2 l) as [a r'| |] eqn:E; try discriminate.
  destruct (max_int <? be_val a) eqn:Em; [discriminate|].
  inversion H; subst. apply rd_read_inv in E. destruct E as [-> Hl].
  apply Bytes_app in Hb. destruct Hb as [Ha Hr].
  unfold u16. rewrite <- Hl. rewrite be_bytes_val by assumption. split; [reflexivity|].
  split; [|assumption]. apply be_val_bound. assumption.
Qed.

Lemma u16_app : forall v r, v < pow256 2 -> rd_u16 (u16 v ++ r) = ROk v r.
Proof.
  intros v r Hv. unfold rd_u16, u16.
  rewrite <- (be_bytes_length 2 v) at 1. rewrite rd_read_app.
  - cbn [rd_bind]. rewrite be_val_bytes by assumption.
    replace (max_int <? v) with false; [reflexivity|].
    symmetry. apply N.ltb_ge. rewrite max_int_val. unfold pow256 in Hv. cbn in Hv. lia.
  - intros E. apply (f_equal (@length N)) in E. rewrite be_bytes_length in E. discriminate.
Qed.

(* ---- references --------------------------------------------------------------------------- *)

Definition refs_ok (r : option (N * N)) : Prop :=
  match r with None => True | Some (a, b) => a < hash_bound /\ b < hash_bound end.

Lemma hash_len_nz : hash_len <> O. Proof. rewrite hash_len_val. discriminate. Qed.
Lemma sig_len_nz : sig_len <> O. Proof. rewrite sig_len_val. discriminate. Qed.

Lemma rd_refs_inv : forall l rl r, rd_refs l = ROk rl r -> Bytes l ->
  l = enc_refs rl ++ r /\ refs_ok rl /\ Bytes r.
Proof.
  intros l rl r H Hb. unfold rd_refs in H.
  destruct (rd_u16 l) as [rc r0| |] eqn:E; cbn [rd_bind] in H; try discriminate.
  apply u16_inv in E; [|assumption]. destruct E as [-> [Hrc Hr0]].
  destruct (rc =? 0) eqn:E0.
  - inversion H; subst. apply N.eqb_eq in E0. subst rc. cbn [enc_refs refs_ok]. auto.
  - destruct (rc =? 2) eqn:E2; cbn [negb] in H; [|discriminate].
    apply N.eqb_eq in E2. subst rc.
    destruct (rd_hash r0) as [a r1| |] eqn:Ea; cbn [rd_bind] in H; try discriminate.
    destruct (rd_hash r1) as [b r2| |] eqn:Eb; cbn [rd_bind] in H; try discriminate.
    inversion H; subst.
    apply rd_uint_inv in Ea; [|assumption]. destruct Ea as [-> [Ha Hr1]].
    apply rd_uint_inv in Eb; [|assumption]. destruct Eb as [-> [Hb' Hr2]].
    cbn [enc_refs refs_ok]. rewrite <- !app_assoc. unfold hash_bound. auto.
Qed.

Lemma rd_refs_app : forall rl r, refs_ok rl -> rd_refs (enc_refs rl ++ r) = ROk rl r.
Proof.
  intros rl r Hok. unfold rd_refs. destruct rl as [[a b]|]; cbn [enc_refs refs_ok] in *.
  - rewrite <- !app_assoc. rewrite u16_app by (unfold pow256; cbn; lia).
    cbn [rd_bind]. change (2 =? 0) with false. change (negb (2 =? 2)) with false. cbv iota.
    destruct Hok as [Ha Hb]. unfold rd_hash.
    rewrite rd_uint_app by (try apply hash_len_nz; assumption). cbn [rd_bind].
    rewrite rd_uint_app by (try apply hash_len_nz; assumption). reflexivity.
  - rewrite u16_app by (unfold pow256; cbn; lia). reflexivity.
Qed.

(* ---- transaction hashes -------------------------------------------------------------------- *)

Definition hashes_ok (l : list N) : Prop := Forall (fun x => x < hash_bound) l.

Lemma rd_hashes_inv : forall k l hs r, rd_hashes k l = ROk hs r -> Bytes l ->
  l = enc_hashes hs ++ r /\ length hs = k /\ hashes_ok hs /\ Bytes r.
Proof.
  induction k as [|k IH]; intros l hs r H Hb; cbn [rd_hashes] in H.
  - inversion H; subst. repeat split; try assumption. constructor.
  - destruct (rd_hash l) as [h r0| |] eqn:Eh; cbn [rd_bind] in H; try discriminate.
    destruct (rd_hashes k r0) as [hs' r1| |] eqn:Ek; cbn [rd_bind] in H; try discriminate.
    inversion H; subst.
    apply rd_uint_inv in Eh; [|assumption]. destruct Eh as [-> [Hh Hr0]].
    apply IH in Ek; [|assumption]. destruct Ek as [-> [Hlen [Hok Hr]]].
    unfold enc_hashes. cbn [flat_map length]. rewrite <- app_assoc.
    repeat split; try assumption; [congruence|]. constructor; assumption.
Qed.

Lemma rd_hashes_app : forall hs r, hashes_ok hs ->
  rd_hashes (length hs) (enc_hashes hs ++ r) = ROk hs r.
Proof.
  induction hs as [|h hs IH]; intros r Hok; [reflexivity|].
  inversion Hok as [|? ? Hh Hok']; subst.
  unfold enc_hashes. cbn [rd_hashes length flat_map]. rewrite <- app_assoc.
  unfold rd_hash. rewrite rd_uint_app by (try apply hash_len_nz; assumption). cbn [rd_bind].
  fold (enc_hashes hs). rewrite IH by assumption. reflexivity.
Qed.

Lemma enc_hashes_length : forall l, length (enc_hashes l) = (hash_len * length l)%nat.
Proof.
  induction l as [|x l IH]; [cbn; lia|].
  unfold enc_hashes in *. cbn [flat_map length]. rewrite app_length, be_bytes_length, IH. lia.
Qed.

(* ---- signature -------------------------------------------------------------------------------- *)

Definition sig_ok (c : option (N * N)) : Prop :=
  match c with None => True | Some (m, sg) => 0 < m /\ m < u64_bound /\ sg < sig_bound end.

Lemma rd_cosi_inv : forall l c r, rd_cosi l = ROk c r -> Bytes l ->
  exists e, enc_cosi c = Ok e /\ l = e ++ r /\ sig_ok c /\ Bytes r.
Proof.
  intros l c r H Hb. unfold rd_cosi in H.
  destruct (rd_u64 l) as [m r0| |] eqn:Em; cbn [rd_bind] in H; try discriminate.
  apply rd_uint_inv in Em; [|assumption]. destruct Em as [-> [Hm Hr0]].
  destruct (m =? 0) eqn:E0.
  - inversion H; subst. apply N.eqb_eq in E0. subst m. exists (u64 0). cbn. auto.
  - destruct (rd_uint sig_len r0) as [sg r1| |] eqn:Es; cbn [rd_bind] in H; try discriminate.
    inversion H; subst.
    apply rd_uint_inv in Es; [|assumption]. destruct Es as [-> [Hs Hr1]].
    exists (u64 m ++ be_bytes sig_len sg). cbn [enc_cosi sig_ok]. rewrite E0.
    rewrite <- app_assoc. apply N.eqb_neq in E0. unfold u64_bound, sig_bound. repeat split; try assumption; lia.
Qed.

Lemma rd_cosi_app : forall c r, sig_ok c ->
  exists e, enc_cosi c = Ok e /\ rd_cosi (e ++ r) = ROk c r.
Proof.
  intros c r Hok. unfold rd_cosi. destruct c as [[m sg]|]; cbn [enc_cosi sig_ok] in *.
  - destruct Hok as [Hm0 [Hm Hs]].
    assert (E0 : (m =? 0) = false) by (apply N.eqb_neq; lia). rewrite E0.
    exists (u64 m ++ be_bytes sig_len sg). split; [reflexivity|].
    rewrite <- app_assoc. unfold rd_u64, u64. rewrite rd_uint_app by (try discriminate; assumption).
    cbn [rd_bind]. rewrite E0. rewrite rd_uint_app by (try apply sig_len_nz; assumption). reflexivity.
  - exists (u64 0). split; [reflexivity|]. unfold rd_u64, u64.
    rewrite rd_uint_app by (try discriminate; unfold pow256; cbn; lia). reflexivity.
Qed.

(* ---- sorting ---------------------------------------------------------------------------------------- *)

Lemma strictly_inc_cons : forall x l,
  strictly_inc (x :: l) = true <->
  (match l with [] => True | y :: _ => x < y end) /\ strictly_inc l = true.
Proof.
  intros x l. destruct l as [|y l]; cbn [strictly_inc].
  - split; auto.
  - rewrite andb_true_iff, N.ltb_lt. reflexivity.
Qed.

Lemma sinc_isort : forall l, strictly_inc l = true -> isort l = l.
Proof.
  induction l as [|x l IH]; intros H; [reflexivity|].
  apply strictly_inc_cons in H. destruct H as [Hh Hl]. cbn [isort]. rewrite IH by assumption.
  destruct l as [|y l]; [reflexivity|]. cbn [insert].
  replace (x <=? y) with true; [reflexivity|]. symmetry. apply N.leb_le. lia.
Qed.

Lemma sinc_no_dup : forall l, strictly_inc l = true -> has_adj_dup l = false.
Proof.
  induction l as [|x l IH]; intros H; [reflexivity|].
  apply strictly_inc_cons in H. destruct H as [Hh Hl].
  destruct l as [|y l]; [reflexivity|]. cbn [has_adj_dup].
  change (has_adj_dup (y :: l)) with (has_adj_dup (y :: l)). rewrite orb_false_iff. split.
  - apply N.eqb_neq. lia.
  - apply IH. assumption.
Qed.

Lemma In_insert : forall x l y, In y (insert x l) <-> y = x \/ In y l.
Proof.
  induction l as [|z l IH]; intros y; cbn [insert].
  - cbn. intuition.
  - destruct (x <=? z); cbn [In]; [intuition|]. rewrite IH. intuition.
Qed.

Lemma In_isort : forall l y, In y (isort l) <-> In y l.
Proof.
  induction l as [|x l IH]; intros y; cbn [isort]; [reflexivity|].
  rewrite In_insert, IH. cbn [In]. intuition.
Qed.

Lemma isort_length : forall l, length (isort l) = length l.
Proof.
  assert (Hins : forall x l, length (insert x l) = S (length l)).
  { induction l as [|z l IH]; cbn [insert]; [reflexivity|].
    destruct (x <=? z); cbn [length]; [reflexivity|]. rewrite IH. reflexivity. }
  induction l as [|x l IH]; cbn [isort]; [reflexivity|]. rewrite Hins, IH. reflexivity.
Qed.

Lemma insert_sinc : forall x l, strictly_inc l = true -> ~ In x l -> strictly_inc (insert x l) = true.
Proof.
  induction l as [|z l IH]; intros Hs Hn; [reflexivity|].
  cbn [insert]. destruct (x <=? z) eqn:E.
  - apply strictly_inc_cons. split; [|assumption]. apply N.leb_le in E.
    assert (x <> z) by (intros ->; apply Hn; left; reflexivity). lia.
  - apply N.leb_gt in E. apply strictly_inc_cons in Hs. destruct Hs as [Hh Hl].
    apply strictly_inc_cons. split.
    + destruct l as [|w l]; cbn [insert]; [assumption|]. destruct (x <=? w); assumption.
    + apply IH; [assumption|]. intros Hin. apply Hn. right. assumption.
Qed.

Lemma isort_sinc : forall l, NoDup l -> strictly_inc (isort l) = true.
Proof.
  induction l as [|x l IH]; intros Hnd; [reflexivity|].
  inversion Hnd as [|? ? Hn Hnd']; subst. cbn [isort]. apply insert_sinc; [apply IH; assumption|].
  rewrite In_isort. assumption.
Qed.

Lemma hashes_ok_isort : forall l, hashes_ok l -> hashes_ok (isort l).
Proof.
  intros l H. unfold hashes_ok in *. rewrite Forall_forall in *. intros x Hx. apply H. apply In_isort. assumption.
Qed.

(* a strictly increasing list lists each element once; two strictly increasing
   lists with the same elements are equal, so the sorted form is independent of
   the order in which the transactions were listed *)
Lemma sinc_lt_all : forall x l, strictly_inc (x :: l) = true -> forall y, In y l -> x < y.
Proof.
  intros x l. revert x. induction l as [|z l IH]; intros x H y Hy; [contradiction|].
  apply strictly_inc_cons in H. destruct H as [Hxz Hl]. destruct Hy as [<-|Hy]; [assumption|].
  specialize (IH z Hl y Hy). lia.
Qed.

Lemma sinc_ext : forall l1 l2, strictly_inc l1 = true -> strictly_inc l2 = true ->
  (forall y, In y l1 <-> In y l2) -> l1 = l2.
Proof.
  induction l1 as [|x l1 IH]; intros l2 H1 H2 Hin.
  - destruct l2 as [|z l2]; [reflexivity|]. exfalso. apply (Hin z). left. reflexivity.
  - destruct l2 as [|z l2]; [exfalso; apply (Hin x); left; reflexivity|].
    pose proof (sinc_lt_all _ _ H1) as L1. pose proof (sinc_lt_all _ _ H2) as L2.
    assert (x = z).
    { destruct (proj1 (Hin x) (or_introl eq_refl)) as [E|Hx]; [auto|].
      destruct (proj2 (Hin z) (or_introl eq_refl)) as [E|Hz]; [auto|].
      specialize (L1 z Hz). specialize (L2 x Hx). lia. }
    subst z. f_equal. apply strictly_inc_cons in H1. apply strictly_inc_cons in H2.
    apply IH; [tauto|tauto|]. intros y. split; intros Hy.
    + destruct (proj1 (Hin y) (or_intror Hy)) as [E|Hy']; [|assumption].
      subst y. specialize (L1 x Hy). lia.
    + destruct (proj2 (Hin y) (or_intror Hy)) as [E|Hy']; [|assumption].
      subst y. specialize (L2 x Hy). lia.
Qed.

Lemma isort_listing_order : forall l1 l2, NoDup l1 -> NoDup l2 ->
  (forall y, In y l1 <-> In y l2) -> isort l1 = isort l2.
Proof.
  intros l1 l2 N1 N2 Hin. apply sinc_ext; try (apply isort_sinc; assumption).
  intros y. rewrite !In_isort. apply Hin.
Qed.

Lemma sinc_NoDup : forall l, strictly_inc l = true -> NoDup l.
Proof.
  induction l as [|x l IH]; intros H; [constructor|].
  constructor.
  - intros Hin. pose proof (sinc_lt_all x l H x Hin). lia.
  - apply IH. apply strictly_inc_cons in H. tauto.
Qed.

(* ---- version check ------------------------------------------------------------------------------------ *)

Lemma list_eqb_eq : forall a b, list_eqb a b = true -> a = b.
Proof.
  induction a as [|x a IH]; intros b H; destruct b as [|y b]; cbn [list_eqb] in H; try discriminate; [reflexivity|].
  apply andb_true_iff in H. destruct H as [Hx Hr]. apply N.eqb_eq in Hx. subst y. f_equal. apply IH. assumption.
Qed.

Definition header : list N := magic ++ [0; snap_version].

Lemma check_snap_version_inv : forall h,
  (check_snap_version h <? snap_version) = false -> length h = 4%nat ->
  h = header /\ check_snap_version h = snap_version.
Proof.
  intros h Hv Hl. unfold check_snap_version in *.
  destruct (take 4 h) as [[a r]|] eqn:E; [|rewrite snap_version_val in Hv; discriminate].
  apply take_inv in E. destruct E as [-> Ha]. rewrite app_length in Hl.
  assert (r = []) by (destruct r; [reflexivity|cbn [length] in Hl; lia]). subst r. rewrite app_nil_r in *.
  destruct (list_eqb a (magic ++ [0; snap_version])) eqn:El; [|rewrite snap_version_val in Hv; discriminate].
  apply list_eqb_eq in El. split; [exact El|reflexivity].
Qed.

Lemma check_snap_version_header : forall r, check_snap_version (header ++ r) = snap_version.
Proof.
  intros r. unfold check_snap_version. change 4%nat with (length header). rewrite take_app.
  reflexivity.
Qed.

(* ---- shape and field ranges ------------------------------------------------------------------------------ *)

Definition shape (s : snapshot) : Prop :=
  (1 <= length (s_txs s) <= 255)%nat /\ strictly_inc (s_txs s) = true /\
  (s_round s = 0 -> length (s_txs s) = 1%nat /\ s_refs s = None) /\
  (s_round s <> 0 -> s_refs s <> None).

(* every field fits its Go type *)
Definition fields_ok (s : snapshot) : Prop :=
  s_node s < hash_bound /\ s_round s < u64_bound /\ refs_ok (s_refs s) /\
  hashes_ok (s_txs s) /\ s_ts s < u64_bound /\ sig_ok (s_sig s).

Definition tail_dec (s : snapshot) (rest : list N) : res (snapshot * N) :=
  match rd_u64 rest with
  | REof => Ok (s, 0)
  | RBad => Err
  | ROk num r8 => match r8 with [] => Ok (s, num) | _ :: _ => Err end
  end.

Lemma dec_inv : forall b s topo, dec_snapshot_with_topo b = Ok (s, topo) -> Bytes b ->
  exists c, enc_cosi (s_sig s) = Ok c /\ s_version s = snap_version /\
    ((b = enc_body s ++ c /\ topo = 0) \/ (b = enc_body s ++ c ++ u64 topo /\ topo < u64_bound)) /\
    shape s /\ fields_ok s.
Proof.
  intros b s topo H Hb. unfold dec_snapshot_with_topo in H. cbv zeta in H.
  destruct (rd_read 4 b) as [h r0| |] eqn:E0; cbn [rd_then] in H; try discriminate.
  apply rd_read_inv in E0. destruct E0 as [-> Hh]. apply Bytes_app in Hb. destruct Hb as [_ Hb].
  destruct (check_snap_version h <? snap_version) eqn:Ev; [discriminate|].
  destruct (check_snap_version_inv h Ev Hh) as [Eh Ecv]. rewrite Ecv in H. clear Ev Ecv Hh. subst h.
  destruct (rd_hash r0) as [node r1| |] eqn:E1; cbn [rd_then] in H; try discriminate.
  apply rd_uint_inv in E1; [|assumption]. destruct E1 as [-> [Hnode Hb1]].
  destruct (rd_u64 r1) as [rn r2| |] eqn:E2; cbn [rd_then] in H; try discriminate.
  apply rd_uint_inv in E2; [|assumption]. destruct E2 as [-> [Hrn Hb2]].
  destruct (rd_refs r2) as [rl r3| |] eqn:E3; cbn [rd_then] in H; try discriminate.
  apply rd_refs_inv in E3; [|assumption]. destruct E3 as [-> [Hrl Hb3]].
  destruct (rd_u16 r3) as [tl r4| |] eqn:E4; cbn [rd_then] in H; try discriminate.
  apply u16_inv in E4; [|assumption]. destruct E4 as [-> [Htl Hb4]].
  destruct ((tl <? 1) || (tx_max <? tl)) eqn:Etl; [discriminate|].
  destruct (rd_hashes (N.to_nat tl) r4) as [txs r5| |] eqn:E5; cbn [rd_then] in H; try discriminate.
  apply rd_hashes_inv in E5; [|assumption]. destruct E5 as [-> [Hlen [Htxs Hb5]]].
  destruct (negb (strictly_inc txs)) eqn:Esi; [discriminate|].
  destruct (if rn =? 0 then negb (Nat.eqb (length txs) 1) || is_some rl else negb (is_some rl)) eqn:Ern;
    [discriminate|].
  destruct (rd_u64 r5) as [ts r6| |] eqn:E6; cbn [rd_then] in H; try discriminate.
  apply rd_uint_inv in E6; [|assumption]. destruct E6 as [-> [Hts Hb6]].
  destruct (rd_cosi r6) as [cs r7| |] eqn:E7; cbn [rd_then] in H; try discriminate.
  apply rd_cosi_inv in E7; [|assumption]. destruct E7 as [c [Hc [-> [Hcs Hb7]]]].
  apply negb_false_iff in Esi. rewrite tx_max_val in Etl.
  assert (Hlen' : N.of_nat (length txs) = tl) by (rewrite Hlen; apply Nnat.N2Nat.id).
  assert (Hshape : shape (MkSnap snap_version node rn rl txs ts cs)).
  { unfold shape. cbn [s_txs s_round s_refs]. split; [lia|]. split; [assumption|].
    destruct (rn =? 0) eqn:Ez.
    - apply N.eqb_eq in Ez. apply orb_false_iff in Ern. destruct Ern as [Ea Eb].
      apply negb_false_iff in Ea. apply Nat.eqb_eq in Ea.
      split; [|intros; contradiction]. intros _. split; [assumption|]. destruct rl; [discriminate|reflexivity].
    - apply N.eqb_neq in Ez. split; [intros; contradiction|]. intros _.
      destruct rl; [discriminate|]. discriminate. }
  assert (Hbody : forall rest,
    header ++ be_bytes hash_len node ++ u64 rn ++ enc_refs rl ++ u16 tl ++ enc_hashes txs ++ u64 ts ++ c ++ rest
    = enc_body (MkSnap snap_version node rn rl txs ts cs) ++ c ++ rest).
  { intros rest. unfold enc_body, header. cbn [s_version s_node s_round s_refs s_txs s_ts].
    rewrite sinc_isort by assumption. rewrite Hlen'. rewrite <- !app_assoc. reflexivity. }
  assert (Hf : fields_ok (MkSnap snap_version node rn rl txs ts cs)).
  { unfold fields_ok, hash_bound, u64_bound. cbn [s_node s_round s_refs s_txs s_ts s_sig]. tauto. }
  destruct (rd_u64 r7) as [num r8| |] eqn:E8.
  - destruct r8 as [|x r8]; [|discriminate]. inversion H; subst s topo. clear H.
    apply rd_uint_inv in E8; [|assumption]. destruct E8 as [-> [Hnum _]].
    exists c. cbn [s_sig s_version]. split; [assumption|]. split; [reflexivity|]. split; [|split; assumption].
    right. split; [|exact Hnum]. rewrite app_nil_r.
    rewrite <- Hbody. unfold header. rewrite <- ?app_assoc. reflexivity.
  - inversion H; subst s topo. clear H. apply rd_uint_eof in E8. subst r7.
    exists c. cbn [s_sig s_version]. split; [assumption|]. split; [reflexivity|]. split; [|split; assumption].
    left. split; [|reflexivity].
    specialize (Hbody []). rewrite !app_nil_r in Hbody. rewrite <- Hbody. unfold header. rewrite <- ?app_assoc.
    rewrite ?app_nil_r. reflexivity.
  - discriminate.
Qed.

(* ---- the encoder ------------------------------------------------------------------------------------------- *)

Lemma enc_payload_ok : forall s c ws,
  snap_version <= s_version s ->
  (1 <= length (s_txs s) <= 255)%nat ->
  (s_round s = 0 -> length (s_txs s) = 1%nat) ->
  strictly_inc (isort (s_txs s)) = true ->
  enc_cosi (s_sig s) = Ok c ->
  (ws = false -> s_sig s = None) ->
  enc_snapshot_payload s ws = Ok (enc_body s ++ c).
Proof.
  intros s c ws Hv Hlen Hr0 Hsi Hc Hws. unfold enc_snapshot_payload. cbv zeta.
  replace (s_version s <? snap_version) with false by (symmetry; apply N.ltb_ge; assumption).
  replace ((s_round s =? 0) && negb (N.of_nat (length (s_txs s)) =? 1)) with false.
  2:{ symmetry. destruct (s_round s =? 0) eqn:Ez; [|reflexivity]. apply N.eqb_eq in Ez.
      rewrite (Hr0 Ez). reflexivity. }
  replace ((N.of_nat (length (s_txs s)) <? 1) || (tx_max <? N.of_nat (length (s_txs s)))) with false.
  2:{ symmetry. rewrite tx_max_val. apply orb_false_iff. split; apply N.ltb_ge; lia. }
  replace (negb ws && is_some (s_sig s)) with false.
  2:{ symmetry. destruct ws; [reflexivity|]. rewrite (Hws eq_refl). reflexivity. }
  rewrite (sinc_no_dup _ Hsi). rewrite Hc. reflexivity.
Qed.

Lemma enc_payload_inv : forall s ws p, enc_snapshot_payload s ws = Ok p ->
  exists c, enc_cosi (s_sig s) = Ok c /\ p = enc_body s ++ c /\
    (length (s_txs s) <= 255)%nat /\ (ws = false -> s_sig s = None).
Proof.
  intros s ws p H. unfold enc_snapshot_payload in H. cbv zeta in H.
  destruct (s_version s <? snap_version); [discriminate|].
  destruct ((s_round s =? 0) && negb (N.of_nat (length (s_txs s)) =? 1)); [discriminate|].
  destruct ((N.of_nat (length (s_txs s)) <? 1) || (tx_max <? N.of_nat (length (s_txs s)))) eqn:El; [discriminate|].
  destruct (negb ws && is_some (s_sig s)) eqn:Es; [discriminate|].
  destruct (has_adj_dup (isort (s_txs s))); [discriminate|].
  destruct (enc_cosi (s_sig s)) as [c| |]; cbn [bind] in H; try discriminate.
  inversion H; subst. exists c. split; [reflexivity|]. split; [reflexivity|].
  rewrite tx_max_val in El. split; [lia|]. intros ->. cbn in Es. destruct (s_sig s); [discriminate|reflexivity].
Qed.

Lemma enc_cosi_ok : forall c, sig_ok c -> exists e, enc_cosi c = Ok e.
Proof. intros c H. destruct (rd_cosi_app c [] H) as [e [E _]]. exists e. exact E. Qed.

Lemma rd_cosi_app' : forall c e r, sig_ok c -> enc_cosi c = Ok e -> rd_cosi (e ++ r) = ROk c r.
Proof.
  intros c e r H E. destruct (rd_cosi_app c r H) as [e' [E1 E2]]. rewrite E1 in E. inversion E; subst. exact E2.
Qed.

Lemma rd_u64_app : forall v r, v < u64_bound -> rd_u64 (u64 v ++ r) = ROk v r.
Proof. intros v r H. unfold rd_u64, u64. apply rd_uint_app; [discriminate|exact H]. Qed.

Lemma rd_hash_app : forall v r, v < hash_bound -> rd_hash (be_bytes hash_len v ++ r) = ROk v r.
Proof. intros v r H. unfold rd_hash. apply rd_uint_app; [apply hash_len_nz|exact H]. Qed.

(* ---- canonical: what the decoder accepts is the encoding of what it returns ----------------------------- *)

Lemma canonical : forall b s topo,
  unmarshal_snapshot b = Ok (s, topo) -> Bytes b ->
  exists e, enc_snapshot_payload s true = Ok e /\
            versioned_marshal s topo = Ok (e ++ u64 topo) /\
            ((b = e /\ topo = 0) \/ b = e ++ u64 topo).
Proof.
  intros b s topo H Hb. unfold unmarshal_snapshot in H.
  destruct (check_snap_version b <? snap_version); [discriminate|].
  destruct (dec_inv b s topo H Hb) as [c [Hc [Hv [Hform [Hshape _]]]]].
  destruct Hshape as [Hlen [Hsi [Hr0 _]]].
  assert (He : enc_snapshot_payload s true = Ok (enc_body s ++ c)).
  { apply enc_payload_ok; try assumption.
    - rewrite Hv. apply N.le_refl.
    - intros Hz. apply Hr0. assumption.
    - rewrite sinc_isort by assumption. assumption.
    - intros; discriminate. }
  exists (enc_body s ++ c). split; [assumption|]. split.
  - unfold versioned_marshal, enc_snapshot_with_topo. rewrite Hv, N.eqb_refl, He. reflexivity.
  - destruct Hform as [[-> ->]|[-> _]]; [left; auto|right; rewrite app_assoc; reflexivity].
Qed.

Lemma accepted_shape : forall b s topo,
  unmarshal_snapshot b = Ok (s, topo) -> Bytes b -> shape s /\ s_version s = snap_version /\ fields_ok s.
Proof.
  intros b s topo H Hb. unfold unmarshal_snapshot in H.
  destruct (check_snap_version b <? snap_version); [discriminate|].
  destruct (dec_inv b s topo H Hb) as [c [Hc [Hv [Hform [Hshape Hf]]]]]. auto.
Qed.

(* ---- round trip ------------------------------------------------------------------------------------------------ *)

Definition wf (s : snapshot) : Prop :=
  s_version s = snap_version /\
  (1 <= length (s_txs s) <= 255)%nat /\ NoDup (s_txs s) /\
  (s_round s = 0 -> length (s_txs s) = 1%nat /\ s_refs s = None) /\
  (s_round s <> 0 -> s_refs s <> None) /\
  fields_ok s.

(* the snapshot with its transactions in increasing order (what the encoder writes) *)
Definition canon (s : snapshot) : snapshot :=
  MkSnap (s_version s) (s_node s) (s_round s) (s_refs s) (isort (s_txs s)) (s_ts s) (s_sig s).

Lemma canon_sorted : forall s, strictly_inc (s_txs s) = true -> canon s = s.
Proof. intros s H. unfold canon. rewrite sinc_isort by assumption. destruct s; reflexivity. Qed.

Lemma dec_enc : forall s c rest, wf s -> enc_cosi (s_sig s) = Ok c ->
  dec_snapshot_with_topo (enc_body s ++ c ++ rest) = tail_dec (canon s) rest.
Proof.
  intros s c rest Hwf Hc.
  destruct Hwf as [Hv [Hlen [Hnd [Hr0 [Hrn [Hnode [Hround [Hrefs [Htxs [Hts Hsig]]]]]]]]]].
  unfold dec_snapshot_with_topo. cbv zeta. unfold enc_body. rewrite Hv.
  rewrite (app_assoc magic). fold header. rewrite <- !app_assoc.
  change 4%nat with (length header). rewrite rd_read_app by discriminate. cbn [rd_then].
  replace (check_snap_version header) with snap_version by reflexivity.
  rewrite N.ltb_irrefl.
  rewrite rd_hash_app by assumption. cbn [rd_then].
  rewrite rd_u64_app by assumption. cbn [rd_then].
  rewrite rd_refs_app by assumption. cbn [rd_then].
  rewrite u16_app by (unfold pow256; cbn; lia). cbn [rd_then].
  replace ((N.of_nat (length (s_txs s)) <? 1) || (tx_max <? N.of_nat (length (s_txs s)))) with false.
  2:{ symmetry. rewrite tx_max_val. apply orb_false_iff. split; apply N.ltb_ge; lia. }
  rewrite Nnat.Nat2N.id. rewrite <- (isort_length (s_txs s)).
  rewrite rd_hashes_app by (apply hashes_ok_isort; assumption). cbn [rd_then].
  rewrite (isort_sinc _ Hnd). cbn [negb].
  replace (if s_round s =? 0
           then negb (Nat.eqb (length (isort (s_txs s))) 1) || is_some (s_refs s)
           else negb (is_some (s_refs s))) with false.
  2:{ symmetry. rewrite isort_length. destruct (s_round s =? 0) eqn:Ez.
      - apply N.eqb_eq in Ez. destruct (Hr0 Ez) as [E1 E2]. rewrite E1, E2. reflexivity.
      - apply N.eqb_neq in Ez. specialize (Hrn Ez). destruct (s_refs s); [reflexivity|contradiction]. }
  rewrite rd_u64_app by assumption. cbn [rd_then].
  rewrite (rd_cosi_app' _ _ _ Hsig Hc). cbn [rd_then].
  unfold tail_dec, canon. rewrite Hv. reflexivity.
Qed.

Lemma roundtrip : forall s topo, wf s -> topo < u64_bound ->
  exists e, enc_snapshot_payload s true = Ok e /\
            versioned_marshal s topo = Ok (e ++ u64 topo) /\
            unmarshal_snapshot (e ++ u64 topo) = Ok (canon s, topo) /\
            unmarshal_snapshot e = Ok (canon s, 0).
Proof.
  intros s topo Hwf Htopo. pose proof Hwf as Hwf'.
  destruct Hwf as [Hv [Hlen [Hnd [Hr0 [Hrn [Hnode [Hround [Hrefs [Htxs [Hts Hsig]]]]]]]]]].
  destruct (enc_cosi_ok _ Hsig) as [c Hc].
  assert (He : enc_snapshot_payload s true = Ok (enc_body s ++ c)).
  { apply enc_payload_ok; try assumption.
    - rewrite Hv. apply N.le_refl.
    - intros Hz. apply Hr0. assumption.
    - apply isort_sinc. assumption.
    - intros; discriminate. }
  assert (Hcv : forall r, check_snap_version ((enc_body s ++ c) ++ r) <? snap_version = false).
  { intros r. unfold enc_body. rewrite Hv. rewrite (app_assoc magic). fold header. rewrite <- !app_assoc.
    rewrite check_snap_version_header. apply N.ltb_irrefl. }
  exists (enc_body s ++ c). split; [assumption|]. split.
  { unfold versioned_marshal, enc_snapshot_with_topo. rewrite Hv, N.eqb_refl, He. reflexivity. }
  split.
  - unfold unmarshal_snapshot. rewrite Hcv. rewrite <- app_assoc. rewrite (dec_enc s c _ Hwf' Hc).
    unfold tail_dec. rewrite <- (app_nil_r (u64 topo)).
    rewrite rd_u64_app by assumption. reflexivity.
  - unfold unmarshal_snapshot. rewrite <- (app_nil_r (enc_body s ++ c)) at 1. rewrite Hcv.
    rewrite <- (app_nil_r c). rewrite (dec_enc s c [] Hwf' Hc). reflexivity.
Qed.

(* an encoding cut inside its topology suffix, or extended, is rejected:
   consequence of [canonical] by length *)
Lemma enc_length_unique : forall s topo e k b,
  enc_snapshot_payload s true = Ok e -> Bytes b ->
  unmarshal_snapshot b = Ok (s, topo) -> length b = (length e + k)%nat -> k = 0%nat \/ k = 8%nat.
Proof.
  intros s topo e k b He Hb H Hl. destruct (canonical b s topo H Hb) as [e' [He' [_ Hform]]].
  rewrite He in He'. inversion He'; subst e'.
  destruct Hform as [[-> _]| ->]; [left; lia|right].
  rewrite app_length in Hl. unfold u64 in Hl. rewrite be_bytes_length in Hl. lia.
Qed.

(* ---- the payload: injective in its fields, independent of signature and topology ----------------------------- *)

(* the fields the payload encoding carries *)
Definition payload_fields (s : snapshot) : N * N * N * option (N * N) * list N * N :=
  (s_version s, s_node s, s_round s, s_refs s, isort (s_txs s), s_ts s).

Definition pfields_ok (s : snapshot) : Prop :=
  s_node s < hash_bound /\ s_round s < u64_bound /\ refs_ok (s_refs s) /\
  hashes_ok (s_txs s) /\ s_ts s < u64_bound.

Definition with_sig (s : snapshot) (c : option (N * N)) : snapshot :=
  MkSnap (s_version s) (s_node s) (s_round s) (s_refs s) (s_txs s) (s_ts s) c.

Lemma enc_body_with_sig : forall s c, enc_body (with_sig s c) = enc_body s.
Proof. intros s c. reflexivity. Qed.

Lemma versioned_payload_with_sig : forall s c, versioned_payload (with_sig s c) = versioned_payload s.
Proof. intros s c. reflexivity. Qed.

Lemma payload_fields_with_sig : forall s c, payload_fields (with_sig s c) = payload_fields s.
Proof. intros s c. reflexivity. Qed.

(* reading the body back, field by field *)
Definition parse_body (p : list N) : rd (list N * N * N * option (N * N) * list N * N) :=
  rd_bind (rd_read 4 p) (fun h r0 =>
  rd_bind (rd_hash r0) (fun node r1 =>
  rd_bind (rd_u64 r1) (fun rn r2 =>
  rd_bind (rd_refs r2) (fun rl r3 =>
  rd_bind (rd_u16 r3) (fun tl r4 =>
  rd_bind (rd_hashes (N.to_nat tl) r4) (fun txs r5 =>
  rd_bind (rd_u64 r5) (fun ts r6 => ROk (h, node, rn, rl, txs, ts) r6))))))).

Lemma parse_body_enc : forall s rest, pfields_ok s -> (length (s_txs s) <= 255)%nat ->
  parse_body (enc_body s ++ rest) =
  ROk (magic ++ [0; s_version s], s_node s, s_round s, s_refs s, isort (s_txs s), s_ts s) rest.
Proof.
  intros s rest [Hnode [Hround [Hrefs [Htxs Hts]]]] Hlen.
  unfold parse_body, enc_body. rewrite <- !app_assoc. rewrite (app_assoc magic).
  change 4%nat with (length (magic ++ [0; s_version s])). rewrite rd_read_app by discriminate. cbn [rd_bind].
  rewrite rd_hash_app by assumption. cbn [rd_bind].
  rewrite rd_u64_app by assumption. cbn [rd_bind].
  rewrite rd_refs_app by assumption. cbn [rd_bind].
  rewrite u16_app by (unfold pow256; cbn; lia). cbn [rd_bind].
  rewrite Nnat.Nat2N.id. rewrite <- (isort_length (s_txs s)).
  rewrite rd_hashes_app by (apply hashes_ok_isort; assumption). cbn [rd_bind].
  rewrite rd_u64_app by assumption. reflexivity.
Qed.

Lemma payload_injective : forall s1 s2 p, pfields_ok s1 -> pfields_ok s2 ->
  enc_snapshot_payload (strip_sig s1) false = Ok p ->
  enc_snapshot_payload (strip_sig s2) false = Ok p ->
  payload_fields s1 = payload_fields s2.
Proof.
  intros s1 s2 p F1 F2 E1 E2.
  apply enc_payload_inv in E1. destruct E1 as [c1 [_ [P1 [L1 _]]]].
  apply enc_payload_inv in E2. destruct E2 as [c2 [_ [P2 [L2 _]]]].
  change (enc_body (strip_sig s1)) with (enc_body s1) in P1.
  change (enc_body (strip_sig s2)) with (enc_body s2) in P2.
  change (s_txs (strip_sig s1)) with (s_txs s1) in L1. change (s_txs (strip_sig s2)) with (s_txs s2) in L2.
  pose proof (parse_body_enc s1 c1 F1 L1) as B1. pose proof (parse_body_enc s2 c2 F2 L2) as B2.
  rewrite <- P1 in B1. rewrite <- P2 in B2. rewrite B1 in B2.
  injection B2 as Ev En Er Erl Et Ets _.
  unfold payload_fields. congruence.
Qed.

(* conversely the payload is a function of these fields alone *)
Lemma versioned_payload_fields : forall s1 s2,
  payload_fields s1 = payload_fields s2 -> versioned_payload s1 = versioned_payload s2.
Proof.
  intros s1 s2 Hf. unfold payload_fields in Hf. injection Hf as Ev En Er Erl Et Ets.
  assert (El : length (s_txs s1) = length (s_txs s2)).
  { rewrite <- (isort_length (s_txs s1)), <- (isort_length (s_txs s2)), Et. reflexivity. }
  unfold versioned_payload, enc_snapshot_payload, enc_body, strip_sig. cbv zeta.
  cbn [s_version s_node s_round s_refs s_txs s_ts s_sig].
  rewrite Ev, En, Er, Erl, Et, Ets, El. reflexivity.
Qed.

Section Hash.
  Variable H : list N -> N.

  Lemma payload_hash_ignores_sig_topo : forall s c c' t t',
    payload_hash_topo H (with_sig s c, t) = payload_hash_topo H (with_sig s c', t').
  Proof. intros. reflexivity. Qed.

  Lemma payload_hash_is_H_of_payload : forall s h, payload_hash H s = Ok h ->
    exists p, enc_snapshot_payload (strip_sig s) false = Ok p /\ h = H p /\ s_version s = snap_version.
  Proof.
    intros s h E. unfold payload_hash, versioned_payload in E.
    destruct (s_version s =? snap_version) eqn:Ev; [|discriminate].
    destruct (enc_snapshot_payload (strip_sig s) false) as [p| |]; cbn [rmap] in E; try discriminate.
    inversion E; subst. exists p. apply N.eqb_eq in Ev. auto.
  Qed.

  Lemma payload_hash_fields : forall s1 s2 h1 h2, pfields_ok s1 -> pfields_ok s2 ->
    payload_hash H s1 = Ok h1 -> payload_hash H s2 = Ok h2 ->
    (payload_fields s1 = payload_fields s2 -> h1 = h2) /\
    ((forall p1 p2, versioned_payload s1 = Ok p1 -> versioned_payload s2 = Ok p2 -> H p1 = H p2 -> p1 = p2) ->
     h1 = h2 -> payload_fields s1 = payload_fields s2).
  Proof.
    intros s1 s2 h1 h2 F1 F2 E1 E2. split.
    - intros Hf. unfold payload_hash in *. rewrite (versioned_payload_fields _ _ Hf) in E1. congruence.
    - intros Hinj Hh.
      destruct (payload_hash_is_H_of_payload _ _ E1) as [p1 [P1 [-> V1]]].
      destruct (payload_hash_is_H_of_payload _ _ E2) as [p2 [P2 [-> V2]]].
      assert (p1 = p2).
      { apply Hinj; try assumption; unfold versioned_payload.
        - rewrite V1, N.eqb_refl. assumption.
        - rewrite V2, N.eqb_refl. assumption. }
      subst p2. exact (payload_injective s1 s2 p1 F1 F2 P1 P2).
  Qed.
End Hash.

Definition with_txs (s : snapshot) (txs : list N) : snapshot :=
  MkSnap (s_version s) (s_node s) (s_round s) (s_refs s) txs (s_ts s) (s_sig s).

(* the payload does not depend on the order in which the transactions are listed *)
Lemma payload_listing_order : forall s txs', NoDup (s_txs s) -> NoDup txs' ->
  (forall y, In y (s_txs s) <-> In y txs') ->
  versioned_payload (with_txs s txs') = versioned_payload s.
Proof.
  intros s txs' N1 N2 Hin. apply versioned_payload_fields. unfold payload_fields, with_txs.
  cbn [s_version s_node s_round s_refs s_txs s_ts].
  rewrite (isort_listing_order txs' (s_txs s) N2 N1); [reflexivity|]. intros y. symmetry. apply Hin.
Qed.

(* the decoder returns a value or an error, never a panic *)
Lemma unmarshal_no_panic : forall b, unmarshal_snapshot b <> Panic.
Proof.
  intros b. unfold unmarshal_snapshot, dec_snapshot_with_topo, rd_then. cbv zeta.
  repeat match goal with
         | |- context [match ?x with _ => _ end] => destruct x
         end; discriminate.
Qed.
