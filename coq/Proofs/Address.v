(* Lemmas about Model/Address.v: an accepted address text prints back
   identically; a printed address parses back to the same keys. *)
From Coq Require Import List ZArith NArith Bool Lia.
Require Import Mixin.Base.Res Mixin.Gen.Consts Mixin.Model.Base58 Mixin.Model.Address Mixin.Proofs.Base58.
Import ListNotations.
Open Scope N_scope.

Lemma bytes_eqb_eq : forall a b, bytes_eqb a b = true <-> a = b.
Proof.
  induction a as [|x a IH]; destruct b as [|y b]; cbn [bytes_eqb]; split; intro H;
    try reflexivity; try discriminate.
  - apply andb_true_iff in H. destruct H as [H1 H2]. apply N.eqb_eq in H1. apply IH in H2. subst. reflexivity.
  - inversion H; subst. rewrite N.eqb_refl. cbn. apply IH. reflexivity.
Qed.

Lemma has_prefix_split : forall p s, has_prefix p s = true -> s = p ++ skipn (length p) s.
Proof.
  induction p as [|x p IH]; intros s H; [reflexivity|].
  destruct s as [|y s]; cbn [has_prefix] in H; [discriminate|].
  apply andb_true_iff in H. destruct H as [H1 H2]. apply N.eqb_eq in H1. subst.
  cbn [length skipn app]. f_equal. apply IH. exact H2.
Qed.

Lemma has_prefix_app : forall p s, has_prefix p (p ++ s) = true.
Proof. induction p as [|x p IH]; intros; cbn [has_prefix app]; [reflexivity|]. rewrite N.eqb_refl. apply IH. Qed.

Lemma skipn_prefix : forall (p s : list N), skipn (length p) (p ++ s) = s.
Proof. induction p; intros; cbn; auto. Qed.

Lemma firstn_plus : forall (a b : nat) (l : list N),
  firstn a l ++ firstn b (skipn a l) = firstn (a + b) l.
Proof.
  induction a as [|a IH]; intros b l; [reflexivity|].
  destruct l as [|x l]; cbn [firstn skipn plus app].
  - rewrite firstn_nil. reflexivity.
  - f_equal. apply IH.
Qed.

Lemma in_firstn : forall (n : nat) (l : list N) x, In x (firstn n l) -> In x l.
Proof.
  induction n as [|n IH]; intros l x Hx; [destruct Hx|].
  destruct l as [|y l]; [destruct Hx|]. cbn [firstn] in Hx. destruct Hx as [Hx|Hx]; [left; exact Hx|right; apply IH; exact Hx].
Qed.

Lemma firstn_exact : forall (l1 l2 : list N) n, length l1 = n -> firstn n (l1 ++ l2) = l1.
Proof.
  induction l1 as [|x l1 IH]; intros l2 n Hn; subst n; cbn [length firstn app]; [reflexivity|].
  f_equal. apply IH. reflexivity.
Qed.

Lemma skipn_exact : forall (l1 l2 : list N) n, length l1 = n -> skipn n (l1 ++ l2) = l2.
Proof.
  induction l1 as [|x l1 IH]; intros l2 n Hn; subst n; cbn [length skipn app]; [reflexivity|].
  apply IH. reflexivity.
Qed.

Lemma sizes : key_size = 32%nat /\ keys_size = 64%nat /\ payload_size = 68%nat /\ checksum_size = 4%nat.
Proof. repeat split; reflexivity. Qed.

Section AddressProofs.
  Variable H : list N -> list N.
  Variable check_key : list N -> bool.

  Opaque key_size keys_size checksum_size payload_size.
  Theorem address_canonical : forall s a, of_string H check_key s = Ok a -> to_string H a = s.
  Proof.
    intros s a Hp. unfold of_string in Hp.
    destruct (has_prefix prefix s) eqn:Epre; cbn [negb] in Hp; [|discriminate].
    set (rest := skipn (length prefix) s) in *.
    set (data := decode rest) in *.
    destruct (Nat.eqb (length data) payload_size) eqn:Elen; cbn [negb] in Hp; [|discriminate].
    destruct (bytes_eqb (firstn checksum_size (H (prefix ++ firstn keys_size data))) (skipn keys_size data)) eqn:Echk;
      cbn [negb] in Hp; [|discriminate].
    destruct (check_key (firstn key_size data)); cbn [negb] in Hp; [|discriminate].
    destruct (check_key (firstn key_size (skipn key_size data))); cbn [negb] in Hp; [|discriminate].
    injection Hp as <-.
    apply bytes_eqb_eq in Echk. apply Nat.eqb_eq in Elen.
    assert (Halpha : over_alphabet rest).
    { apply decode_nonempty_alphabet. fold data. intro E. rewrite E in Elen. discriminate. }
    unfold to_string.
    assert (Hkeys : firstn key_size data ++ firstn key_size (skipn key_size data) = firstn keys_size data)
      by apply firstn_plus.
    rewrite (app_assoc (firstn key_size data) (firstn key_size (skipn key_size data))).
    rewrite !Hkeys. rewrite Echk, firstn_skipn.
    unfold data. rewrite (encode_decode rest Halpha).
    symmetry. apply has_prefix_split. exact Epre.
  Qed.

  Transparent key_size keys_size checksum_size payload_size.

  Hypothesis H_len : forall x, length (H x) = 32%nat.
  Hypothesis H_bytes : forall x, Forall (fun b => b < 256) (H x).

  Theorem address_roundtrip : forall sp vw,
    length sp = 32%nat -> length vw = 32%nat ->
    Forall (fun b => b < 256) sp -> Forall (fun b => b < 256) vw ->
    check_key sp = true -> check_key vw = true ->
    of_string H check_key (to_string H (sp, vw)) = Ok (sp, vw).
  Proof.
    intros sp vw Lsp Lvw Bsp Bvw Csp Cvw.
    unfold to_string, of_string.
    set (chk := H (prefix ++ sp ++ vw)).
    set (payload := sp ++ vw ++ firstn checksum_size chk).
    rewrite has_prefix_app. cbn [negb]. rewrite skipn_prefix.
    assert (Hb : Forall (fun b => b < 256) payload).
    { unfold payload. repeat (apply Forall_app; split); try assumption.
      apply Forall_forall. intros x Hx. apply in_firstn in Hx.
      pose proof (H_bytes (prefix ++ sp ++ vw)) as HB. rewrite Forall_forall in HB. apply HB. exact Hx. }
    rewrite (decode_encode payload Hb).
    assert (Lchk : length (firstn checksum_size chk) = 4%nat).
    { rewrite firstn_length. unfold chk. rewrite H_len. reflexivity. }
    assert (Lp : length payload = 68%nat).
    { unfold payload. rewrite !app_length, Lsp, Lvw, Lchk. reflexivity. }
    rewrite Lp. change (Nat.eqb 68 payload_size) with true. cbn [negb].
    assert (L64 : length (sp ++ vw) = 64%nat) by (rewrite app_length, Lsp, Lvw; reflexivity).
    assert (F64 : firstn keys_size payload = sp ++ vw).
    { unfold payload. rewrite app_assoc. apply firstn_exact. exact L64. }
    assert (S64 : skipn keys_size payload = firstn checksum_size chk).
    { unfold payload. rewrite app_assoc. apply skipn_exact. exact L64. }
    rewrite F64, S64. fold chk.
    rewrite (proj2 (bytes_eqb_eq _ _) eq_refl). cbn [negb].
    assert (F32 : firstn key_size payload = sp).
    { unfold payload. apply firstn_exact. exact Lsp. }
    assert (S32 : firstn key_size (skipn key_size payload) = vw).
    { unfold payload. rewrite (skipn_exact sp _ key_size Lsp). apply firstn_exact. exact Lvw. }
    rewrite F32, S32, Csp, Cvw. reflexivity.
  Qed.
End AddressProofs.

(* two different accepted texts denote different addresses *)
Corollary address_text_injective : forall H ck s t a,
  of_string H ck s = Ok a -> of_string H ck t = Ok a -> s = t.
Proof.
  intros H ck s t a Hs Ht.
  rewrite <- (address_canonical H ck s a Hs), <- (address_canonical H ck t a Ht). reflexivity.
Qed.

(* an accepted address text is ASCII: prefix, then characters of the base58 alphabet *)
Theorem address_accepted_ascii : forall H ck s a,
  of_string H ck s = Ok a ->
  exists body, s = prefix ++ body /\ over_alphabet body /\ Forall (fun c => c < 128) s.
Proof.
  intros H ck s a Hs. pose proof (address_canonical H ck s a Hs) as Hc.
  destruct a as [sp vw]. unfold to_string in Hc.
  eexists. split; [symmetry; exact Hc|]. split; [apply encode_over_alphabet|].
  rewrite <- Hc. apply Forall_app. split.
  - apply Forall_forall. intros c Hin. vm_compute in Hin.
    repeat (destruct Hin as [<-|Hin]; [reflexivity|]). destruct Hin.
  - apply over_alphabet_ascii. apply encode_over_alphabet.
Qed.
