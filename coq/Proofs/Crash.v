(* Lemmas about Model/Crash.v: the store invariant kept by every call sequence a kernel
   can issue, and what restart computes on a store satisfying it. *)
From Coq Require Import List ZArith NArith Bool Lia FinFun.
Require Import Mixin.Base.Res Mixin.Model.Crash.
Import ListNotations.
Open Scope N_scope.

(* ---- small facts ------------------------------------------------------------------ *)
Lemma memN_true : forall x l, memN x l = true <-> In x l.
Proof.
  intros x l. unfold memN. rewrite existsb_exists. split.
  - intros [y [Hin He]]. apply N.eqb_eq in He. subst. exact Hin.
  - intros Hin. exists x. split; [exact Hin | apply N.eqb_refl].
Qed.

Lemma pair_eqb_true : forall a b, pair_eqb a b = true <-> a = b.
Proof.
  intros [a1 a2] [b1 b2]. unfold pair_eqb. cbn [fst snd].
  rewrite andb_true_iff, !N.eqb_eq. split.
  - intros [H1 H2]. subst. reflexivity.
  - intros H. inversion H. auto.
Qed.

Lemma memP_true : forall x l, memP x l = true <-> In x l.
Proof.
  intros x l. unfold memP. rewrite existsb_exists. split.
  - intros [y [Hin He]]. apply pair_eqb_true in He. subst. exact Hin.
  - intros Hin. exists x. split; [exact Hin | apply pair_eqb_true; reflexivity].
Qed.

Lemma memP_cons : forall x y l, memP x l = true -> memP x (y :: l) = true.
Proof. intros x y l H. apply memP_true. right. apply memP_true. exact H. Qed.

Lemma filter_nonempty : forall {A} (f : A -> bool) l x, In x l -> f x = true -> filter f l <> [].
Proof.
  intros A f l x Hin Hf Hn.
  assert (Hx : In x (filter f l)) by (apply filter_In; split; assumption).
  rewrite Hn in Hx. exact Hx.
Qed.

Lemma snaps_of_cons_nonempty : forall tp c r s, snaps_of tp c r <> [] -> snaps_of (s :: tp) c r <> [].
Proof.
  intros tp c r s H. unfold snaps_of in *. cbn [filter].
  destruct ((s_chain s =? c) && (s_round s =? r)); [discriminate | exact H].
Qed.

Lemma find_snap_id : forall id tp s, find_snap id tp = Some s -> s_id s = id /\ In s tp.
Proof.
  intros id tp s H. unfold find_snap in H. apply find_some in H. destruct H as [Hin He].
  apply N.eqb_eq in He. split; assumption.
Qed.

Lemma find_snap_none : forall id tp, find_snap id tp = None -> ~ In id (map s_id tp).
Proof.
  intros id tp H Hin. apply in_map_iff in Hin. destruct Hin as [s [He Hs]].
  unfold find_snap in H. pose proof (find_none _ _ H s Hs) as Hn. cbn in Hn.
  rewrite He, N.eqb_refl in Hn. discriminate.
Qed.

Lemma find_snap_unique : forall tp x, NoDup (map s_id tp) -> In x tp -> find_snap (s_id x) tp = Some x.
Proof.
  induction tp as [|y tp IH]; intros x Hnd Hin; [contradiction|].
  cbn [map] in Hnd. inversion Hnd as [|a l Hnotin Hnd']; subst.
  unfold find_snap. cbn [find]. destruct (s_id y =? s_id x) eqn:He.
  - apply N.eqb_eq in He. destruct Hin as [Hxy | Hin]; [subst; reflexivity|].
    exfalso. apply Hnotin. rewrite He. apply in_map. exact Hin.
  - destruct Hin as [Hxy | Hin]; [subst; rewrite N.eqb_refl in He; discriminate|].
    apply IH; assumption.
Qed.

Lemma find_snap_cons_other : forall id s tp, s_id s <> id -> find_snap id (s :: tp) = find_snap id tp.
Proof.
  intros id s tp H. unfold find_snap. cbn [find].
  destruct (s_id s =? id) eqn:He; [apply N.eqb_eq in He; contradiction | reflexivity].
Qed.

(* ---- finalization records written by one WriteSnapshot ------------------------------ *)
Lemma lookup_cons_other : forall t t' s F, t' <> t -> lookup t ((t', s) :: F) = lookup t F.
Proof.
  intros t t' s F H. cbn [lookup]. destruct (t' =? t) eqn:He; [apply N.eqb_eq in He; contradiction | reflexivity].
Qed.

Lemma finalize_fold : forall s txs F0 O0 F O,
  fold_left (finalize_tx s) txs (F0, O0) = (F, O) ->
  (forall t f, lookup t F0 = Some f -> lookup t F = Some f) /\
  (forall t, In t txs -> lookup t F <> None) /\
  (forall t f, lookup t F = Some f ->
      lookup t F0 = Some f \/ (f = s /\ In t txs /\ memN t O = true)) /\
  (forall t, memN t O0 = true -> memN t O = true).
Proof.
  intros s txs. induction txs as [|a txs IH]; intros F0 O0 F O HF; cbn [fold_left] in HF.
  - inversion HF; subst. repeat split; auto.
  - assert (Hstep : finalize_tx s (F0, O0) a =
        match lookup a F0 with Some _ => (F0, O0) | None => ((a, s) :: F0, a :: O0) end) by reflexivity.
    rewrite Hstep in HF. clear Hstep.
    destruct (lookup a F0) eqn:Ea.
    + destruct (IH _ _ _ _ HF) as [H1 [H2 [H3 H4]]]. repeat split.
      * exact H1.
      * intros t [Ht | Ht]; [subst; rewrite (H1 _ _ Ea); discriminate | apply H2; exact Ht].
      * intros t f Hl. destruct (H3 t f Hl) as [Hl0 | [Hf [Hin Ho]]]; [left; exact Hl0|].
        right. repeat split; auto. right. exact Hin.
      * exact H4.
    + destruct (IH _ _ _ _ HF) as [H1 [H2 [H3 H4]]]. repeat split.
      * intros t f Hl. apply H1. destruct (N.eq_dec a t) as [Hat | Hat].
        -- subst. rewrite Ea in Hl. discriminate.
        -- rewrite lookup_cons_other; assumption.
      * intros t [Ht | Ht].
        -- subst. rewrite (H1 t s); [discriminate|]. cbn [lookup]. rewrite N.eqb_refl. reflexivity.
        -- apply H2. exact Ht.
      * intros t f Hl. destruct (H3 t f Hl) as [Hl0 | [Hf [Hin Ho]]].
        -- destruct (N.eq_dec a t) as [Hat | Hat].
           ++ subst. cbn [lookup] in Hl0. rewrite N.eqb_refl in Hl0. inversion Hl0; subst.
              right. repeat split; [left; reflexivity|].
              apply H4. apply memN_true. left. reflexivity.
           ++ rewrite lookup_cons_other in Hl0 by assumption. left. exact Hl0.
        -- right. repeat split; auto. right. exact Hin.
      * intros t Ht. apply H4. apply memN_true. right. apply memN_true. exact Ht.
Qed.

(* ---- the store invariant ---------------------------------------------------------- *)
Record Inv (st : dstate) : Prop := {
  inv_rounds : forall c h, In (c, h) (heads st) -> forall i, i < h ->
      snaps_of (topo st) c i <> [] /\ memP (c, i) (finals st) = true;
  inv_fins : forall t f, lookup t (fins st) = Some f ->
      memN t (outs st) = true /\ exists fs, find_snap f (topo st) = Some fs /\ memN t (s_txs fs) = true;
  inv_txs : forall s, In s (topo st) -> forall t, In t (s_txs s) ->
      memN t (bodies st) = true /\ lookup t (fins st) <> None;
  inv_ids : NoDup (map s_id (topo st));
  inv_cons : exists lc ms, last_cons (topo st) = Some lc /\ find_snap (marker st) (topo st) = Some ms /\
      length (s_txs lc) = 1%nat /\ (ms = lc \/ (s_ref lc = sole ms /\ sole ms <> sole lc))
}.

Lemma wf_snap_fresh : forall st s, fresh_snap st s = true -> ~ In s (map s_id (topo st)).
Proof.
  intros st s H. unfold fresh_snap in H. destruct (find_snap s (topo st)) eqn:E; [discriminate|].
  apply find_snap_none. exact E.
Qed.

Lemma inv_step : forall st c, Inv st -> wf_call st c = true -> Inv (exec_call st c).
Proof.
  intros st c HI Hwf. destruct HI as [Hr Hf Ht Hid Hc].
  destruct c as [t|t|t|t|t|ch n|ch n|s ch r txs cns ref|s|]; cbn [exec_call];
    try (constructor; assumption).
  - (* CWriteTx *)
    constructor; cbn [topo marker heads finals bodies fins outs]; try assumption.
    intros s Hs t' Ht'. destruct (Ht s Hs t' Ht') as [Hb Hl]. split; [|exact Hl].
    destruct (memN t (bodies st)); [exact Hb|]. apply memN_true. right. apply memN_true. exact Hb.
  - (* CStartRound *)
    cbn [wf_call] in Hwf.
    constructor; cbn [topo marker heads finals bodies fins outs]; try assumption.
    intros c h Hin i Hi. unfold set_head in Hin. destruct Hin as [Heq | Hin].
    + inversion Heq; subst c h. destruct (n =? 0) eqn:En.
      * apply N.eqb_eq in En. lia.
      * apply N.eqb_neq in En. apply andb_true_iff in Hwf. destruct Hwf as [Hh Hne].
        unfold headP in Hh. apply memP_true in Hh.
        destruct (N.eq_dec i (n - 1)) as [Hi1 | Hi1].
        -- subst i. split.
           ++ destruct (snaps_of (topo st) ch (n - 1)); [discriminate | discriminate].
           ++ apply memP_true. left. reflexivity.
        -- assert (Hlt : i < n - 1) by lia. destruct (Hr ch (n - 1) Hh i Hlt) as [Ha Hb].
           split; [exact Ha | apply memP_cons; exact Hb].
    + apply filter_In in Hin. destruct Hin as [Hin _]. destruct (Hr c h Hin i Hi) as [Ha Hb].
      split; [exact Ha|]. destruct (n =? 0); [exact Hb | apply memP_cons; exact Hb].
  - (* CWriteSnap *)
    cbn [wf_call] in Hwf. repeat (apply andb_true_iff in Hwf; destruct Hwf as [Hwf ?]).
    rename H into Hcons, H0 into Hbodies, H1 into Hne, H2 into Hhead. rename Hwf into Hfresh.
    pose proof (wf_snap_fresh _ _ Hfresh) as Hnotin.
    destruct (fold_left (finalize_tx s) txs (fins st, outs st)) as [F O] eqn:EF.
    destruct (finalize_fold _ _ _ _ _ _ EF) as [F1 [F2 [F3 F4]]]. cbn [fst snd].
    set (new := {| s_id := s; s_chain := ch; s_round := r; s_txs := txs; s_cons := cns; s_ref := ref |}).
    assert (Hother : forall f fs, find_snap f (topo st) = Some fs -> find_snap f (new :: topo st) = Some fs).
    { intros f fs Hfs. rewrite find_snap_cons_other; [exact Hfs|]. cbn.
      apply find_snap_id in Hfs. destruct Hfs as [Hidf Hinf]. intros Hs.
      apply Hnotin. rewrite Hs, <- Hidf. apply in_map. exact Hinf. }
    constructor; cbn [topo marker heads finals bodies fins outs].
    + intros c h Hin i Hi. destruct (Hr c h Hin i Hi) as [Ha Hb]. split; [|exact Hb].
      apply snaps_of_cons_nonempty. exact Ha.
    + intros t f Hl. destruct (F3 t f Hl) as [Hl0 | [Hfs [Hin Ho]]].
      * destruct (Hf t f Hl0) as [Ho [fs [Hfs Hm]]]. split; [apply F4; exact Ho|].
        exists fs. split; [apply Hother; exact Hfs | exact Hm].
      * split; [exact Ho|]. exists new. subst f. split.
        -- unfold find_snap. cbn [find]. cbn. rewrite N.eqb_refl. reflexivity.
        -- cbn. apply memN_true. exact Hin.
    + intros s0 [Hs0 | Hs0] t Hin.
      * subst s0. cbn in Hin. split.
        -- rewrite forallb_forall in Hbodies. apply Hbodies. exact Hin.
        -- apply F2. exact Hin.
      * destruct (Ht s0 Hs0 t Hin) as [Hb Hl]. split; [exact Hb|].
        destruct (lookup t (fins st)) eqn:El; [|contradiction].
        rewrite (F1 _ _ El). discriminate.
    + cbn [map]. constructor; assumption.
    + destruct Hc as [lc [ms [Hlc [Hms [Hlen Hrel]]]]].
      pose proof (Hother _ _ Hms) as Hms'.
      destruct cns eqn:Ecns.
      * cbn [negb orb] in Hcons. repeat (apply andb_true_iff in Hcons; destruct Hcons as [Hcons ?]).
        rename H into Hmt, H0 into Hsettled. rename Hcons into Hlen1.
        unfold marker_tx in Hmt. rewrite Hms in Hmt. apply andb_true_iff in Hmt. destruct Hmt as [Hm1 Hm2].
        apply N.eqb_eq in Hm1. apply negb_true_iff in Hm2. apply N.eqb_neq in Hm2.
        exists new, ms. split; [unfold last_cons; cbn [find]; cbn; reflexivity|].
        split; [exact Hms'|]. split.
        -- cbn. apply N.eqb_eq in Hlen1. lia.
        -- right. cbn [s_ref new]. unfold sole at 2. cbn [s_txs new]. split; [symmetry; exact Hm1 | exact Hm2].
      * exists lc, ms. split; [unfold last_cons; cbn [find]; cbn; exact Hlc|].
        split; [exact Hms'|]. split; assumption.
  - (* CMarker *)
    cbn [wf_call] in Hwf.
    destruct Hc as [lc [ms [Hlc [Hms [Hlen Hrel]]]]]. rewrite Hlc in Hwf. apply N.eqb_eq in Hwf. subst s.
    constructor; cbn [topo marker heads finals bodies fins outs]; try assumption.
    exists lc, lc. split; [exact Hlc|]. split.
    + apply find_snap_unique; [exact Hid|]. unfold last_cons in Hlc. apply find_some in Hlc. tauto.
    + split; [exact Hlen | left; reflexivity].
Qed.

Lemma inv_exec : forall l st, Inv st -> wf_calls st l = true -> Inv (exec st l).
Proof.
  induction l as [|c l IH]; intros st HI Hwf; [exact HI|].
  cbn [wf_calls] in Hwf. apply andb_true_iff in Hwf. destruct Hwf as [H1 H2].
  unfold exec. cbn [fold_left]. apply IH; [apply inv_step; assumption | exact H2].
Qed.

Lemma wf_calls_firstn : forall l st k, wf_calls st l = true -> wf_calls st (firstn k l) = true.
Proof.
  induction l as [|c l IH]; intros st k Hwf; [destruct k; reflexivity|].
  destruct k; [reflexivity|]. cbn [firstn wf_calls] in *.
  apply andb_true_iff in Hwf. destruct Hwf as [H1 H2]. rewrite H1. cbn. apply IH. exact H2.
Qed.

Lemma wf_calls_app : forall a b st, wf_calls st (a ++ b) = wf_calls st a && wf_calls (exec st a) b.
Proof.
  induction a as [|c a IH]; intros b st; [reflexivity|].
  cbn [app wf_calls]. rewrite IH. unfold exec. cbn [fold_left]. rewrite andb_assoc. reflexivity.
Qed.

Lemma exec_app : forall a b st, exec st (a ++ b) = exec (exec st a) b.
Proof. intros a b st. unfold exec. apply fold_left_app. Qed.

(* ---- genesis satisfies the invariant ---------------------------------------------- *)
Lemma nseq_in : forall n i, In i (nseq n) <-> i < n.
Proof.
  intros n i. unfold nseq. rewrite in_map_iff. split.
  - intros [k [Hk Hin]]. apply in_seq in Hin. lia.
  - intros H. exists (N.to_nat i). split; [apply N2Nat.id | apply in_seq; lia].
Qed.

Lemma nseq_nodup : forall n, NoDup (nseq n).
Proof.
  intros n. unfold nseq. apply FinFun.Injective_map_NoDup; [|apply seq_NoDup].
  intros a b H. apply Nat2N.inj. exact H.
Qed.

Lemma lookup_diag : forall l t f, lookup t (map (fun i => (i, i)) l) = Some f -> f = t /\ In t l.
Proof.
  induction l as [|a l IH]; intros t f H; [discriminate|].
  cbn [map lookup] in H. destruct (a =? t) eqn:E.
  - apply N.eqb_eq in E. inversion H; subst. split; [reflexivity | left; reflexivity].
  - destruct (IH _ _ H) as [H1 H2]. split; [exact H1 | right; exact H2].
Qed.

Lemma lookup_diag_in : forall l t, In t l -> lookup t (map (fun i => (i, i)) l) = Some t.
Proof.
  induction l as [|a l IH]; intros t H; [contradiction|].
  cbn [map lookup]. destruct (a =? t) eqn:E.
  - apply N.eqb_eq in E. subst. reflexivity.
  - destruct H as [H | H]; [subst; rewrite N.eqb_refl in E; discriminate | apply IH; exact H].
Qed.

Definition cust_snap (n : N) : snap :=
  {| s_id := n; s_chain := 0; s_round := 0; s_txs := [n]; s_cons := true; s_ref := n |}.

Lemma genesis_topo_in : forall n s, In s (topo (genesis n)) <-> s = cust_snap n \/ exists i, i < n /\ s = gen_snap i.
Proof.
  intros n s. cbn [genesis topo]. split.
  - intros [H | H]; [left; symmetry; exact H|]. right. apply (proj2 (in_rev _ _)) in H. apply in_map_iff in H.
    destruct H as [i [Hi Hin]]. exists i. split; [apply nseq_in; exact Hin | symmetry; exact Hi].
  - intros [H | [i [Hi H]]]; [left; symmetry; exact H|]. right. apply (proj1 (in_rev _ _)).
    apply in_map_iff. exists i. split; [symmetry; exact H | apply nseq_in; exact Hi].
Qed.

Lemma genesis_ids : forall n, map s_id (topo (genesis n)) = n :: rev (nseq n).
Proof.
  intros n. cbn [genesis topo map s_id]. f_equal. rewrite map_rev, map_map. f_equal.
  rewrite <- (map_id (nseq n)) at 2. apply map_ext. intros a. reflexivity.
Qed.

Lemma genesis_inv : forall n, Inv (genesis n).
Proof.
  intros n.
  assert (Hnd : NoDup (map s_id (topo (genesis n)))).
  { rewrite genesis_ids. constructor.
    - intros H. apply (proj2 (in_rev _ _)) in H. apply nseq_in in H. lia.
    - apply NoDup_rev. apply nseq_nodup. }
  constructor.
  - intros c h Hin i Hi. cbn [genesis heads] in Hin. apply in_map_iff in Hin.
    destruct Hin as [j [Hj Hjn]]. inversion Hj; subst c h. assert (i = 0) by lia. subst i.
    apply nseq_in in Hjn. split.
    + apply (filter_nonempty _ _ (gen_snap j)).
      * apply genesis_topo_in. right. exists j. split; [exact Hjn | reflexivity].
      * cbn. rewrite N.eqb_refl. reflexivity.
    + cbn [genesis finals]. apply memP_true. apply in_map_iff. exists j. split; [reflexivity | apply nseq_in; exact Hjn].
  - intros t f Hl. cbn [genesis fins] in Hl. apply lookup_diag in Hl. destruct Hl as [Hf Hin]. subst f.
    split; [cbn [genesis outs]; apply memN_true; exact Hin|].
    apply nseq_in in Hin. destruct (N.eq_dec t n) as [Htn | Htn].
    + subst t. exists (cust_snap n). split.
      * change n with (s_id (cust_snap n)) at 1. apply find_snap_unique; [exact Hnd|].
        apply genesis_topo_in. left. reflexivity.
      * cbn. rewrite N.eqb_refl. reflexivity.
    + exists (gen_snap t). split.
      * change t with (s_id (gen_snap t)) at 1. apply find_snap_unique; [exact Hnd|].
        apply genesis_topo_in. right. exists t. split; [lia | reflexivity].
      * cbn. rewrite N.eqb_refl. reflexivity.
  - intros s Hs t Ht. apply genesis_topo_in in Hs.
    assert (Hlt : t < n + 1).
    { destruct Hs as [Hs | [i [Hi Hs]]]; subst s; cbn in Ht; destruct Ht as [Ht | []]; lia. }
    apply nseq_in in Hlt. split.
    + cbn [genesis bodies]. apply memN_true. exact Hlt.
    + cbn [genesis fins]. rewrite (lookup_diag_in _ _ Hlt). discriminate.
  - exact Hnd.
  - exists (cust_snap n), (cust_snap n). cbn [genesis topo marker]. split; [reflexivity|].
    split; [unfold find_snap; cbn [find]; cbn; rewrite N.eqb_refl; reflexivity|].
    split; [reflexivity | left; reflexivity].
Qed.

(* ---- what restart computes on a store satisfying the invariant ---------------------- *)
Lemma sum_res_zero : forall l, (forall r, In r l -> r = Ok 0) -> sum_res l = Ok 0.
Proof.
  induction l as [|r l IH]; intros H; [reflexivity|].
  cbn [sum_res]. rewrite (H r) by (left; reflexivity). cbn [bind].
  rewrite IH by (intros r' Hr'; apply H; right; exact Hr'). reflexivity.
Qed.

Lemma validate_ok : forall st, Inv st -> validate st = Ok 0.
Proof.
  intros st [Hr Hf Ht Hid Hc]. unfold validate. apply sum_res_zero.
  intros r Hin. apply in_map_iff in Hin. destruct Hin as [[c h] [Hr1 Hin]]. subst r.
  unfold validate_chain. cbn [fst snd]. apply sum_res_zero.
  intros r Hin2. apply in_map_iff in Hin2. destruct Hin2 as [i [Hr2 Hi]]. subst r.
  apply nseq_in in Hi. destruct (Hr c h Hin i Hi) as [Hne Hfin].
  unfold validate_round.
  assert (Htx : sum_res (map (validate_tx st) (flat_map s_txs (snaps_of (topo st) c i))) = Ok 0).
  { apply sum_res_zero. intros r Hin3. apply in_map_iff in Hin3. destruct Hin3 as [t [Hr3 Hti]]. subst r.
    apply in_flat_map in Hti. destruct Hti as [s [Hs Hts]]. unfold snaps_of in Hs. apply filter_In in Hs.
    destruct Hs as [Hs _]. destruct (Ht s Hs t Hts) as [Hb Hl]. unfold validate_tx. rewrite Hb. cbn [negb].
    destruct (lookup t (fins st)) as [f|] eqn:El; [|contradiction].
    destruct (Hf t f El) as [_ [fs [Hfs Hm]]]. rewrite Hfs, Hm. reflexivity. }
  rewrite Htx. cbn [bind]. destruct (snaps_of (topo st) c i); [contradiction|]. rewrite Hfin. reflexivity.
Qed.

Lemma all_res_ok : forall l, (forall r, In r l -> r = Ok tt) -> all_res l = Ok tt.
Proof.
  induction l as [|r l IH]; intros H; [reflexivity|].
  cbn [all_res]. rewrite (H r) by (left; reflexivity). cbn [bind]. apply IH. intros r' Hr'. apply H. right. exact Hr'.
Qed.

Lemma load_all_ok : forall st, Inv st -> in_accept_window st = false -> load_all st = Ok tt.
Proof.
  intros st [Hr Hf Ht Hid Hc] Hw. unfold load_all. apply all_res_ok.
  intros r Hin. apply in_map_iff in Hin. destruct Hin as [[c h] [Hr1 Hin]]. subst r.
  unfold load_chain. cbn [fst snd]. unfold in_accept_window in Hw.
  assert (Hh : (h =? 0) = false).
  { destruct (h =? 0) eqn:E; [|reflexivity]. exfalso.
    assert (Hex : existsb (fun p : N * N => snd p =? 0) (heads st) = true).
    { apply existsb_exists. exists (c, h). split; [exact Hin | exact E]. }
    rewrite Hex in Hw. discriminate. }
  rewrite Hh. apply N.eqb_neq in Hh. destruct (Hr c h Hin (h - 1)) as [Hne _]; [lia|].
  destruct (snaps_of (topo st) c (h - 1)); [contradiction | reflexivity].
Qed.

Lemma repair_spec : forall st, Inv st ->
  exists lc, last_cons (topo st) = Some lc /\
    (exists m, repair st = Ok m) /\
    (marker_lost_region st = false -> repair st = Ok (s_id lc)).
Proof.
  intros st [Hr Hf Ht Hid Hc]. destruct Hc as [lc [ms [Hlc [Hms [Hlen Hrel]]]]].
  exists lc. split; [exact Hlc|].
  pose proof Hlc as Hlc'. unfold last_cons in Hlc'. apply find_some in Hlc'. destruct Hlc' as [Hlcin Hlccons].
  pose proof (find_snap_id _ _ _ Hms) as [Hmsid Hmsin].
  unfold repair, marker_lost_region, marker_tx. rewrite Hms, Hlc.
  destruct (topo st) as [|lst tp] eqn:Etp; [contradiction|].
  destruct (s_cons lst) eqn:Econs.
  - (* the last topology entry is the last consensus snapshot *)
    assert (lst = lc). { unfold last_cons in Hlc. cbn [find] in Hlc. rewrite Econs in Hlc. inversion Hlc. reflexivity. }
    subst lst. rewrite Hlen. cbn [andb N.of_nat]. change (Pos.of_succ_nat 0) with 1%positive. cbn [N.eqb Pos.eqb].
    destruct Hrel as [Hml | [Href Hne]].
    + subst ms. rewrite N.eqb_refl. split; [eexists; reflexivity|]. intros _. rewrite Hmsid. reflexivity.
    + assert (E1 : (sole ms =? sole lc) = false) by (apply N.eqb_neq; exact Hne).
      rewrite E1. rewrite Href, N.eqb_refl. split; [eexists; reflexivity | intros _; reflexivity].
  - cbn [andb]. split; [eexists; reflexivity|]. intros Hreg.
    apply andb_false_iff in Hreg. rewrite !negb_false_iff in Hreg.
    destruct Hreg as [Hreg | Hreg].
    + apply N.eqb_eq in Hreg. rewrite Hreg. reflexivity.
    + exfalso. apply N.eqb_eq in Hreg.
      assert (Hl : In lst (lst :: tp)) by (left; reflexivity).
      pose proof (find_snap_unique _ _ Hid Hl) as H1. pose proof (find_snap_unique _ _ Hid Hlcin) as H2.
      rewrite Hreg in H1. rewrite H1 in H2. inversion H2. subst lst. rewrite Hlccons in Econs. discriminate.
Qed.

Lemma complete_ok : forall st, Inv st -> finalized_complete st = true.
Proof.
  intros st [Hr Hf Ht Hid Hc]. unfold finalized_complete. apply forallb_forall. intros s Hs.
  apply forallb_forall. intros t Hts. destruct (Ht s Hs t Hts) as [Hb Hl]. unfold tx_complete.
  destruct (lookup t (fins st)) as [f|] eqn:El; [|contradiction].
  destruct (Hf t f El) as [Ho [fs [Hfs Hm]]]. rewrite Hb, Ho, Hfs, Hm. reflexivity.
Qed.

Lemma recover_spec : forall st, Inv st -> in_accept_window st = false -> recover st = repair st.
Proof.
  intros st HI Hw. unfold recover. rewrite (validate_ok _ HI). cbn [bind]. cbn [N.ltb N.compare].
  rewrite (load_all_ok _ HI Hw). destruct (repair st); reflexivity.
Qed.

Lemma recover_marker : forall st m, Inv st -> recover st = Ok m -> repair st = Ok m.
Proof.
  intros st m HI H. unfold recover in H. rewrite (validate_ok _ HI) in H. cbn [bind] in H. cbn [N.ltb N.compare] in H.
  destruct (repair st) as [m'| |]; cbn [bind] in H; try discriminate.
  destruct (load_all st); cbn [bind] in H; try discriminate. exact H.
Qed.

(* the last consensus snapshot is at or after every consensus snapshot of the topology *)
Lemma last_cons_latest : forall tp c, last_cons tp = Some c ->
  forall c', In c' tp -> s_cons c' = true ->
  exists newer older, tp = newer ++ c :: older /\ (forall x, In x newer -> s_cons x = false) /\ (c' = c \/ In c' older).
Proof.
  induction tp as [|a tp IH]; intros c H c' Hin Hcons; [discriminate|].
  unfold last_cons in H. cbn [find] in H. destruct (s_cons a) eqn:Ea.
  - inversion H; subst a. exists [], tp. split; [reflexivity|]. split; [intros x []|].
    destruct Hin as [Hin | Hin]; [left; symmetry; exact Hin | right; exact Hin].
  - destruct Hin as [Hin | Hin]; [subst c'; rewrite Hcons in Ea; discriminate|].
    destruct (IH c H c' Hin Hcons) as [nw [ol [Htp [Hnw Hor]]]].
    exists (a :: nw), ol. split; [rewrite Htp; reflexivity|]. split; [|exact Hor].
    intros x [Hx | Hx]; [subst x; exact Ea | apply Hnw; exact Hx].
Qed.

(* the accept window (a chain whose head round is 0) is opened only by StartNewRound(_, 0) *)
Lemma window_opened_only_by_round_zero : forall st c,
  in_accept_window st = false -> (forall ch, c <> CStartRound ch 0) -> in_accept_window (exec_call st c) = false.
Proof.
  intros st c Hw Hc. destruct c as [t|t|t|t|t|ch n|ch n|s ch r txs cns ref|s|]; cbn [exec_call]; try exact Hw.
  unfold in_accept_window in *. cbn [heads set_head existsb snd].
  destruct (n =? 0) eqn:En; [apply N.eqb_eq in En; subst n; exfalso; apply (Hc ch); reflexivity|].
  cbn [orb]. destruct (existsb (fun p : N * N => snd p =? 0) (filter (fun p : N * N => negb (fst p =? ch)) (heads st))) eqn:E; [|reflexivity].
  apply existsb_exists in E. destruct E as [p [Hp Hz]]. apply filter_In in Hp. destruct Hp as [Hp _].
  assert (Hex : existsb (fun p : N * N => snd p =? 0) (heads st) = true) by (apply existsb_exists; exists p; split; assumption).
  rewrite Hex in Hw. discriminate.
Qed.

Lemma run_procs_wf : forall ps st, wf_calls st (run_procs st ps) = true.
Proof.
  induction ps as [|p ps IH]; intros st; [reflexivity|].
  cbn [run_procs]. rewrite wf_calls_app. rewrite IH, andb_true_r.
  unfold guarded. destruct (wf_calls st (compile st p)) eqn:E; [exact E | reflexivity].
Qed.

(* ---- assembled statements (used by Props/C21.v and Props/C22.v) ------------------------ *)
Lemma crash_inv : forall n l k, wf_calls (genesis n) l = true -> Inv (crash_state n l k).
Proof.
  intros n l k H. unfold crash_state. apply inv_exec; [apply genesis_inv | apply wf_calls_firstn; exact H].
Qed.

Lemma c21_outside : forall n l k, wf_calls (genesis n) l = true ->
  let st := crash_state n l k in
  exists c, last_cons (topo st) = Some c /\
    (forall c', In c' (topo st) -> s_cons c' = true ->
       exists newer older, topo st = newer ++ c :: older /\
         (forall x, In x newer -> s_cons x = false) /\ (c' = c \/ In c' older)) /\
    (marker_lost_region st = false ->
       repair st = Ok (s_id c) /\
       (forall m, recover st = Ok m -> m = s_id c) /\
       (in_accept_window st = false -> recover st = Ok (s_id c))).
Proof.
  intros n l k Hwf st. pose proof (crash_inv n l k Hwf) as HI. fold st in HI.
  destruct (repair_spec st HI) as [c [Hc [_ Hrep]]]. exists c. split; [exact Hc|]. split.
  - intros c' Hin Hcons. exact (last_cons_latest _ _ Hc c' Hin Hcons).
  - intros Hreg. pose proof (Hrep Hreg) as Hr. split; [exact Hr|]. split.
    + intros m Hm. apply (recover_marker _ _ HI) in Hm. rewrite Hr in Hm. inversion Hm. reflexivity.
    + intros Hw. rewrite (recover_spec _ HI Hw). exact Hr.
Qed.

Lemma c22_prefix_safe : forall n l k, wf_calls (genesis n) l = true ->
  let st := crash_state n l k in
  in_accept_window st = false ->
  validate st = Ok 0 /\ (exists m, recover st = Ok m) /\ finalized_complete st = true /\
  NoDup (map s_id (topo st)).
Proof.
  intros n l k Hwf st Hw. pose proof (crash_inv n l k Hwf) as HI. fold st in HI.
  split; [apply validate_ok; exact HI|]. split.
  - rewrite (recover_spec _ HI Hw). destruct (repair_spec st HI) as [c [_ [Hm _]]]. exact Hm.
  - split; [apply complete_ok; exact HI | apply (inv_ids _ HI)].
Qed.

Lemma c22_procs_safe : forall n ps k,
  let st := crash_state n (run_procs (genesis n) ps) k in
  in_accept_window st = false ->
  validate st = Ok 0 /\ (exists m, recover st = Ok m) /\ finalized_complete st = true /\
  NoDup (map s_id (topo st)).
Proof. intros n ps k. apply c22_prefix_safe. apply run_procs_wf. Qed.

Lemma all_res_panic : forall l, (forall r, In r l -> r = Ok tt \/ r = Panic) -> In Panic l -> all_res l = Panic.
Proof.
  induction l as [|r l IH]; intros Hall Hin; [contradiction|].
  cbn [all_res]. destruct (Hall r (or_introl eq_refl)) as [Hr | Hr]; subst r; cbn [bind]; [|reflexivity].
  apply IH; [intros r' Hr'; apply Hall; right; exact Hr'|].
  destruct Hin as [Hin | Hin]; [discriminate | exact Hin].
Qed.

Lemma c22_window_panics : forall n l k, wf_calls (genesis n) l = true ->
  let st := crash_state n l k in in_accept_window st = true -> recover st = Panic.
Proof.
  intros n l k Hwf st Hw. pose proof (crash_inv n l k Hwf) as HI. fold st in HI.
  unfold recover. rewrite (validate_ok _ HI). cbn [bind]. cbn [N.ltb N.compare].
  destruct (repair_spec st HI) as [c [_ [[m Hm] _]]]. rewrite Hm. cbn [bind].
  assert (Hl : load_all st = Panic).
  { unfold load_all. apply all_res_panic.
    - intros r Hin. apply in_map_iff in Hin. destruct Hin as [[c0 h] [Hr _]]. subst r. unfold load_chain. cbn [fst snd].
      destruct (h =? 0); [right; reflexivity|]. destruct (snaps_of (topo st) c0 (h - 1)); [right | left]; reflexivity.
    - unfold in_accept_window in Hw. apply existsb_exists in Hw. destruct Hw as [[c0 h] [Hin Hz]].
      apply in_map_iff. exists (c0, h). split; [|exact Hin]. unfold load_chain. cbn [fst snd] in *. rewrite Hz. reflexivity. }
  rewrite Hl. reflexivity.
Qed.

(* a finalization record is never rewritten: a later snapshot that contains an already finalized
   transaction leaves its record (the first finalization) and the stored state of that member alone *)
Lemma fins_kept_step : forall st c t f, lookup t (fins st) = Some f -> lookup t (fins (exec_call st c)) = Some f.
Proof.
  intros st c t f H. destruct c as [t0|t0|t0|t0|t0|ch n|ch n|s ch r txs cns ref|s|]; cbn [exec_call fins]; try exact H.
  destruct (fold_left (finalize_tx s) txs (fins st, outs st)) as [F O] eqn:EF.
  destruct (finalize_fold _ _ _ _ _ _ EF) as [F1 _]. cbn [fst]. apply F1. exact H.
Qed.

Lemma fins_kept : forall l st t f, lookup t (fins st) = Some f -> lookup t (fins (exec st l)) = Some f.
Proof.
  induction l as [|c l IH]; intros st t f H; [exact H|].
  unfold exec. cbn [fold_left]. apply IH. apply fins_kept_step. exact H.
Qed.

Lemma second_inclusion_no_change : forall st s ch r txs,
  (forall t, In t txs -> lookup t (fins st) <> None) ->
  fins (exec_call st (CWriteSnap s ch r txs false 0)) = fins st /\
  outs (exec_call st (CWriteSnap s ch r txs false 0)) = outs st.
Proof.
  intros st s ch r txs. cbn [exec_call fins outs].
  generalize (fins st) (outs st). induction txs as [|a txs IH]; intros F O H; [split; reflexivity|].
  cbn [fold_left]. unfold finalize_tx at 2 4. cbn [fst snd].
  destruct (lookup a F) eqn:Ea; [|exfalso; apply (H a (or_introl eq_refl)); exact Ea].
  apply IH. intros t Ht. apply H. right. exact Ht.
Qed.
