(* Lemmas about Model/Nonce.v: single-use discipline of the nonce handle over
   every schedule, key extraction from two answers, retention bindings. *)
From Coq Require Import List ZArith NArith Bool Lia Znumtheory Morphisms Setoid.
Require Import Mixin.Base.Res Mixin.Model.Group Mixin.Model.Nonce Mixin.Proofs.Group.
Import ListNotations.
Open Scope Z_scope.

(* ---- respond over every schedule --------------------------------------------- *)

(* what a call gets once the nonce is bound to (c, s) *)
Definition answer (c s : Z) (q : request) : nres :=
  match q_challenge q with
  | None => NErr
  | Some c' => if c =? c' then NOk s else NReuse
  end.

Definition bound_to (st : nonce_state) (c s : Z) : Prop :=
  n_used st = true /\ n_challenge st = c /\ n_response st = s.

Lemma respond_bound : forall l st c s q, bound_to st c s -> respond l st q = (st, answer c s q).
Proof.
  intros l st c s q (Hu & Hc & Hs). unfold respond, answer.
  destruct (q_challenge q) as [c'|]; [|reflexivity].
  rewrite Hu, Hc, Hs. destruct (c =? c'); reflexivity.
Qed.

Lemma run_bound : forall l st c s qs, bound_to st c s -> run l st qs = (st, map (answer c s) qs).
Proof.
  intros l st c s qs Hb. induction qs as [|q qs IH]; [reflexivity|].
  cbn [run map]. rewrite (respond_bound l st c s q Hb), IH. reflexivity.
Qed.

(* one step: either the state is untouched and nothing was answered, or the
   step answered and the state is now bound to exactly that answer *)
Lemma respond_cases : forall l st q st' r, respond l st q = (st', r) ->
  (st' = st /\ (r = NErr /\ q_challenge q = None \/ r = NPanic \/
                (exists c, q_challenge q = Some c /\ n_used st = true /\ r = answer (n_challenge st) (n_response st) q)))
  \/ (exists c s, q_challenge q = Some c /\ r = NOk s /\ n_used st = false /\ bound_to st' c s
                  /\ exists z, n_random st = Some z /\ s = (c * q_private q + z) mod l).
Proof.
  intros l st q st' r H. unfold respond in H.
  destruct (q_challenge q) as [c|] eqn:Ec.
  - destruct (n_used st) eqn:Eu.
    + left. unfold answer. rewrite Ec.
      destruct (n_challenge st =? c) eqn:E; inversion H; subst;
        (split; [reflexivity|]); right; right; exists c; repeat split; reflexivity.
    + destruct (n_random st) as [z|] eqn:Er.
      * destruct (negb (scalar_ok l (q_private q))); [inversion H; subst; left; split; auto|].
        destruct (negb (scalar_ok l z)); [inversion H; subst; left; split; auto|].
        inversion H; subst. right. exists c, ((c * q_private q + z) mod l).
        repeat split; try reflexivity. exists z; split; reflexivity.
      * inversion H; subst. left; split; auto.
  - inversion H; subst. left. split; [reflexivity|]. left. split; reflexivity.
Qed.

Definition consistent (c s : Z) (q : request) (r : nres) : Prop :=
  match r with
  | NOk s' => q_challenge q = Some c /\ s' = s
  | NReuse => exists c', q_challenge q = Some c' /\ c' <> c
  | NErr => q_challenge q = None
  | NPanic => True
  end.

Lemma answer_consistent : forall c s q, consistent c s q (answer c s q).
Proof.
  intros c s q. unfold answer, consistent.
  destruct (q_challenge q) as [c'|] eqn:E; [|reflexivity].
  destruct (c =? c') eqn:Ec.
  - apply Z.eqb_eq in Ec; subst. split; reflexivity.
  - apply Z.eqb_neq in Ec. exists c'. split; [reflexivity| congruence].
Qed.

Lemma answers_consistent : forall c s qs, Forall2 (consistent c s) qs (map (answer c s) qs).
Proof. intros c s qs. induction qs; cbn [map]; constructor; [apply answer_consistent | assumption]. Qed.

Lemma run_snd_cons : forall l st q qs,
  snd (run l st (q :: qs)) = snd (respond l st q) :: snd (run l (fst (respond l st q)) qs).
Proof.
  intros. cbn [run]. destruct (respond l st q) as [st1 r]. cbn [fst snd].
  destruct (run l st1 qs) as [st2 rs]. reflexivity.
Qed.

(* every schedule: one (challenge, response) pair explains all results *)
Theorem single_challenge : forall l qs st,
  exists c s, Forall2 (consistent c s) qs (snd (run l st qs)).
Proof.
  intros l qs. induction qs as [|q qs IH]; intros st.
  - exists 0, 0. constructor.
  - rewrite run_snd_cons. destruct (respond l st q) as [st1 r] eqn:Er. cbn [fst snd].
    destruct (respond_cases _ _ _ _ _ Er) as [(Hst & Hr) | (c & s & Hq & Hr & Hu & Hb & _)].
    + subst st1. destruct Hr as [(Hr & Hq) | [Hr | (c & Hq & Hu & Hr)]].
      * destruct (IH st) as (c & s & HF). exists c, s. constructor; [|exact HF]. subst r. exact Hq.
      * destruct (IH st) as (c & s & HF). exists c, s. constructor; [|exact HF]. subst r. exact I.
      * assert (Hb : bound_to st (n_challenge st) (n_response st)) by (repeat split; assumption).
        exists (n_challenge st), (n_response st). constructor.
        -- subst r. apply answer_consistent.
        -- rewrite (run_bound l st _ _ qs Hb). cbn [snd]. apply answers_consistent.
    + exists c, s. constructor.
      * subst r. split; [exact Hq | reflexivity].
      * rewrite (run_bound l st1 c s qs Hb). cbn [snd]. apply answers_consistent.
Qed.

Lemma run_app : forall l a st b,
  run l st (a ++ b) =
  (fst (run l (fst (run l st a)) b), snd (run l st a) ++ snd (run l (fst (run l st a)) b)).
Proof.
  intros l a. induction a as [|q a IH]; intros st b.
  - cbn. destruct (run l st b); reflexivity.
  - cbn [app run]. destruct (respond l st q) as [st1 r]. rewrite IH.
    destruct (run l st1 a) as [st2 rs]. cbn [fst snd]. destruct (run l st2 b). reflexivity.
Qed.

Lemma run_length : forall l qs st, length (snd (run l st qs)) = length qs.
Proof.
  intros l qs. induction qs as [|q qs IH]; intros st; [reflexivity|].
  rewrite run_snd_cons. cbn [length]. rewrite IH. reflexivity.
Qed.

(* once a call was answered, every later call gets: the identical response for
   the same challenge, the reuse error for a different one *)
Theorem after_answer : forall l st qs1 q qs2 c s,
  q_challenge q = Some c ->
  nth_error (snd (run l st (qs1 ++ q :: qs2))) (length qs1) = Some (NOk s) ->
  skipn (S (length qs1)) (snd (run l st (qs1 ++ q :: qs2))) = map (answer c s) qs2.
Proof.
  intros l st qs1 q qs2 c s Hq Hn.
  rewrite run_app in *. cbn [snd] in *.
  set (st1 := fst (run l st qs1)) in *.
  assert (Hl : length (snd (run l st qs1)) = length qs1) by apply run_length.
  rewrite nth_error_app2 in Hn by lia.
  replace (length qs1 - length (snd (run l st qs1)))%nat with 0%nat in Hn by lia.
  rewrite run_snd_cons in *.
  destruct (respond l st1 q) as [st2 r] eqn:Er. cbn [fst snd nth_error] in *.
  inversion Hn; subst r.
  assert (Hb : bound_to st2 c s).
  { destruct (respond_cases _ _ _ _ _ Er) as [(Hst & Hr) | (c' & s' & Hq' & Hr & Hu & Hb & _)].
    - subst st2. destruct Hr as [(Hr & _) | [Hr | (c' & Hq' & Hu & Hr)]]; try discriminate.
      rewrite Hq in Hq'. inversion Hq'; subst c'. unfold answer in Hr. rewrite Hq in Hr.
      destruct (n_challenge st1 =? c) eqn:Ec; [|discriminate].
      apply Z.eqb_eq in Ec. inversion Hr. repeat split; assumption.
    - rewrite Hq in Hq'. inversion Hq'; subst c'. inversion Hr; subst s'. exact Hb. }
  replace (S (length qs1)) with (length (snd (run l st qs1)) + 1)%nat by lia.
  rewrite skipn_app. rewrite skipn_all2 by lia.
  replace (length (snd (run l st qs1)) + 1 - length (snd (run l st qs1)))%nat with 1%nat by lia.
  cbn [app skipn]. rewrite (run_bound l st2 c s qs2 Hb). reflexivity.
Qed.

(* ---- why reuse matters --------------------------------------------------------- *)

Theorem extraction : forall l c1 c2, prime l -> (c1 - c2) mod l <> 0 ->
  exists w, ((c1 - c2) * w) mod l = 1 mod l /\
    forall a r s1 s2,
      s1 mod l = (c1 * a + r) mod l -> s2 mod l = (c2 * a + r) mod l ->
      a mod l = ((s1 - s2) * w) mod l.
Proof.
  intros l c1 c2 Hp Hc. destruct (inv_exists l (c1 - c2) Hp Hc) as [w Hw].
  exists w. split; [apply cg_iff; exact Hw|].
  intros a r s1 s2 H1 H2. apply cg_iff. apply cg_iff in H1. apply cg_iff in H2.
  rewrite H1, H2.
  replace ((c1 * a + r - (c2 * a + r)) * w) with (((c1 - c2) * w) * a) by ring.
  rewrite Hw. cg_ring.
Qed.

(* the same through the model: what an unguarded second answer would give away *)
Corollary extraction_respond : forall l z a c1 c2 s1 s2, prime l -> (c1 - c2) mod l <> 0 ->
  snd (respond l (new_nonce z) (mkReq (Some c1) a)) = NOk s1 ->
  snd (respond l (new_nonce z) (mkReq (Some c2) a)) = NOk s2 ->
  exists w, ((c1 - c2) * w) mod l = 1 mod l /\ a mod l = ((s1 - s2) * w) mod l.
Proof.
  intros l z a c1 c2 s1 s2 Hp Hc H1 H2.
  destruct (extraction l c1 c2 Hp Hc) as (w & Hw & Hx). exists w. split; [exact Hw|].
  unfold respond, new_nonce in H1, H2. cbn in H1, H2.
  destruct (negb (scalar_ok l a)); [discriminate|].
  destruct (negb (scalar_ok l z)); [discriminate|].
  cbn in H1, H2. inversion H1; inversion H2; subst.
  apply (Hx a z); apply Zmod_mod.
Qed.

(* ---- retention maps of the kernel ----------------------------------------------- *)

Lemma used_get_in : forall u s c, used_get u s = Some c -> In (s, c) u.
Proof.
  induction u as [|[s' c'] u IH]; intros s c H; cbn [used_get] in H; [discriminate|].
  destruct (s' =? s)%N eqn:E.
  - apply N.eqb_eq in E. inversion H; subst. left; reflexivity.
  - right. apply IH. exact H.
Qed.

Lemma used_del_in : forall u x s c, In (s, c) (used_del u x) -> In (s, c) u.
Proof. intros u x s c H. unfold used_del in H. apply filter_In in H. tauto. Qed.

Lemma used_set_in : forall u snap c0 s c,
  In (s, c) (used_set u snap c0) -> (s, c) = (snap, c0) \/ In (s, c) u.
Proof.
  intros u snap c0 s c H. unfold used_set in H. destruct H as [H|H].
  - left. symmetry. exact H.
  - right. eapply used_del_in. exact H.
Qed.

Lemma pool_has_in : forall p c, pool_has p c = true <-> In c p.
Proof.
  intros p c. unfold pool_has. rewrite existsb_exists. split.
  - intros (x & Hx & E). apply N.eqb_eq in E. subst. exact Hx.
  - intros H. exists c. split; [exact H | apply N.eqb_refl].
Qed.

Lemma pool_del_in : forall p c x, In x (pool_del p c) <-> In x p /\ x <> c.
Proof.
  intros p c x. unfold pool_del. rewrite filter_In, negb_true_iff, N.eqb_neq. tauto.
Qed.

Lemma retain_pool : forall m r snap c, pool (retain m r snap c) = pool r.
Proof.
  intros. unfold retain.
  destruct (Z.of_nat (length _) <=? m); [reflexivity|].
  destruct (match used_get (used r) snap with None => order r ++ [snap] | Some _ => order r end); reflexivity.
Qed.

Lemma retain_used_in : forall m r snap c0 s c,
  In (s, c) (used (retain m r snap c0)) -> (s, c) = (snap, c0) \/ In (s, c) (used r).
Proof.
  intros m r snap c0 s c H. unfold retain in H.
  destruct (Z.of_nat (length _) <=? m).
  - apply used_set_in. exact H.
  - destruct (match used_get (used r) snap with None => order r ++ [snap] | Some _ => order r end) as [|o rest].
    + apply used_set_in. exact H.
    + cbn [used] in H. apply used_del_in in H. apply used_set_in. exact H.
Qed.

Lemma retained_returns : forall m r s c,
  used_get (used r) s = Some c -> retrieve m r s c = (r, Some c).
Proof. intros m r s c H. unfold retrieve. rewrite H, N.eqb_refl. reflexivity. Qed.

(* ghost state: G every commitment generated so far, B every (snapshot,
   commitment) pair handed out so far *)
Record rinv (G : list N) (B : list (N * N)) (r : retention) : Prop := mkRinv {
  inv_pool_G : forall c, In c (pool r) -> In c G;
  inv_pool_fresh : forall c s, In c (pool r) -> ~ In (s, c) B;
  inv_used_B : forall s c, In (s, c) (used r) -> In (s, c) B;
  inv_B_G : forall s c, In (s, c) B -> In c G;
  inv_B_fun : forall s1 s2 c, In (s1, c) B -> In (s2, c) B -> s1 = s2
}.

Lemma rinv_ext : forall G B B' r, (forall x, In x B <-> In x B') -> rinv G B r -> rinv G B' r.
Proof.
  intros G B B' r HE [H1 H2 H3 H4 H5]. constructor; intros.
  - auto.
  - rewrite <- HE. auto.
  - rewrite <- HE. auto.
  - rewrite <- HE in H. eauto.
  - rewrite <- HE in H, H0. eauto.
Qed.

Fixpoint fresh_ok (G : list N) (ops : list rop) : Prop :=
  match ops with
  | [] => True
  | RPrepare cs :: os => Forall (fun c => ~ In c G) cs /\ fresh_ok (cs ++ G) os
  | RRetrieve _ _ :: os => fresh_ok G os
  end.

Fixpoint gen_of (G : list N) (ops : list rop) : list N :=
  match ops with
  | [] => G
  | RPrepare cs :: os => gen_of (cs ++ G) os
  | RRetrieve _ _ :: os => gen_of G os
  end.

Lemma fresh_ok_app : forall a G b, fresh_ok G (a ++ b) <-> fresh_ok G a /\ fresh_ok (gen_of G a) b.
Proof.
  induction a as [|o a IH]; intros G b; cbn [app fresh_ok gen_of]; [tauto|].
  destruct o; rewrite IH; tauto.
Qed.

Lemma retrieve_inv : forall m G B r snap c r' got,
  rinv G B r -> retrieve m r snap c = (r', got) ->
  match got with
  | Some c' => c' = c /\ rinv G ((snap, c) :: B) r'
  | None => r' = r
  end.
Proof.
  intros m G B r snap c r' got HI H.
  assert (Hpool : pool_has (pool r) c = true ->
                  rinv G ((snap, c) :: B)
                    (mkRet (pool_del (pool (retain m r snap c)) c) (used (retain m r snap c)) (order (retain m r snap c)))).
  { intros Hp. apply pool_has_in in Hp. destruct HI as [H1 H2 H3 H4 H5].
    constructor; cbn [pool used]; intros.
    - apply pool_del_in in H0. destruct H0 as [H0 _]. rewrite retain_pool in H0. auto.
    - apply pool_del_in in H0. destruct H0 as [H0 Hne]. rewrite retain_pool in H0.
      intros [E|Hin]; [inversion E; congruence | exact (H2 _ _ H0 Hin)].
    - apply retain_used_in in H0. destruct H0 as [E|Hin]; [left; symmetry; exact E | right; auto].
    - destruct H0 as [E|Hin]; [inversion E; subst; auto | eauto].
    - destruct H0 as [E|Hin]; destruct H6 as [E'|Hin'].
      + inversion E; inversion E'; subst; reflexivity.
      + inversion E; subst. exfalso. exact (H2 _ _ Hp Hin').
      + inversion E'; subst. exfalso. exact (H2 _ _ Hp Hin).
      + eauto. }
  unfold retrieve in H.
  destruct (used_get (used r) snap) as [c'|] eqn:Eg.
  - destruct (c' =? c)%N eqn:Ec.
    + apply N.eqb_eq in Ec. subst c'. inversion H; subst. split; [reflexivity|].
      apply used_get_in in Eg. pose proof (inv_used_B _ _ _ HI _ _ Eg) as HB.
      apply (rinv_ext G B); [|exact HI]. intros x; split; [right; assumption|].
      intros [E|Hx]; [subst; exact HB | exact Hx].
    + destruct (pool_has (pool r) c) eqn:Ep; inversion H; subst; [split; [reflexivity| auto] | reflexivity].
  - destruct (pool_has (pool r) c) eqn:Ep; inversion H; subst; [split; [reflexivity| auto] | reflexivity].
Qed.

Lemma prepare_inv : forall G B r cs,
  rinv G B r -> Forall (fun c => ~ In c G) cs -> rinv (cs ++ G) B (prepare r cs).
Proof.
  intros G B r cs [H1 H2 H3 H4 H5] HF. rewrite Forall_forall in HF.
  constructor; cbn [prepare pool used]; intros.
  - apply in_app_iff in H. apply in_app_iff. destruct H; [left; assumption | right; auto].
  - apply in_app_iff in H. destruct H as [H|H]; [|auto].
    intros HB. apply (HF _ H). eauto.
  - auto.
  - apply in_app_iff. right. eauto.
  - eauto.
Qed.

Lemma rrun_cons : forall m r o os,
  rrun m r (o :: os) =
  (fst (rrun m (fst (rstep m r o)) os),
   match snd (rstep m r o) with Some x => x :: snd (rrun m (fst (rstep m r o)) os)
                              | None => snd (rrun m (fst (rstep m r o)) os) end).
Proof.
  intros. cbn [rrun]. destruct (rstep m r o) as [r1 h]. cbn [fst snd].
  destruct (rrun m r1 os) as [r2 hs]. reflexivity.
Qed.

Lemma rrun_inv : forall m ops G B r,
  rinv G B r -> fresh_ok G ops ->
  rinv (gen_of G ops) (snd (rrun m r ops) ++ B) (fst (rrun m r ops)).
Proof.
  intros m ops. induction ops as [|o os IH]; intros G B r HI HF.
  - exact HI.
  - rewrite rrun_cons. cbn [fst snd]. destruct o as [cs | snap c]; cbn [fresh_ok gen_of] in *.
    + destruct HF as [HF1 HF2]. cbn [rstep fst snd]. apply IH; [apply prepare_inv; assumption | assumption].
    + cbn [rstep]. destruct (retrieve m r snap c) as [r1 got] eqn:Er. cbn [fst snd].
      pose proof (retrieve_inv _ _ _ _ _ _ _ _ HI Er) as HR.
      destruct got as [c'|].
      * destruct HR as [E HI']. subst c'.
        pose proof (IH G ((snap, c) :: B) r1 HI' HF) as HI2.
        refine (rinv_ext _ _ _ _ _ HI2).
        intros x. cbn [app]. rewrite !in_app_iff. cbn [In]. rewrite in_app_iff. tauto.
      * subst r1. apply IH; assumption.
Qed.

Lemma empty_inv : rinv [] [] empty_retention.
Proof. constructor; cbn; intros; tauto. Qed.

(* a commitment is handed out for at most one snapshot hash, over every run *)
Theorem retention_binding : forall m ops, fresh_ok [] ops ->
  forall s1 s2 c, In (s1, c) (snd (rrun m empty_retention ops)) ->
                  In (s2, c) (snd (rrun m empty_retention ops)) -> s1 = s2.
Proof.
  intros m ops HF s1 s2 c H1 H2.
  pose proof (rrun_inv m ops [] [] empty_retention empty_inv HF) as HI.
  apply (inv_B_fun _ _ _ HI s1 s2 c); apply in_app_iff; left; assumption.
Qed.

(* dead: generated earlier, neither in the pool nor bound to any snapshot *)
Definition dead (G : list N) (r : retention) (c : N) : Prop :=
  In c G /\ ~ In c (pool r) /\ forall s, ~ In (s, c) (used r).

Lemma dead_step : forall m G r c o,
  dead G r c ->
  match o with RPrepare cs => Forall (fun x => ~ In x G) cs | _ => True end ->
  dead (match o with RPrepare cs => cs ++ G | _ => G end) (fst (rstep m r o)) c
  /\ forall s, snd (rstep m r o) <> Some (s, c).
Proof.
  intros m G r c o (HG & HP & HU) HF. destruct o as [cs | snap c0]; cbn [rstep fst snd].
  - split; [|intros; discriminate]. rewrite Forall_forall in HF. repeat split.
    + apply in_app_iff; right; exact HG.
    + cbn [prepare pool]. rewrite in_app_iff. intros [H|H]; [exact (HF _ H HG) | exact (HP H)].
    + exact HU.
  - destruct (retrieve m r snap c0) as [r1 got] eqn:Er. cbn [fst snd]. unfold retrieve in Er.
    assert (Hpoolcase : pool_has (pool r) c0 = true ->
       dead G (mkRet (pool_del (pool (retain m r snap c0)) c0) (used (retain m r snap c0)) (order (retain m r snap c0))) c
       /\ forall s, Some (snap, c0) <> Some (s, c)).
    { intros Hp. apply pool_has_in in Hp. assert (Hne : c0 <> c) by (intro; subst; exact (HP Hp)).
      split; [|intros s E; inversion E; congruence]. repeat split; cbn [pool used].
      - exact HG.
      - rewrite pool_del_in, retain_pool. tauto.
      - intros s H. apply retain_used_in in H. destruct H as [E|H]; [inversion E; congruence | exact (HU _ H)]. }
    destruct (used_get (used r) snap) as [c'|] eqn:Eg.
    + destruct (c' =? c0)%N eqn:Ec.
      * apply N.eqb_eq in Ec. subst c'. inversion Er; subst. split; [repeat split; assumption|].
        intros s E. inversion E; subst. apply used_get_in in Eg. exact (HU _ Eg).
      * destruct (pool_has (pool r) c0) eqn:Ep; inversion Er; subst;
          [auto | split; [repeat split; assumption | intros; discriminate]].
    + destruct (pool_has (pool r) c0) eqn:Ep; inversion Er; subst;
        [auto | split; [repeat split; assumption | intros; discriminate]].
Qed.

Theorem dead_forever : forall m ops G r c,
  dead G r c -> fresh_ok G ops -> forall s, ~ In (s, c) (snd (rrun m r ops)).
Proof.
  intros m ops. induction ops as [|o os IH]; intros G r c HD HF s; [cbn; tauto|].
  rewrite rrun_cons. cbn [snd].
  destruct o as [cs | snap c0]; cbn [fresh_ok] in HF.
  - destruct HF as [HF1 HF2]. destruct (dead_step m G r c (RPrepare cs) HD HF1) as [HD' Hh].
    cbn [rstep fst snd] in *. apply (IH _ _ _ HD' HF2).
  - destruct (dead_step m G r c (RRetrieve snap c0) HD I) as [HD' Hh].
    destruct (snd (rstep m r (RRetrieve snap c0))) as [[s' c']|] eqn:E.
    + intros [H|H]; [inversion H; subst; exact (Hh s eq_refl) | exact (IH _ _ _ HD' HF s H)].
    + apply (IH _ _ _ HD' HF).
Qed.

(* a commitment that was handed out and is no longer retained is unobtainable *)
Theorem unobtainable_after_eviction : forall m ops1 ops2, fresh_ok [] (ops1 ++ ops2) ->
  forall s c, In (s, c) (snd (rrun m empty_retention ops1)) ->
  (forall s', ~ In (s', c) (used (fst (rrun m empty_retention ops1)))) ->
  forall s2, ~ In (s2, c) (snd (rrun m (fst (rrun m empty_retention ops1)) ops2)).
Proof.
  intros m ops1 ops2 HF s c Hh Hu.
  apply fresh_ok_app in HF. destruct HF as [HF1 HF2].
  pose proof (rrun_inv m ops1 [] [] empty_retention empty_inv HF1) as HI.
  rewrite app_nil_r in HI.
  apply (dead_forever m ops2 (gen_of [] ops1)); [|exact HF2].
  repeat split.
  - exact (inv_B_G _ _ _ HI _ _ Hh).
  - intros Hp. exact (inv_pool_fresh _ _ _ HI _ s Hp Hh).
  - exact Hu.
Qed.
