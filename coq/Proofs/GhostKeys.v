(* Lemmas about association lists and the output key bindings (Model/GhostKeys.v). *)
From Coq Require Import List ZArith NArith Bool Lia.
Require Import Mixin.Base.Res Mixin.Gen.Consts Mixin.Model.GhostKeys.
Import ListNotations.
Open Scope N_scope.

(* ---- association lists ---------------------------------------------------- *)
Section AssocFacts.
  Context {K V : Type} (eqb : K -> K -> bool).
  Hypothesis eqb_eq : forall a b, eqb a b = true <-> a = b.

  Lemma eqb_refl' : forall a, eqb a a = true.
  Proof. intro a. apply eqb_eq. reflexivity. Qed.

  Lemma eqb_neq : forall a b, a <> b -> eqb a b = false.
  Proof.
    intros a b Hab. destruct (eqb a b) eqn:E; [|reflexivity].
    apply eqb_eq in E. contradiction.
  Qed.

  Lemma afind_aset_same : forall k v (m : list (K * V)), afind eqb k (aset eqb k v m) = Some v.
  Proof.
    intros k v m. induction m as [|[k' v'] m IH]; cbn.
    - rewrite eqb_refl'. reflexivity.
    - destruct (eqb k k') eqn:E; cbn; rewrite E; [reflexivity|exact IH].
  Qed.

  Lemma afind_aset_other : forall k k0 v (m : list (K * V)),
    k0 <> k -> afind eqb k0 (aset eqb k v m) = afind eqb k0 m.
  Proof.
    intros k k0 v m Hne. induction m as [|[k' v'] m IH]; cbn.
    - rewrite (eqb_neq k0 k Hne). reflexivity.
    - destruct (eqb k k') eqn:E; cbn.
      + apply eqb_eq in E. subst k'. rewrite (eqb_neq k0 k Hne). reflexivity.
      + destruct (eqb k0 k'); [reflexivity|exact IH].
  Qed.

  Lemma aset_id : forall k v (m : list (K * V)), afind eqb k m = Some v -> aset eqb k v m = m.
  Proof.
    intros k v m. induction m as [|[k' v'] m IH]; cbn; intro H.
    - discriminate.
    - destruct (eqb k k') eqn:E.
      + injection H as ->. reflexivity.
      + rewrite (IH H). reflexivity.
  Qed.

  Lemma afind_adel_same : forall k (m : list (K * V)), afind eqb k (adel eqb k m) = None.
  Proof.
    intros k m. induction m as [|[k' v'] m IH]; cbn; [reflexivity|].
    destruct (eqb k k') eqn:E; cbn; [exact IH|rewrite E; exact IH].
  Qed.

  Lemma afind_adel_other : forall k k0 (m : list (K * V)),
    k0 <> k -> afind eqb k0 (adel eqb k m) = afind eqb k0 m.
  Proof.
    intros k k0 m Hne. induction m as [|[k' v'] m IH]; cbn; [reflexivity|].
    destruct (eqb k k') eqn:E; cbn.
    - apply eqb_eq in E. subst k'. rewrite (eqb_neq k0 k Hne). exact IH.
    - destruct (eqb k0 k'); [reflexivity|exact IH].
  Qed.

  (* a deleted key stays absent whatever is deleted next; absent keys stay absent *)
  Lemma afind_adel_none : forall k k0 (m : list (K * V)),
    afind eqb k0 m = None -> afind eqb k0 (adel eqb k m) = None.
  Proof.
    intros k k0 m. induction m as [|[k' v'] m IH]; cbn; [reflexivity|].
    destruct (eqb k0 k') eqn:E0; [discriminate|]. intro H.
    destruct (eqb k k'); cbn; [exact (IH H)|rewrite E0; exact (IH H)].
  Qed.

  Lemma afind_none_notin : forall k (m : list (K * V)),
    afind eqb k m = None <-> ~ In k (map fst m).
  Proof.
    intros k m. induction m as [|[k' v'] m IH]; cbn.
    - split; [intros _ []|reflexivity].
    - destruct (eqb k k') eqn:E.
      + apply eqb_eq in E. subst k'. split; [discriminate|]. intro H. exfalso. apply H. left. reflexivity.
      + rewrite IH. split.
        * intros H [H1|H1]; [subst k'; rewrite eqb_refl' in E; discriminate|exact (H H1)].
        * intros H H1. apply H. right. exact H1.
  Qed.

  Lemma afind_some_in : forall k v (m : list (K * V)), afind eqb k m = Some v -> In (k, v) m.
  Proof.
    intros k v m. induction m as [|[k' v'] m IH]; cbn; [discriminate|].
    destruct (eqb k k') eqn:E.
    - apply eqb_eq in E. subst k'. intro H. injection H as ->. left. reflexivity.
    - intro H. right. exact (IH H).
  Qed.

  Lemma in_nodup_afind : forall k v (m : list (K * V)),
    NoDup (map fst m) -> In (k, v) m -> afind eqb k m = Some v.
  Proof.
    intros k v m. induction m as [|[k' v'] m IH]; cbn; [intros _ []|].
    intros Hnd [H|H].
    - injection H as -> ->. rewrite eqb_refl'. reflexivity.
    - inversion Hnd as [|x l Hni Hnd']; subst.
      destruct (eqb k k') eqn:E.
      + apply eqb_eq in E. subst k'. exfalso. apply Hni.
        change k with (fst (k, v)). apply in_map. exact H.
      + exact (IH Hnd' H).
  Qed.

  (* at most one record per key *)
  Lemma nodup_functional : forall k v1 v2 (m : list (K * V)),
    NoDup (map fst m) -> In (k, v1) m -> In (k, v2) m -> v1 = v2.
  Proof.
    intros k v1 v2 m Hnd H1 H2.
    pose proof (in_nodup_afind k v1 m Hnd H1) as E1.
    pose proof (in_nodup_afind k v2 m Hnd H2) as E2.
    rewrite E1 in E2. injection E2 as ->. reflexivity.
  Qed.

  Lemma keys_aset : forall k v (m : list (K * V)),
    map fst (aset eqb k v m) = map fst m \/
    (afind eqb k m = None /\ map fst (aset eqb k v m) = map fst m ++ [k]).
  Proof.
    intros k v m. induction m as [|[k' v'] m IH]; cbn.
    - right. split; reflexivity.
    - destruct (eqb k k') eqn:E; cbn.
      + left. reflexivity.
      + destruct IH as [IH|[IH1 IH2]].
        * left. rewrite IH. reflexivity.
        * right. split; [exact IH1|rewrite IH2; reflexivity].
  Qed.

  Lemma nodup_aset : forall k v (m : list (K * V)),
    NoDup (map fst m) -> NoDup (map fst (aset eqb k v m)).
  Proof.
    intros k v m Hnd. destruct (keys_aset k v m) as [E|[Hn E]]; rewrite E; [exact Hnd|].
    apply afind_none_notin in Hn.
    apply NoDup_rev in Hnd. rewrite <- (rev_involutive (map fst m ++ [k])).
    apply NoDup_rev. rewrite rev_app_distr. cbn. constructor; [|exact Hnd].
    intro H. apply Hn. apply in_rev. exact H.
  Qed.

  Lemma in_adel : forall k x (m : list (K * V)), In x (adel eqb k m) -> In x m.
  Proof.
    intros k x m. induction m as [|[k' v'] m IH]; cbn; [intros []|].
    destruct (eqb k k'); cbn.
    - intro H. right. exact (IH H).
    - intros [H|H]; [left; exact H|right; exact (IH H)].
  Qed.

  Lemma nodup_adel : forall k (m : list (K * V)),
    NoDup (map fst m) -> NoDup (map fst (adel eqb k m)).
  Proof.
    intros k m. induction m as [|[k' v'] m IH]; cbn; [intros _; constructor|].
    intro Hnd. inversion Hnd as [|x l Hni Hnd']; subst.
    destruct (eqb k k'); cbn; [exact (IH Hnd')|].
    constructor; [|exact (IH Hnd')].
    intro H. apply Hni. apply in_map_iff in H. destruct H as [[a b] [Hab Hin]].
    cbn in Hab. subst a. apply in_adel in Hin.
    change k' with (fst (k', b)). apply in_map. exact Hin.
  Qed.

  Lemma in_aset : forall k v x (m : list (K * V)),
    In x (aset eqb k v m) -> In x m \/ snd x = v.
  Proof.
    intros k v x m. induction m as [|[k' v'] m IH]; cbn.
    - intros [H|[]]. right. subst x. reflexivity.
    - destruct (eqb k k'); cbn.
      + intros [H|H]; [right; subst x; reflexivity|left; right; exact H].
      + intros [H|H]; [left; left; exact H|].
        destruct (IH H) as [H1|H1]; [left; right; exact H1|right; exact H1].
  Qed.
End AssocFacts.

Lemma memN_in : forall x l, memN x l = true <-> In x l.
Proof.
  intros x l. induction l as [|y l IH]; cbn.
  - split; [discriminate|intros []].
  - rewrite orb_true_iff, IH, N.eqb_eq. split; intros [H|H]; auto.
Qed.

Lemma memN_false : forall x l, memN x l = false <-> ~ In x l.
Proof.
  intros x l. rewrite <- memN_in. destruct (memN x l); split; intro H; try discriminate; try reflexivity.
  exfalso. apply H. reflexivity.
Qed.

(* ---- lockGhostKey --------------------------------------------------------- *)
Global Arguments is_exception : simpl never.
Definition bound (g : ghosts) (k t : N) : Prop := afind N.eqb k g = Some t.

Lemma lock_ghost_key_mono : forall g k tx f g',
  lock_ghost_key g k tx f = Ok g' ->
  forall k0 t, bound g k0 t -> bound g' k0 t.
Proof.
  unfold lock_ghost_key, bound. intros g k tx f g' H k0 t Hb.
  destruct (afind N.eqb k g) as [b|] eqn:E.
  - destruct (b =? 0); [discriminate|].
    destruct (f && is_exception tx); [injection H as <-; exact Hb|].
    destruct (b =? tx); [injection H as <-; exact Hb|discriminate].
  - injection H as <-.
    destruct (N.eq_dec k0 k) as [->|Hne]; [rewrite E in Hb; discriminate|].
    rewrite (afind_aset_other N.eqb N.eqb_eq); assumption.
Qed.

Lemma lock_ghost_key_not_panic : forall g k tx f, lock_ghost_key g k tx f <> Panic.
Proof.
  unfold lock_ghost_key. intros g k tx f.
  destruct (afind N.eqb k g) as [b|]; [|discriminate].
  destruct (b =? 0); [discriminate|].
  destruct (f && is_exception tx); [discriminate|].
  destruct (b =? tx); discriminate.
Qed.

(* a key bound to another transaction is refused, unless the caller is one of
   the exceptions and fork is set *)
Lemma lock_ghost_key_foreign : forall g k tx f t,
  bound g k t -> t <> tx -> f && is_exception tx = false ->
  lock_ghost_key g k tx f = Err.
Proof.
  unfold lock_ghost_key, bound. intros g k tx f t Hb Hne Hex. rewrite Hb.
  destruct (t =? 0); [reflexivity|]. rewrite Hex.
  destruct (t =? tx) eqn:E; [apply N.eqb_eq in E; contradiction|reflexivity].
Qed.

Lemma lock_ghost_key_exception : forall g k tx t,
  bound g k t -> t <> 0 -> is_exception tx = true -> lock_ghost_key g k tx true = Ok g.
Proof.
  unfold lock_ghost_key, bound. intros g k tx t Hb Hz Hex. rewrite Hb.
  destruct (t =? 0) eqn:E; [apply N.eqb_eq in E; contradiction|].
  rewrite Hex. reflexivity.
Qed.

Lemma lock_ghost_key_nodup : forall g k tx f g',
  lock_ghost_key g k tx f = Ok g' -> NoDup (map fst g) -> NoDup (map fst g').
Proof.
  unfold lock_ghost_key. intros g k tx f g' H Hnd.
  destruct (afind N.eqb k g) as [b|].
  - destruct (b =? 0); [discriminate|].
    destruct (f && is_exception tx); [injection H as <-; exact Hnd|].
    destruct (b =? tx); [injection H as <-; exact Hnd|discriminate].
  - injection H as <-. apply nodup_aset; [exact N.eqb_eq|exact Hnd].
Qed.

(* a successful lock leaves the key bound (to the caller unless excepted) *)
Lemma lock_ghost_key_binds : forall g k tx f g',
  lock_ghost_key g k tx f = Ok g' ->
  bound g' k tx \/ (f = true /\ is_exception tx = true /\ exists t, bound g k t /\ bound g' k t).
Proof.
  unfold lock_ghost_key, bound. intros g k tx f g' H.
  destruct (afind N.eqb k g) as [b|] eqn:E.
  - destruct (b =? 0); [discriminate|].
    destruct (f && is_exception tx) eqn:Ex.
    + injection H as <-. right. apply andb_true_iff in Ex. destruct Ex as [-> ->].
      split; [reflexivity|split; [reflexivity|]]. exists b. split; first [reflexivity|exact E].
    + destruct (b =? tx) eqn:Eb; [|discriminate]. injection H as <-.
      apply N.eqb_eq in Eb. subst b. left. first [reflexivity|exact E].
  - injection H as <-. left. apply afind_aset_same. exact N.eqb_eq.
Qed.

(* ---- LockGhostKeys -------------------------------------------------------- *)
Lemma lock_ghost_keys_from_mono : forall ks seen g tx f g',
  lock_ghost_keys_from seen g ks tx f = Ok g' ->
  forall k0 t, bound g k0 t -> bound g' k0 t.
Proof.
  induction ks as [|k ks IH]; cbn; intros seen g tx f g' H k0 t Hb.
  - injection H as <-. exact Hb.
  - destruct (memN k seen); [discriminate|].
    destruct (lock_ghost_key g k tx f) as [g1| |] eqn:E; cbn in H; try discriminate.
    eapply IH; [exact H|]. eapply lock_ghost_key_mono; eassumption.
Qed.

Lemma lock_ghost_keys_from_nodup : forall ks seen g tx f g',
  lock_ghost_keys_from seen g ks tx f = Ok g' -> NoDup (map fst g) -> NoDup (map fst g').
Proof.
  induction ks as [|k ks IH]; cbn; intros seen g tx f g' H Hnd.
  - injection H as <-. exact Hnd.
  - destruct (memN k seen); [discriminate|].
    destruct (lock_ghost_key g k tx f) as [g1| |] eqn:E; cbn in H; try discriminate.
    eapply IH; [exact H|]. eapply lock_ghost_key_nodup; eassumption.
Qed.

Lemma lock_ghost_keys_from_not_panic : forall ks seen g tx f,
  lock_ghost_keys_from seen g ks tx f <> Panic.
Proof.
  induction ks as [|k ks IH]; cbn; intros seen g tx f; [discriminate|].
  destruct (memN k seen); [discriminate|].
  destruct (lock_ghost_key g k tx f) as [g1| |] eqn:E; cbn.
  - apply IH.
  - discriminate.
  - exfalso. exact (lock_ghost_key_not_panic _ _ _ _ E).
Qed.

Lemma lock_ghost_keys_from_foreign : forall ks seen g tx f k t,
  In k ks -> bound g k t -> t <> tx -> f && is_exception tx = false ->
  lock_ghost_keys_from seen g ks tx f = Err.
Proof.
  induction ks as [|k0 ks IH]; cbn; intros seen g tx f k t Hin Hb Hne Hex; [contradiction|].
  destruct (memN k0 seen); [reflexivity|].
  destruct (lock_ghost_key g k0 tx f) as [g1| |] eqn:E; cbn.
  - destruct Hin as [->|Hin].
    + rewrite (lock_ghost_key_foreign g k tx f t Hb Hne Hex) in E. discriminate.
    + eapply IH; [exact Hin| |exact Hne|exact Hex].
      eapply lock_ghost_key_mono; eassumption.
  - reflexivity.
  - exfalso. exact (lock_ghost_key_not_panic _ _ _ _ E).
Qed.

Lemma not_nodup_cons : forall (k : N) ks, ~ NoDup (k :: ks) -> In k ks \/ ~ NoDup ks.
Proof.
  intros k ks H. destruct (in_dec N.eq_dec k ks) as [Hi|Hi]; [left; exact Hi|].
  right. intro Hnd. apply H. constructor; assumption.
Qed.

Lemma lock_ghost_keys_from_dup : forall ks seen g tx f,
  (~ NoDup ks \/ exists k, In k ks /\ In k seen) ->
  lock_ghost_keys_from seen g ks tx f = Err.
Proof.
  induction ks as [|k ks IH]; cbn; intros seen g tx f H.
  - destruct H as [H|[k [[] _]]]. exfalso. apply H. constructor.
  - destruct (memN k seen) eqn:Em; [reflexivity|].
    apply memN_false in Em.
    destruct (lock_ghost_key g k tx f) as [g1| |] eqn:E; cbn.
    + apply IH. destruct H as [H|[k0 [[->|Hin] Hs]]].
      * destruct (not_nodup_cons _ _ H) as [Hi|Hn]; [|left; exact Hn].
        right. exists k. split; [exact Hi|left; reflexivity].
      * contradiction.
      * right. exists k0. split; [exact Hin|right; exact Hs].
    + reflexivity.
    + exfalso. exact (lock_ghost_key_not_panic _ _ _ _ E).
Qed.

Lemma lock_ghost_keys_from_exception : forall ks seen g tx,
  is_exception tx = true -> NoDup ks -> (forall k, In k ks -> ~ In k seen) ->
  (forall k, In k ks -> exists t, bound g k t /\ t <> 0) ->
  lock_ghost_keys_from seen g ks tx true = Ok g.
Proof.
  induction ks as [|k ks IH]; cbn; intros seen g tx Hex Hnd Hs Hb; [reflexivity|].
  inversion Hnd as [|x l Hni Hnd']; subst.
  assert (Em : memN k seen = false) by (apply memN_false; apply Hs; left; reflexivity).
  rewrite Em. destruct (Hb k (or_introl eq_refl)) as [t [Ht Hz]].
  rewrite (lock_ghost_key_exception g k tx t Ht Hz Hex). cbn.
  apply IH; [exact Hex|exact Hnd'| |].
  - intros k0 Hin [->|H]; [contradiction|]. exact (Hs k0 (or_intror Hin) H).
  - intros k0 Hin. apply Hb. right. exact Hin.
Qed.

(* ---- writeUTXO re-lock ---------------------------------------------------- *)
Lemma relock_keys_mono : forall ks g tx g',
  relock_keys g ks tx = Ok g' -> forall k0 t, bound g k0 t -> bound g' k0 t.
Proof.
  induction ks as [|k ks IH]; cbn; intros g tx g' H k0 t Hb.
  - injection H as <-. exact Hb.
  - destruct (lock_ghost_key g k tx true) as [g1| |] eqn:E; cbn in H; try discriminate.
    eapply IH; [exact H|]. eapply lock_ghost_key_mono; eassumption.
Qed.

Lemma relock_keys_nodup : forall ks g tx g',
  relock_keys g ks tx = Ok g' -> NoDup (map fst g) -> NoDup (map fst g').
Proof.
  induction ks as [|k ks IH]; cbn; intros g tx g' H Hnd.
  - injection H as <-. exact Hnd.
  - destruct (lock_ghost_key g k tx true) as [g1| |] eqn:E; cbn in H; try discriminate.
    eapply IH; [exact H|]. eapply lock_ghost_key_nodup; eassumption.
Qed.

Lemma relock_keys_not_panic : forall ks g tx, relock_keys g ks tx <> Panic.
Proof.
  induction ks as [|k ks IH]; cbn; intros g tx; [discriminate|].
  destruct (lock_ghost_key g k tx true) as [g1| |] eqn:E; cbn.
  - apply IH.
  - discriminate.
  - exfalso. exact (lock_ghost_key_not_panic _ _ _ _ E).
Qed.

Lemma relock_keys_foreign : forall ks g tx k t,
  In k ks -> bound g k t -> t <> tx -> is_exception tx = false ->
  relock_keys g ks tx = Err.
Proof.
  induction ks as [|k0 ks IH]; cbn; intros g tx k t Hin Hb Hne Hex; [contradiction|].
  destruct (lock_ghost_key g k0 tx true) as [g1| |] eqn:E; cbn.
  - destruct Hin as [->|Hin].
    + rewrite (lock_ghost_key_foreign g k tx true t Hb Hne) in E; [discriminate|].
      rewrite Hex. reflexivity.
    + eapply IH; [exact Hin| |exact Hne|exact Hex].
      eapply lock_ghost_key_mono; eassumption.
  - reflexivity.
  - exfalso. exact (lock_ghost_key_not_panic _ _ _ _ E).
Qed.

(* ---- validateOutputs filter ----------------------------------------------- *)
Lemma vo_keys_from_dup : forall ks seen,
  (~ NoDup ks \/ exists k, In k ks /\ In k seen) -> vo_keys_from seen ks = Err.
Proof.
  induction ks as [|k ks IH]; cbn; intros seen H.
  - destruct H as [H|[k [[] _]]]. exfalso. apply H. constructor.
  - destruct (memN k seen) eqn:Em; [reflexivity|].
    apply memN_false in Em.
    rewrite IH; [reflexivity|].
    destruct H as [H|[k0 [[->|Hin] Hs]]].
    + destruct (not_nodup_cons _ _ H) as [Hi|Hn]; [|left; exact Hn].
      right. exists k. split; [exact Hi|left; reflexivity].
    + contradiction.
    + right. exists k0. split; [exact Hin|right; exact Hs].
Qed.

Lemma vo_keys_from_nodup : forall ks seen,
  NoDup ks -> (forall k, In k ks -> ~ In k seen) -> vo_keys_from seen ks = Ok ks.
Proof.
  induction ks as [|k ks IH]; cbn; intros seen Hnd Hs; [reflexivity|].
  inversion Hnd as [|x l Hni Hnd']; subst.
  assert (Em : memN k seen = false) by (apply memN_false; apply Hs; left; reflexivity).
  rewrite Em, IH; [reflexivity|exact Hnd'|].
  intros k0 Hin [->|H]; [contradiction|]. exact (Hs k0 (or_intror Hin) H).
Qed.
