(* Lemmas about the slot-lock state machine (Model/Locks.v). *)
From Coq Require Import List ZArith NArith Bool Lia DecimalN.
Require Import Mixin.Base.Res Mixin.Gen.Consts Mixin.Model.GhostKeys Mixin.Model.Locks
               Mixin.Proofs.GhostKeys.
Import ListNotations.
Open Scope N_scope.

(* ---- key equalities ------------------------------------------------------- *)
Lemma slot_eqb_eq : forall a b, slot_eqb a b = true <-> a = b.
Proof.
  intros [a1 a2] [b1 b2]. unfold slot_eqb. cbn. rewrite andb_true_iff, !N.eqb_eq.
  split; [intros [-> ->]; reflexivity|intro H; injection H as -> ->; auto].
Qed.

Lemma bytes_eqb_eq : forall a b, bytes_eqb a b = true <-> a = b.
Proof.
  induction a as [|x a IH]; destruct b as [|y b]; cbn.
  - split; reflexivity.
  - split; discriminate.
  - split; discriminate.
  - rewrite andb_true_iff, N.eqb_eq, IH.
    split; [intros [-> ->]; reflexivity|intro H; injection H as -> ->; auto].
Qed.

Lemma with_utxo_id : forall s, with_utxo s (s_utxo s) = s.
Proof. intros []. reflexivity. Qed.

(* ---- well-formed states: one record per key; every output slot belongs to a
   finalized transaction ---------------------------------------------------- *)
Definition wf (s : state) : Prop :=
  NoDup (map fst (s_utxo s)) /\ NoDup (map fst (s_dep s)) /\ NoDup (map fst (s_mint s)) /\
  NoDup (map fst (s_body s)) /\ NoDup (map fst (s_ghost s)) /\
  (forall sl, utxo_lock s sl <> None -> is_final s (fst sl) = true).

Lemma wf_init : wf init.
Proof.
  unfold wf, init, utxo_lock; cbn. repeat split; try constructor.
  intros sl H. contradiction.
Qed.

(* ---- the primitive steps, case by case ------------------------------------ *)
Lemma prune_ok : forall s t s', prune s t = Ok s' ->
  is_final s t = false /\ s' = with_body s (adel N.eqb t (s_body s)).
Proof.
  unfold prune. intros s t s' H. destruct (is_final s t); [discriminate|].
  injection H as <-. split; reflexivity.
Qed.

Lemma prune_not_panic : forall s t, prune s t <> Panic.
Proof. unfold prune. intros s t. destruct (is_final s t); discriminate. Qed.

Definition taken_from (s : state) (l : N) : state := with_body s (adel N.eqb l (s_body s)).

Lemma lock_utxo_ok : forall s sl tx f s', lock_utxo s sl tx f = Ok s' ->
  exists l, utxo_lock s sl = Some l /\
    (((l = 0 \/ l = tx) /\ s' = with_utxo s (aset slot_eqb sl tx (s_utxo s)))
     \/ (l <> 0 /\ l <> tx /\ f = true /\ is_final s l = false /\
         s' = with_utxo (taken_from s l) (aset slot_eqb sl tx (s_utxo s)))).
Proof.
  unfold lock_utxo. intros s sl tx f s' H.
  destruct (max_utxo_index <? snd sl); [discriminate|].
  destruct (utxo_lock s sl) as [l|] eqn:E; [|discriminate].
  exists l. split; [reflexivity|].
  destruct (l =? 0) eqn:E0; cbn in H.
  - injection H as <-. left. apply N.eqb_eq in E0. auto.
  - destruct (l =? tx) eqn:E1; cbn in H.
    + injection H as <-. left. apply N.eqb_eq in E1. auto.
    + destruct f; [|discriminate].
      destruct (prune s l) as [s1| |] eqn:Ep; cbn in H; try discriminate.
      apply prune_ok in Ep. destruct Ep as [Hf ->]. injection H as <-.
      right. apply N.eqb_neq in E0. apply N.eqb_neq in E1. repeat split; auto.
Qed.

Lemma lock_deposit_ok : forall s d tx f s', lock_deposit s d tx f = Ok s' ->
  (dep_lock s d = None /\ s' = with_dep s (aset bytes_eqb (dep_key d) tx (s_dep s)))
  \/ (dep_lock s d = Some tx /\ s' = s)
  \/ (exists l, dep_lock s d = Some l /\ l <> tx /\ f = true /\ is_final s l = false /\
        s' = with_dep (taken_from s l) (aset bytes_eqb (dep_key d) tx (s_dep s))).
Proof.
  unfold lock_deposit. intros s d tx f s' H.
  destruct (dep_lock s d) as [l|] eqn:E.
  - destruct (l =? tx) eqn:E1.
    + injection H as <-. apply N.eqb_eq in E1. subst l. right. left. auto.
    + destruct f; [|discriminate].
      destruct (prune s l) as [s1| |] eqn:Ep; cbn in H; try discriminate.
      apply prune_ok in Ep. destruct Ep as [Hf ->]. injection H as <-.
      right. right. exists l. apply N.eqb_neq in E1. repeat split; auto.
  - injection H as <-. left. auto.
Qed.

Lemma lock_mint_ok : forall s b a tx f s', lock_mint s b a tx f = Ok s' ->
  (mint_lock s b = None /\ s' = with_mint s (aset N.eqb b (tx, a) (s_mint s)))
  \/ (mint_lock s b = Some (tx, a) /\ s' = s)
  \/ (exists l a0, mint_lock s b = Some (l, a0) /\ (l <> tx \/ a0 <> a) /\ f = true /\
        is_final s l = false /\
        s' = with_mint (taken_from s l) (aset N.eqb b (tx, a) (s_mint s))).
Proof.
  unfold lock_mint. intros s b a tx f s' H.
  destruct (mint_lock s b) as [[l a0]|] eqn:E.
  - destruct ((l =? tx) && (a0 =? a)%Z) eqn:E1.
    + injection H as <-. apply andb_true_iff in E1. destruct E1 as [E1 E2].
      apply N.eqb_eq in E1. apply Z.eqb_eq in E2. subst. right. left. auto.
    + destruct f; [|discriminate].
      destruct (prune s l) as [s1| |] eqn:Ep; cbn in H; try discriminate.
      apply prune_ok in Ep. destruct Ep as [Hf ->]. injection H as <-.
      right. right. exists l, a0. repeat split; auto.
      apply andb_false_iff in E1. destruct E1 as [E1|E1].
      * left. apply N.eqb_neq. exact E1.
      * right. apply Z.eqb_neq. exact E1.
  - injection H as <-. left. auto.
Qed.

(* ---- wf is preserved ------------------------------------------------------- *)
Lemma wf_taken_from : forall s l, wf s -> wf (taken_from s l).
Proof.
  unfold wf, taken_from. intros s l (Hu & Hd & Hm & Hb & Hg & Hf). cbn.
  repeat split; auto. apply nodup_adel. exact Hb.
Qed.

Lemma utxo_lock_set : forall s sl tx sl0,
  utxo_lock (with_utxo s (aset slot_eqb sl tx (s_utxo s))) sl0 =
  if slot_eqb sl0 sl then Some tx else utxo_lock s sl0.
Proof.
  intros s sl tx sl0. unfold utxo_lock. cbn [s_utxo with_utxo].
  destruct (slot_eqb sl0 sl) eqn:E.
  - apply slot_eqb_eq in E. subst. apply afind_aset_same. exact slot_eqb_eq.
  - apply afind_aset_other; [exact slot_eqb_eq|].
    intro H. subst. rewrite (proj2 (slot_eqb_eq sl sl) eq_refl) in E. discriminate.
Qed.

Lemma wf_set_utxo : forall s sl tx,
  wf s -> is_final s (fst sl) = true -> wf (with_utxo s (aset slot_eqb sl tx (s_utxo s))).
Proof.
  intros s sl tx Hw Hfin. pose proof Hw as (Hu & Hd & Hm & Hb & Hg & Hf).
  unfold wf. cbn [s_utxo s_dep s_mint s_body s_ghost with_utxo].
  repeat split; auto.
  - apply nodup_aset; [exact slot_eqb_eq|exact Hu].
  - intros sl0 H. rewrite utxo_lock_set in H.
    change (is_final (with_utxo s (aset slot_eqb sl tx (s_utxo s))) (fst sl0)) with (is_final s (fst sl0)).
    destruct (slot_eqb sl0 sl) eqn:E.
    + apply slot_eqb_eq in E. subst. exact Hfin.
    + apply Hf. exact H.
Qed.

Lemma wf_lock_utxo : forall s sl tx f s', wf s -> lock_utxo s sl tx f = Ok s' -> wf s'.
Proof.
  intros s sl tx f s' Hw H. apply lock_utxo_ok in H. destruct H as [l [El H]].
  assert (Hfin : is_final s (fst sl) = true).
  { destruct Hw as (_ & _ & _ & _ & _ & Hf). apply Hf. rewrite El. discriminate. }
  destruct H as [[_ ->]|(_ & _ & _ & _ & ->)].
  - apply wf_set_utxo; assumption.
  - apply (wf_set_utxo (taken_from s l) sl tx); [apply wf_taken_from; exact Hw|exact Hfin].
Qed.

Lemma wf_lock_utxos : forall ins s tx f s', wf s -> lock_utxos s ins tx f = Ok s' -> wf s'.
Proof.
  induction ins as [|sl ins IH]; cbn; intros s tx f s' Hw H.
  - injection H as <-. exact Hw.
  - destruct (lock_utxo s sl tx f) as [s1| |] eqn:E; cbn in H; try discriminate.
    eapply IH; [|exact H]. eapply wf_lock_utxo; eassumption.
Qed.

Lemma wf_set_dep : forall s k tx, wf s -> wf (with_dep s (aset bytes_eqb k tx (s_dep s))).
Proof.
  unfold wf. intros s k tx (Hu & Hd & Hm & Hb & Hg & Hf). cbn. repeat split; auto.
  apply nodup_aset; [exact bytes_eqb_eq|exact Hd].
Qed.

Lemma wf_set_mint : forall s k v, wf s -> wf (with_mint s (aset N.eqb k v (s_mint s))).
Proof.
  unfold wf. intros s k v (Hu & Hd & Hm & Hb & Hg & Hf). cbn. repeat split; auto.
  apply nodup_aset; [exact N.eqb_eq|exact Hm].
Qed.

Lemma wf_lock_deposit : forall s d tx f s', wf s -> lock_deposit s d tx f = Ok s' -> wf s'.
Proof.
  intros s d tx f s' Hw H. apply lock_deposit_ok in H.
  destruct H as [[_ ->]|[[_ ->]|[l (_ & _ & _ & _ & ->)]]].
  - apply wf_set_dep. exact Hw.
  - exact Hw.
  - apply (wf_set_dep (taken_from s l)). apply wf_taken_from. exact Hw.
Qed.

Lemma wf_lock_mint : forall s b a tx f s', wf s -> lock_mint s b a tx f = Ok s' -> wf s'.
Proof.
  intros s b a tx f s' Hw H. apply lock_mint_ok in H.
  destruct H as [[_ ->]|[[_ ->]|[l [a0 (_ & _ & _ & _ & ->)]]]].
  - apply wf_set_mint. exact Hw.
  - exact Hw.
  - apply (wf_set_mint (taken_from s l)). apply wf_taken_from. exact Hw.
Qed.

Lemma wf_lock_inputs : forall s t f s', wf s -> lock_inputs s t f = Ok s' -> wf s'.
Proof.
  unfold lock_inputs. intros s t f s' Hw H. destruct (t_ins t).
  - eapply wf_lock_utxos; eassumption.
  - eapply wf_lock_deposit; eassumption.
  - eapply wf_lock_mint; eassumption.
  - eapply wf_lock_utxos; eassumption.
Qed.

Lemma wf_with_ghost : forall s g, wf s -> NoDup (map fst g) -> wf (with_ghost s g).
Proof. unfold wf. intros s g (Hu & Hd & Hm & Hb & Hg & Hf) Hn. cbn. repeat split; auto. Qed.

Lemma wf_write_tx : forall s t s', wf s -> write_tx s t = Ok s' -> wf s'.
Proof.
  unfold write_tx. intros s t s' Hw H.
  destruct (if debug_asserts then inputs_locked s t else Ok tt); cbn in H; try discriminate.
  destruct (has_body s (t_hash t)); [injection H as <-; exact Hw|].
  assert (Hset : wf (with_body s (aset N.eqb (t_hash t) t (s_body s)))).
  { destruct Hw as (Hu & Hd & Hm & Hb & Hg & Hf). unfold wf. cbn. repeat split; auto.
    apply nodup_aset; [exact N.eqb_eq|exact Hb]. }
  destruct (t_ins t) as [[|sl l]| | |]; try discriminate; injection H as <-; exact Hset.
Qed.

Lemma is_final_add : forall s t x,
  is_final (with_final s (t :: s_final s)) x = (x =? t) || is_final s x.
Proof. reflexivity. Qed.

Lemma wf_write_utxos : forall outs s t i s',
  wf s -> is_final s t = true -> write_utxos s t i outs = Ok s' -> wf s'.
Proof.
  induction outs as [|ks outs IH]; cbn; intros s t i s' Hw Hfin H.
  - injection H as <-. exact Hw.
  - destruct (relock_keys (s_ghost s) ks t) as [g| |] eqn:E; cbn in H; try discriminate.
    destruct (max_utxo_index <? i); [discriminate|].
    eapply IH; [| |exact H].
    + apply (wf_set_utxo (with_ghost s g) (t, i) 0).
      * apply wf_with_ghost; [exact Hw|].
        eapply relock_keys_nodup; [exact E|]. destruct Hw as (_ & _ & _ & _ & Hg & _). exact Hg.
      * exact Hfin.
    + exact Hfin.
Qed.

Lemma wf_finalize_one : forall s t s', wf s -> finalize_one s t = Ok s' -> wf s'.
Proof.
  unfold finalize_one. intros s t s' Hw H.
  destruct (body_of s t) as [b|]; [|discriminate].
  destruct (is_final s t) eqn:Ef; [injection H as <-; exact Hw|].
  eapply wf_write_utxos; [| |exact H].
  - destruct Hw as (Hu & Hd & Hm & Hb & Hg & Hf). unfold wf. cbn [s_utxo s_dep s_mint s_body s_ghost with_final].
    repeat split; auto. intros sl Hs.
    change (utxo_lock (with_final s (t :: s_final s)) sl) with (utxo_lock s sl) in Hs.
    rewrite is_final_add. rewrite (Hf sl Hs). apply orb_true_r.
  - rewrite is_final_add, N.eqb_refl. reflexivity.
Qed.

Lemma wf_exec : forall s o s', wf s -> exec s o = Ok s' -> wf s'.
Proof.
  intros s o s' Hw H. destruct o; cbn in H.
  - eapply wf_lock_utxos; eassumption.
  - eapply wf_lock_deposit; eassumption.
  - eapply wf_lock_mint; eassumption.
  - eapply wf_lock_inputs; eassumption.
  - destruct (lock_ghost_keys (s_ghost s) ks tx fork) as [g| |] eqn:E; cbn in H; try discriminate.
    injection H as <-. apply wf_with_ghost; [exact Hw|].
    unfold lock_ghost_keys in E. eapply lock_ghost_keys_from_nodup; [exact E|].
    destruct Hw as (_ & _ & _ & _ & Hg & _). exact Hg.
  - eapply wf_write_tx; eassumption.
  - unfold finalize in H. destruct (debug_asserts && negb (has_body s t)); [discriminate|].
    eapply wf_finalize_one; eassumption.
Qed.

Lemma step_fst : forall s o, fst (step s o) = match exec s o with Ok s' => s' | _ => s end.
Proof. intros s o. unfold step. destruct (exec s o); reflexivity. Qed.

Lemma wf_step : forall s o, wf s -> wf (fst (step s o)).
Proof.
  intros s o Hw. rewrite step_fst. destruct (exec s o) eqn:E; [|exact Hw|exact Hw].
  eapply wf_exec; eassumption.
Qed.

Lemma wf_run : forall os s, wf s -> wf (run s os).
Proof.
  induction os as [|o os IH]; cbn; intros s Hw; [exact Hw|].
  apply IH. apply wf_step. exact Hw.
Qed.

Lemma run_app : forall os1 os2 s, run s (os1 ++ os2) = run (run s os1) os2.
Proof. intros. unfold run. apply fold_left_app. Qed.

(* an update that fails commits nothing *)
Lemma step_all_or_nothing : forall s o, snd (step s o) <> Ok tt -> fst (step s o) = s.
Proof.
  intros s o. unfold step. destruct (exec s o); cbn; [intro H; contradiction H; reflexivity|reflexivity|reflexivity].
Qed.

(* ---- ordinary admission against a held slot -------------------------------- *)
Lemma lock_utxo_other : forall s sl tx s' sl0,
  lock_utxo s sl tx false = Ok s' -> utxo_lock s' sl0 = if slot_eqb sl0 sl then Some tx else utxo_lock s sl0.
Proof.
  intros s sl tx s' sl0 H. apply lock_utxo_ok in H. destruct H as [l [El [[_ ->]|(_ & _ & Hf & _)]]].
  - apply utxo_lock_set.
  - discriminate.
Qed.

Lemma lock_utxos_conflict : forall ins s tx sl l s',
  In sl ins -> utxo_lock s sl = Some l -> l <> 0 -> l <> tx ->
  lock_utxos s ins tx false <> Ok s'.
Proof.
  induction ins as [|a ins IH]; cbn; intros s tx sl l s' Hin El H0 Hne; [contradiction|].
  destruct (lock_utxo s a tx false) as [s1| |] eqn:E; cbn; try discriminate.
  pose proof (lock_utxo_other _ _ _ _ sl E) as Ho.
  destruct (slot_eqb sl a) eqn:Ea.
  - apply slot_eqb_eq in Ea. subst a.
    apply lock_utxo_ok in E. destruct E as [l' [El' [[[Hz|Ht] _]|(_ & _ & Hf & _)]]].
    + rewrite El in El'. injection El' as <-. contradiction.
    + rewrite El in El'. injection El' as <-. contradiction.
    + discriminate.
  - destruct Hin as [->|Hin].
    + rewrite (proj2 (slot_eqb_eq sl sl) eq_refl) in Ea. discriminate.
    + apply (IH s1 tx sl l s' Hin); [rewrite Ho; exact El|exact H0|exact Hne].
Qed.

Lemma lock_deposit_conflict : forall s d tx l,
  dep_lock s d = Some l -> l <> tx -> lock_deposit s d tx false = Err.
Proof.
  unfold lock_deposit. intros s d tx l El Hne. rewrite El.
  destruct (l =? tx) eqn:E; [apply N.eqb_eq in E; contradiction|reflexivity].
Qed.

Lemma lock_mint_conflict : forall s b a tx l a0,
  mint_lock s b = Some (l, a0) -> (l <> tx \/ a0 <> a) -> lock_mint s b a tx false = Err.
Proof.
  unfold lock_mint. intros s b a tx l a0 El Hne. rewrite El.
  destruct ((l =? tx) && (a0 =? a)%Z) eqn:E; [|reflexivity].
  apply andb_true_iff in E. destruct E as [E1 E2]. apply N.eqb_eq in E1. apply Z.eqb_eq in E2.
  destruct Hne; contradiction.
Qed.

(* ---- the holder locking again ---------------------------------------------- *)
Lemma lock_utxos_relock : forall ins s tx f,
  (forall sl, In sl ins -> utxo_lock s sl = Some tx /\ snd sl <= max_utxo_index) ->
  lock_utxos s ins tx f = Ok s.
Proof.
  induction ins as [|a ins IH]; cbn; intros s tx f H; [reflexivity|].
  destruct (H a (or_introl eq_refl)) as [El Hi].
  assert (E : lock_utxo s a tx f = Ok s).
  { unfold lock_utxo. destruct (max_utxo_index <? snd a) eqn:Em; [apply N.ltb_lt in Em; lia|].
    rewrite El. rewrite N.eqb_refl. rewrite andb_false_r.
    unfold utxo_lock in El. rewrite (aset_id slot_eqb a tx _ El). rewrite with_utxo_id. reflexivity. }
  rewrite E. cbn. apply IH. intros sl Hin. apply H. right. exact Hin.
Qed.

Lemma lock_deposit_relock : forall s d tx f, dep_lock s d = Some tx -> lock_deposit s d tx f = Ok s.
Proof. unfold lock_deposit. intros s d tx f El. rewrite El, N.eqb_refl. reflexivity. Qed.

Lemma lock_mint_relock : forall s b a tx f, mint_lock s b = Some (tx, a) -> lock_mint s b a tx f = Ok s.
Proof. unfold lock_mint. intros s b a tx f El. rewrite El, N.eqb_refl, Z.eqb_refl. reflexivity. Qed.

(* ---- what a step may do to a holder ----------------------------------------
   [stable h s s']: every slot held by h in s is still held by h in s', and h
   stays finalized if it was.  [undone h s s']: the body of h is absent in s'. *)
Definition holds (s : state) (h : N) (s' : state) : Prop :=
  (forall sl, utxo_lock s sl = Some h -> utxo_lock s' sl = Some h) /\
  (forall d, dep_lock s d = Some h -> dep_lock s' d = Some h) /\
  (forall b a, mint_lock s b = Some (h, a) -> mint_lock s' b = Some (h, a)).

(* outcome of one successful call for a transaction h <> 0: either it keeps all
   its slots, or the call is a fork call, h is not finalized and its body is gone *)
Definition outcome (fork : bool) (s : state) (h : N) (s' : state) : Prop :=
  s_final s' = s_final s /\
  (forall t, has_body s t = false -> has_body s' t = false) /\
  (holds s h s' \/ (fork = true /\ is_final s h = false /\ has_body s' h = false)).

Lemma has_body_taken : forall s l t, has_body s t = false -> has_body (taken_from s l) t = false.
Proof.
  unfold has_body, body_of, taken_from. cbn. intros s l t H.
  destruct (afind N.eqb t (s_body s)) eqn:E; [discriminate|].
  rewrite (afind_adel_none N.eqb l t _ E). reflexivity.
Qed.

Lemma has_body_taken_self : forall s l, has_body (taken_from s l) l = false.
Proof.
  unfold has_body, body_of, taken_from. cbn. intros s l.
  rewrite (afind_adel_same N.eqb l). reflexivity.
Qed.

Lemma utxo_lock_set_taken : forall s l sl tx sl0,
  utxo_lock (with_utxo (taken_from s l) (aset slot_eqb sl tx (s_utxo s))) sl0 =
  if slot_eqb sl0 sl then Some tx else utxo_lock s sl0.
Proof. intros. exact (utxo_lock_set (taken_from s l) sl tx sl0). Qed.

Lemma outcome_refl : forall f s h, outcome f s h s.
Proof.
  intros. unfold outcome. split; [reflexivity|]. split; [auto|]. left. unfold holds. repeat split; auto.
Qed.

Lemma outcome_trans : forall f s1 s2 s3 h,
  outcome f s1 h s2 -> outcome f s2 h s3 -> outcome f s1 h s3.
Proof.
  unfold outcome. intros f s1 s2 s3 h (F1 & B1 & H1) (F2 & B2 & H2).
  split; [congruence|]. split; [auto|].
  destruct H1 as [K1|(Hf & Hn & Hb)].
  - destruct H2 as [K2|(Hf & Hn & Hb)].
    + left. destruct K1 as (U1 & D1 & M1). destruct K2 as (U2 & D2 & M2).
      repeat split; auto.
    + right. split; [exact Hf|]. split; [|exact Hb].
      unfold is_final in *. rewrite <- F1. exact Hn.
  - right. split; [exact Hf|]. split; [exact Hn|]. apply B2. exact Hb.
Qed.

Lemma outcome_lock_utxo : forall s sl tx f s' h,
  h <> 0 -> lock_utxo s sl tx f = Ok s' -> outcome f s h s'.
Proof.
  intros s sl tx f s' h Hh H. apply lock_utxo_ok in H.
  destruct H as [l [El [[Hl ->]|(Hz & Hne & -> & Hfin & ->)]]].
  - unfold outcome. split; [reflexivity|]. split; [auto|]. left. unfold holds.
    split; [|split; auto]. intros sl0 H0. rewrite utxo_lock_set.
    destruct (slot_eqb sl0 sl) eqn:E; [|exact H0].
    apply slot_eqb_eq in E. subst sl0. rewrite El in H0. injection H0 as ->.
    destruct Hl as [Hl|Hl]; [contradiction|subst; reflexivity].
  - unfold outcome. split; [reflexivity|]. split.
    { intros t Ht. exact (has_body_taken s l t Ht). }
    destruct (N.eq_dec h l) as [->|Hhl].
    + right. split; [reflexivity|]. split; [exact Hfin|]. apply has_body_taken_self.
    + left. unfold holds. split; [|split; auto].
      intros sl0 H0. rewrite utxo_lock_set_taken.
      destruct (slot_eqb sl0 sl) eqn:E; [|exact H0].
      apply slot_eqb_eq in E. subst sl0. rewrite El in H0. injection H0 as ->. contradiction.
Qed.

Lemma outcome_lock_utxos : forall ins s tx f s' h,
  h <> 0 -> lock_utxos s ins tx f = Ok s' -> outcome f s h s'.
Proof.
  induction ins as [|a ins IH]; cbn; intros s tx f s' h Hh H.
  - injection H as <-. apply outcome_refl.
  - destruct (lock_utxo s a tx f) as [s1| |] eqn:E; cbn in H; try discriminate.
    eapply outcome_trans; [eapply outcome_lock_utxo; eassumption|eapply IH; eassumption].
Qed.

Lemma dep_lock_set : forall s d tx d0,
  dep_lock (with_dep s (aset bytes_eqb (dep_key d) tx (s_dep s))) d0 =
  if bytes_eqb (dep_key d0) (dep_key d) then Some tx else dep_lock s d0.
Proof.
  intros s d tx d0. unfold dep_lock. cbn [s_dep with_dep].
  destruct (bytes_eqb (dep_key d0) (dep_key d)) eqn:E.
  - apply bytes_eqb_eq in E. rewrite E. apply afind_aset_same. exact bytes_eqb_eq.
  - apply afind_aset_other; [exact bytes_eqb_eq|].
    intro H. rewrite H in E. rewrite (proj2 (bytes_eqb_eq _ _) eq_refl) in E. discriminate.
Qed.

Lemma mint_lock_set : forall s b v b0,
  mint_lock (with_mint s (aset N.eqb b v (s_mint s))) b0 =
  if b0 =? b then Some v else mint_lock s b0.
Proof.
  intros s b v b0. unfold mint_lock. cbn [s_mint with_mint].
  destruct (b0 =? b) eqn:E.
  - apply N.eqb_eq in E. subst. apply afind_aset_same. exact N.eqb_eq.
  - apply afind_aset_other; [exact N.eqb_eq|]. apply N.eqb_neq. exact E.
Qed.

Lemma dep_lock_set_taken : forall s l d tx d0,
  dep_lock (with_dep (taken_from s l) (aset bytes_eqb (dep_key d) tx (s_dep s))) d0 =
  if bytes_eqb (dep_key d0) (dep_key d) then Some tx else dep_lock s d0.
Proof. intros. exact (dep_lock_set (taken_from s l) d tx d0). Qed.

Lemma mint_lock_set_taken : forall s l b v b0,
  mint_lock (with_mint (taken_from s l) (aset N.eqb b v (s_mint s))) b0 =
  if b0 =? b then Some v else mint_lock s b0.
Proof. intros. exact (mint_lock_set (taken_from s l) b v b0). Qed.

Lemma outcome_lock_deposit : forall s d tx f s' h,
  lock_deposit s d tx f = Ok s' -> outcome f s h s'.
Proof.
  intros s d tx f s' h H. apply lock_deposit_ok in H.
  destruct H as [[El ->]|[[El ->]|[l (El & Hne & -> & Hfin & ->)]]].
  - unfold outcome. split; [reflexivity|]. split; [auto|]. left. unfold holds.
    split; [auto|]. split; [|auto]. intros d0 H0. rewrite dep_lock_set.
    destruct (bytes_eqb (dep_key d0) (dep_key d)) eqn:E; [|exact H0].
    apply bytes_eqb_eq in E. unfold dep_lock in *. rewrite E in H0. rewrite El in H0. discriminate.
  - apply outcome_refl.
  - unfold outcome. split; [reflexivity|]. split.
    { intros t Ht. exact (has_body_taken s l t Ht). }
    destruct (N.eq_dec h l) as [->|Hhl].
    + right. split; [reflexivity|]. split; [exact Hfin|]. apply has_body_taken_self.
    + left. unfold holds. split; [auto|]. split; [|auto]. intros d0 H0. rewrite dep_lock_set_taken.
      destruct (bytes_eqb (dep_key d0) (dep_key d)) eqn:E; [|exact H0].
      apply bytes_eqb_eq in E. unfold dep_lock in *. rewrite E in H0. rewrite El in H0.
      injection H0 as ->. contradiction.
Qed.

Lemma outcome_lock_mint : forall s b a tx f s' h,
  lock_mint s b a tx f = Ok s' -> outcome f s h s'.
Proof.
  intros s b a tx f s' h H. apply lock_mint_ok in H.
  destruct H as [[El ->]|[[El ->]|[l [a0 (El & Hne & -> & Hfin & ->)]]]].
  - unfold outcome. split; [reflexivity|]. split; [auto|]. left. unfold holds.
    split; [auto|]. split; [auto|]. intros b0 a1 H0. rewrite mint_lock_set.
    destruct (b0 =? b) eqn:E; [|exact H0].
    apply N.eqb_eq in E. subst. rewrite El in H0. discriminate.
  - apply outcome_refl.
  - unfold outcome. split; [reflexivity|]. split.
    { intros t Ht. exact (has_body_taken s l t Ht). }
    destruct (N.eq_dec h l) as [->|Hhl].
    + right. split; [reflexivity|]. split; [exact Hfin|]. apply has_body_taken_self.
    + left. unfold holds. split; [auto|]. split; [auto|]. intros b0 a1 H0. rewrite mint_lock_set_taken.
      destruct (b0 =? b) eqn:E; [|exact H0].
      apply N.eqb_eq in E. subst. rewrite El in H0. injection H0 as -> ->. contradiction.
Qed.

(* finalization never touches an existing holder (reachable states) *)
Lemma write_utxos_frame : forall outs s t i s',
  (forall j, utxo_lock s (t, j) = None \/ utxo_lock s (t, j) = Some 0) ->
  write_utxos s t i outs = Ok s' ->
  s_final s' = s_final s /\ s_dep s' = s_dep s /\ s_mint s' = s_mint s /\ s_body s' = s_body s /\
  (forall sl l, utxo_lock s sl = Some l -> l <> 0 -> utxo_lock s' sl = Some l).
Proof.
  induction outs as [|ks outs IH]; cbn [write_utxos]; intros s t i s' Hfree H.
  - injection H as <-. repeat split; auto.
  - destruct (relock_keys (s_ghost s) ks t) as [g| |] eqn:E; cbn [bind] in H; try discriminate.
    destruct (max_utxo_index <? i); [discriminate|].
    set (s1 := with_ghost s g) in *.
    assert (Hset : forall sl0, utxo_lock (with_utxo s1 (aset slot_eqb (t, i) 0 (s_utxo s1))) sl0 =
                     if slot_eqb sl0 (t, i) then Some 0 else utxo_lock s sl0).
    { intro sl0. rewrite utxo_lock_set. reflexivity. }
    apply IH in H.
    + destruct H as (F & D & M & B & U). repeat split; auto.
      intros sl l El Hl. apply U; [|exact Hl]. rewrite Hset.
      destruct (slot_eqb sl (t, i)) eqn:Es; [|exact El].
      apply slot_eqb_eq in Es. subst sl.
      destruct (Hfree i) as [Hn|Hn]; rewrite Hn in El; [discriminate|injection El as <-; contradiction].
    + intros j. rewrite Hset.
      destruct (slot_eqb (t, j) (t, i)); [right; reflexivity|exact (Hfree j)].
Qed.

Lemma finalize_one_frame : forall s t s', wf s -> finalize_one s t = Ok s' ->
  (forall x, is_final s x = true -> is_final s' x = true) /\
  s_dep s' = s_dep s /\ s_mint s' = s_mint s /\ s_body s' = s_body s /\
  (forall sl l, utxo_lock s sl = Some l -> l <> 0 -> utxo_lock s' sl = Some l).
Proof.
  unfold finalize_one. intros s t s' Hw H.
  destruct (body_of s t) as [b|]; [|discriminate].
  destruct (is_final s t) eqn:Ef; [injection H as <-; repeat split; auto|].
  apply write_utxos_frame in H.
  - destruct H as (F & D & M & B & U). cbn in F, D, M, B. repeat split; auto.
    intros x Hx. unfold is_final in *. rewrite F. cbn [s_final with_final memN]. rewrite Hx. apply orb_true_r.
  - intros j. change (utxo_lock (with_final s (t :: s_final s)) (t, j)) with (utxo_lock s (t, j)).
    destruct (utxo_lock s (t, j)) eqn:E; [|left; reflexivity].
    destruct Hw as (_ & _ & _ & _ & _ & Hf).
    assert (Hc : is_final s (fst (t, j)) = true) by (apply Hf; rewrite E; discriminate).
    cbn in Hc. rewrite Ef in Hc. discriminate.
Qed.

Definition op_fork (o : op) : bool :=
  match o with
  | LockUTXOs _ _ f | LockDeposit _ _ f | LockMint _ _ _ f | LockInputs _ f => f
  | _ => false
  end.

(* every successful call, for every transaction h <> 0 and reachable state *)
Lemma exec_holders : forall s o s' h, wf s -> h <> 0 -> exec s o = Ok s' ->
  (forall x, is_final s x = true -> is_final s' x = true) /\
  (holds s h s' \/ (op_fork o = true /\ is_final s h = false /\ has_body s' h = false)).
Proof.
  intros s o s' h Hw Hh H.
  assert (Hout : forall f, outcome f s h s' ->
    (forall x, is_final s x = true -> is_final s' x = true) /\
    (holds s h s' \/ (f = true /\ is_final s h = false /\ has_body s' h = false))).
  { intros f (F & _ & K). split; [|exact K]. intros x Hx. unfold is_final in *. rewrite F. exact Hx. }
  destruct o; cbn in H; cbn [op_fork].
  - apply Hout. eapply outcome_lock_utxos; eassumption.
  - apply Hout. eapply outcome_lock_deposit; eassumption.
  - apply Hout. eapply outcome_lock_mint; eassumption.
  - apply Hout. unfold lock_inputs in H. destruct (t_ins t).
    + eapply outcome_lock_utxos; eassumption.
    + eapply outcome_lock_deposit; eassumption.
    + eapply outcome_lock_mint; eassumption.
    + eapply outcome_lock_utxos; eassumption.
  - destruct (lock_ghost_keys (s_ghost s) ks tx fork) as [g| |]; cbn in H; try discriminate.
    injection H as <-. split; [auto|]. left. unfold holds. repeat split; auto.
  - unfold write_tx in H.
    destruct (if debug_asserts then inputs_locked s t else Ok tt); cbn in H; try discriminate.
    destruct (has_body s (t_hash t)); [injection H as <-; split; [auto|left; unfold holds; repeat split; auto]|].
    destruct (t_ins t) as [[|sl l]| | |]; try discriminate; injection H as <-;
      (split; [auto|left; unfold holds; repeat split; auto]).
  - unfold finalize in H. destruct (debug_asserts && negb (has_body s t)); [discriminate|].
    apply finalize_one_frame in H; [|exact Hw]. destruct H as (F & D & M & B & U).
    split; [exact F|]. left. unfold holds, dep_lock, mint_lock. rewrite D, M. repeat split; auto.
Qed.

(* ---- output key bindings through the whole machine ------------------------- *)
Lemma write_utxos_ghost_mono : forall outs s t i s',
  write_utxos s t i outs = Ok s' ->
  forall k x, bound (s_ghost s) k x -> bound (s_ghost s') k x.
Proof.
  induction outs as [|ks outs IH]; cbn; intros s t i s' H k x Hb.
  - injection H as <-. exact Hb.
  - destruct (relock_keys (s_ghost s) ks t) as [g| |] eqn:E; cbn in H; try discriminate.
    destruct (max_utxo_index <? i); [discriminate|].
    eapply IH; [exact H|]. cbn. eapply relock_keys_mono; eassumption.
Qed.

Lemma lock_utxos_ghost : forall ins s tx f s', lock_utxos s ins tx f = Ok s' -> s_ghost s' = s_ghost s.
Proof.
  induction ins as [|a ins IH]; cbn; intros s tx f s' H.
  - injection H as <-. reflexivity.
  - destruct (lock_utxo s a tx f) as [s1| |] eqn:E; cbn in H; try discriminate.
    rewrite (IH _ _ _ _ H). apply lock_utxo_ok in E.
    destruct E as [l [_ [[_ ->]|(_ & _ & _ & _ & ->)]]]; reflexivity.
Qed.

Lemma exec_ghost_mono : forall s o s', exec s o = Ok s' ->
  forall k x, bound (s_ghost s) k x -> bound (s_ghost s') k x.
Proof.
  intros s o s' H k x Hb. destruct o; cbn in H.
  - rewrite (lock_utxos_ghost _ _ _ _ _ H). exact Hb.
  - apply lock_deposit_ok in H. destruct H as [[_ ->]|[[_ ->]|[l (_ & _ & _ & _ & ->)]]]; exact Hb.
  - apply lock_mint_ok in H. destruct H as [[_ ->]|[[_ ->]|[l [a0 (_ & _ & _ & _ & ->)]]]]; exact Hb.
  - unfold lock_inputs in H. destruct (t_ins t).
    + rewrite (lock_utxos_ghost _ _ _ _ _ H). exact Hb.
    + apply lock_deposit_ok in H. destruct H as [[_ ->]|[[_ ->]|[l (_ & _ & _ & _ & ->)]]]; exact Hb.
    + apply lock_mint_ok in H. destruct H as [[_ ->]|[[_ ->]|[l [a0 (_ & _ & _ & _ & ->)]]]]; exact Hb.
    + rewrite (lock_utxos_ghost _ _ _ _ _ H). exact Hb.
  - destruct (lock_ghost_keys (s_ghost s) ks tx fork) as [g| |] eqn:E; cbn in H; try discriminate.
    injection H as <-. cbn. unfold lock_ghost_keys in E.
    eapply lock_ghost_keys_from_mono; eassumption.
  - unfold write_tx in H.
    destruct (if debug_asserts then inputs_locked s t else Ok tt); cbn in H; try discriminate.
    destruct (has_body s (t_hash t)); [injection H as <-; exact Hb|].
    destruct (t_ins t) as [[|sl l]| | |]; try discriminate; injection H as <-; exact Hb.
  - unfold finalize in H. destruct (debug_asserts && negb (has_body s t)); [discriminate|].
    unfold finalize_one in H. destruct (body_of s t) as [b|]; [|discriminate].
    destruct (is_final s t); [injection H as <-; exact Hb|].
    eapply write_utxos_ghost_mono; [exact H|exact Hb].
Qed.

Lemma step_ghost_mono : forall s o k x,
  bound (s_ghost s) k x -> bound (s_ghost (fst (step s o))) k x.
Proof.
  intros s o k x Hb. rewrite step_fst. destruct (exec s o) eqn:E; [|exact Hb|exact Hb].
  eapply exec_ghost_mono; eassumption.
Qed.

Lemma run_ghost_mono : forall os s k x,
  bound (s_ghost s) k x -> bound (s_ghost (run s os)) k x.
Proof.
  induction os as [|o os IH]; cbn; intros s k x Hb; [exact Hb|].
  apply IH. apply step_ghost_mono. exact Hb.
Qed.

(* finalizing over a foreign key *)
Lemma write_utxos_foreign : forall outs s t i k x ks,
  In ks outs -> In k ks -> bound (s_ghost s) k x -> x <> t -> is_exception t = false ->
  forall s', write_utxos s t i outs <> Ok s'.
Proof.
  induction outs as [|ks0 outs IH]; cbn; intros s t i k x ks Hin Hk Hb Hne Hex s'; [contradiction|].
  destruct (relock_keys (s_ghost s) ks0 t) as [g| |] eqn:E; cbn; try discriminate.
  destruct (max_utxo_index <? i); [discriminate|].
  destruct Hin as [->|Hin].
  - rewrite (relock_keys_foreign ks (s_ghost s) t k x Hk Hb Hne Hex) in E. discriminate.
  - eapply IH; [exact Hin|exact Hk| |exact Hne|exact Hex].
    cbn. eapply relock_keys_mono; eassumption.
Qed.

(* ---- the rendered deposit key ---------------------------------------------- *)
Lemma hex_fixed_length : forall k c, length (hex_fixed k c) = k.
Proof.
  induction k as [|k IH]; cbn; intro c; [reflexivity|].
  rewrite app_length, IH. cbn. lia.
Qed.

Lemma hexdig_inj : forall a b, a < 16 -> b < 16 -> hexdig a = hexdig b -> a = b.
Proof.
  unfold hexdig. intros a b Ha Hb.
  destruct (a <? 10) eqn:Ea; destruct (b <? 10) eqn:Eb;
    try apply N.ltb_lt in Ea; try apply N.ltb_lt in Eb;
    try apply N.ltb_ge in Ea; try apply N.ltb_ge in Eb; lia.
Qed.

Lemma app_last_inj : forall (A : Type) (l1 l2 : list A) a b, l1 ++ [a] = l2 ++ [b] -> l1 = l2 /\ a = b.
Proof. intros A l1 l2 a b H. apply app_inj_tail in H. exact H. Qed.

Lemma hex_fixed_inj : forall k c1 c2,
  c1 < 16 ^ N.of_nat k -> c2 < 16 ^ N.of_nat k -> hex_fixed k c1 = hex_fixed k c2 -> c1 = c2.
Proof.
  induction k as [|k IH]; intros c1 c2 H1 H2 H.
  - cbn in H1, H2. lia.
  - cbn [hex_fixed] in H. apply app_last_inj in H. destruct H as [Hp Hd].
    rewrite Nat2N.inj_succ, N.pow_succ_r' in H1, H2.
    assert (c1 / 16 = c2 / 16).
    { apply IH; [apply N.div_lt_upper_bound; lia|apply N.div_lt_upper_bound; lia|exact Hp]. }
    assert (c1 mod 16 = c2 mod 16).
    { apply hexdig_inj; [apply N.mod_lt; lia|apply N.mod_lt; lia|exact Hd]. }
    rewrite (N.div_mod c1 16), (N.div_mod c2 16); lia.
Qed.

Lemma uint_chars_inj : forall u v, uint_chars u = uint_chars v -> u = v.
Proof.
  induction u; destruct v; cbn; intro H; try discriminate; try reflexivity;
    injection H as H; f_equal; auto.
Qed.

Lemma uint_chars_no_colon : forall u, ~ In colon (uint_chars u).
Proof.
  induction u; cbn; intro H; try contradiction;
    destruct H as [H|H]; try (unfold colon in H; discriminate); contradiction.
Qed.

Lemma dec_chars_inj : forall a b, dec_chars a = dec_chars b -> a = b.
Proof.
  unfold dec_chars. intros a b H. apply uint_chars_inj in H.
  rewrite <- (DecimalN.Unsigned.of_to a), <- (DecimalN.Unsigned.of_to b), H. reflexivity.
Qed.

(* split at the LAST separator: the index text has none *)
Lemma split_last_sep : forall (x1 x2 y1 y2 : list N) c,
  ~ In c y1 -> ~ In c y2 -> x1 ++ c :: y1 = x2 ++ c :: y2 -> x1 = x2 /\ y1 = y2.
Proof.
  intros x1 x2 y1 y2 c H1 H2 H.
  assert (Hr : rev y1 ++ c :: rev x1 = rev y2 ++ c :: rev x2).
  { apply (f_equal (@rev N)) in H. rewrite !rev_app_distr in H. cbn in H.
    rewrite <- !app_assoc in H. exact H. }
  assert (Hg : forall (a b p q : list N), ~ In c a -> ~ In c b -> a ++ c :: p = b ++ c :: q -> a = b /\ p = q).
  { induction a as [|h a IHa]; destruct b as [|h' b]; cbn; intros p q Ha Hb E.
    - injection E as ->. auto.
    - injection E as <- _. exfalso. apply Hb. left. reflexivity.
    - injection E as -> _. exfalso. apply Ha. left. reflexivity.
    - injection E as -> E. destruct (IHa b p q) as [-> ->]; auto. }
  destruct (Hg (rev y1) (rev y2) (rev x1) (rev x2)) as [Ey Ex]; auto.
  - intro Hi. apply H1. apply in_rev. exact Hi.
  - intro Hi. apply H2. apply in_rev. exact Hi.
  - split.
    + rewrite <- (rev_involutive x1), <- (rev_involutive x2), Ex. reflexivity.
    + rewrite <- (rev_involutive y1), <- (rev_involutive y2), Ey. reflexivity.
Qed.

Lemma app_same_length : forall (A : Type) (a b x y : list A),
  length a = length b -> a ++ x = b ++ y -> a = b /\ x = y.
Proof.
  induction a as [|h a IH]; destruct b as [|h' b]; cbn; intros x y Hl H; try discriminate.
  - auto.
  - injection H as -> H. injection Hl as Hl. destruct (IH b x y Hl H) as [-> ->]. auto.
Qed.

Lemma render_injective : forall d1 d2,
  d_chain d1 < 2 ^ 256 -> d_chain d2 < 2 ^ 256 -> render d1 = render d2 -> d1 = d2.
Proof.
  intros [c1 t1 i1] [c2 t2 i2]. unfold render. cbn [d_chain d_tx d_index]. intros H1 H2 H.
  assert (Hl : length (hex_fixed 64 c1) = length (hex_fixed 64 c2)) by (rewrite !hex_fixed_length; reflexivity).
  destruct (app_same_length _ _ _ _ _ Hl H) as [Hc Hrest].
  assert (Ec : c1 = c2).
  { apply (hex_fixed_inj 64); [| |exact Hc].
    - change (16 ^ N.of_nat 64) with (2 ^ 256). exact H1.
    - change (16 ^ N.of_nat 64) with (2 ^ 256). exact H2. }
  injection Hrest as Hrest.
  destruct (split_last_sep t1 t2 (dec_chars i1) (dec_chars i2) colon) as [Et Ei].
  - apply uint_chars_no_colon.
  - apply uint_chars_no_colon.
  - exact Hrest.
  - apply dec_chars_inj in Ei. subst. reflexivity.
Qed.

(* ---- statements used by Props/C03.v and Props/C04.v ------------------------- *)
Definition one_holder (s : state) : Prop :=
  (forall sl h1 h2, In (sl, h1) (s_utxo s) -> In (sl, h2) (s_utxo s) -> h1 = h2) /\
  (forall k h1 h2, In (k, h1) (s_dep s) -> In (k, h2) (s_dep s) -> h1 = h2) /\
  (forall b r1 r2, In (b, r1) (s_mint s) -> In (b, r2) (s_mint s) -> r1 = r2) /\
  (forall sl, utxo_lock s sl <> None -> is_final s (fst sl) = true).

Lemma wf_one_holder : forall s, wf s -> one_holder s.
Proof.
  intros s (Hu & Hd & Hm & Hb & Hg & Hf). unfold one_holder. repeat split.
  - intros sl h1 h2. apply (nodup_functional slot_eqb slot_eqb_eq); exact Hu.
  - intros k h1 h2. apply (nodup_functional bytes_eqb bytes_eqb_eq); exact Hd.
  - intros b r1 r2. apply (nodup_functional N.eqb N.eqb_eq); exact Hm.
  - exact Hf.
Qed.

Lemma reachable_one_holder : forall os, one_holder (run init os).
Proof. intro os. apply wf_one_holder. apply wf_run. exact wf_init. Qed.

Lemma step_conflict_utxo : forall s ins tx sl l,
  In sl ins -> utxo_lock s sl = Some l -> l <> 0 -> l <> tx ->
  fst (step s (LockUTXOs ins tx false)) = s /\ snd (step s (LockUTXOs ins tx false)) <> Ok tt.
Proof.
  intros s ins tx sl l Hin El H0 Hne. unfold step. cbn [exec].
  destruct (lock_utxos s ins tx false) as [s'| |] eqn:E; cbn.
  - exfalso. exact (lock_utxos_conflict ins s tx sl l s' Hin El H0 Hne E).
  - split; [reflexivity|discriminate].
  - split; [reflexivity|discriminate].
Qed.

Lemma step_conflict_deposit : forall s d tx l,
  dep_lock s d = Some l -> l <> tx -> step s (LockDeposit d tx false) = (s, Err).
Proof. intros s d tx l El Hne. unfold step. cbn [exec]. rewrite (lock_deposit_conflict s d tx l El Hne). reflexivity. Qed.

Lemma step_conflict_mint : forall s b a tx l a0,
  mint_lock s b = Some (l, a0) -> (l <> tx \/ a0 <> a) -> step s (LockMint b a tx false) = (s, Err).
Proof. intros s b a tx l a0 El Hne. unfold step. cbn [exec]. rewrite (lock_mint_conflict s b a tx l a0 El Hne). reflexivity. Qed.

Lemma step_relock_utxo : forall s ins tx f,
  (forall sl, In sl ins -> utxo_lock s sl = Some tx /\ snd sl <= max_utxo_index) ->
  step s (LockUTXOs ins tx f) = (s, Ok tt).
Proof. intros s ins tx f H. unfold step. cbn [exec]. rewrite (lock_utxos_relock ins s tx f H). reflexivity. Qed.

Lemma step_relock_deposit : forall s d tx f, dep_lock s d = Some tx -> step s (LockDeposit d tx f) = (s, Ok tt).
Proof. intros s d tx f H. unfold step. cbn [exec]. rewrite (lock_deposit_relock s d tx f H). reflexivity. Qed.

Lemma step_relock_mint : forall s b a tx f, mint_lock s b = Some (tx, a) -> step s (LockMint b a tx f) = (s, Ok tt).
Proof. intros s b a tx f H. unfold step. cbn [exec]. rewrite (lock_mint_relock s b a tx f H). reflexivity. Qed.

Lemma holds_refl : forall s h, holds s h s.
Proof. intros. unfold holds. repeat split; auto. Qed.

Lemma holds_trans : forall s1 s2 s3 h, holds s1 h s2 -> holds s2 h s3 -> holds s1 h s3.
Proof. unfold holds. intros s1 s2 s3 h (U1 & D1 & M1) (U2 & D2 & M2). repeat split; auto. Qed.

(* one call from a reachable state *)
Lemma step_takeover : forall s o s' h, wf s -> h <> 0 -> step s o = (s', Ok tt) ->
  holds s h s' \/ (op_fork o = true /\ is_final s h = false /\ has_body s' h = false).
Proof.
  intros s o s' h Hw Hh H. unfold step in H.
  destruct (exec s o) as [s1| |] eqn:E; try discriminate.
  injection H as <-. exact (proj2 (exec_holders s o s1 h Hw Hh E)).
Qed.

Lemma step_final_keeps : forall s o h, wf s -> h <> 0 -> is_final s h = true ->
  is_final (fst (step s o)) h = true /\ holds s h (fst (step s o)).
Proof.
  intros s o h Hw Hh Hf. rewrite step_fst.
  destruct (exec s o) as [s1| |] eqn:E; [|split; [exact Hf|apply holds_refl]|split; [exact Hf|apply holds_refl]].
  destruct (exec_holders s o s1 h Hw Hh E) as [F [K|(_ & Hn & _)]].
  - split; [apply F; exact Hf|exact K].
  - rewrite Hf in Hn. discriminate.
Qed.

Lemma run_final_keeps : forall os s h, wf s -> h <> 0 -> is_final s h = true ->
  is_final (run s os) h = true /\ holds s h (run s os).
Proof.
  induction os as [|o os IH]; cbn [run fold_left]; intros s h Hw Hh Hf.
  - split; [exact Hf|apply holds_refl].
  - destruct (step_final_keeps s o h Hw Hh Hf) as [F1 K1].
    destruct (IH (fst (step s o)) h (wf_step s o Hw) Hh F1) as [F2 K2].
    split; [exact F2|]. eapply holds_trans; eassumption.
Qed.

Lemma with_ghost_id : forall s, with_ghost s (s_ghost s) = s.
Proof. intros []. reflexivity. Qed.

Lemma step_ghost_foreign : forall s ks tx f k t,
  In k ks -> bound (s_ghost s) k t -> t <> tx -> f && is_exception tx = false ->
  step s (LockGhost ks tx f) = (s, Err).
Proof.
  intros s ks tx f k t Hin Hb Hne Hex. unfold step. cbn [exec]. unfold lock_ghost_keys.
  rewrite (lock_ghost_keys_from_foreign ks [] (s_ghost s) tx f k t Hin Hb Hne Hex). reflexivity.
Qed.

Lemma step_ghost_exception : forall s ks tx,
  is_exception tx = true -> NoDup ks ->
  (forall k, In k ks -> exists t, bound (s_ghost s) k t /\ t <> 0) ->
  step s (LockGhost ks tx true) = (s, Ok tt).
Proof.
  intros s ks tx Hex Hnd Hb. unfold step. cbn [exec]. unfold lock_ghost_keys.
  rewrite (lock_ghost_keys_from_exception ks [] (s_ghost s) tx Hex Hnd); [|intros k _ []|exact Hb].
  cbn [bind]. rewrite with_ghost_id. reflexivity.
Qed.

Lemma duplicate_rejected : forall outs, ~ NoDup (concat outs) ->
  vo_keys outs = Err /\
  (forall g tx f, validate_outputs g outs tx f = Err) /\
  (forall s tx f, step s (LockGhost (concat outs) tx f) = (s, Err)).
Proof.
  intros outs Hd.
  assert (Hv : vo_keys outs = Err) by (unfold vo_keys; apply vo_keys_from_dup; left; exact Hd).
  split; [exact Hv|]. split.
  - intros g tx f. unfold validate_outputs. rewrite Hv. reflexivity.
  - intros s tx f. unfold step. cbn [exec]. unfold lock_ghost_keys.
    rewrite (lock_ghost_keys_from_dup (concat outs) [] (s_ghost s) tx f); [reflexivity|left; exact Hd].
Qed.

Lemma distinct_keys_pass : forall outs, NoDup (concat outs) -> vo_keys outs = Ok (concat outs).
Proof. intros outs H. unfold vo_keys. apply vo_keys_from_nodup; [exact H|intros k _ []]. Qed.

Lemma finalize_foreign : forall s t b ks k x,
  body_of s t = Some b -> is_final s t = false -> In ks (t_outs b) -> In k ks ->
  bound (s_ghost s) k x -> x <> t -> is_exception t = false ->
  fst (step s (Finalize t)) = s /\ snd (step s (Finalize t)) <> Ok tt.
Proof.
  intros s t b ks k x Hbody Hnf Hin Hk Hb Hne Hex. unfold step. cbn [exec]. unfold finalize.
  destruct (debug_asserts && negb (has_body s t)); [split; [reflexivity|discriminate]|].
  unfold finalize_one. rewrite Hbody, Hnf.
  destruct (write_utxos (with_final s (t :: s_final s)) t 0 (t_outs b)) as [s'| |] eqn:E; cbn.
  - exfalso. exact (write_utxos_foreign (t_outs b) (with_final s (t :: s_final s)) t 0 k x ks Hin Hk Hb Hne Hex s' E).
  - split; [reflexivity|discriminate].
  - split; [reflexivity|discriminate].
Qed.

Lemma reachable_key_one_tx : forall os k t1 t2,
  In (k, t1) (s_ghost (run init os)) -> In (k, t2) (s_ghost (run init os)) -> t1 = t2.
Proof.
  intros os k t1 t2. destruct (wf_run os init wf_init) as (_ & _ & _ & _ & Hg & _).
  apply (nodup_functional N.eqb N.eqb_eq). exact Hg.
Qed.

Lemma binding_monotone : forall os1 os2 k t,
  bound (s_ghost (run init os1)) k t -> bound (s_ghost (run init (os1 ++ os2))) k t.
Proof. intros os1 os2 k t H. rewrite run_app. apply run_ghost_mono. exact H. Qed.
