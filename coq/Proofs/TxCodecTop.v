(* Top-level lemmas about the transaction codec model: unmarshal, payload, hash. *)
From Coq Require Import List ZArith NArith Bool Lia ZifyN ZifyNat ZifyBool Permutation.
Require Import Mixin.Base.Res Mixin.Gen.Consts Mixin.Model.TxCodec Mixin.Proofs.TxCodec.
Import ListNotations.
Open Scope N_scope.

(* ---- unmarshal ---------------------------------------------------------------------------- *)
(* structurally valid: Go type ranges, the encoder's non-panic guards, the decoder's count
   limits (SliceCountLimit references, keys and signature maps) and the size cap *)
Definition wf_tx (t : tx) : Prop :=
  wf_tx_lim slice_limit t /\ blen (ser_tx t) <= tx_max_size.

Lemma enc_tx_wf : forall lim t, wf_tx_lim lim t -> enc_tx t = Ok (ser_tx t).
Proof.
  intros lim t (Wv & _ & _ & _ & _ & _ & _ & O). unfold enc_tx. rewrite Wv, N.eqb_refl, O. reflexivity.
Qed.

Lemma unmarshal_canonical : forall b t, unmarshal b = Ok t -> enc_tx t = Ok b.
Proof.
  intros b t H. unfold unmarshal in H.
  destruct (tx_max_size <? blen b); [discriminate|].
  destruct (dec_tx b) as [t'|]; [|discriminate].
  destruct (enc_tx t') as [c| |] eqn:E; try discriminate.
  destruct (bytes_eqb c b) eqn:Eb; [|discriminate].
  inversion H; subst t'. apply bytes_eqb_eq in Eb. subst c. exact E.
Qed.

Lemma unmarshal_roundtrip : forall t, wf_tx t -> enc_tx t = Ok (ser_tx t) /\ unmarshal (ser_tx t) = Ok t.
Proof.
  intros t [W S]. pose proof (enc_tx_wf _ _ W) as E. split; [exact E|].
  unfold unmarshal. destruct (tx_max_size <? blen (ser_tx t)) eqn:L; [lia|].
  unfold dec_tx. rewrite (dec_tx_lim_ser _ _ W), E, bytes_eqb_refl. reflexivity.
Qed.

(* the decoder's output always satisfies the encoder's guards *)
Lemma unmarshal_no_panic : forall b, bytes_ok b -> unmarshal b <> Panic.
Proof.
  intros b Hb. unfold unmarshal.
  destruct (tx_max_size <? blen b); [discriminate|].
  destruct (dec_tx b) as [t|] eqn:D; [|discriminate].
  unfold dec_tx in D. destruct (dec_tx_lim_ok slice_limit b t ltac:(rewrite slice_limit_val; lia) D Hb) as [V O].
  unfold enc_tx. rewrite V, N.eqb_refl, O. cbn [andb].
  destruct (bytes_eqb (ser_tx t) b); discriminate.
Qed.

(* ---- a map has no order -------------------------------------------------------------- *)
Lemma sig_insert_comm : forall x y s, fst x <> fst y ->
  sig_insert x (sig_insert y s) = sig_insert y (sig_insert x s).
Proof.
  intros x y s Hne. induction s as [|f l IH].
  - cbn [sig_insert]. destruct (fst x <? fst y) eqn:A; destruct (fst y <? fst x) eqn:B; try reflexivity; lia.
  - cbn [sig_insert].
    destruct (fst x <? fst f) eqn:A; destruct (fst y <? fst f) eqn:B; cbn [sig_insert];
      rewrite ?A, ?B.
    + destruct (fst x <? fst y) eqn:C; destruct (fst y <? fst x) eqn:D; try reflexivity; lia.
    + destruct (fst y <? fst x) eqn:D; [lia | reflexivity].
    + destruct (fst x <? fst y) eqn:D; [lia | reflexivity].
    + rewrite IH. reflexivity.
Qed.

Lemma keys_distinct_NoDup : forall m, keys_distinct m = true <-> NoDup (map fst m).
Proof.
  induction m as [|e m IH]; cbn [keys_distinct map].
  - split; [constructor | reflexivity].
  - rewrite andb_true_iff, negb_true_iff, IH. split.
    + intros [A B]. constructor; [|exact B]. intro Hin. apply in_map_iff in Hin.
      destruct Hin as [f [Ef Hf]]. assert (X : existsb (fun f0 => fst f0 =? fst e) m = true).
      { apply existsb_exists. exists f. split; [exact Hf | apply N.eqb_eq; exact Ef]. }
      congruence.
    + intro H. inversion H as [|? ? Hn Hd]; subst. split; [|exact Hd].
      destruct (existsb (fun f => fst f =? fst e) m) eqn:X; [|reflexivity].
      exfalso. apply Hn. apply existsb_exists in X. destruct X as [f [Hf Ef]]. apply N.eqb_eq in Ef.
      apply in_map_iff. exists f. split; assumption.
Qed.

Lemma sig_sort_perm : forall m1 m2, Permutation m1 m2 -> keys_distinct m1 = true ->
  sig_sort m1 = sig_sort m2.
Proof.
  intros m1 m2 P. induction P as [| x l l' P IH | x y l | l l' l'' P1 IH1 P2 IH2]; intro D.
  - reflexivity.
  - cbn [sig_sort]. rewrite IH; [reflexivity|]. cbn [keys_distinct] in D. apply andb_true_iff in D. apply D.
  - cbn [sig_sort]. apply sig_insert_comm. apply keys_distinct_NoDup in D. cbn [map] in D.
    inversion D as [|? ? Hn _]; subst. intro E. apply Hn. left. symmetry. exact E.
  - rewrite IH1 by exact D. apply IH2. apply keys_distinct_NoDup. apply keys_distinct_NoDup in D.
    eapply Permutation_NoDup; [apply Permutation_map; exact P1 | exact D].
Qed.

Lemma ser_sigs_perm : forall m1 m2, Permutation m1 m2 -> keys_distinct m1 = true ->
  ser_sigs m1 = ser_sigs m2.
Proof.
  intros m1 m2 P D. unfold ser_sigs, blen. rewrite (Permutation_length P), (sig_sort_perm _ _ P D). reflexivity.
Qed.

(* ---- payload ------------------------------------------------------------------------------ *)
(* only the payload fields are constrained: type ranges and the encoder's own guards *)
Definition wf_payload (t : tx) : Prop := wf_tx_lim max_int (payload t).

Lemma payload_idem : forall t, payload (payload t) = payload t.
Proof. reflexivity. Qed.

Lemma wf_payload_of_wf : forall lim t, lim <= max_int -> wf_tx_lim lim t -> wf_payload t.
Proof.
  intros lim t Hl (Wv & Wa & Wi & Wo & Wr & Wrl & Wau & O).
  unfold wf_payload, wf_tx_lim, payload. cbn [t_version t_asset t_inputs t_outputs t_refs t_extra t_auth].
  unfold ok_tx in *. cbn [t_version t_asset t_inputs t_outputs t_refs t_extra t_auth].
  split_ands O. repeat split; try assumption.
  - eapply Forall_impl; [|exact Wo]. intros o (A & B & C & D & E). repeat split; try assumption. lia.
  - lia.
  - constructor.
  - rewrite slice_limit_val. unfold blen. cbn. lia.
  - repeat match goal with HH : _ = true |- _ => rewrite HH; clear HH end. reflexivity.
Qed.

Lemma Ok_inj : forall A (a b : A), Ok a = Ok b -> a = b.
Proof. intros A a b H. inversion H. reflexivity. Qed.
Lemma Some_inj : forall A (a b : A), Some a = Some b -> a = b.
Proof. intros A a b H. inversion H. reflexivity. Qed.

Lemma enc_payload_injective : forall t1 t2, wf_payload t1 -> wf_payload t2 ->
  enc_payload t1 = enc_payload t2 -> payload t1 = payload t2.
Proof.
  intros t1 t2 W1 W2 E. unfold enc_payload in E.
  rewrite (enc_tx_wf _ _ W1), (enc_tx_wf _ _ W2) in E. apply Ok_inj in E.
  pose proof (dec_tx_lim_ser _ _ W1) as D1. pose proof (dec_tx_lim_ser _ _ W2) as D2.
  rewrite E in D1. rewrite D1 in D2. apply Some_inj in D2. exact D2.
Qed.

(* ---- hash ------------------------------------------------------------------------------- *)
Section Hash.
  Context {Hsh : Type} (H : bytes -> Hsh).

  Lemma hash_ignores_auth : forall t1 t2, payload t1 = payload t2 ->
    payload_hash H t1 = payload_hash H t2.
  Proof.
    intros t1 t2 E. unfold payload_hash, payload_marshal, enc_payload. rewrite E. reflexivity.
  Qed.

  Lemma payload_hash_ok : forall t h, payload_hash H t = Ok h ->
    exists b, enc_payload t = Ok b /\ H b = h.
  Proof.
    intros t h E. unfold payload_hash, payload_marshal, debug_checked in E.
    destruct (enc_payload t) as [b| |]; try discriminate. exists b. split; [reflexivity|].
    destruct config_debug; [destruct (unmarshal b)|]; cbn in E; try discriminate; inversion E; reflexivity.
  Qed.

  Lemma hash_determines_payload : forall t1 t2 h, wf_payload t1 -> wf_payload t2 ->
    (forall b1 b2, enc_payload t1 = Ok b1 -> enc_payload t2 = Ok b2 -> H b1 = H b2 -> b1 = b2) ->
    payload_hash H t1 = Ok h -> payload_hash H t2 = Ok h -> payload t1 = payload t2.
  Proof.
    intros t1 t2 h W1 W2 Inj E1 E2.
    destruct (payload_hash_ok _ _ E1) as (b1 & P1 & H1). destruct (payload_hash_ok _ _ E2) as (b2 & P2 & H2).
    apply enc_payload_injective; try assumption. rewrite P1, P2. f_equal. apply (Inj b1 b2 P1 P2). congruence.
  Qed.

  (* a structurally valid transaction has a hash, and it is H of the payload encoding *)
  Lemma payload_hash_wf : forall t, wf_tx t ->
    payload_hash H t = Ok (H (ser_tx (payload t))).
  Proof.
    intros t [W S].
    assert (Wp : wf_tx (payload t)).
    { split.
      - destruct W as (Wv & Wa & Wi & Wo & Wr & Wrl & Wau & O).
        unfold wf_tx_lim, payload. cbn [t_version t_asset t_inputs t_outputs t_refs t_extra t_auth].
        unfold ok_tx in *. cbn [t_version t_asset t_inputs t_outputs t_refs t_extra t_auth].
        split_ands O. repeat split; try assumption.
        + constructor.
        + rewrite slice_limit_val. unfold blen. cbn. lia.
        + repeat match goal with HH : _ = true |- _ => rewrite HH; clear HH end. reflexivity.
      - unfold ser_tx, payload in *. cbn [t_version t_asset t_inputs t_outputs t_refs t_extra t_auth] in *.
        repeat rewrite blen_app in *.
        assert (2 <= blen (ser_auth (t_auth t))).
        { destruct (t_auth t) as [ms|sg s]; cbn [ser_auth]; [|rewrite ser_agg_tail];
            rewrite blen_app; unfold blen at 1, ser_u16; rewrite be_enc_length; lia. }
        change (blen (ser_auth (SigMaps []))) with 2. lia. }
    destruct (unmarshal_roundtrip _ Wp) as [E U].
    unfold payload_hash, payload_marshal, enc_payload, debug_checked. rewrite E.
    destruct config_debug; [rewrite U|]; reflexivity.
  Qed.
End Hash.
