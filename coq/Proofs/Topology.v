(* Lemmas about Model/Topology.v: the topology index is a strictly sorted,
   injective map position -> snapshot; listing and lookup agree with it. *)
From Coq Require Import List ZArith NArith Bool Lia Permutation Sorted Setoid.
Require Import Mixin.Base.Res Mixin.Gen.Consts Mixin.Model.Topology.
Import ListNotations.
Open Scope N_scope.

Definition positions (s : tstore) : list N := map fst (t_index s).
Definition hashes (s : tstore) : list N := map snd (t_index s).

Record TInv (s : tstore) : Prop := mk_TInv {
  ti_sorted : StronglySorted N.lt (positions s);
  ti_hashes : debug = true -> NoDup (hashes s);
  ti_rev : debug = true -> forall h p, rev_get h (t_rev s) = Some p <-> In (p, h) (t_index s)
}.

(* ---- sorted association lists ------------------------------------------------- *)

Lemma ss_app_inv {A} (R : A -> A -> Prop) (a b : list A) :
  StronglySorted R (a ++ b) -> StronglySorted R a /\ StronglySorted R b.
Proof.
  induction a as [|x a IH]; cbn; intros H.
  - split; [constructor|exact H].
  - inversion H as [|? ? Hs Hf]; subst. destruct (IH Hs) as [Ha Hb]. split; [|exact Hb].
    constructor; [exact Ha|]. apply Forall_app in Hf. tauto.
Qed.

Lemma ss_nodup (l : list N) : StronglySorted N.lt l -> NoDup l.
Proof.
  induction 1 as [|x l _ IH Hf]; constructor; [|exact IH].
  intros Hin. rewrite Forall_forall in Hf. specialize (Hf _ Hin). lia.
Qed.

Lemma index_get_some p g l : index_get p l = Some g -> In (p, g) l.
Proof.
  induction l as [|[q k] t IH]; cbn; [discriminate|].
  destruct (q =? p) eqn:E.
  - intros H. inversion H; subst. apply N.eqb_eq in E. subst. left. reflexivity.
  - intros H. right. apply IH. exact H.
Qed.

Lemma index_get_none p l : index_get p l = None <-> ~ In p (map fst l).
Proof.
  induction l as [|[q k] t IH]; cbn; [tauto|].
  destruct (q =? p) eqn:E.
  - apply N.eqb_eq in E. split; [discriminate|]. intros H. exfalso. apply H. left. exact E.
  - apply N.eqb_neq in E. rewrite IH. tauto.
Qed.

Lemma index_get_in p g l : NoDup (map fst l) -> In (p, g) l -> index_get p l = Some g.
Proof.
  induction l as [|[q k] t IH]; cbn; [tauto|]. intros Hnd Hin. inversion Hnd as [|? ? Hni Hnd']; subst.
  destruct Hin as [Hin|Hin].
  - inversion Hin; subst. rewrite N.eqb_refl. reflexivity.
  - destruct (q =? p) eqn:E.
    + apply N.eqb_eq in E. subst. exfalso. apply Hni. apply in_map_iff. exists (p, g). tauto.
    + apply IH; assumption.
Qed.

Lemma index_ins_perm p h l : Permutation ((p, h) :: l) (index_ins p h l).
Proof.
  induction l as [|[q k] t IH]; cbn; [reflexivity|].
  destruct (p <? q); [reflexivity|]. rewrite perm_swap. apply perm_skip. exact IH.
Qed.

Lemma index_ins_sorted p h l :
  StronglySorted N.lt (map fst l) -> ~ In p (map fst l) -> StronglySorted N.lt (map fst (index_ins p h l)).
Proof.
  induction l as [|[q k] t IH]; cbn; intros Hs Hni.
  - constructor; constructor.
  - inversion Hs as [|? ? Hs' Hf]; subst.
    destruct (p <? q) eqn:E.
    + apply N.ltb_lt in E. cbn. constructor; [exact Hs|]. constructor; [exact E|].
      rewrite Forall_forall in *. intros x Hx. specialize (Hf _ Hx). lia.
    + apply N.ltb_ge in E. cbn. constructor.
      * apply IH; [exact Hs'|]. intros H. apply Hni. right. exact H.
      * assert (Hq : q < p) by (assert (q <> p) by (intros ->; apply Hni; left; reflexivity); lia).
        rewrite Forall_forall in *. intros x Hx.
        apply (Permutation_in _ (Permutation_sym (Permutation_map fst (index_ins_perm p h t)))) in Hx.
        cbn in Hx. destruct Hx as [<-|Hx]; [exact Hq|apply Hf; exact Hx].
Qed.

Lemma stored_iff s hash : stored s hash = true <-> In hash (hashes s).
Proof.
  unfold stored, hashes. rewrite existsb_exists. split.
  - intros [e [He Hh]]. apply N.eqb_eq in Hh. subst. apply in_map. exact He.
  - intros H. apply in_map_iff in H. destruct H as [e [He Hin]]. exists e. split; [exact Hin|].
    apply N.eqb_eq. exact He.
Qed.

(* ---- writes ------------------------------------------------------------------------ *)

Lemma write_reuse_panics s pos hash : In pos (positions s) -> write_snapshot s pos hash = Panic.
Proof.
  intros Hin. unfold write_snapshot. destruct (debug && stored s hash); [reflexivity|].
  unfold write_topology. destruct (index_get pos (t_index s)) eqn:E; [reflexivity|].
  apply index_get_none in E. contradiction.
Qed.

Lemma write_never_err s pos hash : write_snapshot s pos hash <> Err.
Proof.
  unfold write_snapshot, write_topology. destruct (debug && stored s hash); [discriminate|].
  destruct (index_get pos (t_index s)); discriminate.
Qed.

Lemma write_ok s pos hash s' :
  TInv s -> write_snapshot s pos hash = Ok s' ->
  TInv s' /\ Permutation ((pos, hash) :: t_index s) (t_index s') /\
  ~ In pos (positions s) /\ (debug = true -> ~ In hash (hashes s)).
Proof.
  intros HI. unfold write_snapshot.
  destruct (debug && stored s hash) eqn:Ed; [discriminate|].
  unfold write_topology. destruct (index_get pos (t_index s)) eqn:Eg; [discriminate|].
  intros H. inversion H; subst. clear H. apply index_get_none in Eg.
  assert (Hnh : debug = true -> ~ In hash (hashes s)).
  { intros Hd Hin. apply stored_iff in Hin. rewrite Hd, Hin in Ed. discriminate. }
  pose proof (index_ins_perm pos hash (t_index s)) as HP.
  split; [|split; [exact HP|split; [exact Eg|exact Hnh]]].
  constructor; cbn.
  - unfold positions. cbn. apply index_ins_sorted; [apply (ti_sorted _ HI)|exact Eg].
  - intros Hd. unfold hashes. cbn. apply (Permutation_NoDup (Permutation_map snd HP)). cbn.
    constructor; [apply Hnh; exact Hd|apply (ti_hashes _ HI Hd)].
  - intros Hd h p. destruct (hash =? h) eqn:E.
    + apply N.eqb_eq in E. subst h. split.
      * intros H. inversion H; subst. apply (Permutation_in _ HP). left. reflexivity.
      * intros H. apply (Permutation_in _ (Permutation_sym HP)) in H. destruct H as [H|H].
        -- inversion H; subst. reflexivity.
        -- exfalso. apply (Hnh Hd). apply in_map_iff. exists (p, hash). tauto.
    + rewrite (ti_rev _ HI Hd). apply N.eqb_neq in E. split.
      * intros H. apply (Permutation_in _ HP). right. exact H.
      * intros H. apply (Permutation_in _ (Permutation_sym HP)) in H. destruct H as [H|H]; [|exact H].
        inversion H; subst. congruence.
Qed.

Lemma tinv_empty : TInv t_empty.
Proof.
  constructor; cbn.
  - constructor.
  - intros _. constructor.
  - intros _ h p. split; [discriminate|tauto].
Qed.

Lemma wstep_inv s w : TInv s -> TInv (wstep s w).
Proof.
  intros HI. unfold wstep. destruct (write_snapshot s (fst w) (snd w)) eqn:E; try exact HI.
  apply (write_ok _ _ _ _ HI E).
Qed.

Lemma wrun_inv ws : TInv (wrun ws).
Proof.
  unfold wrun. assert (H : forall s, TInv s -> TInv (fold_left wstep ws s)).
  { induction ws as [|w ws IH]; cbn; intros s Hs; [exact Hs|]. apply IH. apply wstep_inv. exact Hs. }
  apply H. apply tinv_empty.
Qed.

(* ---- listing ------------------------------------------------------------------------ *)

Lemma seek_split off l :
  StronglySorted N.lt (map fst l) ->
  exists pre, l = pre ++ seek off l /\ Forall (fun e => fst e < off) pre /\ Forall (fun e => off <= fst e) (seek off l).
Proof.
  induction l as [|[q g] t IH]; cbn; intros Hs.
  - exists []. repeat split; constructor.
  - inversion Hs as [|? ? Hs' Hf]; subst. destruct (q <? off) eqn:E.
    + apply N.ltb_lt in E. destruct (IH Hs') as [pre [H1 [H2 H3]]]. exists ((q, g) :: pre).
      split; [cbn; f_equal; exact H1|]. split; [constructor; [exact E|exact H2]|exact H3].
    + apply N.ltb_ge in E. exists []. split; [reflexivity|]. split; [constructor|].
      constructor; [exact E|]. rewrite Forall_forall in *. intros e He.
      assert (q < fst e) by (apply Hf; apply in_map; exact He). lia.
Qed.

Theorem listing_thm s off cnt :
  TInv s ->
  (list_limit < cnt -> list_since s off cnt = Err) /\
  (cnt <= list_limit ->
   exists l pre post,
     list_since s off cnt = Ok l /\
     t_index s = pre ++ l ++ post /\
     Forall (fun e => fst e < off) pre /\
     Forall (fun e => off <= fst e) (l ++ post) /\
     StronglySorted N.lt (map fst l) /\
     N.of_nat (length l) <= cnt /\
     (post <> [] -> N.of_nat (length l) = cnt)).
Proof.
  intros HI. unfold list_since. split.
  - intros H. apply N.ltb_lt in H. rewrite H. reflexivity.
  - intros H. assert (E : list_limit <? cnt = false) by (apply N.ltb_ge; exact H). rewrite E.
    destruct (seek_split off (t_index s) (ti_sorted _ HI)) as [pre [H1 [H2 H3]]].
    set (rest := seek off (t_index s)) in *.
    exists (firstn (N.to_nat cnt) rest), pre, (skipn (N.to_nat cnt) rest).
    split; [reflexivity|]. rewrite firstn_skipn. split; [exact H1|]. split; [exact H2|]. split; [exact H3|].
    split.
    + pose proof (ti_sorted _ HI) as Hs. unfold positions in Hs. rewrite H1, map_app in Hs.
      apply ss_app_inv in Hs. destruct Hs as [_ Hs].
      rewrite <- (firstn_skipn (N.to_nat cnt) rest), map_app in Hs. apply ss_app_inv in Hs. tauto.
    + split.
      * pose proof (firstn_le_length (N.to_nat cnt) rest). lia.
      * intros Hne. assert (Hlt : (N.to_nat cnt < length rest)%nat).
        { destruct (Nat.lt_ge_cases (N.to_nat cnt) (length rest)) as [Hl|Hl]; [exact Hl|].
          exfalso. apply Hne. apply skipn_all2. exact Hl. }
        rewrite firstn_length_le by lia. lia.
Qed.

(* ---- lookup ---------------------------------------------------------------------------- *)

Lemma seek_at p h l :
  StronglySorted N.lt (map fst l) -> In (p, h) l -> exists rest, seek p l = (p, h) :: rest.
Proof.
  intros Hs Hin. destruct (seek_split p l Hs) as [pre [H1 [H2 H3]]].
  rewrite H1 in Hin. apply in_app_or in Hin. destruct Hin as [Hin|Hin].
  - rewrite Forall_forall in H2. specialize (H2 _ Hin). cbn in H2. lia.
  - destruct (seek p l) as [|[q g] rest] eqn:E; [destruct Hin|].
    destruct Hin as [Hin|Hin]; [inversion Hin; subst; exists rest; reflexivity|]. exfalso.
    rewrite H1, map_app in Hs. apply ss_app_inv in Hs. destruct Hs as [_ Hs]. cbn in Hs.
    inversion Hs as [|? ? _ Hf]; subst. rewrite Forall_forall in Hf.
    assert (q < p) by (apply Hf; apply in_map_iff; exists (p, h); tauto).
    inversion H3 as [|? ? Hq _]; subst. cbn in Hq. lia.
Qed.

Theorem lookup_thm s :
  TInv s -> debug = true ->
  (forall h, lookup s h <> Err) /\
  (forall h p g, lookup s h = Ok (Some (p, g)) ->
     g = h /\ In (p, h) (t_index s) /\ list_since s p 1 = Ok [(p, h)]) /\
  (forall h p, In (p, h) (t_index s) -> lookup s h = Ok (Some (p, h))) /\
  (forall h, ~ In h (hashes s) -> lookup s h = Ok None).
Proof.
  intros HI Hd.
  pose proof (ss_nodup _ (ti_sorted _ HI)) as Hnd. unfold positions in Hnd.
  assert (Hfound : forall h p, In (p, h) (t_index s) -> lookup s h = Ok (Some (p, h))).
  { intros h p Hin. unfold lookup. rewrite (proj2 (ti_rev _ HI Hd h p) Hin).
    rewrite (index_get_in p h _ Hnd Hin). reflexivity. }
  split; [|split; [|split; [exact Hfound|]]].
  - intros h. unfold lookup. destruct (rev_get h (t_rev s)) as [p|] eqn:E; [|discriminate].
    apply (ti_rev _ HI Hd) in E. rewrite (index_get_in p h _ Hnd E). discriminate.
  - intros h p g H. unfold lookup in H. destruct (rev_get h (t_rev s)) as [p'|] eqn:E; [|discriminate].
    apply (ti_rev _ HI Hd) in E. rewrite (index_get_in p' h _ Hnd E) in H. inversion H; subst.
    split; [reflexivity|]. split; [exact E|].
    unfold list_since. cbn. destruct (seek_at p g _ (ti_sorted _ HI) E) as [rest ->]. reflexivity.
  - intros h Hni. unfold lookup. destruct (rev_get h (t_rev s)) as [p|] eqn:E; [|reflexivity].
    exfalso. apply (ti_rev _ HI Hd) in E. apply Hni. apply in_map_iff. exists (p, h). tauto.
Qed.

(* ---- the counter ------------------------------------------------------------------------ *)

Definition CInv (n : tnode) : Prop :=
  TInv (tn_store n) /\ Forall (fun p => p <= tn_seq n) (positions (tn_store n)).

Lemma last_pos_max l : StronglySorted N.lt (map fst l) -> Forall (fun p => p <= last_pos l) (map fst l).
Proof.
  induction l as [|[q g] t IH]; cbn [map fst]; intros Hs; [constructor|].
  inversion Hs as [|? ? Hs' Hf]; subst. destruct t as [|[q' g'] t'].
  - cbn. constructor; [lia|constructor].
  - specialize (IH Hs'). change (last_pos ((q, g) :: (q', g') :: t')) with (last_pos ((q', g') :: t')).
    constructor; [|exact IH].
    inversion IH as [|? ? Hq' _]; subst. inversion Hf as [|? ? Hqq _]; subst. cbn in *. lia.
Qed.

Theorem init_thm s n :
  TInv s -> topo_init s = Ok n ->
  tn_store n = s /\ In (tn_seq n) (positions s) /\ CInv n.
Proof.
  intros HI. unfold topo_init, last_snapshot.
  destruct (seek_split (last_pos (t_index s)) (t_index s) (ti_sorted _ HI)) as [pre [H1 [_ H3]]].
  destruct (firstn 10 (seek (last_pos (t_index s)) (t_index s))) as [|x [|y r]] eqn:E; cbn; try discriminate.
  intros H. inversion H; subst. cbn. clear H.
  assert (Hx : In x (seek (last_pos (t_index s)) (t_index s))).
  { rewrite <- (firstn_skipn 10). apply in_or_app. left. rewrite E. left. reflexivity. }
  assert (Hin : In x (t_index s)) by (rewrite H1; apply in_or_app; right; exact Hx).
  pose proof (last_pos_max _ (ti_sorted _ HI)) as Hmax. fold (positions s) in Hmax.
  assert (Hfx : fst x = last_pos (t_index s)).
  { rewrite Forall_forall in H3, Hmax. specialize (H3 _ Hx).
    assert (fst x <= last_pos (t_index s)) by (apply Hmax; apply in_map; exact Hin). lia. }
  split; [reflexivity|]. split; [apply in_map; exact Hin|].
  split; [exact HI|]. cbn. rewrite Hfx. exact Hmax.
Qed.

Theorem topo_write_thm n hash :
  CInv n -> tn_seq n + 1 < two64 ->
  let '(n', r) := topo_write n hash in
  CInv n' /\ tn_seq n' = tn_seq n + 1 /\
  match r with
  | Ok p => p = tn_seq n + 1 /\ ~ In p (positions (tn_store n)) /\
            Permutation ((p, hash) :: t_index (tn_store n)) (t_index (tn_store n'))
  | Err => False
  | Panic => debug = true /\ In hash (hashes (tn_store n)) /\ tn_store n' = tn_store n
  end.
Proof.
  intros [HI Hle] Hb. unfold topo_write. rewrite N.mod_small by exact Hb.
  assert (Hfree : ~ In (tn_seq n + 1) (positions (tn_store n))).
  { intros Hin. rewrite Forall_forall in Hle. specialize (Hle _ Hin). lia. }
  destruct (write_snapshot (tn_store n) (tn_seq n + 1) hash) as [s'| |] eqn:E.
  - destruct (write_ok _ _ _ _ HI E) as [HI' [HP [_ _]]]. cbn. split; [|split; [reflexivity|tauto]].
    split; [exact HI'|]. cbn. unfold positions.
    apply (Permutation_Forall (Permutation_map fst HP)). cbn. constructor; [lia|].
    rewrite Forall_forall in *. intros p Hp. specialize (Hle _ Hp). lia.
  - exfalso. exact (write_never_err _ _ _ E).
  - cbn. split; [|split; [reflexivity|]].
    + split; [exact HI|]. cbn. rewrite Forall_forall in *. intros p Hp. specialize (Hle _ Hp). lia.
    + unfold write_snapshot in E. destruct debug eqn:Ed; cbn in E.
      * destruct (stored (tn_store n) hash) eqn:Es.
        -- split; [reflexivity|]. split; [apply stored_iff; exact Es|reflexivity].
        -- exfalso. unfold write_topology in E.
           destruct (index_get (tn_seq n + 1) (t_index (tn_store n))) eqn:Eg; [|discriminate].
           apply index_get_some in Eg. apply Hfree. apply in_map_iff. exists (tn_seq n + 1, n0). tauto.
      * exfalso. unfold write_topology in E.
        destruct (index_get (tn_seq n + 1) (t_index (tn_store n))) eqn:Eg; [|discriminate].
        apply index_get_some in Eg. apply Hfree. apply in_map_iff. exists (tn_seq n + 1, n0). tauto.
Qed.

(* a node's life: a sequence of TopoWrite calls *)
Fixpoint topo_run (n : tnode) (hs : list N) : tnode * list (res N) :=
  match hs with
  | [] => (n, [])
  | h :: hs' => let '(n1, r) := topo_write n h in
                let '(n2, rs) := topo_run n1 hs' in (n2, r :: rs)
  end.

Fixpoint assigned (rs : list (res N)) : list N :=
  match rs with
  | [] => []
  | Ok p :: rs' => p :: assigned rs'
  | _ :: rs' => assigned rs'
  end.

Theorem counter_thm hs : forall n,
  CInv n -> tn_seq n + N.of_nat (length hs) < two64 ->
  let '(n', rs) := topo_run n hs in
  CInv n' /\
  StronglySorted N.lt (assigned rs) /\
  Forall (fun p => tn_seq n < p /\ In p (positions (tn_store n'))) (assigned rs) /\
  (forall q, In q (positions (tn_store n)) -> In q (positions (tn_store n'))).
Proof.
  induction hs as [|h hs IH]; intros n HC Hb.
  - cbn. split; [exact HC|]. split; [constructor|]. split; [constructor|tauto].
  - cbn [topo_run]. cbn [length] in Hb.
    pose proof (topo_write_thm n h HC ltac:(lia)) as HW.
    destruct (topo_write n h) as [n1 r]. destruct HW as [HC1 [Hseq Hr]].
    specialize (IH n1 HC1 ltac:(lia)). destruct (topo_run n1 hs) as [n2 rs].
    destruct IH as [HC2 [Hs [Hf Hkeep]]].
    assert (Hkeep1 : forall q, In q (positions (tn_store n)) -> In q (positions (tn_store n1))).
    { intros q Hq. destruct r as [p| |].
      - destruct Hr as [_ [_ HP]]. unfold positions. apply (Permutation_in _ (Permutation_map fst HP)). right. exact Hq.
      - destruct Hr.
      - destruct Hr as [_ [_ ->]]. exact Hq. }
    split; [exact HC2|].
    assert (Hf' : Forall (fun p => tn_seq n < p /\ In p (positions (tn_store n2))) (assigned rs)).
    { rewrite Forall_forall in *. intros p Hp. destruct (Hf _ Hp). split; [lia|assumption]. }
    destruct r as [p| |]; cbn [assigned].
    + destruct Hr as [-> [_ HP]]. split; [|split].
      * constructor; [exact Hs|]. rewrite Forall_forall in *. intros q Hq. destruct (Hf _ Hq). lia.
      * constructor; [|exact Hf']. split; [lia|]. apply Hkeep. unfold positions.
        apply (Permutation_in _ (Permutation_map fst HP)). left. reflexivity.
      * intros q Hq. apply Hkeep, Hkeep1, Hq.
    + destruct Hr.
    + split; [exact Hs|]. split; [exact Hf'|]. intros q Hq. apply Hkeep, Hkeep1, Hq.
Qed.

Theorem unique_thm ws :
  let s := wrun ws in
  StronglySorted N.lt (positions s) /\ NoDup (positions s) /\ (debug = true -> NoDup (hashes s)).
Proof.
  cbn. pose proof (wrun_inv ws) as HI. split; [apply (ti_sorted _ HI)|].
  split; [apply ss_nodup, (ti_sorted _ HI)|apply (ti_hashes _ HI)].
Qed.

Theorem counter_from_store_thm ws hs n :
  topo_init (wrun ws) = Ok n -> tn_seq n + N.of_nat (length hs) < two64 ->
  let '(n', rs) := topo_run n hs in
  StronglySorted N.lt (assigned rs) /\
  Forall (fun p => (forall q, In q (positions (wrun ws)) -> q < p) /\ In p (positions (tn_store n'))) (assigned rs) /\
  (forall q, In q (positions (wrun ws)) -> In q (positions (tn_store n'))).
Proof.
  intros Hi Hb. destruct (init_thm _ _ (wrun_inv ws) Hi) as [Hst [_ HC]].
  pose proof (counter_thm hs n HC Hb) as H. destruct (topo_run n hs) as [n' rs].
  destruct H as [_ [Hs [Hf Hk]]]. rewrite Hst in Hk. split; [exact Hs|]. split; [|exact Hk].
  destruct HC as [_ Hle]. rewrite Hst in Hle. rewrite Forall_forall in *. intros p Hp.
  destruct (Hf _ Hp) as [H1 H2]. split; [|exact H2]. intros q Hq. specialize (Hle _ Hq). lia.
Qed.
