(* Lemmas about Model/Membership.v used by Props/C11.v (and Proofs/Finality.v). *)
From Coq Require Import List ZArith NArith Bool Lia ZifyN ZifyNat ZifyBool Permutation.
Require Import Mixin.Base.Res Mixin.Gen.Consts Mixin.Model.Membership.
Import ListNotations.
Open Scope N_scope.

(* ---- order facts ------------------------------------------------------------------ *)
Fixpoint ts_sorted (l : list nrec) : Prop :=
  match l with
  | [] => True
  | x :: l' => Forall (fun y => r_ts x <= r_ts y) l' /\ ts_sorted l'
  end.

Lemma rec_lt_ts : forall a b, rec_lt a b = true -> r_ts a <= r_ts b.
Proof. intros a b H. unfold rec_lt in H. lia. Qed.

Lemma rec_nlt_ts : forall a b, rec_lt a b = false -> r_ts b <= r_ts a.
Proof. intros a b H. unfold rec_lt in H. lia. Qed.

Lemma Forall_insert : forall (P : nrec -> Prop) r l,
  Forall P l -> P r -> Forall P (insert_rec r l).
Proof.
  intros P r l Hl Hr. induction l as [|x l IH]; cbn [insert_rec].
  - constructor; auto.
  - inversion Hl as [|? ? Hx Hl']; subst.
    destruct (rec_lt r x); constructor; auto.
Qed.

Lemma insert_sorted : forall r l, ts_sorted l -> ts_sorted (insert_rec r l).
Proof.
  intros r l. induction l as [|x l IH]; intros Hs; cbn [insert_rec].
  - cbn. split; [constructor|exact I].
  - destruct Hs as [Hx Hl]. destruct (rec_lt r x) eqn:E.
    + cbn [ts_sorted]. split; [|split; assumption].
      apply rec_lt_ts in E. constructor; [exact E|].
      eapply Forall_impl; [|exact Hx]. cbn. intros y Hy. lia.
    + cbn [ts_sorted]. split; [|apply IH; exact Hl].
      apply Forall_insert; [exact Hx|]. apply rec_nlt_ts in E. exact E.
Qed.

Lemma fold_insert_sorted : forall l acc,
  ts_sorted acc -> ts_sorted (fold_left (fun acc r => insert_rec r acc) l acc).
Proof.
  induction l as [|r l IH]; intros acc Ha; cbn [fold_left]; [exact Ha|].
  apply IH. apply insert_sorted. exact Ha.
Qed.

Lemma sort_recs_sorted : forall l, ts_sorted (sort_recs l).
Proof. intros l. unfold sort_recs. apply fold_insert_sorted. exact I. Qed.

Lemma ts_sorted_app : forall a b, ts_sorted (a ++ b) ->
  ts_sorted a /\ ts_sorted b /\ Forall (fun x => Forall (fun y => r_ts x <= r_ts y) b) a.
Proof.
  induction a as [|x a IH]; intros b H; cbn in *.
  - repeat split; auto.
  - destruct H as [Hx Hs]. destruct (IH b Hs) as (Ha & Hb & Hab).
    apply Forall_app in Hx. destruct Hx as [Hxa Hxb].
    repeat split; auto.
Qed.

(* ---- take_before --------------------------------------------------------------------- *)
Lemma take_before_all_later : forall th l,
  Forall (fun r => th <= r_ts r) l -> take_before th l = [].
Proof.
  intros th l H. destruct l as [|x l]; [reflexivity|].
  inversion H as [|? ? Hx _]; subst. cbn [take_before].
  destruct (th <=? r_ts x) eqn:E; [reflexivity|lia].
Qed.

Lemma take_before_app_earlier : forall th a b,
  Forall (fun r => r_ts r < th) a -> take_before th (a ++ b) = a ++ take_before th b.
Proof.
  intros th a b H. induction a as [|x a IH]; [reflexivity|].
  inversion H as [|? ? Hx Ha]; subst. cbn [app take_before].
  destruct (th <=? r_ts x) eqn:E; [lia|]. rewrite (IH Ha). reflexivity.
Qed.

Lemma take_before_idem : forall t th l, t <= th ->
  take_before t (take_before th l) = take_before t l.
Proof.
  intros t th l Hle. induction l as [|x l IH]; [reflexivity|].
  cbn [take_before]. destruct (th <=? r_ts x) eqn:E.
  - cbn [take_before]. destruct (t <=? r_ts x) eqn:E2; [reflexivity|lia].
  - cbn [take_before]. destruct (t <=? r_ts x); [reflexivity|]. rewrite IH. reflexivity.
Qed.

Lemma take_before_insert_later : forall th r l,
  ts_sorted l -> th <= r_ts r -> take_before th (insert_rec r l) = take_before th l.
Proof.
  intros th r l. induction l as [|x l IH]; intros Hs Hr; cbn [insert_rec].
  - cbn [take_before]. destruct (th <=? r_ts r) eqn:E; [reflexivity|lia].
  - destruct Hs as [Hx Hl]. destruct (rec_lt r x) eqn:E.
    + apply rec_lt_ts in E. cbn [take_before].
      destruct (th <=? r_ts r) eqn:E1; [|lia].
      destruct (th <=? r_ts x) eqn:E2; [reflexivity|lia].
    + cbn [take_before]. destruct (th <=? r_ts x); [reflexivity|].
      rewrite (IH Hl Hr). reflexivity.
Qed.

Lemma take_before_fold_later : forall th later acc,
  ts_sorted acc -> Forall (fun r => th <= r_ts r) later ->
  take_before th (fold_left (fun acc r => insert_rec r acc) later acc) = take_before th acc.
Proof.
  intros th later. induction later as [|r later IH]; intros acc Ha Hl; cbn [fold_left]; [reflexivity|].
  inversion Hl as [|? ? Hr Hl']; subst.
  rewrite IH; [|apply insert_sorted; exact Ha|exact Hl'].
  apply take_before_insert_later; assumption.
Qed.

Lemma take_before_sort_app_later : forall th recs later,
  Forall (fun r => th <= r_ts r) later ->
  take_before th (sort_recs (recs ++ later)) = take_before th (sort_recs recs).
Proof.
  intros th recs later Hl. unfold sort_recs. rewrite fold_left_app.
  apply take_before_fold_later; [apply fold_insert_sorted; exact I|exact Hl].
Qed.

Lemma take_before_filter : forall th l, ts_sorted l ->
  take_before th l = filter (fun r => r_ts r <? th) l.
Proof.
  intros th l. induction l as [|x l IH]; intros Hs; [reflexivity|].
  destruct Hs as [Hx Hl]. cbn [take_before filter].
  destruct (th <=? r_ts x) eqn:E.
  - destruct (r_ts x <? th) eqn:E2; [lia|].
    symmetry. clear IH Hl. induction l as [|y l IH]; [reflexivity|].
    inversion Hx as [|? ? Hy Hx']; subst. cbn [filter].
    destruct (r_ts y <? th) eqn:E3; [lia|]. apply IH. exact Hx'.
  - destruct (r_ts x <? th) eqn:E2; [|lia]. rewrite (IH Hl). reflexivity.
Qed.

(* the direct sequence looks at the records before the threshold only *)
Lemma nsws_prefix : forall t th ao all, t <= th ->
  node_sequence_without_state t ao (take_before th all) = node_sequence_without_state t ao all.
Proof.
  intros t th ao all Hle. unfold node_sequence_without_state.
  rewrite take_before_idem by exact Hle. reflexivity.
Qed.

Lemma nsws_ext : forall t1 t2 ao all1 all2,
  take_before t1 all1 = take_before t2 all2 ->
  node_sequence_without_state t1 ao all1 = node_sequence_without_state t2 ao all2.
Proof. intros t1 t2 ao all1 all2 H. unfold node_sequence_without_state. rewrite H. reflexivity. Qed.

(* ---- the state-sequence cache equals the direct computation ------------------------ *)
Lemma u64_small : forall x, x < two64 -> u64 x = x.
Proof. intros x H. unfold u64. apply N.mod_small. exact H. Qed.

Lemma lookup_seq_direct_gen : forall th ao all, th < two64 -> ts_sorted all ->
  forall pre suf, all = pre ++ suf -> Forall (fun r => th <= r_ts r) suf ->
  lookup_seq th (map (fun n => (r_ts n, node_sequence_without_state (u64 (r_ts n + 1)) ao all)) (rev pre))
  = node_sequence_without_state th ao all.
Proof.
  intros th ao all Hth Hs pre. induction pre as [|n p IH] using rev_ind; intros suf Hall Hsuf.
  - cbn [rev map lookup_seq]. cbn [app] in Hall. subst all.
    unfold node_sequence_without_state. rewrite (take_before_all_later th suf Hsuf).
    destruct ao; reflexivity.
  - rewrite rev_app_distr. cbn [rev app map lookup_seq].
    destruct (r_ts n <? th) eqn:E.
    + apply nsws_ext. rewrite u64_small by lia.
      rewrite <- app_assoc in Hall. cbn [app] in Hall.
      assert (Hsplit : ts_sorted (p ++ n :: suf)) by (rewrite <- Hall; exact Hs).
      apply ts_sorted_app in Hsplit. destruct Hsplit as (_ & _ & Hpn).
      assert (Hp1 : Forall (fun r => r_ts r < r_ts n + 1) p).
      { eapply Forall_impl; [|exact Hpn]. cbn. intros a Ha.
        inversion Ha as [|? ? Han _]; subst. lia. }
      assert (Hp2 : Forall (fun r => r_ts r < th) p).
      { eapply Forall_impl; [|exact Hp1]. cbn. intros a Ha. lia. }
      rewrite Hall.
      rewrite (take_before_app_earlier _ p (n :: suf) Hp1).
      rewrite (take_before_app_earlier _ p (n :: suf) Hp2).
      f_equal. cbn [take_before].
      destruct (r_ts n + 1 <=? r_ts n) eqn:E1; [lia|].
      destruct (th <=? r_ts n) eqn:E2; [lia|].
      f_equal.
      rewrite (take_before_all_later th suf Hsuf).
      apply take_before_all_later.
      eapply Forall_impl; [|exact Hsuf]. cbn. intros a Ha. lia.
    + apply (IH (n :: suf)).
      * rewrite Hall. rewrite <- app_assoc. reflexivity.
      * constructor; [lia|exact Hsuf].
Qed.

Lemma lookup_seq_direct : forall th ao all, th < two64 -> ts_sorted all ->
  lookup_seq th (rev (build_sequences ao all)) = node_sequence_without_state th ao all.
Proof.
  intros th ao all Hth Hs. unfold build_sequences. rewrite <- map_rev.
  apply (lookup_seq_direct_gen th ao all Hth Hs all []); [rewrite app_nil_r; reflexivity|constructor].
Qed.

Lemma nodes_list_load : forall recs genesis epoch mainnet th ao, th < two64 ->
  nodes_list (load_node recs genesis epoch mainnet) th ao
  = node_sequence_without_state th ao (sort_recs recs).
Proof.
  intros recs genesis epoch mainnet th ao Hth. unfold nodes_list, load_node. cbn [n_aseqs n_seqs].
  destruct ao; apply lookup_seq_direct; auto using sort_recs_sorted.
Qed.

(* ---- two nodes that agree on every list up to th agree on every view up to th -------- *)
Definition agree_upto (th : N) (a b : mnode) : Prop :=
  n_genesis a = n_genesis b /\ n_epoch a = n_epoch b /\ n_mainnet a = n_mainnet b /\
  forall t ao, t <= th -> nodes_list a t ao = nodes_list b t ao.

Lemma agree_le : forall th t a b, t <= th -> agree_upto th a b -> agree_upto t a b.
Proof.
  intros th t a b Hle (Hg & He & Hm & Hl). repeat split; auto.
  intros t' ao Ht'. apply Hl. lia.
Qed.

Lemma agree_pledging : forall th a b, agree_upto th a b -> pledging_node a th = pledging_node b th.
Proof.
  intros th a b (Hg & He & Hm & Hl). unfold pledging_node.
  rewrite (Hl th false (N.le_refl th)). reflexivity.
Qed.

Lemma agree_get : forall th a b id, agree_upto th a b ->
  get_accepted_or_pledging a id th = get_accepted_or_pledging b id th.
Proof.
  intros th a b id (Hg & He & Hm & Hl). unfold get_accepted_or_pledging.
  rewrite (Hl th false (N.le_refl th)). reflexivity.
Qed.

Lemma agree_is_genesis : forall th a b id, agree_upto th a b -> is_genesis a id = is_genesis b id.
Proof. intros th a b id (Hg & _). unfold is_genesis. rewrite Hg. reflexivity. Qed.

Lemma agree_ready : forall th a b c t, agree_upto th a b -> consensus_ready a c t = consensus_ready b c t.
Proof.
  intros th a b c t H. unfold consensus_ready. rewrite (agree_is_genesis th a b _ H). reflexivity.
Qed.

Lemma agree_accept_hour : forall th a b t, agree_upto th a b -> accept_hour a t = accept_hour b t.
Proof. intros th a b t (_ & He & _). unfold accept_hour. rewrite He. reflexivity. Qed.

Lemma agree_check_remove : forall th a b id, agree_upto th a b ->
  check_remove_possibility a id th = check_remove_possibility b id th.
Proof.
  intros th a b id H. unfold check_remove_possibility.
  rewrite (agree_pledging th a b H), (agree_accept_hour th a b th H).
  destruct H as (Hg & He & Hm & Hl).
  rewrite (Hl th false (N.le_refl th)), He. reflexivity.
Qed.

(* constants: a day is 24 hours (checked against the regenerated constants) *)
Lemma one_day_24h : one_day = 24 * hour_ns.
Proof. vm_compute. reflexivity. Qed.
Lemma hour_ns_pos : 0 < hour_ns.
Proof. vm_compute. reflexivity. Qed.
Lemma accept_begin_lt_24 : accept_begin < 24.
Proof. vm_compute. reflexivity. Qed.

Lemma window_start_le : forall epoch ts,
  epoch <= ts -> ts < two64 ->
  accept_begin <= (u64sub ts epoch / hour_ns) mod 24 ->
  window_start epoch ts <= ts.
Proof.
  intros epoch ts He Hts Hh. unfold window_start, u64, u64sub in *.
  assert (Hsub : (ts + two64 - epoch) mod two64 = ts - epoch).
  { replace (ts + two64 - epoch) with ((ts - epoch) + 1 * two64) by lia.
    rewrite N.mod_add by (vm_compute; discriminate). apply N.mod_small. lia. }
  rewrite Hsub in Hh. rewrite one_day_24h.
  pose proof hour_ns_pos as Hp.
  set (s := ts - epoch) in *. set (H := hour_ns) in *.
  assert (Hs : s = ts - epoch) by reflexivity.
  assert (Hq : s / (24 * H) = (s / H) / 24) by (rewrite N.div_div by lia; f_equal; lia).
  pose proof (N.div_mod (s / H) 24 ltac:(lia)) as Hdm.
  pose proof (N.mul_div_le s H ltac:(lia)) as Hle.
  assert (Hbound : s / H / 24 * (24 * H) + accept_begin * H <= s).
  { assert (Hm : accept_begin * H <= (s / H) mod 24 * H) by (apply N.mul_le_mono_r; exact Hh).
    set (q := s / H / 24) in *. set (m := (s / H) mod 24) in *.
    assert (Hle' : H * (24 * q + m) <= s) by (rewrite <- Hdm; exact Hle).
    replace (H * (24 * q + m)) with (q * (24 * H) + m * H) in Hle' by ring.
    clear - Hm Hle'. clearbody q m H.
    apply (N.le_trans _ (q * (24 * H) + m * H)); [|exact Hle'].
    apply N.add_le_mono_l. exact Hm. }
  rewrite Hq.
  assert (Hfin : epoch + s / H / 24 * (24 * H) + accept_begin * H <= ts) by lia.
  rewrite N.mod_small; [exact Hfin|]. unfold two64 in *. lia.
Qed.

Lemma agree_removing : forall th a b, th < two64 -> agree_upto th a b ->
  removing_at a th = removing_at b th.
Proof.
  intros th a b Hth H. unfold removing_at.
  rewrite (agree_accept_hour th a b th H).
  destruct H as (Hg & He & Hm & Hl). rewrite He.
  destruct (th <? n_epoch b) eqn:E1; [reflexivity|].
  destruct (accept_hour b th) eqn:E2; [|reflexivity]. cbn [negb orb].
  assert (Hw : window_start (n_epoch b) th <= th).
  { apply window_start_le; [lia|exact Hth|]. unfold accept_hour in E2. lia. }
  apply agree_check_remove. apply (agree_le th); [exact Hw|].
  repeat split; auto.
Qed.

Lemma agree_predictive : forall th a b t, agree_upto th a b -> use_predictive a t = use_predictive b t.
Proof. intros th a b t (_ & _ & Hm & _). unfold use_predictive. rewrite Hm. reflexivity. Qed.

Lemma agree_predicted : forall th a b, th < two64 -> agree_upto th a b ->
  predicted_removal a th = predicted_removal b th.
Proof.
  intros th a b Hth H. unfold predicted_removal.
  rewrite (agree_predictive th a b th H), (agree_removing th a b Hth H). reflexivity.
Qed.

Lemma agree_threshold_step : forall th a b t final c, agree_upto th a b ->
  threshold_step a t final c = threshold_step b t final c.
Proof.
  intros th a b t final c H. unfold threshold_step.
  rewrite (agree_is_genesis th a b _ H). reflexivity.
Qed.

Lemma agree_threshold_count : forall th a b t final rm l base, agree_upto th a b ->
  threshold_count a t final rm l base = threshold_count b t final rm l base.
Proof.
  intros th a b t final rm l. induction l as [|c l IH]; intros base H; cbn [threshold_count]; [reflexivity|].
  rewrite (agree_threshold_step th a b t final c H).
  destruct (is_removing rm c); [apply IH; exact H|].
  destruct (threshold_step b t final c); [apply IH; exact H|reflexivity].
Qed.

Lemma agree_threshold : forall th a b final, th < two64 -> agree_upto th a b ->
  consensus_threshold a th final = consensus_threshold b th final.
Proof.
  intros th a b final Hth H. unfold consensus_threshold.
  rewrite (agree_predicted th a b Hth H), (agree_threshold_count th a b th final _ _ 0 H).
  destruct H as (_ & _ & _ & Hl). rewrite (Hl th false (N.le_refl th)). reflexivity.
Qed.

Lemma agree_consensus_nodes : forall th a b ch round, th < two64 -> agree_upto th a b ->
  consensus_nodes a ch round th = consensus_nodes b ch round th.
Proof.
  intros th a b ch round Hth H. unfold consensus_nodes.
  rewrite (agree_predicted th a b Hth H).
  assert (Hf : forall l, filter (fun c => negb (is_removing (predicted_removal b th) c) && consensus_ready a c th) l
                       = filter (fun c => negb (is_removing (predicted_removal b th) c) && consensus_ready b c th) l).
  { intros l. apply filter_ext. intros c. rewrite (agree_ready th a b c th H). reflexivity. }
  rewrite Hf. destruct H as (_ & _ & _ & Hl). rewrite (Hl th false (N.le_refl th)). reflexivity.
Qed.

Lemma agree_elect : forall th a b op, agree_upto th a b -> elect a op th = elect b op th.
Proof.
  intros th a b op (Hg & He & Hm & Hl). unfold elect.
  rewrite (Hl th true (N.le_refl th)), He. reflexivity.
Qed.

(* ---- all views in one record ------------------------------------------------------------ *)
Record views := mkviews {
  v_list : list cnode; v_accepted : list cnode;
  v_threshold_final : res N; v_threshold_open : res N;
  v_ids : list N; v_keys : list N;
  v_pledging : option cnode; v_removing : option cnode;
  v_elect : res N; v_get : option cnode }.

Definition views_at (nd : mnode) (ch : mchain) (round op id t : N) : views :=
  mkviews (nodes_list nd t false) (nodes_list nd t true)
          (consensus_threshold nd t true) (consensus_threshold nd t false)
          (consensus_ids nd ch round t) (consensus_keys nd ch round t)
          (pledging_node nd t) (removing_at nd t) (elect nd op t)
          (get_accepted_or_pledging nd id t).

Lemma agree_views : forall th a b ch round op id, th < two64 -> agree_upto th a b ->
  views_at a ch round op id th = views_at b ch round op id th.
Proof.
  intros th a b ch round op id Hth H. unfold views_at, consensus_ids, consensus_keys.
  rewrite (agree_threshold th a b true Hth H), (agree_threshold th a b false Hth H),
          (agree_consensus_nodes th a b ch round Hth H), (agree_pledging th a b H),
          (agree_removing th a b Hth H), (agree_elect th a b op H), (agree_get th a b id H).
  destruct H as (_ & _ & _ & Hl).
  rewrite (Hl th false (N.le_refl th)), (Hl th true (N.le_refl th)). reflexivity.
Qed.

Lemma load_agree : forall recs later genesis epoch mainnet th, th < two64 ->
  Forall (fun r => th <= r_ts r) later ->
  agree_upto th (load_node recs genesis epoch mainnet) (load_node (recs ++ later) genesis epoch mainnet).
Proof.
  intros recs later genesis epoch mainnet th Hth Hl. repeat split.
  intros t ao Ht.
  rewrite !nodes_list_load by lia.
  rewrite <- (nsws_prefix t th ao (sort_recs recs) Ht).
  rewrite <- (nsws_prefix t th ao (sort_recs (recs ++ later)) Ht).
  rewrite (take_before_sort_app_later th recs later Hl). reflexivity.
Qed.

Lemma views_append_later : forall recs later genesis epoch mainnet ch round op id th t,
  th < two64 -> t <= th -> Forall (fun r => th <= r_ts r) later ->
  views_at (load_node (recs ++ later) genesis epoch mainnet) ch round op id t
  = views_at (load_node recs genesis epoch mainnet) ch round op id t.
Proof.
  intros recs later genesis epoch mainnet ch round op id th t Hth Ht Hl. symmetry.
  apply agree_views; [lia|]. apply (agree_le th); [exact Ht|]. apply load_agree; assumption.
Qed.

(* ---- storage.ReadAllNodes ------------------------------------------------------------------ *)
Lemma read_all_append_later : forall th store later,
  Forall (fun r => th < r_ts r) later ->
  read_all_with_state th (store ++ later) = read_all_with_state th store.
Proof.
  intros th store later H. unfold read_all_with_state. rewrite filter_app.
  assert (Hn : filter (fun r => r_ts r <=? th) later = []).
  { induction later as [|x l IH]; [reflexivity|]. inversion H as [|? ? Hx Hl]; subst.
    cbn [filter]. destruct (r_ts x <=? th) eqn:E; [lia|]. apply IH. exact Hl. }
  rewrite Hn. apply app_nil_r.
Qed.

(* ---- custodian ------------------------------------------------------------------------------- *)
Section CustodianProofs.
  Variable P : Type.
  Variable parse : N -> bool -> res P.

  Definition cache_ok (c : ccache P) : Prop :=
    forall k p, cache_load P k c = Some p -> parse (fst k) (snd k) = Ok p.

  Lemma cache_ok_nil : cache_ok [].
  Proof. intros k p H. cbn in H. discriminate. Qed.

  Lemma cache_ok_cons : forall tx g p c, parse tx g = Ok p -> cache_ok c -> cache_ok (((tx, g), p) :: c).
  Proof.
    intros tx g p c Hp Hc [tx' g'] p' H. cbn [cache_load fst snd] in H.
    destruct ((tx =? tx') && Bool.eqb g g') eqn:E.
    - apply andb_prop in E. destruct E as [E1 E2]. apply N.eqb_eq in E1. apply eqb_prop in E2.
      subst. inversion H; subst. cbn [fst snd]. exact Hp.
    - apply (Hc (tx', g') p' H).
  Qed.

  Lemma cust_scan_cached_eq : forall ts recs g found c, cache_ok c ->
    fst (cust_scan_cached P parse ts recs g found c) = cust_scan P parse ts recs g found /\
    cache_ok (snd (cust_scan_cached P parse ts recs g found c)).
  Proof.
    intros ts recs. induction recs as [|[rts tx] rest IH]; intros g found c Hc; cbn [cust_scan_cached cust_scan].
    - split; [reflexivity|exact Hc].
    - destruct (ts <? rts); [split; [reflexivity|exact Hc]|].
      destruct (cache_load P (tx, g) c) as [p|] eqn:El.
      + pose proof (Hc (tx, g) p El) as Hp. cbn [fst snd] in Hp. rewrite Hp. apply IH. exact Hc.
      + destruct (parse tx g) as [p| |] eqn:Ep; try (split; [reflexivity|exact Hc]).
        apply IH. apply cache_ok_cons; assumption.
  Qed.

  Lemma read_custodian_eq : forall recs ts c, cache_ok c ->
    fst (read_custodian P parse recs ts c) = read_custodian_direct P parse recs ts /\
    cache_ok (snd (read_custodian P parse recs ts c)).
  Proof. intros. unfold read_custodian, read_custodian_direct. apply cust_scan_cached_eq. assumption. Qed.

  Lemma run_queries_eq : forall qs c, cache_ok c ->
    run_queries P parse qs c = map (fun q => read_custodian_direct P parse (fst q) (snd q)) qs.
  Proof.
    induction qs as [|[recs ts] qs IH]; intros c Hc; cbn [run_queries map]; [reflexivity|].
    destruct (read_custodian_eq recs ts c Hc) as [H1 H2].
    destruct (read_custodian P parse recs ts c) as [r c'] eqn:E. cbn [fst snd] in *.
    rewrite H1. f_equal. apply IH. exact H2.
  Qed.

  Lemma cust_scan_put_later : forall ts ts' tx recs g found, ts < ts' ->
    cust_scan P parse ts (cust_put ts' tx recs) g found = cust_scan P parse ts recs g found.
  Proof.
    intros ts ts' tx recs. induction recs as [|[t x] rest IH]; intros g found Hlt; cbn [cust_put cust_scan].
    - destruct (ts <? ts') eqn:E; [reflexivity|lia].
    - destruct (ts' <? t) eqn:E1.
      + cbn [cust_scan]. destruct (ts <? ts') eqn:E2; [|lia].
        destruct (ts <? t) eqn:E3; [reflexivity|lia].
      + destruct (ts' =? t) eqn:E2.
        * cbn [cust_scan]. destruct (ts <? ts') eqn:E3; [|lia].
          destruct (ts <? t) eqn:E4; [reflexivity|lia].
        * cbn [cust_scan]. destruct (ts <? t); [reflexivity|].
          destruct (parse x g); try reflexivity. apply IH. exact Hlt.
  Qed.
End CustodianProofs.
