(* Lemmas about the finalization model (Model/Finalize.v): atomicity, effect
   families and first-finalization-wins of write_snapshot (C15); supply
   accounting over validated histories (C17). *)
From Coq Require Import List ZArith NArith Bool Lia ZifyN ZifyNat ZifyBool.
Require Import Mixin.Base.Res Mixin.Gen.Consts Mixin.Model.Fixed Mixin.Model.Finalize.
Import ListNotations.
Open Scope Z_scope.

(* ---- generic tactics ------------------------------------------------------- *)

Ltac inv H := inversion H; subst; clear H.

Ltac res_inv :=
  repeat match goal with
  | H : Ok _ = Ok _ |- _ => inv H
  | H : @Err _ = Ok _ |- _ => discriminate H
  | H : @Panic _ = Ok _ |- _ => discriminate H
  | H : bind ?r _ = Ok _ |- _ => destruct r eqn:?; cbn [bind] in H
  | H : rmap _ ?r = Ok _ |- _ => destruct r eqn:?; cbn [rmap] in H
  | H : (if ?b then _ else _) = Ok _ |- _ => destruct b eqn:?
  | H : match ?x with _ => _ end = Ok _ |- _ => destruct x eqn:?
  | H : (let '(_, _) := ?x in _) = Ok _ |- _ => destruct x eqn:?
  end.

(* ---- key equalities ----------------------------------------------------------- *)

Definition eqb_ok {K} (eqb : K -> K -> bool) := forall a b, eqb a b = true <-> a = b.

Lemma eq1_ok : eqb_ok eq1.
Proof. intros a b. unfold eq1. apply N.eqb_eq. Qed.

Lemma eq2_ok : eqb_ok eq2.
Proof.
  intros [a1 a2] [b1 b2]. unfold eq2. cbn [fst snd]. rewrite andb_true_iff, !N.eqb_eq.
  split; [intros [-> ->]; reflexivity | intros H; inv H; auto].
Qed.

Lemma eq3_ok : eqb_ok eq3.
Proof.
  intros [[a1 a2] a3] [[b1 b2] b3]. unfold eq3. cbn [fst snd]. rewrite !andb_true_iff, !N.eqb_eq.
  split; [intros [[-> ->] ->]; reflexivity | intros H; inv H; auto].
Qed.

Lemma eqb_refl_ok {K} (eqb : K -> K -> bool) : eqb_ok eqb -> forall a, eqb a a = true.
Proof. intros H a. apply H. reflexivity. Qed.

Lemma eqb_neq_ok {K} (eqb : K -> K -> bool) : eqb_ok eqb -> forall a b, a <> b -> eqb a b = false.
Proof. intros H a b n. destruct (eqb a b) eqn:E; auto. apply H in E. contradiction. Qed.

Lemma eqb_false_neq {K} (eqb : K -> K -> bool) : eqb_ok eqb -> forall a b, eqb a b = false -> a <> b.
Proof. intros H a b E ->. rewrite (eqb_refl_ok eqb H) in E. discriminate. Qed.

(* ---- maps ------------------------------------------------------------------------ *)

Lemma nodup_snoc {A} : forall (l : list A) k, NoDup l -> ~ In k l -> NoDup (l ++ [k]).
Proof.
  induction l as [|x l IH]; intros k Hnd Hn; cbn [app].
  - constructor; [intros []|constructor].
  - inv Hnd. constructor.
    + rewrite in_app_iff. intros [H|[H|[]]]; [contradiction|]. subst. apply Hn. left. reflexivity.
    + apply IH; auto. intros H. apply Hn. right. exact H.
Qed.

Section MapLemmas.
  Context {K V : Type} (eqb : K -> K -> bool) (Hok : eqb_ok eqb).

  Lemma lookup_set_same : forall (m : list (K * V)) k v, lookup eqb (set eqb m k v) k = Some v.
  Proof.
    induction m as [|[k' v'] m IH]; intros k v; cbn [set lookup].
    - rewrite (eqb_refl_ok eqb Hok). reflexivity.
    - destruct (eqb k' k) eqn:E; cbn [lookup]; rewrite E; auto.
  Qed.

  Lemma lookup_set_other : forall (m : list (K * V)) k v k', k <> k' ->
    lookup eqb (set eqb m k v) k' = lookup eqb m k'.
  Proof.
    induction m as [|[k0 v0] m IH]; intros k v k' Hn; cbn [set lookup].
    - rewrite (eqb_neq_ok eqb Hok k k' Hn). reflexivity.
    - destruct (eqb k0 k) eqn:E; cbn [lookup].
      + apply Hok in E. subst k0. rewrite (eqb_neq_ok eqb Hok k k' Hn). reflexivity.
      + destruct (eqb k0 k'); auto.
  Qed.

  Lemma lookup_set : forall (m : list (K * V)) k v k',
    lookup eqb (set eqb m k v) k' = if eqb k k' then Some v else lookup eqb m k'.
  Proof.
    intros m k v k'. destruct (eqb k k') eqn:E.
    - apply Hok in E. subst. apply lookup_set_same.
    - apply lookup_set_other. apply (eqb_false_neq eqb Hok). exact E.
  Qed.

  Lemma mem_set : forall (m : list (K * V)) k v k',
    mem eqb (set eqb m k v) k' = eqb k k' || mem eqb m k'.
  Proof. intros. unfold mem. rewrite lookup_set. destruct (eqb k k'); reflexivity. Qed.

  Lemma set_keys_absent : forall (m : list (K * V)) k v, lookup eqb m k = None ->
    set eqb m k v = m ++ [(k, v)].
  Proof.
    induction m as [|[k0 v0] m IH]; intros k v H; cbn [set lookup app] in *; auto.
    destruct (eqb k0 k); [discriminate|]. rewrite IH; auto.
  Qed.

  Lemma lookup_in : forall (m : list (K * V)) k v, lookup eqb m k = Some v -> In (k, v) m.
  Proof.
    induction m as [|[k0 v0] m IH]; intros k v H; cbn [lookup] in H; [discriminate|].
    destruct (eqb k0 k) eqn:E.
    - apply Hok in E. inv H. left. reflexivity.
    - right. auto.
  Qed.

  Lemma in_lookup_nodup : forall (m : list (K * V)) k v, NoDup (map fst m) -> In (k, v) m ->
    lookup eqb m k = Some v.
  Proof.
    induction m as [|[k0 v0] m IH]; intros k v Hnd Hin; [inv Hin|].
    cbn [map fst] in Hnd. inv Hnd. cbn [lookup]. destruct Hin as [E|Hin].
    - inv E. rewrite (eqb_refl_ok eqb Hok). reflexivity.
    - destruct (eqb k0 k) eqn:E.
      + apply Hok in E. subst. exfalso. apply H1. apply (in_map fst) in Hin. exact Hin.
      + auto.
  Qed.

  Lemma set_keys : forall (m : list (K * V)) k v,
    map fst (set eqb m k v) = if mem eqb m k then map fst m else map fst m ++ [k].
  Proof.
    induction m as [|[k0 v0] m IH]; intros k v; unfold mem in *; cbn [set lookup map fst app]; auto.
    destruct (eqb k0 k) eqn:E; cbn [map fst].
    - apply Hok in E. subst. reflexivity.
    - rewrite IH. destruct (lookup eqb m k); reflexivity.
  Qed.

  Lemma lookup_none_notin : forall (m : list (K * V)) k, lookup eqb m k = None -> ~ In k (map fst m).
  Proof.
    induction m as [|[k0 v0] m IH]; intros k H Hin; cbn [lookup map fst] in *; [contradiction|].
    destruct (eqb k0 k) eqn:E; [discriminate|]. destruct Hin as [->|Hin].
    - rewrite (eqb_refl_ok eqb Hok) in E. discriminate.
    - eapply IH; eauto.
  Qed.

  Lemma set_nodup : forall (m : list (K * V)) k v, NoDup (map fst m) -> NoDup (map fst (set eqb m k v)).
  Proof.
    intros m k v H. rewrite set_keys. unfold mem. destruct (lookup eqb m k) eqn:E; auto.
    apply nodup_snoc; auto. apply lookup_none_notin. exact E.
  Qed.
End MapLemmas.

(* ---- which fields a primitive can touch ---------------------------------------------- *)

(* everything except utxo, ghost, nodes, custodian, withdrawal records *)
Definition keep (s s' : state) : Prop :=
  s_txs s' = s_txs s /\ s_fin s' = s_fin s /\ s_ainfo s' = s_ainfo s /\ s_total s' = s_total s /\
  s_uniq s' = s_uniq s /\ s_snap s' = s_snap s /\ s_topo s' = s_topo s /\
  s_snaptopo s' = s_snaptopo s /\ s_work s' = s_work s /\ s_round s' = s_round s.

Definition keepu (s s' : state) : Prop := keep s s' /\ s_utxo s' = s_utxo s.

Lemma keep_refl : forall s, keep s s.
Proof. intros s. unfold keep. repeat split. Qed.

Lemma keep_trans : forall a b c, keep a b -> keep b c -> keep a c.
Proof.
  unfold keep. intros a b c (A1&A2&A3&A4&A5&A6&A7&A8&A9&A10) (B1&B2&B3&B4&B5&B6&B7&B8&B9&B10).
  repeat split; congruence.
Qed.

Lemma keepu_refl : forall s, keepu s s.
Proof. intros s. split; [apply keep_refl|reflexivity]. Qed.

Lemma keepu_trans : forall a b c, keepu a b -> keepu b c -> keepu a c.
Proof. intros a b c [K1 U1] [K2 U2]. split; [eapply keep_trans; eauto|congruence]. Qed.

Ltac keep_tac := unfold keepu, keep; cbn; repeat split; reflexivity.

Lemma lock_ghost_keepu : forall s k h s', lock_ghost s k h = Ok s' -> keepu s s'.
Proof. intros s k h s' H. unfold lock_ghost in H. res_inv; keep_tac. Qed.

Lemma lock_ghosts_keepu : forall ks s h s', lock_ghosts s ks h = Ok s' -> keepu s s'.
Proof.
  induction ks as [|k r IH]; intros s h s' H; cbn [lock_ghosts] in H.
  - inv H. apply keepu_refl.
  - res_inv. eapply keepu_trans; [eapply lock_ghost_keepu; eauto|eapply IH; eauto].
Qed.

Lemma set_node_keepu : forall s a b c d e, keepu s (set_node s a b c d e).
Proof. intros. keep_tac. Qed.

Lemma write_node_pledge_keepu : forall s a b c d s', write_node_pledge s a b c d = Ok s' -> keepu s s'.
Proof. intros s a b c d s' H. unfold write_node_pledge in H. res_inv. apply set_node_keepu. Qed.

Lemma write_node_aoc_keepu : forall s a b c d e g s',
  write_node_accept_or_cancel s a b c d e g = Ok s' -> keepu s s'.
Proof. intros s a b c d e g s' H. unfold write_node_accept_or_cancel in H. res_inv; apply set_node_keepu. Qed.

Lemma write_node_remove_keepu : forall s a b c d s', write_node_remove s a b c d = Ok s' -> keepu s s'.
Proof. intros s a b c d s' H. unfold write_node_remove in H. res_inv. apply set_node_keepu. Qed.

Lemma write_custodian_keepu : forall s t ts s', write_custodian s t ts = Ok s' -> keepu s s'.
Proof. intros s t ts s' H. unfold write_custodian in H. res_inv; keep_tac. Qed.

Lemma write_claim_keepu : forall s t s', write_claim s t = Ok s' -> keepu s s'.
Proof. intros s t s' H. unfold write_claim in H. res_inv. keep_tac. Qed.

Definition mk_utxo (t : tx) (o : output) : utxo :=
  {| u_asset := t_asset t; u_type := o_type o; u_amount := o_amount o; u_keys := o_keys o; u_lock := 0%N |}.

Lemma write_utxo_shape : forall s t ts g io s', write_utxo s t ts g io = Ok s' ->
  keep s s' /\ s_utxo s' = set eq2 (s_utxo s) (t_hash t, fst io) (mk_utxo t (snd io)).
Proof.
  intros s t ts g [i o] s' H. unfold write_utxo in H. cbn [fst snd].
  destruct (lock_ghosts s (o_keys o) (t_hash t)) as [s1| |] eqn:Hg; cbn [bind] in H; try discriminate.
  apply lock_ghosts_keepu in Hg. destruct Hg as [K1 U1].
  destruct (max_utxo_index <? i)%N; [discriminate|].
  set (s2 := with_utxo s1 _) in H.
  assert (K2 : keep s s2) by (eapply keep_trans; [exact K1|unfold s2; unfold keep; cbn; repeat split]).
  assert (U2 : s_utxo s2 = set eq2 (s_utxo s) (t_hash t, i) (mk_utxo t o)) by (unfold s2; cbn; rewrite U1; reflexivity).
  assert (Hfin : forall s3, keepu s2 s3 -> keep s s3 /\ s_utxo s3 = set eq2 (s_utxo s) (t_hash t, i) (mk_utxo t o)).
  { intros s3 [K3 U3]. split; [eapply keep_trans; eauto|congruence]. }
  repeat match type of H with
  | (if ?b then _ else _) = Ok _ => destruct b
  end.
  - apply Hfin. eapply write_node_pledge_keepu; eauto.
  - apply Hfin. eapply write_node_aoc_keepu; eauto.
  - apply Hfin. eapply write_node_aoc_keepu; eauto.
  - apply Hfin. eapply write_node_remove_keepu; eauto.
  - apply Hfin. eapply write_custodian_keepu; eauto.
  - apply Hfin. eapply write_claim_keepu; eauto.
  - inv H. apply Hfin. apply keepu_refl.
Qed.

Definition put_utxos (t : tx) (l : list (N * output)) (m : list ((N * N) * utxo)) :=
  fold_left (fun m io => set eq2 m (t_hash t, fst io) (mk_utxo t (snd io))) l m.

Lemma write_utxos_shape : forall l s t ts g s', write_utxos s t ts g l = Ok s' ->
  keep s s' /\ s_utxo s' = put_utxos t l (s_utxo s).
Proof.
  induction l as [|io r IH]; intros s t ts g s' H; cbn [write_utxos] in H.
  - inv H. split; [apply keep_refl|reflexivity].
  - destruct (write_utxo s t ts g io) as [s1| |] eqn:E; cbn [bind] in H; try discriminate.
    apply write_utxo_shape in E. destruct E as [K1 U1].
    apply IH in H. destruct H as [K2 U2]. split; [eapply keep_trans; eauto|].
    rewrite U2, U1. reflexivity.
Qed.

(* the fields write_asset_info leaves alone *)
Lemma write_asset_info_shape : forall s a info s', write_asset_info s a info = Ok s' ->
  exists v, s' = with_ainfo s v /\ mem eq1 v a = true.
Proof.
  intros s a info s' H. unfold write_asset_info in H.
  destruct (lookup eq1 (s_ainfo s) a) eqn:E.
  - destruct (eq2 p info); [|discriminate]. injection H as Hs. subst s'.
    exists (s_ainfo s). split; [destruct s; reflexivity|].
    unfold mem. rewrite E. reflexivity.
  - inv H. eexists. split; [reflexivity|]. rewrite (mem_set eq1 eq1_ok). rewrite (eqb_refl_ok eq1 eq1_ok). reflexivity.
Qed.

Lemma write_total_shape : forall s t s', write_total s t = Ok s' ->
  mem eq1 (s_ainfo s) (t_asset t) = true /\
  exists nt, new_total t (total_of s (t_asset t)) = Ok nt /\
    match nt with
    | None => s' = s
    | Some v => s' = with_total s (set eq1 (s_total s) (t_asset t) v) /\ v <= capacity (t_asset t)
    end.
Proof.
  intros s t s' H. unfold write_total in H.
  destruct (mem eq1 (s_ainfo s) (t_asset t)) eqn:Ea; cbn [negb] in H; [|discriminate].
  split; [reflexivity|].
  destruct (new_total t (total_of s (t_asset t))) as [nt| |] eqn:En; cbn [bind] in H; try discriminate.
  exists nt. split; [reflexivity|]. destruct nt as [v|]; [|inv H; reflexivity].
  destruct (capacity (t_asset t) <? v) eqn:Ec; [discriminate|]. inv H. split; [reflexivity|lia].
Qed.

(* ---- finalize_tx ---------------------------------------------------------------------------- *)

Lemma finalize_tx_done : forall s t sn, finalized s (t_hash t) = true -> finalize_tx s t sn = Ok s.
Proof. intros s t sn H. unfold finalize_tx. unfold finalized in H. rewrite H. reflexivity. Qed.

Record fresh_effect (s : state) (t : tx) (sn : snapshot) (s' : state) : Prop := {
  fe_txs : s_txs s' = s_txs s;
  fe_uniq : s_uniq s' = s_uniq s;
  fe_snap : s_snap s' = s_snap s;
  fe_topo : s_topo s' = s_topo s;
  fe_snaptopo : s_snaptopo s' = s_snaptopo s;
  fe_work : s_work s' = s_work s;
  fe_round : s_round s' = s_round s;
  fe_fin : s_fin s' = set eq1 (s_fin s) (t_hash t) (sn_hash sn);
  fe_utxo : exists us, unspent_outputs t = Ok us /\ s_utxo s' = put_utxos t us (s_utxo s);
  fe_info : mem eq1 (s_ainfo s') (t_asset t) = true;
  fe_total : exists nt, new_total t (total_of s (t_asset t)) = Ok nt /\
      match nt with
      | None => s_total s' = s_total s
      | Some v => s_total s' = set eq1 (s_total s) (t_asset t) v /\ v <= capacity (t_asset t)
      end
}.

Lemma finalize_tx_fresh : forall s t sn s', finalized s (t_hash t) = false ->
  finalize_tx s t sn = Ok s' -> fresh_effect s t sn s'.
Proof.
  intros s t sn s' Hf H. unfold finalize_tx in H. unfold finalized in Hf. rewrite Hf in H.
  destruct (t_inputs t) as [|i0 ins] eqn:Ei; [discriminate|].
  set (s1 := with_fin s _) in H.
  assert (H2 : exists s2 ai, s2 = with_ainfo s1 ai /\
            (do us <- unspent_outputs t; do s3 <- write_utxos s2 t (sn_ts sn) (is_genesis_tx t) us; write_total s3 t) = Ok s').
  { destruct i0; cbn [bind] in H; try (exists s1, (s_ainfo s1); split; [reflexivity|exact H]).
    destruct (write_asset_info s1 (t_asset t) (chain, akey)) as [s2| |] eqn:Ew; cbn [bind] in H; try discriminate.
    apply write_asset_info_shape in Ew. destruct Ew as [v [-> _]]. exists (with_ainfo s1 v), v. split; [reflexivity|exact H]. }
  destruct H2 as (s2 & ai & Hs2 & H2).
  destruct (unspent_outputs t) as [us| |] eqn:Eu; cbn [bind] in H2; try discriminate.
  destruct (write_utxos s2 t (sn_ts sn) (is_genesis_tx t) us) as [s3| |] eqn:Ew; cbn [bind] in H2; try discriminate.
  apply write_utxos_shape in Ew. destruct Ew as [(K1&K2&K3&K4&K5&K6&K7&K8&K9&K10) U].
  apply write_total_shape in H2. destruct H2 as (Hinfo & nt & Hnt & Hs').
  assert (Ht : total_of s3 (t_asset t) = total_of s (t_asset t)).
  { unfold total_of. rewrite K4. subst s2 s1. reflexivity. }
  rewrite Ht in Hnt.
  assert (Ok3 : s_txs s3 = s_txs s /\ s_uniq s3 = s_uniq s /\ s_snap s3 = s_snap s /\ s_topo s3 = s_topo s /\
          s_snaptopo s3 = s_snaptopo s /\ s_work s3 = s_work s /\ s_round s3 = s_round s /\
          s_fin s3 = set eq1 (s_fin s) (t_hash t) (sn_hash sn) /\ s_total s3 = s_total s /\
          s_utxo s3 = put_utxos t us (s_utxo s)).
  { rewrite K1, K5, K6, K7, K8, K9, K10, K2, K4, U. subst s2 s1. cbn. repeat split. }
  destruct Ok3 as (A1&A2&A3&A4&A5&A6&A7&A8&A9&A10).
  destruct nt as [v|].
  - destruct Hs' as [-> Hcap]. constructor; cbn; auto.
    + exists us. auto.
    + exists (Some v). split; [exact Hnt|]. rewrite A9. auto.
  - subst s'. constructor; auto.
    + exists us. auto.
    + exists None. auto.
Qed.

(* ---- members of a snapshot ------------------------------------------------------------------ *)

(* the TRANSACTION family is content addressed: the body stored under h has hash h (C06) *)
Definition wf_txs (s : state) : Prop := forall h t, lookup eq1 (s_txs s) h = Some t -> t_hash t = h.

Lemma put_utxos_other : forall t l m x i, x <> t_hash t ->
  lookup eq2 (put_utxos t l m) (x, i) = lookup eq2 m (x, i).
Proof.
  intros t l. unfold put_utxos. induction l as [|io r IH]; intros m x i Hn; cbn [fold_left]; auto.
  rewrite IH by exact Hn. apply (lookup_set_other eq2 eq2_ok). intros E. inv E. apply Hn. reflexivity.
Qed.

Record members_effect (s : state) (sn : snapshot) (hs : list N) (s' : state) : Prop := {
  me_txs : s_txs s' = s_txs s;
  me_snap : s_snap s' = s_snap s;
  me_topo : s_topo s' = s_topo s;
  me_snaptopo : s_snaptopo s' = s_snaptopo s;
  me_work : s_work s' = s_work s;
  me_round : s_round s' = s_round s;
  me_fin : forall h, lookup eq1 (s_fin s') h =
             match lookup eq1 (s_fin s) h with
             | Some v => Some v
             | None => if mem_N h hs then Some (sn_hash sn) else None
             end;
  me_uniq : forall k, mem eq2 (s_uniq s') k =
             mem eq2 (s_uniq s) k || (mem_N (fst k) hs && (snd k =? sn_node sn)%N);
  me_utxo : forall h i, mem_N h hs && negb (finalized s h) = false ->
             lookup eq2 (s_utxo s') (h, i) = lookup eq2 (s_utxo s) (h, i);
  me_idem : (forall h, In h hs -> finalized s h = true) ->
             s_fin s' = s_fin s /\ s_utxo s' = s_utxo s /\ s_ghost s' = s_ghost s /\
             s_ainfo s' = s_ainfo s /\ s_total s' = s_total s /\ s_nodes s' = s_nodes s /\
             s_cust s' = s_cust s /\ s_wdr s' = s_wdr s
}.

Lemma mem_N_In : forall x l, mem_N x l = true <-> In x l.
Proof.
  induction l as [|y l IH]; cbn [mem_N In]; [split; [discriminate|intros []]|].
  rewrite orb_true_iff, N.eqb_eq, IH. reflexivity.
Qed.

Lemma finalize_members_effect : forall hs s sn s', wf_txs s ->
  finalize_members s sn hs = Ok s' -> members_effect s sn hs s'.
Proof.
  induction hs as [|h r IH]; intros s sn s' Hwf H; cbn [finalize_members] in H.
  - inv H. constructor; auto.
    + intros h. destruct (lookup eq1 (s_fin s') h); reflexivity.
    + intros k. cbn [mem_N]. rewrite andb_false_l, orb_false_r. reflexivity.
    + intros _. repeat split.
  - destruct (finalize_member s sn h) as [s1| |] eqn:Em; cbn [bind] in H; try discriminate.
    unfold finalize_member in Em.
    destruct (lookup eq1 (s_txs s) h) as [t|] eqn:Eb; [|discriminate].
    pose proof (Hwf h t Eb) as Hh.
    destruct (finalize_tx s t sn) as [s0| |] eqn:Ef; cbn [bind] in Em; try discriminate.
    injection Em as Es1.
    destruct (finalized s h) eqn:Efin.
    + (* already finalized: only the uniqueness record *)
      rewrite finalize_tx_done in Ef by (rewrite Hh; exact Efin). injection Ef as <-.
      assert (Hwf1 : wf_txs s1) by (subst s1; exact Hwf).
      pose proof (IH s1 sn s' Hwf1 H) as E. destruct E. subst s1. cbn in *.
      constructor; cbn; auto.
      * intros x. rewrite me_fin0. destruct (lookup eq1 (s_fin s) x) eqn:Ex; auto.
        cbn [mem_N]. destruct (N.eqb_spec h x) as [->|Hn]; cbn [orb]; auto.
        unfold finalized, mem in Efin. rewrite Ex in Efin. discriminate.
      * intros k. rewrite me_uniq0. rewrite (mem_set eq2 eq2_ok). cbn [mem_N].
        destruct k as [k1 k2]. cbn [fst snd].
        change (eq2 (h, sn_node sn) (k1, k2)) with ((h =? k1)%N && (sn_node sn =? k2)%N).
        rewrite (N.eqb_sym k2 (sn_node sn)).
        destruct (h =? k1)%N, (sn_node sn =? k2)%N, (mem eq2 (s_uniq s) (k1, k2)), (mem_N k1 r); reflexivity.
      * intros x i Hx. apply me_utxo0. cbn [mem_N] in Hx. unfold finalized in *. cbn.
        destruct (mem_N x r); auto. rewrite orb_true_r in Hx. exact Hx.
      * intros Hall. apply me_idem0. intros x Hx. unfold finalized. cbn. apply Hall. right. exact Hx.
    + (* newly finalized *)
      pose proof (finalize_tx_fresh s t sn s0 ltac:(rewrite Hh; exact Efin) Ef) as F. destruct F.
      rewrite Hh in fe_fin0.
      assert (Hwf1 : wf_txs s1) by (subst s1; unfold wf_txs; cbn; rewrite fe_txs0; exact Hwf).
      pose proof (IH s1 sn s' Hwf1 H) as E. destruct E. subst s1. cbn in *.
      assert (Hfin1 : forall x, lookup eq1 (s_fin s0) x = if (h =? x)%N then Some (sn_hash sn) else lookup eq1 (s_fin s) x).
      { intros x. rewrite fe_fin0. apply (lookup_set eq1 eq1_ok). }
      constructor; cbn; try congruence.
      * intros x. rewrite me_fin0, Hfin1. cbn [mem_N].
        destruct (N.eqb_spec h x) as [->|Hn]; cbn [orb].
        -- unfold finalized, mem in Efin. destruct (lookup eq1 (s_fin s) x); [discriminate|reflexivity].
        -- reflexivity.
      * intros k. rewrite me_uniq0. rewrite (mem_set eq2 eq2_ok), fe_uniq0. cbn [mem_N].
        destruct k as [k1 k2]. cbn [fst snd].
        change (eq2 (h, sn_node sn) (k1, k2)) with ((h =? k1)%N && (sn_node sn =? k2)%N).
        rewrite (N.eqb_sym k2 (sn_node sn)).
        destruct (h =? k1)%N, (sn_node sn =? k2)%N, (mem eq2 (s_uniq s) (k1, k2)), (mem_N k1 r); reflexivity.
      * intros x i Hx. cbn [mem_N] in Hx.
        assert (Hxh : x <> h).
        { intros ->. rewrite N.eqb_refl, Efin in Hx. discriminate. }
        rewrite me_utxo0.
        -- destruct fe_utxo0 as (us & _ & ->). apply put_utxos_other. rewrite Hh. exact Hxh.
        -- unfold finalized, mem in *. cbn. rewrite Hfin1.
           destruct (N.eqb_spec h x) as [E|_]; [subst; contradiction|]. cbn [orb] in Hx. exact Hx.
      * intros Hall. rewrite Hall in Efin by (left; reflexivity). discriminate.
Qed.

(* ---- write_snapshot (C15) ---------------------------------------------------------------------- *)

Lemma write_snapshot_all_or_nothing : forall s sn sg s' r,
  write_snapshot s sn sg = (s', r) -> r <> Ok tt -> s' = s.
Proof.
  intros s sn sg s' r H Hr. unfold write_snapshot in H.
  destruct (write_snapshot_txn s sn sg); inv H; auto. contradiction Hr. reflexivity.
Qed.

(* every store call of a history is all-or-nothing *)
Lemma step_all_or_nothing : forall s o s' r, step s o = (s', r) -> r <> Ok tt -> s' = s.
Proof.
  intros s o s' r H Hr. destruct o; cbn [step] in H.
  - inv H. contradiction Hr. reflexivity.
  - unfold load_genesis in H.
    destruct (do s1 <- write_asset_info s Consts.Fin_Asset_XIN xin; load_genesis_members s1 l); inv H; auto.
    contradiction Hr. reflexivity.
  - unfold write_transaction in H.
    destruct (mem eq1 (s_txs s) (t_hash t)); [inv H; contradiction Hr; reflexivity|].
    destruct (t_inputs t) as [|i0 r0]; [inv H; reflexivity|].
    match type of H with (if ?b then _ else _) = _ => destruct b end; inv H; auto. contradiction Hr. reflexivity.
  - unfold lock_utxos in H. destruct (lock_utxos_txn s ks h); inv H; auto. contradiction Hr. reflexivity.
  - unfold lock_ghost_keys in H. destruct (has_dup ks); [inv H; reflexivity|].
    destruct (lock_ghosts s ks h); inv H; auto. contradiction Hr. reflexivity.
  - eapply write_snapshot_all_or_nothing; eauto.
Qed.

Record snapshot_effect (s : state) (sn : snapshot) (sg : list N) (s' : state) : Prop := {
  se_txs : s_txs s' = s_txs s;
  se_round : s_round s' = s_round s;
  se_fin : forall h, lookup eq1 (s_fin s') h =
             match lookup eq1 (s_fin s) h with
             | Some v => Some v
             | None => if mem_N h (sn_txs sn) then Some (sn_hash sn) else None
             end;
  se_uniq : forall k, mem eq2 (s_uniq s') k =
             mem eq2 (s_uniq s) k || (mem_N (fst k) (sn_txs sn) && (snd k =? sn_node sn)%N);
  se_snap : forall k, lookup eq3 (s_snap s') k =
             if eq3 (snap_key sn) k then Some (sn_hash sn) else lookup eq3 (s_snap s) k;
  se_topo : forall k, lookup eq1 (s_topo s') k =
             if eq1 (sn_topo sn) k then Some (snap_key sn) else lookup eq1 (s_topo s) k;
  se_snaptopo : forall k, lookup eq1 (s_snaptopo s') k =
             if eq1 (sn_hash sn) k then Some (sn_topo sn) else lookup eq1 (s_snaptopo s) k;
  se_work : forall k, lookup eq3 (s_work s') k =
             if eq3 (sn_node sn, sn_round sn, sn_ts sn) k then Some (sn_whash sn, sg)
             else lookup eq3 (s_work s) k;
  se_utxo : forall h i, mem_N h (sn_txs sn) && negb (finalized s h) = false ->
             lookup eq2 (s_utxo s') (h, i) = lookup eq2 (s_utxo s) (h, i);
  se_idem : (forall h, In h (sn_txs sn) -> finalized s h = true) ->
             s_fin s' = s_fin s /\ s_utxo s' = s_utxo s /\ s_ghost s' = s_ghost s /\
             s_ainfo s' = s_ainfo s /\ s_total s' = s_total s /\ s_nodes s' = s_nodes s /\
             s_cust s' = s_cust s /\ s_wdr s' = s_wdr s
}.

Lemma write_snapshot_core_effect : forall s sn s', wf_txs s -> write_snapshot_core s sn = Ok s' ->
  snapshot_effect s sn [] (write_work s' sn []) /\
  exists s1, finalize_members s sn (sn_txs sn) = Ok s1 /\
    s' = with_snaptopo (with_topo (with_snap s1 (set eq3 (s_snap s1) (snap_key sn) (sn_hash sn)))
                                  (set eq1 (s_topo s1) (sn_topo sn) (snap_key sn)))
                       (set eq1 (s_snaptopo s1) (sn_hash sn) (sn_topo sn)).
Proof.
  intros s sn s' Hwf H. unfold write_snapshot_core in H.
  destruct (finalize_members s sn (sn_txs sn)) as [s1| |] eqn:Em; cbn [bind] in H; try discriminate.
  unfold write_topology in H. cbn in H.
  destruct (mem eq1 (s_topo s1) (sn_topo sn)); [discriminate|]. injection H as <-.
  pose proof (finalize_members_effect _ _ _ _ Hwf Em) as E. destruct E.
  split; [|exists s1; split; reflexivity].
  constructor; cbn; auto.
  - intros k. rewrite (lookup_set eq3 eq3_ok), me_snap0. reflexivity.
  - intros k. rewrite (lookup_set eq1 eq1_ok), me_topo0. reflexivity.
  - intros k. rewrite (lookup_set eq1 eq1_ok), me_snaptopo0. reflexivity.
  - intros k. rewrite (lookup_set eq3 eq3_ok), me_work0. reflexivity.
Qed.

Lemma write_snapshot_effect : forall s sn sg s', wf_txs s ->
  write_snapshot s sn sg = (s', Ok tt) -> snapshot_effect s sn sg s'.
Proof.
  intros s sn sg s' Hwf H. unfold write_snapshot in H.
  destruct (write_snapshot_txn s sn sg) as [s2| |] eqn:Et; inv H.
  unfold write_snapshot_txn in Et.
  destruct (debug_asserts s sn); cbn [bind] in Et; try discriminate.
  destruct (write_snapshot_core s sn) as [s1| |] eqn:Ec; cbn [bind] in Et; try discriminate.
  injection Et as <-.
  apply write_snapshot_core_effect in Ec; auto. destruct Ec as [E (s0 & _ & ->)]. destruct E.
  constructor; cbn in *; auto.
  intros k. rewrite (lookup_set eq3 eq3_ok). specialize (se_work0 k).
  rewrite (lookup_set eq3 eq3_ok) in se_work0.
  destruct (eq3 (sn_node sn, sn_round sn, sn_ts sn) k); auto.
Qed.

(* a member that is already finalized is skipped: finalize_tx is the identity on it *)
Lemma write_snapshot_first_wins : forall s sn sg s', wf_txs s ->
  write_snapshot s sn sg = (s', Ok tt) ->
  forall h v, lookup eq1 (s_fin s) h = Some v ->
    lookup eq1 (s_fin s') h = Some v /\
    (forall i, lookup eq2 (s_utxo s') (h, i) = lookup eq2 (s_utxo s) (h, i)).
Proof.
  intros s sn sg s' Hwf H h v Hv. apply write_snapshot_effect in H; auto. destruct H. split.
  - rewrite se_fin0, Hv. reflexivity.
  - intros i. apply se_utxo0. unfold finalized, mem. rewrite Hv. cbn. apply andb_false_r.
Qed.

(* ---- the content-addressing invariant over histories ------------------------------------------- *)

Lemma write_transaction_txs : forall s t s' r, write_transaction s t = (s', r) ->
  s' = s \/ (lookup eq1 (s_txs s) (t_hash t) = None /\ s' = with_txs s (set eq1 (s_txs s) (t_hash t) t)).
Proof.
  intros s t s' r H. unfold write_transaction in H. unfold mem in H.
  destruct (lookup eq1 (s_txs s) (t_hash t)) eqn:E; [inv H; auto|].
  destruct (t_inputs t); [inv H; auto|].
  match type of H with (if ?b then _ else _) = _ => destruct b end; inv H; auto.
Qed.

Lemma write_transaction_wf : forall s t s' r, wf_txs s -> write_transaction s t = (s', r) -> wf_txs s'.
Proof.
  intros s t s' r Hwf H. apply write_transaction_txs in H. destruct H as [->|[_ ->]]; auto.
  intros h t0. cbn. rewrite (lookup_set eq1 eq1_ok). unfold eq1.
  destruct (N.eqb_spec (t_hash t) h) as [E|_]; [intros X; inv X; reflexivity|apply Hwf].
Qed.

Lemma write_snapshot_core_txs : forall s sn s', wf_txs s -> write_snapshot_core s sn = Ok s' -> s_txs s' = s_txs s.
Proof.
  intros s sn s' Hwf H. apply write_snapshot_core_effect in H; auto. destruct H as [[] _]. exact se_txs0.
Qed.

Lemma lock_utxo_shape : forall s k h s', lock_utxo s k h = Ok s' ->
  exists u, lookup eq2 (s_utxo s) k = Some u /\ (u_lock u = 0%N \/ u_lock u = h) /\
    s' = with_utxo s (set eq2 (s_utxo s) k
           {| u_asset := u_asset u; u_type := u_type u; u_amount := u_amount u; u_keys := u_keys u; u_lock := h |}).
Proof.
  intros s k h s' H. unfold lock_utxo in H. destruct (lookup eq2 (s_utxo s) k) as [u|]; [|discriminate].
  destruct (negb (u_lock u =? 0)%N && negb (u_lock u =? h)%N) eqn:E; [discriminate|]. inv H.
  exists u. split; [reflexivity|]. split; [|reflexivity]. lia.
Qed.

Lemma lock_utxos_txn_txs : forall ks s h s', lock_utxos_txn s ks h = Ok s' -> s_txs s' = s_txs s.
Proof.
  induction ks as [|k r IH]; intros s h s' H; cbn [lock_utxos_txn] in H; [inv H; reflexivity|].
  destruct (lock_utxo s k h) as [s1| |] eqn:E; cbn [bind] in H; try discriminate.
  apply lock_utxo_shape in E. destruct E as (u & _ & _ & ->). apply IH in H. exact H.
Qed.

Lemma load_genesis_members_wf : forall l s s', wf_txs s -> load_genesis_members s l = Ok s' -> wf_txs s'.
Proof.
  induction l as [|[sn t] r IH]; intros s s' Hwf H; cbn [load_genesis_members] in H; [inv H; exact Hwf|].
  destruct (write_transaction s t) as [s1 [[]| |]] eqn:Ew; try discriminate.
  pose proof (write_transaction_wf _ _ _ _ Hwf Ew) as Hwf1.
  destruct (write_snapshot_core s1 sn) as [s2| |] eqn:Ec; cbn [bind] in H; try discriminate.
  pose proof (write_snapshot_core_txs _ _ _ Hwf1 Ec) as Et.
  eapply IH; [|exact H]. unfold wf_txs. cbn. rewrite Et. exact Hwf1.
Qed.

Lemma step_wf : forall s o, wf_txs s -> wf_txs (fst (step s o)).
Proof.
  intros s o Hwf. destruct (step s o) as [s' r] eqn:E. cbn [fst].
  destruct r as [[]| |]; try (rewrite (step_all_or_nothing s o s' _ E); [exact Hwf|discriminate]).
  destruct o; cbn [step] in E.
  - inv E. exact Hwf.
  - unfold load_genesis in E.
    destruct (write_asset_info s Consts.Fin_Asset_XIN xin) as [s1| |] eqn:Ea; cbn [bind] in E; try (inv E; fail).
    apply write_asset_info_shape in Ea. destruct Ea as (v & -> & _).
    destruct (load_genesis_members (with_ainfo s v) l) eqn:El; inv E.
    eapply load_genesis_members_wf; [|exact El]. exact Hwf.
  - eapply write_transaction_wf; eauto.
  - unfold lock_utxos in E. destruct (lock_utxos_txn s ks h) eqn:El; inv E.
    apply lock_utxos_txn_txs in El. unfold wf_txs. rewrite El. exact Hwf.
  - unfold lock_ghost_keys in E. destruct (has_dup ks); [inv E|].
    destruct (lock_ghosts s ks h) eqn:El; inv E. apply lock_ghosts_keepu in El.
    destruct El as [(K1&_) _]. unfold wf_txs. rewrite K1. exact Hwf.
  - apply write_snapshot_effect in E; auto. destruct E. unfold wf_txs. rewrite se_txs0. exact Hwf.
Qed.

Lemma run_wf : forall ops s, wf_txs s -> wf_txs (run s ops).
Proof.
  induction ops as [|o r IH]; intros s Hwf; cbn; auto. apply IH. apply step_wf. exact Hwf.
Qed.

Lemma empty_wf : wf_txs empty_state.
Proof. intros h t H. discriminate H. Qed.

(* ================================================================================================ *)
(* C17: supply accounting                                                                            *)
(* ================================================================================================ *)

Definition zsum {A} (f : A -> Z) (l : list A) : Z := fold_right (fun x acc => f x + acc) 0 l.

Lemma zsum_cons {A} (f : A -> Z) x l : zsum f (x :: l) = f x + zsum f l.
Proof. reflexivity. Qed.

Lemma zsum_app {A} (f : A -> Z) : forall l1 l2, zsum f (l1 ++ l2) = zsum f l1 + zsum f l2.
Proof.
  induction l1 as [|x l IH]; intros l2; cbn [app].
  - change (zsum f []) with 0. lia.
  - rewrite !zsum_cons, IH. lia.
Qed.

Lemma zsum_ext {A} (f g : A -> Z) : forall l, (forall x, In x l -> f x = g x) -> zsum f l = zsum g l.
Proof.
  induction l as [|x l IH]; intros H; [reflexivity|]. rewrite !zsum_cons, IH.
  - rewrite (H x); [reflexivity|left; reflexivity].
  - intros y Hy. apply H. right. exact Hy.
Qed.

Lemma zsum_zero {A} (f : A -> Z) : forall l, (forall x, In x l -> f x = 0) -> zsum f l = 0.
Proof.
  induction l as [|x l IH]; intros H; [reflexivity|]. rewrite zsum_cons, IH, (H x); [reflexivity|left; reflexivity|].
  intros y Hy. apply H. right. exact Hy.
Qed.

Section SumSet.
  Context {K V : Type} (eqb : K -> K -> bool) (Hok : eqb_ok eqb) (f : K * V -> Z).

  Lemma zsum_set_absent : forall m k v, lookup eqb m k = None ->
    zsum f (set eqb m k v) = zsum f m + f (k, v).
  Proof. intros m k v H. rewrite (set_keys_absent eqb m k v H), zsum_app. cbn. lia. Qed.

  Lemma zsum_set_present : forall m k v old, lookup eqb m k = Some old ->
    zsum f (set eqb m k v) = zsum f m - f (k, old) + f (k, v).
  Proof.
    induction m as [|[k0 v0] m IH]; intros k v old H; cbn [lookup set] in *; [discriminate|].
    destruct (eqb k0 k) eqn:E.
    - apply Hok in E. subst. inv H. rewrite !zsum_cons. lia.
    - rewrite !zsum_cons, (IH k v old H). lia.
  Qed.
End SumSet.

(* value of one output record towards the unconsumed sum of asset a, given the finalization records *)
Definition fin_has (fin : list (N * N)) (h : N) : bool := mem eq1 fin h.
Definition uval (fin : list (N * N)) (a : N) (u : utxo) : Z :=
  if (u_asset u =? a)%N && negb (negb (u_lock u =? 0)%N && fin_has fin (u_lock u)) then u_amount u else 0.
Definition usum (fin : list (N * N)) (a : N) (m : list ((N * N) * utxo)) : Z :=
  zsum (fun e => uval fin a (snd e)) m.

Lemma unconsumed_sum_usum : forall s a, unconsumed_sum s a = usum (s_fin s) a (s_utxo s).
Proof.
  intros s a. unfold unconsumed_sum, usum, zsum. induction (s_utxo s) as [|e l IH]; [reflexivity|].
  cbn [fold_right]. rewrite IH. unfold uval, consumed, finalized, fin_has.
  destruct ((u_asset (snd e) =? a)%N && negb (negb (u_lock (snd e) =? 0)%N && mem eq1 (s_fin s) (u_lock (snd e)))); lia.
Qed.

(* outputs locked by h, of asset a *)
Definition lval (h a : N) (u : utxo) : Z :=
  if (u_asset u =? a)%N && (u_lock u =? h)%N then u_amount u else 0.
Definition lsum (h a : N) (m : list ((N * N) * utxo)) : Z := zsum (fun e => lval h a (snd e)) m.

(* a new finalization record for h turns exactly the outputs locked by h into consumed ones *)
Lemma usum_finalize : forall fin h x a m, h <> 0%N -> fin_has fin h = false ->
  usum (set eq1 fin h x) a m = usum fin a m - lsum h a m.
Proof.
  intros fin h x a m Hh Hf. unfold usum, lsum. induction m as [|e l IH]; [reflexivity|].
  rewrite !zsum_cons, IH. unfold uval, lval, fin_has in *. rewrite (mem_set eq1 eq1_ok). unfold eq1 at 1.
  destruct (u_asset (snd e) =? a)%N; cbn [andb]; [|lia].
  destruct (N.eqb_spec (u_lock (snd e)) h) as [E|E].
  - rewrite E, N.eqb_refl, Hf. cbn [orb]. destruct (N.eqb_spec h 0); [contradiction|]. cbn. lia.
  - destruct (N.eqb_spec h (u_lock (snd e))) as [E2|_]; [symmetry in E2; contradiction|]. cbn [orb]. lia.
Qed.

Definition amount_at (m : list ((N * N) * utxo)) (k : N * N) : Z :=
  match lookup eq2 m k with Some u => u_amount u | None => 0 end.

Lemma zsum_in_split {A} (f : A -> Z) : forall l1 x l2, zsum f (l1 ++ x :: l2) = f x + zsum f (l1 ++ l2).
Proof. intros. rewrite !zsum_app, zsum_cons. lia. Qed.

(* the outputs locked by h are exactly the (distinct) inputs ins, all of asset a *)
Lemma lsum_inputs : forall m ins h a, NoDup (map fst m) -> NoDup ins ->
  (forall k, In k ins -> exists u, lookup eq2 m k = Some u /\ u_lock u = h /\ u_asset u = a) ->
  (forall k u, In (k, u) m -> u_lock u = h -> In k ins) ->
  lsum h a m = zsum (amount_at m) ins.
Proof.
  induction m as [|[k0 u0] m IH]; intros ins h a Hnd Hni Hin Hall.
  - destruct ins as [|k r]; [reflexivity|]. destruct (Hin k (or_introl eq_refl)) as (u & Hu & _). discriminate.
  - cbn [map fst] in Hnd. inv Hnd. unfold lsum in *. rewrite zsum_cons. cbn [snd].
    assert (Hother : forall k, k <> k0 -> lookup eq2 ((k0, u0) :: m) k = lookup eq2 m k).
    { intros k Hk. cbn [lookup]. rewrite (eqb_neq_ok eq2 eq2_ok); auto. }
    destruct (N.eqb_spec (u_lock u0) h) as [El|El].
    + assert (Hk0 : In k0 ins) by (apply (Hall k0 u0); [left; reflexivity|exact El]).
      destruct (in_split _ _ Hk0) as (l1 & l2 & ->).
      apply NoDup_remove in Hni. destruct Hni as [Hni Hnot].
      rewrite zsum_in_split.
      destruct (Hin k0 Hk0) as (u & Hu & _ & Ha). cbn [lookup] in Hu. rewrite (eqb_refl_ok eq2 eq2_ok) in Hu.
      injection Hu as Hu. subst u.
      unfold lval at 1. rewrite El, Ha, !N.eqb_refl. cbn [andb].
      unfold amount_at at 1. cbn [lookup]. rewrite (eqb_refl_ok eq2 eq2_ok).
      rewrite (IH (l1 ++ l2) h a); auto.
      * f_equal. apply zsum_ext. intros k Hk. unfold amount_at. rewrite Hother; auto.
        intros ->. contradiction.
      * intros k Hk. assert (Hk' : In k (l1 ++ k0 :: l2)) by (rewrite in_app_iff in *; cbn; tauto).
        destruct (Hin k Hk') as (u' & Hu' & Hl' & Ha'). rewrite Hother in Hu' by (intros ->; contradiction).
        exists u'. auto.
      * intros k u' Hku Hl'. assert (Hk' : In k (l1 ++ k0 :: l2)) by (apply (Hall k u'); [right; exact Hku|exact Hl']).
        rewrite in_app_iff in *. cbn in Hk'. destruct Hk' as [?|[E|?]]; auto.
        subst k. exfalso. apply H1. apply (in_map fst) in Hku. exact Hku.
    + assert (Hk0 : ~ In k0 ins).
      { intros Hk. destruct (Hin k0 Hk) as (u & Hu & Hl & _). cbn [lookup] in Hu.
        rewrite (eqb_refl_ok eq2 eq2_ok) in Hu. injection Hu as Hu. subst u. contradiction. }
      unfold lval at 1. destruct (N.eqb_spec (u_lock u0) h); [contradiction|]. rewrite andb_false_r.
      rewrite (IH ins h a); auto.
      * cbn. apply zsum_ext. intros k Hk. unfold amount_at. rewrite Hother; auto. intros ->. contradiction.
      * intros k Hk. destruct (Hin k Hk) as (u' & Hu' & R). rewrite Hother in Hu' by (intros ->; contradiction).
        exists u'. auto.
      * intros k u' Hku Hl'. apply (Hall k u'); [right; exact Hku|exact Hl'].
Qed.

Lemma lsum_other_asset : forall m h a, (forall k u, In (k, u) m -> u_lock u = h -> u_asset u <> a) ->
  lsum h a m = 0.
Proof.
  intros m h a H. unfold lsum. apply zsum_zero. intros [k u] Hin. cbn [snd]. unfold lval.
  destruct (N.eqb_spec (u_asset u) a) as [Ea|]; [|reflexivity].
  destruct (N.eqb_spec (u_lock u) h) as [El|]; [|reflexivity]. exfalso. apply (H k u Hin El Ea).
Qed.

(* ---- the outputs a newly finalized transaction creates --------------------------------------------- *)

Lemma unspent_from_ge : forall outs i l j o, unspent_from i outs = Ok l -> In (j, o) l -> (i <= j)%N.
Proof.
  induction outs as [|o0 r IH]; intros i l j o H Hin; cbn [unspent_from] in H.
  - inv H. inv Hin.
  - destruct (materialized (o_type o0)) as [b|]; [|discriminate].
    destruct (unspent_from (N.succ i) r) as [l'| |] eqn:E; cbn [bind] in H; try discriminate. inv H.
    destruct b.
    + destruct Hin as [X|Hin]; [inv X; lia|]. specialize (IH _ _ _ _ E Hin). lia.
    + specialize (IH _ _ _ _ E Hin). lia.
Qed.

Lemma unspent_from_nodup : forall outs i l, unspent_from i outs = Ok l -> NoDup (map fst l).
Proof.
  induction outs as [|o0 r IH]; intros i l H; cbn [unspent_from] in H.
  - inv H. constructor.
  - destruct (materialized (o_type o0)) as [b|]; [|discriminate].
    destruct (unspent_from (N.succ i) r) as [l'| |] eqn:E; cbn [bind] in H; try discriminate. inv H.
    destruct b; [|eapply IH; eauto]. cbn [map fst]. constructor; [|eapply IH; eauto].
    intros Hin. apply in_map_iff in Hin. destruct Hin as ([j o] & Hj & Hin). cbn in Hj. subst j.
    pose proof (unspent_from_ge _ _ _ _ _ E Hin). lia.
Qed.

Definition is_submit (o : output) : bool := o_type o =? ot_submit.
Definition is_slash (o : output) : bool := o_type o =? ot_slash.

(* value of the outputs that become records = all outputs minus withdrawal submissions (no slash outputs) *)
Lemma unspent_from_sum : forall outs i l, unspent_from i outs = Ok l ->
  forallb (fun o => negb (is_slash o)) outs = true ->
  zsum (fun io => o_amount (snd io)) l = sum_outputs outs - sum_submits outs.
Proof.
  induction outs as [|o0 r IH]; intros i l H Hs; cbn [unspent_from] in H.
  - inv H. reflexivity.
  - cbn [forallb] in Hs. apply andb_true_iff in Hs. destruct Hs as [Hs0 Hs].
    unfold materialized in H. unfold is_slash in Hs0.
    unfold sum_outputs, sum_submits. cbn [fold_right]. fold (sum_outputs r). fold (sum_submits r).
    destruct ((o_type o0 =? ot_script) || (o_type o0 =? ot_pledge) || (o_type o0 =? ot_cancel) || (o_type o0 =? ot_accept)
              || (o_type o0 =? ot_remove) || (o_type o0 =? ot_claim) || (o_type o0 =? ot_custodian)) eqn:Em.
    + destruct (unspent_from (N.succ i) r) as [l'| |] eqn:E; cbn [bind] in H; try discriminate. inv H.
      rewrite zsum_cons. cbn [snd]. rewrite (IH _ _ E Hs).
      assert (Hn : (o_type o0 =? ot_submit) = false).
      { destruct (Z.eqb_spec (o_type o0) ot_submit) as [E1|]; [|reflexivity]. rewrite E1 in Em. vm_compute in Em. discriminate. }
      rewrite Hn. lia.
    + destruct ((o_type o0 =? ot_submit) || (o_type o0 =? ot_slash)) eqn:E2; [|discriminate].
      destruct (unspent_from (N.succ i) r) as [l'| |] eqn:E; cbn [bind] in H; try discriminate. inv H.
      rewrite (IH _ _ E Hs).
      destruct (o_type o0 =? ot_submit) eqn:E3; [lia|]. cbn [orb] in E2. rewrite E2 in Hs0. discriminate.
Qed.

Lemma put_utxos_sum : forall (f : (N * N) * utxo -> Z) t us m,
  NoDup (map fst us) -> (forall j o, In (j, o) us -> lookup eq2 m (t_hash t, j) = None) ->
  zsum f (put_utxos t us m) = zsum f m + zsum (fun io => f ((t_hash t, fst io), mk_utxo t (snd io))) us.
Proof.
  intros f t. unfold put_utxos. induction us as [|[j o] r IH]; intros m Hnd Hfree; cbn [fold_left].
  - cbn. lia.
  - cbn [map fst] in Hnd. inv Hnd. rewrite IH; auto.
    + rewrite (zsum_set_absent eq2) by (apply (Hfree j o); left; reflexivity).
      rewrite zsum_cons. cbn [fst snd]. lia.
    + intros j' o' Hin. cbn [fst snd]. rewrite (lookup_set_other eq2 eq2_ok).
      * apply (Hfree j' o'). right. exact Hin.
      * intros X. inv X. apply H1. apply (in_map fst) in Hin. exact Hin.
Qed.

Lemma put_utxos_nodup : forall t us m, NoDup (map fst m) -> NoDup (map fst (put_utxos t us m)).
Proof.
  intros t. unfold put_utxos. induction us as [|io r IH]; intros m H; cbn [fold_left]; auto.
  apply IH. apply (set_nodup eq2 eq2_ok). exact H.
Qed.

(* membership after put_utxos: old entries with another hash, or new unlocked entries *)
Lemma put_utxos_in : forall t us m k u, In (k, u) (put_utxos t us m) ->
  (In (k, u) m) \/ (fst k = t_hash t /\ u_lock u = 0%N /\ u_asset u = t_asset t).
Proof.
  intros t. unfold put_utxos. induction us as [|[j o] r IH]; intros m k u H; cbn [fold_left] in H; auto.
  apply IH in H. destruct H as [H|H]; auto. cbn [fst snd] in H.
  assert (G : forall (m : list ((N*N)*utxo)) k0 v, In (k, u) (set eq2 m k0 v) -> In (k, u) m \/ (k, u) = (k0, v)).
  { clear. induction m as [|[k1 v1] m IH]; intros k0 v H; cbn [set] in H.
    - destruct H as [H|[]]. right. auto.
    - destruct (eq2 k1 k0) eqn:Ek.
      + apply (proj1 (eq2_ok k1 k0)) in Ek. subst k1.
        destruct H as [H|H]; [right; exact (eq_sym H)|left; right; exact H].
      + destruct H as [H|H]; [left; left; exact H|]. apply IH in H. destruct H; [left; right; auto|right; auto]. }
  apply G in H. destruct H as [H|H]; auto. inv H. right. cbn. auto.
Qed.

(* ---- arithmetic of the total ---------------------------------------------------------------------------- *)

Lemma i_add_ok : forall x y v, i_add x y = Ok v -> 0 <= x /\ 0 < y /\ v = x + y.
Proof.
  intros x y v H. unfold i_add in H. destruct ((x <? 0) || (y <=? 0)) eqn:E; [discriminate|].
  destruct ((x + y <? x) || (x + y <? y)); inv H. lia.
Qed.

Lemma i_sub_ok : forall x y v, i_sub x y = Ok v -> 0 <= x /\ 0 < y /\ y <= x /\ v = x - y.
Proof.
  intros x y v H. unfold i_sub in H. destruct ((x <? 0) || (y <=? 0)) eqn:E; [discriminate|].
  destruct (x <? y) eqn:E2; inv H. lia.
Qed.

Lemma sub_submits_ok : forall outs total v, 0 <= total -> sub_submits total outs = Ok v ->
  v = total - sum_submits outs /\ 0 <= v.
Proof.
  induction outs as [|o r IH]; intros total v H0 H; cbn [sub_submits] in H.
  - inv H. cbn. lia.
  - unfold sum_submits. cbn [fold_right]. fold (sum_submits r).
    destruct (o_type o =? ot_submit).
    + destruct (i_sub total (o_amount o)) as [w| |] eqn:E; cbn [bind] in H; try discriminate.
      apply i_sub_ok in E. destruct (IH w v ltac:(lia) H). lia.
    + apply IH; auto.
Qed.

Lemma add_outputs_ok : forall outs total v, 0 <= total -> add_outputs total outs = Ok v ->
  v = total + sum_outputs outs /\ 0 <= v.
Proof.
  induction outs as [|o r IH]; intros total v H0 H; cbn [add_outputs] in H.
  - inv H. cbn. lia.
  - unfold sum_outputs. cbn [fold_right]. fold (sum_outputs r).
    destruct (i_add total (o_amount o)) as [w| |] eqn:E; cbn [bind] in H; try discriminate.
    apply i_add_ok in E. destruct (IH w v ltac:(lia) H). lia.
Qed.

Lemma new_total_delta : forall t total nt, 0 <= total -> new_total t total = Ok nt ->
  match nt with
  | None => supply_delta t = 0
  | Some v => v = total + supply_delta t /\ 0 <= v
  end.
Proof.
  intros t total nt H0 H. unfold new_total in H. unfold supply_delta.
  destruct (tx_type t).
  - destruct (t_inputs t) as [|[] r]; try discriminate.
    destruct (i_add total amount) as [w| |] eqn:E; cbn [rmap] in H; try discriminate. inv H.
    apply i_add_ok in E. lia.
  - destruct (t_inputs t) as [|[] [|]]; try discriminate.
    destruct (i_add total amount) as [w| |] eqn:E; cbn [rmap] in H; try discriminate. inv H.
    apply i_add_ok in E. lia.
  - destruct (is_genesis_tx t); [|inv H; reflexivity].
    destruct (add_outputs total (t_outputs t)) as [w| |] eqn:E; cbn [rmap] in H; try discriminate. inv H.
    apply add_outputs_ok in E; auto.
  - destruct (is_genesis_tx t); [|inv H; reflexivity].
    destruct (add_outputs total (t_outputs t)) as [w| |] eqn:E; cbn [rmap] in H; try discriminate. inv H.
    apply add_outputs_ok in E; auto.
  - destruct (sub_submits total (t_outputs t)) as [w| |] eqn:E; cbn [rmap] in H; try discriminate. inv H.
    apply sub_submits_ok in E; auto; try lia.
  - destruct (is_genesis_tx t); [|inv H; reflexivity].
    destruct (add_outputs total (t_outputs t)) as [w| |] eqn:E; cbn [rmap] in H; try discriminate. inv H.
    apply add_outputs_ok in E; auto.
  - destruct (is_genesis_tx t); [|inv H; reflexivity].
    destruct (add_outputs total (t_outputs t)) as [w| |] eqn:E; cbn [rmap] in H; try discriminate. inv H.
    apply add_outputs_ok in E; auto.
  - destruct (is_genesis_tx t); [|inv H; reflexivity].
    destruct (add_outputs total (t_outputs t)) as [w| |] eqn:E; cbn [rmap] in H; try discriminate. inv H.
    apply add_outputs_ok in E; auto.
Qed.

Lemma capacity_nonneg : forall a, 0 <= capacity a.
Proof.
  intros a. unfold capacity.
  repeat match goal with |- context [if ?b then _ else _] => destruct b end; vm_compute; discriminate.
Qed.

(* ---- the ledger invariant ------------------------------------------------------------------------------------ *)

Lemma type_of_inputs_none : forall ins, type_of_inputs ins = None ->
  (match ins with IGenesis :: _ => true | _ => false end) = false.
Proof. intros [|[] r] H; cbn in *; try reflexivity; discriminate. Qed.

Lemma type_of_outputs_cases : forall outs b,
  let ty := type_of_outputs outs b in
  ty = TyScript \/ ty = TyUnknown \/ ty = TySubmit \/ ty = TyClaim \/ ty = TyNode \/ ty = TyCustodian.
Proof.
  induction outs as [|o r IH]; intros b; cbn [type_of_outputs].
  - destruct b; auto.
  - repeat match goal with |- context [if ?c then _ else _] => destruct c end; auto 7.
Qed.

Definition flow_val (txs : list (N * tx)) (a : N) (e : N * N) : Z :=
  match lookup eq1 txs (fst e) with
  | Some t => if (t_asset t =? a)%N then supply_delta t else 0
  | None => 0
  end.

Lemma supply_flow_zsum : forall s a, supply_flow s a = zsum (flow_val (s_txs s) a) (s_fin s).
Proof.
  intros s a. unfold supply_flow, zsum. induction (s_fin s) as [|e l IH]; [reflexivity|].
  cbn [fold_right]. rewrite IH. unfold flow_val. destruct (lookup eq1 (s_txs s) (fst e)) as [t|]; [|lia].
  destruct (t_asset t =? a)%N; lia.
Qed.

Lemma in_mem {K V} (eqb : K -> K -> bool) : eqb_ok eqb -> forall (m : list (K * V)) k v, In (k, v) m -> mem eqb m k = true.
Proof.
  intros Hok. induction m as [|[k0 v0] m IH]; intros k v H; [inv H|]. unfold mem in *. cbn [lookup].
  destruct (eqb k0 k) eqn:E; [reflexivity|]. destruct H as [H|H].
  - inv H. rewrite (eqb_refl_ok eqb Hok) in E. discriminate.
  - eapply IH; eauto.
Qed.

Section Supply.
  (* the transactions that ever appear; their hashes identify them (C06, collision freedom) *)
  Variable K : list tx.
  Hypothesis Kinj : forall t1 t2, In t1 K -> In t2 K -> t_hash t1 = t_hash t2 -> t1 = t2.

  Record inv (s : state) : Prop := {
    i_nodup : NoDup (map fst (s_utxo s));
    i_wf : wf_txs s;
    i_known : forall h t, lookup eq1 (s_txs s) h = Some t -> In t K;
    i_lock : forall k u, In (k, u) (s_utxo s) -> u_lock u <> 0%N ->
             exists t, In t K /\ t_hash t = u_lock u /\ In k (ord_inputs (t_inputs t));
    i_out : forall k u, In (k, u) (s_utxo s) -> finalized s (fst k) = true;
    i_body : forall h, finalized s h = true -> exists t, lookup eq1 (s_txs s) h = Some t;
    i_spent : forall h t, finalized s h = true -> lookup eq1 (s_txs s) h = Some t ->
              forall k, In k (ord_inputs (t_inputs t)) ->
              exists u, lookup eq2 (s_utxo s) k = Some u /\ u_lock u = h;
    i_unc : forall a, total_of s a = unconsumed_sum s a;
    i_flow : forall a, total_of s a = supply_flow s a;
    i_bound : forall a, 0 <= total_of s a <= capacity a;
    i_nz : forall h, finalized s h = true -> h <> 0%N
  }.

  Lemma inv_ext : forall s s', s_txs s' = s_txs s -> s_fin s' = s_fin s -> s_utxo s' = s_utxo s ->
    s_total s' = s_total s -> inv s -> inv s'.
  Proof.
    intros s s' E1 E2 E3 E4 H. destruct s, s'. cbn in E1, E2, E3, E4. subst. destruct H.
    constructor; assumption.
  Qed.

  Lemma inv_empty : inv empty_state.
  Proof.
    constructor; cbn; try (intros; discriminate); try (intros; contradiction).
    - constructor.
    - intros a. reflexivity.
    - intros a. reflexivity.
    - intros a. unfold total_of. cbn. split; [lia|apply capacity_nonneg].
  Qed.

  (* validity facts of one transaction at the moment it is finalized (from C01 / C03) *)
  Record valid_tx (s : state) (t : tx) : Prop := {
    v_hash : t_hash t <> 0%N;
    v_nodup : NoDup (ord_inputs (t_inputs t));
    v_inputs : forall k, In k (ord_inputs (t_inputs t)) ->
               exists u, lookup eq2 (s_utxo s) k = Some u /\ u_asset u = t_asset t /\ u_lock u = t_hash t;
    v_noslash : forallb (fun o => negb (is_slash o)) (t_outputs t) = true;
    v_shape :
      (type_of_inputs (t_inputs t) = None /\
       zsum (amount_at (s_utxo s)) (ord_inputs (t_inputs t)) = sum_outputs (t_outputs t) /\
       (tx_type t <> TySubmit -> sum_submits (t_outputs t) = 0))
      \/ (exists c k amt, t_inputs t = [IDeposit c k amt] /\ sum_outputs (t_outputs t) = amt /\ sum_submits (t_outputs t) = 0)
      \/ (exists amt, t_inputs t = [IMint amt] /\ sum_outputs (t_outputs t) = amt /\ sum_submits (t_outputs t) = 0)
      \/ (t_inputs t = [IGenesis] /\ sum_submits (t_outputs t) = 0)
  }.

  Lemma locked_are_inputs : forall s t, inv s -> In t K -> t_hash t <> 0%N ->
    forall k u, In (k, u) (s_utxo s) -> u_lock u = t_hash t -> In k (ord_inputs (t_inputs t)).
  Proof.
    intros s t I Ht Hh k u Hin Hl. destruct (i_lock s I k u Hin ltac:(congruence)) as (t' & Ht' & Hh' & Hk).
    assert (t' = t) by (apply Kinj; auto; congruence). subst. exact Hk.
  Qed.

  Lemma valid_delta : forall s t, inv s -> In t K -> valid_tx s t ->
    lsum (t_hash t) (t_asset t) (s_utxo s) + supply_delta t = sum_outputs (t_outputs t) - sum_submits (t_outputs t).
  Proof.
    intros s t I Ht V. destruct V.
    assert (Hl : lsum (t_hash t) (t_asset t) (s_utxo s) = zsum (amount_at (s_utxo s)) (ord_inputs (t_inputs t))).
    { apply lsum_inputs; auto.
      - apply (i_nodup s I).
      - intros k Hk. destruct (v_inputs0 k Hk) as (u & A & B & C). exists u. auto.
      - apply locked_are_inputs; auto. }
    rewrite Hl. unfold supply_delta, tx_type.
    destruct v_shape0 as [(Hn & Hsum & Hsub)|[(c & k & amt & Hi & Hs & Hsub)|[(amt & Hi & Hs & Hsub)|(Hi & Hsub)]]].
    - rewrite Hn. unfold tx_type in Hsub. rewrite Hn in Hsub. unfold is_genesis_tx.
      rewrite (type_of_inputs_none _ Hn).
      pose proof (type_of_outputs_cases (t_outputs t) true) as Hc. cbv zeta in Hc.
      destruct (type_of_outputs (t_outputs t) true) eqn:Ety;
        try (destruct Hc as [X|[X|[X|[X|[X|X]]]]]; discriminate X);
        try (rewrite Hsub by discriminate; lia).
      lia.
    - rewrite Hi. cbn. lia.
    - rewrite Hi. cbn. lia.
    - rewrite Hi. cbn. unfold is_genesis_tx. rewrite Hi. lia.
  Qed.

  Lemma lsum_foreign : forall s t a, inv s -> In t K -> valid_tx s t -> a <> t_asset t ->
    lsum (t_hash t) a (s_utxo s) = 0.
  Proof.
    intros s t a I Ht V Ha. apply lsum_other_asset. intros k u Hin Hl.
    pose proof (locked_are_inputs s t I Ht (v_hash s t V) k u Hin Hl) as Hk.
    destruct (v_inputs s t V k Hk) as (u' & Hu' & Hasset & _).
    rewrite (in_lookup_nodup eq2 eq2_ok _ _ _ (i_nodup s I) Hin) in Hu'. inv Hu'. congruence.
  Qed.

  Lemma finalized_set : forall s fin' h x y, fin' = set eq1 (s_fin s) h x ->
    mem eq1 fin' y = (h =? y)%N || finalized s y.
  Proof. intros s fin' h x y ->. rewrite (mem_set eq1 eq1_ok). reflexivity. Qed.

  (* finalizing one validated, not yet finalized transaction keeps the invariant *)
  Lemma finalize_fresh_inv : forall s t sn s', inv s -> lookup eq1 (s_txs s) (t_hash t) = Some t ->
    finalized s (t_hash t) = false -> valid_tx s t -> finalize_tx s t sn = Ok s' -> inv s'.
  Proof.
    intros s t sn s' I Hbody Hfresh V H.
    pose proof (finalize_tx_fresh s t sn s' Hfresh H) as F. destruct F.
    destruct fe_utxo0 as (us & Hus & Hutxo).
    pose proof (i_known s I _ _ Hbody) as HtK.
    assert (Hfin : forall y, finalized s' y = (t_hash t =? y)%N || finalized s y).
    { intros y. unfold finalized at 1. eapply finalized_set. exact fe_fin0. }
    assert (Hfree : forall j o, In (j, o) us -> lookup eq2 (s_utxo s) (t_hash t, j) = None).
    { intros j o _. destruct (lookup eq2 (s_utxo s) (t_hash t, j)) as [u|] eqn:E; [|reflexivity].
      apply (lookup_in eq2 eq2_ok) in E. apply (i_out s I) in E. cbn [fst] in E. congruence. }
    assert (Hold : forall k, finalized s (fst k) = true -> lookup eq2 (s_utxo s') k = lookup eq2 (s_utxo s) k).
    { intros [k1 k2] Hk. rewrite Hutxo. apply put_utxos_other. cbn [fst] in Hk. congruence. }
    assert (Hnd : NoDup (map fst us)) by (eapply unspent_from_nodup; exact Hus).
    constructor.
    - rewrite Hutxo. apply put_utxos_nodup. apply (i_nodup s I).
    - unfold wf_txs. rewrite fe_txs0. apply (i_wf s I).
    - rewrite fe_txs0. apply (i_known s I).
    - intros k u Hin Hl. rewrite Hutxo in Hin. apply put_utxos_in in Hin.
      destruct Hin as [Hin|(_ & Hz & _)]; [apply (i_lock s I k u Hin Hl)|contradiction].
    - intros k u Hin. rewrite Hutxo in Hin. apply put_utxos_in in Hin. rewrite Hfin.
      destruct Hin as [Hin|(Hk & _)].
      + rewrite (i_out s I k u Hin). apply orb_true_r.
      + rewrite Hk, N.eqb_refl. reflexivity.
    - intros y Hy. rewrite fe_txs0. rewrite Hfin in Hy.
      destruct (N.eqb_spec (t_hash t) y) as [E|_]; [subst y; exists t; exact Hbody|apply (i_body s I y Hy)].
    - intros y ty Hy Hb k Hk. rewrite fe_txs0 in Hb. rewrite Hfin in Hy.
      destruct (N.eqb_spec (t_hash t) y) as [E|Hn].
      + subst y. rewrite Hbody in Hb. inv Hb. destruct (v_inputs s ty V k Hk) as (u & Hu & _ & Hl).
        exists u. split; [|exact Hl]. rewrite Hold; [exact Hu|].
        apply (lookup_in eq2 eq2_ok) in Hu. apply (i_out s I k u Hu).
      + cbn [orb] in Hy. destruct (i_spent s I y ty Hy Hb k Hk) as (u & Hu & Hl).
        exists u. split; [|exact Hl]. rewrite Hold; [exact Hu|].
        apply (lookup_in eq2 eq2_ok) in Hu. apply (i_out s I k u Hu).
    - (* total = unconsumed *)
      intros a. rewrite unconsumed_sum_usum, Hutxo, fe_fin0. unfold usum.
      rewrite (put_utxos_sum _ t us (s_utxo s) Hnd Hfree).
      fold (usum (set eq1 (s_fin s) (t_hash t) (sn_hash sn)) a (s_utxo s)).
      rewrite usum_finalize by (try apply (v_hash s t V); exact Hfresh).
      rewrite <- unconsumed_sum_usum, <- (i_unc s I a).
      assert (Hnew : zsum (fun io : N * output => uval (set eq1 (s_fin s) (t_hash t) (sn_hash sn)) a
                             (snd ((t_hash t, fst io), mk_utxo t (snd io)))) us
                     = if (t_asset t =? a)%N then zsum (fun io => o_amount (snd io)) us else 0).
      { destruct (t_asset t =? a)%N eqn:Ea.
        - apply zsum_ext. intros io _. unfold uval. cbn. rewrite Ea. reflexivity.
        - apply zsum_zero. intros io _. unfold uval. cbn. rewrite Ea. reflexivity. }
      rewrite Hnew. destruct fe_total0 as (nt & Hnt & Htot).
      pose proof (new_total_delta t _ nt (proj1 (i_bound s I (t_asset t))) Hnt) as Hd.
      destruct (N.eqb_spec (t_asset t) a) as [E|Ha]; [subst a|].
      + rewrite (unspent_from_sum _ _ _ Hus (v_noslash s t V)).
        pose proof (valid_delta s t I HtK V) as Hv.
        destruct nt as [v|].
        * destruct Htot as [Htot _]. unfold total_of at 1. rewrite Htot, (lookup_set_same eq1 eq1_ok). lia.
        * unfold total_of at 1. rewrite Htot. fold (total_of s (t_asset t)). lia.
      + rewrite (lsum_foreign s t a I HtK V ltac:(congruence)).
        assert (total_of s' a = total_of s a).
        { unfold total_of. destruct nt as [v|].
          - destruct Htot as [Htot _]. rewrite Htot, (lookup_set_other eq1 eq1_ok); auto.
          - rewrite Htot. reflexivity. }
        lia.
    - (* total = flow *)
      intros a. rewrite supply_flow_zsum, fe_txs0, fe_fin0.
      rewrite (set_keys_absent eq1) by (unfold finalized, mem in Hfresh; destruct (lookup eq1 (s_fin s) (t_hash t)); [discriminate|reflexivity]).
      rewrite zsum_app, <- supply_flow_zsum, <- (i_flow s I a). cbn [zsum fold_right].
      unfold flow_val. cbn [fst]. rewrite Hbody.
      destruct fe_total0 as (nt & Hnt & Htot).
      pose proof (new_total_delta t _ nt (proj1 (i_bound s I (t_asset t))) Hnt) as Hd.
      destruct (N.eqb_spec (t_asset t) a) as [E|Ha]; [subst a|].
      + destruct nt as [v|].
        * destruct Htot as [Htot _]. unfold total_of at 1. rewrite Htot, (lookup_set_same eq1 eq1_ok). lia.
        * unfold total_of at 1. rewrite Htot. fold (total_of s (t_asset t)). lia.
      + assert (total_of s' a = total_of s a).
        { unfold total_of. destruct nt as [v|].
          - destruct Htot as [Htot _]. rewrite Htot, (lookup_set_other eq1 eq1_ok); auto.
          - rewrite Htot. reflexivity. }
        lia.
    - (* bounds *)
      intros a. destruct fe_total0 as (nt & Hnt & Htot).
      pose proof (new_total_delta t _ nt (proj1 (i_bound s I (t_asset t))) Hnt) as Hd.
      destruct nt as [v|].
      + destruct Htot as [Htot Hcap]. unfold total_of. rewrite Htot, (lookup_set eq1 eq1_ok). unfold eq1.
        destruct (N.eqb_spec (t_asset t) a) as [E|Ha]; [subst a|]; [lia|apply (i_bound s I a)].
      + unfold total_of. rewrite Htot. apply (i_bound s I a).
    - intros y Hy. rewrite Hfin in Hy. destruct (N.eqb_spec (t_hash t) y) as [E|_].
      + subst y. apply (v_hash s t V).
      + apply (i_nz s I y Hy).
  Qed.

  Lemma in_set_cases {Kt V} (eqb : Kt -> Kt -> bool) : eqb_ok eqb ->
    forall (m : list (Kt * V)) k0 v k u, In (k, u) (set eqb m k0 v) -> In (k, u) m \/ (k, u) = (k0, v).
  Proof.
    intros Hok. induction m as [|[k1 v1] m IH]; intros k0 v k u H; cbn [set] in H.
    - destruct H as [H|[]]. right. auto.
    - destruct (eqb k1 k0) eqn:Ek.
      + apply Hok in Ek. subst k1. destruct H as [H|H]; [right; exact (eq_sym H)|left; right; exact H].
      + destruct H as [H|H]; [left; left; exact H|]. apply IH in H. destruct H; [left; right; auto|right; auto].
  Qed.

  (* validity of the members of a batch, each at the moment it is finalized *)
  Fixpoint vmembers (s : state) (sn : snapshot) (hs : list N) : Prop :=
    match hs with
    | [] => True
    | h :: r => (forall t, lookup eq1 (s_txs s) h = Some t -> finalized s h = false -> valid_tx s t)
                /\ (forall s1, finalize_member s sn h = Ok s1 -> vmembers s1 sn r)
    end.

  Lemma finalize_member_inv : forall s sn h s1, inv s ->
    (forall t, lookup eq1 (s_txs s) h = Some t -> finalized s h = false -> valid_tx s t) ->
    finalize_member s sn h = Ok s1 -> inv s1.
  Proof.
    intros s sn h s1 I V H. unfold finalize_member in H.
    destruct (lookup eq1 (s_txs s) h) as [t|] eqn:Eb; [|discriminate].
    pose proof (i_wf s I h t Eb) as Hh.
    destruct (finalize_tx s t sn) as [s0| |] eqn:Ef; cbn [bind] in H; try discriminate. injection H as <-.
    assert (I0 : inv s0).
    { destruct (finalized s h) eqn:Efin.
      - rewrite finalize_tx_done in Ef by (rewrite Hh; exact Efin). injection Ef as <-. exact I.
      - eapply (finalize_fresh_inv s t sn s0 I); auto; rewrite Hh; auto. }
    eapply inv_ext; [| | | |exact I0]; reflexivity.
  Qed.

  Lemma finalize_members_inv : forall hs s sn s', inv s -> vmembers s sn hs ->
    finalize_members s sn hs = Ok s' -> inv s'.
  Proof.
    induction hs as [|h r IH]; intros s sn s' I V H; cbn [finalize_members] in H; [inv H; exact I|].
    destruct (finalize_member s sn h) as [s1| |] eqn:Em; cbn [bind] in H; try discriminate.
    destruct V as [V1 V2]. eapply IH; [|apply V2; exact Em|exact H].
    eapply finalize_member_inv; eauto.
  Qed.

  Lemma write_snapshot_core_inv : forall s sn s', inv s -> vmembers s sn (sn_txs sn) ->
    write_snapshot_core s sn = Ok s' -> inv s'.
  Proof.
    intros s sn s' I V H. apply write_snapshot_core_effect in H; [|apply (i_wf s I)].
    destruct H as [_ (s1 & Hm & ->)]. pose proof (finalize_members_inv _ _ _ _ I V Hm) as I1.
    eapply inv_ext; [| | | |exact I1]; reflexivity.
  Qed.

  Lemma write_snapshot_inv : forall s sn sg s' r, inv s -> vmembers s sn (sn_txs sn) ->
    write_snapshot s sn sg = (s', r) -> inv s'.
  Proof.
    intros s sn sg s' r I V H. destruct r as [[]| |];
      try (rewrite (write_snapshot_all_or_nothing _ _ _ _ _ H); [exact I|discriminate]).
    unfold write_snapshot in H. destruct (write_snapshot_txn s sn sg) as [s2| |] eqn:Et; inv H.
    unfold write_snapshot_txn in Et. destruct (debug_asserts s sn); cbn [bind] in Et; try discriminate.
    destruct (write_snapshot_core s sn) as [s1| |] eqn:Ec; cbn [bind] in Et; try discriminate. injection Et as <-.
    pose proof (write_snapshot_core_inv _ _ _ I V Ec) as I1.
    eapply inv_ext; [| | | |exact I1]; reflexivity.
  Qed.

  Lemma write_transaction_inv : forall s t s' r, inv s -> In t K -> write_transaction s t = (s', r) -> inv s'.
  Proof.
    intros s t s' r I Ht H. pose proof (write_transaction_wf _ _ _ _ (i_wf s I) H) as Hwf.
    apply write_transaction_txs in H. destruct H as [->|[Habs ->]]; [exact I|].
    assert (Hother : forall y, finalized s y = true ->
              lookup eq1 (set eq1 (s_txs s) (t_hash t) t) y = lookup eq1 (s_txs s) y).
    { intros y Hy. apply (lookup_set_other eq1 eq1_ok). intros <-.
      destruct (i_body s I _ Hy) as (t0 & E). congruence. }
    constructor.
    - apply (i_nodup s I).
    - exact Hwf.
    - intros h t0. cbn. rewrite (lookup_set eq1 eq1_ok). unfold eq1.
      destruct (t_hash t =? h)%N; [intros X; inv X; exact Ht|apply (i_known s I)].
    - apply (i_lock s I).
    - apply (i_out s I).
    - intros y Hy. change (finalized s y = true) in Hy. cbn. rewrite Hother by exact Hy. apply (i_body s I y Hy).
    - intros y ty Hy Hb. change (finalized s y = true) in Hy. cbn in Hb. rewrite Hother in Hb by exact Hy.
      apply (i_spent s I y ty Hy Hb).
    - apply (i_unc s I).
    - intros a. transitivity (supply_flow s a); [exact (i_flow s I a)|].
      rewrite !supply_flow_zsum. cbn [s_txs s_fin with_txs]. apply zsum_ext. intros [y x] Hin.
      unfold flow_val. cbn [fst]. rewrite Hother; [reflexivity|].
      unfold finalized. eapply (in_mem eq1 eq1_ok). exact Hin.
    - apply (i_bound s I).
    - apply (i_nz s I).
  Qed.

  (* locking an input of t for t (LockUTXOs) keeps the invariant *)
  Lemma lock_utxo_inv : forall s t k s', inv s -> In t K -> t_hash t <> 0%N ->
    In k (ord_inputs (t_inputs t)) -> lock_utxo s k (t_hash t) = Ok s' -> inv s'.
  Proof.
    intros s t k s' I Ht Hnz Hk H. apply lock_utxo_shape in H. destruct H as (u & Hu & Hlock & ->).
    set (u' := {| u_asset := u_asset u; u_type := u_type u; u_amount := u_amount u; u_keys := u_keys u; u_lock := t_hash t |}).
    assert (Hnf : u_lock u = 0%N -> finalized s (t_hash t) = false).
    { intros Hz. destruct (finalized s (t_hash t)) eqn:Ef; [|reflexivity]. exfalso.
      destruct (i_body s I _ Ef) as (t0 & Hb).
      assert (t0 = t) by (apply Kinj; auto; [apply (i_known s I _ _ Hb)|apply (i_wf s I _ _ Hb)]). subst t0.
      destruct (i_spent s I _ _ Ef Hb k Hk) as (u0 & Hu0 & Hl0). rewrite Hu in Hu0. inv Hu0. congruence. }
    constructor.
    - cbn. apply (set_nodup eq2 eq2_ok). apply (i_nodup s I).
    - apply (i_wf s I).
    - apply (i_known s I).
    - intros k0 u0 Hin Hl. cbn in Hin. apply (in_set_cases eq2 eq2_ok) in Hin. destruct Hin as [Hin|E].
      + apply (i_lock s I k0 u0 Hin Hl).
      + inv E. exists t. cbn. auto.
    - intros k0 u0 Hin. cbn in Hin. apply (in_set_cases eq2 eq2_ok) in Hin. destruct Hin as [Hin|E].
      + apply (i_out s I k0 u0 Hin).
      + inv E. apply (lookup_in eq2 eq2_ok) in Hu. apply (i_out s I _ _ Hu).
    - apply (i_body s I).
    - intros y ty Hy Hb k0 Hk0. destruct (i_spent s I y ty Hy Hb k0 Hk0) as (u0 & Hu0 & Hl0).
      cbn. rewrite (lookup_set eq2 eq2_ok). destruct (eq2 k k0) eqn:Ek.
      + apply (proj1 (eq2_ok k k0)) in Ek. subst k0. rewrite Hu in Hu0. inv Hu0.
        exists u'. split; [reflexivity|]. cbn. pose proof (i_nz s I _ Hy). destruct Hlock; congruence.
      + exists u0. auto.
    - intros a. transitivity (unconsumed_sum s a); [exact (i_unc s I a)|].
      rewrite !unconsumed_sum_usum. cbn [s_fin s_utxo with_utxo]. unfold usum.
      rewrite (zsum_set_present eq2 eq2_ok _ _ _ _ u Hu). cbn [snd].
      assert (uval (s_fin s) a u' = uval (s_fin s) a u); [|lia].
      unfold uval. cbn. destruct Hlock as [Hz|Hh].
      + rewrite Hz. cbn. specialize (Hnf Hz). unfold finalized in Hnf. unfold fin_has. rewrite Hnf.
        rewrite andb_false_r. reflexivity.
      + rewrite Hh. reflexivity.
    - apply (i_flow s I).
    - apply (i_bound s I).
    - apply (i_nz s I).
  Qed.

  Lemma lock_utxos_txn_inv : forall ks s t s', inv s -> In t K -> t_hash t <> 0%N ->
    (forall k, In k ks -> In k (ord_inputs (t_inputs t))) ->
    lock_utxos_txn s ks (t_hash t) = Ok s' -> inv s'.
  Proof.
    induction ks as [|k r IH]; intros s t s' I Ht Hnz Hsub H; cbn [lock_utxos_txn] in H; [inv H; exact I|].
    destruct (lock_utxo s k (t_hash t)) as [s1| |] eqn:E; cbn [bind] in H; try discriminate.
    eapply IH; [| | | |exact H]; auto.
    - eapply lock_utxo_inv; eauto. apply Hsub. left. reflexivity.
    - intros k0 Hk0. apply Hsub. right. exact Hk0.
  Qed.

  (* genesis: every entry writes its transaction, then finalizes it in its own snapshot *)
  Fixpoint vgen (s : state) (l : list (snapshot * tx)) : Prop :=
    match l with
    | [] => True
    | (sn, t) :: r =>
        In t K /\
        (let s1 := fst (write_transaction s t) in
         vmembers s1 sn (sn_txs sn) /\
         (forall s2, write_snapshot_core s1 sn = Ok s2 -> vgen (write_work s2 sn []) r))
    end.

  Lemma load_genesis_members_inv : forall l s s', inv s -> vgen s l -> load_genesis_members s l = Ok s' -> inv s'.
  Proof.
    induction l as [|[sn t] r IH]; intros s s' I V H; cbn [load_genesis_members] in H; [inv H; exact I|].
    cbn [vgen] in V. destruct V as (Ht & V1 & V2).
    destruct (write_transaction s t) as [s1 [[]| |]] eqn:Ew; try discriminate. cbn [fst] in V1, V2.
    pose proof (write_transaction_inv _ _ _ _ I Ht Ew) as I1.
    destruct (write_snapshot_core s1 sn) as [s2| |] eqn:Ec; cbn [bind] in H; try discriminate.
    pose proof (write_snapshot_core_inv _ _ _ I1 V1 Ec) as I2.
    eapply IH; [|apply V2; reflexivity|exact H].
    eapply inv_ext; [| | | |exact I2]; reflexivity.
  Qed.

  (* what a validated history may contain *)
  Definition vop (s : state) (o : op) : Prop :=
    match o with
    | OpRound _ _ _ => True
    | OpGhost _ _ => True
    | OpWriteTx t => In t K
    | OpLock ks h => exists t, In t K /\ t_hash t = h /\ h <> 0%N /\ ks = ord_inputs (t_inputs t)
    | OpSnapshot sn _ => vmembers s sn (sn_txs sn)
    | OpGenesis xin l => forall s1, write_asset_info s Consts.Fin_Asset_XIN xin = Ok s1 -> vgen s1 l
    end.

  Inductive validated_history : state -> list op -> Prop :=
  | VH_nil : forall s, validated_history s []
  | VH_cons : forall s o r, vop s o -> validated_history (fst (step s o)) r -> validated_history s (o :: r).

  Lemma step_inv : forall s o, inv s -> vop s o -> inv (fst (step s o)).
  Proof.
    intros s o I V. destruct (step s o) as [s' r] eqn:E. cbn [fst].
    destruct o; cbn [step vop] in E, V.
    - inv E. eapply inv_ext; [| | | |exact I]; reflexivity.
    - unfold load_genesis in E.
      destruct (write_asset_info s Consts.Fin_Asset_XIN xin) as [s1| |] eqn:Ea; cbn [bind] in E; try (inv E; exact I).
      specialize (V s1 eq_refl). apply write_asset_info_shape in Ea. destruct Ea as (v & -> & _).
      destruct (load_genesis_members (with_ainfo s v) l) as [s2| |] eqn:El; inv E; try exact I.
      eapply load_genesis_members_inv; [|exact V|exact El].
      eapply inv_ext; [| | | |exact I]; reflexivity.
    - eapply write_transaction_inv; eauto.
    - destruct V as (t & Ht & <- & Hnz & ->). unfold lock_utxos in E.
      destruct (lock_utxos_txn s (ord_inputs (t_inputs t)) (t_hash t)) as [s1| |] eqn:El; inv E; try exact I.
      eapply lock_utxos_txn_inv; [exact I|exact Ht|exact Hnz| |exact El]. auto.
    - unfold lock_ghost_keys in E. destruct (has_dup ks); [inv E; exact I|].
      destruct (lock_ghosts s ks h) as [s1| |] eqn:El; inv E; try exact I.
      apply lock_ghosts_keepu in El. destruct El as [(K1&K2&K3&K4&_) U].
      eapply inv_ext; [| | | |exact I]; auto.
    - eapply write_snapshot_inv; eauto.
  Qed.

  Lemma run_inv : forall ops s, inv s -> validated_history s ops -> inv (run s ops).
  Proof.
    induction ops as [|o r IH]; intros s I V; cbn; [exact I|]. inv V.
    apply IH; [apply step_inv; auto|assumption].
  Qed.

  Lemma supply_theorem : forall ops, validated_history empty_state ops ->
    forall a, let s := run empty_state ops in
      total_of s a = supply_flow s a /\ total_of s a = unconsumed_sum s a /\ 0 <= total_of s a <= capacity a.
  Proof.
    intros ops V a s. pose proof (run_inv ops empty_state inv_empty V) as I. fold s in I.
    split; [apply (i_flow s I)|split; [apply (i_unc s I)|apply (i_bound s I)]].
  Qed.
End Supply.

(* ---- what holds for EVERY history (no validity needed) ---------------------------------------------- *)
(* total = genesis + deposits + mints - withdrawal submissions over the finalization records (each
   finalized transaction counted once), and the bounds. *)

Record flow_inv (s : state) : Prop := {
  j_wf : wf_txs s;
  j_body : forall h, finalized s h = true -> exists t, lookup eq1 (s_txs s) h = Some t;
  j_flow : forall a, total_of s a = supply_flow s a;
  j_bound : forall a, 0 <= total_of s a <= capacity a
}.

Lemma flow_inv_ext : forall s s', s_txs s' = s_txs s -> s_fin s' = s_fin s -> s_total s' = s_total s ->
  flow_inv s -> flow_inv s'.
Proof.
  intros s s' E1 E2 E3 H. destruct H. constructor.
  - unfold wf_txs. rewrite E1. exact j_wf0.
  - unfold finalized. rewrite E1, E2. exact j_body0.
  - intros a. unfold total_of. rewrite E3. rewrite supply_flow_zsum, E1, E2, <- supply_flow_zsum. apply j_flow0.
  - intros a. unfold total_of. rewrite E3. apply j_bound0.
Qed.

Lemma flow_inv_empty : flow_inv empty_state.
Proof.
  constructor; cbn; try (intros; discriminate).
  - intros a. reflexivity.
  - intros a. unfold total_of. cbn. split; [lia|apply capacity_nonneg].
Qed.

Lemma finalize_fresh_flow : forall s t sn s', flow_inv s -> lookup eq1 (s_txs s) (t_hash t) = Some t ->
  finalized s (t_hash t) = false -> finalize_tx s t sn = Ok s' -> flow_inv s'.
Proof.
  intros s t sn s' J Hbody Hfresh H.
  pose proof (finalize_tx_fresh s t sn s' Hfresh H) as F. destruct F.
  assert (Hfin : forall y, finalized s' y = (t_hash t =? y)%N || finalized s y).
  { intros y. unfold finalized at 1. rewrite fe_fin0. rewrite (mem_set eq1 eq1_ok). reflexivity. }
  destruct fe_total0 as (nt & Hnt & Htot).
  pose proof (new_total_delta t _ nt (proj1 (j_bound s J (t_asset t))) Hnt) as Hd.
  assert (Hother : forall a, a <> t_asset t -> total_of s' a = total_of s a).
  { intros a Ha. unfold total_of. destruct nt as [v|].
    - destruct Htot as [Htot _]. rewrite Htot, (lookup_set_other eq1 eq1_ok); auto.
    - rewrite Htot. reflexivity. }
  constructor.
  - unfold wf_txs. rewrite fe_txs0. apply (j_wf s J).
  - intros y Hy. rewrite fe_txs0. rewrite Hfin in Hy.
    destruct (N.eqb_spec (t_hash t) y) as [E|_]; [subst y; exists t; exact Hbody|apply (j_body s J y Hy)].
  - intros a. rewrite supply_flow_zsum, fe_txs0, fe_fin0.
    rewrite (set_keys_absent eq1) by (unfold finalized, mem in Hfresh; destruct (lookup eq1 (s_fin s) (t_hash t)); [discriminate|reflexivity]).
    rewrite zsum_app, <- supply_flow_zsum, <- (j_flow s J a). cbn [zsum fold_right].
    unfold flow_val. cbn [fst]. rewrite Hbody.
    destruct (N.eqb_spec (t_asset t) a) as [E|Ha]; [subst a|].
    + destruct nt as [v|].
      * destruct Htot as [Htot _]. unfold total_of at 1. rewrite Htot, (lookup_set_same eq1 eq1_ok). lia.
      * unfold total_of at 1. rewrite Htot. fold (total_of s (t_asset t)). lia.
    + rewrite Hother by congruence. lia.
  - intros a. destruct nt as [v|].
    + destruct Htot as [Htot Hcap]. unfold total_of. rewrite Htot, (lookup_set eq1 eq1_ok). unfold eq1.
      destruct (N.eqb_spec (t_asset t) a) as [E|Ha]; [subst a; lia|apply (j_bound s J a)].
    + unfold total_of. rewrite Htot. apply (j_bound s J a).
Qed.

Lemma finalize_members_flow : forall hs s sn s', flow_inv s -> finalize_members s sn hs = Ok s' -> flow_inv s'.
Proof.
  induction hs as [|h r IH]; intros s sn s' J H; cbn [finalize_members] in H; [inv H; exact J|].
  destruct (finalize_member s sn h) as [s1| |] eqn:Em; cbn [bind] in H; try discriminate.
  eapply IH; [|exact H]. unfold finalize_member in Em.
  destruct (lookup eq1 (s_txs s) h) as [t|] eqn:Eb; [|discriminate].
  pose proof (j_wf s J h t Eb) as Hh.
  destruct (finalize_tx s t sn) as [s0| |] eqn:Ef; cbn [bind] in Em; try discriminate. injection Em as <-.
  assert (J0 : flow_inv s0).
  { destruct (finalized s h) eqn:Efin.
    - rewrite finalize_tx_done in Ef by (rewrite Hh; exact Efin). injection Ef as <-. exact J.
    - eapply (finalize_fresh_flow s t sn s0 J); auto; rewrite Hh; auto. }
  eapply flow_inv_ext; [| | |exact J0]; reflexivity.
Qed.

Lemma write_snapshot_core_flow : forall s sn s', flow_inv s -> write_snapshot_core s sn = Ok s' -> flow_inv s'.
Proof.
  intros s sn s' J H. apply write_snapshot_core_effect in H; [|apply (j_wf s J)].
  destruct H as [_ (s1 & Hm & ->)]. pose proof (finalize_members_flow _ _ _ _ J Hm) as J1.
  eapply flow_inv_ext; [| | |exact J1]; reflexivity.
Qed.

Lemma write_transaction_flow : forall s t s' r, flow_inv s -> write_transaction s t = (s', r) -> flow_inv s'.
Proof.
  intros s t s' r J H. pose proof (write_transaction_wf _ _ _ _ (j_wf s J) H) as Hwf.
  apply write_transaction_txs in H. destruct H as [->|[Habs ->]]; [exact J|].
  assert (Hother : forall y, finalized s y = true ->
            lookup eq1 (set eq1 (s_txs s) (t_hash t) t) y = lookup eq1 (s_txs s) y).
  { intros y Hy. apply (lookup_set_other eq1 eq1_ok). intros <-.
    destruct (j_body s J _ Hy) as (t0 & E). congruence. }
  constructor.
  - exact Hwf.
  - intros y Hy. change (finalized s y = true) in Hy. cbn. rewrite Hother by exact Hy. apply (j_body s J y Hy).
  - intros a. transitivity (supply_flow s a); [exact (j_flow s J a)|].
    rewrite !supply_flow_zsum. cbn [s_txs s_fin with_txs]. apply zsum_ext. intros [y x] Hin.
    unfold flow_val. cbn [fst]. rewrite Hother; [reflexivity|].
    unfold finalized. eapply (in_mem eq1 eq1_ok). exact Hin.
  - apply (j_bound s J).
Qed.

Lemma lock_utxos_txn_fields : forall ks s h s', lock_utxos_txn s ks h = Ok s' ->
  s_txs s' = s_txs s /\ s_fin s' = s_fin s /\ s_total s' = s_total s.
Proof.
  induction ks as [|k r IH]; intros s h s' H; cbn [lock_utxos_txn] in H; [inv H; auto|].
  destruct (lock_utxo s k h) as [s1| |] eqn:E; cbn [bind] in H; try discriminate.
  apply lock_utxo_shape in E. destruct E as (u & _ & _ & ->). apply IH in H. exact H.
Qed.

Lemma load_genesis_members_flow : forall l s s', flow_inv s -> load_genesis_members s l = Ok s' -> flow_inv s'.
Proof.
  induction l as [|[sn t] r IH]; intros s s' J H; cbn [load_genesis_members] in H; [inv H; exact J|].
  destruct (write_transaction s t) as [s1 [[]| |]] eqn:Ew; try discriminate.
  pose proof (write_transaction_flow _ _ _ _ J Ew) as J1.
  destruct (write_snapshot_core s1 sn) as [s2| |] eqn:Ec; cbn [bind] in H; try discriminate.
  pose proof (write_snapshot_core_flow _ _ _ J1 Ec) as J2.
  eapply IH; [|exact H]. eapply flow_inv_ext; [| | |exact J2]; reflexivity.
Qed.

Lemma step_flow : forall s o, flow_inv s -> flow_inv (fst (step s o)).
Proof.
  intros s o J. destruct (step s o) as [s' r] eqn:E. cbn [fst].
  destruct r as [[]| |]; try (rewrite (step_all_or_nothing s o s' _ E); [exact J|discriminate]).
  destruct o; cbn [step] in E.
  - inv E. eapply flow_inv_ext; [| | |exact J]; reflexivity.
  - unfold load_genesis in E.
    destruct (write_asset_info s Consts.Fin_Asset_XIN xin) as [s1| |] eqn:Ea; cbn [bind] in E; try (inv E; fail).
    apply write_asset_info_shape in Ea. destruct Ea as (v & -> & _).
    destruct (load_genesis_members (with_ainfo s v) l) eqn:El; inv E.
    eapply load_genesis_members_flow; [|exact El]. eapply flow_inv_ext; [| | |exact J]; reflexivity.
  - eapply write_transaction_flow; eauto.
  - unfold lock_utxos in E. destruct (lock_utxos_txn s ks h) eqn:El; inv E.
    apply lock_utxos_txn_fields in El. destruct El as (A & B & C). eapply flow_inv_ext; eauto.
  - unfold lock_ghost_keys in E. destruct (has_dup ks); [inv E|].
    destruct (lock_ghosts s ks h) eqn:El; inv E. apply lock_ghosts_keepu in El.
    destruct El as [(K1&K2&K3&K4&_) _]. eapply flow_inv_ext; eauto.
  - unfold write_snapshot in E. destruct (write_snapshot_txn s sn signers) as [s2| |] eqn:Et; inv E.
    unfold write_snapshot_txn in Et. destruct (debug_asserts s sn); cbn [bind] in Et; try discriminate.
    destruct (write_snapshot_core s sn) as [s1| |] eqn:Ec; cbn [bind] in Et; try discriminate. injection Et as <-.
    pose proof (write_snapshot_core_flow _ _ _ J Ec) as J1.
    eapply flow_inv_ext; [| | |exact J1]; reflexivity.
Qed.

Lemma run_flow : forall ops s, flow_inv s -> flow_inv (run s ops).
Proof. induction ops as [|o r IH]; intros s J; cbn; auto. apply IH. apply step_flow. exact J. Qed.

Lemma flow_theorem : forall ops a, let s := run empty_state ops in
  total_of s a = supply_flow s a /\ 0 <= total_of s a <= capacity a.
Proof.
  intros ops a s. pose proof (run_flow ops empty_state flow_inv_empty) as J. fold s in J.
  split; [apply (j_flow s J)|apply (j_bound s J)].
Qed.
