(* Lemmas about Model/Custodian.v: byte order, the sort check, the uniqueness
   filter, a full characterisation of ParseCustodianUpdateNodesExtra, the
   pricing loop and validateCustodianUpdateNodes. *)
From Coq Require Import List ZArith NArith Bool Arith Lia ZifyN ZifyNat ZifyBool Sorted Permutation.
Require Import Mixin.Base.Res Mixin.Gen.Consts Mixin.Model.Fixed Mixin.Proofs.Fixed Mixin.Model.Custodian.
Import ListNotations.
Local Open Scope nat_scope.

(* ---- constants ------------------------------------------------------------------ *)
Lemma node_size_val : node_size = 353. Proof. reflexivity. Qed.
Lemma node_size_layout : node_size = 1 + 4 * 32 + 32 + 3 * 64. Proof. reflexivity. Qed.
Lemma min_count_val : min_count = 7. Proof. reflexivity. Qed.
Lemma new_price_val : new_price = (100 * 10 ^ 8)%Z. Proof. reflexivity. Qed.
Lemma update_price_val : update_price = (1 * 10 ^ 8)%Z. Proof. reflexivity. Qed.
Lemma new_price_pos : (0 < new_price)%Z. Proof. reflexivity. Qed.
Lemma update_price_pos : (0 < update_price)%Z. Proof. reflexivity. Qed.
Lemma node_size_pos : 0 < node_size. Proof. rewrite node_size_val. lia. Qed.

(* ---- byte strings ----------------------------------------------------------------- *)
Lemma bytes_eqb_eq a b : bytes_eqb a b = true <-> a = b.
Proof.
  revert b; induction a as [|x a IH]; intros [|y b]; simpl; split; intro H; try congruence.
  - apply andb_true_iff in H as [H1 H2]. apply N.eqb_eq in H1. apply IH in H2. congruence.
  - inversion H; subst. rewrite N.eqb_refl. simpl. apply IH. reflexivity.
Qed.

Lemma bytes_eqb_refl a : bytes_eqb a a = true.
Proof. apply bytes_eqb_eq. reflexivity. Qed.

Lemma bytes_eqb_neq a b : bytes_eqb a b = false <-> a <> b.
Proof.
  split; intro H.
  - intro E. apply bytes_eqb_eq in E. congruence.
  - destruct (bytes_eqb a b) eqn:E; [|reflexivity]. apply bytes_eqb_eq in E. contradiction.
Qed.

Lemma addr_eqb_eq (a b : addr) : addr_eqb a b = true <-> a = b.
Proof.
  unfold addr_eqb. destruct a as [a1 a2], b as [b1 b2]; simpl. rewrite andb_true_iff, !bytes_eqb_eq.
  split; [intros [-> ->]; reflexivity | intros [= -> ->]; auto].
Qed.

Lemma addr_eqb_refl a : addr_eqb a a = true.
Proof. apply addr_eqb_eq. reflexivity. Qed.

Lemma addr_eqb_neq a b : addr_eqb a b = false <-> a <> b.
Proof.
  split; intro H.
  - intro E. apply addr_eqb_eq in E. congruence.
  - destruct (addr_eqb a b) eqn:E; [|reflexivity]. apply addr_eqb_eq in E. contradiction.
Qed.

Lemma mem_In k s : mem k s = true <-> In k s.
Proof.
  induction s as [|h t IH]; simpl; [split; [discriminate|tauto]|].
  rewrite orb_true_iff, bytes_eqb_eq, IH. split; intros [H|H]; auto.
Qed.

Lemma mem_not_In k s : mem k s = false <-> ~ In k s.
Proof.
  rewrite <- mem_In. destruct (mem k s); split; intro H; congruence.
Qed.

(* bytes.Compare is a strict total order *)
Lemma bytes_compare_eq a b : bytes_compare a b = Eq <-> a = b.
Proof.
  revert b; induction a as [|x a IH]; intros [|y b]; simpl; try (split; congruence).
  destruct (x ?= y)%N eqn:E.
  - apply N.compare_eq_iff in E; subst. rewrite IH. split; [intros ->; reflexivity | intros [= ->]; reflexivity].
  - split; [discriminate|]. intros [= -> ->]. rewrite N.compare_refl in E. discriminate.
  - split; [discriminate|]. intros [= -> ->]. rewrite N.compare_refl in E. discriminate.
Qed.

Lemma bytes_compare_antisym a b : bytes_compare b a = CompOpp (bytes_compare a b).
Proof.
  revert b; induction a as [|x a IH]; intros [|y b]; simpl; auto.
  rewrite (N.compare_antisym x y). destruct (x ?= y)%N; simpl; auto.
Qed.

Lemma bytes_lt_trans a b c :
  bytes_compare a b = Lt -> bytes_compare b c = Lt -> bytes_compare a c = Lt.
Proof.
  revert b c; induction a as [|x a IH]; intros [|y b] [|z c]; simpl; try congruence.
  destruct (x ?= y)%N eqn:E1; destruct (y ?= z)%N eqn:E2; try congruence; intros H1 H2.
  - apply N.compare_eq_iff in E1, E2; subst. rewrite N.compare_refl. eauto.
  - apply N.compare_eq_iff in E1; subst. rewrite E2. reflexivity.
  - apply N.compare_eq_iff in E2; subst. rewrite E1. reflexivity.
  - apply N.compare_lt_iff in E1, E2.
    assert (E : (x ?= z)%N = Lt) by (apply N.compare_lt_iff; exact (N.lt_trans _ _ _ E1 E2)). rewrite E. reflexivity.
Qed.

Lemma bytes_lt_irrefl a : bytes_compare a a <> Lt.
Proof. rewrite (proj2 (bytes_compare_eq a a) eq_refl). discriminate. Qed.

(* ---- order on nodes: custodian spend key ------------------------------------------- *)
Definition nlt (a b : cnode) : Prop := bytes_compare (cn_cust_spend a) (cn_cust_spend b) = Lt.
Definition nle (a b : cnode) : Prop := bytes_compare (cn_cust_spend a) (cn_cust_spend b) <> Gt.

Lemma node_ltb_lt a b : node_ltb a b = true <-> nlt a b.
Proof.
  unfold node_ltb, bytes_ltb, nlt. destruct (bytes_compare _ _); split; congruence.
Qed.

Lemma node_ltb_false_le a b : node_ltb a b = false <-> nle b a.
Proof.
  unfold node_ltb, bytes_ltb, nle. rewrite (bytes_compare_antisym (cn_cust_spend a) (cn_cust_spend b)).
  destruct (bytes_compare _ _); simpl; split; congruence.
Qed.

Lemma nlt_nle a b : nlt a b -> nle a b.
Proof. unfold nlt, nle. intros ->. discriminate. Qed.

Lemma nle_cases a b : nle a b <-> nlt a b \/ cn_cust_spend a = cn_cust_spend b.
Proof.
  unfold nle, nlt. rewrite <- bytes_compare_eq. destruct (bytes_compare _ _); split; intro H; auto; try congruence.
  - destruct H; discriminate.
Qed.

Lemma nlt_trans a b c : nlt a b -> nlt b c -> nlt a c.
Proof. unfold nlt. apply bytes_lt_trans. Qed.

Lemma nle_trans a b c : nle a b -> nle b c -> nle a c.
Proof.
  rewrite !nle_cases. intros [H1|H1] [H2|H2].
  - left. eapply nlt_trans; eauto.
  - left. unfold nlt in *. rewrite <- H2. exact H1.
  - left. unfold nlt in *. rewrite H1. exact H2.
  - right. congruence.
Qed.

(* ---- the sort ------------------------------------------------------------------------ *)
Lemma insert_perm n l : Permutation (insert_node n l) (n :: l).
Proof.
  induction l as [|h t IH]; simpl; [reflexivity|].
  destruct (node_ltb n h); [reflexivity|].
  rewrite IH. apply perm_swap.
Qed.

Lemma sort_perm l : Permutation (sort_nodes l) l.
Proof.
  induction l as [|h t IH]; simpl; [reflexivity|].
  rewrite insert_perm. constructor. exact IH.
Qed.

Lemma insert_sorted n l : StronglySorted nle l -> StronglySorted nle (insert_node n l).
Proof.
  induction l as [|h t IH]; simpl; intro S.
  - constructor; constructor.
  - inversion S as [|? ? St Fh]; subst.
    destruct (node_ltb n h) eqn:E.
    + apply node_ltb_lt, nlt_nle in E. constructor; [exact S|].
      constructor; [exact E|]. eapply Forall_impl; [|exact Fh]. intros x Hx. eapply nle_trans; eauto.
    + apply node_ltb_false_le in E. constructor; [apply IH; exact St|].
      eapply Permutation_Forall; [symmetry; apply insert_perm|]. constructor; assumption.
Qed.

Lemma sort_sorted l : StronglySorted nle (sort_nodes l).
Proof. induction l as [|h t IH]; simpl; [constructor|]. apply insert_sorted. exact IH. Qed.

Lemma sorted_le_strict l :
  StronglySorted nle l -> NoDup (map cn_cust_spend l) -> StronglySorted nlt l.
Proof.
  induction l as [|h t IH]; intros S D; [constructor|].
  inversion S as [|? ? St Fh]; subst. simpl in D. inversion D as [|? ? Nin Dt]; subst.
  constructor; [apply IH; assumption|].
  rewrite Forall_forall in *. intros x Hx. specialize (Fh x Hx).
  apply nle_cases in Fh as [L|E]; [exact L|]. exfalso. apply Nin. rewrite E. apply in_map. exact Hx.
Qed.

Lemma sort_of_sorted l : StronglySorted nlt l -> sort_nodes l = l.
Proof.
  induction l as [|h t IH]; intro S; [reflexivity|].
  inversion S as [|? ? St Fh]; subst. simpl. rewrite (IH St).
  destruct t as [|h' t']; [reflexivity|]. simpl.
  inversion Fh as [|? ? L _]; subst. apply node_ltb_lt in L. rewrite L. reflexivity.
Qed.

Lemma sorted_strict_nodup l : StronglySorted nlt l -> NoDup (map cn_cust_spend l).
Proof.
  induction l as [|h t IH]; intro S; simpl; [constructor|].
  inversion S as [|? ? St Fh]; subst. constructor; [|apply IH; exact St].
  intro Hin. apply in_map_iff in Hin as [x [E Hx]]. rewrite Forall_forall in Fh.
  specialize (Fh x Hx). unfold nlt in Fh. rewrite E in Fh. exact (bytes_lt_irrefl _ Fh).
Qed.

(* Any correct sort agrees with the insertion sort when keys are distinct:
   a strictly sorted list is determined by its elements.  This is why the
   unstable sort.Slice can be modelled by [sort_nodes]. *)
Lemma sorted_perm_unique l1 l2 :
  StronglySorted nlt l1 -> StronglySorted nlt l2 -> Permutation l1 l2 -> l1 = l2.
Proof.
  revert l2; induction l1 as [|a t1 IH]; intros l2 S1 S2 P.
  - apply Permutation_nil in P. congruence.
  - destruct l2 as [|b t2]; [symmetry in P; apply Permutation_nil in P; discriminate|].
    inversion S1 as [|? ? St1 F1]; inversion S2 as [|? ? St2 F2]; subst.
    rewrite Forall_forall in F1, F2.
    assert (E : a = b).
    { assert (Ha : In a (b :: t2)) by (eapply Permutation_in; [exact P|left; reflexivity]).
      assert (Hb : In b (a :: t1)) by (eapply Permutation_in; [symmetry; exact P|left; reflexivity]).
      destruct Ha as [Ha|Ha]; [congruence|]. destruct Hb as [Hb|Hb]; [congruence|].
      exfalso. pose proof (nlt_trans _ _ _ (F1 b Hb) (F2 a Ha)) as C. exact (bytes_lt_irrefl _ C). }
    subst b. f_equal. apply IH; try assumption. eapply Permutation_cons_inv; exact P.
Qed.

Lemma any_sort_is_sort_nodes l l' :
  Permutation l' l -> StronglySorted nle l' -> NoDup (map cn_cust_spend l) -> l' = sort_nodes l.
Proof.
  intros P S D.
  assert (D' : NoDup (map cn_cust_spend l')).
  { eapply Permutation_NoDup; [|exact D]. apply Permutation_map. symmetry. exact P. }
  apply sorted_perm_unique.
  - apply sorted_le_strict; assumption.
  - apply sorted_le_strict; [apply sort_sorted|].
    eapply Permutation_NoDup; [|exact D]. apply Permutation_map. symmetry. apply sort_perm.
  - rewrite P. symmetry. apply sort_perm.
Qed.

(* ---- firstn / skipn / slice / concat / chunk ------------------------------------------ *)
Lemma firstn_app_exact {A} (a r : list A) k : length a = k -> firstn k (a ++ r) = a.
Proof.
  intros <-. rewrite firstn_app, Nat.sub_diag, firstn_all. simpl. apply app_nil_r.
Qed.

Lemma skipn_app_exact {A} (a r : list A) k : length a = k -> skipn k (a ++ r) = r.
Proof.
  intros <-. rewrite skipn_app, Nat.sub_diag, skipn_all. reflexivity.
Qed.

Lemma app_inj_len {A} (a b x y : list A) :
  length a = length b -> a ++ x = b ++ y -> a = b /\ x = y.
Proof.
  revert b; induction a as [|h t IH]; intros [|h' t'] L E; simpl in *; try discriminate; auto.
  injection E as -> E. injection L as L. destruct (IH _ L E) as [-> ->]. auto.
Qed.

Lemma concat_inj_len (k : nat) (l1 l2 : list bytes) :
  Forall (fun c => length c = k) l1 -> Forall (fun c => length c = k) l2 ->
  length l1 = length l2 -> concat l1 = concat l2 -> l1 = l2.
Proof.
  revert l2; induction l1 as [|a t IH]; intros [|b t2] F1 F2 L E; simpl in *; try discriminate; auto.
  inversion F1; inversion F2; subst. injection L as L.
  destruct (app_inj_len a b (concat t) (concat t2)) as [-> E']; [congruence|exact E|].
  f_equal. apply IH; assumption.
Qed.

Lemma concat_length_fixed (k : nat) (l : list bytes) :
  Forall (fun c => length c = k) l -> length (concat l) = length l * k.
Proof.
  induction 1 as [|a t Ha _ IH]; simpl; [reflexivity|]. rewrite app_length, IH, Ha. reflexivity.
Qed.

Lemma chunk_length k cnt b : length (chunk k cnt b) = cnt.
Proof. revert b; induction cnt; simpl; intros; [reflexivity|]. rewrite IHcnt. reflexivity. Qed.

Lemma chunk_concat k cnt b : length b = cnt * k -> concat (chunk k cnt b) = b.
Proof.
  revert b; induction cnt as [|c IH]; simpl; intros b L.
  - destruct b; [reflexivity|discriminate].
  - rewrite IH; [apply firstn_skipn|]. rewrite skipn_length. lia.
Qed.

Lemma chunk_of_concat k (cs : list bytes) :
  Forall (fun c => length c = k) cs -> chunk k (length cs) (concat cs) = cs.
Proof.
  induction 1 as [|a t Ha _ IH]; simpl; [reflexivity|].
  rewrite (firstn_app_exact _ _ _ Ha), (skipn_app_exact _ _ _ Ha), IH. reflexivity.
Qed.

Lemma chunk_all_len k cnt b : length b = cnt * k -> Forall (fun c => length c = k) (chunk k cnt b).
Proof.
  revert b; induction cnt as [|c IH]; simpl; intros b L; constructor.
  - rewrite firstn_length. lia.
  - apply IH. rewrite skipn_length. lia.
Qed.

Lemma skipn_skipn' {A} (a b : nat) (l : list A) : skipn a (skipn b l) = skipn (b + a) l.
Proof.
  revert l; induction b as [|b IH]; intro l; [reflexivity|].
  destruct l as [|h t]; simpl; [apply skipn_nil|]. apply IH.
Qed.

(* an extra of at least 128 bytes splits into custodian, body, signature *)
Lemma split4 (e : bytes) : 128 <= length e ->
  e = slice 0 32 e ++ slice 32 64 e ++ slice 64 (length e - 64) e ++ skipn (length e - 64) e.
Proof.
  intro L. unfold slice. simpl skipn at 1.
  rewrite <- (firstn_skipn 32 e) at 1. f_equal.
  rewrite <- (firstn_skipn 32 (skipn 32 e)) at 1. rewrite skipn_skipn'. f_equal.
  change (32 + 32) with 64.
  rewrite <- (firstn_skipn (length e - 64 - 64) (skipn 64 e)) at 1. f_equal.
  rewrite skipn_skipn'. f_equal. lia.
Qed.

Lemma split4_inv (a b c d : bytes) :
  length a = 32 -> length b = 32 -> length d = 64 ->
  let e := a ++ b ++ c ++ d in
  slice 0 32 e = a /\ slice 32 64 e = b /\ slice 64 (length e - 64) e = c /\ skipn (length e - 64) e = d /\
  length e = 128 + length c.
Proof.
  intros La Lb Ld e. unfold slice.
  assert (Le : length e = 128 + length c) by (unfold e; rewrite !app_length; lia).
  repeat split.
  - simpl skipn. unfold e. apply firstn_app_exact. exact La.
  - unfold e. rewrite (skipn_app_exact _ _ _ La). apply firstn_app_exact. exact Lb.
  - unfold e at 2. rewrite app_assoc. rewrite skipn_app_exact by (rewrite app_length; lia).
    apply firstn_app_exact. lia.
  - unfold e at 2. rewrite !app_assoc. apply skipn_app_exact. rewrite !app_length. lia.
  - exact Le.
Qed.

(* ---- entries ------------------------------------------------------------------------------- *)
(* the byte layout of one parsed entry *)
Definition node_shape (n : cnode) : Prop :=
  length (cn_extra n) = node_size /\ nth 0 (cn_extra n) 0%N = action_update /\
  cn_cust_spend n = slice 1 33 (cn_extra n) /\ cn_cust_view n = slice 33 65 (cn_extra n) /\
  cn_payee_spend n = slice 65 97 (cn_extra n) /\ cn_payee_view n = slice 97 129 (cn_extra n).

Lemma node_shape_inj a b : node_shape a -> node_shape b -> cn_extra a = cn_extra b -> a = b.
Proof.
  intros (_ & _ & A1 & A2 & A3 & A4) (_ & _ & B1 & B2 & B3 & B4) E.
  destruct a, b; simpl in *. subst. reflexivity.
Qed.

Lemma node_shape_list_inj l1 l2 :
  Forall node_shape l1 -> Forall node_shape l2 -> map cn_extra l1 = map cn_extra l2 -> l1 = l2.
Proof.
  revert l2; induction l1 as [|a t IH]; intros [|b t2] F1 F2 E; simpl in *; try discriminate; auto.
  inversion F1; inversion F2; subst. injection E as E1 E2.
  f_equal; [apply node_shape_inj; assumption | apply IH; assumption].
Qed.

Section WithVerify.
Variable verify : bytes -> bytes -> bytes -> bool.

(* payee and custodian differ and both signed the first 161 bytes of the entry *)
Definition node_signed (n : cnode) : Prop :=
  cn_payee_spend n <> cn_cust_spend n /\
  verify (cn_payee_spend n) (slice 0 161 (cn_extra n)) (slice 225 289 (cn_extra n)) = true /\
  verify (cn_cust_spend n) (slice 0 161 (cn_extra n)) (slice 289 node_size (cn_extra n)) = true.

Definition node_ok (genesis : bool) (n : cnode) : Prop :=
  node_shape n /\ (genesis = false -> node_signed n).

Lemma validate_node_ok n : validate_node verify n = Ok tt <-> node_signed n.
Proof.
  unfold validate_node, node_signed.
  destruct (bytes_eqb _ _) eqn:E1.
  - apply bytes_eqb_eq in E1. split; [discriminate|]. intros [H _]. contradiction.
  - apply bytes_eqb_neq in E1.
    destruct (verify (cn_payee_spend n) _ _) eqn:E2; simpl; [|split; [discriminate|intros (_ & H & _); discriminate]].
    destruct (verify (cn_cust_spend n) _ _) eqn:E3; simpl; [|split; [discriminate|intros (_ & _ & H); discriminate]].
    split; auto.
Qed.

Lemma validate_node_no_panic n : validate_node verify n <> Panic.
Proof.
  unfold validate_node. destruct (bytes_eqb _ _); [discriminate|].
  destruct (verify (cn_payee_spend n) _ _); simpl; [|discriminate].
  destruct (verify (cn_cust_spend n) _ _); simpl; discriminate.
Qed.

Lemma parse_node_spec g e n : parse_node verify g e = Ok n <-> cn_extra n = e /\ node_ok g n.
Proof.
  unfold parse_node, node_ok, node_shape.
  destruct (length e =? node_size) eqn:E1; simpl.
  2:{ apply Nat.eqb_neq in E1. split; [discriminate|]. intros (<- & (L & _) & _). contradiction. }
  apply Nat.eqb_eq in E1.
  destruct (nth 0 e 0 =? action_update)%N eqn:E2; simpl.
  2:{ apply N.eqb_neq in E2. split; [discriminate|]. intros (<- & (_ & A & _) & _). contradiction. }
  apply N.eqb_eq in E2.
  set (n0 := {| cn_cust_spend := slice 1 33 e; cn_cust_view := slice 33 65 e;
                cn_payee_spend := slice 65 97 e; cn_payee_view := slice 97 129 e; cn_extra := e |}).
  assert (Sh : forall m, cn_extra m = e ->
     (length (cn_extra m) = node_size /\ nth 0 (cn_extra m) 0%N = action_update /\
      cn_cust_spend m = slice 1 33 (cn_extra m) /\ cn_cust_view m = slice 33 65 (cn_extra m) /\
      cn_payee_spend m = slice 65 97 (cn_extra m) /\ cn_payee_view m = slice 97 129 (cn_extra m)) -> m = n0).
  { intros m Em (_ & _ & A1 & A2 & A3 & A4). destruct m; simpl in *. subst. reflexivity. }
  pose proof (validate_node_ok n0) as V. pose proof (validate_node_no_panic n0) as NP.
  destruct (validate_node verify n0) as [[]| |] eqn:EV; [| |contradiction].
  - split.
    + intros [= <-]. simpl. split; [reflexivity|]. split; [repeat split; auto|]. intros _. apply V. reflexivity.
    + intros (Em & S & _). rewrite (Sh n Em S). reflexivity.
  - destruct g.
    + split.
      * intros [= <-]. simpl. split; [reflexivity|]. split; [repeat split; auto|discriminate].
      * intros (Em & S & _). rewrite (Sh n Em S). reflexivity.
    + split; [discriminate|]. intros (Em & S & Sg). rewrite (Sh n Em S) in Sg.
      apply V in Sg; [discriminate|reflexivity].
Qed.

Lemma parse_node_no_panic g e : parse_node verify g e <> Panic.
Proof.
  unfold parse_node. destruct (length e =? node_size); simpl; [|discriminate].
  destruct (nth 0 e 0 =? action_update)%N; simpl; [|discriminate].
  match goal with |- context [validate_node verify ?m] =>
    pose proof (validate_node_no_panic m) as NP; destruct (validate_node verify m) end;
    [discriminate|destruct g; discriminate|contradiction].
Qed.

(* ---- the uniqueness filter --------------------------------------------------------------------- *)
(* [fresh seen ns]: what the uniqueKeys map enforces, entry after entry *)
Fixpoint fresh (seen : list bytes) (ns : list cnode) : Prop :=
  match ns with
  | [] => True
  | n :: t =>
      ~ In (cn_payee_spend n) seen /\ ~ In (cn_cust_spend n) seen /\
      fresh (cn_cust_view n :: cn_cust_spend n :: cn_payee_view n :: cn_payee_spend n :: seen) t
  end.

Lemma node_ok_shape g l : Forall (node_ok g) l -> Forall node_shape l.
Proof. apply Forall_impl. intros n [S _]. exact S. Qed.

Lemma parse_nodes_spec g chunks seen ns :
  parse_nodes verify g chunks seen = Ok ns <->
  map cn_extra ns = chunks /\ Forall (node_ok g) ns /\ fresh seen ns.
Proof.
  revert seen ns; induction chunks as [|c rest IH]; intros seen ns; simpl.
  - split.
    + intros [= <-]. simpl. auto.
    + intros (E & _ & _). destruct ns; [reflexivity|discriminate].
  - destruct (parse_node verify g c) as [n| |] eqn:EP; simpl.
    + apply parse_node_spec in EP as [Ec Ok_n].
      destruct (mem (cn_payee_spend n) seen || mem (cn_cust_spend n) seen) eqn:EM.
      * split; [discriminate|]. intros (E & F & Fr). destruct ns as [|m t]; [discriminate|].
        simpl in E. injection E as E1 E2. inversion F as [|? ? Fm Ft]; subst.
        assert (m = n) by (apply node_shape_inj; [apply Fm|apply Ok_n|congruence]). subst m.
        simpl in Fr. destruct Fr as (N1 & N2 & _).
        apply orb_true_iff in EM as [EM|EM]; apply mem_In in EM; contradiction.
      * apply orb_false_iff in EM as [M1 M2]. apply mem_not_In in M1, M2.
        destruct (parse_nodes verify g rest _) as [ns'| |] eqn:ER; simpl.
        -- apply IH in ER as (E' & F' & Fr'). split.
           ++ intros [= <-]. simpl. repeat split; auto. congruence.
           ++ intros (E & F & Fr). destruct ns as [|m t]; [discriminate|].
              simpl in E. injection E as E1 E2. inversion F as [|? ? Fm Ft]; subst.
              assert (m = n) by (apply node_shape_inj; [apply Fm|apply Ok_n|congruence]). subst m.
              simpl in Fr. destruct Fr as (_ & _ & Fr).
              assert (t = ns') by (apply node_shape_list_inj;
                [eapply node_ok_shape; eauto|eapply node_ok_shape; eauto|congruence]).
              subst. reflexivity.
        -- split; [discriminate|]. intros (E & F & Fr). destruct ns as [|m t]; [discriminate|].
           simpl in E. injection E as E1 E2. inversion F as [|? ? Fm Ft]; subst.
           assert (m = n) by (apply node_shape_inj; [apply Fm|apply Ok_n|congruence]). subst m.
           simpl in Fr. destruct Fr as (_ & _ & Fr).
           assert (ER2 : parse_nodes verify g (map cn_extra t)
              (cn_cust_view n :: cn_cust_spend n :: cn_payee_view n :: cn_payee_spend n :: seen) = Ok t)
             by (apply IH; auto).
           congruence.
        -- split; [discriminate|]. intros (E & F & Fr). destruct ns as [|m t]; [discriminate|].
           simpl in E. injection E as E1 E2. inversion F as [|? ? Fm Ft]; subst.
           assert (m = n) by (apply node_shape_inj; [apply Fm|apply Ok_n|congruence]). subst m.
           simpl in Fr. destruct Fr as (_ & _ & Fr).
           assert (ER2 : parse_nodes verify g (map cn_extra t)
              (cn_cust_view n :: cn_cust_spend n :: cn_payee_view n :: cn_payee_spend n :: seen) = Ok t)
             by (apply IH; auto).
           congruence.
    + split; [discriminate|]. intros (E & F & _). destruct ns as [|m t]; [discriminate|].
      simpl in E. injection E as E1 E2. inversion F as [|? ? Fm Ft]; subst.
      assert (EP2 : parse_node verify g (cn_extra m) = Ok m) by (apply parse_node_spec; auto). congruence.
    + exfalso. exact (parse_node_no_panic _ _ EP).
Qed.

Lemma parse_nodes_no_panic g chunks seen : parse_nodes verify g chunks seen <> Panic.
Proof.
  revert seen; induction chunks as [|c rest IH]; intro seen; simpl; [discriminate|].
  destruct (parse_node verify g c) as [n| |] eqn:EP; simpl; [|discriminate|exfalso; exact (parse_node_no_panic _ _ EP)].
  destruct (_ || _); [discriminate|].
  destruct (parse_nodes verify g rest _) eqn:ER; simpl; [discriminate|discriminate|]. exfalso. exact (IH _ ER).
Qed.

(* consequences of the filter *)
Lemma fresh_weaken seen seen' ns : incl seen' seen -> fresh seen ns -> fresh seen' ns.
Proof.
  revert seen seen'; induction ns as [|n t IH]; intros seen seen' I; simpl; [auto|].
  intros (N1 & N2 & Fr). repeat split; auto.
  eapply IH; [|exact Fr]. intros x Hx. simpl in Hx |- *. intuition.
Qed.

Lemma fresh_not_in seen ns k : fresh seen ns -> In k seen ->
  ~ In k (map cn_cust_spend ns) /\ ~ In k (map cn_payee_spend ns).
Proof.
  revert seen; induction ns as [|n t IH]; intros seen Fr Hk; simpl; [tauto|].
  simpl in Fr. destruct Fr as (N1 & N2 & Fr).
  destruct (IH _ Fr) as [I1 I2]; [simpl; tauto|].
  split; intros [E|H]; try contradiction; subst; contradiction.
Qed.

(* all custodian and payee spend keys of a filtered, signed entry list are pairwise distinct *)
Definition spend_keys (ns : list cnode) : list bytes :=
  flat_map (fun n => [cn_payee_spend n; cn_cust_spend n]) ns.

Lemma fresh_spend_keys_nodup seen ns :
  fresh seen ns -> Forall (fun n => cn_payee_spend n <> cn_cust_spend n) ns -> NoDup (spend_keys ns).
Proof.
  revert seen; induction ns as [|n t IH]; intros seen Fr F; simpl; [constructor|].
  simpl in Fr. destruct Fr as (N1 & N2 & Fr). inversion F as [|? ? Fn Ft]; subst.
  assert (Hp : ~ In (cn_payee_spend n) (spend_keys t) /\ ~ In (cn_cust_spend n) (spend_keys t)).
  { destruct (fresh_not_in _ _ (cn_payee_spend n) Fr) as [A1 A2]; [simpl; tauto|].
    destruct (fresh_not_in _ _ (cn_cust_spend n) Fr) as [B1 B2]; [simpl; tauto|].
    unfold spend_keys. split; intro H; apply in_flat_map in H as [m [Hm [E|[E|[]]]]].
    - apply A2. rewrite <- E. apply in_map. exact Hm.
    - apply A1. rewrite <- E. apply in_map. exact Hm.
    - apply B2. rewrite <- E. apply in_map. exact Hm.
    - apply B1. rewrite <- E. apply in_map. exact Hm. }
  destruct Hp as [P1 P2].
  constructor; [intros [E|H]; [congruence|contradiction]|].
  constructor; [exact P2|]. eapply IH; eauto.
Qed.

Lemma fresh_cust_nodup seen ns : fresh seen ns -> NoDup (map cn_cust_spend ns).
Proof.
  revert seen; induction ns as [|n t IH]; intros seen Fr; simpl; [constructor|].
  simpl in Fr. destruct Fr as (_ & _ & Fr). constructor; [|eapply IH; exact Fr].
  destruct (fresh_not_in _ _ (cn_cust_spend n) Fr) as [A _]; [simpl; tauto|]. exact A.
Qed.

(* ---- ParseCustodianUpdateNodesExtra, characterised ------------------------------------------------ *)
Definition update_wf (genesis : bool) (u : update) : Prop :=
  length (fst (u_cust u)) = 32 /\ length (snd (u_cust u)) = 32 /\ length (u_sig u) = 64 /\
  min_count <= length (u_nodes u) /\
  Forall (node_ok genesis) (u_nodes u) /\
  fresh [] (u_nodes u) /\
  StronglySorted nlt (u_nodes u).

Lemma node_ok_len g l : Forall (node_ok g) l -> Forall (fun c => length c = node_size) (map cn_extra l).
Proof.
  induction 1 as [|n t Hn _ IH]; simpl; constructor; [apply Hn|exact IH].
Qed.


Theorem parse_update_spec g extra u :
  parse_update verify g extra = Ok u <-> extra = encode_update u /\ update_wf g u.
Proof.
  unfold parse_update. split.
  - destruct (length extra <? 64 + node_size * min_count + 64) eqn:E1; [discriminate|].
    apply Nat.ltb_ge in E1.
    set (body := slice 64 (length extra - 64) extra).
    destruct (length body mod node_size =? 0) eqn:E2; simpl; [|discriminate].
    apply Nat.eqb_eq in E2.
    destruct (parse_nodes verify g _ []) as [l| |] eqn:E3; simpl; try discriminate.
    destruct (bytes_eqb body _) eqn:E4; [|discriminate].
    apply bytes_eqb_eq in E4. intros [= <-].
    assert (Lb : length body = length extra - 128).
    { unfold body, slice. rewrite firstn_length, skipn_length. lia. }
    pose proof node_size_pos as NP.
    assert (Lc : length body = length body / node_size * node_size).
    { rewrite Nat.mul_comm. apply Nat.div_exact; [lia|exact E2]. }
    apply parse_nodes_spec in E3 as (Em & F & Fr).
    assert (Cc : concat (map cn_extra l) = body) by (rewrite Em; apply chunk_concat; exact Lc).
    assert (Ps : Permutation (sort_nodes l) l) by apply sort_perm.
    assert (Fs : Forall (node_ok g) (sort_nodes l)) by (eapply Permutation_Forall; [symmetry; exact Ps|exact F]).
    assert (Es : sort_nodes l = l).
    { apply node_shape_list_inj; [eapply node_ok_shape; eauto|eapply node_ok_shape; eauto|].
      apply (concat_inj_len node_size); [eapply node_ok_len; eauto|eapply node_ok_len; eauto| |congruence].
      rewrite !map_length. apply Permutation_length. exact Ps. }
    rewrite Es in *. simpl.
    assert (Ll : length l = length body / node_size).
    { rewrite <- (map_length cn_extra), Em. apply chunk_length. }
    split.
    + unfold encode_update. simpl. rewrite Cc. apply split4. lia.
    + unfold update_wf; simpl. unfold slice. rewrite !firstn_length, !skipn_length.
      repeat split; try lia; auto.
      * rewrite Ll. apply Nat.div_le_lower_bound; lia.
      * apply sorted_le_strict; [rewrite <- Es; apply sort_sorted|eapply fresh_cust_nodup; eauto].
  - intros (-> & La & Lb & Ld & Lm & F & Fr & S).
    destruct u as [[a b] nodes d]. unfold encode_update. cbn [fst snd u_cust u_nodes u_sig] in *.
    destruct (split4_inv a b (concat (map cn_extra nodes)) d La Lb Ld) as (S1 & S2 & S3 & S4 & Le).
    cbv zeta in S1, S2, S3, S4, Le. cbv zeta.
    assert (Lc : length (concat (map cn_extra nodes)) = length nodes * node_size).
    { rewrite (concat_length_fixed node_size); [rewrite map_length; reflexivity|eapply node_ok_len; eauto]. }
    rewrite S3, S1, S2, S4, Le, Lc.
    pose proof node_size_pos as NP.
    destruct (128 + length nodes * node_size <? 64 + node_size * min_count + 64) eqn:E1.
    { apply Nat.ltb_lt in E1. exfalso.
      assert (node_size * min_count <= length nodes * node_size)
        by (rewrite (Nat.mul_comm (length nodes)); apply Nat.mul_le_mono_l; exact Lm). lia. }
    rewrite Nat.mod_mul by lia. rewrite Nat.eqb_refl. cbn [negb].
    rewrite Nat.div_mul by lia.
    rewrite <- (map_length cn_extra nodes) at 1.
    rewrite chunk_of_concat by (eapply node_ok_len; eauto).
    assert (E3 : parse_nodes verify g (map cn_extra nodes) [] = Ok nodes) by (apply parse_nodes_spec; auto).
    rewrite E3. simpl. rewrite (sort_of_sorted _ S), bytes_eqb_refl. reflexivity.
Qed.

Lemma parse_update_no_panic g extra : parse_update verify g extra <> Panic.
Proof.
  unfold parse_update. destruct (_ <? _); [discriminate|].
  destruct (negb _); [discriminate|].
  destruct (parse_nodes verify g _ []) eqn:E; simpl; [|discriminate|exfalso; exact (parse_nodes_no_panic _ _ _ E)].
  destruct (bytes_eqb _ _); discriminate.
Qed.

End WithVerify.

(* ---- the previous-state map and the pricing loop ------------------------------------------------------ *)
Lemma akey_dec (m : amap) (k : addr) : In k (map fst m) \/ ~ In k (map fst m).
Proof.
  induction m as [|[k' v'] t IH]; simpl; [tauto|].
  destruct (addr_eqb k k') eqn:E.
  - apply addr_eqb_eq in E. subst. tauto.
  - apply addr_eqb_neq in E. destruct IH as [IH|IH]; [tauto|]. right. intros [H|H]; [congruence|contradiction].
Qed.

Lemma addr_in_dec (k : addr) (l : list addr) : In k l \/ ~ In k l.
Proof.
  induction l as [|h t IH]; simpl; [tauto|].
  destruct (addr_eqb k h) eqn:E.
  - apply addr_eqb_eq in E. subst. tauto.
  - apply addr_eqb_neq in E. destruct IH as [IH|IH]; [tauto|]. right. intros [H|H]; [congruence|contradiction].
Qed.

Lemma aset_in m k v : In k (map fst m) -> length (aset m k v) = length m.
Proof.
  induction m as [|[k' v'] t IH]; simpl; [tauto|].
  destruct (addr_eqb k k') eqn:E; [reflexivity|]. apply addr_eqb_neq in E.
  intros [H|H]; [congruence|]. simpl. rewrite IH; auto.
Qed.

Lemma aset_notin m k v : ~ In k (map fst m) -> aset m k v = m ++ [(k, v)].
Proof.
  induction m as [|[k' v'] t IH]; simpl; [reflexivity|].
  intro H. destruct (addr_eqb k k') eqn:E.
  - apply addr_eqb_eq in E. subst. tauto.
  - rewrite IH; [reflexivity|tauto].
Qed.

Lemma nodup_snoc {A} (l : list A) (k : A) : NoDup l -> ~ In k l -> NoDup (l ++ [k]).
Proof.
  induction l as [|h t IH]; simpl; intros D N; [constructor; [tauto|constructor]|].
  inversion D as [|? ? Nh Dt]; subst. constructor; [|apply IH; tauto].
  intro H. apply in_app_or in H as [H|[H|[]]]; [contradiction|]. subst. tauto.
Qed.

Definition fset (m : amap) (n : addr * addr) : amap := aset m (fst n) (snd n).

Lemma build_len ns m : length (fold_left fset ns m) <= length m + length ns.
Proof.
  revert m; induction ns as [|n t IH]; intro m; simpl; [lia|].
  specialize (IH (fset m n)). unfold fset in *.
  destruct (akey_dec m (fst n)) as [H|H].
  - rewrite (aset_in _ _ (snd n) H) in IH. lia.
  - rewrite (aset_notin _ _ (snd n) H) in *. rewrite app_length in IH. simpl in IH. lia.
Qed.

Lemma build_exact ns m :
  length (fold_left fset ns m) = length m + length ns ->
  fold_left fset ns m = m ++ ns /\ (NoDup (map fst m) -> NoDup (map fst (m ++ ns))).
Proof.
  revert m; induction ns as [|n t IH]; intro m; simpl; intro L.
  - rewrite app_nil_r. auto.
  - pose proof (build_len t (fset m n)) as B. unfold fset in *.
    destruct (akey_dec m (fst n)) as [H|H].
    + rewrite (aset_in _ _ (snd n) H) in B. lia.
    + rewrite (aset_notin _ _ (snd n) H) in *. rewrite app_length in B. simpl in B.
      destruct (IH (m ++ [(fst n, snd n)])) as [E D]; [rewrite app_length; simpl; lia|].
      rewrite <- surjective_pairing in *. rewrite <- app_assoc in E, D. simpl in E, D.
      split; [exact E|]. intro Dm. apply D.
      rewrite map_app. simpl. apply nodup_snoc; assumption.
Qed.

Lemma build_filter_exact ns :
  length (build_filter ns) = length ns -> build_filter ns = ns /\ NoDup (map fst ns).
Proof.
  unfold build_filter. change (fun m n => aset m (fst n) (snd n)) with fset. intro L.
  destruct (build_exact ns []) as [E D]; [simpl; exact L|]. simpl in *. split; [exact E|]. apply D. constructor.
Qed.

Lemma build_filter_nodup ns : NoDup (map fst ns) -> build_filter ns = ns.
Proof.
  unfold build_filter. change (fun m n => aset m (fst n) (snd n)) with fset.
  assert (G : forall l m, NoDup (map fst (m ++ l)) -> fold_left fset l m = m ++ l).
  { induction l as [|n t IH]; intros m Dm; simpl; [rewrite app_nil_r; reflexivity|].
    unfold fset at 2. rewrite aset_notin.
    - rewrite <- surjective_pairing. rewrite IH; rewrite <- app_assoc; [reflexivity|exact Dm].
    - rewrite map_app in Dm. simpl in Dm. apply NoDup_remove_2 in Dm. intro X. apply Dm. apply in_or_app. auto. }
  intro D. apply (G ns []). exact D.
Qed.

Lemma aget_adel_other m k k' : k' <> k -> aget (adel m k) k' = aget m k'.
Proof.
  intro Hn. induction m as [|[k0 v0] t IH]; simpl; [reflexivity|].
  destruct (addr_eqb k k0) eqn:E1.
  - apply addr_eqb_eq in E1. subst k0. rewrite IH.
    destruct (addr_eqb k' k) eqn:E2; [apply addr_eqb_eq in E2; contradiction|reflexivity].
  - simpl. rewrite IH. reflexivity.
Qed.

Lemma adel_in m k q : In q (adel m k) <-> In q m /\ fst q <> k.
Proof.
  induction m as [|[k0 v0] t IH]; simpl; [tauto|].
  destruct (addr_eqb k k0) eqn:E.
  - apply addr_eqb_eq in E. subst k0. rewrite IH. split; [tauto|]. intros [[H|H] N]; [subst q; simpl in N; congruence|tauto].
  - apply addr_eqb_neq in E. simpl. rewrite IH. split.
    + intros [H|H]; [subst q; simpl; split; [auto|congruence]|tauto].
    + tauto.
Qed.

Definition del_all (f : amap) (nodes : list cnode) : amap :=
  fold_left (fun f n => adel f (cn_cust n)) nodes f.

Lemma del_all_in nodes f q : In q (del_all f nodes) <-> In q f /\ ~ In (fst q) (map cn_cust nodes).
Proof.
  unfold del_all. revert f; induction nodes as [|n t IH]; intro f; simpl; [tauto|].
  rewrite IH, adel_in. split; [intros [[A B] C]; split; [exact A|intros [H|H]; [congruence|contradiction]] | intuition congruence].
Qed.

(* price of one entry against the previous state: 100 for a custodian address
   that was not there, 1 for one whose payee address differs, else nothing *)
Definition node_price (prev : amap) (n : cnode) : Z :=
  match aget prev (cn_cust n) with
  | None => new_price
  | Some old => if addr_eqb old (cn_payee n) then 0%Z else update_price
  end.

Definition price (prev : amap) (nodes : list cnode) : Z :=
  fold_right (fun n acc => (node_price prev n + acc)%Z) 0%Z nodes.

Lemma node_price_nonneg prev n : (0 <= node_price prev n)%Z.
Proof.
  unfold node_price. pose proof new_price_pos. pose proof update_price_pos.
  destruct (aget prev _); [destruct (addr_eqb _ _)|]; lia.
Qed.

Lemma price_adel f k nodes : ~ In k (map cn_cust nodes) -> price (adel f k) nodes = price f nodes.
Proof.
  induction nodes as [|n t IH]; simpl; intro H; [reflexivity|].
  rewrite IH by tauto. f_equal. unfold node_price. rewrite aget_adel_other; [reflexivity|]. intro E. apply H. auto.
Qed.

Lemma price_loop_spec nodes : forall f total,
  (0 <= total)%Z -> NoDup (map cn_cust nodes) ->
  price_loop f nodes total = Ok (del_all f nodes, (total + price f nodes)%Z).
Proof.
  induction nodes as [|n t IH]; intros f total Ht D; simpl.
  - unfold del_all. simpl. rewrite Z.add_0_r. reflexivity.
  - inversion D as [|? ? Nin Dt]; subst.
    assert (E : match aget f (cn_cust n) with
                | None => i_add total new_price
                | Some old => if addr_eqb old (cn_payee n) then Ok total else i_add total update_price
                end = Ok (total + node_price f n)%Z).
    { unfold node_price. pose proof new_price_pos. pose proof update_price_pos.
      destruct (aget f (cn_cust n)) as [old|].
      - destruct (addr_eqb old (cn_payee n)); [rewrite Z.add_0_r; reflexivity|].
        rewrite i_add_spec. destruct (total <? 0)%Z eqn:A; [lia|]. destruct (update_price <=? 0)%Z eqn:B; [lia|]. reflexivity.
      - rewrite i_add_spec. destruct (total <? 0)%Z eqn:A; [lia|]. destruct (new_price <=? 0)%Z eqn:B; [lia|]. reflexivity. }
    rewrite E. simpl. pose proof (node_price_nonneg f n).
    rewrite IH; [|lia|exact Dt]. rewrite price_adel by exact Nin.
    unfold del_all. simpl. f_equal. f_equal. lia.
Qed.

(* the same price, said without a lookup: count the new and the changed entries *)
Definition is_new (prev : amap) (n : cnode) : bool :=
  negb (existsb (fun q => addr_eqb (cn_cust n) (fst q)) prev).
Definition is_changed (prev : amap) (n : cnode) : bool :=
  existsb (fun q => addr_eqb (cn_cust n) (fst q) && negb (addr_eqb (snd q) (cn_payee n))) prev.

Lemma node_price_decl prev n : NoDup (map fst prev) ->
  node_price prev n = if is_new prev n then new_price else if is_changed prev n then update_price else 0%Z.
Proof.
  unfold node_price, is_new, is_changed. induction prev as [|[k v] t IH]; simpl; intro D; [reflexivity|].
  inversion D as [|? ? Nin Dt]; subst.
  destruct (addr_eqb (cn_cust n) k) eqn:E; simpl.
  - apply addr_eqb_eq in E. subst k.
    assert (X : existsb (fun q => addr_eqb (cn_cust n) (fst q) && negb (addr_eqb (snd q) (cn_payee n))) t = false).
    { apply not_true_is_false. intro X. apply existsb_exists in X as [q [Hq Hb]].
      apply andb_true_iff in Hb as [Hb _]. apply addr_eqb_eq in Hb. apply Nin. rewrite Hb. apply in_map. exact Hq. }
    rewrite X, orb_false_r. destruct (addr_eqb v (cn_payee n)); reflexivity.
  - apply IH. exact Dt.
Qed.

Lemma price_decl prev nodes : NoDup (map fst prev) ->
  price prev nodes =
  (new_price * Z.of_nat (length (filter (is_new prev) nodes))
   + update_price * Z.of_nat (length (filter (fun n => negb (is_new prev n) && is_changed prev n) nodes)))%Z.
Proof.
  intro D. induction nodes as [|n t IH]; [cbn [filter length price fold_right Z.of_nat]; ring|].
  cbn [price fold_right filter]. fold (price prev t). rewrite IH, (node_price_decl _ _ D).
  destruct (is_new prev n); cbn [negb andb length].
  - rewrite Nat2Z.inj_succ. ring.
  - destruct (is_changed prev n); cbn [length]; [rewrite Nat2Z.inj_succ|]; ring.
Qed.

Lemma cust_nodup nodes : NoDup (map cn_cust_spend nodes) -> NoDup (map cn_cust nodes).
Proof.
  intro D. apply (NoDup_map_inv fst). rewrite map_map. exact D.
Qed.

Lemma encode_without_sig u :
  length (u_sig u) = 64 ->
  firstn (length (encode_update u) - 64) (encode_update u) =
  fst (u_cust u) ++ snd (u_cust u) ++ concat (map cn_extra (u_nodes u)).
Proof.
  intro L. unfold encode_update. rewrite !app_assoc. apply firstn_app_exact. rewrite !app_length. lia.
Qed.

Section Validate.
Variable verify : bytes -> bytes -> bytes -> bool.

(* everything an accepted custodian update satisfies *)
Definition accepted (tx : txshape) (extra : bytes) (store : store_res) : Prop :=
  exists out u prev,
    (Consts.CusTxVersionHashSignature <= t_version tx)%Z /\ t_asset tx = Consts.CusXINAssetId /\
    t_outputs tx = [out] /\ o_type out = Consts.CusOutputTypeCustodianUpdateNodes /\
    o_nkeys out = 1 /\ o_script out = storage_script /\
    store = StoreSome prev /\
    extra = encode_update u /\ update_wf verify false u /\
    verify (fst (p_cust prev))
           (fst (u_cust u) ++ snd (u_cust u) ++ concat (map cn_extra (u_nodes u))) (u_sig u) = true /\
    NoDup (map fst (p_nodes prev)) /\
    (price (p_nodes prev) (u_nodes u) <= o_amount out)%Z /\
    (u_cust u = p_cust prev ->
       length (p_nodes prev) = length (u_nodes u) /\
       incl (map fst (p_nodes prev)) (map cn_cust (u_nodes u))).

Theorem validate_update_accept tx extra store :
  validate_update verify tx extra store = Ok tt <-> accepted tx extra store.
Proof.
  unfold validate_update, accepted. split.
  - destruct (t_version tx <? _)%Z eqn:E1; [discriminate|]. apply Z.ltb_ge in E1.
    destruct (t_asset tx =? _)%N eqn:E2; simpl; [|discriminate]. apply N.eqb_eq in E2.
    destruct (t_outputs tx) as [|out [|o2 os]] eqn:EO; try discriminate.
    destruct (o_type out =? _)%Z eqn:E3; simpl; [|discriminate]. apply Z.eqb_eq in E3.
    destruct (o_nkeys out =? 1) eqn:E4; simpl; [|discriminate]. apply Nat.eqb_eq in E4.
    destruct (bytes_eqb (o_script out) storage_script) eqn:E5; simpl; [|discriminate]. apply bytes_eqb_eq in E5.
    destruct (parse_update verify false extra) as [u| |] eqn:EP; simpl; try discriminate.
    apply parse_update_spec in EP as [Ee W].
    destruct (length (u_nodes u) <? min_count) eqn:E6; [discriminate|].
    destruct store as [| |prev]; try discriminate.
    destruct (verify (fst (p_cust prev)) _ (u_sig u)) eqn:E7; simpl; [|discriminate].
    destruct (length (build_filter (p_nodes prev)) =? length (p_nodes prev)) eqn:E8; simpl; [|discriminate].
    apply Nat.eqb_eq in E8. apply build_filter_exact in E8 as [EB DB]. rewrite EB.
    pose proof W as (La & Lb & Ls & Lm & F & Fr & S).
    rewrite price_loop_spec; [|lia|apply cust_nodup; eapply (fresh_cust_nodup verify); exact Fr]. simpl.
    destruct (i_cmp (o_amount out) _ <? 0)%Z eqn:E9; [discriminate|].
    assert (P : (price (p_nodes prev) (u_nodes u) <= o_amount out)%Z).
    { apply Z.ltb_ge in E9.
      match type of E9 with (0 <= i_cmp ?a ?b)%Z =>
        destruct (i_cmp_spec a b) as (C1 & _ & _);
        destruct (Z_lt_le_dec a b) as [L|L]; [rewrite (C1 L) in E9; lia|lia] end. }
    intros H. exists out, u, prev.
    rewrite Ee in E7. rewrite (encode_without_sig u Ls) in E7.
    repeat (split; [solve [auto]|]).
    intro Ec. apply addr_eqb_eq in Ec. rewrite Ec in H. simpl in H.
    destruct (length (del_all (p_nodes prev) (u_nodes u)) =? 0) eqn:E10; simpl in H; [|discriminate].
    destruct (length (p_nodes prev) =? length (u_nodes u)) eqn:E11; simpl in H; [|discriminate].
    apply Nat.eqb_eq in E10, E11. split; [exact E11|].
    intros k Hk. apply in_map_iff in Hk as [q [Eq Hq]]. subst k.
    destruct (addr_in_dec (fst q) (map cn_cust (u_nodes u))) as [I|I]; [exact I|].
    exfalso. assert (Hin : In q (del_all (p_nodes prev) (u_nodes u))) by (apply del_all_in; auto).
    destruct (del_all (p_nodes prev) (u_nodes u)); [contradiction|discriminate].
  - intros (out & u & prev & V1 & V2 & V3 & V4 & V5 & V6 & -> & -> & W & A & D & P & R).
    pose proof W as (La & Lb & Ls & Lm & F & Fr & S).
    apply Z.ltb_ge in V1. rewrite V1, V2, N.eqb_refl, V3, V4, Z.eqb_refl, V5, V6, bytes_eqb_refl. simpl.
    rewrite (proj2 (parse_update_spec verify false _ u) (conj eq_refl W)). simpl.
    apply Nat.ltb_ge in Lm. rewrite Lm.
    rewrite (encode_without_sig u Ls), A. simpl.
    rewrite (build_filter_nodup _ D), Nat.eqb_refl. simpl.
    rewrite price_loop_spec; [|lia|apply cust_nodup; eapply (fresh_cust_nodup verify); exact Fr]. simpl.
    assert (C : (i_cmp (o_amount out) (price (p_nodes prev) (u_nodes u)) <? 0)%Z = false).
    { apply Z.ltb_ge. destruct (i_cmp_spec (o_amount out) (price (p_nodes prev) (u_nodes u))) as (_ & C2 & C3).
      destruct (Z.eq_dec (o_amount out) (price (p_nodes prev) (u_nodes u))) as [Q|Q]; [rewrite (C2 Q); lia|].
      rewrite C3; lia. }
    rewrite C.
    destruct (addr_eqb (u_cust u) (p_cust prev)) eqn:EA; simpl; [|reflexivity].
    apply addr_eqb_eq in EA. destruct (R EA) as [R1 R2].
    rewrite R1, Nat.eqb_refl.
    assert (Z0 : del_all (p_nodes prev) (u_nodes u) = []).
    { destruct (del_all (p_nodes prev) (u_nodes u)) as [|q l] eqn:EQ; [reflexivity|]. exfalso.
      assert (Hq : In q (del_all (p_nodes prev) (u_nodes u))) by (rewrite EQ; left; reflexivity).
      apply del_all_in in Hq as [H1 H2]. apply H2. apply R2. apply in_map. exact H1. }
    rewrite Z0. reflexivity.
Qed.

End Validate.

(* ---- the encoding is injective on shaped updates; rejection of unsorted / duplicate entries ------------ *)
Definition update_shaped (u : update) : Prop :=
  length (fst (u_cust u)) = 32 /\ length (snd (u_cust u)) = 32 /\ length (u_sig u) = 64 /\
  Forall node_shape (u_nodes u).

Lemma shape_len l : Forall node_shape l -> Forall (fun c => length c = node_size) (map cn_extra l).
Proof. induction 1 as [|n t Hn _ IH]; simpl; constructor; [apply Hn|exact IH]. Qed.

Lemma encode_update_inj u u' :
  update_shaped u -> update_shaped u' -> encode_update u = encode_update u' -> u = u'.
Proof.
  intros (A1 & A2 & A3 & A4) (B1 & B2 & B3 & B4) E. unfold encode_update in E.
  destruct u as [[a b] ns s], u' as [[a' b'] ns' s']; cbn [fst snd u_cust u_nodes u_sig] in *.
  apply app_inj_len in E as [-> E]; [|congruence].
  apply app_inj_len in E as [-> E]; [|congruence].
  assert (L : length (concat (map cn_extra ns)) = length (concat (map cn_extra ns'))).
  { apply (f_equal (@length N)) in E. rewrite !app_length in E. lia. }
  apply app_inj_len in E as [E ->]; [|exact L].
  rewrite !(concat_length_fixed node_size), !map_length in L by (apply shape_len; assumption).
  pose proof node_size_pos. apply Nat.mul_cancel_r in L; [|lia].
  assert (ns = ns'); [|subst; reflexivity].
  apply node_shape_list_inj; try assumption.
  apply (concat_inj_len node_size); try (apply shape_len; assumption); [rewrite !map_length; exact L|exact E].
Qed.

Lemma wf_shaped verify g u : update_wf verify g u -> update_shaped u.
Proof.
  intros (A & B & C & _ & F & _). repeat split; auto. eapply node_ok_shape. exact F.
Qed.

Lemma parse_rejects_unsorted verify g u :
  update_shaped u -> ~ StronglySorted nlt (u_nodes u) ->
  parse_update verify g (encode_update u) = Err.
Proof.
  intros Sh NS. destruct (parse_update verify g (encode_update u)) as [u'| |] eqn:E; [|reflexivity|].
  - exfalso. apply parse_update_spec in E as [Ee W].
    assert (u = u') by (apply encode_update_inj; [exact Sh|eapply wf_shaped; exact W|exact Ee]). subst u'.
    apply NS. apply W.
  - exfalso. exact (parse_update_no_panic _ _ _ E).
Qed.

Lemma unsorted_of_duplicate l :
  ~ NoDup (map cn_cust_spend l) -> ~ StronglySorted nlt l.
Proof. intros H S. apply H. apply sorted_strict_nodup. exact S. Qed.

(* what acceptance means, in the words of the property *)
Lemma accepted_facts verify tx extra store :
  accepted verify tx extra store ->
  exists out u prev,
    t_outputs tx = [out] /\ store = StoreSome prev /\ extra = encode_update u /\
    min_count <= length (u_nodes u) /\
    StronglySorted nlt (u_nodes u) /\
    NoDup (spend_keys (u_nodes u)) /\
    Forall (fun n => node_shape n /\ node_signed verify n) (u_nodes u) /\
    verify (fst (p_cust prev))
           (fst (u_cust u) ++ snd (u_cust u) ++ concat (map cn_extra (u_nodes u))) (u_sig u) = true /\
    (new_price * Z.of_nat (length (filter (is_new (p_nodes prev)) (u_nodes u)))
     + update_price * Z.of_nat (length (filter (fun n => negb (is_new (p_nodes prev) n) && is_changed (p_nodes prev) n)
                                                (u_nodes u)))
     <= o_amount out)%Z.
Proof.
  intros (out & u & prev & _ & _ & V3 & _ & _ & _ & V7 & V8 & W & A & D & P & _).
  pose proof W as (_ & _ & _ & Lm & F & Fr & S).
  assert (F2 : Forall (fun n => node_shape n /\ node_signed verify n) (u_nodes u)).
  { eapply Forall_impl; [|exact F]. intros n [Sh Sg]. split; [exact Sh|apply Sg; reflexivity]. }
  exists out, u, prev. repeat (split; [solve [auto]|]). split.
  - apply (fresh_spend_keys_nodup verify [] _ Fr). eapply Forall_impl; [|exact F2]. intros n [_ [Hn _]]. exact Hn.
  - split; [exact F2|]. split; [exact A|]. rewrite <- (price_decl _ _ D). exact P.
Qed.

(* ---- EncodeCustodianNode's layout parses back ------------------------------------------------------------ *)
Definition fields_wf (f : node_fields) : Prop :=
  length (fst (f_cust f)) = 32 /\ length (snd (f_cust f)) = 32 /\
  length (fst (f_payee f)) = 32 /\ length (snd (f_payee f)) = 32 /\
  length (f_node_id f) = 32 /\ length (f_signer_sig f) = 64 /\
  length (f_payee_sig f) = 64 /\ length (f_cust_sig f) = 64.

(* the 161 bytes EncodeCustodianNode hashes and signs *)
Definition signed_part (f : node_fields) : bytes :=
  [action_update] ++ fst (f_cust f) ++ snd (f_cust f) ++ fst (f_payee f) ++ snd (f_payee f) ++ f_node_id f.

Lemma slice_at (pre x post : bytes) lo hi :
  length pre = lo -> length x = hi - lo -> slice lo hi (pre ++ x ++ post) = x.
Proof.
  intros L1 L2. unfold slice. rewrite (skipn_app_exact _ _ _ L1). apply firstn_app_exact. exact L2.
Qed.

Lemma encode_node_parses verify f :
  fields_wf f ->
  fst (f_payee f) <> fst (f_cust f) ->
  verify (fst (f_payee f)) (signed_part f) (f_payee_sig f) = true ->
  verify (fst (f_cust f)) (signed_part f) (f_cust_sig f) = true ->
  parse_node verify false (encode_node f) = Ok (cnode_of_fields f).
Proof.
  intros (L1 & L2 & L3 & L4 & L5 & L6 & L7 & L8) Hne Vp Vc.
  destruct f as [[cs cv] [ps pv] id s1 s2 s3]; cbn [fst snd f_cust f_payee f_node_id f_signer_sig f_payee_sig f_cust_sig] in *.
  set (a := [action_update]).
  assert (E : encode_node {| f_cust := (cs, cv); f_payee := (ps, pv); f_node_id := id;
                             f_signer_sig := s1; f_payee_sig := s2; f_cust_sig := s3 |}
              = a ++ cs ++ cv ++ ps ++ pv ++ id ++ s1 ++ s2 ++ s3) by reflexivity.
  assert (La : length a = 1) by reflexivity.
  assert (S1 : slice 1 33 (a ++ cs ++ cv ++ ps ++ pv ++ id ++ s1 ++ s2 ++ s3) = cs)
    by (apply slice_at; lia).
  assert (S2 : slice 33 65 (a ++ cs ++ cv ++ ps ++ pv ++ id ++ s1 ++ s2 ++ s3) = cv).
  { replace (a ++ cs ++ cv ++ ps ++ pv ++ id ++ s1 ++ s2 ++ s3)
      with ((a ++ cs) ++ cv ++ (ps ++ pv ++ id ++ s1 ++ s2 ++ s3)) by (rewrite <- !app_assoc; reflexivity).
    apply slice_at; rewrite ?app_length; lia. }
  assert (S3 : slice 65 97 (a ++ cs ++ cv ++ ps ++ pv ++ id ++ s1 ++ s2 ++ s3) = ps).
  { replace (a ++ cs ++ cv ++ ps ++ pv ++ id ++ s1 ++ s2 ++ s3)
      with ((a ++ cs ++ cv) ++ ps ++ (pv ++ id ++ s1 ++ s2 ++ s3)) by (rewrite <- !app_assoc; reflexivity).
    apply slice_at; rewrite ?app_length; lia. }
  assert (S4 : slice 97 129 (a ++ cs ++ cv ++ ps ++ pv ++ id ++ s1 ++ s2 ++ s3) = pv).
  { replace (a ++ cs ++ cv ++ ps ++ pv ++ id ++ s1 ++ s2 ++ s3)
      with ((a ++ cs ++ cv ++ ps) ++ pv ++ (id ++ s1 ++ s2 ++ s3)) by (rewrite <- !app_assoc; reflexivity).
    apply slice_at; rewrite ?app_length; lia. }
  assert (S5 : slice 0 161 (a ++ cs ++ cv ++ ps ++ pv ++ id ++ s1 ++ s2 ++ s3) = a ++ cs ++ cv ++ ps ++ pv ++ id).
  { replace (a ++ cs ++ cv ++ ps ++ pv ++ id ++ s1 ++ s2 ++ s3)
      with ([] ++ (a ++ cs ++ cv ++ ps ++ pv ++ id) ++ (s1 ++ s2 ++ s3)) by (rewrite <- !app_assoc; reflexivity).
    apply slice_at; rewrite ?app_length; simpl; lia. }
  assert (S6 : slice 225 289 (a ++ cs ++ cv ++ ps ++ pv ++ id ++ s1 ++ s2 ++ s3) = s2).
  { replace (a ++ cs ++ cv ++ ps ++ pv ++ id ++ s1 ++ s2 ++ s3)
      with ((a ++ cs ++ cv ++ ps ++ pv ++ id ++ s1) ++ s2 ++ s3) by (rewrite <- !app_assoc; reflexivity).
    apply slice_at; rewrite ?app_length; lia. }
  assert (S7 : slice 289 node_size (a ++ cs ++ cv ++ ps ++ pv ++ id ++ s1 ++ s2 ++ s3) = s3).
  { replace (a ++ cs ++ cv ++ ps ++ pv ++ id ++ s1 ++ s2 ++ s3)
      with ((a ++ cs ++ cv ++ ps ++ pv ++ id ++ s1 ++ s2) ++ s3 ++ []) by (rewrite <- !app_assoc, app_nil_r; reflexivity).
    rewrite node_size_val. apply slice_at; rewrite ?app_length; lia. }
  apply parse_node_spec. split; [reflexivity|]. unfold node_ok, node_shape, node_signed, cnode_of_fields.
  cbn [cn_extra cn_cust_spend cn_cust_view cn_payee_spend cn_payee_view fst snd f_cust f_payee].
  rewrite E, S1, S2, S3, S4, S5, S6, S7.
  split.
  - repeat split; auto. rewrite !app_length, node_size_val. lia.
  - intros _. repeat split; assumption.
Qed.
