(* Lemmas about Model/Validate.v (C01 conservation, C05 panic-freedom). *)
From Coq Require Import List ZArith NArith Bool Lia ZifyN ZifyNat ZifyBool.
Require Import Mixin.Base.Res Mixin.Gen.Consts Mixin.Model.Fixed Mixin.Proofs.Fixed Mixin.Model.Validate.
Import ListNotations.
Open Scope Z_scope.

(* ---- generic stepping through [if] / [match] / [bind] chains ------------------ *)

Ltac step H :=
  match type of H with
  | (if ?c then _ else _) = _ => let E := fresh "E" in destruct c eqn:E; try discriminate H
  | bind ?r _ = _ => let E := fresh "E" in destruct r eqn:E; cbn [bind] in H; try discriminate H
  | (let '(_, _) := ?p in _) = _ => let E := fresh "E" in destruct p eqn:E
  | match ?x with _ => _ end = _ => let E := fresh "E" in destruct x eqn:E; try discriminate H
  end.

Lemma i_add_ok x y z : i_add x y = Ok z -> z = x + y /\ 0 <= x /\ 0 < y.
Proof.
  rewrite i_add_spec. destruct (x <? 0) eqn:Ex; cbn [orb]; [discriminate|].
  destruct (y <=? 0) eqn:Ey; [discriminate|]. intros H. inversion H. lia.
Qed.

Lemma i_cmp_zero x y : (i_cmp x y =? 0) = true -> x = y.
Proof.
  unfold i_cmp. destruct (Z.compare_spec x y) as [Hc|Hc|Hc]; intros Hz; try discriminate Hz. exact Hc.
Qed.

(* ---- specification vocabulary (C01) ------------------------------------------------ *)

Definition special (i : input) : bool :=
  match i_mint i, i_deposit i with None, None => false | _, _ => true end.

Definition special_amount (i : input) : Z :=
  match i_mint i with
  | Some m => m_amount m
  | None => match i_deposit i with Some d => d_amount d | None => 0 end
  end.

Definition in_slot (i : input) : slot := (i_hash i, i_index i).

Fixpoint sum_utxos (v : view) (ins : list input) : option Z :=
  match ins with
  | [] => Some 0
  | i :: r => match v_utxo v (i_hash i) (i_index i), sum_utxos v r with
              | Some u, Some s => Some (u_amount u + s)
              | _, _ => None
              end
  end.

Definition sum_outputs (t : tx) : Z := sum_map o_amount (t_outputs t).

(* total of the inputs: the special input's amount when it stands alone (undefined
   when a special input is mixed with others), the spent outputs' amounts otherwise *)
Definition sum_inputs (v : view) (t : tx) : option Z :=
  if existsb special (t_inputs t)
  then match t_inputs t with [i] => Some (special_amount i) | _ => None end
  else sum_utxos v (t_inputs t).

Definition input_backed (v : view) (t : tx) (i : input) : Prop :=
  exists u, v_utxo v (i_hash i) (i_index i) = Some u /\ u_asset u = t_asset t.

(* ---- validateInputs --------------------------------------------------------------- *)

Lemma NoDup_snoc {A} (l : list A) x : NoDup l -> ~ In x l -> NoDup (l ++ [x]).
Proof.
  induction l as [|a l IH]; cbn [app]; intros ND Hx.
  - constructor; [intros []|constructor].
  - inversion ND as [|? ? Ha ND']; subst. constructor.
    + rewrite in_app_iff. intros [H|[H|[]]]; [exact (Ha H)|]. subst. apply Hx. left. reflexivity.
    + apply IH; [exact ND'|]. intros H. apply Hx. right. exact H.
Qed.

Lemma slot_eqb_eq a b : slot_eqb a b = true <-> a = b.
Proof.
  destruct a as [h i], b as [h' i']. unfold slot_eqb. cbn [fst snd].
  rewrite andb_true_iff, N.eqb_eq, Z.eqb_eq. split; [intros [-> ->]; reflexivity|intros E; inversion E; auto].
Qed.

Lemma flt_find_none f k : flt_find f k = None -> ~ In k (map fst f).
Proof.
  induction f as [|[k' u] f IH]; cbn [flt_find map fst]; [intros _ []|].
  destruct (slot_eqb k k') eqn:E; [discriminate|]. intros H [->|Hin].
  - assert (slot_eqb k k = true) by (apply slot_eqb_eq; reflexivity). congruence.
  - exact (IH H Hin).
Qed.

Lemma vin_loop_done v h t ty fork : forall ins idx flt amt nkeys ks flt' amt' ks',
  vin_loop v h t ty fork ins idx flt amt nkeys ks = Ok (VDone flt' amt' ks') ->
  existsb special ins = false /\
  (exists s, sum_utxos v ins = Some s /\ amt' = amt + s) /\
  Forall (input_backed v t) ins /\
  map fst flt' = map fst flt ++ map in_slot ins /\
  (NoDup (map fst flt) -> NoDup (map fst flt')).
Proof.
  induction ins as [|i r IH]; intros idx flt amt nkeys ks flt' amt' ks' H; cbn [vin_loop] in H.
  - inversion H; subst. repeat split; auto.
    + exists 0. split; [reflexivity|lia].
    + cbn [map]. rewrite app_nil_r. reflexivity.
  - destruct (match i_genesis i with Some n => 0 <? n | None => false end) eqn:Eg; [discriminate H|].
    destruct (i_mint i) eqn:Em; [discriminate H|].
    destruct (i_deposit i) eqn:Ed; [discriminate H|].
    destruct (flt_find flt (i_hash i, i_index i)) eqn:Ef; [discriminate H|].
    destruct (v_utxo v (i_hash i) (i_index i)) as [u|] eqn:Eu; [|discriminate H].
    destruct (negb (u_asset u =? t_asset t)%N) eqn:Ea; [discriminate H|].
    destruct (negb (u_lock u =? 0)%N && negb (u_lock u =? h)%N && negb fork) eqn:El; [discriminate H|].
    destruct (validate_utxo idx u (t_sigs t) (t_agg t) ty nkeys) eqn:Ev; cbn [bind] in H; try discriminate H.
    destruct (i_add amt (u_amount u)) as [amt1| |] eqn:Eadd; cbn [bind] in H; try discriminate H.
    destruct (IH _ _ _ _ _ _ _ _ H) as (A & (s & Hs & Ha) & B & C & D).
    apply i_add_ok in Eadd. destruct Eadd as (-> & _ & _).
    cbn [existsb]. unfold special at 1. rewrite Em, Ed. cbn [orb]. repeat split.
    + exact A.
    + exists (u_amount u + s). cbn [sum_utxos]. rewrite Eu, Hs. split; [reflexivity|lia].
    + constructor; [|exact B]. exists u. split; [exact Eu|].
      apply negb_false_iff, N.eqb_eq in Ea. exact Ea.
    + rewrite C, map_app. cbn [map fst]. rewrite <- app_assoc. reflexivity.
    + intros ND. apply D. rewrite map_app. cbn [map fst].
      apply NoDup_snoc; [exact ND|]. apply flt_find_none. exact Ef.
Qed.

Lemma vin_loop_special v h t ty fork : forall ins idx flt amt nkeys ks flt' a,
  vin_loop v h t ty fork ins idx flt amt nkeys ks = Ok (VSpecial flt' a) ->
  existsb special ins = true /\ (forall i, ins = [i] -> a = special_amount i).
Proof.
  induction ins as [|i r IH]; intros idx flt amt nkeys ks flt' a H; cbn [vin_loop] in H; [discriminate H|].
  destruct (match i_genesis i with Some n => 0 <? n | None => false end) eqn:Eg; [discriminate H|].
  cbn [existsb]. unfold special at 1, special_amount.
  destruct (i_mint i) eqn:Em.
  { inversion H; subst. split; [reflexivity|]. intros i0 E. inversion E; subst. rewrite Em. reflexivity. }
  destruct (i_deposit i) eqn:Ed.
  { inversion H; subst. split; [reflexivity|]. intros i0 E. inversion E; subst. rewrite Em, Ed. reflexivity. }
  destruct (flt_find flt (i_hash i, i_index i)) eqn:Ef; [discriminate H|].
  destruct (v_utxo v (i_hash i) (i_index i)) as [u|] eqn:Eu; [|discriminate H].
  destruct (negb (u_asset u =? t_asset t)%N) eqn:Ea; [discriminate H|].
  destruct (negb (u_lock u =? 0)%N && negb (u_lock u =? h)%N && negb fork) eqn:El; [discriminate H|].
  destruct (validate_utxo idx u (t_sigs t) (t_agg t) ty nkeys) eqn:Ev; cbn [bind] in H; try discriminate H.
  destruct (i_add amt (u_amount u)) as [amt1| |] eqn:Eadd; cbn [bind] in H; try discriminate H.
  destruct (IH _ _ _ _ _ _ _ H) as (A & B). cbn [orb]. split; [exact A|].
  intros i0 E. inversion E; subst. cbn [existsb] in A. discriminate A.
Qed.

Lemma input_type_special ins : existsb special ins = true ->
  input_type ins = Some ty_mint \/ input_type ins = Some ty_deposit \/ input_type ins = Some ty_unknown.
Proof.
  induction ins as [|i r IH]; cbn [existsb input_type]; [discriminate|].
  unfold special at 1. destruct (i_mint i); [auto|]. destruct (i_deposit i); [auto|].
  destruct (i_genesis i); [auto|]. cbn [orb]. exact IH.
Qed.

(* what validateInputs guarantees *)
Lemma validate_inputs_spec v f h t ty fork flt a :
  validate_inputs v f h t ty fork = Ok (flt, a) ->
  (existsb special (t_inputs t) = true /\ (forall i, t_inputs t = [i] -> a = special_amount i)) \/
  (existsb special (t_inputs t) = false /\ sum_utxos v (t_inputs t) = Some a /\
   Forall (input_backed v t) (t_inputs t) /\ NoDup (map in_slot (t_inputs t)) /\
   map fst flt = map in_slot (t_inputs t)).
Proof.
  unfold validate_inputs. intros H.
  destruct (vin_loop v h t ty fork (t_inputs t) 0 [] 0 0 []) as [r| |] eqn:E; cbn [bind] in H; try discriminate H.
  destruct r as [flt0 a0|flt0 a0 ks].
  - inversion H; subst. left. eapply vin_loop_special. exact E.
  - right. destruct (vin_loop_done _ _ _ _ _ _ _ _ _ _ _ _ _ _ E) as (A & (s & Hs & Ha) & B & C & D).
    cbn [map app] in C, D.
    assert (flt = flt0 /\ a = a0) as [-> ->].
    { repeat step H; inversion H; auto. }
    repeat split; auto.
    + rewrite Hs. f_equal. lia.
    + rewrite <- C. apply D. constructor.
Qed.

(* ---- validateOutputs -------------------------------------------------------------- *)

Lemma vout_loop_spec f : forall outs seen amt seen' amt',
  vout_loop f outs seen amt = Ok (seen', amt') ->
  amt' = amt + sum_map o_amount outs /\ Forall (fun o => 0 < o_amount o) outs.
Proof.
  induction outs as [|o r IH]; intros seen amt seen' amt' H; cbn [vout_loop] in H.
  - inversion H; subst. unfold sum_map. cbn [fold_right]. split; [lia|constructor].
  - destruct (len (o_keys o) >? slice_limit) eqn:E1; [discriminate H|].
    destruct (o_amount o <=? 0) eqn:E2; [discriminate H|].
    destruct (keys_loop f (o_keys o) seen) as [seen1|] eqn:E3; [|discriminate H].
    match type of H with (if ?c then _ else _) = _ => destruct c eqn:E4; [|discriminate H] end.
    destruct (i_add amt (o_amount o)) as [a1| |] eqn:E5; cbn [bind] in H; try discriminate H.
    apply i_add_ok in E5. destruct E5 as (-> & _ & _).
    destruct (IH _ _ _ _ H) as [-> F]. unfold sum_map. cbn [fold_right]. fold (sum_map o_amount r).
    split; [lia|]. constructor; [lia|exact F].
Qed.

Lemma validate_outputs_spec v f h t a fork :
  validate_outputs v f h t a fork = Ok tt ->
  a = sum_outputs t /\ Forall (fun o => 0 < o_amount o) (t_outputs t).
Proof.
  unfold validate_outputs. intros H.
  destruct (vout_loop f (t_outputs t) [] 0) as [[g oa]| |] eqn:E; cbn [bind] in H; try discriminate H.
  destruct (negb (i_cmp a oa =? 0)) eqn:Ec; [discriminate H|].
  apply negb_false_iff, i_cmp_zero in Ec. destruct (vout_loop_spec _ _ _ _ _ _ E) as [-> F].
  split; [|exact F]. unfold sum_outputs. lia.
Qed.

(* ---- Validate: the shape of an accepting run ------------------------------------------- *)

Lemma validate_ok_inv v f h ts fork t :
  validate v f h ts fork t = Ok tt ->
  exists flt a,
    precheck t (tx_type t) = Ok tt /\
    validate_references v t = Ok tt /\
    validate_inputs v f h t (tx_type t) fork = Ok (flt, a) /\ 0 < a /\
    validate_outputs v f h t a fork = Ok tt /\
    dispatch v f h ts t (tx_type t) flt = Ok tt.
Proof.
  unfold validate. intros H.
  destruct (precheck t (tx_type t)) as [[]| |] eqn:E1; cbn [bind] in H; try discriminate H.
  destruct (validate_references v t) as [[]| |] eqn:E2; cbn [bind] in H; try discriminate H.
  destruct (validate_inputs v f h t (tx_type t) fork) as [[flt a]| |] eqn:E3; cbn [bind] in H; try discriminate H.
  cbn [fst snd] in H. destruct (a <=? 0) eqn:E4; [discriminate H|].
  destruct (validate_outputs v f h t a fork) as [[]| |] eqn:E5; cbn [bind] in H; try discriminate H.
  exists flt, a. repeat split; auto. lia.
Qed.

Lemma precheck_not_unknown t ty : precheck t ty = Ok tt -> (ty =? ty_unknown) = false.
Proof.
  unfold precheck. intros H. step H. destruct (ty =? ty_unknown); [discriminate H|reflexivity].
Qed.

(* a transaction with a mint or deposit input is mint- or deposit-typed, and those validators insist on one input *)
Lemma special_dispatch_single v f h ts t flt :
  existsb special (t_inputs t) = true ->
  (tx_type t =? ty_unknown) = false ->
  dispatch v f h ts t (tx_type t) flt = Ok tt ->
  len (t_inputs t) = 1.
Proof.
  intros Hs Hu Hd. unfold tx_type in *.
  destruct (input_type_special _ Hs) as [E|[E|E]]; rewrite E in *.
  - unfold dispatch in Hd. change (ty_mint =? ty_script) with false in Hd.
    change (ty_mint =? ty_mint) with true in Hd. cbv iota in Hd.
    unfold validate_mint in Hd. destruct (len (t_inputs t) =? 1) eqn:E1; [lia|discriminate Hd].
  - unfold dispatch in Hd. change (ty_deposit =? ty_script) with false in Hd.
    change (ty_deposit =? ty_mint) with false in Hd. change (ty_deposit =? ty_deposit) with true in Hd.
    cbv iota in Hd. unfold validate_deposit in Hd.
    destruct (len (t_inputs t) =? 1) eqn:E1; [lia|discriminate Hd].
  - change (ty_unknown =? ty_unknown) with true in Hu. discriminate Hu.
Qed.

Lemma len_one {A} (l : list A) : len l = 1 -> exists x, l = [x].
Proof.
  unfold len. destruct l as [|x [|y l]]; cbn [length]; intros H; try lia. exists x. reflexivity.
Qed.

Theorem conservation v f h ts fork t :
  validate v f h ts fork t = Ok tt ->
  sum_inputs v t = Some (sum_outputs t) /\
  0 < sum_outputs t /\
  Forall (fun o => 0 < o_amount o) (t_outputs t) /\
  Forall (fun i => special i = false -> input_backed v t i) (t_inputs t) /\
  (existsb special (t_inputs t) = false -> NoDup (map in_slot (t_inputs t))).
Proof.
  intros H. destruct (validate_ok_inv _ _ _ _ _ _ H) as (flt & a & Hp & Hr & Hi & Ha & Ho & Hd).
  destruct (validate_outputs_spec _ _ _ _ _ _ Ho) as [-> Hpos].
  pose proof (precheck_not_unknown _ _ Hp) as Hu.
  destruct (validate_inputs_spec _ _ _ _ _ _ _ _ Hi) as [[Hs Hone]|(Hs & Hsum & Hb & Hnd & _)].
  - pose proof (special_dispatch_single _ _ _ _ _ _ Hs Hu Hd) as Hl.
    destruct (len_one _ Hl) as [i Ei]. unfold sum_inputs. rewrite Hs, Ei.
    split; [|split; [|split; [|split]]].
    + f_equal. symmetry. apply Hone. exact Ei.
    + exact Ha.
    + exact Hpos.
    + constructor; [|constructor]. rewrite Ei in Hs. cbn [existsb] in Hs. rewrite orb_false_r in Hs.
      intros C. congruence.
    + intros C. congruence.
  - unfold sum_inputs. rewrite Hs.
    split; [|split; [|split; [|split]]].
    + exact Hsum.
    + exact Ha.
    + exact Hpos.
    + eapply Forall_impl; [|exact Hb]. auto.
    + intros _. exact Hnd.
Qed.

Theorem special_single v f h ts fork t :
  validate v f h ts fork t = Ok tt ->
  existsb special (t_inputs t) = true -> length (t_inputs t) = 1%nat.
Proof.
  intros H Hs. destruct (validate_ok_inv _ _ _ _ _ _ H) as (flt & a & Hp & Hr & Hi & Ha & Ho & Hd).
  pose proof (special_dispatch_single _ _ _ _ _ _ Hs (precheck_not_unknown _ _ Hp) Hd) as Hl.
  unfold len in Hl. lia.
Qed.

(* ======================================================================================
   C05: panic-freedom
   ====================================================================================== *)

(* ---- what the decoder guarantees about a transaction it returns ------------------------ *)

Definition amount_ok (a : Z) : bool := (0 <=? a) && le_int (int_bytes a).

Definition dec_input_ok (i : input) : bool :=
  (0 <=? i_index i) && (i_index i <=? Consts.ValInputIndexLimit)
  && match i_genesis i with None => true | Some n => (0 <? n) && le_int n end
  && match i_deposit i with
     | None => true
     | Some d => le_int (len (d_key d)) && (0 <=? d_txlen d) && le_int (d_txlen d)
                 && amount_ok (d_amount d) && (0 <=? d_index d)
     end
  && match i_mint i with
     | None => true
     | Some m => le_int (len (m_group m)) && amount_ok (m_amount m) && (0 <=? m_batch m)
     end.

Definition dec_output_ok (o : output) : bool :=
  amount_ok (o_amount o) && (len (o_keys o) <=? slice_limit) && le_int (len (o_script o))
  && match o_withdrawal o with
     | None => true
     | Some (a, g) => (0 <=? a) && le_int a && (0 <=? g) && le_int g
     end.

Definition dec_sigs_ok (t : tx) : bool :=
  match t_agg t, t_sigs t with
  | Some s, None => agg_signers_ok s
  | None, Some l => negb (len l =? 0) && (len l <=? slice_limit)
  | None, None => true
  | Some _, Some _ => false
  end.

(* DecodeTransaction + the canonical re-encoding test of unmarshalVersionedTransaction:
   version 5; at most 256 inputs / outputs / references / keys per output; index <= 1024;
   every length field fits 16 bits; amounts are non-negative big-endian integers of at
   most 65535 bytes; extra <= 4 MiB; the whole encoding (hence the payload) <= 4 MiB;
   a nil Genesis is never an empty non-nil slice; signatures either maps or aggregated. *)
Definition decodable (t : tx) : bool :=
  (t_version t =? Consts.ValTxVersionHashSignature)
  && (len (t_inputs t) <=? slice_limit) && forallb dec_input_ok (t_inputs t)
  && (len (t_outputs t) <=? slice_limit) && forallb dec_output_ok (t_outputs t)
  && (len (t_refs t) <=? slice_limit) && (len (t_extra t) <=? extra_capacity)
  && (payload_size t <=? Consts.ValTransactionMaximumSize)
  && dec_sigs_ok t.

(* ---- the ledger invariants of a reachable store, as seen through its reads ----------------- *)

Definition known_state (s : Z) : Prop :=
  s = st_pledging \/ s = st_accepted \/ s = st_removed \/ s = st_cancelled.

Record ledger_inv (v : view) (ts : Z) : Prop := {
  (* an output record belongs to a stored transaction that has that output, of that type *)
  inv_utxo_tx : forall h i u, v_utxo v h i = Some u ->
      exists s o, v_tx v h = Some s /\ nth_z (t_outputs (s_tx s)) i = Some o /\ o_type o = u_type u;
  (* output records carry positive amounts *)
  inv_utxo_pos : forall h i u, v_utxo v h i = Some u -> 0 < u_amount u;
  (* stored transactions came out of the decoder and have at least one output *)
  inv_stored : forall h s, v_tx v h = Some s -> decodable (s_tx s) = true /\ t_outputs (s_tx s) <> [];
  (* node entries are in one of the four states; a pledging entry names a stored pledge transaction *)
  inv_node_state : forall n, In n (v_nodes v ts) -> known_state (n_state n);
  inv_node_pledge : forall n, In n (v_nodes v ts) -> n_state n = st_pledging ->
      exists s, v_tx v (n_tx n) = Some s /\ tx_type (s_tx s) = ty_pledge;
  (* a custodian record exists at ts, with pairwise distinct custodian addresses *)
  inv_custodian : exists c, v_custodian v ts = Some c /\ NoDup (map fst (c_nodes c));
  (* recorded asset balances are not negative *)
  inv_balance : forall a chain key bal, v_asset v a = Some (chain, key, bal) -> 0 <= bal }.

(* ---- helpers ------------------------------------------------------------------------------------ *)

Lemma forallb_impl {A} (p q : A -> bool) l :
  (forall x, p x = true -> q x = true) -> forallb p l = true -> forallb q l = true.
Proof.
  intros I. induction l as [|x l IH]; cbn [forallb]; [auto|].
  rewrite !andb_true_iff. intros [H1 H2]. split; auto.
Qed.

Lemma len_nonneg {A} (l : list A) : 0 <= len l.
Proof. unfold len. lia. Qed.

Lemma nth_z_some {A} (l : list A) : forall i, 0 <= i < len l -> nth_z l i <> None.
Proof.
  induction l as [|x l IH]; intros i Hi; unfold len in Hi; cbn [length] in Hi; [lia|].
  cbn [nth_z]. destruct (i =? 0) eqn:E0; [discriminate|]. destruct (i <? 0) eqn:E1; [lia|].
  apply IH. unfold len. lia.
Qed.

Lemma nth_z_single {A} (x y : A) i : nth_z [x] i = Some y -> y = x.
Proof.
  cbn [nth_z]. destruct (i =? 0); [intros H; inversion H; reflexivity|].
  destruct (i <? 0); discriminate.
Qed.

Lemma parse_price_step : parse Consts.ValExtraStoragePriceStep = Ok 10000.
Proof. vm_compute. reflexivity. Qed.
Lemma parse_claim_fee : parse Consts.ValWithdrawalClaimFee = Ok 10000.
Proof. vm_compute. reflexivity. Qed.
Lemma storage_cap_mul : i_mul 10000 (extra_capacity / extra_step) = Ok 40960000.
Proof. vm_compute. reflexivity. Qed.

(* ---- precheck ------------------------------------------------------------------------------------ *)

Lemma get_extra_limit_no_panic t :
  t_version t = Consts.ValTxVersionHashSignature -> get_extra_limit t <> Panic.
Proof.
  intros Hv. unfold get_extra_limit. rewrite Hv, Z.ltb_irrefl.
  destruct (negb (t_asset t =? xin)%N); [discriminate|].
  destruct (find_storage (t_outputs t) None) as [out|]; [|discriminate].
  destruct (o_type out =? ot_script).
  - rewrite parse_price_step. cbn [bind].
    destruct (o_amount out <? 10000) eqn:E1; [discriminate|].
    rewrite storage_cap_mul. cbn [bind].
    destruct (o_amount out >=? 40960000) eqn:E2; [discriminate|].
    destruct (i_count_spec (o_amount out) 10000) as [_ Hc].
    destruct (Hc ltac:(lia) ltac:(lia)) as [Hok _].
    assert (Hq : o_amount out / 10000 < 2 ^ 64).
    { assert (o_amount out / 10000 < 4096) by (apply Z.div_lt_upper_bound; lia). lia. }
    destruct (Hok Hq) as [-> _]. cbn [bind].
    destruct (_ >? extra_capacity); discriminate.
  - destruct (o_type out =? ot_cupdate); discriminate.
Qed.

Lemma dec_input_enc i : dec_input_ok i = true -> enc_input_ok i = true.
Proof.
  unfold dec_input_ok, enc_input_ok, amount_ok, le_int, opt_len, enc_int_max, Consts.ValMaximumEncodingInt.
  rewrite !andb_true_iff. intros ((((H0 & H1) & H2) & H3) & H4).
  repeat split.
  - exact H1.
  - destruct (i_genesis i); [|reflexivity]. rewrite andb_true_iff in H2. tauto.
  - destruct (i_deposit i); [|reflexivity]. rewrite !andb_true_iff in *. tauto.
  - destruct (i_mint i); [|reflexivity]. rewrite !andb_true_iff in *. tauto.
Qed.

Lemma dec_output_enc o : dec_output_ok o = true -> enc_output_ok o = true.
Proof.
  unfold dec_output_ok, enc_output_ok, amount_ok, le_int, slice_limit, enc_int_max,
    Consts.ValMaximumEncodingInt, Consts.ValSliceCountLimit.
  rewrite !andb_true_iff. intros (((H0 & H1) & H2) & H3). repeat split.
  - tauto.
  - lia.
  - exact H2.
  - destruct (o_withdrawal o) as [[a g]|]; [|reflexivity]. rewrite !andb_true_iff in *. tauto.
Qed.

Lemma decodable_marshal t : decodable t = true -> payload_marshal t = Ok (payload_size t).
Proof.
  unfold decodable. rewrite !andb_true_iff.
  intros ((((((((Hv & Hi) & Hif) & Ho) & Hof) & Hr) & He) & Hs) & _).
  unfold payload_marshal.
  assert (E1 : enc_ok t = true).
  { unfold enc_ok. rewrite !andb_true_iff. repeat split; auto.
    - lia.
    - eapply forallb_impl; [exact dec_input_enc|exact Hif].
    - eapply forallb_impl; [exact dec_output_enc|exact Hof].
    - unfold le_int, enc_int_max, slice_limit, Consts.ValMaximumEncodingInt, Consts.ValSliceCountLimit in *. lia. }
  assert (E2 : redecode_ok t = true).
  { unfold redecode_ok. rewrite !andb_true_iff. repeat split; auto.
    eapply forallb_impl; [|exact Hof]. intros o. unfold dec_output_ok. rewrite !andb_true_iff. tauto. }
  rewrite E1, E2. cbn [negb]. rewrite andb_false_r. reflexivity.
Qed.

Lemma precheck_no_panic t ty : decodable t = true -> precheck t ty <> Panic.
Proof.
  intros Hd. unfold precheck.
  assert (Hv : t_version t = Consts.ValTxVersionHashSignature).
  { unfold decodable in Hd. rewrite !andb_true_iff in Hd. lia. }
  repeat match goal with
  | |- (if ?c then _ else _) <> Panic => destruct c
  | |- Err <> Panic => discriminate
  end.
  destruct (get_extra_limit t) eqn:El; cbn [bind]; [|discriminate|exfalso; exact (get_extra_limit_no_panic t Hv El)].
  destruct (_ >? _); [discriminate|]. rewrite (decodable_marshal t Hd). cbn [bind].
  repeat match goal with
  | |- (if ?c then _ else _) <> Panic => destruct c
  | |- Err <> Panic => discriminate
  | |- Ok _ <> Panic => discriminate
  end.
Qed.

Lemma precheck_ok_counts t ty : precheck t ty = Ok tt -> 1 <= len (t_inputs t) /\ 1 <= len (t_outputs t).
Proof.
  unfold precheck. intros H. step H. step H. step H. rewrite orb_false_iff in E1. lia.
Qed.

Lemma validate_references_no_panic v t : validate_references v t <> Panic.
Proof. unfold validate_references. destruct (_ >? _); [discriminate|]. destruct (refs_ok v (t_refs t)); discriminate. Qed.

(* ---- validateInputs / validateOutputs ------------------------------------------------------------ *)

Lemma validate_utxo_no_panic index u sigs agg ty offset :
  0 <= index -> validate_utxo index u sigs agg ty offset <> Panic.
Proof.
  intros Hi. unfold validate_utxo.
  destruct ((u_type u =? ot_script) || (u_type u =? ot_remove)).
  - destruct agg as [signers|].
    + destruct (negb (agg_signers_ok signers)); [discriminate|]. destruct (script_validate _ _); discriminate.
    + set (ss := match sigs with Some l => l | None => [] end).
      destruct (index >=? len ss) eqn:E; [discriminate|].
      destruct (nth_z ss index) eqn:En.
      * destruct (negb _); [discriminate|]. destruct (script_validate _ _); discriminate.
      * exfalso. apply (nth_z_some ss index); [lia|exact En].
  - destruct (u_type u =? ot_pledge).
    + destruct ((ty =? ty_accept) || (ty =? ty_cancel)); discriminate.
    + destruct (u_type u =? ot_accept); [|discriminate]. destruct (ty =? ty_remove); discriminate.
Qed.

Lemma vin_loop_no_panic v h t ty fork :
  (forall hh i u, v_utxo v hh i = Some u -> 0 < u_amount u) ->
  forall ins idx flt amt nkeys ks, 0 <= idx -> 0 <= amt ->
  vin_loop v h t ty fork ins idx flt amt nkeys ks <> Panic.
Proof.
  intros Hpos. induction ins as [|i r IH]; intros idx flt amt nkeys ks Hidx Hamt; cbn [vin_loop]; [discriminate|].
  destruct (match i_genesis i with Some n => 0 <? n | None => false end); [discriminate|].
  destruct (i_mint i); [discriminate|]. destruct (i_deposit i); [discriminate|].
  destruct (flt_find flt (i_hash i, i_index i)); [discriminate|].
  destruct (v_utxo v (i_hash i) (i_index i)) as [u|] eqn:Eu; [|discriminate].
  destruct (negb (u_asset u =? t_asset t)%N); [discriminate|].
  destruct (negb (u_lock u =? 0)%N && negb (u_lock u =? h)%N && negb fork); [discriminate|].
  destruct (validate_utxo idx u (t_sigs t) (t_agg t) ty nkeys) eqn:Ev; cbn [bind];
    [|discriminate|exfalso; exact (validate_utxo_no_panic _ _ _ _ _ _ Hidx Ev)].
  pose proof (Hpos _ _ _ Eu) as Hu.
  rewrite i_add_spec. destruct (amt <? 0) eqn:E1; [lia|]. destruct (u_amount u <=? 0) eqn:E2; [lia|].
  cbn [orb bind]. apply IH; lia.
Qed.

Lemma validate_inputs_no_panic v f h t ty fork :
  (forall hh i u, v_utxo v hh i = Some u -> 0 < u_amount u) ->
  validate_inputs v f h t ty fork <> Panic.
Proof.
  intros Hpos. unfold validate_inputs.
  destruct (vin_loop v h t ty fork (t_inputs t) 0 [] 0 0 []) as [r| |] eqn:E; cbn [bind];
    [|discriminate|exfalso; exact (vin_loop_no_panic v h t ty fork Hpos (t_inputs t) 0 [] 0 0 [] ltac:(lia) ltac:(lia) E)].
  destruct r; [discriminate|].
  repeat match goal with
  | |- (if ?c then _ else _) <> Panic => destruct c
  | |- match ?x with _ => _ end <> Panic => destruct x
  | |- Err <> Panic => discriminate
  | |- Ok _ <> Panic => discriminate
  end.
Qed.

Lemma vout_loop_no_panic f : forall outs seen amt, 0 <= amt -> vout_loop f outs seen amt <> Panic.
Proof.
  induction outs as [|o r IH]; intros seen amt Ha; cbn [vout_loop]; [discriminate|].
  destruct (len (o_keys o) >? slice_limit); [discriminate|].
  destruct (o_amount o <=? 0) eqn:E2; [discriminate|].
  destruct (keys_loop f (o_keys o) seen); [|discriminate].
  match goal with |- (if ?c then _ else _) <> Panic => destruct c; [|discriminate] end.
  rewrite i_add_spec. destruct (amt <? 0) eqn:E1; [lia|]. rewrite E2. cbn [orb bind]. apply IH. lia.
Qed.

Lemma validate_outputs_no_panic v f h t a fork : validate_outputs v f h t a fork <> Panic.
Proof.
  unfold validate_outputs.
  destruct (vout_loop f (t_outputs t) [] 0) as [[g oa]| |] eqn:E; cbn [bind];
    [|discriminate|exfalso; exact (vout_loop_no_panic f (t_outputs t) [] 0 ltac:(lia) E)].
  destruct (negb _); [discriminate|]. destruct (v_ghost_ok v g h fork); discriminate.
Qed.

(* ---- the type of a transaction and its inputs ------------------------------------------------------------ *)

Lemma kernel_output_type_range x ty : kernel_output_type x = Some ty ->
  In ty [ty_wsubmit; ty_wclaim; ty_pledge; ty_cancel; ty_accept; ty_remove; ty_cupdate; ty_cslash].
Proof.
  unfold kernel_output_type.
  repeat match goal with |- (if ?c then _ else _) = _ -> _ => destruct c end;
    intros H; inversion H; subst; cbn [In]; tauto.
Qed.

Lemma output_type_range outs : forall b,
  In (output_type outs b)
     [ty_script; ty_unknown; ty_wsubmit; ty_wclaim; ty_pledge; ty_cancel; ty_accept; ty_remove; ty_cupdate; ty_cslash].
Proof.
  induction outs as [|o r IH]; intros b; cbn [output_type].
  - destruct b; cbn [In]; tauto.
  - destruct (kernel_output_type (o_type o)) eqn:E; [|apply IH].
    apply kernel_output_type_range in E. cbn [In] in *. tauto.
Qed.

Lemma output_type_not_special outs b : output_type outs b <> ty_mint /\ output_type outs b <> ty_deposit.
Proof.
  pose proof (output_type_range outs b) as H. cbn [In] in H.
  split; intros E; rewrite E in H;
    repeat (destruct H as [H|H]; [vm_compute in H; discriminate H|]); exact H.
Qed.

Lemma no_special_of_type t :
  tx_type t <> ty_mint -> tx_type t <> ty_deposit -> tx_type t <> ty_unknown ->
  existsb special (t_inputs t) = false.
Proof.
  intros H1 H2 H3. destruct (existsb special (t_inputs t)) eqn:E; [|reflexivity].
  unfold tx_type in *. destruct (input_type_special _ E) as [X|[X|X]]; rewrite X in *; congruence.
Qed.

Lemma mint_single_input t i : tx_type t = ty_mint -> t_inputs t = [i] -> i_mint i <> None.
Proof.
  unfold tx_type. intros H E. rewrite E in H. cbn [input_type] in H. intros Hm. rewrite Hm in H.
  destruct (i_deposit i); [vm_compute in H; discriminate H|].
  destruct (i_genesis i); [vm_compute in H; discriminate H|].
  exact (proj1 (output_type_not_special _ _) H).
Qed.

Lemma deposit_single_input t i : tx_type t = ty_deposit -> t_inputs t = [i] -> i_deposit i <> None.
Proof.
  unfold tx_type. intros H E. rewrite E in H. cbn [input_type] in H. intros Hd. rewrite Hd in H.
  destruct (i_mint i); [vm_compute in H; discriminate H|].
  destruct (i_genesis i); [vm_compute in H; discriminate H|].
  exact (proj2 (output_type_not_special _ _) H).
Qed.

(* ---- per-type validators ---------------------------------------------------------------------------------- *)

Ltac nph :=
  repeat match goal with
  | H : Err = Panic |- _ => discriminate H
  | H : Ok _ = Panic |- _ => discriminate H
  | H : (if ?c then _ else _) = Panic |- _ => destruct c
  | H : match ?x with _ => _ end = Panic |- _ => destruct x
  end.

Ltac np :=
  repeat match goal with
  | |- Err <> Panic => discriminate
  | |- Ok _ <> Panic => discriminate
  | |- (if ?c then _ else _) <> Panic => let E := fresh "E" in destruct c eqn:E
  | |- bind ?r _ <> Panic =>
      let E := fresh "E" in destruct r eqn:E; cbn [bind]; [ | discriminate | try solve [exfalso; nph] ]
  | |- match ?x with _ => _ end <> Panic => let E := fresh "E" in destruct x eqn:E
  end.

Lemma validate_script_no_panic flt : validate_script flt <> Panic.
Proof. unfold validate_script. np. Qed.

Lemma len_cons_nil {A} (l : list A) : l = [] -> len l = 0.
Proof. intros ->. reflexivity. Qed.

Lemma validate_mint_no_panic v h t : tx_type t = ty_mint -> validate_mint v h t <> Panic.
Proof.
  intros Hty. unfold validate_mint.
  destruct (negb (len (t_inputs t) =? 1)) eqn:E1; [discriminate|].
  apply negb_false_iff, Z.eqb_eq, len_one in E1. destruct E1 as [i Ei]. rewrite Ei.
  pose proof (mint_single_input t i Hty Ei) as Hm.
  np. contradiction.
Qed.

Lemma validate_deposit_no_panic v f h t ts :
  ledger_inv v ts -> tx_type t = ty_deposit -> validate_deposit v f h t ts <> Panic.
Proof.
  intros L Hty. unfold validate_deposit.
  destruct (negb (len (t_inputs t) =? 1)) eqn:E1; [discriminate|].
  apply negb_false_iff, Z.eqb_eq, len_one in E1. destruct E1 as [i Ei].
  destruct (negb (len (t_outputs t) =? 1)) eqn:E2; [discriminate|].
  apply negb_false_iff, Z.eqb_eq, len_one in E2. destruct E2 as [o Eo]. rewrite Eo.
  pose proof (deposit_single_input t i Hty Ei) as Hd.
  destruct (inv_custodian v ts L) as (c & Hc & _).
  unfold verify_deposit_data. rewrite Ei, Hc.
  destruct (i_deposit i) as [d|] eqn:Ed; [|contradiction].
  destruct (negb (o_type o =? ot_script)); [discriminate|].
  destruct (single_sig_index0 (t_sigs t)); [|discriminate].
  destruct (d_chain d =? 0)%N; [cbn [bind]; discriminate|].
  destruct (negb (d_key_trim d) || (len (d_key d) =? 0)); [cbn [bind]; discriminate|].
  destruct (d_amount d <=? 0) eqn:Ea; [cbn [bind]; discriminate|].
  destruct (negb (d_tx_trim d) || (d_txlen d =? 0)); [cbn [bind]; discriminate|].
  destruct (v_asset v (t_asset t)) as [[[chain key] bal]|] eqn:Eas.
  - pose proof (inv_balance v ts L _ _ _ _ Eas) as Hb.
    rewrite i_add_spec. destruct (bal <? 0) eqn:Eb; [lia|]. rewrite Ea. cbn [orb bind]. np.
  - cbn [bind]. np.
Qed.

Lemma tail_all_script_ok outs : outs <> [] -> exists b, tail_all_script outs = Ok b.
Proof. destruct outs; [congruence|]. intros _. eexists. reflexivity. Qed.

Lemma validate_withdrawal_submit_no_panic t flt :
  t_outputs t <> [] -> validate_withdrawal_submit t flt <> Panic.
Proof.
  intros Ho. unfold validate_withdrawal_submit.
  destruct (tail_all_script_ok _ Ho) as [b Hb]. rewrite Hb. cbn [bind].
  destruct (t_outputs t); [congruence|]. np.
Qed.

Lemma validate_withdrawal_claim_no_panic v f t flt ts :
  ledger_inv v ts -> t_outputs t <> [] -> validate_withdrawal_claim v f t flt ts <> Panic.
Proof.
  intros L Ho. unfold validate_withdrawal_claim.
  destruct (tail_all_script_ok _ Ho) as [b Hb]. rewrite Hb, parse_claim_fee. cbn [bind].
  destruct (inv_custodian v ts L) as (c & Hc & _). rewrite Hc.
  destruct (t_outputs t) as [|claim outs]; [congruence|].
  destruct (negb (all_inputs_type flt (fun x => x =? ot_script))); [discriminate|].
  destruct (negb (t_asset t =? xin)%N); [discriminate|].
  destruct (negb b); [discriminate|].
  destruct (negb (len (t_refs t) =? 1)) eqn:E1; [discriminate|].
  apply negb_false_iff, Z.eqb_eq, len_one in E1. destruct E1 as [r Er]. rewrite Er.
  destruct (negb (o_type claim =? ot_wclaim)); [discriminate|].
  destruct (i_cmp (o_amount claim) 10000 <? 0); [discriminate|].
  destruct (v_tx v r) as [submit|] eqn:Es; [|discriminate].
  destruct (inv_stored v ts L _ _ Es) as [_ Hne].
  destruct (t_outputs (s_tx submit)) as [|so ?]; [congruence|]. np.
Qed.

Lemma flt_find_self k u : flt_find [(k, u)] k = Some u.
Proof.
  cbn [flt_find]. assert (slot_eqb k k = true) as -> by (apply slot_eqb_eq; reflexivity). reflexivity.
Qed.

Lemma validate_node_pledge_no_panic v f t flt ts :
  map fst flt = map in_slot (t_inputs t) -> validate_node_pledge v f t flt ts <> Panic.
Proof.
  intros Hf. unfold validate_node_pledge.
  destruct (negb (t_asset t =? xin)%N); [discriminate|].
  destruct (negb (len (t_outputs t) =? 1)); [discriminate|].
  destruct (negb (len (t_inputs t) =? 1) || negb (len flt =? len (t_inputs t))) eqn:E1; [discriminate|].
  apply orb_false_iff in E1. destruct E1 as [E1 _].
  apply negb_false_iff, Z.eqb_eq, len_one in E1. destruct E1 as [i Ei]. rewrite Ei in *.
  cbn [map] in Hf. destruct flt as [|[k u] [|? ?]]; cbn [map fst] in Hf; try discriminate Hf.
  inversion Hf; subst. unfold in_slot. rewrite flt_find_self. np.
Qed.

Lemma find_pledging_spec ns : forall p,
  (forall n, In n ns -> known_state (n_state n)) ->
  find_pledging ns p <> Panic /\
  (forall pl, find_pledging ns p = Ok (Some pl) -> p = Some pl \/ (In pl ns /\ n_state pl = st_pledging)).
Proof.
  induction ns as [|n r IH]; intros p Hk; cbn [find_pledging].
  - split; [discriminate|]. intros pl H. inversion H. auto.
  - assert (Hr : forall n0, In n0 r -> known_state (n_state n0)) by (intros; apply Hk; right; assumption).
    destruct (final_state (n_state n)) eqn:Ef.
    + destruct (IH p Hr) as [A B]. split; [exact A|]. intros pl H. destruct (B pl H) as [X|[X Y]]; [auto|].
      right. split; [right; exact X|exact Y].
    + destruct p as [q|].
      * split; [discriminate|]. intros pl H. discriminate H.
      * destruct (n_state n =? st_pledging) eqn:Ep.
        -- destruct (IH (Some n) Hr) as [A B]. split; [exact A|]. intros pl H.
           destruct (B pl H) as [X|[X Y]].
           ++ inversion X; subst. right. split; [left; reflexivity|]. apply Z.eqb_eq. exact Ep.
           ++ right. split; [right; exact X|exact Y].
        -- exfalso. destruct (Hk n (or_introl eq_refl)) as [K|[K|[K|K]]]; unfold final_state in Ef;
             rewrite K in *; vm_compute in Ef, Ep; congruence.
Qed.

Lemma decodable_version s : decodable s = true -> t_version s = Consts.ValTxVersionHashSignature.
Proof. unfold decodable. rewrite !andb_true_iff. lia. Qed.

Lemma extra_as_signer_pledge s :
  decodable s = true -> tx_type s = ty_pledge -> extra_as_signer s = Ok (key_of (t_extra s)).
Proof.
  intros Hd Hty. unfold extra_as_signer. rewrite (decodable_version s Hd), Z.ltb_irrefl, Hty.
  reflexivity.
Qed.

Lemma validate_node_accept_no_panic v f t ts :
  ledger_inv v ts -> validate_node_accept v f t ts <> Panic.
Proof.
  intros L. unfold validate_node_accept.
  destruct (negb (t_asset t =? xin)%N); [discriminate|].
  destruct (negb (len (t_outputs t) =? 1)); [discriminate|].
  destruct (negb (len (t_inputs t) =? 1)) eqn:E1; [discriminate|].
  apply negb_false_iff, Z.eqb_eq, len_one in E1. destruct E1 as [i Ei]. rewrite Ei.
  destruct (negb (single_sig_present (t_sigs t))); [discriminate|].
  destruct (find_pledging_spec (v_nodes v ts) None (inv_node_state v ts L)) as [A B].
  destruct (find_pledging (v_nodes v ts) None) as [[pl|]| |] eqn:Ep; cbn [bind]; try discriminate; [|congruence].
  destruct (B pl eq_refl) as [X|[Hin Hst]]; [discriminate X|].
  destruct (negb (n_tx pl =? i_hash i)%N) eqn:Eh; [discriminate|].
  apply negb_false_iff, N.eqb_eq in Eh.
  destruct (inv_node_pledge v ts L pl Hin Hst) as (s & Hs & Hty). rewrite Eh in Hs. rewrite Hs.
  destruct (inv_stored v ts L _ _ Hs) as [Hd Hne].
  destruct (negb (len (t_outputs (s_tx s)) =? 1)); [discriminate|].
  destruct (t_outputs (s_tx s)) as [|po ?]; [congruence|].
  destruct (negb (o_type po =? ot_pledge)); [discriminate|].
  rewrite (extra_as_signer_pledge _ Hd Hty). cbn [bind]. np.
Qed.

Lemma validate_node_remove_no_panic v t ts :
  ledger_inv v ts -> Forall (input_backed v t) (t_inputs t) -> validate_node_remove v t <> Panic.
Proof.
  intros L Hb. unfold validate_node_remove.
  destruct (negb (t_asset t =? xin)%N); [discriminate|].
  destruct (negb (len (t_outputs t) =? 1)); [discriminate|].
  destruct (negb (len (t_inputs t) =? 1)) eqn:E1; [discriminate|].
  apply negb_false_iff, Z.eqb_eq, len_one in E1. destruct E1 as [i Ei]. rewrite Ei in *.
  inversion Hb as [|? ? [u [Hu _]] _]; subst.
  destruct (inv_utxo_tx v ts L _ _ _ Hu) as (s & o & Hs & _ & _). rewrite Hs.
  destruct (inv_stored v ts L _ _ Hs) as [_ Hne].
  destruct (negb (s_hash s =? i_hash i)%N); [discriminate|].
  destruct (negb (len (t_outputs (s_tx s)) =? 1)); [discriminate|].
  destruct (t_outputs (s_tx s)); [congruence|]. np.
Qed.

(* a node-cancel typed transaction whose single ordinary input passed validateInputs spends a
   script (or node-remove) typed output record: a pledge record adds no key/signature pair and
   the cancel type is not exempted from the "signatures >= inputs" gate *)
Lemma cancel_input_type v f h t fork flt a i :
  t_inputs t = [i] -> special i = false ->
  validate_inputs v f h t ty_cancel fork = Ok (flt, a) ->
  exists u, v_utxo v (i_hash i) (i_index i) = Some u /\
            ((u_type u =? ot_script) || (u_type u =? ot_remove)) = true.
Proof.
  intros Ei Hs H. unfold validate_inputs in H. rewrite Ei in H. cbn [vin_loop] in H.
  unfold special in Hs. destruct (i_mint i); [discriminate Hs|]. destruct (i_deposit i); [discriminate Hs|].
  destruct (match i_genesis i with Some n => 0 <? n | None => false end); [discriminate H|].
  cbn [flt_find] in H.
  destruct (v_utxo v (i_hash i) (i_index i)) as [u|] eqn:Eu; [|discriminate H].
  exists u. split; [reflexivity|].
  destruct (negb (u_asset u =? t_asset t)%N); [cbn [bind] in H; discriminate H|].
  destruct (negb (u_lock u =? 0)%N && negb (u_lock u =? h)%N && negb fork); [cbn [bind] in H; discriminate H|].
  unfold validate_utxo in H.
  destruct ((u_type u =? ot_script) || (u_type u =? ot_remove)); [reflexivity|exfalso].
  destruct (u_type u =? ot_pledge).
  - change ((ty_cancel =? ty_accept) || (ty_cancel =? ty_cancel)) with true in H. cbn [bind] in H.
    destruct (i_add 0 (u_amount u)); cbn [bind] in H; discriminate H.
  - destruct (u_type u =? ot_accept); [|cbn [bind] in H; discriminate H].
    change (ty_cancel =? ty_remove) with false in H. cbn [bind] in H. discriminate H.
Qed.

Lemma validate_node_cancel_no_panic v f t ts h fork flt a :
  ledger_inv v ts -> tx_type t = ty_cancel ->
  validate_inputs v f h t ty_cancel fork = Ok (flt, a) ->
  validate_node_cancel v f t ts <> Panic /\ validate_node_cancel v f t ts <> Ok tt.
Proof.
  intros L Hty Hin. unfold validate_node_cancel.
  assert (Hns : existsb special (t_inputs t) = false).
  { apply no_special_of_type; rewrite Hty; vm_compute; discriminate. }
  destruct (negb (t_asset t =? xin)%N); [split; discriminate|].
  destruct (negb (len (t_outputs t) =? 2)) eqn:E2; [split; discriminate|].
  destruct (negb (len (t_inputs t) =? 1)) eqn:E1; [split; discriminate|].
  apply negb_false_iff, Z.eqb_eq, len_one in E1. destruct E1 as [i Ei].
  rewrite Ei in Hns. cbn [existsb] in Hns. rewrite orb_false_r in Hns.
  destruct (cancel_input_type _ _ _ _ _ _ _ _ Ei Hns Hin) as (u & Hu & Hut).
  destruct (inv_utxo_tx v ts L _ _ _ Hu) as (s & o & Hs & Ho & Hot).
  rewrite Ei.
  destruct (negb (single_sig_present (t_sigs t))); [split; discriminate|].
  destruct (negb (len (t_extra t) =? 96)); [split; discriminate|].
  destruct (t_outputs t) as [|cancel [|script rest]].
  { exfalso. vm_compute in E2. discriminate E2. }
  { exfalso. vm_compute in E2. discriminate E2. }
  destruct (negb (o_type cancel =? ot_cancel) || negb (o_type script =? ot_script)); [split; discriminate|].
  destruct (negb (len (o_keys script) =? 1)); [split; discriminate|].
  destruct (negb (bytes_eqb (o_script script) Consts.ValThresholdScript1)); [split; discriminate|].
  destruct (find_pledging_spec (v_nodes v ts) None (inv_node_state v ts L)) as [A _].
  destruct (find_pledging (v_nodes v ts) None) as [[pl|]| |] eqn:Ep; cbn [bind]; try (split; discriminate); [|congruence].
  destruct (negb (n_tx pl =? i_hash i)%N); [split; discriminate|].
  rewrite Hs.
  destruct (negb (len (t_outputs (s_tx s)) =? 1)) eqn:E3; [split; discriminate|].
  apply negb_false_iff, Z.eqb_eq, len_one in E3. destruct E3 as [po Epo]. rewrite Epo in *.
  apply nth_z_single in Ho. subst o.
  assert (Hp : (o_type po =? ot_pledge) = false).
  { rewrite Hot. apply orb_true_iff in Hut. destruct Hut as [X|X]; apply Z.eqb_eq in X; rewrite X; reflexivity. }
  rewrite Hp. cbn [negb]. split; discriminate.
Qed.

(* ---- custodian update ------------------------------------------------------------------------------------- *)

Lemma addr_eqb_eq a b : addr_eqb a b = true <-> a = b.
Proof.
  destruct a, b. unfold addr_eqb. cbn [fst snd]. rewrite andb_true_iff, !N.eqb_eq.
  split; [intros [-> ->]; reflexivity|intros E; inversion E; auto].
Qed.

Lemma amap_remove_notin m k : ~ In k (map fst m) -> amap_remove m k = m.
Proof.
  induction m as [|[k' p] m IH]; cbn [amap_remove map fst]; [reflexivity|]. intros H.
  destruct (addr_eqb k k') eqn:E.
  - apply addr_eqb_eq in E. subst. exfalso. apply H. left. reflexivity.
  - f_equal. apply IH. intros X. apply H. right. exact X.
Qed.

Lemma amap_build_len l : forall m,
  NoDup (map fst l) -> (forall k, In k (map fst l) -> ~ In k (map fst m)) ->
  len (amap_build l m) = len l + len m.
Proof.
  induction l as [|[k p] l IH]; intros m ND Hd; cbn [amap_build].
  - unfold len. cbn [length]. lia.
  - cbn [map fst] in ND. inversion ND as [|? ? Hk ND']; subst.
    rewrite amap_remove_notin by (apply Hd; left; reflexivity).
    rewrite IH.
    + unfold len. cbn [length]. lia.
    + exact ND'.
    + intros k0 Hin [X|X]; [subst; exact (Hk Hin)|]. exact (Hd k0 (or_intror Hin) X).
Qed.

Lemma price_loop_no_panic : forall nodes flt total, 0 <= total -> price_loop nodes flt total <> Panic.
Proof.
  induction nodes as [|[c p] r IH]; intros flt total Ht; cbn [price_loop]; [discriminate|].
  assert (P1 : 0 < new_integer Consts.ValCustodianNodeNewPrice) by (vm_compute; reflexivity).
  assert (P2 : 0 < new_integer Consts.ValCustodianNodeUpdatePrice) by (vm_compute; reflexivity).
  destruct (amap_find flt c) as [old|].
  - destruct (negb (addr_eqb old p)).
    + rewrite i_add_spec. destruct (total <? 0) eqn:E; [lia|].
      destruct (new_integer Consts.ValCustodianNodeUpdatePrice <=? 0) eqn:E'; [lia|]. cbn [orb bind]. apply IH. lia.
    + cbn [bind]. apply IH. exact Ht.
  - rewrite i_add_spec. destruct (total <? 0) eqn:E; [lia|].
    destruct (new_integer Consts.ValCustodianNodeNewPrice <=? 0) eqn:E'; [lia|]. cbn [orb bind]. apply IH. lia.
Qed.

Lemma validate_custodian_update_no_panic v f t ts :
  ledger_inv v ts -> t_outputs t <> [] -> validate_custodian_update v f t ts <> Panic.
Proof.
  intros L Ho. unfold validate_custodian_update.
  destruct (inv_custodian v ts L) as (c & Hc & Hnd). rewrite Hc.
  destruct (t_outputs t) as [|out outs]; [congruence|].
  destruct (t_version t <? Consts.ValTxVersionHashSignature); [discriminate|].
  destruct (negb (t_asset t =? xin)%N); [discriminate|].
  destruct (negb (len (out :: outs) =? 1)); [discriminate|].
  destruct (negb (o_type out =? ot_cupdate)); [discriminate|].
  destruct (negb (len (o_keys out) =? 1) || negb (bytes_eqb (o_script out) storage_script)); [discriminate|].
  destruct (parse_custodian_extra f (t_extra t)) as [[cust nodes]|]; [|discriminate].
  destruct (len nodes <? cn_min); [discriminate|].
  destruct (negb (f_cust_prev_sig f)); [discriminate|].
  rewrite (amap_build_len (c_nodes c) [] Hnd) by (intros k _ []).
  change (len (@nil (addr * addr))) with 0. rewrite Z.add_0_r, Z.eqb_refl. cbn [negb].
  destruct (price_loop nodes (amap_build (c_nodes c) []) 0) as [[rest total]| |] eqn:Ep; cbn [bind];
    [|discriminate|exfalso; exact (price_loop_no_panic _ _ 0 ltac:(lia) Ep)].
  np.
Qed.

(* ---- Validate ------------------------------------------------------------------------------------------- *)

Theorem no_panic v f h ts fork t :
  decodable t = true -> ledger_inv v ts -> validate v f h ts fork t <> Panic.
Proof.
  intros Hd L. unfold validate.
  destruct (precheck t (tx_type t)) as [[]| |] eqn:Ep; cbn [bind];
    [|discriminate|exfalso; exact (precheck_no_panic _ _ Hd Ep)].
  destruct (validate_references v t) as [[]| |] eqn:Er; cbn [bind];
    [|discriminate|exfalso; exact (validate_references_no_panic _ _ Er)].
  destruct (validate_inputs v f h t (tx_type t) fork) as [[flt a]| |] eqn:Ei; cbn [bind fst snd];
    [|discriminate|exfalso; exact (validate_inputs_no_panic _ _ _ _ _ _ (inv_utxo_pos v ts L) Ei)].
  destruct (a <=? 0); [discriminate|].
  destruct (validate_outputs v f h t a fork) as [[]| |] eqn:Eo; cbn [bind];
    [|discriminate|exfalso; exact (validate_outputs_no_panic _ _ _ _ _ _ Eo)].
  destruct (precheck_ok_counts _ _ Ep) as [Hic Hoc].
  assert (Hone : t_outputs t <> []).
  { intros E. rewrite E in Hoc. vm_compute in Hoc. congruence. }
  pose proof (precheck_not_unknown _ _ Ep) as Hu. apply Z.eqb_neq in Hu.
  unfold dispatch.
  destruct (tx_type t =? ty_script) eqn:T0; [apply validate_script_no_panic|].
  destruct (tx_type t =? ty_mint) eqn:T1; [apply validate_mint_no_panic; apply Z.eqb_eq; exact T1|].
  destruct (tx_type t =? ty_deposit) eqn:T2; [apply validate_deposit_no_panic; [exact L|apply Z.eqb_eq; exact T2]|].
  apply Z.eqb_neq in T1, T2.
  pose proof (no_special_of_type t T1 T2 Hu) as Hns.
  destruct (validate_inputs_spec _ _ _ _ _ _ _ _ Ei) as [[X _]|(_ & _ & Hb & _ & Hf)]; [congruence|].
  destruct (tx_type t =? ty_wsubmit); [apply validate_withdrawal_submit_no_panic; exact Hone|].
  destruct (tx_type t =? ty_wclaim); [apply validate_withdrawal_claim_no_panic; assumption|].
  destruct (tx_type t =? ty_pledge); [apply validate_node_pledge_no_panic; exact Hf|].
  destruct (tx_type t =? ty_cancel) eqn:T6.
  { apply Z.eqb_eq in T6. rewrite T6 in Ei. exact (proj1 (validate_node_cancel_no_panic _ _ _ _ _ _ _ _ L T6 Ei)). }
  destruct (tx_type t =? ty_accept); [apply validate_node_accept_no_panic; exact L|].
  destruct (tx_type t =? ty_remove); [eapply validate_node_remove_no_panic; eassumption|].
  destruct (tx_type t =? ty_cupdate); [apply validate_custodian_update_no_panic; assumption|].
  destruct (tx_type t =? ty_cslash); discriminate.
Qed.

(* over a consistent ledger a node-cancel typed transaction is never accepted, and the part of
   validateNodeCancel that multiplies a curve point by an attacker-chosen scalar is never reached *)
Theorem node_cancel_never_accepted v f h ts fork t :
  ledger_inv v ts -> tx_type t = ty_cancel -> validate v f h ts fork t <> Ok tt.
Proof.
  intros L Hty H. destruct (validate_ok_inv _ _ _ _ _ _ H) as (flt & a & Hp & Hr & Hi & Ha & Ho & Hd).
  rewrite Hty in Hi, Hd. unfold dispatch in Hd.
  change (ty_cancel =? ty_script) with false in Hd. change (ty_cancel =? ty_mint) with false in Hd.
  change (ty_cancel =? ty_deposit) with false in Hd. change (ty_cancel =? ty_wsubmit) with false in Hd.
  change (ty_cancel =? ty_wclaim) with false in Hd. change (ty_cancel =? ty_pledge) with false in Hd.
  change (ty_cancel =? ty_cancel) with true in Hd. cbv iota in Hd.
  exact (proj2 (validate_node_cancel_no_panic _ _ _ _ _ _ _ _ L Hty Hi) Hd).
Qed.

(* but, contrary to a first reading, validateInputs alone does NOT refuse every node-cancel typed
   transaction: one ordinary signed script input passes it *)
Definition cancel_witness_utxo : utxo :=
  {| u_type := ot_script; u_asset := xin; u_amount := 100; u_nkeys := 1; u_script := [255; 254; 1]%N; u_lock := 0%N |}.
Definition cancel_witness_view : view :=
  {| v_utxo := fun h i => if (h =? 1)%N && (i =? 0) then Some cancel_witness_utxo else None;
     v_tx := fun _ => None; v_deposit_lock := fun _ => 0%N; v_last_mint := None;
     v_nodes := fun _ => []; v_custodian := fun _ => None; v_asset := fun _ => None;
     v_ghost_ok := fun _ _ _ => true |}.
Definition cancel_witness_tx : tx :=
  {| t_version := 5; t_asset := xin;
     t_inputs := [{| i_hash := 1%N; i_index := 0; i_genesis := None; i_deposit := None; i_mint := None |}];
     t_outputs := [{| o_type := ot_cancel; o_amount := 1; o_keys := []; o_mask := 0%N; o_script := []; o_withdrawal := None |};
                   {| o_type := ot_script; o_amount := 99; o_keys := [7%N]; o_mask := 9%N; o_script := [255; 254; 1]%N; o_withdrawal := None |}];
     t_refs := []; t_extra := []; t_agg := None; t_sigs := Some [[(0, true)]] |}.

Theorem cancel_inputs_not_refused :
  exists v f h t fork r, tx_type t = ty_cancel /\ validate_inputs v f h t (tx_type t) fork = Ok r.
Proof.
  exists cancel_witness_view,
    {| f_check_key := fun _ => true; f_agg_ok := false; f_deposit_sig := false; f_claim_sig := false;
       f_accept_sig := false; f_cancel_ghost := Panic; f_cancel_sig := false; f_cust_prev_sig := false;
       f_cust_node_sigs := [] |}, 5%N, cancel_witness_tx, false.
  eexists. split; vm_compute; reflexivity.
Qed.
