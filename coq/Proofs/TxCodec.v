(* Lemmas about the transaction codec model (Model/TxCodec.v). *)
From Coq Require Import List ZArith NArith Bool Lia ZifyN ZifyNat ZifyBool.
Require Import Mixin.Base.Res Mixin.Gen.Consts Mixin.Model.TxCodec.
Import ListNotations.
Open Scope N_scope.

(* ---- constants, as numbers ---------------------------------------------------- *)
Lemma max_int_val : max_int = 65535. Proof. reflexivity. Qed.
Lemma slice_limit_val : slice_limit = 256. Proof. reflexivity. Qed.
Lemma index_limit_val : index_limit = 1024. Proof. reflexivity. Qed.
Lemma extra_cap_val : extra_cap = 4194304. Proof. reflexivity. Qed.
Lemma tx_version_val : tx_version = 5. Proof. reflexivity. Qed.
Lemma agg_prefix_val : agg_prefix = 65281. Proof. reflexivity. Qed.
Lemma sparse_mask_val : sparse_mask = 1. Proof. reflexivity. Qed.
Lemma ordinary_mask_val : ordinary_mask = 0. Proof. reflexivity. Qed.
Lemma magic_val : magic = [119; 119]. Proof. reflexivity. Qed.
Lemma null_val : null = [0; 0]. Proof. reflexivity. Qed.

Definition bytes_ok (l : bytes) : Prop := Forall (fun x => x < 256) l.

(* ---- byte lists -------------------------------------------------------------- *)
Lemma bytes_eqb_eq : forall a b, bytes_eqb a b = true <-> a = b.
Proof.
  induction a as [|x a IH]; destruct b as [|y b]; cbn [bytes_eqb]; split; intro H;
    try reflexivity; try discriminate.
  - apply andb_true_iff in H. destruct H as [H1 H2]. apply N.eqb_eq in H1. apply IH in H2. congruence.
  - inversion H; subst. apply andb_true_iff. split; [apply N.eqb_refl | apply IH; reflexivity].
Qed.

Lemma bytes_eqb_refl : forall a, bytes_eqb a a = true.
Proof. intro a. apply bytes_eqb_eq. reflexivity. Qed.

Lemma firstn_len_app : forall (x r : bytes), firstn (length x) (x ++ r) = x.
Proof. induction x as [|a x IH]; intro r; cbn; [reflexivity | rewrite IH; reflexivity]. Qed.
Lemma skipn_len_app : forall (x r : bytes), skipn (length x) (x ++ r) = r.
Proof. induction x as [|a x IH]; intro r; cbn; [reflexivity | apply IH]. Qed.

Lemma blen_app : forall A (x y : list A), blen (x ++ y) = blen x + blen y.
Proof. intros. unfold blen. rewrite app_length. lia. Qed.

(* ---- big-endian numbers ------------------------------------------------------ *)
Lemma le_enc_length : forall n v, length (le_enc n v) = n.
Proof. induction n as [|n IH]; intro v; cbn; [reflexivity | rewrite IH; reflexivity]. Qed.
Lemma be_enc_length : forall n v, length (be_enc n v) = n.
Proof. intros. unfold be_enc. rewrite rev_length. apply le_enc_length. Qed.

Lemma land_255 : forall v, N.land v 255 = v mod 256.
Proof. intro v. change 255 with (N.ones 8). rewrite N.land_ones. reflexivity. Qed.
Lemma shiftr_8 : forall v, N.shiftr v 8 = v / 256.
Proof. intro v. rewrite N.shiftr_div_pow2. reflexivity. Qed.

Lemma pow256_succ : forall n, 256 ^ N.of_nat (S n) = 256 * 256 ^ N.of_nat n.
Proof. intro n. rewrite Nat2N.inj_succ, N.pow_succ_r'. reflexivity. Qed.
Lemma pow256_pos : forall n, 256 ^ n <> 0.
Proof. intro n. apply N.pow_nonzero. discriminate. Qed.

Lemma le_dec_le_enc : forall n v, le_dec (le_enc n v) = v mod 256 ^ N.of_nat n.
Proof.
  induction n as [|n IH]; intro v.
  - cbn. rewrite N.mod_1_r. reflexivity.
  - cbn [le_enc le_dec]. rewrite IH, land_255, shiftr_8, pow256_succ.
    rewrite N.mod_mul_r by (try apply pow256_pos; discriminate). reflexivity.
Qed.

Lemma be_dec_be_enc : forall n v, v < 256 ^ N.of_nat n -> be_dec (be_enc n v) = v.
Proof.
  intros n v H. unfold be_dec, be_enc. rewrite rev_involutive, le_dec_le_enc.
  apply N.mod_small. exact H.
Qed.

Lemma le_enc_bytes : forall n v, bytes_ok (le_enc n v).
Proof.
  induction n as [|n IH]; intro v; cbn [le_enc]; constructor.
  - rewrite land_255. apply N.mod_lt. discriminate.
  - apply IH.
Qed.
Lemma be_enc_bytes : forall n v, bytes_ok (be_enc n v).
Proof. intros. unfold be_enc, bytes_ok. apply Forall_rev. apply le_enc_bytes. Qed.

Lemma le_dec_bound : forall l, bytes_ok l -> le_dec l < 256 ^ N.of_nat (length l).
Proof.
  induction l as [|x l IH]; intro H.
  - cbn. lia.
  - inversion H as [|? ? Hx Hl]; subst. specialize (IH Hl).
    cbn [le_dec length]. rewrite pow256_succ. lia.
Qed.
Lemma be_dec_bound : forall l, bytes_ok l -> be_dec l < 256 ^ N.of_nat (length l).
Proof.
  intros l H. unfold be_dec. rewrite <- (rev_length l). apply le_dec_bound. apply Forall_rev. exact H.
Qed.

(* ---- the reader ------------------------------------------------------------------ *)
Lemma rd_app : forall (x r : bytes), x ++ r <> [] -> rd (blen x) (x ++ r) = Some (x, r).
Proof.
  intros x r H. unfold rd. destruct (x ++ r) as [|a l] eqn:E; [contradiction|]. rewrite <- E.
  assert (Hl : blen (x ++ r) <? blen x = false) by (rewrite blen_app; lia).
  rewrite Hl. unfold blen at 1 2. rewrite Nat2N.id, firstn_len_app, skipn_len_app. reflexivity.
Qed.

Lemma rd_app_n : forall k (x r : bytes), blen x = k -> x ++ r <> [] -> rd k (x ++ r) = Some (x, r).
Proof. intros k x r <- H. apply rd_app. exact H. Qed.

Lemma rd_inv : forall k b x r, rd k b = Some (x, r) -> b = x ++ r /\ blen x = k /\ b <> [].
Proof.
  intros k b x r H. unfold rd in H. destruct b as [|a l] eqn:E; [discriminate|]. rewrite <- E in *.
  destruct (blen b <? k) eqn:L; [discriminate|]. inversion H; subst x r. clear H.
  split; [symmetry; apply firstn_skipn|]. split; [|rewrite E; discriminate].
  unfold blen in *. rewrite firstn_length_le by lia. lia.
Qed.

Lemma bytes_ok_app : forall x y, bytes_ok (x ++ y) <-> bytes_ok x /\ bytes_ok y.
Proof. intros. unfold bytes_ok. apply Forall_app. Qed.

Lemma nonempty_app_l : forall (x r : bytes), x <> [] -> x ++ r <> [].
Proof. intros x r H E. apply app_eq_nil in E. destruct E. contradiction. Qed.
Lemma be_enc_nonempty : forall n v, (0 < n)%nat -> be_enc n v <> [].
Proof.
  intros n v H E. apply (f_equal (@length N)) in E. rewrite be_enc_length in E. cbn in E. lia.
Qed.

(* reading back a fixed-width number *)
Lemma rd_be : forall (k : nat) v r, (0 < k)%nat ->
  rd (N.of_nat k) (be_enc k v ++ r) = Some (be_enc k v, r).
Proof.
  intros k v r Hk. apply rd_app_n.
  - unfold blen. rewrite be_enc_length. reflexivity.
  - apply nonempty_app_l, be_enc_nonempty, Hk.
Qed.

Lemma rd_u16_ser : forall v r, v <= 65535 -> rd_u16 (ser_u16 v ++ r) = Some (v, r).
Proof.
  intros v r H. unfold rd_u16, ser_u16. change 2 with (N.of_nat 2).
  rewrite rd_be by lia. rewrite be_dec_be_enc by (cbn; lia).
  rewrite max_int_val. destruct (65535 <? v) eqn:E; [lia | reflexivity].
Qed.
Lemma rd_u32_ser : forall v r, v < 2 ^ 32 -> rd_u32 (ser_u32 v ++ r) = Some (v, r).
Proof.
  intros v r H. unfold rd_u32, ser_u32. change 4 with (N.of_nat 4).
  rewrite rd_be by lia. rewrite be_dec_be_enc by (cbn; lia). reflexivity.
Qed.
Lemma rd_u64_ser : forall v r, v < 2 ^ 64 -> rd_u64 (ser_u64 v ++ r) = Some (v, r).
Proof.
  intros v r H. unfold rd_u64, ser_u64. change 8 with (N.of_nat 8).
  rewrite rd_be by lia. rewrite be_dec_be_enc by (cbn; lia). reflexivity.
Qed.
Lemma rd_h32_ser : forall v r, v < 2 ^ 256 -> rd_h32 (ser_h32 v ++ r) = Some (v, r).
Proof.
  intros v r H. unfold rd_h32, ser_h32. change 32 with (N.of_nat 32).
  rewrite rd_be by lia. rewrite be_dec_be_enc; [reflexivity|].
  change (256 ^ N.of_nat 32) with (2 ^ 256). exact H.
Qed.
Lemma rd_sig_ser : forall v r, v < 2 ^ 512 -> rd_sig (ser_sig v ++ r) = Some (v, r).
Proof.
  intros v r H. unfold rd_sig, ser_sig. change 64 with (N.of_nat 64).
  rewrite rd_be by lia. rewrite be_dec_be_enc; [reflexivity|].
  change (256 ^ N.of_nat 64) with (2 ^ 512). exact H.
Qed.

(* ---- variable-length fields ---------------------------------------------------- *)
Lemma rd_bytes_ser : forall x r, blen x <= 65535 -> rd_bytes (ser_bytes x ++ r) = Some (x, r).
Proof.
  intros x r H. unfold rd_bytes, ser_bytes. rewrite <- app_assoc, rd_u16_ser by exact H.
  destruct x as [|a x].
  - reflexivity.
  - destruct (blen (a :: x) =? 0) eqn:E; [unfold blen in E; cbn [length] in E; lia|].
    apply rd_app. discriminate.
Qed.

Lemma int_size_bound : forall v, v < 256 ^ int_size v.
Proof.
  intro v. unfold int_size.
  apply N.lt_le_trans with (2 ^ N.size v); [apply N.size_gt|].
  change 256 with (2 ^ 8). rewrite <- N.pow_mul_r.
  apply N.pow_le_mono_r; [discriminate|].
  pose proof (N.div_mod (N.size v + 7) 8 ltac:(discriminate)) as D.
  pose proof (N.mod_lt (N.size v + 7) 8 ltac:(discriminate)). lia.
Qed.

Lemma int_size_0 : forall v, int_size v = 0 -> v = 0.
Proof.
  intros v H. pose proof (int_size_bound v) as B. rewrite H in B. cbn in B. lia.
Qed.

(* ReadInteger reads also for size 0, which fails at the very end of the input *)
Lemma rd_integer_ser : forall v r, int_size v <= 65535 -> (v <> 0 \/ r <> []) ->
  rd_integer (ser_integer v ++ r) = Some (v, r).
Proof.
  intros v r H Hr. unfold rd_integer, ser_integer. rewrite <- app_assoc, rd_u16_ser by exact H.
  rewrite rd_app_n with (x := be_enc (N.to_nat (int_size v)) v).
  - rewrite be_dec_be_enc; [reflexivity|]. rewrite N2Nat.id. apply int_size_bound.
  - unfold blen. rewrite be_enc_length, N2Nat.id. reflexivity.
  - intro E. apply app_eq_nil in E. destruct E as [E1 E2]. destruct Hr as [Hv|Hn]; [|contradiction].
    apply Hv, int_size_0. apply (f_equal (@length N)) in E1. rewrite be_enc_length in E1. cbn in E1. lia.
Qed.

Lemma rd_magic_magic : forall r, rd_magic (magic ++ r) = Some (true, r).
Proof.
  intro r. unfold rd_magic. rewrite rd_app_n with (x := magic); [| reflexivity | rewrite magic_val; discriminate].
  rewrite bytes_eqb_refl. reflexivity.
Qed.
Lemma rd_magic_null : forall r, rd_magic (null ++ r) = Some (false, r).
Proof.
  intro r. unfold rd_magic. rewrite rd_app_n with (x := null); [| reflexivity | rewrite null_val; discriminate].
  reflexivity.
Qed.

(* ---- combinators ------------------------------------------------------------------ *)
Section Combinators.
  Context {A : Type} (p : bytes -> option (A * bytes)) (ser : A -> bytes).
  (* [Q] is what the parser needs of the rest of the input ("not at the end" or nothing) *)
  Variable Q : bytes -> Prop.
  Variable good : A -> Prop.
  Hypothesis p_ser : forall a r, good a -> Q r -> p (ser a ++ r) = Some (a, r).

  Lemma par_opt_ser : forall o r, match o with Some a => good a | None => True end -> Q r ->
    par_opt p (ser_opt ser o ++ r) = Some (o, r).
  Proof.
    intros o r Hg Hq. unfold par_opt, ser_opt. destruct o as [a|].
    - rewrite <- app_assoc, rd_magic_magic, p_ser by assumption. reflexivity.
    - rewrite rd_magic_null. reflexivity.
  Qed.

  Hypothesis Q_ser : forall a r, Q r -> Q (ser a ++ r).

  Lemma par_list_ser : forall xs r, Forall good xs -> Q r ->
    par_list p (length xs) (flat_map ser xs ++ r) = Some (xs, r).
  Proof.
    induction xs as [|x xs IH]; intros r Hg Hq.
    - reflexivity.
    - inversion Hg as [|? ? Hx Hxs]; subst. cbn [length par_list flat_map].
      rewrite <- app_assoc, p_ser; [| exact Hx | ].
      + rewrite IH by assumption. reflexivity.
      + clear IH Hg Hx. induction xs as [|y ys IHy]; [exact Hq|].
        inversion Hxs; subst. cbn [flat_map]. rewrite <- app_assoc. apply Q_ser. apply IHy. assumption.
  Qed.
End Combinators.

Definition nonend (r : bytes) : Prop := r <> [].
Definition anyrest (r : bytes) : Prop := True.

(* ---- well-formed values: Go type ranges + the encoder's guards -------------------- *)
Definition h_ok (v : N) : Prop := v < 2 ^ 256.
Definition sig_ok (v : N) : Prop := v < 2 ^ 512.
Definition u64_ok (v : N) : Prop := v < 2 ^ 64.

Definition wf_deposit (d : deposit) : Prop :=
  h_ok (d_chain d) /\ u64_ok (d_index d) /\ ok_deposit d = true.
Definition wf_mint (m : mint) : Prop := u64_ok (m_batch m) /\ ok_mint m = true.
Definition wf_opt {A} (f : A -> Prop) (o : option A) : Prop :=
  match o with Some a => f a | None => True end.
Definition wf_input (i : input) : Prop :=
  h_ok (i_hash i) /\ wf_opt wf_deposit (i_deposit i) /\ wf_opt wf_mint (i_mint i) /\ ok_input i = true.
Definition wf_withdrawal (w : withdrawal) : Prop := ok_withdrawal w = true.
(* [lim]: the key count the decoder admits (SliceCountLimit) *)
Definition wf_output (lim : N) (o : output) : Prop :=
  o_type o < 256 /\ Forall h_ok (o_keys o) /\ h_ok (o_mask o) /\ blen (o_keys o) <= lim
  /\ ok_output o = true.

Ltac split_ands H :=
  repeat match type of H with
         | _ /\ _ => let H1 := fresh H in destruct H as [H1 H]
         | (_ && _) = true => let H1 := fresh H in apply andb_true_iff in H; destruct H as [H1 H]
         end.

(* ---- deposits, mints, inputs ------------------------------------------------------- *)
Lemma par_deposit_ser : forall d r, wf_deposit d -> nonend r ->
  par_deposit (ser_deposit d ++ r) = Some (d, r).
Proof.
  intros [chain ak th oi amt] r W Hr. unfold wf_deposit, ok_deposit, ok_len, ok_integer in W.
  cbn [d_chain d_asset_key d_tx d_index d_amount] in W. rewrite max_int_val in W.
  destruct W as (Wc & Wi & W). split_ands W.
  unfold par_deposit, ser_deposit. cbn [d_chain d_asset_key d_tx d_index d_amount].
  repeat rewrite <- app_assoc.
  rewrite rd_h32_ser by exact Wc.
  rewrite rd_bytes_ser by lia. rewrite rd_bytes_ser by lia.
  rewrite rd_u64_ser by exact Wi.
  rewrite rd_integer_ser by (first [lia | right; exact Hr]). reflexivity.
Qed.

Lemma par_mint_ser : forall m r, wf_mint m -> nonend r ->
  par_mint (ser_mint m ++ r) = Some (m, r).
Proof.
  intros [g bi amt] r W Hr. unfold wf_mint, ok_mint, ok_len, ok_integer in W.
  cbn [m_group m_batch m_amount] in W. rewrite max_int_val in W.
  destruct W as (Wb & W). split_ands W.
  unfold par_mint, ser_mint. cbn [m_group m_batch m_amount]. repeat rewrite <- app_assoc.
  rewrite rd_bytes_ser by lia. rewrite rd_u64_ser by exact Wb.
  rewrite rd_integer_ser by (first [lia | right; exact Hr]). reflexivity.
Qed.

Lemma ser_opt_nonend : forall A (f : A -> bytes) o r, nonend (ser_opt f o ++ r).
Proof.
  intros A f o r. unfold nonend, ser_opt. destruct o; [rewrite magic_val | rewrite null_val]; discriminate.
Qed.

Lemma par_input_ser : forall i r, wf_input i -> nonend r ->
  par_input (ser_input i ++ r) = Some (i, r).
Proof.
  intros [h ii g d m] r W Hr. unfold wf_input, ok_input, ok_len in W.
  cbn [i_hash i_index i_genesis i_deposit i_mint] in W. rewrite max_int_val, index_limit_val in W.
  destruct W as (Wh & Wd & Wm & W). split_ands W.
  unfold par_input, ser_input. cbn [i_hash i_index i_genesis i_deposit i_mint].
  repeat rewrite <- app_assoc.
  rewrite rd_h32_ser by exact Wh.
  rewrite rd_u16_ser by lia. rewrite index_limit_val.
  destruct (1024 <? ii) eqn:E; [lia|].
  rewrite rd_bytes_ser by lia.
  rewrite (par_opt_ser par_deposit ser_deposit nonend wf_deposit par_deposit_ser) by
    (first [exact Wd | apply ser_opt_nonend]).
  rewrite (par_opt_ser par_mint ser_mint nonend wf_mint par_mint_ser) by
    (first [exact Wm | exact Hr]).
  reflexivity.
Qed.

Lemma ser_input_nonend : forall i r, nonend (ser_input i ++ r).
Proof.
  intros i r E. unfold ser_input in E. apply app_eq_nil in E. destruct E as [E _].
  apply app_eq_nil in E. destruct E as [E _]. revert E. apply be_enc_nonempty. lia.
Qed.

(* ---- outputs ----------------------------------------------------------------------- *)
Lemma par_withdrawal_ser : forall w r, wf_withdrawal w -> anyrest r ->
  par_withdrawal (ser_withdrawal w ++ r) = Some (w, r).
Proof.
  intros [a t] r W _. unfold wf_withdrawal, ok_withdrawal, ok_len in W. cbn [w_address w_tag] in W.
  rewrite max_int_val in W. split_ands W.
  unfold par_withdrawal, ser_withdrawal. cbn [w_address w_tag]. repeat rewrite <- app_assoc.
  rewrite rd_bytes_ser by lia. rewrite rd_bytes_ser by lia. reflexivity.
Qed.

Lemma par_keys_ser : forall ks r, Forall h_ok ks ->
  par_list rd_h32 (length ks) (flat_map ser_h32 ks ++ r) = Some (ks, r).
Proof.
  intros ks r H.
  apply (par_list_ser rd_h32 ser_h32 anyrest h_ok); auto.
  - intros a r0 Ha _. apply rd_h32_ser. exact Ha.
  - exact I.
Qed.

Lemma par_output_ser : forall lim o r, wf_output lim o -> anyrest r ->
  par_output lim (ser_output o ++ r) = Some (o, r).
Proof.
  intros lim [ty amt keys mask sb w] r W _. unfold wf_output, ok_output, ok_len, ok_integer in W.
  cbn [o_type o_amount o_keys o_mask o_script o_withdrawal] in W. rewrite max_int_val in W.
  destruct W as (Wt & Wk & Wm & Wl & W). split_ands W.
  unfold par_output, ser_output. cbn [o_type o_amount o_keys o_mask o_script o_withdrawal].
  repeat rewrite <- app_assoc.
  change ([0; ty] ++ ?x) with (0 :: ty :: x).
  assert (R : forall x, rd 2 (0 :: ty :: x) = Some ([0; ty], x)).
  { intro x. apply (rd_app_n 2 [0; ty] x); [reflexivity | discriminate]. }
  rewrite R. cbn [nth N.eqb negb].
  rewrite rd_integer_ser; [| lia | right; apply nonempty_app_l, be_enc_nonempty; lia].
  rewrite rd_u16_ser by lia.
  destruct (lim <? blen keys) eqn:E; [lia|].
  unfold blen at 1. rewrite Nat2N.id. rewrite par_keys_ser by exact Wk.
  rewrite rd_h32_ser by exact Wm. rewrite rd_bytes_ser by lia.
  rewrite (par_opt_ser par_withdrawal ser_withdrawal anyrest wf_withdrawal par_withdrawal_ser);
    [reflexivity | | exact I].
  destruct w; [exact W | exact I].
Qed.

(* ---- signature maps ------------------------------------------------------------------ *)
(* the canonical representative of a Go map: entries in strictly increasing index order *)
Fixpoint key_lt_all (k : N) (m : sigmap) : Prop :=
  match m with
  | [] => True
  | e :: m' => k < fst e /\ key_lt_all k m'
  end.
Fixpoint keys_inc (m : sigmap) : Prop :=
  match m with
  | [] => True
  | e :: m' => key_lt_all (fst e) m' /\ keys_inc m'
  end.

Lemma sig_insert_front : forall e m, key_lt_all (fst e) m -> sig_insert e m = e :: m.
Proof.
  intros e [|f m] H; [reflexivity|]. cbn [sig_insert]. destruct H as [H _].
  destruct (fst e <? fst f) eqn:E; [reflexivity | lia].
Qed.
Lemma sig_sort_sorted : forall m, keys_inc m -> sig_sort m = m.
Proof.
  induction m as [|e m IH]; intro H; [reflexivity|]. destruct H as [H1 H2].
  cbn [sig_sort]. rewrite IH by exact H2. apply sig_insert_front. exact H1.
Qed.
Lemma keys_distinct_sorted : forall m, keys_inc m -> keys_distinct m = true.
Proof.
  induction m as [|e m IH]; intro H; [reflexivity|]. destruct H as [H1 H2].
  cbn [keys_distinct]. rewrite IH by exact H2. rewrite andb_true_r.
  apply negb_true_iff. clear IH H2. induction m as [|f m IHm]; [reflexivity|].
  destruct H1 as [Ha Hb]. cbn [existsb]. rewrite IHm by exact Hb.
  destruct (fst f =? fst e) eqn:E; [lia | reflexivity].
Qed.

Definition wf_entry (e : N * N) : Prop := fst e <= 65535 /\ sig_ok (snd e).
Definition wf_sigs (m : sigmap) : Prop := keys_inc m /\ Forall wf_entry m /\ ok_sigs m = true.

Lemma par_sig_entry_ser : forall e r, wf_entry e -> anyrest r ->
  par_sig_entry (ser_sig_entry e ++ r) = Some (e, r).
Proof.
  intros [k s] r [Hk Hs] _. unfold par_sig_entry, ser_sig_entry. cbn [fst snd] in *.
  rewrite <- app_assoc, rd_u16_ser by exact Hk. rewrite rd_sig_ser by exact Hs. reflexivity.
Qed.

Lemma par_sigs_ser : forall m r, wf_sigs m -> anyrest r ->
  par_sigs (ser_sigs m ++ r) = Some (m, r).
Proof.
  intros m r (Hi & He & Hl) _. unfold ok_sigs in Hl. rewrite max_int_val in Hl.
  unfold par_sigs, ser_sigs. rewrite sig_sort_sorted by exact Hi.
  rewrite <- app_assoc, rd_u16_ser by lia. unfold blen. rewrite Nat2N.id.
  rewrite (par_list_ser par_sig_entry ser_sig_entry anyrest wf_entry par_sig_entry_ser); auto.
  - rewrite keys_distinct_sorted by exact Hi. reflexivity.
  - exact I.
Qed.

(* ---- aggregated signatures ------------------------------------------------------------ *)
Definition agg_tail (signers : list N) : bytes :=
  match signers with
  | [] => [ordinary_mask] ++ ser_u16 0
  | _ =>
      let mx := last signers 0 in
      if 2 * blen signers <? mx / 8 + 1
      then [sparse_mask] ++ ser_u16 (blen signers) ++ flat_map ser_u16 signers
      else let masks := masks_of signers mx in
           [ordinary_mask] ++ ser_u16 (blen masks) ++ masks
  end.
Lemma ser_agg_tail : forall sg s,
  ser_agg sg s = ser_u16 max_int ++ ser_u16 agg_prefix ++ ser_sig sg ++ agg_tail s.
Proof. reflexivity. Qed.

Lemma signers_increasing_bound : forall s p, signers_increasing p s = true -> Forall (fun m => m <= 65535) s.
Proof.
  induction s as [|m s IH]; intros p H; [constructor|]. cbn [signers_increasing] in H.
  rewrite max_int_val in H. split_ands H. constructor; [lia | eapply IH; exact H].
Qed.

Lemma par_u16_list_ser : forall s r, Forall (fun m => m <= 65535) s ->
  par_list rd_u16 (length s) (flat_map ser_u16 s ++ r) = Some (s, r).
Proof.
  intros s r H.
  apply (par_list_ser rd_u16 ser_u16 anyrest (fun m => m <= 65535)); auto.
  - intros a r0 Ha _. apply rd_u16_ser. exact Ha.
  - exact I.
Qed.

(* strictly increasing lists of numbers *)
Fixpoint lt_all (k : N) (s : list N) : Prop :=
  match s with
  | [] => True
  | m :: s' => k < m /\ lt_all k s'
  end.
Fixpoint inc (s : list N) : Prop :=
  match s with
  | [] => True
  | m :: s' => lt_all m s' /\ inc s'
  end.
Definition mem (s : list N) (m : N) : bool := existsb (N.eqb m) s.

Lemma lt_all_weaken : forall s a b, a <= b -> lt_all b s -> lt_all a s.
Proof.
  induction s as [|m s IH]; intros a b Hab H; [exact I|]. destruct H as [H1 H2].
  split; [lia | eapply IH; eassumption].
Qed.
Lemma lt_all_In : forall s a m, lt_all a s -> In m s -> a < m.
Proof.
  induction s as [|x s IH]; intros a m H Hin; [contradiction|]. destruct H as [H1 H2].
  destruct Hin as [->|Hin]; [exact H1 | eapply IH; eassumption].
Qed.
Lemma In_lt_all : forall s a, (forall m, In m s -> a < m) -> lt_all a s.
Proof.
  induction s as [|x s IH]; intros a H; [exact I|]. split; [apply H; left; reflexivity|].
  apply IH. intros m Hm. apply H. right. exact Hm.
Qed.
Lemma mem_lt_all : forall s a, lt_all a s -> mem s a = false.
Proof.
  induction s as [|x s IH]; intros a H; [reflexivity|]. destruct H as [H1 H2].
  unfold mem in *. cbn [existsb]. rewrite IH by exact H2. destruct (a =? x) eqn:E; [lia | reflexivity].
Qed.
Lemma mem_In : forall s m, mem s m = true <-> In m s.
Proof.
  intros s m. unfold mem. rewrite existsb_exists. split.
  - intros [x [Hx E]]. apply N.eqb_eq in E. subst. exact Hx.
  - intro H. exists m. split; [exact H | apply N.eqb_refl].
Qed.

Lemma signers_increasing_inc : forall s p, signers_increasing (Some p) s = true -> lt_all p s /\ inc s.
Proof.
  induction s as [|m s IH]; intros p H; [split; exact I|]. cbn [signers_increasing] in H.
  split_ands H. destruct (IH m H) as [L I']. split.
  - split; [lia|]. apply lt_all_weaken with m; [lia | exact L].
  - split; assumption.
Qed.
Lemma signers_increasing_none_inc : forall s, signers_increasing None s = true -> inc s.
Proof.
  intros [|m s] H; [exact I|]. cbn [signers_increasing] in H. split_ands H.
  destruct (signers_increasing_inc s m H) as [L I']. split; assumption.
Qed.

Lemma inc_last_max : forall s m, inc s -> In m s -> m <= last s 0.
Proof.
  induction s as [|x s IH]; intros m H Hin; [contradiction|]. destruct H as [H1 H2].
  destruct s as [|y s'].
  - destruct Hin as [<-|[]]. cbn. lia.
  - change (last (x :: y :: s') 0) with (last (y :: s') 0).
    destruct Hin as [<-|Hin].
    + assert (x < y) by (destruct H1; assumption).
      specialize (IH y H2 (or_introl eq_refl)). lia.
    + apply IH; assumption.
Qed.

Lemma nseq_In : forall k a m, In m (nseq a k) <-> a <= m < a + N.of_nat k.
Proof.
  induction k as [|k IH]; intros a m; cbn [nseq In].
  - lia.
  - rewrite IH. lia.
Qed.
Lemma nseq_inc : forall k a, inc (nseq a k).
Proof.
  induction k as [|k IH]; intro a; [exact I|]. cbn [nseq inc]. split; [|apply IH].
  apply In_lt_all. intros m Hm. destruct (proj1 (nseq_In _ _ _) Hm) as [A B]. lia.
Qed.
Lemma nseq_app : forall k1 k2 a, nseq a (k1 + k2) = nseq a k1 ++ nseq (a + N.of_nat k1) k2.
Proof.
  induction k1 as [|k1 IH]; intros k2 a.
  - change (N.of_nat 0) with 0. rewrite N.add_0_r. reflexivity.
  - cbn [nseq Nat.add app]. rewrite IH. f_equal. f_equal. f_equal. lia.
Qed.

(* filtering an increasing enumeration by membership in an increasing sublist *)
Lemma filter_mem_inc : forall L s, inc L -> inc s -> (forall m, In m s -> In m L) ->
  filter (mem s) L = s.
Proof.
  induction L as [|a L IH]; intros s HL Hs Hsub.
  - destruct s as [|m s]; [reflexivity|]. exfalso. apply (Hsub m). left. reflexivity.
  - destruct HL as [HaL HL]. cbn [filter]. destruct s as [|m0 s'].
    + cbn. apply (IH [] HL I). intros m [].
    + destruct Hs as [Hm0 Hs']. destruct (N.eq_dec a m0) as [->|Hne].
      * unfold mem at 1. cbn [existsb]. rewrite N.eqb_refl. cbn [orb]. f_equal.
        rewrite <- (IH s' HL Hs') at 2.
        -- apply filter_ext_in. intros x Hx. unfold mem. cbn [existsb].
           pose proof (lt_all_In _ _ _ HaL Hx). destruct (x =? m0) eqn:E; [lia | reflexivity].
        -- intros m Hm. pose proof (lt_all_In _ _ _ Hm0 Hm).
           destruct (Hsub m (or_intror Hm)) as [E|Hin]; [lia | exact Hin].
      * assert (Hin0 : In m0 L).
        { destruct (Hsub m0 (or_introl eq_refl)) as [E|Hin]; [congruence | exact Hin]. }
        pose proof (lt_all_In _ _ _ HaL Hin0) as Ha.
        assert (Hf : mem (m0 :: s') a = false).
        { apply mem_lt_all. split; [exact Ha|]. apply lt_all_weaken with m0; [lia | exact Hm0]. }
        rewrite Hf. apply IH; [exact HL | split; assumption|].
        intros m Hm. destruct (Hsub m Hm) as [E|Hin]; [|exact Hin].
        subst m. destruct Hm as [E|Hm]; [lia|]. pose proof (lt_all_In _ _ _ Hm0 Hm). lia.
Qed.

(* bit j of mask byte i is set iff 8i+j is a signer *)
Definition mask_step (i acc m : N) : N :=
  if m / 8 =? i then N.lxor acc (N.shiftl 1 (m mod 8)) else acc.

Lemma mask_step_bit : forall i acc m j, j < 8 ->
  N.testbit (mask_step i acc m) j = xorb (N.testbit acc j) (i * 8 + j =? m).
Proof.
  intros i acc m j Hj. unfold mask_step.
  pose proof (N.div_mod m 8 ltac:(discriminate)) as D.
  pose proof (N.mod_lt m 8 ltac:(discriminate)) as M.
  destruct (m / 8 =? i) eqn:E.
  - apply N.eqb_eq in E. rewrite N.lxor_spec, N.shiftl_1_l, N.pow2_bits_eqb. f_equal.
    destruct (m mod 8 =? j) eqn:E1; destruct (i * 8 + j =? m) eqn:E2; try reflexivity; lia.
  - apply N.eqb_neq in E. destruct (i * 8 + j =? m) eqn:E2; [|rewrite xorb_false_r; reflexivity].
    exfalso. apply E. apply N.eqb_eq in E2. subst m.
    symmetry. apply (N.div_unique (i * 8 + j) 8 i j); lia.
Qed.

Lemma mask_fold_bit : forall i s acc j, inc s -> j < 8 ->
  N.testbit (fold_left (mask_step i) s acc) j = xorb (N.testbit acc j) (mem s (i * 8 + j)).
Proof.
  induction s as [|m s IH]; intros acc j Hs Hj.
  - cbn. rewrite xorb_false_r. reflexivity.
  - destruct Hs as [H1 H2]. cbn [fold_left]. rewrite IH by assumption.
    rewrite mask_step_bit by exact Hj. unfold mem. cbn [existsb].
    destruct (i * 8 + j =? m) eqn:E.
    + apply N.eqb_eq in E. rewrite <- E in H1. fold (mem s (i * 8 + j)).
      rewrite (mem_lt_all _ _ H1). destruct (N.testbit acc j); reflexivity.
    + rewrite xorb_false_r. reflexivity.
Qed.

Lemma mask_byte_bit : forall s i j, inc s -> j < 8 ->
  N.testbit (mask_byte s i) j = mem s (i * 8 + j).
Proof.
  intros s i j Hs Hj. unfold mask_byte. change (fun acc m => if m / 8 =? i then N.lxor acc (N.shiftl 1 (m mod 8)) else acc)
    with (mask_step i). rewrite mask_fold_bit by assumption. rewrite N.bits_0. apply xorb_false_l.
Qed.

Lemma byte_bits_mask : forall s i, inc s ->
  byte_bits i (mask_byte s i) = filter (mem s) (nseq (i * 8) 8).
Proof.
  intros s i Hs. unfold byte_bits. cbn [flat_map nseq filter app].
  repeat rewrite mask_byte_bit by (first [exact Hs | lia]).
  replace (i * 8 + 0) with (i * 8) by lia.
  replace (i * 8 + 1 + 1) with (i * 8 + 2) by lia.
  replace (i * 8 + 2 + 1) with (i * 8 + 3) by lia.
  replace (i * 8 + 3 + 1) with (i * 8 + 4) by lia.
  replace (i * 8 + 4 + 1) with (i * 8 + 5) by lia.
  replace (i * 8 + 5 + 1) with (i * 8 + 6) by lia.
  replace (i * 8 + 6 + 1) with (i * 8 + 7) by lia.
  repeat match goal with |- context [if ?c then _ else _] => destruct c end; reflexivity.
Qed.

Lemma mask_signers_masks : forall s k i, inc s ->
  mask_signers i (map (mask_byte s) (nseq i k)) = filter (mem s) (nseq (i * 8) (8 * k)).
Proof.
  intros s k. induction k as [|k IH]; intros i Hs.
  - reflexivity.
  - cbn [nseq map mask_signers]. rewrite IH by exact Hs. rewrite byte_bits_mask by exact Hs.
    replace (8 * S k)%nat with (8 + 8 * k)%nat by lia. rewrite nseq_app, filter_app.
    do 3 f_equal. lia.
Qed.

Lemma mask_roundtrip : forall s, s <> [] -> signers_increasing None s = true ->
  mask_signers 0 (masks_of s (last s 0)) = s.
Proof.
  intros s Hne H. pose proof (signers_increasing_none_inc s H) as Hs.
  unfold masks_of. rewrite mask_signers_masks by exact Hs.
  apply filter_mem_inc; [apply nseq_inc | exact Hs|].
  intros m Hm. apply nseq_In. pose proof (inc_last_max s m Hs Hm) as Hle.
  pose proof (N.div_mod (last s 0) 8 ltac:(discriminate)) as D.
  pose proof (N.mod_lt (last s 0) 8 ltac:(discriminate)) as M. lia.
Qed.

Lemma Forall_last : forall (P : N -> Prop) s d, Forall P s -> P d -> P (last s d).
Proof.
  induction s as [|x s IH]; intros d H Hd; [exact Hd|]. inversion H; subst.
  destruct s as [|y s']; [assumption|]. change (last (x :: y :: s') d) with (last (y :: s') d).
  apply IH; assumption.
Qed.

Definition wf_agg (sg : N) (s : list N) : Prop := sig_ok sg /\ validate_signers s = true.

Lemma par_agg_ser : forall sg s r, wf_agg sg s ->
  par_agg (ser_sig sg ++ agg_tail s ++ r) = Some ((sg, s), r).
Proof.
  intros sg s r [Hsg Hv]. unfold par_agg. rewrite rd_sig_ser by exact Hsg.
  pose proof Hv as Hv'. unfold validate_signers in Hv'. rewrite max_int_val in Hv'. split_ands Hv'.
  pose proof (signers_increasing_bound _ _ Hv') as Hb.
  assert (R1 : forall c x, rd 1 ([c] ++ x) = Some ([c], x)).
  { intros c x. apply (rd_app_n 1 [c] x); [reflexivity | discriminate]. }
  destruct s as [|m s'].
  - unfold agg_tail. rewrite <- app_assoc, R1. cbn [nth].
    change (ordinary_mask =? sparse_mask) with false. change (ordinary_mask =? ordinary_mask) with true. cbv iota.
    change (ser_u16 0 ++ r) with (ser_bytes [] ++ r). rewrite rd_bytes_ser by (cbn; lia).
    cbn [mask_signers]. rewrite Hv. reflexivity.
  - unfold agg_tail. set (s := m :: s') in *.
    destruct (2 * blen s <? last s 0 / 8 + 1) eqn:E.
    + repeat rewrite <- app_assoc. rewrite R1. cbn [nth].
      change (sparse_mask =? sparse_mask) with true. cbv iota.
      rewrite rd_u16_ser by lia. unfold blen at 1. rewrite Nat2N.id.
      rewrite par_u16_list_ser by exact Hb. rewrite Hv. reflexivity.
    + cbv zeta. repeat rewrite <- app_assoc. rewrite R1. cbn [nth].
      change (ordinary_mask =? sparse_mask) with false. change (ordinary_mask =? ordinary_mask) with true. cbv iota.
      change (ser_u16 (blen (masks_of s (last s 0))) ++ masks_of s (last s 0) ++ r)
        with (ser_bytes (masks_of s (last s 0)) ++ r) at 1.
      rewrite rd_bytes_ser.
      * rewrite mask_roundtrip; [rewrite Hv; reflexivity | discriminate | exact Hv'].
      * unfold masks_of, blen. rewrite map_length.
        assert (L : forall k a, length (nseq a k) = k) by (induction k; intro; cbn; [reflexivity | f_equal; auto]).
        rewrite L, N2Nat.id.
        assert (last s 0 <= 65535) by (apply (Forall_last (fun m => m <= 65535)); [exact Hb | lia]).
        pose proof (N.div_mod (last s 0) 8 ltac:(discriminate)). lia.
Qed.

(* ---- authorization and whole transactions ----------------------------------------------- *)
Definition wf_auth (a : auth) : Prop :=
  match a with
  | SigMaps ms => Forall wf_sigs ms /\ blen ms <= slice_limit
  | Aggregate sg s => wf_agg sg s
  end.

Lemma blen_0_nil : forall A (l : list A), blen l = 0 -> l = [].
Proof. intros A [|x l] H; [reflexivity | unfold blen in H; cbn in H; lia]. Qed.

Lemma par_auth_ser : forall a r, wf_auth a -> ok_auth a = true ->
  par_auth (ser_auth a ++ r) = Some (a, r).
Proof.
  intros [ms | sg s] r W O; unfold par_auth.
  - destruct W as [Wm Wl]. cbn [ok_auth] in O. rewrite max_int_val in *. rewrite slice_limit_val in *. split_ands O.
    cbn [ser_auth]. rewrite <- app_assoc, rd_u16_ser by lia.
    destruct (blen ms =? 65535) eqn:E1; [lia|].
    destruct (0 <? blen ms) eqn:E2.
    + rewrite N.min_l by lia. unfold blen at 1. rewrite Nat2N.id.
      rewrite (par_list_ser par_sigs ser_sigs anyrest wf_sigs par_sigs_ser); auto. exact I.
    + rewrite (blen_0_nil _ ms) by lia. reflexivity.
  - cbn [ser_auth]. rewrite ser_agg_tail. repeat rewrite <- app_assoc.
    rewrite rd_u16_ser by (rewrite max_int_val; lia). rewrite N.eqb_refl.
    rewrite rd_u16_ser by (rewrite agg_prefix_val; lia). rewrite N.eqb_refl.
    rewrite par_agg_ser by exact W. reflexivity.
Qed.

Definition wf_tx_lim (lim : N) (t : tx) : Prop :=
  t_version t = tx_version /\ h_ok (t_asset t)
  /\ Forall wf_input (t_inputs t) /\ Forall (wf_output lim) (t_outputs t)
  /\ Forall h_ok (t_refs t) /\ blen (t_refs t) <= lim
  /\ wf_auth (t_auth t) /\ ok_tx t = true.

Lemma ser_u16_nonend : forall v r, nonend (ser_u16 v ++ r).
Proof. intros v r. apply nonempty_app_l, be_enc_nonempty. lia. Qed.

Lemma dec_tx_lim_ser : forall lim t, wf_tx_lim lim t -> dec_tx_lim lim (ser_tx t) = Some t.
Proof.
  intros lim [ver asset ins outs refs extra au] (Wv & Wa & Wi & Wo & Wr & Wrl & Wau & O).
  cbn [t_version t_asset t_inputs t_outputs t_refs t_extra t_auth] in *. subst ver.
  unfold ok_tx in O. cbn [t_version t_asset t_inputs t_outputs t_refs t_extra t_auth] in O.
  rewrite slice_limit_val, max_int_val, extra_cap_val in O. split_ands O.
  unfold dec_tx_lim, ser_tx. cbn [t_version t_asset t_inputs t_outputs t_refs t_extra t_auth].
  rewrite (app_assoc magic).
  rewrite (rd_app_n 4 (magic ++ [0; tx_version])); [| reflexivity | rewrite magic_val; discriminate].
  unfold check_tx_version. rewrite bytes_eqb_refl, N.ltb_irrefl.
  rewrite rd_h32_ser by exact Wa.
  rewrite rd_u16_ser by lia. rewrite slice_limit_val.
  destruct (256 <? blen ins) eqn:E1; [lia|].
  unfold blen at 1. rewrite Nat2N.id.
  rewrite (par_list_ser par_input ser_input nonend wf_input par_input_ser);
    [| intros; apply ser_input_nonend | exact Wi | apply ser_u16_nonend].
  rewrite rd_u16_ser by lia.
  destruct (256 <? blen outs) eqn:E2; [lia|].
  unfold blen at 1. rewrite Nat2N.id.
  rewrite (par_list_ser (par_output lim) ser_output anyrest (wf_output lim) (par_output_ser lim));
    [| intros; exact I | exact Wo | exact I].
  rewrite rd_u16_ser by lia.
  destruct (lim <? blen refs) eqn:E3; [lia|].
  unfold blen at 1. rewrite Nat2N.id. rewrite par_keys_ser by exact Wr.
  rewrite rd_u32_ser by lia. rewrite extra_cap_val.
  destruct (4194304 <? blen extra) eqn:E4; [lia|].
  rewrite <- (app_nil_r (ser_auth au)).
  destruct (0 <? blen extra) eqn:E5.
  - rewrite rd_app by (destruct extra; [unfold blen in E5; cbn in E5; lia | discriminate]).
    rewrite par_auth_ser by assumption. reflexivity.
  - rewrite (blen_0_nil _ extra) by lia. cbn [app].
    rewrite par_auth_ser by assumption. reflexivity.
Qed.

(* ==== what the decoder's output satisfies (the encoder's guards) ========================= *)
Ltac step H :=
  match type of H with
  | match ?e with Some _ => _ | None => None end = Some _ =>
      let E := fresh "E" in destruct e as [[? ?]|] eqn:E; [cbv iota beta in H | discriminate H]
  | (if ?c then _ else _) = Some _ =>
      let C := fresh "C" in destruct c eqn:C; try discriminate H
  end.

Lemma rd_ok : forall k b x r, rd k b = Some (x, r) -> bytes_ok b ->
  bytes_ok x /\ bytes_ok r /\ blen x = k.
Proof.
  intros k b x r H Hb. destruct (rd_inv _ _ _ _ H) as (E & L & _). subst b.
  apply bytes_ok_app in Hb. destruct Hb. repeat split; assumption.
Qed.

Lemma rd_u16_ok : forall b v r, rd_u16 b = Some (v, r) -> bytes_ok b -> v <= 65535 /\ bytes_ok r.
Proof.
  intros b v r H Hb. unfold rd_u16 in H. step H. step H. inversion H; subst.
  destruct (rd_ok _ _ _ _ E Hb) as (_ & Hr & _). rewrite max_int_val in C. split; [lia | exact Hr].
Qed.

Lemma rd_fix_ok : forall k b x r,
  (let? (x, r) := rd k b in Some (be_dec x, r)) = Some (x, r) -> bytes_ok b -> bytes_ok r.
Proof.
  intros k b x r H Hb. step H. inversion H; subst. destruct (rd_ok _ _ _ _ E Hb) as (_ & Hr & _). exact Hr.
Qed.

Lemma rd_bytes_ok : forall b x r, rd_bytes b = Some (x, r) -> bytes_ok b -> blen x <= 65535 /\ bytes_ok r.
Proof.
  intros b x r H Hb. unfold rd_bytes in H. step H. destruct (rd_u16_ok _ _ _ E Hb) as [Hl Hr].
  step H.
  - inversion H; subst. split; [cbn; lia | exact Hr].
  - destruct (rd_ok _ _ _ _ H Hr) as (_ & Hr' & L). split; [lia | exact Hr'].
Qed.

Lemma int_size_le : forall v l, v < 256 ^ l -> int_size v <= l.
Proof.
  intros v l H. unfold int_size.
  assert (S : N.size v <= 8 * l).
  { destruct (N.eq_dec v 0) as [->|Hv]; [cbn; lia|].
    pose proof (N.size_le v) as S1. rewrite N.succ_double_spec in S1.
    change 256 with (2 ^ 8) in H. rewrite <- N.pow_mul_r in H.
    assert (L : 2 ^ N.size v < 2 ^ (8 * l + 1)) by (rewrite N.pow_add_r; cbn [N.pow]; lia).
    apply N.pow_lt_mono_r_iff in L; lia. }
  pose proof (N.div_mod (N.size v + 7) 8 ltac:(discriminate)).
  pose proof (N.mod_lt (N.size v + 7) 8 ltac:(discriminate)). lia.
Qed.

Lemma rd_integer_ok : forall b v r, rd_integer b = Some (v, r) -> bytes_ok b ->
  ok_integer v = true /\ bytes_ok r.
Proof.
  intros b v r H Hb. unfold rd_integer in H. step H. destruct (rd_u16_ok _ _ _ E Hb) as [Hl Hr].
  step H. inversion H; subst. destruct (rd_ok _ _ _ _ E0 Hr) as (Hx & Hr' & L).
  split; [|exact Hr']. unfold ok_integer. rewrite max_int_val.
  pose proof (be_dec_bound _ Hx) as B. unfold blen in L. rewrite L in B.
  pose proof (int_size_le _ _ B). lia.
Qed.

Lemma rd_magic_ok : forall b h r, rd_magic b = Some (h, r) -> bytes_ok b -> bytes_ok r.
Proof.
  intros b h r H Hb. unfold rd_magic in H. step H. destruct (rd_ok _ _ _ _ E Hb) as (_ & Hr & _).
  step H; [inversion H; subst; exact Hr|]. step H. inversion H; subst; exact Hr.
Qed.

Section InvCombinators.
  Context {A : Type} (p : bytes -> option (A * bytes)) (P : A -> Prop).
  Hypothesis p_ok : forall b x r, p b = Some (x, r) -> bytes_ok b -> P x /\ bytes_ok r.

  Lemma par_list_ok : forall n b xs r, par_list p n b = Some (xs, r) -> bytes_ok b ->
    Forall P xs /\ bytes_ok r /\ length xs = n.
  Proof.
    induction n as [|n IH]; intros b xs r H Hb; cbn [par_list] in H.
    - inversion H; subst. repeat split; [constructor | exact Hb].
    - step H. step H. inversion H; subst. destruct (p_ok _ _ _ E Hb) as [Px Hr].
      destruct (IH _ _ _ E0 Hr) as (F & Hr' & L). repeat split; [constructor; assumption | exact Hr' | cbn; lia].
  Qed.

  Lemma par_opt_ok : forall b o r, par_opt p b = Some (o, r) -> bytes_ok b ->
    match o with Some a => P a | None => True end /\ bytes_ok r.
  Proof.
    intros b o r H Hb. unfold par_opt in H. step H. pose proof (rd_magic_ok _ _ _ E Hb) as Hr.
    destruct b0.
    - step H. inversion H; subst. apply (p_ok _ _ _ E0 Hr).
    - inversion H; subst. split; [exact I | exact Hr].
  Qed.
End InvCombinators.

Ltac discharge_leb :=
  repeat match goal with
  | |- context [?a <=? ?b] =>
      let X := fresh "X" in assert (X : (a <=? b) = true) by (unfold blen in *; lia); rewrite X; clear X
  | |- context [?a <? ?b] =>
      let X := fresh "X" in assert (X : (a <? b) = true) by (unfold blen in *; lia); rewrite X; clear X
  end.

Lemma ok_len_le : forall x, blen x <= 65535 -> ok_len x = true.
Proof. intros x H. unfold ok_len. rewrite max_int_val. lia. Qed.

Lemma par_deposit_ok : forall b d r, par_deposit b = Some (d, r) -> bytes_ok b ->
  ok_deposit d = true /\ bytes_ok r.
Proof.
  intros b d r H Hb. unfold par_deposit in H.
  step H. pose proof (rd_fix_ok _ _ _ _ E Hb) as H1.
  step H. destruct (rd_bytes_ok _ _ _ E0 H1) as [L2 H2].
  step H. destruct (rd_bytes_ok _ _ _ E1 H2) as [L3 H3].
  step H. pose proof (rd_fix_ok _ _ _ _ E2 H3) as H4.
  step H. destruct (rd_integer_ok _ _ _ E3 H4) as [L5 H5].
  inversion H; subst. split; [|exact H5]. unfold ok_deposit. cbn [d_asset_key d_tx d_amount].
  rewrite (ok_len_le _ L2), (ok_len_le _ L3), L5. reflexivity.
Qed.

Lemma par_mint_ok : forall b m r, par_mint b = Some (m, r) -> bytes_ok b ->
  ok_mint m = true /\ bytes_ok r.
Proof.
  intros b m r H Hb. unfold par_mint in H.
  step H. destruct (rd_bytes_ok _ _ _ E Hb) as [L1 H1].
  step H. pose proof (rd_fix_ok _ _ _ _ E0 H1) as H2.
  step H. destruct (rd_integer_ok _ _ _ E1 H2) as [L3 H3].
  inversion H; subst. split; [|exact H3]. unfold ok_mint. cbn [m_group m_amount].
  rewrite (ok_len_le _ L1), L3. reflexivity.
Qed.

Lemma par_input_ok : forall b i r, par_input b = Some (i, r) -> bytes_ok b ->
  ok_input i = true /\ bytes_ok r.
Proof.
  intros b i r H Hb. unfold par_input in H.
  step H. pose proof (rd_fix_ok _ _ _ _ E Hb) as H1.
  step H. destruct (rd_u16_ok _ _ _ E0 H1) as [L2 H2].
  step H.
  step H. destruct (rd_bytes_ok _ _ _ E1 H2) as [L3 H3].
  step H. destruct (par_opt_ok par_deposit (fun d => ok_deposit d = true) par_deposit_ok _ _ _ E2 H3) as [L4 H4].
  step H. destruct (par_opt_ok par_mint (fun m => ok_mint m = true) par_mint_ok _ _ _ E3 H4) as [L5 H5].
  inversion H; subst. split; [|exact H5]. unfold ok_input. cbn [i_index i_genesis i_deposit i_mint].
  rewrite (ok_len_le _ L3). rewrite index_limit_val in *.
  discharge_leb.
  destruct o; destruct o0; cbn [ok_opt]; try rewrite L4; try rewrite L5; reflexivity.
Qed.

Lemma par_withdrawal_ok : forall b w r, par_withdrawal b = Some (w, r) -> bytes_ok b ->
  ok_withdrawal w = true /\ bytes_ok r.
Proof.
  intros b w r H Hb. unfold par_withdrawal in H.
  step H. destruct (rd_bytes_ok _ _ _ E Hb) as [L1 H1].
  step H. destruct (rd_bytes_ok _ _ _ E0 H1) as [L2 H2].
  inversion H; subst. split; [|exact H2]. unfold ok_withdrawal. cbn [w_address w_tag].
  rewrite (ok_len_le _ L1), (ok_len_le _ L2). reflexivity.
Qed.

Lemma rd_h32_ok : forall b x r, rd_h32 b = Some (x, r) -> bytes_ok b -> True /\ bytes_ok r.
Proof. intros b x r H Hb. split; [exact I | exact (rd_fix_ok _ _ _ _ H Hb)]. Qed.

Lemma par_output_ok : forall lim b o r, lim <= 65535 -> par_output lim b = Some (o, r) -> bytes_ok b ->
  ok_output o = true /\ bytes_ok r.
Proof.
  intros lim b o r Hlim H Hb. unfold par_output in H.
  step H. destruct (rd_ok _ _ _ _ E Hb) as (_ & H1 & _).
  step H.
  step H. destruct (rd_integer_ok _ _ _ E0 H1) as [L2 H2].
  step H. destruct (rd_u16_ok _ _ _ E1 H2) as [L3 H3].
  step H.
  step H. destruct (par_list_ok rd_h32 (fun _ => True) rd_h32_ok _ _ _ _ E2 H3) as (_ & H4 & L4).
  step H. pose proof (rd_fix_ok _ _ _ _ E3 H4) as H5.
  step H. destruct (rd_bytes_ok _ _ _ E4 H5) as [L6 H6].
  step H. destruct (par_opt_ok par_withdrawal (fun w => ok_withdrawal w = true) par_withdrawal_ok _ _ _ E5 H6) as [L7 H7].
  inversion H; subst. split; [|exact H7]. unfold ok_output. cbn [o_amount o_keys o_script o_withdrawal].
  rewrite L2, (ok_len_le _ L6). rewrite max_int_val.
  discharge_leb.
  destruct o0; cbn [ok_opt]; try rewrite L7; reflexivity.
Qed.

Lemma par_sig_entry_ok : forall b e r, par_sig_entry b = Some (e, r) -> bytes_ok b -> True /\ bytes_ok r.
Proof.
  intros b e r H Hb. unfold par_sig_entry in H.
  step H. destruct (rd_u16_ok _ _ _ E Hb) as [_ H1].
  step H. pose proof (rd_fix_ok _ _ _ _ E0 H1) as H2. inversion H; subst. split; [exact I | exact H2].
Qed.

Lemma par_sigs_ok : forall b m r, par_sigs b = Some (m, r) -> bytes_ok b -> ok_sigs m = true /\ bytes_ok r.
Proof.
  intros b m r H Hb. unfold par_sigs in H.
  step H. destruct (rd_u16_ok _ _ _ E Hb) as [L1 H1].
  step H. destruct (par_list_ok par_sig_entry (fun _ => True) par_sig_entry_ok _ _ _ _ E0 H1) as (_ & H2 & L2).
  step H. inversion H; subst. split; [|exact H2]. unfold ok_sigs, blen. rewrite max_int_val. lia.
Qed.

Lemma rd_u16_ok' : forall b v r, rd_u16 b = Some (v, r) -> bytes_ok b -> True /\ bytes_ok r.
Proof. intros b v r H Hb. destruct (rd_u16_ok _ _ _ H Hb). split; [exact I | assumption]. Qed.

Lemma par_agg_ok : forall b js r, par_agg b = Some (js, r) -> bytes_ok b ->
  validate_signers (snd js) = true /\ bytes_ok r.
Proof.
  intros b js r H Hb. unfold par_agg in H.
  step H. pose proof (rd_fix_ok _ _ _ _ E Hb) as H1.
  step H. destruct (rd_ok _ _ _ _ E0 H1) as (_ & H2 & _).
  step H. step H. inversion H; subst. split; [exact C|]. clear H C.
  step E1.
  - step E1. destruct (rd_u16_ok _ _ _ E2 H2) as [_ H3].
    destruct (par_list_ok rd_u16 (fun _ => True) rd_u16_ok' _ _ _ _ E1 H3) as (_ & H4 & _). exact H4.
  - step E1. step E1. inversion E1; subst. destruct (rd_bytes_ok _ _ _ E2 H2) as [_ H3]. exact H3.
Qed.

Lemma par_auth_ok : forall b a r, par_auth b = Some (a, r) -> bytes_ok b -> ok_auth a = true /\ bytes_ok r.
Proof.
  intros b a r H Hb. unfold par_auth in H.
  step H. destruct (rd_u16_ok _ _ _ E Hb) as [L1 H1].
  step H.
  - step H. destruct (rd_u16_ok _ _ _ E0 H1) as [_ H2]. step H. step H.
    destruct (par_agg_ok _ _ _ E1 H2) as [V H3]. inversion H; subst. split; [|exact H3].
    cbn [ok_auth]. destruct (snd p); [reflexivity | exact V].
  - rewrite max_int_val in C. step H.
    + step H. destruct (par_list_ok par_sigs (fun m => ok_sigs m = true) par_sigs_ok _ _ _ _ E0 H1) as (F & H2 & L2).
      inversion H; subst. split; [|exact H2]. cbn [ok_auth]. rewrite max_int_val.
      rewrite slice_limit_val in L2. discharge_leb.
      apply forallb_forall. intros m Hm. rewrite Forall_forall in F. apply F. exact Hm.
    + inversion H; subst. split; [reflexivity | exact H1].
Qed.

Lemma Forall_forallb : forall A (f : A -> bool) l, Forall (fun x => f x = true) l -> forallb f l = true.
Proof. intros A f l H. apply forallb_forall. rewrite Forall_forall in H. exact H. Qed.

Lemma dec_tx_lim_ok : forall lim b t, lim <= 65535 -> dec_tx_lim lim b = Some t -> bytes_ok b ->
  t_version t = tx_version /\ ok_tx t = true.
Proof.
  intros lim b t Hlim H Hb. unfold dec_tx_lim in H.
  step H. destruct (rd_ok _ _ _ _ E Hb) as (_ & H1 & _).
  step H.
  step H. pose proof (rd_fix_ok _ _ _ _ E0 H1) as H2.
  step H. destruct (rd_u16_ok _ _ _ E1 H2) as [L3 H3].
  step H.
  step H. destruct (par_list_ok par_input (fun i => ok_input i = true) par_input_ok _ _ _ _ E2 H3) as (F4 & H4 & L4).
  step H. destruct (rd_u16_ok _ _ _ E3 H4) as [L5 H5].
  step H.
  step H. destruct (par_list_ok (par_output lim) (fun o => ok_output o = true)
                      (fun b x r => par_output_ok lim b x r Hlim) _ _ _ _ E4 H5) as (F6 & H6 & L6).
  step H. destruct (rd_u16_ok _ _ _ E5 H6) as [L7 H7].
  step H.
  step H. destruct (par_list_ok rd_h32 (fun _ => True) rd_h32_ok _ _ _ _ E6 H7) as (_ & H8 & L8).
  step H. pose proof (rd_fix_ok _ _ _ _ E7 H8) as H9.
  step H.
  step H.
  match goal with
  | EE : (if 0 <? ?n then rd ?n ?bb else Some ([], ?bb)) = Some (?x, ?rr) |- _ =>
      assert (X : blen x <= 4194304 /\ bytes_ok rr);
      [ rewrite extra_cap_val in *; destruct (0 <? n) eqn:Z;
        [ destruct (rd_ok _ _ _ _ EE H9) as (_ & Hr & L); split; [lia | exact Hr]
        | inversion EE; subst; split; [cbn; lia | exact H9] ] | ]
  end.
  destruct X as [L10 H10].
  step H. destruct (par_auth_ok _ _ _ E9 H10) as [L11 H11].
  match type of H with match ?bb with [] => _ | _ :: _ => _ end = _ => destruct bb; [|discriminate H] end.
  inversion H; subst. clear H.
  cbn [t_version]. split.
  - unfold check_tx_version in *.
    match goal with |- context [bytes_eqb ?x ?y] => destruct (bytes_eqb x y) end; [reflexivity|].
    rewrite tx_version_val in C. cbn in C. discriminate.
  - unfold ok_tx. cbn [t_inputs t_outputs t_refs t_extra t_auth].
    rewrite slice_limit_val, max_int_val, extra_cap_val in *.
    rewrite (Forall_forallb _ _ _ F4), (Forall_forallb _ _ _ F6), L11.
    discharge_leb. reflexivity.
Qed.
